// Harness for C07/C08: drives the real table.PitCsTree (through the PitCsTable API) and the real fw.Thread pipeline
// inside a testing/synctest bubble (virtual time) on generated operation histories and writes a trace for the Coq
// runner (runner/PitCs/driver.ml).
//
// Environment: VERIF_SEED, VERIF_N (number of generated cases), VERIF_OUT (trace path), VERIF_MODE (cs|fw|mix|all),
// VERIF_OPS (file with harness-level operations of ONE case: replay / shrinking), VERIF_CORPUS (directory of such files,
// replayed first).
//
// Trace (line oriented):
//   case <k> <source>                      start of a case
//   gen <harness-level op>                 what the generator asked for (enough to replay the case)
//   op <model-level op>                    what was applied to the implementation (the runner applies it to the model)
//   obs <kind> <value>                     what the implementation showed
//   quiescent                              every lifetime involved has elapsed (C08 oracle applies to the next obs st)
//   end
package pitcs

import (
	"bufio"
	"encoding/binary"
	"encoding/hex"
	"fmt"
	"math/rand"
	"os"
	"path/filepath"
	"runtime"
	"sort"
	"strconv"
	"strings"
	"sync"
	"sync/atomic"
	"syscall"
	"testing"
	"testing/synctest"
	"time"

	"github.com/named-data/ndnd/fw/core"
	"github.com/named-data/ndnd/fw/defn"
	"github.com/named-data/ndnd/fw/dispatch"
	"github.com/named-data/ndnd/fw/face"
	"github.com/named-data/ndnd/fw/fw"
	fwmgmt "github.com/named-data/ndnd/fw/mgmt"
	"github.com/named-data/ndnd/fw/table"
	enc "github.com/named-data/ndnd/std/encoding"
	"github.com/named-data/ndnd/std/ndn"
	mgmt "github.com/named-data/ndnd/std/ndn/mgmt_2022"
	spec "github.com/named-data/ndnd/std/ndn/spec_2022"
	"github.com/named-data/ndnd/std/utils"
)

// ---------------------------------------------------------------------------------------------------------------
// names: components are interned numbers 1..; a name is "-" (root) or dot separated numbers
// ---------------------------------------------------------------------------------------------------------------
// Components 1..8 are generic with different values; 9..14 carry the SAME value bytes (01) under the types generic, keyword,
// segment, byte offset, version and an application type >= 65536; 15, 16 are typed siblings of component 1 ("a"). Names that differ
// only in the type of a component are different names: the tables must keep them apart.
var compVals = [][]byte{nil, []byte("a"), []byte("b"), []byte("cc"), []byte{}, []byte("d0"), []byte{0xff, 0x00}, []byte("a/b"), []byte("e")}
var typedComps = map[int]enc.Component{
	9:  {Typ: enc.TypeGenericNameComponent, Val: []byte{1}},
	10: {Typ: enc.TypeKeywordNameComponent, Val: []byte{1}},
	11: {Typ: enc.TypeSegmentNameComponent, Val: []byte{1}},
	12: {Typ: enc.TypeByteOffsetNameComponent, Val: []byte{1}},
	13: {Typ: enc.TypeVersionNameComponent, Val: []byte{1}},
	14: {Typ: 65541, Val: []byte{1}},
	15: {Typ: enc.TypeKeywordNameComponent, Val: []byte("a")},
	16: {Typ: 70000, Val: []byte("a")},
}

func compOf(k int) enc.Component {
	if k < len(compVals) {
		return enc.Component{Typ: enc.TypeGenericNameComponent, Val: compVals[k]}
	}
	if c, ok := typedComps[k]; ok {
		return c
	}
	return enc.NewNumberComponent(enc.TypeSegmentNameComponent, uint64(k))
}

type nm []int

func (n nm) String() string {
	if len(n) == 0 {
		return "-"
	}
	p := make([]string, len(n))
	for i, c := range n {
		p[i] = strconv.Itoa(c)
	}
	return strings.Join(p, ".")
}

func parseNm(s string) nm {
	if s == "-" {
		return nm{}
	}
	var n nm
	for _, p := range strings.Split(s, ".") {
		v, err := strconv.Atoi(p)
		if err != nil {
			panic("bad name " + s)
		}
		n = append(n, v)
	}
	return n
}

func (n nm) enc() enc.Name {
	r := make(enc.Name, len(n))
	for i, c := range n {
		r[i] = compOf(c)
	}
	return r
}

// reverse mapping for dumps: by (type, value), never by hash
const nComps = 32

var compByKey = map[string]int{}

// compCollisions lists pairs of DIFFERENT universe components whose 64-bit hashes are equal (the tables keyed by a hash are
// modelled as keyed by the component: such a pair voids that assumption and is reported, not silently tolerated)
var compCollisions [][2]int

func compKey(c enc.Component) string { return strconv.FormatUint(uint64(c.Typ), 10) + ":" + string(c.Val) }

func init() {
	byHash := map[uint64]int{}
	for k := 1; k < nComps; k++ {
		c := compOf(k)
		compByKey[compKey(c)] = k
		h := c.Hash()
		if o, dup := byHash[h]; dup {
			compCollisions = append(compCollisions, [2]int{o, k})
		} else {
			byHash[h] = k
		}
	}
}

func nmOfEnc(e enc.Name) nm {
	r := make(nm, len(e))
	for i, c := range e {
		k, ok := compByKey[compKey(c)]
		if !ok {
			k = 999
		}
		r[i] = k
	}
	return r
}

// ---------------------------------------------------------------------------------------------------------------
// harness-level operations
// ---------------------------------------------------------------------------------------------------------------
type hop struct {
	kind    string // ins find cap int data run quiesce
	name    nm
	variant int
	fresh   int // ms, -1 = no FreshnessPeriod (no MetaInfo)
	cbp     bool
	mbf     bool
	face    uint64
	nonce   uint32
	life    int    // ms, -1 = absent
	tok     string // "-", "bad", or "<name>:<cbp>:<mbf>"
	n       int    // cap value / run ms
	nh      uint64 // NextHopFaceId carried by the Interest (NDNLPv2 field), 0 = none
	ucap    uint64 // mcap: the Capacity field of the cs/config command (a uint64 on the wire)
}

func b01(b bool) string {
	if b {
		return "1"
	}
	return "0"
}
func opt(i int) string {
	if i < 0 {
		return "-"
	}
	return strconv.Itoa(i)
}
func unopt(s string) int {
	if s == "-" {
		return -1
	}
	v, err := strconv.Atoi(s)
	if err != nil {
		panic("bad number " + s)
	}
	return v
}

func (o hop) String() string {
	switch o.kind {
	case "ins":
		return fmt.Sprintf("ins %s %d %s", o.name, o.variant, opt(o.fresh))
	case "find":
		return fmt.Sprintf("find %s %s %s", o.name, b01(o.cbp), b01(o.mbf))
	case "cap":
		if o.n < 0 {
			return "cap neg"
		}
		return fmt.Sprintf("cap %d", o.n)
	case "mcap":
		return fmt.Sprintf("mcap %d", o.ucap)
	case "int":
		if o.nh != 0 {
			return fmt.Sprintf("int %d %s %s %s %d %s nh=%d", o.face, o.name, b01(o.cbp), b01(o.mbf), o.nonce, opt(o.life), o.nh)
		}
		return fmt.Sprintf("int %d %s %s %s %d %s", o.face, o.name, b01(o.cbp), b01(o.mbf), o.nonce, opt(o.life))
	case "data":
		return fmt.Sprintf("data %d %s %d %s %s", o.face, o.name, o.variant, opt(o.fresh), o.tok)
	case "rmstale":
		return fmt.Sprintf("rmstale %s %s %s", o.name, b01(o.cbp), b01(o.mbf))
	case "run":
		return fmt.Sprintf("run %d", o.n)
	case "runns":
		return fmt.Sprintf("runns %d", o.n)
	case "quiesce":
		return "quiesce"
	}
	panic("bad op kind " + o.kind)
}

func parseHop(s string) hop {
	f := strings.Fields(s)
	switch f[0] {
	case "ins":
		return hop{kind: "ins", name: parseNm(f[1]), variant: unopt(f[2]), fresh: unopt(f[3])}
	case "find":
		return hop{kind: "find", name: parseNm(f[1]), cbp: f[2] == "1", mbf: f[3] == "1"}
	case "cap":
		if f[1] == "neg" {
			return hop{kind: "cap", n: -1}
		}
		return hop{kind: "cap", n: unopt(f[1])}
	case "mcap":
		u, err := strconv.ParseUint(f[1], 10, 64)
		if err != nil {
			panic("bad mcap " + s)
		}
		return hop{kind: "mcap", ucap: u}
	case "int":
		fc, _ := strconv.ParseUint(f[1], 10, 64)
		no, _ := strconv.ParseUint(f[5], 10, 32)
		h := hop{kind: "int", face: fc, name: parseNm(f[2]), cbp: f[3] == "1", mbf: f[4] == "1", nonce: uint32(no), life: unopt(f[6])}
		if len(f) > 7 && strings.HasPrefix(f[7], "nh=") {
			h.nh, _ = strconv.ParseUint(f[7][3:], 10, 64)
		}
		return h
	case "data":
		fc, _ := strconv.ParseUint(f[1], 10, 64)
		return hop{kind: "data", face: fc, name: parseNm(f[2]), variant: unopt(f[3]), fresh: unopt(f[4]), tok: f[5]}
	case "rmstale":
		return hop{kind: "rmstale", name: parseNm(f[1]), cbp: f[2] == "1", mbf: f[3] == "1"}
	case "run":
		return hop{kind: "run", n: unopt(f[1])}
	case "runns":
		return hop{kind: "runns", n: unopt(f[1])}
	case "quiesce":
		return hop{kind: "quiesce"}
	}
	panic("bad op line " + s)
}

type caseCfg struct {
	cap     int
	serve   bool
	admit   bool
	dnlMs   int
	fib     []fibRoute
	mcast   []nm // prefixes with the multicast strategy
	dnlTies bool // when several timers are due at the same instant service the DNL ticker first
	loop    bool // drive the history through the real `go Thread.Run()` loop (QueueInterest/QueueData, self-firing timers)
}
type fibRoute struct {
	prefix nm
	face   uint64
	cost   uint64
}

func (c caseCfg) String() string {
	var fr, mc []string
	for _, r := range c.fib {
		fr = append(fr, fmt.Sprintf("%s>%d@%d", r.prefix, r.face, r.cost))
	}
	for _, m := range c.mcast {
		mc = append(mc, m.String())
	}
	j := func(l []string) string {
		if len(l) == 0 {
			return "-"
		}
		return strings.Join(l, ",")
	}
	return fmt.Sprintf("cfg cap=%d serve=%s admit=%s dnl=%d fib=%s mcast=%s dnlfirst=%s loop=%s", c.cap, b01(c.serve), b01(c.admit), c.dnlMs, j(fr), j(mc), b01(c.dnlTies), b01(c.loop))
}

func parseCfg(s string) caseCfg {
	c := caseCfg{}
	for _, f := range strings.Fields(s)[1:] {
		kv := strings.SplitN(f, "=", 2)
		switch kv[0] {
		case "cap":
			c.cap = unopt(kv[1])
		case "serve":
			c.serve = kv[1] == "1"
		case "admit":
			c.admit = kv[1] == "1"
		case "dnl":
			c.dnlMs = unopt(kv[1])
		case "loop":
			c.loop = kv[1] == "1"
		case "dnlfirst":
			c.dnlTies = kv[1] == "1"
		case "fib":
			if kv[1] != "-" {
				for _, r := range strings.Split(kv[1], ",") {
					a := strings.SplitN(r, ">", 2)
					b := strings.SplitN(a[1], "@", 2)
					fc, _ := strconv.ParseUint(b[0], 10, 64)
					co, _ := strconv.ParseUint(b[1], 10, 64)
					c.fib = append(c.fib, fibRoute{parseNm(a[0]), fc, co})
				}
			}
		case "mcast":
			if kv[1] != "-" {
				for _, r := range strings.Split(kv[1], ",") {
					c.mcast = append(c.mcast, parseNm(r))
				}
			}
		}
	}
	return c
}

// ---------------------------------------------------------------------------------------------------------------
// generator
// ---------------------------------------------------------------------------------------------------------------
const nFaces = 4 // faces 1..4

func genUniverse(r *rand.Rand) []nm {
	// shared-prefix universe: a random prefix-heavy set of at most 40 names, depth 0..4, over 2..4 components
	width := 2 + r.Intn(3)
	pool := make([]int, width)
	for i := range pool {
		pool[i] = i + 1
	}
	if r.Intn(5) < 2 { // typed siblings: same value bytes under different component types (and the generic "a" next to its siblings)
		cand := []int{9, 10, 11, 12, 13, 14, 1, 15, 16}
		r.Shuffle(len(cand), func(i, j int) { cand[i], cand[j] = cand[j], cand[i] })
		pool = append([]int{}, cand[:2+r.Intn(4)]...)
		if r.Intn(2) == 0 {
			pool = append(pool, 2)
		}
	}
	size := 4 + r.Intn(37)
	seen := map[string]bool{}
	var u []nm
	add := func(n nm) {
		if !seen[n.String()] {
			seen[n.String()] = true
			u = append(u, append(nm{}, n...))
		}
	}
	if r.Intn(3) == 0 {
		add(nm{})
	}
	for tries := 0; len(u) < size && tries < 400; tries++ {
		var n nm
		if len(u) > 0 && r.Intn(3) != 0 { // extend or truncate an existing name
			b := u[r.Intn(len(u))]
			n = append(nm{}, b...)
			if len(n) > 0 && r.Intn(3) == 0 {
				n = n[:r.Intn(len(n))]
			}
		}
		if len(n) < 4 {
			n = append(n, pool[r.Intn(len(pool))])
		}
		add(n)
	}
	return u
}

func genCase(r *rand.Rand, mode string) (caseCfg, []hop) {
	if mode == "loop" { // pipeline / mixed histories driven through the real Thread.Run goroutine
		cfg, ops := genCase(r, []string{"fw", "mix"}[r.Intn(2)])
		cfg.loop = true
		return cfg, ops
	}
	u := genUniverse(r)
	pick := func() nm { return u[r.Intn(len(u))] }
	cfg := caseCfg{cap: r.Intn(9), serve: true, admit: true, dnlMs: []int{300, 1000, 6000}[r.Intn(3)], dnlTies: r.Intn(2) == 0}
	if mode != "cs" {
		if r.Intn(8) == 0 {
			cfg.serve = false
		}
		if r.Intn(8) == 0 {
			cfg.admit = false
		}
		if r.Intn(10) != 0 { // routes
			nr := 1 + r.Intn(4)
			for i := 0; i < nr; i++ {
				p := pick()
				if r.Intn(3) == 0 {
					p = nm{}
				} else if len(p) > 1 {
					p = p[:1+r.Intn(len(p))]
				}
				cfg.fib = append(cfg.fib, fibRoute{p, uint64(1 + r.Intn(nFaces)), uint64(r.Intn(3))})
			}
		}
		if r.Intn(3) == 0 {
			p := pick()
			if len(p) > 1 {
				p = p[:1]
			}
			cfg.mcast = append(cfg.mcast, p)
		}
	}
	if r.Intn(12) == 0 {
		cfg.cap = 1024
	}
	if mode == "dnl" {
		// dead-nonce flood: many retransmissions with fresh nonces (each puts the previous nonce on the DNL at once) and
		// many forwarded Interests that expire together; more than 100 records fall due in the same sweep
		// DNL lifetime above every Interest lifetime used here: which 100 of several hundred records with the SAME expiry a
		// sweep removes depends on container/heap's tie order (not modelled); with this choice no record removed early is
		// ever re-inserted, so the choice never becomes observable
		cfg.dnlMs = 1000
		cfg.fib = []fibRoute{{nm{}, 2, 0}, {nm{}, 3, 1}}
		var ops []hop
		nonce := r.Uint32()
		total := 110 + r.Intn(160)
		for i := 0; i < total; i++ {
			nonce++
			n := u[r.Intn(1+r.Intn(len(u)))]
			ops = append(ops, hop{kind: "int", face: uint64(1 + r.Intn(2)*3), name: n, cbp: r.Intn(4) == 0, mbf: false, nonce: nonce, life: []int{50, 50, 300, 600}[r.Intn(4)]})
			if r.Intn(40) == 0 {
				ops = append(ops, hop{kind: "run", n: 1 + r.Intn(120)})
			}
		}
		ops = append(ops, hop{kind: "quiesce"})
		return cfg, ops
	}
	nops := 10 + r.Intn(50)
	lifetimes := []int{-1, -1, 0, 1, 50, 300, 1000, 2500} // -1 = no InterestLifetime (default applies); 0 is a lifetime of 0 ms
	freshes := []int{-1, 0, 1, 2, 25, 100, 1000, 5000, 5000}
	noncePool := make([]uint32, 6)
	for i := range noncePool {
		noncePool[i] = r.Uint32()
	}
	type ekey struct {
		n        string
		cbp, mbf bool
	}
	curCap := cfg.cap
	var recent []ekey
	var sentInts []hop
	var ops []hop
	for i := 0; i < nops; i++ {
		x := r.Intn(100)
		var o hop
		csOnly := mode == "cs"
		fwOnly := mode == "fw"
		switch {
		case x < 8:
			o = hop{kind: "cap", n: r.Intn(9)}
			if r.Intn(25) == 0 {
				o.n = -1 // what int(uint64 >= 2^63) gives in fw/mgmt/cs.go: must behave as "unlimited", not crash
			}
			if r.Intn(2) == 0 { // through the real management module: cs/config command Interest, boundary values
				var u uint64
				switch r.Intn(7) {
				case 0:
					u = 0
				case 1:
					u = 1
				case 2:
					if curCap > 0 {
						u = uint64(curCap - 1)
					}
				case 3:
					u = uint64(curCap)
				case 4:
					u = 1<<63 + uint64(r.Intn(1000))
				default:
					u = uint64(r.Intn(9))
				}
				o = hop{kind: "mcap", ucap: u}
			}
			if o.kind == "mcap" {
				if o.ucap < 1<<62 {
					curCap = int(o.ucap)
				} else {
					curCap = 9
				}
			} else if o.n >= 0 {
				curCap = o.n
			} else {
				curCap = 9
			}
		case x < 30 && !fwOnly || csOnly && x < 45:
			o = hop{kind: "ins", name: pick(), variant: r.Intn(3), fresh: freshes[r.Intn(len(freshes))]}
		case x < 50 && !fwOnly || csOnly && x < 85:
			o = hop{kind: "find", name: pick(), cbp: r.Intn(3) == 0, mbf: r.Intn(3) == 0}
			if len(o.name) > 0 && r.Intn(4) == 0 { // shorter prefix of a universe name, maybe not itself a node
				o.name = o.name[:r.Intn(len(o.name))]
				o.cbp = true
			}
		case csOnly:
			o = hop{kind: "run", n: []int{1, 1, 50, 99, 100, 101, 900, 1000, 1001, 4999, 5000, 5001}[r.Intn(12)]}
		case x < 72:
			o = hop{kind: "int", face: uint64(1 + r.Intn(nFaces)), name: pick(), cbp: r.Intn(3) == 0, mbf: r.Intn(4) == 0,
				life: lifetimes[r.Intn(len(lifetimes))]}
			if r.Intn(3) == 0 {
				o.nonce = noncePool[r.Intn(len(noncePool))]
			} else {
				o.nonce = r.Uint32()
			}
			if len(sentInts) > 0 && r.Intn(5) == 0 { // replay an earlier (name, nonce): a loop from another face, or a dead nonce later on
				p := sentInts[r.Intn(len(sentInts))]
				o.name, o.nonce, o.cbp, o.mbf = p.name, p.nonce, p.cbp, p.mbf
			}
			if r.Intn(7) == 0 { // NextHopFaceId set by a local application: forwarded to that face (5 does not exist: dropped), FIB not consulted
				o.nh = uint64(1 + r.Intn(nFaces+1))
			}
			sentInts = append(sentInts, o)
			recent = append(recent, ekey{o.name.String(), o.cbp, o.mbf})
		case x < 88:
			o = hop{kind: "data", face: uint64(1 + r.Intn(nFaces)), name: pick(), variant: r.Intn(3), fresh: freshes[r.Intn(len(freshes))], tok: "-"}
			if len(recent) > 0 && r.Intn(2) == 0 { // extend a pending name
				k := recent[r.Intn(len(recent))]
				o.name = parseNm(k.n)
				if k.cbp && r.Intn(2) == 0 && len(o.name) < 4 {
					ext := pick()
					c := 1 + r.Intn(3)
					if len(ext) > 0 {
						c = ext[r.Intn(len(ext))]
					}
					o.name = append(append(nm{}, o.name...), c)
				}
				switch r.Intn(4) {
				case 0:
					o.tok = fmt.Sprintf("%s:%s:%s", k.n, b01(k.cbp), b01(k.mbf))
				case 1:
					o.tok = "bad"
				}
			}
		default:
			o = hop{kind: "run", n: []int{1, 1, 5, 50, 99, 100, 101, 250, 499, 500, 501, 1000, 2500, 4000, 4100}[r.Intn(15)]}
		}
		if !csOnly && len(recent) > 0 && r.Intn(12) == 0 { // stale handle of an earlier entry (no-op when the entry is still live)
			k := recent[r.Intn(len(recent))]
			ops = append(ops, hop{kind: "rmstale", name: parseNm(k.n), cbp: k.cbp, mbf: k.mbf})
		}
		if o.kind == "run" && r.Intn(3) == 0 { // event times that are not millisecond aligned
			o = hop{kind: "runns", n: []int{1, 300000, 999999, 1000001, 700000, 123457, 1999999, 50000001}[r.Intn(8)]}
		}
		if o.kind == "ins" && !fwOnly && r.Intn(4) == 0 {
			// freshness boundary: insert with a short FreshnessPeriod at an unaligned instant, then a MustBeFresh exact lookup
			// 1 ns / 300 us before the period ends, exactly at its end, 1 ns after
			f := []int{1, 2, 25}[r.Intn(3)]
			o.fresh = f
			delta := []int{-1, -300000, 0, 1, -999999}[r.Intn(5)]
			ops = append(ops, hop{kind: "runns", n: []int{300000, 999999, 123457, 1}[r.Intn(4)]}, o,
				hop{kind: "runns", n: f*1000000 + delta}, hop{kind: "find", name: o.name, cbp: false, mbf: true})
			continue
		}
		ops = append(ops, o)
		if (o.kind == "int" || o.kind == "data") && r.Intn(3) != 0 {
			ops = append(ops, hop{kind: "run", n: 1 + r.Intn(3)})
		}
	}
	if mode != "cs" && r.Intn(3) == 0 {
		// stale-handle pattern on shared prefixes: a short-lived entry expires (its branch is released), packets are cached under
		// its name / a sibling / a descendant (the branch is re-created), possibly a new entry of the same name appears, then
		// RemoveInterest is called again on the old handle; the cached packets must still be found
		n := pick()
		cbp := r.Intn(3) == 0
		ops = append(ops, hop{kind: "int", face: uint64(1 + r.Intn(nFaces)), name: n, cbp: cbp, mbf: false, nonce: r.Uint32(), life: []int{0, 1, 50}[r.Intn(3)]},
			hop{kind: "run", n: 100 + r.Intn(150)})
		if r.Intn(4) != 0 {
			ops = append(ops, hop{kind: "cap", n: 4 + r.Intn(5)})
		}
		var cached []nm
		for i := 0; i < 1+r.Intn(3); i++ {
			m := append(nm{}, n...)
			switch r.Intn(3) {
			case 0:
				if len(m) < 4 {
					m = append(m, 1+r.Intn(3))
				}
			case 1:
				if len(m) > 0 {
					m[len(m)-1] = 1 + r.Intn(3)
					if len(m) < 4 && r.Intn(2) == 0 {
						m = append(m, 1+r.Intn(3))
					}
				}
			}
			cached = append(cached, m)
			ops = append(ops, hop{kind: "ins", name: m, variant: r.Intn(3), fresh: 5000})
		}
		if r.Intn(3) == 0 {
			ops = append(ops, hop{kind: "int", face: uint64(1 + r.Intn(nFaces)), name: n, cbp: cbp, mbf: false, nonce: r.Uint32(), life: 300})
		}
		ops = append(ops, hop{kind: "rmstale", name: n, cbp: cbp, mbf: false})
		for _, m := range cached {
			ops = append(ops, hop{kind: "find", name: m, cbp: false, mbf: false})
		}
		if len(n) > 0 {
			ops = append(ops, hop{kind: "find", name: n[:len(n)-1], cbp: true, mbf: false})
		}
	}
	ops = append(ops, hop{kind: "quiesce"})
	// sometimes continue after quiescence and quiesce again
	if r.Intn(4) == 0 {
		for i := 0; i < 6; i++ {
			ops = append(ops, hop{kind: "int", face: uint64(1 + r.Intn(nFaces)), name: pick(), cbp: r.Intn(2) == 0, mbf: false, nonce: r.Uint32(), life: 50})
			ops = append(ops, hop{kind: "run", n: 1})
		}
		ops = append(ops, hop{kind: "quiesce"})
	}
	return cfg, ops
}

// ---------------------------------------------------------------------------------------------------------------
// world
// ---------------------------------------------------------------------------------------------------------------
type sentPkt struct {
	face     uint64
	interest bool
	name     nm
	raw      []byte
}

type fakeFace struct {
	id    uint64
	scope defn.Scope
	w     *world
}

func (f *fakeFace) String() string          { return "fake" + strconv.FormatUint(f.id, 10) }
func (f *fakeFace) SetFaceID(id uint64)     { f.id = id }
func (f *fakeFace) FaceID() uint64          { return f.id }
func (f *fakeFace) LocalURI() *defn.URI     { return nil }
func (f *fakeFace) RemoteURI() *defn.URI    { return nil }
func (f *fakeFace) Scope() defn.Scope       { return f.scope }
func (f *fakeFace) LinkType() defn.LinkType { return defn.PointToPoint }
func (f *fakeFace) MTU() int                { return 8800 }
func (f *fakeFace) State() defn.State       { return defn.Up }
func (f *fakeFace) SendPacket(out dispatch.OutPkt) {
	p := sentPkt{face: f.id}
	if out.Pkt.L3.Interest != nil {
		p.interest = true
		p.name = nmOfEnc(out.Pkt.L3.Interest.NameV)
	} else if out.Pkt.L3.Data != nil {
		p.name = nmOfEnc(out.Pkt.L3.Data.NameV)
		p.raw = append([]byte{}, out.Pkt.Raw...)
	}
	f.w.sent = append(f.w.sent, p)
}

type world struct {
	out    *bufio.Writer
	th     *fw.Thread
	tbl    table.PitCsTable
	dnl    *table.DeadNonceList
	cfg    caseCfg
	sent   []sentPkt
	wids   map[string]int
	last   time.Time // virtual time of the last trace line
	lastSt string
	// for the quiescence horizon
	maxLife time.Duration
	mg      *fwmgmt.VerifPitcsMgmt
	// handles of PIT entries, kept across their removal (stale-handle RemoveInterest)
	lastH  map[string]table.PitEntry
	staleH map[string]table.PitEntry
}

func hkey(n nm, cbp, mbf bool) string { return n.String() + "|" + b01(cbp) + b01(mbf) }

// noteHandle remembers the live entry of a key; a previously remembered, different entry of that key becomes a stale handle
func (w *world) noteHandle(n nm, cbp, mbf bool) {
	k := hkey(n, cbp, mbf)
	cur := table.VerifPitcsEntryOf(w.tbl, n.enc(), cbp, mbf)
	if cur == nil {
		return
	}
	if old, ok := w.lastH[k]; ok && old != cur {
		w.staleH[k] = old
	}
	w.lastH[k] = cur
}

func (w *world) line(format string, a ...any) { fmt.Fprintf(w.out, format+"\n", a...) }

// adv writes the virtual time elapsed since the last trace line
func (w *world) adv() {
	d := time.Since(w.last)
	if d > 0 {
		w.line("op adv %d", d.Nanoseconds())
		w.last = time.Now()
	}
}

func (w *world) wid(raw []byte) int {
	k := string(raw)
	if id, ok := w.wids[k]; ok {
		return id
	}
	id := len(w.wids) + 1
	w.wids[k] = id
	return id
}

func mkData(n nm, variant, fresh int) (*spec.Data, []byte) {
	cfg := &ndn.DataConfig{}
	if fresh >= 0 {
		cfg.Freshness = utils.IdPtr(time.Duration(fresh) * time.Millisecond)
	}
	d, err := spec.Spec{}.MakeData(n.enc(), cfg, enc.Wire{[]byte{byte('A' + variant)}}, nil)
	if err != nil {
		panic(err)
	}
	raw := d.Wire.Join()
	pkt, _, err := spec.ReadPacket(enc.NewBufferReader(raw))
	if err != nil || pkt.Data == nil {
		panic(fmt.Sprint("cannot parse generated Data: ", err))
	}
	return pkt.Data, raw
}

func mkInterest(o hop) (*spec.Packet, []byte) {
	cfg := &ndn.InterestConfig{CanBePrefix: o.cbp, MustBeFresh: o.mbf, Nonce: utils.IdPtr(uint64(o.nonce))}
	if o.life >= 0 {
		cfg.Lifetime = utils.IdPtr(time.Duration(o.life) * time.Millisecond)
	}
	i, err := spec.Spec{}.MakeInterest(o.name.enc(), cfg, nil, nil)
	if err != nil {
		panic(err)
	}
	raw := i.Wire.Join()
	pkt, _, err := spec.ReadPacket(enc.NewBufferReader(raw))
	if err != nil || pkt.Interest == nil {
		panic(fmt.Sprint("cannot parse generated Interest: ", err))
	}
	return pkt, raw
}

func (w *world) dumpState() {
	d, ok := table.VerifPitcsDumpTable(w.tbl)
	if !ok {
		panic("not a tree PIT-CS")
	}
	nameOfIdx := map[uint64]string{}
	var ns []string
	for _, n := range d.Nodes {
		p := nmOfEnc(n.Path)
		var es []string
		for _, e := range n.Pit {
			fl := func(l []uint64) string {
				if len(l) == 0 {
					return "-"
				}
				s := make([]string, len(l))
				for i, x := range l {
					s[i] = strconv.FormatUint(x, 10)
				}
				return strings.Join(s, "+")
			}
			hint := ""
			if e.HasHint {
				hint = "H"
			}
			es = append(es, fmt.Sprintf("%s%s%s,%s,%s,%s,%s,%d", b01(e.CanBePrefix), b01(e.MustBeFresh), hint, fl(e.InFaces), fl(e.OutFaces), b01(e.Satisfied), b01(e.Queued), e.Expiration))
		}
		sort.Strings(es)
		s := p.String()
		if len(es) > 0 {
			s += "{" + strings.Join(es, ";") + "}"
		}
		if n.HasCs {
			nameOfIdx[n.CsIndex] = p.String()
			s += fmt.Sprintf("[%d,%d]", w.wid(n.CsWire), n.CsStale)
		}
		ns = append(ns, s)
	}
	sort.Strings(ns)
	var q []string
	for _, idx := range d.LruQueue {
		if s, ok := nameOfIdx[idx]; ok {
			q = append(q, s)
		} else {
			q = append(q, "?")
		}
	}
	qs := fmt.Sprintf("%d:%s", len(q), strings.Join(q, ";"))
	dl, dq := table.VerifPitcsDnlSizes(w.dnl)
	broken := "-"
	if len(d.Broken) > 0 {
		sort.Strings(d.Broken)
		broken = strings.ReplaceAll(strings.Join(d.Broken, ";"), " ", "_")
	}
	// the sizes as production reads them: PitCsTable.PitSize()/CsSize() and Thread.GetNumPitEntries()/GetNumCsEntries()
	s := fmt.Sprintf("npit=%d ncs=%d apit=%d acs=%d tpit=%d tcs=%d tok=%d heap=%d csmap=%d lruq=%s locs=%d dnl=%d dnlq=%d broken=%s nodes=%s",
		d.NPitReported, d.NCsReported, w.tbl.PitSize(), w.tbl.CsSize(), w.th.GetNumPitEntries(), w.th.GetNumCsEntries(), d.TokenMap, d.Heap, d.CsMap, qs, d.LruLocations, dl, dq, broken, strings.Join(ns, "|"))
	if s == w.lastSt {
		w.line("obs same")
	} else {
		w.line("obs st %s", s)
		w.lastSt = s
	}
}

// runFor emulates the forwarding thread's loop for d of virtual time: the PIT update signal and the DNL ticker are
// served at the instant they become ready.
func (w *world) runFor(d time.Duration) {
	if w.cfg.loop {
		// the real Thread.Run goroutine serves its own timers while this goroutine sleeps
		time.Sleep(d)
		synctest.Wait()
		w.line("op sleep %d", d.Nanoseconds())
		w.last = time.Now()
		w.dumpState()
		return
	}
	deadline := time.Now().Add(d)
	for {
		rem := time.Until(deadline)
		if rem <= 0 {
			break
		}
		gotPit, gotDnl := false, false
		tm := time.NewTimer(rem)
		select {
		case <-w.tbl.UpdateTimer():
			gotPit = true
		case <-w.dnl.Ticker.C:
			gotDnl = true
		case <-tm.C:
		}
		tm.Stop()
		synctest.Wait()
		if !gotPit {
			select {
			case <-w.tbl.UpdateTimer():
				gotPit = true
			default:
			}
		}
		if !gotDnl {
			select {
			case <-w.dnl.Ticker.C:
				gotDnl = true
			default:
			}
		}
		if !gotPit && !gotDnl {
			continue
		}
		w.adv()
		serveDnl := func() {
			if gotDnl {
				w.dnl.RemoveExpiredEntries()
				w.line("op dnl")
				w.dumpState()
			}
		}
		if w.cfg.dnlTies {
			serveDnl()
		}
		if gotPit {
			w.tbl.Update()
			w.line("op tick")
			w.dumpState()
		}
		if !w.cfg.dnlTies {
			serveDnl()
		}
	}
	w.adv()
}

func (w *world) exec(o hop) {
	w.line("gen %s", o)
	noteProgress(o.String(), false)
	switch o.kind {
	case "cap":
		if o.n < 0 {
			var huge uint64 = 1<<63 + 7
			table.SetCsCapacity(int(huge))
			w.line("op cap -1") // any negative int: SetCsCapacity treats it as unlimited
		} else {
			table.SetCsCapacity(o.n)
			w.line("op cap %d", o.n)
		}
	case "mcap":
		// /localhost/nfd/cs/config/<ControlParameters(Capacity)> handed to the real ContentStoreModule
		params := &mgmt.ControlParameters{Val: &mgmt.ControlArgs{Capacity: utils.IdPtr(o.ucap)}}
		name, _ := enc.NameFromStr("/localhost/nfd/cs/config")
		name = append(name, enc.NewBytesComponent(enc.TypeGenericNameComponent, params.Bytes()))
		w.mg.CsCommand(&spec.Interest{NameV: name, NonceV: utils.IdPtr(uint32(7))}, nil, 1)
		w.line("op mcap %d", o.ucap)
		w.line("obs capacity %d", table.CsCapacity())
	case "ins":
		d, raw := mkData(o.name, o.variant, o.fresh)
		w.tbl.InsertData(d, raw)
		w.line("op ins %s %d %s", o.name, w.wid(raw), opt(o.fresh))
	case "find":
		pkt, _ := mkInterest(hop{name: o.name, cbp: o.cbp, mbf: o.mbf, life: -1})
		e := w.tbl.FindMatchingDataFromCS(pkt.Interest)
		w.line("op find %s %s %s", o.name, b01(o.cbp), b01(o.mbf))
		if e == nil {
			w.line("obs find none")
		} else {
			d, raw, err := e.Copy()
			if err != nil || d == nil {
				w.line("obs find copyerr")
			} else {
				w.line("obs find %s %d", nmOfEnc(d.NameV), w.wid(raw))
				if e.Index() != d.NameV.Hash() {
					w.line("obs apibad CsEntry.Index()_differs_from_the_hash_of_the_returned_Data_name")
				}
				w.line("obs stale %d", e.StaleTime().UnixNano())
			}
		}
	case "int":
		pkt, raw := mkInterest(o)
		w.sent = nil
		ipkt := &defn.Pkt{Name: pkt.Interest.NameV, L3: pkt, Raw: raw, IncomingFaceID: utils.IdPtr(o.face)}
		if o.nh != 0 {
			ipkt.NextHopFaceID = utils.IdPtr(o.nh)
		}
		if w.cfg.loop {
			w.th.QueueInterest(ipkt)
			synctest.Wait()
		} else {
			fw.VerifPitcsIncomingInterest(w.th, ipkt)
		}
		var sentTo []string
		var datas []string
		for _, s := range w.sent {
			if s.interest {
				sentTo = append(sentTo, strconv.FormatUint(s.face, 10))
			} else {
				datas = append(datas, fmt.Sprintf("%d:%s:%d", s.face, s.name, w.wid(s.raw)))
			}
		}
		st, dt := "-", "-"
		if len(sentTo) > 0 {
			st = strings.Join(sentTo, ",")
		}
		if len(datas) > 0 {
			dt = strings.Join(datas, ",")
		}
		w.noteHandle(o.name, o.cbp, o.mbf)
		xpkt, _ := mkInterest(o) // a fresh packet: a cache hit turns the processed one into a Data packet
		xe := w.tbl.FindInterestExactMatchEnc(xpkt.Interest)
		w.line("op int %d %s %s %s %d %s %s", o.face, o.name, b01(o.cbp), b01(o.mbf), o.nonce, opt(o.life), st)
		w.line("obs int %s", dt)
		if xe == nil {
			w.line("obs exactpit 0")
		} else {
			w.line("obs exactpit 1")
			if !xe.EncName().Equal(o.name.enc()) || xe.CanBePrefix() != o.cbp || xe.MustBeFresh() != o.mbf {
				w.line("obs apibad FindInterestExactMatchEnc_returned_an_entry_with_another_name_or_selectors")
			}
		}
		life := 4000 * time.Millisecond
		if o.life >= 0 {
			life = time.Duration(o.life) * time.Millisecond
		}
		if life > w.maxLife {
			w.maxLife = life
		}
	case "data":
		d, raw := mkData(o.name, o.variant, o.fresh)
		pkt := &defn.Pkt{Name: d.NameV, L3: &spec.Packet{Data: d}, Raw: raw, IncomingFaceID: utils.IdPtr(o.face)}
		tok := "-"
		if o.tok == "bad" {
			pkt.PitToken = []byte{0, 0, 0xde, 0xad, 0xbe, 0xef}
			if _, clash := table.VerifPitcsTokenOf(w.tbl, nm{}.enc(), false, false); clash {
				_ = clash
			}
			tok = "bad"
		} else if o.tok != "-" {
			f := strings.Split(o.tok, ":")
			t, ok := table.VerifPitcsTokenOf(w.tbl, parseNm(f[0]).enc(), f[1] == "1", f[2] == "1")
			if ok {
				pkt.PitToken = make([]byte, 6)
				binary.BigEndian.PutUint32(pkt.PitToken[2:], t)
				tok = o.tok
			} else {
				pkt.PitToken = []byte{0, 0, 0xde, 0xad, 0xbe, 0xef}
				tok = "bad"
			}
		}
		w.sent = nil
		if w.cfg.loop {
			w.th.QueueData(pkt)
			synctest.Wait()
		} else {
			fw.VerifPitcsIncomingData(w.th, pkt)
		}
		w.line("op data %s %d %s %s", o.name, w.wid(raw), opt(o.fresh), tok)
	case "rmstale":
		// RemoveInterest on a handle whose entry is no longer in the table (removed by the reaper; the node may have been
		// released and re-created by CS insertions or by a new PIT entry of the same name since). Legal; must return false
		// and change nothing. A handle that is still live is never passed.
		k := hkey(o.name, o.cbp, o.mbf)
		cur := table.VerifPitcsEntryOf(w.tbl, o.name.enc(), o.cbp, o.mbf)
		h := w.staleH[k]
		if l, ok := w.lastH[k]; ok && l != cur {
			h = l
		}
		if h == nil || h == cur {
			return // no stale handle for this key
		}
		res := w.tbl.RemoveInterest(h)
		w.line("op rmstale %s", o.name)
		w.line("obs rmstale %s", b01(res))
	case "run":
		w.runFor(time.Duration(o.n) * time.Millisecond)
		return
	case "runns":
		w.runFor(time.Duration(o.n))
		return
	case "quiesce":
		// longer than every Interest lifetime, then the DNL lifetime, then the sweeps needed for what is queued
		_, dq := table.VerifPitcsDnlSizes(w.dnl)
		h := w.maxLife + 4*time.Second + time.Duration(w.cfg.dnlMs)*time.Millisecond + time.Duration(300+100*(dq/100))*time.Millisecond
		w.runFor(h)
		w.line("quiescent")
		w.lastSt = ""
		w.dumpState()
		return
	}
	w.dumpState()
}

var configured = false

// ---------------------------------------------------------------------------------------------------------------
// hang detection by STATE, not by a wall-clock limit (docs/C16.md "No wall-clock limit decides a verdict").
// All waiting in the histories is virtual (synctest), so the only way this process can stop making progress is a loop of the
// code under test that never blocks.  A goroutine OUTSIDE the bubble (real time) watches the operation counter; lack of
// progress only starts an investigation: if during a further window the counter still has not moved AND the process itself
// consumed most of that window as CPU time (getrusage), one single operation has burnt tens of CPU seconds - proven spin,
// independent of machine load (a starved or descheduled process accumulates no CPU time).  Then the current history and all
// goroutine stacks are written to <VERIF_OUT>.hang and the process exits with status 3.  Otherwise it just keeps waiting.
// ---------------------------------------------------------------------------------------------------------------
var progress atomic.Int64
var curMu sync.Mutex
var curHist []string

func noteProgress(line string, reset bool) {
	progress.Add(1)
	curMu.Lock()
	if reset {
		curHist = curHist[:0]
	}
	curHist = append(curHist, line)
	curMu.Unlock()
}

func cpuTime() time.Duration {
	var ru syscall.Rusage
	if syscall.Getrusage(syscall.RUSAGE_SELF, &ru) != nil {
		return 0
	}
	return time.Duration(ru.Utime.Nano() + ru.Stime.Nano())
}

func startWatchdog(outPath string) {
	go func() {
		last, lastChange := progress.Load(), time.Now()
		for {
			time.Sleep(5 * time.Second)
			if p := progress.Load(); p != last {
				last, lastChange = p, time.Now()
				continue
			}
			if time.Since(lastChange) < 120*time.Second {
				continue
			}
			c0 := cpuTime()
			time.Sleep(30 * time.Second)
			if progress.Load() != last {
				lastChange = time.Now()
				continue
			}
			if cpuTime()-c0 < 20*time.Second {
				continue // starved or blocked, not spinning: more waiting, no verdict
			}
			buf := make([]byte, 1<<20)
			buf = buf[:runtime.Stack(buf, true)]
			curMu.Lock()
			h := strings.Join(curHist, "\n")
			curMu.Unlock()
			os.WriteFile(outPath+".hang", []byte("HANG-PROVEN one operation consumed more than 20 s of CPU time without finishing\n"+h+"\n--- stacks ---\n"+string(buf)), 0o644)
			os.Exit(3)
		}
	}()
}

func runCase(t *testing.T, out *bufio.Writer, k int, src string, cfg caseCfg, ops []hop) {
	synctest.Test(t, func(t *testing.T) {
		c := core.DefaultConfig()
		c.Fw.Threads = 1
		c.Tables.ContentStore.Capacity = uint16(cfg.cap)
		c.Tables.ContentStore.Admit = cfg.admit
		c.Tables.ContentStore.Serve = cfg.serve
		c.Tables.DeadNonceList.Lifetime = cfg.dnlMs
		c.Tables.Rib.ReadvertiseNlsr = false
		core.LoadConfig(c, "/tmp")
		table.Configure()
		fw.Configure()
		face.Configure()
		fwmgmt.Configure()
		table.CreateFIBTable("nametree")
		w := &world{out: out, cfg: cfg, wids: map[string]int{}, lastH: map[string]table.PitEntry{}, staleH: map[string]table.PitEntry{}}
		for f := uint64(1); f <= nFaces; f++ {
			sc := defn.Local
			if f%2 == 0 {
				sc = defn.NonLocal
			}
			dispatch.AddFace(f, &fakeFace{id: f, scope: sc, w: w})
		}
		for _, r := range cfg.fib {
			table.FibStrategyTable.InsertNextHopEnc(r.prefix.enc(), r.face, r.cost)
		}
		mc, _ := enc.NameFromStr("/localhost/nfd/strategy/multicast/v=1")
		for _, m := range cfg.mcast {
			table.FibStrategyTable.SetStrategyEnc(m.enc(), mc)
		}
		w.mg = fwmgmt.VerifPitcsNewMgmt()
		w.th = fw.NewThread(0)
		w.tbl = fw.VerifPitcsTable(w.th)
		w.dnl = fw.VerifPitcsDnl(w.th)
		core.ShouldQuit = false
		if cfg.loop {
			go w.th.Run()
			synctest.Wait()
		}
		w.last = time.Now()
		w.line("case %d %s", k, src)
		w.line("gen %s", cfg)
		noteProgress(cfg.String(), true)
		w.line("op init %d %d %s %s %d", time.Now().UnixNano(), cfg.cap, b01(cfg.serve), b01(cfg.admit), int64(cfg.dnlMs)*1000000)
		used := map[int]bool{}
		for _, o := range ops {
			for _, c := range o.name {
				used[c] = true
			}
		}
		for _, p := range compCollisions {
			if used[p[0]] && used[p[1]] {
				w.line("obs collide %d %d %d:%x %d:%x", p[0], p[1], uint64(compOf(p[0]).Typ), compOf(p[0]).Val, uint64(compOf(p[1]).Typ), compOf(p[1]).Val)
			}
		}
		w.dumpState()
		func() {
			defer func() {
				if r := recover(); r != nil {
					msg := strings.ReplaceAll(fmt.Sprint(r), " ", "_")
					w.line("obs panic %s", msg)
				}
			}()
			for _, o := range ops {
				w.exec(o)
			}
		}()
		w.line("end")
		// leave the bubble cleanly: stop the Run loop (if any), consume a pending update signal without rescheduling, stop the ticker
		core.ShouldQuit = true
		if cfg.loop {
			w.th.TellToQuit()
			<-w.th.HasQuit
		}
		select {
		case <-w.tbl.UpdateTimer():
			w.tbl.Update()
		case <-time.After(time.Second): // no signal pending (a tree whose loop stopped re-arming the reaper)
		}
		core.ShouldQuit = false
		w.dnl.Ticker.Stop()
	})
}

func readCaseFile(p string) (caseCfg, []hop, error) {
	b, err := os.ReadFile(p)
	if err != nil {
		return caseCfg{}, nil, err
	}
	var cfg caseCfg
	var ops []hop
	have := false
	for _, l := range strings.Split(string(b), "\n") {
		l = strings.TrimSpace(l)
		l = strings.TrimPrefix(l, "gen ")
		if l == "" || strings.HasPrefix(l, "#") {
			continue
		}
		if strings.HasPrefix(l, "cfg ") {
			cfg = parseCfg(l)
			have = true
		} else {
			ops = append(ops, parseHop(l))
		}
	}
	if !have {
		return cfg, nil, fmt.Errorf("%s: no cfg line", p)
	}
	return cfg, ops, nil
}

func TestTrace(t *testing.T) {
	seed, _ := strconv.ParseInt(os.Getenv("VERIF_SEED"), 10, 64)
	n, _ := strconv.Atoi(os.Getenv("VERIF_N"))
	if n == 0 {
		n = 20
	}
	mode := os.Getenv("VERIF_MODE")
	if mode == "" {
		mode = "all"
	}
	outp := os.Getenv("VERIF_OUT")
	if outp == "" {
		outp = "/dev/stdout"
	}
	f, err := os.Create(outp)
	if err != nil {
		t.Fatal(err)
	}
	defer f.Close()
	out := bufio.NewWriterSize(f, 1<<20)
	defer out.Flush()
	os.Remove(outp + ".hang")
	startWatchdog(outp)

	k := 0
	if p := os.Getenv("VERIF_OPS"); p != "" {
		cfg, ops, err := readCaseFile(p)
		if err != nil {
			t.Fatal(err)
		}
		runCase(t, out, 0, "ops:"+filepath.Base(p), cfg, ops)
		return
	}
	if dir := os.Getenv("VERIF_CORPUS"); dir != "" {
		files, _ := filepath.Glob(filepath.Join(dir, "*.ops"))
		sort.Strings(files)
		for _, p := range files {
			cfg, ops, err := readCaseFile(p)
			if err != nil {
				t.Fatal(err)
			}
			runCase(t, out, k, "corpus:"+filepath.Base(p), cfg, ops)
			k++
		}
	}
	r := rand.New(rand.NewSource(seed))
	modes := []string{"cs", "fw", "mix", "dnl", "loop"}
	for i := 0; i < n; i++ {
		m := mode
		if mode == "all" {
			m = modes[i%5]
		}
		cfg, ops := genCase(r, m)
		runCase(t, out, k, "gen:"+m, cfg, ops)
		k++
	}
	_ = hex.EncodeToString
}
