// Behavioural probes for the constants of the PitCs model (docs/ROBUST_TRANSLATORS.md rule 1b): the values are measured on
// the running code under virtual time, not read from the source text, so renames / declaration style / named constants do
// not matter.  Output (VERIF_OUT): one `name value` line per item; an item that cannot be measured is reported as
// `name unknown <reason>` and the check keeps the committed reference value.
package pitcs

import (
	"bufio"
	"fmt"
	"os"
	"testing"
	"testing/synctest"
	"time"

	"github.com/named-data/ndnd/fw/core"
	"github.com/named-data/ndnd/fw/table"
)

func TestProbeConsts(t *testing.T) {
	outp := os.Getenv("VERIF_OUT")
	if outp == "" {
		outp = "/dev/stdout"
	}
	f, err := os.Create(outp)
	if err != nil {
		t.Fatal(err)
	}
	defer f.Close()
	out := bufio.NewWriter(f)
	defer out.Flush()
	probe := func(name string, fn func() (int64, string)) {
		defer func() {
			if r := recover(); r != nil {
				fmt.Fprintf(out, "%s unknown panic:%v\n", name, r)
			}
		}()
		v, why := fn()
		if why != "" {
			fmt.Fprintf(out, "%s unknown %s\n", name, why)
		} else {
			fmt.Fprintf(out, "%s %d\n", name, v)
		}
	}
	synctest.Test(t, func(t *testing.T) {
		c := core.DefaultConfig()
		c.Tables.DeadNonceList.Lifetime = 500
		core.LoadConfig(c, "/tmp")
		table.Configure()

		// PIT reaper period: first update signal after creation, and the re-arm after an Update() with an empty queue
		tbl := table.NewPitCS(func(table.PitEntry) {})
		probe("tick_ms", func() (int64, string) {
			t0 := time.Now()
			<-tbl.UpdateTimer()
			d1 := time.Since(t0)
			tbl.Update()
			t1 := time.Now()
			<-tbl.UpdateTimer()
			d2 := time.Since(t1)
			tbl.Update() // re-arm: signals and Update() calls go in pairs
			if d1 != d2 {
				return 0, fmt.Sprintf("first signal after %v, re-arm after %v", d1, d2)
			}
			if d1%time.Millisecond != 0 {
				return 0, "not a whole number of milliseconds"
			}
			return int64(d1 / time.Millisecond), ""
		})

		// default lifetime of in- and out-records of an Interest that carries no InterestLifetime
		probe("default_lifetime_ms", func() (int64, string) {
			pkt, _ := mkInterest(hop{name: nm{1, 2}, nonce: 7, life: -1})
			e, _ := tbl.InsertInterest(pkt.Interest, nil, 1)
			in, _, _ := e.InsertInRecord(pkt.Interest, 1, nil)
			o := e.InsertOutRecord(pkt.Interest, 2)
			di := in.ExpirationTime.Sub(time.Now())
			do := o.ExpirationTime.Sub(time.Now())
			if di != do {
				return 0, fmt.Sprintf("in-record %v and out-record %v differ (the model has one constant)", di, do)
			}
			if di%time.Millisecond != 0 {
				return 0, "not a whole number of milliseconds"
			}
			return int64(di / time.Millisecond), ""
		})

		// dead nonce list: ticker period and the number of records one RemoveExpiredEntries call removes at most
		d := table.NewDeadNonceList()
		probe("dnl_tick_ms", func() (int64, string) {
			t0 := time.Now()
			<-d.Ticker.C
			p := time.Since(t0)
			if p%time.Millisecond != 0 {
				return 0, "not a whole number of milliseconds"
			}
			return int64(p / time.Millisecond), ""
		})
		probe("dnl_batch", func() (int64, string) {
			const n = 2000
			name := nm{1}.enc()
			for i := 0; i < n; i++ {
				d.Insert(name, uint32(1000+i))
			}
			time.Sleep(2 * time.Second) // past the configured lifetime (500 ms)
			before, _ := table.VerifPitcsDnlSizes(d)
			d.RemoveExpiredEntries()
			after, _ := table.VerifPitcsDnlSizes(d)
			if before != n {
				return 0, fmt.Sprintf("%d of %d probe records present", before, n)
			}
			if after == 0 {
				return 0, fmt.Sprintf("one call removed all %d due records (no budget below %d observed)", n, n)
			}
			d.RemoveExpiredEntries()
			after2, _ := table.VerifPitcsDnlSizes(d)
			if before-after != after-after2 {
				return 0, "successive calls removed different numbers"
			}
			return int64(before - after), ""
		})
		d.Ticker.Stop()
		// leave the bubble cleanly
		core.ShouldQuit = true
		<-tbl.UpdateTimer()
		tbl.Update()
		core.ShouldQuit = false
	})
}
