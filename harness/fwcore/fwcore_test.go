// Harness for the forwarder core (C01, C02, C09): drives real fw.Thread objects synchronously through verif-tagged
// wrappers inside a testing/synctest bubble (virtual time), with recording fake faces registered in dispatch.FaceDispatch.
// Writes a line-oriented trace (operations + projected, canonicalised observables) for runner/Fw/driver.ml.
//
// Environment: VERIF_SEED, VERIF_N (number of generated cases), VERIF_OUT (trace path), VERIF_OPS (file with the `ev` lines
// of one or more cases to replay instead of generating; cases separated by lines starting with "case").
package fwcore

import (
	"bufio"
	"encoding/hex"
	"fmt"
	"math/rand"
	"os"
	"sort"
	"strconv"
	"strings"
	"testing"
	"testing/synctest"
	"time"

	"github.com/named-data/ndnd/fw/core"
	"github.com/named-data/ndnd/fw/defn"
	"github.com/named-data/ndnd/fw/dispatch"
	"github.com/named-data/ndnd/fw/face"
	"github.com/named-data/ndnd/fw/fw"
	"github.com/named-data/ndnd/fw/table"
	enc "github.com/named-data/ndnd/std/encoding"
	"github.com/named-data/ndnd/std/ndn"
	spec "github.com/named-data/ndnd/std/ndn/spec_2022"
	"github.com/named-data/ndnd/std/utils"
)

// ---------------------------------------------------------------------------------------------------------------
// component / name interning:  a component is printed as "<typ>.<valueid>", a name as "/"-joined components ("/" = root)
// ---------------------------------------------------------------------------------------------------------------

var compValues = []string{"localhost", "a", "b", "c", "nfd", "d", "region", "hub", "e", "localhop", "aaaaaaaaa"}

func valID(v []byte) int {
	for i, s := range compValues {
		if s == string(v) {
			return i
		}
	}
	compValues = append(compValues, string(v))
	return len(compValues) - 1
}

func nameStr(n enc.Name) string {
	if len(n) == 0 {
		return "/"
	}
	var sb strings.Builder
	for _, c := range n {
		sb.WriteString("/")
		sb.WriteString(strconv.FormatUint(uint64(c.Typ), 10))
		sb.WriteString(".")
		sb.WriteString(strconv.Itoa(valID(c.Val)))
	}
	return sb.String()
}

func parseName(s string) enc.Name {
	n := enc.Name{}
	if s == "/" {
		return n
	}
	for _, p := range strings.Split(s[1:], "/") {
		tv := strings.SplitN(p, ".", 2)
		t, _ := strconv.ParseUint(tv[0], 10, 64)
		v, _ := strconv.Atoi(tv[1])
		n = append(n, enc.Component{Typ: enc.TLNum(t), Val: []byte(compValues[v])})
	}
	return n
}

func hx(b []byte) string {
	if len(b) == 0 {
		return "-"
	}
	return hex.EncodeToString(b)
}

func unhx(s string) []byte {
	if s == "-" {
		return nil
	}
	b, _ := hex.DecodeString(s)
	return b
}

// ---------------------------------------------------------------------------------------------------------------
// recording faces
// ---------------------------------------------------------------------------------------------------------------

type sent struct {
	thr   int
	face  uint64
	kind  string // I or D
	name  string
	hop   string
	tok   string
	inval string
}

type recFace struct {
	id    uint64
	scope defn.Scope
	link  defn.LinkType
	log   *[]sent
	pend  *[]queued
	cur   *int // forwarding thread being drained
}

func (f *recFace) String() string          { return "recFace-" + strconv.FormatUint(f.id, 10) }
func (f *recFace) SetFaceID(id uint64)     { f.id = id }
func (f *recFace) FaceID() uint64          { return f.id }
func (f *recFace) LocalURI() *defn.URI     { return nil }
func (f *recFace) RemoteURI() *defn.URI    { return nil }
func (f *recFace) Scope() defn.Scope       { return f.scope }
func (f *recFace) LinkType() defn.LinkType { return f.link }
func (f *recFace) MTU() int                { return 8800 }
func (f *recFace) State() defn.State       { return defn.Up }
// SendPacket only queues, like linkServiceBase.SendPacket does: the packet bytes are looked at when the face's send loop gets to
// it (world.flush), after the forwarding thread has returned
func (f *recFace) SendPacket(out dispatch.OutPkt) {
	*f.pend = append(*f.pend, queued{thr: *f.cur, face: f.id, pkt: out.Pkt, tok: append([]byte{}, out.PitToken...)})
}

type queued struct {
	thr  int
	face uint64
	pkt  *defn.Pkt
	tok  []byte
}

// encode looks at a queued packet the way the send loop does: the raw bytes as they are now (hop limit patched in place)
func (q queued) encode() sent {
	s := sent{thr: q.thr, face: q.face, hop: "-", tok: hx(q.tok)}
	raw := append([]byte{}, q.pkt.Raw...)
	p, _, err := spec.ReadPacket(enc.NewBufferReader(raw))
	if err != nil {
		s.kind = "X"
		s.name = "/"
		s.inval = err.Error()
	} else if p.Interest != nil {
		s.kind = "I"
		s.name = nameStr(p.Interest.NameV)
		if p.Interest.HopLimitV != nil {
			s.hop = strconv.Itoa(int(*p.Interest.HopLimitV))
		}
	} else if p.Data != nil {
		s.kind = "D"
		s.name = nameStr(p.Data.NameV)
	} else {
		s.kind = "X"
		s.name = "/"
	}
	return s
}

// ---------------------------------------------------------------------------------------------------------------
// one forwarder instance (inside a bubble)
// ---------------------------------------------------------------------------------------------------------------

const (
	stratBest  = "/localhost/nfd/strategy/best-route/v=1"
	stratMulti = "/localhost/nfd/strategy/multicast/v=1"
)

var regionName = "/8.6" // /region

// opsLog receives every operation BEFORE it is executed (unbuffered), so that a crash of the implementation leaves the history
// that caused it on disk: <VERIF_OUT>.ops
var opsLog *os.File

func logOp(format string, a ...any) {
	if opsLog != nil {
		fmt.Fprintf(opsLog, format, a...)
	}
}

type world struct {
	w       *bufio.Writer
	threads []*fw.Thread
	t0      time.Time
	log     []sent
	faces   map[uint64]*recFace
	expired []uint32
	pend    []queued
	rxbuf   []byte // the receive buffer of the `frames` operation (reused for every frame, like a transport's)
	lsvc    map[uint64]*face.NDNLPLinkService
	seq     uint64 // next NDNLPv2 sequence number used by the `fragint` operation
	cur     int
	nthr    int
	dnlMs   int
	fibM    int // 0 = name tree, else hash table with this m
	probeN  []string // names probed in the dead nonce list
	probeX  []uint32
	// production-loop mode: the real Thread.Run goroutine of the (single) thread is the driver; packets reach it through the link
	// service dispatch and QueueInterest/QueueData, the PIT update timer and the dead-nonce ticker fire by themselves as the virtual
	// time advances, and the thread is stopped with core.ShouldQuit/TellToQuit at the end of the history
	runLoop   bool
	expLog    []expObs // expirations the loop's PIT updates performed (token, instant), not yet written to the trace
	nextSweep int64    // index of the next dead-nonce ticker instant not yet written to the trace
	dnlLen    int      // size of the dead nonce list at the last observation
	// bookkeeping for the generator
	emitted []sent // Interests the forwarder emitted (to craft replies)
}

type expObs struct {
	tok uint32
	at  int64
}

func (wd *world) now() int64 { return int64(time.Since(wd.t0)) }

func configureOnce() {
	cfg := core.DefaultConfig()
	cfg.Core.LogLevel = "FATAL"
	cfg.Fw.Threads = 1
	core.LoadConfig(cfg, "/tmp")
	core.InitializeLogger(os.DevNull)
	table.Configure()
	fw.Configure()
}

func newWorld(w *bufio.Writer, nthreads int, dnlMs ...int) *world {
	wd := &world{w: w, faces: map[uint64]*recFace{}, nthr: nthreads, dnlMs: 6000}
	if len(dnlMs) > 0 && dnlMs[0] > 0 {
		wd.dnlMs = dnlMs[0]
	}
	// the dead-nonce-list lifetime is a configuration item read by table.Configure()
	cfg := core.GetConfig()
	cfg.Tables.DeadNonceList.Lifetime = wd.dnlMs
	core.LoadConfig(cfg, "/tmp")
	table.Configure()
	wd.t0 = time.Now()
	core.ShouldQuit = false
	if len(dnlMs) > 1 && dnlMs[1] > 0 {
		wd.fibM = dnlMs[1]
		cfg.Tables.Fib.Hashtable.M = uint16(wd.fibM)
		core.LoadConfig(cfg, "/tmp")
		table.CreateFIBTable("hashtable")
	} else {
		table.CreateFIBTable("nametree")
	}
	table.VerifResetNetworkRegion()
	table.NetworkRegion.Add(parseName(regionName))
	table.VerifSetCsFlags(true, true)
	table.SetCsCapacity(1024)
	fw.VerifConfigure(1024, nthreads)
	dispatch.FaceDispatch.Range(func(k, v any) bool { dispatch.FaceDispatch.Delete(k); return true })
	fw.Threads = make([]*fw.Thread, nthreads)
	dts := make([]dispatch.FWThread, nthreads)
	for i := 0; i < nthreads; i++ {
		th := fw.NewThread(i)
		fw.Threads[i] = th
		dts[i] = th
		th.VerifPitCs().(*table.PitCsTree).VerifObserveExpiration(func(tok uint32) {
			wd.expired = append(wd.expired, tok)
			if wd.runLoop {
				wd.expLog = append(wd.expLog, expObs{tok, wd.now()})
			}
		})
	}
	dispatch.InitializeFWThreads(dts)
	wd.threads = fw.Threads
	if len(dnlMs) > 2 && dnlMs[2] > 0 && nthreads == 1 {
		wd.runLoop = true
		wd.nextSweep = 1
		for _, th := range wd.threads {
			go th.Run()
		}
		synctest.Wait()
	}
	return wd
}

// dnlTickerPeriod: the period of the dead-nonce ticker the Run loop listens to, measured on a dead nonce list of the implementation
// (probeTicker); the ticker of a thread is created with the thread, i.e. at instant 0 of the case, so the loop sweeps at the
// multiples of the period
var dnlTickerPeriod = int64(100 * time.Millisecond)

func probeTicker(t *testing.T) {
	synctest.Test(t, func(t *testing.T) {
		d := table.NewDeadNonceList()
		t0 := time.Now()
		<-d.Ticker.C
		if iv := int64(time.Since(t0)); iv > 0 {
			dnlTickerPeriod = iv
		}
		d.Ticker.Stop()
	})
}

func (wd *world) dnlTickerInterval() int64 { return dnlTickerPeriod }

// flushTimers writes, in time order, what the production loop did by itself since the last call: the PIT updates that reaped
// entries (`ev rtick`, with the reaped tokens) and the dead-nonce sweeps (`ev rsweep`). These blocks carry no state dump (`noobs`):
// the state is observed after the next operation.
func (wd *world) flushTimers() {
	now := wd.now()
	type tev struct {
		at   int64
		kind int // 0 = PIT update, 1 = dead-nonce sweep
		toks []string
	}
	evs := []tev{}
	for _, e := range wd.expLog {
		if n := len(evs); n > 0 && evs[n-1].at == e.at {
			evs[n-1].toks = append(evs[n-1].toks, strconv.FormatUint(uint64(e.tok), 10))
		} else {
			evs = append(evs, tev{at: e.at, toks: []string{strconv.FormatUint(uint64(e.tok), 10)}})
		}
	}
	wd.expLog = wd.expLog[:0]
	iv := wd.dnlTickerInterval()
	for ; wd.nextSweep*iv <= now; wd.nextSweep++ {
		evs = append(evs, tev{at: wd.nextSweep * iv, kind: 1})
	}
	sort.SliceStable(evs, func(i, j int) bool {
		if evs[i].at != evs[j].at {
			return evs[i].at < evs[j].at
		}
		return evs[i].kind < evs[j].kind
	})
	// a sweep of an empty dead nonce list does nothing: not written (the list grows only by a PIT update or a packet)
	nonEmpty := wd.dnlLen > 0
	for _, e := range evs {
		if e.kind == 0 {
			nonEmpty = true
		} else if !nonEmpty {
			continue
		}
		if e.kind == 0 {
			wd.pf("ev rtick 0 %d\npick expired %s\nnoobs\n", e.at, strings.Join(e.toks, ","))
		} else {
			wd.pf("ev rsweep 0 %d\nnoobs\n", e.at)
		}
	}
}

// begin: every operation happens at a distinct virtual instant; in production-loop mode the loop first handles whatever became due
func (wd *world) begin() {
	time.Sleep(time.Microsecond)
	wd.log = wd.log[:0]
	wd.pend = wd.pend[:0]
	wd.expired = wd.expired[:0]
	if wd.runLoop {
		synctest.Wait()
		wd.flushTimers()
	}
}

func (wd *world) close() {
	core.ShouldQuit = true
	if wd.runLoop {
		for _, th := range wd.threads {
			th.TellToQuit()
			<-th.HasQuit
		}
		for _, th := range wd.threads {
			// the goroutine of the last armed update timer must not outlive the bubble
			select {
			case <-th.VerifPitCs().UpdateTimer():
			case <-time.After(time.Second):
			}
		}
		core.ShouldQuit = false
		return
	}
	for _, th := range wd.threads {
		pc := th.VerifPitCs()
		<-pc.UpdateTimer()
		pc.Update()
		th.VerifStop()
	}
	core.ShouldQuit = false
}

func (wd *world) pf(format string, a ...any) { fmt.Fprintf(wd.w, format, a...) }

// ---------------------------------------------------------------------------------------------------------------
// operations (text form = trace `ev` lines; executing one appends its observations)
// ---------------------------------------------------------------------------------------------------------------

func opt(s string) bool { return s != "-" }

func (wd *world) exec(line string) {
	f := strings.Fields(line)
	if f[0] == "rtick" || f[0] == "rsweep" {
		return // what the production loop did by itself in the recorded run; it does so again
	}
	if wd.runLoop && (f[0] == "tick" || f[0] == "sweep") {
		// the production loop updates the PIT and sweeps the dead nonce list by itself: let one period pass instead
		f = []string{"sleep", "100000000"}
		line = "sleep 100000000"
	}
	logOp("%s\n", line)
	wd.begin()
	switch f[0] {
	case "face":
		id, _ := strconv.ParseUint(f[2], 10, 64)
		if f[1] == "add" {
			sc := defn.NonLocal
			if f[3] == "1" {
				sc = defn.Local
			}
			lt, _ := strconv.Atoi(f[4])
			rf := &recFace{id: id, scope: sc, link: defn.LinkType(lt), log: &wd.log, pend: &wd.pend, cur: &wd.cur}
			wd.faces[id] = rf
			dispatch.AddFace(id, rf)
		} else {
			delete(wd.faces, id)
			dispatch.RemoveFace(id)
		}
		wd.pf("ev %s\n", line)
	case "fib":
		n := parseName(f[2])
		switch f[1] {
		case "ins":
			face, _ := strconv.ParseUint(f[3], 10, 64)
			cost, _ := strconv.ParseUint(f[4], 10, 64)
			table.FibStrategyTable.InsertNextHopEnc(n, face, cost)
		case "rem":
			face, _ := strconv.ParseUint(f[3], 10, 64)
			table.FibStrategyTable.RemoveNextHopEnc(n, face)
		case "clr":
			table.FibStrategyTable.ClearNextHopsEnc(n)
		}
		wd.pf("ev %s\n", line)
	case "strat":
		n := parseName(f[2])
		if f[1] == "set" {
			s := stratBest
			if f[3] == "1" {
				s = stratMulti
			}
			sn, _ := enc.NameFromStr(s)
			table.FibStrategyTable.SetStrategyEnc(n, sn)
		} else if len(n) > 0 { // never unset the root (management refuses that)
			table.FibStrategyTable.UnSetStrategyEnc(n)
		}
		wd.pf("ev %s\n", line)
	case "cs":
		table.VerifSetCsFlags(f[1] == "1", f[2] == "1")
		wd.pf("ev %s\n", line)
	case "sleep":
		d, _ := strconv.ParseInt(f[1], 10, 64)
		time.Sleep(time.Duration(d))
		if wd.runLoop {
			synctest.Wait()
			wd.flushTimers()
		}
		wd.pf("ev sleep %s\n", f[1])
	case "tick":
		k := 0
		if len(f) > 1 {
			k, _ = strconv.Atoi(f[1])
		}
		wd.cur = k
		pc := wd.threads[k].VerifPitCs()
		<-pc.UpdateTimer()
		now := wd.now()
		pc.Update()
		wd.pf("ev tick %d %d\n", k, now)
		toks := make([]string, len(wd.expired))
		for i, t := range wd.expired {
			toks[i] = strconv.FormatUint(uint64(t), 10)
		}
		if len(toks) == 0 {
			toks = []string{"-"}
		}
		wd.pf("pick expired %s\n", strings.Join(toks, ","))
	case "sweep":
		k := 0
		if len(f) > 1 {
			k, _ = strconv.Atoi(f[1])
		}
		wd.cur = k
		now := wd.now()
		wd.threads[k].VerifSweepDeadNonces()
		wd.pf("ev sweep %d %d\n", k, now)
	case "cscap":
		c, _ := strconv.Atoi(f[1])
		table.SetCsCapacity(c)
		wd.pf("ev %s\n", line)
	case "fragint":
		// fragint <n> int <face> <name> ... : the Interest arrives as n NDNLPv2 fragments through the real link service
		n, _ := strconv.Atoi(f[1])
		wd.doFragInt(n, f[2:])
	case "frames":
		// frames <face> <nameA> <nameB> <nonceA> <nonceB>: two LP-wrapped Interests arrive back to back through the real NDNLP link
		// service of the face, in the same receive buffer; the faces' send loops run only after the second frame was read
		wd.doFrames(fmt.Sprintf("int %s %s 0 0 %s - - - - -", f[1], f[2], f[4]), fmt.Sprintf("int %s %s 0 0 %s - - - - -", f[1], f[3], f[5]))
		return
	case "int":
		wd.doInterest(f, line)
	case "data":
		wd.doData(f, line)
	default:
		panic("bad op " + line)
	}
	wd.observe()
}

// int <face> <name> <cbp> <mbf> <nonce|-> <life_ms|-> <hop|-> <hints a;b|-> <tokhex|-> <nhf|->
func (wd *world) doInterest(f []string, line string) {
	inFace, _ := strconv.ParseUint(f[1], 10, 64)
	name := parseName(f[2])
	cfg := &ndn.InterestConfig{CanBePrefix: f[3] == "1", MustBeFresh: f[4] == "1"}
	if opt(f[5]) {
		x, _ := strconv.ParseUint(f[5], 10, 64)
		cfg.Nonce = utils.IdPtr(x)
	}
	if opt(f[6]) {
		ms, _ := strconv.ParseInt(f[6], 10, 64)
		cfg.Lifetime = utils.IdPtr(time.Duration(ms) * time.Millisecond)
	}
	if opt(f[7]) {
		h, _ := strconv.ParseUint(f[7], 10, 64)
		cfg.HopLimit = utils.IdPtr(uint(h))
	}
	if opt(f[8]) {
		for _, h := range strings.Split(f[8], ";") {
			cfg.ForwardingHint = append(cfg.ForwardingHint, parseName(h))
		}
	}
	ei, err := spec.Spec{}.MakeInterest(name, cfg, nil, nil)
	if err != nil {
		panic(err)
	}
	raw := ei.Wire.Join()
	p, _, err := spec.ReadPacket(enc.NewBufferReader(raw))
	if err != nil || p.Interest == nil {
		panic(fmt.Sprint("interest did not parse: ", err))
	}
	pkt := &defn.Pkt{Name: p.Interest.NameV, L3: p, Raw: raw, IncomingFaceID: utils.IdPtr(inFace)}
	if opt(f[9]) {
		pkt.PitToken = unhx(f[9])
	}
	if opt(f[10]) {
		nh, _ := strconv.ParseUint(f[10], 10, 64)
		pkt.NextHopFaceID = utils.IdPtr(nh)
	}
	now := wd.now()
	// the real link-service dispatch (fw/face/link-service.go dispatchInterest), then drain the thread queues
	tid := fw.HashNameToFwThread(pkt.Name)
	face.VerifFwDispatch(wd.scopeOf(faceID(f[1])), faceID(f[1]), pkt)
	wd.drain()
	wd.pf("ev int %d %s\n", now, strings.Join(f[1:], " "))
	// picks: token of the PIT entry with this key (if any) in the thread the Interest went to
	tok := "-"
	var fh enc.Name
	if opt(f[8]) { // same selection rule as the pipeline, only to locate the entry in the dump
		reaching := false
		for _, h := range cfg.ForwardingHint {
			if table.NetworkRegion.IsProducer(h) {
				reaching = true
				break
			} else if fh == nil {
				fh = h
			}
		}
		if reaching {
			fh = nil
		}
	}
	for _, e := range wd.threads[tid].VerifPitCs().(*table.PitCsTree).VerifDumpPit() {
		if e.Name.Equal(name) && e.CanBePrefix == cfg.CanBePrefix && e.MustBeFresh == cfg.MustBeFresh && e.Hint.Equal(fh) {
			tok = strconv.FormatUint(uint64(e.Token), 10)
		}
	}
	wd.pf("pick tok %s\n", tok)
	wd.pf("pick thr %d\n", tid)
}

// buildInterest makes the wire of the Interest described by the fields of an `int` operation (f[0] = "int")
func buildInterestWire(f []string) []byte {
	name := parseName(f[2])
	cfg := &ndn.InterestConfig{CanBePrefix: f[3] == "1", MustBeFresh: f[4] == "1"}
	if opt(f[5]) {
		x, _ := strconv.ParseUint(f[5], 10, 64)
		cfg.Nonce = utils.IdPtr(x)
	}
	if opt(f[6]) {
		ms, _ := strconv.ParseInt(f[6], 10, 64)
		cfg.Lifetime = utils.IdPtr(time.Duration(ms) * time.Millisecond)
	}
	if opt(f[7]) {
		h, _ := strconv.ParseUint(f[7], 10, 64)
		cfg.HopLimit = utils.IdPtr(uint(h))
	}
	ei, err := spec.Spec{}.MakeInterest(name, cfg, nil, nil)
	if err != nil {
		panic(err)
	}
	return ei.Wire.Join()
}

func (wd *world) entryToken(tid int, f []string) string {
	name := parseName(f[2])
	tok := "-"
	for _, e := range wd.threads[tid].VerifPitCs().(*table.PitCsTree).VerifDumpPit() {
		if e.Name.Equal(name) && e.CanBePrefix == (f[3] == "1") && e.MustBeFresh == (f[4] == "1") && len(e.Hint) == 0 {
			tok = strconv.FormatUint(uint64(e.Token), 10)
		}
	}
	return tok
}

func (wd *world) linkService(id uint64) *face.NDNLPLinkService {
	if wd.lsvc == nil {
		wd.lsvc = map[uint64]*face.NDNLPLinkService{}
	}
	ls := wd.lsvc[id]
	if ls == nil {
		ls = face.VerifFwLinkService(wd.scopeOf(id), id)
		wd.lsvc[id] = ls
	}
	if wd.rxbuf == nil {
		wd.rxbuf = make([]byte, 9000)
	}
	return ls
}

// doFragInt: f = fields of an `int` operation (no hints, PIT token, NextHopFaceId); the Interest is cut into n NDNLPv2 fragments
// (Sequence, FragIndex, FragCount) that arrive one after the other in the receive buffer of the face's real link service
func (wd *world) doFragInt(n int, f []string) {
	id := faceID(f[1])
	ls := wd.linkService(id)
	wire := buildInterestWire(f)
	if n < 2 {
		n = 2
	}
	if n > len(wire) {
		n = len(wire)
	}
	base := wd.seq + 1000
	wd.seq += uint64(n) + 7
	wd.pf("mark fragments %d\n", n)
	now := wd.now()
	tid := fw.HashNameToFwThread(parseName(f[2]))
	for i := 0; i < n; i++ {
		lo, hi := i*len(wire)/n, (i+1)*len(wire)/n
		lp := &spec.Packet{LpPacket: &spec.LpPacket{Sequence: utils.IdPtr(base + uint64(i)), FragIndex: utils.IdPtr(uint64(i)),
			FragCount: utils.IdPtr(uint64(n)), Fragment: enc.Wire{append([]byte{}, wire[lo:hi]...)}}}
		e := spec.PacketEncoder{}
		e.Init(lp)
		k := copy(wd.rxbuf, e.Encode(lp).Join())
		face.VerifFwHandleFrame(ls, wd.rxbuf[:k])
	}
	wd.drain()
	wd.pf("ev int %d %s\n", now, strings.Join(f[1:], " "))
	wd.pf("pick tok %s\npick thr %d\n", wd.entryToken(tid, f), tid)
}

// doFrames: opA and opB are `int` operations without hints, PIT token and NextHopFaceId, arriving on the same face
func (wd *world) doFrames(opA, opB string) {
	fa, fb := strings.Fields(opA), strings.Fields(opB)
	id := faceID(fa[1])
	ls := wd.linkService(id)
	frame := func(f []string) []byte {
		lp := &spec.Packet{LpPacket: &spec.LpPacket{Fragment: enc.Wire{buildInterestWire(f)}}}
		e := spec.PacketEncoder{}
		e.Init(lp)
		return e.Encode(lp).Join()
	}
	wd.pf("mark frames\n")
	// frame A is read into the receive buffer, handled and processed by the forwarding thread
	n := copy(wd.rxbuf, frame(fa))
	nowA := wd.now()
	tidA := fw.HashNameToFwThread(parseName(fa[2]))
	face.VerifFwHandleFrame(ls, wd.rxbuf[:n])
	wd.drain()
	nA := len(wd.pend)
	tokA := wd.entryToken(tidA, fa)
	var stateA strings.Builder
	saved := wd.w
	wd.w = bufio.NewWriter(&stateA)
	for k, th := range wd.threads {
		wd.observeThread(k, th)
	}
	wd.w.Flush()
	wd.w = saved
	// frame B is read into the SAME buffer before the send loops of the faces have run
	time.Sleep(time.Microsecond)
	n = copy(wd.rxbuf, frame(fb))
	nowB := wd.now()
	tidB := fw.HashNameToFwThread(parseName(fb[2]))
	face.VerifFwHandleFrame(ls, wd.rxbuf[:n])
	wd.drain()
	tokB := wd.entryToken(tidB, fb)
	// now the send loops run
	var logA, logB []sent
	for i, q := range wd.pend {
		if i < nA {
			logA = append(logA, q.encode())
		} else {
			logB = append(logB, q.encode())
		}
	}
	wd.pend = wd.pend[:0]
	wd.pf("ev int %d %s\n", nowA, strings.Join(fa[1:], " "))
	wd.pf("pick tok %s\npick thr %d\n", tokA, tidA)
	wd.writeOuts(logA)
	wd.w.WriteString(stateA.String())
	wd.pf("ev int %d %s\n", nowB, strings.Join(fb[1:], " "))
	wd.pf("pick tok %s\npick thr %d\n", tokB, tidB)
	wd.writeOuts(logB)
	for k, th := range wd.threads {
		wd.observeThread(k, th)
	}
}

// data <face> <name> <fresh_ms|-> <tokhex|->
func (wd *world) doData(f []string, line string) {
	faceNo, _ := strconv.ParseUint(f[1], 10, 64)
	name := parseName(f[2])
	cfg := &ndn.DataConfig{ContentType: utils.IdPtr(ndn.ContentTypeBlob)}
	if opt(f[3]) {
		ms, _ := strconv.ParseInt(f[3], 10, 64)
		cfg.Freshness = utils.IdPtr(time.Duration(ms) * time.Millisecond)
	}
	ed, err := spec.Spec{}.MakeData(name, cfg, enc.Wire{[]byte("x")}, nil)
	if err != nil {
		panic(err)
	}
	raw := ed.Wire.Join()
	p, _, err := spec.ReadPacket(enc.NewBufferReader(raw))
	if err != nil || p.Data == nil {
		panic(fmt.Sprint("data did not parse: ", err))
	}
	pkt := &defn.Pkt{Name: p.Data.NameV, L3: p, Raw: raw, IncomingFaceID: utils.IdPtr(faceNo)}
	if strings.HasPrefix(f[4], "@") {
		// symbolic PIT token, resolved against the Interests the forwarder has emitted so far (entry tokens are random, so a replay
		// must not carry the bytes of an earlier run):
		//   @                    token of the last emitted Interest
		//   @<face>:<name>       token of the last Interest emitted on that face with that name
		//   @x<face>:<name>      that token with its last bit flipped (6 bytes, never issued)
		//   @t<id>:<face>:<name> that token under thread id <id>
		sym := f[4]
		wd.pf("mark tok %s\n", sym)
		f[4] = wd.resolveToken(sym)
	}
	if opt(f[4]) {
		pkt.PitToken = unhx(f[4])
	}
	now := wd.now()
	face.VerifFwDispatch(wd.scopeOf(faceNo), faceNo, pkt)
	got := wd.drain()
	wd.pf("ev data %d %s\n", now, strings.Join(f[1:], " "))
	if got == nil {
		return
	}
	ths := []string{}
	for k, n := range got {
		if n > 0 {
			ths = append(ths, strconv.Itoa(k))
		}
	}
	if len(ths) == 0 {
		ths = []string{"-"}
	}
	wd.pf("pick thrs %s\n", strings.Join(ths, ","))
}

func (wd *world) resolveToken(sym string) string {
	if sym == "@" {
		if len(wd.emitted) > 0 {
			return wd.emitted[len(wd.emitted)-1].tok
		}
		return "-"
	}
	body := sym[1:]
	mode, tid := byte(0), 0
	if strings.HasPrefix(body, "x") {
		mode, body = 'x', body[1:]
	} else if strings.HasPrefix(body, "t") {
		parts := strings.SplitN(body[1:], ":", 2)
		tid, _ = strconv.Atoi(parts[0])
		mode, body = 't', parts[1]
	}
	fn := strings.SplitN(body, ":", 2)
	if len(fn) != 2 {
		return "-"
	}
	face, _ := strconv.ParseUint(fn[0], 10, 64)
	for i := len(wd.emitted) - 1; i >= 0; i-- {
		e := wd.emitted[i]
		if e.face == face && e.name == fn[1] {
			b := unhx(e.tok)
			if len(b) == 6 {
				switch mode {
				case 'x':
					b[5] ^= 1
				case 't':
					b[0], b[1] = byte(tid>>8), byte(tid)
				}
			}
			return hx(b)
		}
	}
	return "-"
}

func faceID(s string) uint64 {
	id, _ := strconv.ParseUint(s, 10, 64)
	return id
}

func (wd *world) scopeOf(id uint64) defn.Scope {
	if rf := wd.faces[id]; rf != nil {
		return rf.scope
	}
	return defn.NonLocal
}

// drain processes the queued packets thread by thread (ascending), tagging the sends with the thread
func (wd *world) drain() []int {
	if wd.runLoop {
		// the Run goroutine takes the packets from its queues; wait until it is back in its select
		wd.cur = 0
		synctest.Wait()
		return nil
	}
	got := make([]int, len(wd.threads))
	for k, th := range wd.threads {
		wd.cur = k
		got[k] = th.VerifDrain()
	}
	return got
}

// ---------------------------------------------------------------------------------------------------------------
// observations
// ---------------------------------------------------------------------------------------------------------------

func (wd *world) rel(t int64) string {
	return strconv.FormatInt(t-wd.t0.UnixNano(), 10)
}

// flush lets the faces' send loops run: every queued packet is encoded now
func (wd *world) flush() {
	for _, q := range wd.pend {
		wd.log = append(wd.log, q.encode())
	}
	wd.pend = wd.pend[:0]
}

func (wd *world) observe() {
	wd.flush()
	wd.writeOuts(wd.log)
	if wd.runLoop {
		wd.pf("clock %d\n", wd.now())
	}
	for k, th := range wd.threads {
		wd.observeThread(k, th)
	}
}

func (wd *world) writeOuts(log []sent) {
	// sends, as a sorted multiset, tagged with the forwarding thread that made them
	ss := make([]string, len(log))
	for i, s := range log {
		ss[i] = fmt.Sprintf("%d %d %s %s %s %s", s.thr, s.face, s.kind, s.name, s.hop, s.tok)
		if s.kind == "I" {
			wd.emitted = append(wd.emitted, s)
		}
	}
	sort.Strings(ss)
	for _, s := range ss {
		wd.pf("out %s\n", s)
	}
}

func (wd *world) observeThread(k int, th *fw.Thread) {
	pc := th.VerifPitCs().(*table.PitCsTree)
	// PIT
	ents := pc.VerifDumpPit()
	sort.SliceStable(ents, func(i, j int) bool { return nameStr(ents[i].Name) < nameStr(ents[j].Name) })
	var sb strings.Builder
	for _, e := range ents {
		sb.WriteString(" ")
		sb.WriteString(nameStr(e.Name))
		sb.WriteString("|" + b01(e.CanBePrefix) + "|" + b01(e.MustBeFresh) + "|")
		if len(e.Hint) == 0 {
			sb.WriteString("-")
		} else {
			sb.WriteString(nameStr(e.Hint))
		}
		sb.WriteString("|" + strconv.FormatUint(uint64(e.Token), 10) + "|" + b01(e.Satisfied) + "|")
		if e.Queued {
			sb.WriteString(wd.rel(e.QueuePrio))
		} else {
			sb.WriteString("-")
		}
		sb.WriteString("|")
		for i, r := range e.In {
			if i > 0 {
				sb.WriteString(",")
			}
			sb.WriteString(fmt.Sprintf("%d:%d:%s:%s:%s", r.Face, r.Nonce, wd.rel(r.At), wd.rel(r.Expiry), hx(r.PitToken)))
		}
		if len(e.In) == 0 {
			sb.WriteString("-")
		}
		sb.WriteString("|")
		for i, r := range e.Out {
			if i > 0 {
				sb.WriteString(",")
			}
			sb.WriteString(fmt.Sprintf("%d:%d:%s:%s:%s", r.Face, r.Nonce, wd.rel(r.At), wd.rel(r.Expiry), nameStr(r.Name)))
		}
		if len(e.Out) == 0 {
			sb.WriteString("-")
		}
		if !e.InTokenMap || e.NodeDepth != len(e.Name) {
			sb.WriteString("|BAD")
		}
	}
	wd.pf("pit %d%s\n", k, sb.String())
	// reported sizes: through the production accessors Thread.GetNumPitEntries/GetNumCsEntries (-> PitSize/CsSize)
	_, nt, nq := pc.VerifPitCounters()
	wd.pf("pitn %d %d %d %d %d\n", k, th.GetNumPitEntries(), nt, nq, th.GetNumCsEntries())
	// CS
	cs := pc.VerifDumpCs()
	cl := make([]string, len(cs))
	for i, c := range cs {
		cl[i] = nameStr(c.Name) + ":" + wd.rel(c.Stale)
	}
	sort.Strings(cl)
	wd.pf("cs %d %s\n", k, strings.Join(cl, " "))
	// dead nonce list: size and membership of the probe set
	dn := th.VerifDeadNonceList()
	n1, _ := dn.VerifLen()
	wd.dnlLen = n1
	hits := []string{}
	for _, ns := range wd.probeN {
		nm := parseName(ns)
		for _, x := range wd.probeX {
			if dn.Find(nm, x) {
				hits = append(hits, ns+":"+strconv.FormatUint(uint64(x), 10))
			}
		}
	}
	sort.Strings(hits)
	wd.pf("dnl %d %d %s\n", k, n1, strings.Join(hits, " "))
}

func b01(b bool) string {
	if b {
		return "1"
	}
	return "0"
}

// ---------------------------------------------------------------------------------------------------------------
// generator
// ---------------------------------------------------------------------------------------------------------------

type gen struct {
	r      *rand.Rand
	names  []string
	hot    []string
	nonces []uint32
	faces  []uint64
	local  map[uint64]bool
	wd     *world
	kinds  map[string]int
	prev   [][]string // fields of earlier generated Interests: face name cbp mbf nonce life hop hints tok nhf
	base   string
	queue  []string // scripted operations still to be issued
}

func buildUniverse(r *rand.Rand) []string {
	// shared-prefix universe, depth 0..4, with /localhost/... and the producer region included
	u := []string{"/", "/8.1", "/8.1/8.2", "/8.1/8.2/8.3", "/8.1/8.2/8.3/8.5", "/8.1/8.3", "/8.1/8.2/8.1", "/8.2", "/8.2/8.1",
		"/8.0", "/8.0/8.4", "/8.0/8.4/8.1", "/8.0/8.1", "/8.0/8.1/8.2", "/8.0/8.4/8.1/8.2", "/32.0/8.1", "/8.9/8.4", "/8.9/8.4/8.1",
		"/8.6", "/8.6/8.1", "/8.7", "/8.7/8.1", "/8.1/32.2", "/8.3/8.3/8.3/8.3", "/8.10/8.4/8.1"}
	return u
}

func (g *gen) pick(xs []string) string { return xs[g.r.Intn(len(xs))] }

func (g *gen) name() string {
	if g.r.Intn(10) < 6 {
		return g.pick(g.hot)
	}
	return g.pick(g.names)
}

func (g *gen) face() uint64 {
	if g.r.Intn(25) == 0 {
		return 99 // a face that does not exist
	}
	return g.faces[g.r.Intn(len(g.faces))]
}

func (g *gen) extend(n string) string {
	// a universe name that n is a prefix of (possibly n itself)
	c := []string{}
	for _, m := range g.names {
		if n == "/" || m == n || strings.HasPrefix(m, n+"/") {
			c = append(c, m)
		}
	}
	if len(c) == 0 {
		return n
	}
	return g.pick(c)
}

func (g *gen) otherNonce(x string) string {
	for i := 0; i < 8; i++ {
		y := strconv.FormatUint(uint64(g.nonces[g.r.Intn(len(g.nonces))]), 10)
		if y != x {
			return y
		}
	}
	return x
}

func (g *gen) interest() string {
	// variations of an earlier Interest: retransmission (new nonce / same nonce), the same nonce from another face (loop),
	// the same name from another face (aggregation)
	if len(g.prev) > 0 && g.r.Intn(100) < 42 {
		p := append([]string{}, g.prev[g.r.Intn(len(g.prev))]...)
		switch g.r.Intn(8) {
		case 0, 1, 2:
			p[4] = g.otherNonce(p[4])
		case 3:
		case 4, 5:
			p[0] = strconv.FormatUint(g.face(), 10)
		default:
			p[0] = strconv.FormatUint(g.face(), 10)
			p[4] = g.otherNonce(p[4])
		}
		if g.r.Intn(4) == 0 {
			p[8] = g.pick([]string{"-", "0000aa000102", "01070707", "0102030405060708"})
		}
		if g.r.Intn(5) == 0 {
			p[5] = g.pick([]string{"-", "50", "1000", "10000"})
		}
		g.prev = append(g.prev, p)
		return "int " + strings.Join(p, " ")
	}
	n := g.name()
	cbp := b01(g.r.Intn(3) == 0)
	mbf := b01(g.r.Intn(4) == 0)
	nonce := "-"
	if g.r.Intn(40) != 0 {
		nonce = strconv.FormatUint(uint64(g.nonces[g.r.Intn(len(g.nonces))]), 10)
	}
	life := "-"
	switch g.r.Intn(6) {
	case 0:
		life = "50"
	case 1:
		life = "10000"
	case 2:
		life = "1000"
	case 3:
		if g.r.Intn(4) == 0 {
			life = "0"
		}
	}
	hop := "-"
	switch g.r.Intn(12) {
	case 0:
		if g.r.Intn(2) == 0 {
			hop = "0"
		}
	case 1:
		hop = "1"
	case 2:
		hop = "2"
	case 3:
		hop = "255"
	case 4:
		hop = strconv.Itoa(g.r.Intn(256))
	}
	hints := "-"
	if g.r.Intn(8) == 0 {
		hs := []string{}
		for i := 0; i <= g.r.Intn(2); i++ {
			hs = append(hs, g.pick([]string{"/8.7", "/8.7/8.1", "/8.6/8.1", "/8.2", "/8.6", "/8.0/8.1"}))
		}
		hints = strings.Join(hs, ";")
	}
	tok := "-"
	switch g.r.Intn(6) {
	case 0:
		tok = hex.EncodeToString([]byte{0, 0, 0xaa, byte(g.r.Intn(3)), 1, 2})
	case 1:
		tok = hex.EncodeToString([]byte{byte(g.r.Intn(2)), 7, 7, 7})
	case 2:
		tok = "0102030405060708"
	}
	nhf := "-"
	if g.r.Intn(12) == 0 {
		nhf = strconv.FormatUint(g.face(), 10)
	}
	p := []string{strconv.FormatUint(g.face(), 10), n, cbp, mbf, nonce, life, hop, hints, tok, nhf}
	g.prev = append(g.prev, p)
	if hints == "-" && tok == "-" && nhf == "-" && nonce != "-" && g.r.Intn(8) == 0 {
		// arrives as 2 or 3 NDNLPv2 fragments through the real link service
		if p[6] == "-" || p[6] == "0" {
			p[6] = strconv.Itoa(2 + g.r.Intn(200))
		}
		return fmt.Sprintf("fragint %d int %s", 2+g.r.Intn(2), strings.Join(p, " "))
	}
	return "int " + strings.Join(p, " ")
}

func (g *gen) data() string {
	fresh := "-"
	switch g.r.Intn(4) {
	case 0:
		fresh = "1000"
	case 1:
		fresh = "100000"
	case 2:
		fresh = "10"
	}
	em := g.wd.emitted
	if len(em) > 0 && g.r.Intn(10) < 6 {
		// reply to an Interest the forwarder emitted: arrives on that face
		s := em[g.r.Intn(len(em))]
		n := s.name
		if g.r.Intn(3) == 0 {
			n = g.extend(n)
		}
		tok := "-"
		sym := fmt.Sprintf("%d:%s", s.face, s.name)
		switch g.r.Intn(10) {
		case 0, 1, 2, 3, 4:
			tok = "@" + sym // echoed
		case 5:
			tok = "@x" + sym // foreign: 6 bytes but never issued
		case 6:
			b := unhx(s.tok)
			if len(b) == 6 {
				b[1] = byte(g.wd.nthr + g.r.Intn(3)) // our entry token under a thread id that does not exist (the thread count itself included)
				if g.wd.nthr > 1 && g.r.Intn(2) == 0 {
					b[1] = byte((int(unhx(s.tok)[1]) + 1) % g.wd.nthr) // ... or under another existing thread
				}
				tok = fmt.Sprintf("@t%d:%s", int(b[1]), sym)
			}
		case 7:
			tok = "0a0b0c0d" // wrong length
		}
		face := s.face
		if g.r.Intn(8) == 0 {
			face = g.face()
		}
		return fmt.Sprintf("data %d %s %s %s", face, n, fresh, tok)
	}
	tok := "-"
	switch g.r.Intn(8) {
	case 0:
		tok = "000011223344"
	case 1:
		tok = "0a0b0c0d0e0f0a0b"
	}
	return fmt.Sprintf("data %d %s %s %s", g.face(), g.name(), fresh, tok)
}

// FIB costs: mostly small, sometimes at the boundaries of the 64-bit unsigned range
func (g *gen) cost() string {
	if g.r.Intn(5) == 0 {
		return g.pick([]string{"0", "1", "4294967296", "9223372036854775807", "9223372036854775808", "9223372036854775828", "18446744073709551615", "10"})
	}
	return strconv.Itoa(g.r.Intn(4))
}

func (g *gen) setup() []string {
	ops := []string{}
	nf := 2 + g.r.Intn(5)
	g.faces = nil
	g.local = map[uint64]bool{}
	for i := 0; i < nf; i++ {
		id := uint64(i + 1)
		loc := g.r.Intn(2) == 0
		if i == 0 {
			loc = true
		}
		if i == 1 {
			loc = false
		}
		lt := 0
		switch g.r.Intn(6) {
		case 0:
			lt = 1
		case 1:
			lt = 2
		}
		g.faces = append(g.faces, id)
		g.local[id] = loc
		ops = append(ops, fmt.Sprintf("face add %d %s %d", id, b01(loc), lt))
	}
	// FIB: bias towards a default route via a non-local face, /localhost via local faces
	if g.r.Intn(2) == 0 {
		ops = append(ops, fmt.Sprintf("fib ins / %d %d", g.faces[1], g.r.Intn(3)))
	}
	for i := 0; i < 2+g.r.Intn(5); i++ {
		ops = append(ops, fmt.Sprintf("fib ins %s %d %s", g.pick(g.names), g.face(), g.cost()))
	}
	if g.r.Intn(2) == 0 {
		ops = append(ops, fmt.Sprintf("fib ins /8.0 %d %d", g.face(), g.r.Intn(3)))
	}
	// routes for the cluster of hot names, often several next hops with equal or different costs
	if g.r.Intn(5) != 0 {
		for i := 0; i <= g.r.Intn(3); i++ {
			ops = append(ops, fmt.Sprintf("fib ins %s %d %s", g.base, g.faces[g.r.Intn(len(g.faces))], g.cost()))
		}
	}
	for i := 0; i < g.r.Intn(3); i++ {
		ops = append(ops, fmt.Sprintf("strat set %s %d", g.pick(g.names), g.r.Intn(2)))
	}
	if g.r.Intn(3) == 0 {
		ops = append(ops, fmt.Sprintf("strat set / %d", g.r.Intn(2)))
	}
	switch g.r.Intn(6) {
	case 0:
		ops = append(ops, "cs 0 0")
	case 1:
		ops = append(ops, "cs 1 0")
	case 2:
		ops = append(ops, "cs 0 1")
	}
	return ops
}

// child returns a universe name exactly one component longer than n ("" if none)
func (g *gen) child(n string) string {
	depth := strings.Count(n, "/")
	if n == "/" {
		depth = 0
	}
	c := []string{}
	for _, m := range g.names {
		if m != n && (n == "/" || strings.HasPrefix(m, n+"/")) && strings.Count(m, "/") == depth+1 {
			c = append(c, m)
		}
	}
	if len(c) == 0 {
		return ""
	}
	return g.pick(c)
}

func (g *gen) twoNonces() (string, string, string) {
	a := strconv.FormatUint(uint64(g.nonces[g.r.Intn(len(g.nonces))]), 10)
	b := g.otherNonce(a)
	c := a
	for i := 0; i < 8 && (c == a || c == b); i++ {
		c = strconv.FormatUint(uint64(g.nonces[g.r.Intn(len(g.nonces))]), 10)
	}
	return a, b, c
}

// scripted multi-step scenarios (timed sequences that a memoryless mix produces too rarely)
func (g *gen) script() []string {
	f1 := g.faces[g.r.Intn(len(g.faces))]
	f2 := g.faces[g.r.Intn(len(g.faces))]
	n := g.pick(g.hot)
	a, b, c := g.twoNonces()
	if g.wd.dnlMs <= 1000 && g.r.Intn(2) == 0 {
		// dead-nonce timeline (short dead-nonce lifetime L): nonce x forwarded; retransmission with another nonce records x as
		// dead (t1); the Data records x again (t2); the first record expires and is swept; x is used and recorded again (t3);
		// a sweep after t2+L but before t3+L; then x arrives from another face inside the lifetime of the third record
		L := int64(g.wd.dnlMs) * 1000000
		up := g.faces[g.r.Intn(len(g.faces))]
		k := 0
		if g.wd.nthr > 1 {
			k = fw.HashNameToFwThread(parseName(n))
		}
		i := func(f uint64, x string) string { return fmt.Sprintf("int %d %s 0 0 %s 10000 - - - -", f, n, x) }
		return []string{"cs 0 0", fmt.Sprintf("fib ins %s %d 0", n, up),
			i(f1, a), "sleep 50000000", i(f1, b), "sleep 100000000", fmt.Sprintf("data %d %s - @", up, n),
			fmt.Sprintf("sleep %d", L-90000000), fmt.Sprintf("sweep %d", k),
			i(f1, a), "sleep 10000000", i(f1, c),
			fmt.Sprintf("sleep %d", int64(150000000)), fmt.Sprintf("sweep %d", k),
			i(f2, a), i(f1, a)}
	}
	if g.r.Intn(7) == 0 {
		// two LP-wrapped Interests of the same frame size back to back in one receive buffer of a local face: an ordinary name that the
		// default route sends to a non-local face, then a /localhost name
		var loc, non []uint64
		for _, f := range g.faces {
			if g.local[f] {
				loc = append(loc, f)
			} else {
				non = append(non, f)
			}
		}
		if len(loc) > 0 && len(non) > 0 {
			return []string{fmt.Sprintf("fib ins / %d 0", non[g.r.Intn(len(non))]),
				fmt.Sprintf("frames %d /8.10/8.4/8.1 /8.0/8.4/8.1 %s %s", loc[g.r.Intn(len(loc))], a, b)}
		}
	}
	switch g.r.Intn(12) {
	case 11:
		// a fragmented Interest with a hop limit that is forwarded
		up := g.faces[g.r.Intn(len(g.faces))]
		return []string{fmt.Sprintf("fib ins %s %d 0", n, up),
			fmt.Sprintf("fragint %d int %d %s 0 0 %s 10000 %d - - -", 2+g.r.Intn(2), f1, n, a, 2+g.r.Intn(250))}
	case 10:
		// a pending CanBePrefix Interest, a short-lived one on a child name that expires and is reaped; then the same nonce from another
		// face (a loop) and a different-nonce retransmission, both inside the suppression interval of the first send
		ch := g.child(n)
		if ch == "" {
			return nil
		}
		up := g.faces[g.r.Intn(len(g.faces))]
		ops := []string{fmt.Sprintf("fib ins %s %d 0", n, up),
			fmt.Sprintf("int %d %s 1 0 %s 10000 - - - -", f1, n, a),
			fmt.Sprintf("int %d %s 0 0 %s 50 - - - -", f2, ch, b), "sleep 150000000"}
		for k := 0; k < g.wd.nthr; k++ {
			ops = append(ops, fmt.Sprintf("tick %d", k))
		}
		return append(ops, fmt.Sprintf("int %d %s 1 0 %s 10000 - - - -", f2, n, a), fmt.Sprintf("int %d %s 1 0 %s 10000 - - - -", f1, n, c))
	case 9:
		// stale Data cached at the name of a pending MustBeFresh Interest is evicted (capacity 1) by caching other Data; then the
		// same nonce from another face and a different-nonce retransmission inside the suppression interval
		up := g.faces[g.r.Intn(len(g.faces))]
		other := g.pick(g.names)
		if other == n {
			return nil
		}
		return []string{"cs 1 1", "cscap 1", fmt.Sprintf("fib ins %s %d 0", n, up),
			fmt.Sprintf("data %d %s - -", up, n),
			fmt.Sprintf("int %d %s 0 1 %s 10000 - - - -", f1, n, a),
			fmt.Sprintf("data %d %s 100000 -", up, other),
			fmt.Sprintf("int %d %s 0 1 %s 10000 - - - -", f2, n, a),
			fmt.Sprintf("int %d %s 0 1 %s 10000 - - - -", f1, n, c),
			"cscap 1024"}
	case 8:
		// best-route among next hops whose costs sit at the boundaries of the unsigned 64-bit range
		cs := []string{"10", "9223372036854775828", "0", "18446744073709551615", "9223372036854775807", "9223372036854775808", "1", "4294967296"}
		g.r.Shuffle(len(cs), func(i, j int) { cs[i], cs[j] = cs[j], cs[i] })
		ops := []string{fmt.Sprintf("strat set %s 0", n), fmt.Sprintf("fib clr %s", n)}
		k := 0
		for _, f := range g.faces {
			if f != f1 && k < 3 {
				ops = append(ops, fmt.Sprintf("fib ins %s %d %s", n, f, cs[k]))
				k++
			}
		}
		return append(ops, fmt.Sprintf("int %d %s 0 0 %s - - - - -", f1, n, a))
	case 7:
		// the strategy is chosen by the Interest name, the next hops by the forwarding hint (outside the producer region): different
		// strategy choices on the two prefixes, two next hops on the hint's FIB entry
		hint := g.pick([]string{"/8.7", "/8.7/8.1"})
		sn := g.r.Intn(2)
		ops := []string{fmt.Sprintf("strat set %s %d", n, sn), fmt.Sprintf("strat set /8.7 %d", 1-sn), "fib clr /8.7", "fib clr /8.7/8.1"}
		k := 0
		for _, f := range g.faces {
			if f != f1 && k < 2 {
				ops = append(ops, fmt.Sprintf("fib ins /8.7 %d %d", f, k+1))
				k++
			}
		}
		return append(ops, fmt.Sprintf("int %d %s 0 0 %s - - %s - -", f1, n, a, hint))
	case 6:
		// a face is removed from the face table while its packet is still queued: /localhost Data from it must not satisfy the pending
		// /localhost Interest of a local consumer, its /localhost Interest must not be forwarded
		var loc []uint64
		for _, f := range g.faces {
			if g.local[f] {
				loc = append(loc, f)
			}
		}
		if len(loc) < 2 {
			return nil
		}
		gone := g.faces[g.r.Intn(len(g.faces))]
		lh := g.pick([]string{"/8.0/8.4/8.1", "/8.0/8.1", "/8.0/8.1/8.2"})
		cons, prod := loc[0], loc[1]
		if gone == cons {
			cons, prod = prod, cons
		}
		return []string{"cs 1 1", fmt.Sprintf("fib ins /8.0 %d 0", prod),
			fmt.Sprintf("int %d %s 0 0 %s 10000 - - - -", cons, lh, a),
			fmt.Sprintf("face del %d", gone),
			fmt.Sprintf("data %d %s 100000 -", gone, lh),
			fmt.Sprintf("int %d %s 0 0 %s 10000 - - - -", gone, lh, b),
			fmt.Sprintf("int %d %s 0 0 %s 10000 - - - -", cons, lh, c)}
	case 5:
		// forwarded, satisfied by Data that is stale at once, revived before the PIT sweep by a MustBeFresh Interest the cache cannot
		// answer (forwarded, short lifetime), expires unsatisfied at a PIT update; then the same name and nonce loop back on another face
		up := g.faces[g.r.Intn(len(g.faces))]
		ops := []string{fmt.Sprintf("fib ins %s %d 0", n, up),
			fmt.Sprintf("int %d %s 0 1 %s 10000 - - - -", f1, n, a),
			fmt.Sprintf("data %d %s - %s", up, n, g.pick([]string{"@", "-"})),
			fmt.Sprintf("int %d %s 0 1 %s 50 - - - -", f1, n, b),
			"sleep 200000000"}
		for k := 0; k < g.wd.nthr; k++ {
			ops = append(ops, fmt.Sprintf("tick %d", k))
		}
		return append(ops, fmt.Sprintf("int %d %s 0 1 %s 10000 - - - -", f2, n, b), fmt.Sprintf("int %d %s 0 1 %s 10000 - - - -", f1, n, b))
	case 4:
		// a cache hit on a PIT entry that still holds another face's unsatisfied in-record: A asks for a child name, C asks for the
		// parent with CanBePrefix, upstream answers C echoing C's token with Data named like A's Interest (cached, A stays
		// pending), then B asks for the child name and is answered from the cache — A must not get a copy of that reply
		ch := g.child(n)
		if ch == "" || len(g.faces) < 3 {
			return nil
		}
		up := g.faces[g.r.Intn(len(g.faces))]
		f3 := g.faces[g.r.Intn(len(g.faces))]
		base4 := []string{"cs 1 1", fmt.Sprintf("strat set %s %d", n, g.r.Intn(2)), fmt.Sprintf("fib ins %s %d 0", n, up),
			fmt.Sprintf("int %d %s 0 0 %s 10000 - - %s -", f1, ch, a, g.pick([]string{"-", "01070707"})),
			fmt.Sprintf("int %d %s 1 0 %s 10000 - - - -", f2, n, b),
			fmt.Sprintf("data %d %s 100000 @", up, ch),
			fmt.Sprintf("int %d %s 0 0 %s 10000 - - %s -", f3, ch, c, g.pick([]string{"-", "0102030405060708"}))}
		// sometimes a PIT update runs before the Data for the first consumer arrives (its Interest is still inside its lifetime)
		if g.r.Intn(2) == 0 {
			ops4 := []string{"sleep 150000000"}
			for k := 0; k < g.wd.nthr; k++ {
				ops4 = append(ops4, fmt.Sprintf("tick %d", k))
			}
			return append(append(base4, ops4...), fmt.Sprintf("data %d %s 100000 -", up, ch))
		}
		return append(base4, fmt.Sprintf("data %d %s 100000 -", up, ch))
	case 3:
		// /localhost Data cached from an exchange between local applications; then a NON-local consumer asks with CanBePrefix for
		// a (possibly empty) prefix of it: the empty name, and names that are not under /localhost
		var loc, non []uint64
		for _, f := range g.faces {
			if g.local[f] {
				loc = append(loc, f)
			} else {
				non = append(non, f)
			}
		}
		if len(loc) == 0 || len(non) == 0 {
			return nil
		}
		lh := g.pick([]string{"/8.0/8.4/8.1", "/8.0/8.1", "/8.0/8.1/8.2", "/8.0/8.4", "/8.0/8.4/8.1/8.2"})
		app, prod, remote := loc[g.r.Intn(len(loc))], loc[g.r.Intn(len(loc))], non[g.r.Intn(len(non))]
		ops := []string{"cs 1 1"}
		if g.r.Intn(2) == 0 {
			ops = append(ops, fmt.Sprintf("int %d %s 0 0 %s - - - - -", app, lh, a))
		}
		ops = append(ops, fmt.Sprintf("data %d %s 100000 -", prod, lh))
		ops = append(ops, fmt.Sprintf("int %d / 1 %s %s - - - %s -", remote, b01(g.r.Intn(3) == 0), b, g.pick([]string{"-", "01070707"})))
		ops = append(ops, fmt.Sprintf("int %d / 1 0 %s - - - - -", non[g.r.Intn(len(non))], c))
		return ops
	case 0:
		// a long-lived pending Interest on a name, a short-lived one on a child name that expires and is reaped, then Data
		// without PIT token for the parent
		ch := g.child(n)
		if ch == "" {
			return nil
		}
		ops := []string{
			fmt.Sprintf("int %d %s %s 0 %s 10000 - - - -", f1, n, b01(g.r.Intn(2) == 0), a),
			fmt.Sprintf("int %d %s 0 0 %s 50 - - - -", f2, ch, b),
			"sleep 300000000",
		}
		for k := 0; k < g.wd.nthr; k++ {
			ops = append(ops, fmt.Sprintf("tick %d", k))
		}
		ops = append(ops, fmt.Sprintf("data %d %s %s -", g.face(), n, g.pick([]string{"-", "1000"})))
		return ops
	case 1:
		// forwarded; retransmitted after the suppression interval (forwarded again); retransmitted inside the new interval
		// (must be aggregated), from the same and from another face
		i1 := fmt.Sprintf("int %d %s 0 0 %%s 10000 - - - -", f1, n)
		return []string{
			fmt.Sprintf(i1, a), "sleep 600000000", fmt.Sprintf(i1, b), "sleep 100000000", fmt.Sprintf(i1, c),
			fmt.Sprintf("int %d %s 0 0 %s 10000 - - - -", f2, n, a),
		}
	default:
		// cached Data, answered from the cache, then the same Data again
		up := g.faces[g.r.Intn(len(g.faces))]
		return []string{
			fmt.Sprintf("data %d %s 100000 -", up, n),
			fmt.Sprintf("int %d %s 0 0 %s - - - %s -", f1, n, a, g.pick([]string{"-", "01070707"})),
			fmt.Sprintf("data %d %s 100000 -", up, n),
		}
	}
}

func (g *gen) next() string {
	if len(g.queue) > 0 {
		op := g.queue[0]
		g.queue = g.queue[1:]
		return op
	}
	if g.r.Intn(100) < 7 {
		if sc := g.script(); len(sc) > 0 {
			g.queue = sc[1:]
			return sc[0]
		}
	}
	x := g.r.Intn(100)
	switch {
	case x < 44:
		return g.interest()
	case x < 72:
		return g.data()
	case x < 82:
		ds := []int64{1000000, 1000000, 100000000, 100000000, 300000000, 600000000, 2000000000, 5000000000}
		return fmt.Sprintf("sleep %d", ds[g.r.Intn(len(ds))])
	case x < 90:
		return fmt.Sprintf("tick %d", g.r.Intn(g.wd.nthr))
	case x < 93:
		return fmt.Sprintf("sweep %d", g.r.Intn(g.wd.nthr))
	case x < 95:
		if g.r.Intn(2) == 0 {
			return fmt.Sprintf("fib ins %s %d %s", g.pick(g.names), g.face(), g.cost())
		}
		return fmt.Sprintf("fib rem %s %d", g.pick(g.names), g.face())
	case x < 96:
		return fmt.Sprintf("fib clr %s", g.pick(g.names))
	case x < 97:
		if g.r.Intn(3) == 0 {
			return fmt.Sprintf("strat unset %s", g.pick(g.names))
		}
		return fmt.Sprintf("strat set %s %d", g.pick(g.names), g.r.Intn(2))
	case x < 98:
		return fmt.Sprintf("cs %d %d", g.r.Intn(2), g.r.Intn(2))
	case x < 99:
		id := g.faces[g.r.Intn(len(g.faces))]
		return fmt.Sprintf("face del %d", id)
	default:
		id := uint64(10 + g.r.Intn(3))
		return fmt.Sprintf("face add %d %d %d", id, g.r.Intn(2), g.r.Intn(3))
	}
}

// ---------------------------------------------------------------------------------------------------------------
// driver
// ---------------------------------------------------------------------------------------------------------------

func prefixClosure(names []string) []string {
	seen := map[string]bool{}
	out := []string{}
	for _, n := range names {
		nm := parseName(n)
		for k := 0; k <= len(nm); k++ {
			p := nameStr(nm[:k])
			if !seen[p] {
				seen[p] = true
				out = append(out, p)
			}
		}
	}
	sort.Strings(out)
	return out
}

func header(wd *world, k int, names []string, nonces []uint32) {
	wd.pf("case %d\n", k)
	logOp("case %d\nthreads %d\ndnl %d\nfibm %d\nrunloop %d\n", k, wd.nthr, wd.dnlMs, wd.fibM, map[bool]int{false: 0, true: 1}[wd.runLoop])
	xs := make([]string, len(nonces))
	for i, x := range nonces {
		xs[i] = strconv.FormatUint(uint64(x), 10)
	}
	wd.pf("cfg threads=%d dnl=%d cscap=1024 region=%s fibm=%d run=%d\n", wd.nthr, int64(wd.dnlMs)*1000000, regionName, wd.fibM, map[bool]int{false: 0, true: 1}[wd.runLoop])
	// the thread HashNameToFwThread selects for every name of the universe and every prefix of one
	hs := []string{}
	for _, n := range prefixClosure(names) {
		hs = append(hs, fmt.Sprintf("%s=%d", n, fw.HashNameToFwThread(parseName(n))))
	}
	wd.pf("hash %s\n", strings.Join(hs, " "))
	wd.pf("probe %s ; %s\n", strings.Join(names, " "), strings.Join(xs, " "))
	wd.probeN = names
	wd.probeX = nonces
}

func TestTrace(t *testing.T) {
	seed, _ := strconv.ParseInt(os.Getenv("VERIF_SEED"), 10, 64)
	n, _ := strconv.Atoi(os.Getenv("VERIF_N"))
	if n == 0 {
		n = 20
	}
	outp := os.Getenv("VERIF_OUT")
	if outp == "" {
		outp = "/dev/stdout"
	}
	fo, err := os.Create(outp)
	if err != nil {
		t.Fatal(err)
	}
	defer fo.Close()
	w := bufio.NewWriterSize(fo, 1<<20)
	defer w.Flush()
	if outp != "/dev/stdout" {
		opsLog, _ = os.Create(outp + ".ops")
		defer opsLog.Close()
	}
	configureOnce()
	probeTicker(t)
	r := rand.New(rand.NewSource(seed))
	universe := buildUniverse(r)
	pool := []uint32{0x01020304, 7, 0xdeadbeef, 0xffffffff, 0, 123456789, 42, 0x80000000}

	// replay mode
	if opsFile := os.Getenv("VERIF_OPS"); opsFile != "" {
		raw, err := os.ReadFile(opsFile)
		if err != nil {
			t.Fatal(err)
		}
		cases := [][]string{}
		for _, l := range strings.Split(string(raw), "\n") {
			l = strings.TrimSpace(l)
			if l == "" || strings.HasPrefix(l, "#") {
				continue
			}
			if strings.HasPrefix(l, "case") {
				cases = append(cases, []string{})
				continue
			}
			if len(cases) == 0 {
				cases = append(cases, []string{})
			}
			cases[len(cases)-1] = append(cases[len(cases)-1], l)
		}
		for k, ops := range cases {
			synctest.Test(t, func(t *testing.T) {
				nt, dl, fm, rl := 1, 0, 0, 0
				for len(ops) > 0 && (strings.HasPrefix(ops[0], "threads ") || strings.HasPrefix(ops[0], "dnl ") || strings.HasPrefix(ops[0], "fibm ") || strings.HasPrefix(ops[0], "runloop ")) {
					v, _ := strconv.Atoi(strings.Fields(ops[0])[1])
					switch {
					case strings.HasPrefix(ops[0], "threads "):
						nt = v
					case strings.HasPrefix(ops[0], "dnl "):
						dl = v
					case strings.HasPrefix(ops[0], "runloop "):
						rl = v
					default:
						fm = v
					}
					ops = ops[1:]
				}
				wd := newWorld(w, nt, dl, fm, rl)
				header(wd, k, universe, pool)
				for i := 0; i < len(ops); i++ {
					if strings.HasPrefix(ops[i], "mark tok ") {
						if i+1 < len(ops) {
							if f := strings.Fields(normalizeOp(ops[i+1])); f[0] == "data" && len(f) == 5 {
								f[4] = strings.Fields(ops[i])[2]
								wd.exec(strings.Join(f, " "))
								i++
							}
						}
						continue
					}
					if strings.HasPrefix(ops[i], "mark fragments ") {
						if i+1 < len(ops) && strings.HasPrefix(normalizeOp(ops[i+1]), "int ") {
							wd.exec("fragint " + strings.Fields(ops[i])[2] + " " + normalizeOp(ops[i+1]))
							i++
						}
						continue
					}
					if ops[i] == "mark frames" {
						if i+2 < len(ops) && strings.HasPrefix(normalizeOp(ops[i+1]), "int ") && strings.HasPrefix(normalizeOp(ops[i+2]), "int ") {
							wd.begin()
							logOp("mark frames\n%s\n%s\n", normalizeOp(ops[i+1]), normalizeOp(ops[i+2]))
							wd.doFrames(normalizeOp(ops[i+1]), normalizeOp(ops[i+2]))
							i += 2
						}
						continue
					}
					wd.exec(normalizeOp(ops[i]))
				}
				wd.pf("end\n")
				wd.close()
			})
		}
		return
	}

	for k := 0; k < n; k++ {
		synctest.Test(t, func(t *testing.T) {
			nt := 1
			if r.Intn(2) == 0 {
				nt = 2 + r.Intn(3)
			}
			dl := 6000
			if r.Intn(3) == 0 {
				dl = []int{300, 300, 1000}[r.Intn(3)]
			}
			fm := 0 // FIB implementation: the name tree, or (a third of the cases) the hash table with m = 1, 2, 3 or 5
			if r.Intn(3) == 0 {
				fm = []int{1, 2, 3, 5}[r.Intn(4)]
			}
			rl := 0 // production-loop mode: three in five of the single-thread cases
			if nt == 1 && r.Intn(5) < 3 {
				rl = 1
			}
			wd := newWorld(w, nt, dl, fm, rl)
			g := &gen{r: r, names: universe, wd: wd}
			// hot names: a small shared-prefix cluster so that PIT entries collide, aggregate and multi-match
			base := g.pick([]string{"/8.1", "/8.1/8.2", "/8.0/8.4", "/8.0", "/8.2", "/"})
			g.base = base
			for _, m := range universe {
				if base == "/" || m == base || strings.HasPrefix(m, base+"/") {
					g.hot = append(g.hot, m)
				}
			}
			if len(g.hot) > 5 {
				g.hot = g.hot[:5]
			}
			g.nonces = pool[:2+r.Intn(4)]
			header(wd, k, universe, pool)
			for _, op := range g.setup() {
				wd.exec(op)
			}
			steps := 20 + r.Intn(25)
			for i := 0; i < steps; i++ {
				wd.exec(g.next())
			}
			wd.pf("end\n")
			wd.close()
		})
	}
}

// normalizeOp turns a trace `ev` line back into an operation (drops the leading "ev" and recorded times).
func normalizeOp(l string) string {
	f := strings.Fields(l)
	if f[0] == "ev" {
		f = f[1:]
	}
	switch f[0] {
	case "int", "data":
		// recorded form has the time right after the kind: int <now> <face> ... ; operation form has <face> first.
		// distinguish by field count
		if (f[0] == "int" && len(f) == 12) || (f[0] == "data" && len(f) == 6) {
			f = append([]string{f[0]}, f[2:]...)
		}
	case "tick", "sweep":
		// recorded: tick <thread> <now>; operation: tick <thread>; old corpus: tick
		if len(f) >= 2 {
			f = f[:2]
		}
	}
	return strings.Join(f, " ")
}
