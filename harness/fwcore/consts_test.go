// Constants of the forwarding pipeline for coq/Fw/GenConsts.v, obtained from the compiler (package-level constants through the
// verif hook fw.VerifConsts, configuration defaults) and from behavioural probes of the real code (literals buried in function
// bodies): one line `const <name> <value>` each. Nothing is read from the source text, so renaming locals, regrouping
// declarations or replacing a literal by a named constant of the same value changes nothing here.
package fwcore

import (
	"bufio"
	"fmt"
	"os"
	"testing"
	"testing/synctest"
	"time"

	"github.com/named-data/ndnd/fw/core"
	"github.com/named-data/ndnd/fw/fw"
	"github.com/named-data/ndnd/fw/table"
	enc "github.com/named-data/ndnd/std/encoding"
	"github.com/named-data/ndnd/std/ndn"
	spec "github.com/named-data/ndnd/std/ndn/spec_2022"
	"github.com/named-data/ndnd/std/utils"
)

func TestConsts(t *testing.T) {
	outp := os.Getenv("VERIF_OUT")
	if outp == "" {
		outp = "/dev/stdout"
	}
	fo, err := os.Create(outp)
	if err != nil {
		t.Fatal(err)
	}
	defer fo.Close()
	w := bufio.NewWriter(fo)
	defer w.Flush()
	configureOnce()
	put := func(name string, v int64) { fmt.Fprintf(w, "const %s %d\n", name, v) }

	// package-level constants, through the hook
	for k, v := range fw.VerifConsts() {
		put(k, v)
	}
	// configuration defaults
	cfg := core.DefaultConfig()
	put("config_dnl_lifetime_ms", int64(cfg.Tables.DeadNonceList.Lifetime))
	put("config_fw_threads", int64(cfg.Fw.Threads))

	synctest.Test(t, func(t *testing.T) {
		// default Interest lifetime of in- and out-records: an Interest without InterestLifetime
		name, _ := enc.NameFromStr("/probe/lifetime")
		ei, err := spec.Spec{}.MakeInterest(name, &ndn.InterestConfig{Nonce: utils.IdPtr(uint64(7))}, nil, nil)
		if err != nil {
			t.Fatal(err)
		}
		p, _, err := spec.ReadPacket(enc.NewBufferReader(ei.Wire.Join()))
		if err != nil {
			t.Fatal(err)
		}
		pc := table.NewPitCS(func(table.PitEntry) {})
		e, _ := pc.InsertInterest(p.Interest, nil, 1)
		in, _, _ := e.InsertInRecord(p.Interest, 1, nil)
		put("default_lifetime_in", int64(in.ExpirationTime.Sub(in.LatestTimestamp)))
		out := e.InsertOutRecord(p.Interest, 2)
		put("default_lifetime_out", int64(out.ExpirationTime.Sub(out.LatestTimestamp)))
		core.ShouldQuit = true
		<-pc.UpdateTimer()
		pc.Update()
		core.ShouldQuit = false

		// dead nonce list: how many expired records one RemoveExpiredEntries call removes at most
		const n = 1000
		d := table.NewDeadNonceList()
		for i := 0; i < n; i++ {
			d.Insert(name, uint32(i))
		}
		time.Sleep(time.Duration(cfg.Tables.DeadNonceList.Lifetime)*time.Millisecond + time.Second)
		d.RemoveExpiredEntries()
		left, _ := d.VerifLen()
		d.Ticker.Stop()
		put("dnl_sweep_limit", int64(n-left))

		// length of the PIT token this forwarder attaches upstream: forward one Interest and look at the wire
		wd := newWorld(bufio.NewWriter(nopWriter{}), 1)
		wd.exec("face add 1 1 0")
		wd.exec("face add 2 0 0")
		wd.exec("fib ins / 2 0")
		wd.exec("int 1 /8.1 0 0 7 - - - - -")
		for _, s := range wd.log {
			if s.kind == "I" && s.tok != "-" {
				put("token_len", int64(len(s.tok)/2))
			}
		}
		wd.close()
	})
}

type nopWriter struct{}

func (nopWriter) Write(p []byte) (int, error) { return len(p), nil }
