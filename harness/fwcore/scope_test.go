// Face-scope classification (C09): obtains the scope the REAL transport constructors of fw/face assign, for remote addresses
// that are / are not loopback, and writes one line per face for runner/Fw/driver.ml:
//
//	scope <constructor id> <remote is loopback 0|1> <assigned: 1 local, 0 non-local, -1 unknown> <constructor> <remote>
//
// No classification is re-implemented here: the constructors are called (MakeUnicastTCPTransport does not dial; the accepted
// TCP, Unix and WebSocket transports get real in-process connections, over the loopback interface and over every non-loopback
// address this host owns; unicast UDP "connects" a datagram socket, which sends nothing). Whether a remote address is loopback
// is a fact of the table below, not computed by production code.
package fwcore

import (
	"bufio"
	"fmt"
	"net"
	"net/http"
	"net/http/httptest"
	"net/url"
	"os"
	"path/filepath"
	"strings"
	"testing"

	"github.com/gorilla/websocket"
	"github.com/named-data/ndnd/fw/defn"
	"github.com/named-data/ndnd/fw/face"
)

func scopeNum(s defn.Scope) int {
	switch s {
	case defn.Local:
		return 1
	case defn.NonLocal:
		return 0
	}
	return -1
}

// ownAddr is a non-loopback unicast address of this host; link-local IPv6 addresses carry the interface as zone
type ownAddr struct {
	ip   net.IP
	zone string
}

func (a ownAddr) host() string {
	if a.zone != "" {
		return a.ip.String() + "%" + a.zone
	}
	return a.ip.String()
}

func ownAddrs() []ownAddr {
	res := []ownAddr{}
	ifs, _ := net.Interfaces()
	for _, ifc := range ifs {
		addrs, _ := ifc.Addrs()
		for _, a := range addrs {
			if ipn, ok := a.(*net.IPNet); ok {
				ip := ipn.IP
				if ip.IsLoopback() || ip.IsMulticast() || ip.IsUnspecified() {
					continue
				}
				if ip.IsLinkLocalUnicast() {
					if ip.To4() == nil {
						res = append(res, ownAddr{ip, ifc.Name})
					}
					continue
				}
				res = append(res, ownAddr{ip, ""})
			}
		}
	}
	return res
}

func hostPort(host string, port int) string {
	return net.JoinHostPort(host, fmt.Sprint(port))
}

// fixedRemote is a connection that reports a chosen remote address (the transports only ask the connection for it)
type fixedRemote struct {
	net.Conn
	remote net.Addr
}

func (c fixedRemote) RemoteAddr() net.Addr { return c.remote }

func TestScope(t *testing.T) {
	outp := os.Getenv("VERIF_OUT")
	if outp == "" {
		outp = "/dev/stdout"
	}
	fo, err := os.Create(outp)
	if err != nil {
		t.Fatal(err)
	}
	defer fo.Close()
	w := bufio.NewWriter(fo)
	defer w.Flush()
	configureOnce()
	emit := func(ctor int, loop bool, sc defn.Scope, name, remote string) {
		fmt.Fprintf(w, "scope %d %s %d %s %s\n", ctor, b01(loop), scopeNum(sc), name, remote)
	}
	note := func(format string, a ...any) { fmt.Fprintf(w, "# "+format+"\n", a...) }

	type addr struct {
		ip   string
		loop bool
	}
	// systematic remote addresses: IPv4 loopback / private / documentation / public, IPv6 loopback / global / unique-local,
	// IPv4-mapped IPv6 (loopback and not), link-local IPv6 with a zone
	table := []addr{{"127.0.0.1", true}, {"127.8.9.10", true}, {"::1", true}, {"::ffff:127.0.0.1", true},
		{"192.0.2.7", false}, {"10.0.0.1", false}, {"192.168.1.1", false}, {"198.51.100.23", false}, {"8.8.8.8", false},
		{"2001:db8::1", false}, {"fd00::99", false}, {"::ffff:192.0.2.7", false}, {"fe80::1%eth0", false}, {"fe80::fc:ff:fe00:9%lo", false}}
	own := ownAddrs()

	// 0: MakeUnicastTCPTransport (outgoing TCP; the constructor does not dial)
	for _, a := range table {
		ver := "tcp4"
		host := a.ip
		if strings.Contains(a.ip, ":") {
			ver = "tcp6"
			host = "[" + a.ip + "]"
		}
		u := defn.DecodeURIString(fmt.Sprintf("%s://%s:6363", ver, host))
		if u == nil || !u.IsCanonical() {
			note("tcp URI for %s not canonical", a.ip)
			continue
		}
		tr, err := face.MakeUnicastTCPTransport(u, nil, face.PersistencyPersistent)
		if err != nil {
			note("MakeUnicastTCPTransport %s: %v", a.ip, err)
			continue
		}
		emit(0, a.loop, tr.Scope(), "MakeUnicastTCPTransport", u.String())
	}

	// 1: AcceptUnicastTCPTransport (real connections inside this process)
	accept := func(ip net.IP, zone string, loop bool) {
		host := ownAddr{ip, zone}.host()
		ln, err := net.Listen("tcp", hostPort(host, 0))
		if err != nil {
			note("listen tcp %s: %v", host, err)
			return
		}
		defer ln.Close()
		// the client binds to the same address so that the accepted connection's remote address is that address
		d := net.Dialer{LocalAddr: &net.TCPAddr{IP: ip, Zone: zone}}
		c, err := d.Dial("tcp", ln.Addr().String())
		if err != nil {
			note("dial tcp %s: %v", ip, err)
			return
		}
		defer c.Close()
		sc, err := ln.Accept()
		if err != nil {
			note("accept tcp %s: %v", ip, err)
			return
		}
		defer sc.Close()
		tr, err := face.AcceptUnicastTCPTransport(sc, nil, face.PersistencyOnDemand)
		if err != nil || tr == nil {
			note("AcceptUnicastTCPTransport %s: %v", ip, err)
			return
		}
		emit(1, loop, tr.Scope(), "AcceptUnicastTCPTransport", "tcp://"+sc.RemoteAddr().String())
	}
	accept(net.ParseIP("127.0.0.1"), "", true)
	accept(net.ParseIP("127.8.9.10"), "", true)
	accept(net.ParseIP("::1"), "", true)
	for _, a := range own {
		accept(a.ip, a.zone, false)
	}

	// 2: MakeUnicastUDPTransport (connects a datagram socket; nothing is sent)
	for _, a := range table {
		ver := "udp4"
		host := a.ip
		if strings.Contains(a.ip, ":") {
			ver = "udp6"
			host = "[" + a.ip + "]"
		}
		u := defn.DecodeURIString(fmt.Sprintf("%s://%s:6363", ver, host))
		if u == nil || !u.IsCanonical() {
			note("udp URI for %s not canonical", a.ip)
			continue
		}
		tr, err := face.MakeUnicastUDPTransport(u, nil, face.PersistencyPersistent)
		if err != nil {
			note("MakeUnicastUDPTransport %s: %v", a.ip, err)
			continue
		}
		emit(2, a.loop, tr.Scope(), "MakeUnicastUDPTransport", u.String())
		tr.Close()
	}

	// 3: MakeUnixStreamTransport
	func() {
		dir, err := os.MkdirTemp("", "verif-scope")
		if err != nil {
			note("tempdir: %v", err)
			return
		}
		defer os.RemoveAll(dir)
		path := filepath.Join(dir, "s.sock")
		ln, err := net.Listen("unix", path)
		if err != nil {
			note("listen unix: %v", err)
			return
		}
		defer ln.Close()
		c, err := net.Dial("unix", path)
		if err != nil {
			note("dial unix: %v", err)
			return
		}
		defer c.Close()
		sc, err := ln.Accept()
		if err != nil {
			note("accept unix: %v", err)
			return
		}
		defer sc.Close()
		remote := defn.MakeFDFaceURI(7)
		local := defn.MakeUnixFaceURI(path)
		tr, err := face.MakeUnixStreamTransport(remote, local, sc)
		if err != nil {
			note("MakeUnixStreamTransport: %v", err)
			return
		}
		emit(3, false, tr.Scope(), "MakeUnixStreamTransport", remote.String())
		emit(3, true, tr.Scope(), "MakeUnixStreamTransport", remote.String())
	}()

	// 4: NewWebSocketTransport: a real WebSocket handshake inside this process (over loopback); the connection handed to the
	// constructor reports the remote address under test (the constructor only asks the connection for its RemoteAddr)
	ws := func(remote *net.TCPAddr, loop bool) {
		up := websocket.Upgrader{CheckOrigin: func(*http.Request) bool { return true }}
		srv := httptest.NewServer(http.HandlerFunc(func(rw http.ResponseWriter, r *http.Request) {
			if c, err := up.Upgrade(rw, r, nil); err == nil {
				defer c.Close()
				c.ReadMessage()
			}
		}))
		defer srv.Close()
		raw, err := net.Dial("tcp", srv.Listener.Addr().String())
		if err != nil {
			note("dial ws: %v", err)
			return
		}
		defer raw.Close()
		u, _ := url.Parse("ws://" + srv.Listener.Addr().String() + "/")
		c, _, err := websocket.NewClient(fixedRemote{raw, remote}, u, nil, 1024, 1024)
		if err != nil {
			note("websocket handshake: %v", err)
			return
		}
		tr := face.NewWebSocketTransport(defn.MakeWebSocketServerFaceURI(u), c)
		emit(4, loop, tr.Scope(), "NewWebSocketTransport", "wsclient://"+remote.String())
	}
	for _, a := range table {
		ip, zone := a.ip, ""
		if i := strings.Index(ip, "%"); i >= 0 {
			ip, zone = ip[:i], ip[i+1:]
		}
		ws(&net.TCPAddr{IP: net.ParseIP(ip), Port: 40000, Zone: zone}, a.loop)
	}

	// 5: MakeInternalTransport, 7: MakeNullTransport (no remote address: both rows of the table)
	it := face.MakeInternalTransport()
	emit(5, true, it.Scope(), "MakeInternalTransport", "internal://")
	emit(5, false, it.Scope(), "MakeInternalTransport", "internal://")
	nt := face.MakeNullTransport()
	emit(7, true, nt.Scope(), "MakeNullTransport", "null://")
	emit(7, false, nt.Scope(), "MakeNullTransport", "null://")

	// 6: MakeMulticastUDPTransport on every own IPv4 address (joins the NDN multicast group; skipped if the host cannot)
	for _, a := range own {
		ip := a.ip
		if ip.To4() == nil {
			continue
		}
		lu := defn.DecodeURIString(fmt.Sprintf("udp4://%s:56363", ip))
		tr, err := face.MakeMulticastUDPTransport(lu)
		if err != nil || tr == nil {
			note("MakeMulticastUDPTransport %s: %v", ip, err)
			continue
		}
		emit(6, false, tr.Scope(), "MakeMulticastUDPTransport", tr.RemoteURI().String())
		tr.Close()
	}
}
