// Face-scope classification (C09): obtains the scope the REAL transport constructors of fw/face assign, for remote addresses
// that are / are not loopback, and writes one line per face for runner/Fw/driver.ml:
//
//	scope <constructor id> <remote is loopback 0|1> <assigned: 1 local, 0 non-local, -1 unknown> <constructor> <remote>
//
// No classification is re-implemented here: the constructors are called (MakeUnicastTCPTransport does not dial; the accepted
// TCP, Unix and WebSocket transports get real in-process connections, over the loopback interface and over every non-loopback
// address this host owns; unicast UDP "connects" a datagram socket, which sends nothing). Whether a remote address is loopback
// is a fact of the table below, not computed by production code.
package fwcore

import (
	"bufio"
	"fmt"
	"net"
	"net/http"
	"net/http/httptest"
	"net/url"
	"os"
	"path/filepath"
	"strings"
	"testing"

	"github.com/gorilla/websocket"
	"github.com/named-data/ndnd/fw/defn"
	"github.com/named-data/ndnd/fw/face"
)

func scopeNum(s defn.Scope) int {
	switch s {
	case defn.Local:
		return 1
	case defn.NonLocal:
		return 0
	}
	return -1
}

// non-loopback unicast addresses of this host (global IPv4/IPv6; link-local ones need a zone and are skipped)
func ownAddrs() []net.IP {
	res := []net.IP{}
	addrs, _ := net.InterfaceAddrs()
	for _, a := range addrs {
		if ipn, ok := a.(*net.IPNet); ok {
			ip := ipn.IP
			if ip.IsLoopback() || ip.IsLinkLocalUnicast() || ip.IsMulticast() || ip.IsUnspecified() {
				continue
			}
			res = append(res, ip)
		}
	}
	return res
}

func hostPort(ip net.IP, port int) string {
	return net.JoinHostPort(ip.String(), fmt.Sprint(port))
}

func TestScope(t *testing.T) {
	outp := os.Getenv("VERIF_OUT")
	if outp == "" {
		outp = "/dev/stdout"
	}
	fo, err := os.Create(outp)
	if err != nil {
		t.Fatal(err)
	}
	defer fo.Close()
	w := bufio.NewWriter(fo)
	defer w.Flush()
	configureOnce()
	emit := func(ctor int, loop bool, sc defn.Scope, name, remote string) {
		fmt.Fprintf(w, "scope %d %s %d %s %s\n", ctor, b01(loop), scopeNum(sc), name, remote)
	}
	note := func(format string, a ...any) { fmt.Fprintf(w, "# "+format+"\n", a...) }

	type addr struct {
		ip   string
		loop bool
	}
	table := []addr{{"127.0.0.1", true}, {"127.8.9.10", true}, {"::1", true},
		{"192.0.2.7", false}, {"10.0.0.1", false}, {"198.51.100.23", false}, {"2001:db8::1", false}, {"fd00::99", false}, {"8.8.8.8", false}}
	own := ownAddrs()

	// 0: MakeUnicastTCPTransport (outgoing TCP; the constructor does not dial)
	for _, a := range table {
		ver := "tcp4"
		host := a.ip
		if strings.Contains(a.ip, ":") {
			ver = "tcp6"
			host = "[" + a.ip + "]"
		}
		u := defn.DecodeURIString(fmt.Sprintf("%s://%s:6363", ver, host))
		if u == nil || !u.IsCanonical() {
			note("tcp URI for %s not canonical", a.ip)
			continue
		}
		tr, err := face.MakeUnicastTCPTransport(u, nil, face.PersistencyPersistent)
		if err != nil {
			note("MakeUnicastTCPTransport %s: %v", a.ip, err)
			continue
		}
		emit(0, a.loop, tr.Scope(), "MakeUnicastTCPTransport", u.String())
	}

	// 1: AcceptUnicastTCPTransport (real connections inside this process)
	accept := func(ip net.IP, loop bool) {
		ln, err := net.Listen("tcp", hostPort(ip, 0))
		if err != nil {
			note("listen tcp %s: %v", ip, err)
			return
		}
		defer ln.Close()
		// the client binds to the same address so that the accepted connection's remote address is that address
		d := net.Dialer{LocalAddr: &net.TCPAddr{IP: ip}}
		c, err := d.Dial("tcp", ln.Addr().String())
		if err != nil {
			note("dial tcp %s: %v", ip, err)
			return
		}
		defer c.Close()
		sc, err := ln.Accept()
		if err != nil {
			note("accept tcp %s: %v", ip, err)
			return
		}
		defer sc.Close()
		tr, err := face.AcceptUnicastTCPTransport(sc, nil, face.PersistencyOnDemand)
		if err != nil || tr == nil {
			note("AcceptUnicastTCPTransport %s: %v", ip, err)
			return
		}
		emit(1, loop, tr.Scope(), "AcceptUnicastTCPTransport", "tcp://"+sc.RemoteAddr().String())
	}
	accept(net.ParseIP("127.0.0.1"), true)
	accept(net.ParseIP("127.8.9.10"), true)
	accept(net.ParseIP("::1"), true)
	for _, ip := range own {
		accept(ip, false)
	}

	// 2: MakeUnicastUDPTransport (connects a datagram socket; nothing is sent)
	for _, a := range table {
		ver := "udp4"
		host := a.ip
		if strings.Contains(a.ip, ":") {
			ver = "udp6"
			host = "[" + a.ip + "]"
		}
		u := defn.DecodeURIString(fmt.Sprintf("%s://%s:6363", ver, host))
		if u == nil || !u.IsCanonical() {
			note("udp URI for %s not canonical", a.ip)
			continue
		}
		tr, err := face.MakeUnicastUDPTransport(u, nil, face.PersistencyPersistent)
		if err != nil {
			note("MakeUnicastUDPTransport %s: %v", a.ip, err)
			continue
		}
		emit(2, a.loop, tr.Scope(), "MakeUnicastUDPTransport", u.String())
		tr.Close()
	}

	// 3: MakeUnixStreamTransport
	func() {
		dir, err := os.MkdirTemp("", "verif-scope")
		if err != nil {
			note("tempdir: %v", err)
			return
		}
		defer os.RemoveAll(dir)
		path := filepath.Join(dir, "s.sock")
		ln, err := net.Listen("unix", path)
		if err != nil {
			note("listen unix: %v", err)
			return
		}
		defer ln.Close()
		c, err := net.Dial("unix", path)
		if err != nil {
			note("dial unix: %v", err)
			return
		}
		defer c.Close()
		sc, err := ln.Accept()
		if err != nil {
			note("accept unix: %v", err)
			return
		}
		defer sc.Close()
		remote := defn.MakeFDFaceURI(7)
		local := defn.MakeUnixFaceURI(path)
		tr, err := face.MakeUnixStreamTransport(remote, local, sc)
		if err != nil {
			note("MakeUnixStreamTransport: %v", err)
			return
		}
		emit(3, false, tr.Scope(), "MakeUnixStreamTransport", remote.String())
		emit(3, true, tr.Scope(), "MakeUnixStreamTransport", remote.String())
	}()

	// 4: NewWebSocketTransport (real WebSocket handshakes inside this process)
	ws := func(ip net.IP, loop bool) {
		var tr *face.WebSocketTransport
		done := make(chan struct{})
		up := websocket.Upgrader{CheckOrigin: func(*http.Request) bool { return true }}
		srv := httptest.NewUnstartedServer(http.HandlerFunc(func(rw http.ResponseWriter, r *http.Request) {
			defer close(done)
			c, err := up.Upgrade(rw, r, nil)
			if err != nil {
				return
			}
			lu, _ := url.Parse("ws://" + r.Host)
			tr = face.NewWebSocketTransport(defn.MakeWebSocketServerFaceURI(lu), c)
		}))
		ln, err := net.Listen("tcp", hostPort(ip, 0))
		if err != nil {
			note("listen ws %s: %v", ip, err)
			return
		}
		srv.Listener.Close()
		srv.Listener = ln
		srv.Start()
		defer srv.Close()
		d := websocket.Dialer{NetDial: func(network, addr string) (net.Conn, error) {
			return (&net.Dialer{LocalAddr: &net.TCPAddr{IP: ip}}).Dial(network, addr)
		}}
		c, _, err := d.Dial("ws://"+ln.Addr().String()+"/", nil)
		if err != nil {
			note("dial ws %s: %v", ip, err)
			return
		}
		defer c.Close()
		<-done
		if tr == nil {
			note("NewWebSocketTransport %s: upgrade failed", ip)
			return
		}
		emit(4, loop, tr.Scope(), "NewWebSocketTransport", "wsclient://"+ip.String())
	}
	ws(net.ParseIP("127.0.0.1"), true)
	ws(net.ParseIP("::1"), true)
	for _, ip := range own {
		ws(ip, false)
	}

	// 5: MakeInternalTransport, 7: MakeNullTransport (no remote address: both rows of the table)
	it := face.MakeInternalTransport()
	emit(5, true, it.Scope(), "MakeInternalTransport", "internal://")
	emit(5, false, it.Scope(), "MakeInternalTransport", "internal://")
	nt := face.MakeNullTransport()
	emit(7, true, nt.Scope(), "MakeNullTransport", "null://")
	emit(7, false, nt.Scope(), "MakeNullTransport", "null://")

	// 6: MakeMulticastUDPTransport on every own IPv4 address (joins the NDN multicast group; skipped if the host cannot)
	for _, ip := range own {
		if ip.To4() == nil {
			continue
		}
		lu := defn.DecodeURIString(fmt.Sprintf("udp4://%s:56363", ip))
		tr, err := face.MakeMulticastUDPTransport(lu)
		if err != nil || tr == nil {
			note("MakeMulticastUDPTransport %s: %v", ip, err)
			continue
		}
		emit(6, false, tr.Scope(), "MakeMulticastUDPTransport", tr.RemoteURI().String())
		tr.Close()
	}
}
