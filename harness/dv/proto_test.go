// Harness for C18, protocol level: a network of real dv.Router objects running their real Start() loops
// (heartbeat and dead-check tickers, Sync Interests, advertisement fetches, ribUpdate in goroutines) over a
// simulated ndn.Engine per router that delivers Interests to physically adjacent routers, inside a
// testing/synctest bubble (virtual clock).  Nothing is scheduled by the harness: it only changes the physical
// topology (links and routers go away and come back), waits (virtual time), and dumps every router's tables.
// The runner evaluates the extracted spec oracle on these dumps against the physical topology.
//
// Trace:  case <k> proto ...   node n<idx> <hash> <name>
//         phys <i> nb=<j,j|->              physical up-neighbours of every live router at check time
//         obs ... (as in dv_test.go, dirty flag x)
//         chkphys <virtual seconds waited>
package dv

import (
	"bufio"
	"errors"
	"fmt"
	"math/rand"
	"os"
	"sort"
	"strconv"
	"sync"
	"testing"
	"testing/synctest"
	"time"

	"github.com/named-data/ndnd/dv/config"
	dvp "github.com/named-data/ndnd/dv/dv"
	enc "github.com/named-data/ndnd/std/encoding"
	"github.com/named-data/ndnd/std/engine/basic"
	"github.com/named-data/ndnd/std/log"
	"github.com/named-data/ndnd/std/ndn"
	spec "github.com/named-data/ndnd/std/ndn/spec_2022"
)

type simNet struct {
	mu    sync.Mutex
	r     *rand.Rand
	eng   []*simEngine
	link  map[[2]int]bool // undirected, key (min,max)
	names []enc.Name
	stats map[string]int
	// event budget of one case: about ten times what a correct run needs; when it is exhausted the network goes
	// silent (so the case ends) and the case is reported as not coming to rest
	events  int
	overrun bool
	// cold routes: the first advertisement fetch of every (requester incarnation, neighbour) pair is answered with a
	// NACK — the route /localhop/<neighbour>/32=DV is registered asynchronously while the fetch fires 10 ms after
	// the first Sync Interest; the requester must retry after its back-off
	cold   bool
	nacked map[*simEngine]map[int]bool
	// delivery latency of Sync Interests varies within [1 ms, jitter]; heartbeat period + jitter < dead interval
	jitter time.Duration
	// times at which each router expressed Sync Interests while the harness is observing heartbeats
	watchHB bool
	hbTimes map[int][]time.Time
	// armed outage: when router from next expresses an advertisement fetch towards to, the link is cut at that moment
	// (the Data of that fetch is lost) and comes back at the given later time
	armed *outage
	// clean: no loss, no held-back Data (scripted histories: the scripted fault is the only disturbance)
	clean bool
}

type outage struct {
	from, to int
	fired    bool
	at       time.Time
	fetches  []time.Time // when the requester expressed (re-)fetches towards the other end during the outage
}

const protoEventBudget = 120000

// cases of this run that exhausted the budget; after a few the run stops (the failure is established)
var protoOverruns int

type simHandler struct {
	prefix enc.Name
	h      ndn.InterestHandler
}

type simEngine struct {
	net      *simNet
	idx      int
	timer    ndn.Timer
	mu       sync.Mutex
	handlers []simHandler
	running  bool
	syncPfx  enc.Name
}

func lkey(a, b int) [2]int {
	if a > b {
		a, b = b, a
	}
	return [2]int{a, b}
}

func (n *simNet) linked(a, b int) bool {
	n.mu.Lock()
	defer n.mu.Unlock()
	return n.link[lkey(a, b)] && n.eng[a] != nil && n.eng[b] != nil && n.eng[a].isRunning() && n.eng[b].isRunning()
}

func (n *simNet) count(k string) {
	n.mu.Lock()
	n.stats[k]++
	n.mu.Unlock()
}

// advertisement fetches (Interest or Data) are lost with probability 10%: the requester times out and retries
func (n *simNet) lost() bool {
	n.mu.Lock()
	defer n.mu.Unlock()
	if n.clean {
		return false
	}
	return n.r.Intn(100) < 10
}

// advertisement Data is sometimes held back for up to 3.9 s (within the 4 s Interest lifetime): meanwhile the sender
// may announce a newer sequence number and that fetch may complete first — the late Data is then out of date
func (n *simNet) dataDelay() time.Duration {
	n.mu.Lock()
	defer n.mu.Unlock()
	if !n.clean && n.r.Intn(100) < 20 {
		n.stats["data-held-back"]++
		return time.Duration(300+n.r.Intn(3600)) * time.Millisecond
	}
	return time.Duration(1+n.r.Intn(15)) * time.Millisecond
}

func (n *simNet) syncDelay() time.Duration {
	n.mu.Lock()
	defer n.mu.Unlock()
	j := int64(n.jitter / time.Millisecond)
	if j < 2 {
		j = 15
	}
	return time.Duration(1+n.r.Int63n(j)) * time.Millisecond
}

func (n *simNet) delay() time.Duration {
	n.mu.Lock()
	defer n.mu.Unlock()
	return time.Duration(1+n.r.Intn(15)) * time.Millisecond
}

func (e *simEngine) isRunning() bool {
	e.mu.Lock()
	defer e.mu.Unlock()
	return e.running
}

func (e *simEngine) EngineTrait() ndn.Engine { return e }
func (e *simEngine) Spec() ndn.Spec          { return spec.Spec{} }
func (e *simEngine) Timer() ndn.Timer        { return e.timer }
func (e *simEngine) Start() error            { return nil }
func (e *simEngine) Stop() error             { return nil }
func (e *simEngine) IsRunning() bool         { return e.isRunning() }
func (e *simEngine) AttachHandler(prefix enc.Name, h ndn.InterestHandler) error {
	e.mu.Lock()
	defer e.mu.Unlock()
	e.handlers = append(e.handlers, simHandler{prefix.Clone(), h})
	return nil
}
func (e *simEngine) DetachHandler(prefix enc.Name) error {
	e.mu.Lock()
	defer e.mu.Unlock()
	for k, h := range e.handlers {
		if h.prefix.Equal(prefix) {
			e.handlers = append(e.handlers[:k], e.handlers[k+1:]...)
			return nil
		}
	}
	return nil
}
func (e *simEngine) RegisterRoute(enc.Name) error          { return nil }
func (e *simEngine) UnregisterRoute(enc.Name) error        { return nil }
func (e *simEngine) ExecMgmtCmd(string, string, any) error { return nil }

// longest-prefix handler
func (e *simEngine) handlerFor(name enc.Name) ndn.InterestHandler {
	e.mu.Lock()
	defer e.mu.Unlock()
	var best ndn.InterestHandler
	bl := -1
	for _, h := range e.handlers {
		if h.prefix.IsPrefix(name) && len(h.prefix) > bl {
			best, bl = h.h, len(h.prefix)
		}
	}
	return best
}

// deliver an Interest of router `from` to router `to` (adjacent); reply goes back through cb
func (n *simNet) deliver(src *simEngine, to int, interest *ndn.EncodedInterest, cb ndn.ExpressCallbackFunc) {
	from := src.idx
	// the requester must still be the same process (not a later incarnation with the same name)
	same := func() bool {
		n.mu.Lock()
		defer n.mu.Unlock()
		return n.eng[from] == src
	}
	if cb == nil {
		time.Sleep(n.syncDelay()) // Sync Interests: the jittery ones
	} else {
		time.Sleep(n.delay())
	}
	if !n.linked(from, to) || !same() {
		return
	}
	n.mu.Lock()
	dst := n.eng[to]
	n.mu.Unlock()
	if dst == nil {
		return
	}
	pi, sigCov, err := spec.Spec{}.ReadInterest(enc.NewWireReader(interest.Wire))
	if err != nil {
		n.count("unparsable-interest")
		return
	}
	h := dst.handlerFor(pi.Name())
	if h == nil {
		return
	}
	fid := uint64(100 + from)
	replied := false
	h(ndn.InterestHandlerArgs{
		Interest:       pi,
		RawInterest:    interest.Wire,
		SigCovered:     sigCov,
		Deadline:       time.Now().Add(4 * time.Second),
		IncomingFaceId: &fid,
		Reply: func(w enc.Wire) error {
			if replied || cb == nil {
				return nil
			}
			replied = true
			go func() {
				time.Sleep(n.dataDelay())
				if !n.linked(from, to) || !same() || n.lost() {
					n.count("data-lost")
					return // lost; the requester's timeout fires
				}
				data, sc, err := spec.Spec{}.ReadData(enc.NewWireReader(w))
				if err != nil {
					n.count("unparsable-data")
					return
				}
				n.count("data-delivered")
				cb(ndn.ExpressCallbackArgs{Result: ndn.InterestResultData, Data: data, RawData: w, SigCovered: sc})
			}()
			return nil
		},
	})
}

func (e *simEngine) Express(interest *ndn.EncodedInterest, cb ndn.ExpressCallbackFunc) error {
	if !e.isRunning() {
		return errors.New("engine stopped")
	}
	n := e.net
	n.mu.Lock()
	n.events++
	if n.events > protoEventBudget {
		n.overrun = true
	}
	over := n.overrun
	n.mu.Unlock()
	if over {
		return errors.New("simulated network: event budget exhausted")
	}
	name := interest.FinalName
	switch {
	case e.syncPfx.IsPrefix(name):
		// advertisement Sync Interest (active and passive): multicast to every adjacent router
		n.count("sync-interest")
		n.mu.Lock()
		if n.watchHB {
			n.hbTimes[e.idx] = append(n.hbTimes[e.idx], time.Now())
		}
		n.mu.Unlock()
		for j := range n.eng {
			if j != e.idx && n.linked(e.idx, j) {
				go n.deliver(e, j, interest, nil)
			}
		}
	case len(name) > 4 && name[0].Equal(config.Localhop[0]) && name[len(name)-2].String() == "32=ADV":
		// advertisement fetch: /localhop/<router>/32=DV/32=ADV/seq
		n.count("advert-fetch")
		target := name[1 : len(name)-3]
		to := -1
		for j, nm := range n.names {
			if nm.Equal(target) {
				to = j
			}
		}
		done := false
		var mu sync.Mutex
		once := func(a ndn.ExpressCallbackArgs) {
			mu.Lock()
			d := done
			done = true
			mu.Unlock()
			if !d && cb != nil {
				cb(a)
			}
		}
		n.mu.Lock()
		if o := n.armed; o != nil && o.from == e.idx && o.to == to {
			if !o.fired && n.link[lkey(o.from, o.to)] {
				// the outage begins exactly now: this fetch and everything after it on the link is lost
				o.fired = true
				o.at = time.Now()
				delete(n.link, lkey(o.from, o.to))
				n.stats["outage"]++
			}
			if o.fired {
				o.fetches = append(o.fetches, time.Now())
			}
		}
		nackIt := false
		if n.cold && to >= 0 {
			if n.nacked[e] == nil {
				n.nacked[e] = map[int]bool{}
			}
			if !n.nacked[e][to] {
				n.nacked[e][to] = true
				nackIt = true
				n.stats["fetch-nacked"]++
			}
		}
		n.mu.Unlock()
		if nackIt {
			go func() {
				time.Sleep(n.delay())
				if e.isRunning() {
					once(ndn.ExpressCallbackArgs{Result: ndn.InterestResultNack, NackReason: 150})
				}
			}()
		} else if to >= 0 && n.linked(e.idx, to) && !n.lost() {
			go n.deliver(e, to, interest, once)
		} else {
			n.count("fetch-lost")
		}
		time.AfterFunc(4*time.Second, func() {
			if e.isRunning() {
				once(ndn.ExpressCallbackArgs{Result: ndn.InterestResultTimeout})
			}
		})
	default:
		// prefix-table sync and data: not part of C18
	}
	return nil
}

type protoWorld struct {
	world
	net  *simNet
	done []chan struct{}
	cfgS uint64
	cfgD uint64
	started []time.Time // when Start() of the current incarnation was called (phase of its tickers)
}

func (p *protoWorld) startRouter(i int) {
	cfg := config.DefaultConfig()
	cfg.Network = "/net"
	cfg.Router = p.names[i].String()
	cfg.AdvertisementSyncInterval_ms = p.cfgS
	cfg.RouterDeadInterval_ms = p.cfgD
	eng := &simEngine{net: p.net, idx: i, timer: basic.NewTimer(), running: true}
	r, err := dvp.NewRouter(cfg, eng)
	if err != nil {
		panic(err)
	}
	// the Sync prefix is the same for all routers of the network
	syncPfx, _ := enc.NameFromStr("/localhop/net/32=DV/32=ADS")
	eng.syncPfx = syncPfx
	p.net.mu.Lock()
	p.net.eng[i] = eng
	p.net.mu.Unlock()
	p.rt[i] = r
	ch := make(chan struct{})
	p.done[i] = ch
	p.started[i] = time.Now()
	go func() {
		r.Start()
		close(ch)
	}()
}

func (p *protoWorld) stopRouter(i int) {
	if p.rt[i] == nil {
		return
	}
	eng := p.net.eng[i]
	// the process goes away: nothing is delivered to it any more; let what is already running finish first
	eng.mu.Lock()
	eng.running = false
	eng.mu.Unlock()
	synctest.Wait()
	p.rt[i].Stop()
	<-p.done[i]
	p.net.mu.Lock()
	p.net.eng[i] = nil
	p.net.mu.Unlock()
	p.rt[i] = nil
}

func (p *protoWorld) check(waited time.Duration) {
	synctest.Wait()
	p.net.mu.Lock()
	over := p.net.overrun
	p.net.mu.Unlock()
	if over {
		fmt.Fprintf(p.w, "overrun %d\n", protoEventBudget)
		protoOverruns++
		return
	}
	for i := 0; i < p.n; i++ {
		if p.rt[i] == nil {
			continue
		}
		nb := []string{}
		for j := 0; j < p.n; j++ {
			if j != i && p.net.linked(i, j) {
				nb = append(nb, "n"+strconv.Itoa(j))
			}
		}
		// sorted by hash like every other list in the trace
		sort.Slice(nb, func(a, b int) bool {
			ia, _ := strconv.Atoi(nb[a][1:])
			ib, _ := strconv.Atoi(nb[b][1:])
			return p.hash[ia] < p.hash[ib]
		})
		fmt.Fprintf(p.w, "phys n%d nb=%s\n", i, dashed(nb, ","))
	}
	for i := 0; i < p.n; i++ {
		p.obs(i, "x")
	}
	fmt.Fprintf(p.w, "chkphys %d\n", int(waited.Seconds()))
}

// A long quiet run: nothing changes physically and every heartbeat is delivered (latency varying within the jitter
// bound) for more than five dead intervals.  Nothing may be withdrawn or changed: every router's sequence number and
// neighbour table must be what they were.  Also observes the heartbeat period (largest gap between Sync Interests).
func (p *protoWorld) quietRun() {
	if p.net.overrun {
		return
	}
	type snap struct {
		seq uint64
		nb  string
	}
	before := map[int]snap{}
	nbOf := func(i int) string {
		hs := []uint64{}
		for _, nm := range p.rt[i].Vf18Neighbors().Vf18Names() {
			hs = append(hs, nm.Hash())
		}
		sort.Slice(hs, func(a, b int) bool { return hs[a] < hs[b] })
		ss := make([]string, len(hs))
		for k, h := range hs {
			ss[k] = p.id(h)
		}
		return dashed(ss, ",")
	}
	synctest.Wait()
	for i := 0; i < p.n; i++ {
		if p.rt[i] != nil {
			before[i] = snap{p.rt[i].Vf18AdvertSeq(), nbOf(i)}
		}
	}
	p.net.mu.Lock()
	p.net.watchHB = true
	p.net.hbTimes = map[int][]time.Time{}
	p.net.mu.Unlock()
	length := time.Duration(5*p.cfgD+2*p.cfgS) * time.Millisecond
	time.Sleep(length)
	synctest.Wait()
	p.net.mu.Lock()
	p.net.watchHB = false
	hb := p.net.hbTimes
	p.net.mu.Unlock()
	for i := 0; i < p.n; i++ {
		if p.rt[i] == nil {
			continue
		}
		b := before[i]
		fmt.Fprintf(p.w, "quiet n%d %d %d %s %s %d\n", i, b.seq, p.rt[i].Vf18AdvertSeq(), b.nb, nbOf(i), int(length.Seconds()))
		// heartbeat period: the largest gap between consecutive Sync Interests of this router
		ts := hb[i]
		var maxGap time.Duration
		for k := 1; k < len(ts); k++ {
			if g := ts[k].Sub(ts[k-1]); g > maxGap {
				maxGap = g
			}
		}
		if len(ts) >= 2 {
			fmt.Fprintf(p.w, "hb n%d %d %d %d %d\n", i, maxGap.Milliseconds(), p.cfgS, p.cfgD, p.net.jitter.Milliseconds())
		} else {
			fmt.Fprintf(p.w, "hb n%d %d %d %d %d\n", i, length.Milliseconds(), p.cfgS, p.cfgD, p.net.jitter.Milliseconds())
		}
	}
}

// An outage of exactly the awkward length and phase: router i has just heard a NEW sequence number of its neighbour j and
// expresses the fetch — at that moment the link goes away (the fetch is lost, retries time out).  The link stays away for
// longer than the dead interval, and comes back BEFORE i's next dead sweep; j's sequence number has not changed, so its
// Sync Interests are "nothing changed" for i: only the retry chain of the lost fetch can bring j's advertisement.
// Everything is derived from virtual time observed inside the bubble: the phase of i's sweep ticker (started at Start()),
// the moment the fetch was expressed, and the period of its retries.
// x >= 0: the change of j is "its neighbour x is gone for good" (one single change of j's table); x < 0: some change.
func (p *protoWorld) awkwardOutage(r *rand.Rand, i, j, x int) bool {
	D := time.Duration(p.cfgD) * time.Millisecond
	if D < 20*time.Second {
		return false // needs several fetch-retry periods (4.1 s) between the dead-interval expiry and the sweep
	}
	if p.rt[i] == nil || p.rt[j] == nil || !p.net.linked(i, j) {
		return false
	}
	// phase of i's sweep ticker: sweeps at started[i] + k*D.  Start the outage at offset u in (2 s, D/2): the sweep inside
	// the outage sees a silence < D, the next one comes D - u after the dead-interval expiry.
	u := 2*time.Second + time.Duration(r.Int63n(int64(D/2-2*time.Second)))
	since := time.Since(p.started[i]) % D
	wait := u - since
	if wait < 0 {
		wait += D
	}
	time.Sleep(wait)
	if p.rt[i] == nil || p.rt[j] == nil || !p.net.linked(i, j) {
		return false
	}
	o := &outage{from: i, to: j}
	p.net.mu.Lock()
	p.net.armed = o
	p.net.mu.Unlock()
	// j's table changes now: new sequence number, announced to i, which fetches — and the link is cut at that moment
	if x >= 0 {
		p.net.mu.Lock()
		delete(p.net.link, lkey(j, x)) // x is gone for good: exactly one change of j's table
		p.net.mu.Unlock()
		if p.rt[j].Vf18ExpireNeighbor(p.names[x]) {
			p.rt[j].Vf18CheckDead()
		}
	} else {
		changed := false
		for y := 0; y < p.n && !changed; y++ {
			if y == i || y == j || p.rt[y] == nil {
				continue
			}
			p.net.mu.Lock()
			if p.net.link[lkey(j, y)] {
				delete(p.net.link, lkey(j, y))
				p.net.mu.Unlock()
				if p.rt[j].Vf18ExpireNeighbor(p.names[y]) {
					p.rt[j].Vf18CheckDead()
					changed = true
				}
			} else {
				p.net.link[lkey(j, y)] = true
				p.net.mu.Unlock()
				changed = true
			}
		}
	}
	time.Sleep(2 * time.Second)
	p.net.mu.Lock()
	fired, t0 := o.fired, o.at
	p.net.mu.Unlock()
	if !fired {
		p.net.mu.Lock()
		p.net.armed = nil // j's change did not make i fetch: nothing happened
		p.net.mu.Unlock()
		return false
	}
	// wait until the dead interval has expired for j at i (its last Sync Interest arrived just before t0)
	time.Sleep(time.Until(t0.Add(D + 200*time.Millisecond)))
	// the retry period of the lost fetch, as observed; the first retry check after the expiry is due one period after the
	// last observed attempt (a correct router expresses it; one that gives up expresses nothing more)
	p.net.mu.Lock()
	ts := append([]time.Time{}, o.fetches...)
	p.net.mu.Unlock()
	period := 4110 * time.Millisecond
	if len(ts) >= 3 {
		period = ts[len(ts)-1].Sub(ts[len(ts)-2])
	}
	last := t0
	if len(ts) > 0 {
		last = ts[len(ts)-1]
	}
	due := last.Add(period)
	for due.Before(time.Now()) {
		due = due.Add(period)
	}
	back := due.Add(1500 * time.Millisecond)
	// i's next sweep
	k := time.Since(p.started[i])/D + 1
	nextSweep := p.started[i].Add(time.Duration(k) * D)
	if !back.Before(nextSweep.Add(-500 * time.Millisecond)) {
		back = nextSweep.Add(-500 * time.Millisecond)
	}
	time.Sleep(time.Until(back))
	p.net.mu.Lock()
	p.net.link[lkey(i, j)] = true
	p.net.armed = nil
	p.net.stats["outage-ended-before-sweep"]++
	p.net.mu.Unlock()
	return true
}

func runProtoCase(t *testing.T, out *bufio.Writer, r *rand.Rand, k int, n int, edges [][2]int, phases int, script string) (string, map[string]int) {
	fail := ""
	var stats map[string]int
	synctest.Test(t, func(t *testing.T) {
		p := &protoWorld{}
		p.t, p.w, p.r, p.n = t, out, r, n
		p.byHash = map[uint64]int{}
		nested := k%3 == 1 && script == "" // hierarchical router names: one name a proper prefix of another
		for len(p.names) < n {
			str := fmt.Sprintf("/net/r%d", r.Intn(1000000))
			if nested && len(p.names) > 0 && r.Intn(4) != 0 {
				str = p.names[r.Intn(len(p.names))].String() + fmt.Sprintf("/c%d", r.Intn(1000))
			}
			nm, _ := enc.NameFromStr(str)
			if _, dup := p.byHash[nm.Hash()]; dup || nm.Hash() < 1000 {
				continue
			}
			p.byHash[nm.Hash()] = len(p.names)
			p.names = append(p.names, nm)
			p.hash = append(p.hash, nm.Hash())
		}
		if r.Intn(2) == 0 {
			p.cfgS, p.cfgD = 5000, 30000 // defaults
		} else {
			p.cfgS, p.cfgD = 1000, 2000 + uint64(r.Intn(3))*1000
		}
		switch script {
		case "outage30":
			p.cfgS, p.cfgD = 5000, 30000
		case "outage45":
			p.cfgS, p.cfgD = 10000, 45000
		}
		p.net = &simNet{r: rand.New(rand.NewSource(r.Int63())), eng: make([]*simEngine, n), link: map[[2]int]bool{},
			names: p.names, stats: map[string]int{}, cold: k%5 < 2 && script == "", nacked: map[*simEngine]map[int]bool{},
			clean: script != ""}
		if k%2 == 0 && script == "" { // wide latency variation of Sync Interests, still below (dead - sync)
			j := (p.cfgD - p.cfgS) / 2
			if j > 500 {
				j = 500
			}
			p.net.jitter = time.Duration(j) * time.Millisecond
		} else {
			p.net.jitter = 15 * time.Millisecond
		}
		p.net.hbTimes = map[int][]time.Time{}
		p.rt = make([]*dvp.Router, n)
		p.done = make([]chan struct{}, n)
		p.started = make([]time.Time, n)
		p.nbr = make([]map[int]bool, n)
		p.seq = make([]uint64, n)
		fmt.Fprintf(out, "case %d proto n=%d edges=%d sync=%d dead=%d\n", k, n, len(edges), p.cfgS, p.cfgD)
		for i := range p.hash {
			fmt.Fprintf(out, "node n%d %s %s\n", i, u(p.hash[i]), p.names[i].String())
		}
		for _, e := range edges {
			p.net.link[lkey(e[0], e[1])] = true
		}
		for _, i := range r.Perm(n) {
			p.startRouter(i)
			time.Sleep(time.Duration(r.Intn(3000)) * time.Millisecond)
		}
		// dead detection (<= 2 dead intervals), then up to 16 counting steps per router chain, each of which may
		// lose its fetch and wait for the 4 s Interest timeout
		settle := time.Duration(2*p.cfgD+3*p.cfgS)*time.Millisecond + 320*time.Second
		time.Sleep(settle)
		p.check(settle)
		p.quietRun()
		if script != "" {
			// scripted history on the line 0 - 1 - 2: router 1 loses router 0 for good (its single table change), router 2
			// hears the new sequence number, and the link 1 - 2 is away from that fetch until after the dead interval
			if !p.awkwardOutage(r, 2, 1, 0) {
				p.fail = "scripted outage did not take place"
			}
			time.Sleep(settle)
			p.check(settle)
			phases = 0
		}
		for ph := 0; ph < phases; ph++ {
			nf := 1 + r.Intn(3)
			for q := 0; q < nf; q++ {
				switch r.Intn(8) {
				case 7:
					if len(edges) > 0 {
						e := edges[r.Intn(len(edges))]
						a, b := e[0], e[1]
						if r.Intn(2) == 0 {
							a, b = b, a
						}
						p.awkwardOutage(r, a, b, -1)
					}
				case 6: // a freshly started router makes many table changes within a few seconds and is restarted at
					// once (fresh NewRouter, same name) with one link fewer: its neighbours still hold its state and
					// must notice the new incarnation by its sequence number
					j := r.Intn(n)
					peers := []int{}
					for x := 0; x < n; x++ {
						if x != j && p.rt[x] != nil && p.net.link[lkey(j, x)] {
							peers = append(peers, x)
						}
					}
					if len(peers) > 0 {
						p.stopRouter(j)
						p.startRouter(j)
						time.Sleep(2 * time.Second)
						i := peers[r.Intn(len(peers))]
						for c := 0; c < 8; c++ {
							// j drops i (and everything behind it) and re-discovers it through the protocol
							if p.rt[j].Vf18ExpireNeighbor(p.names[i]) {
								p.rt[j].Vf18CheckDead()
							}
							time.Sleep(300 * time.Millisecond)
						}
						if len(peers) > 1 {
							x := peers[r.Intn(len(peers))]
							if x != i {
								p.net.mu.Lock()
								delete(p.net.link, lkey(j, x))
								p.net.mu.Unlock()
							}
						}
						p.net.count("quick-restart")
						p.stopRouter(j)
						p.startRouter(j)
					}
				case 5: // a link goes away while an advertisement of the peer is being processed, and the dead
					// sweep wins the router lock: advertDataHandler has stored the advertisement and started
					// `go dv.ribUpdate(ns)`; checkDeadNeighbors removes the neighbour first; the goroutine runs late
					if len(edges) > 0 {
						e := edges[r.Intn(len(edges))]
						i, j := e[0], e[1]
						if r.Intn(2) == 0 {
							i, j = j, i
						}
						if p.rt[i] != nil && p.rt[j] != nil && p.net.linked(i, j) {
							adv := p.advertOf(j)
							p.net.mu.Lock()
							delete(p.net.link, lkey(i, j))
							p.net.mu.Unlock()
							if ns := p.rt[i].Vf18StoreAdvert(p.names[j], adv); ns != nil {
								p.rt[i].Vf18ExpireNeighbor(p.names[j])
								p.rt[i].Vf18CheckDead()
								p.net.count("late-update")
								go p.rt[i].Vf18RibUpdateNs(ns)
							}
						}
					}
				case 0, 1: // a link goes away
					if len(edges) > 0 {
						e := edges[r.Intn(len(edges))]
						p.net.mu.Lock()
						delete(p.net.link, lkey(e[0], e[1]))
						p.net.mu.Unlock()
					}
				case 2: // a link (re)appears
					a, b := r.Intn(n), r.Intn(n)
					if a != b {
						p.net.mu.Lock()
						p.net.link[lkey(a, b)] = true
						p.net.mu.Unlock()
					}
				case 3: // a router stops
					p.stopRouter(r.Intn(n))
				case 4: // a router (re)starts
					i := r.Intn(n)
					if p.rt[i] == nil {
						p.startRouter(i)
					}
				}
				time.Sleep(time.Duration(r.Intn(int(p.cfgD))) * time.Millisecond)
			}
			time.Sleep(settle)
			p.check(settle)
			if ph == phases-1 || r.Intn(2) == 0 {
				p.quietRun()
			}
		}
		fmt.Fprintf(out, "end\n")
		for i := 0; i < n; i++ {
			p.stopRouter(i)
		}
		// let every in-flight delivery, retry loop and timer of the stopped routers run out
		time.Sleep(60 * time.Second)
		synctest.Wait()
		fail = p.fail
		stats = p.net.stats
	})
	return fail, stats
}

func TestProto(t *testing.T) {
	log.SetHandler(log.HandlerFunc(func(*log.Entry) error { return nil }))
	seed, _ := strconv.ParseInt(os.Getenv("VERIF_SEED"), 10, 64)
	n, _ := strconv.Atoi(os.Getenv("VERIF_N"))
	if n == 0 {
		n = 5
	}
	path := os.Getenv("VERIF_OUT")
	if path == "" {
		path = "/dev/null"
	}
	f, err := os.Create(path)
	if err != nil {
		t.Fatal(err)
	}
	defer f.Close()
	out := bufio.NewWriterSize(f, 1<<20)
	defer out.Flush()
	r := rand.New(rand.NewSource(seed*7919 + 13))
	total := map[string]int{}
	// scripted histories first, whatever the budget: the awkward outage with 30 s and 45 s dead intervals
	for q, script := range []string{"outage30", "outage45"} {
		msg, st := runProtoCase(t, out, r, 1000+q, 3, [][2]int{{0, 1}, {1, 2}}, 0, script)
		if msg != "" {
			fmt.Fprintf(out, "harnessfail %d %s\n", 1000+q, msg)
		}
		for a, b := range st {
			total[a] += b
		}
		out.Flush()
	}
	for k := 0; k < n && protoOverruns < 6; k++ {
		nn := 2 + r.Intn(5)
		edges := randomConnected(r, nn)
		if k%2 == 1 && nn >= 4 {
			edges = randomSparse(r, nn)
		}
		msg, st := runProtoCase(t, out, r, k, nn, edges, 2+r.Intn(2), "")
		if msg != "" {
			fmt.Fprintf(out, "harnessfail %d %s\n", k, msg)
		}
		for a, b := range st {
			total[a] += b
		}
		out.Flush() // a run cut short by the wall clock keeps its completed cases
	}
	keys := []string{}
	for a := range total {
		keys = append(keys, a)
	}
	sort.Strings(keys)
	for _, a := range keys {
		fmt.Fprintf(out, "stat %s %d\n", a, total[a])
	}
}
