// Constant probe for C18 (feeds translators/dv/gen_consts.py -> coq/Dv/GenConsts.v).
//   cost_infinity   config.CostInfinity as the compiler evaluates it (through the verif hook Vf18Consts)
//   seq_init/clock_ms  BEHAVIOURAL: the advertisement sequence number of a Router constructed at a known virtual time
//   local_cost      BEHAVIOURAL: one real ribUpdate of an advertisement with known costs on a real router;
//                   stored cost minus advertised cost (plain entry), and the same through the poison-reverse branch
// Nothing here depends on the names of locals, declaration style or statement order inside ribUpdate.
package dv

import (
	"fmt"
	"os"
	"testing"
	"testing/synctest"
	"time"

	dvp "github.com/named-data/ndnd/dv/dv"
	"github.com/named-data/ndnd/dv/tlv"
	enc "github.com/named-data/ndnd/std/encoding"
	"github.com/named-data/ndnd/std/log"
)

func TestConsts(t *testing.T) {
	log.SetHandler(log.HandlerFunc(func(*log.Entry) error { return nil }))
	f, err := os.Create(os.Getenv("VERIF_OUT"))
	if err != nil {
		t.Fatal(err)
	}
	defer f.Close()
	fmt.Fprintf(f, "cost_infinity %d\n", dvp.Vf18Consts()["CostInfinity"])
	synctest.Test(t, func(t *testing.T) {
		name := func(s string) enc.Name { n, _ := enc.NameFromStr(s); return n }
		me, nb, x, y, z := name("/net/probe"), name("/net/nb"), name("/net/x"), name("/net/y"), name("/net/z")
		// the unit of the initial advertisement sequence number: a Router constructed at a known virtual time
		fmt.Fprintf(f, "clock_ms %d\n", time.Now().UnixMilli())
		r := newRouter(me)
		fmt.Fprintf(f, "seq_init %d\n", r.Vf18AdvertSeq())
		r.Vf18AddNeighbor(nb)
		adv := &tlv.Advertisement{Entries: []*tlv.AdvEntry{
			{Destination: &tlv.Destination{Name: x}, NextHop: &tlv.Destination{Name: y}, Cost: 3, OtherCost: 7},
			{Destination: &tlv.Destination{Name: z}, NextHop: &tlv.Destination{Name: me}, Cost: 2, OtherCost: 5},
		}}
		r.Vf18RibUpdate(nb, adv)
		synctest.Wait()
		for _, e := range r.Vf18Rib().Vf18Dump() {
			c, ok := e.Costs[nb.Hash()]
			if !ok {
				continue
			}
			if e.Name.Equal(x) {
				fmt.Fprintf(f, "local_cost %d\n", int64(c)-3)
			}
			if e.Name.Equal(z) {
				fmt.Fprintf(f, "local_cost_poison %d\n", int64(c)-5)
			}
		}
		r.Vf18StopNfdc()
	})
}
