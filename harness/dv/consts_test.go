// Constant probe for C18 (feeds translators/dv/gen_consts.py -> coq/Dv/GenConsts.v).
//   cost_infinity   config.CostInfinity as the compiler evaluates it (through the verif hook Vf18Consts)
//   tie_smaller_wins   BEHAVIOURAL: two neighbours offer one destination at the same cost; which becomes nextHop1
//   seq_init/clock_ns  BEHAVIOURAL: the advertisement sequence number of a Router constructed at a known virtual time
//   local_cost      BEHAVIOURAL: one real ribUpdate of an advertisement with known costs on a real router;
//                   stored cost minus advertised cost (plain entry), and the same through the poison-reverse branch
// Nothing here depends on the names of locals, declaration style or statement order inside ribUpdate.
package dv

import (
	"fmt"
	"os"
	"testing"
	"testing/synctest"
	"time"

	dvp "github.com/named-data/ndnd/dv/dv"
	"github.com/named-data/ndnd/dv/tlv"
	enc "github.com/named-data/ndnd/std/encoding"
	"github.com/named-data/ndnd/std/log"
)

func TestConsts(t *testing.T) {
	log.SetHandler(log.HandlerFunc(func(*log.Entry) error { return nil }))
	f, err := os.Create(os.Getenv("VERIF_OUT"))
	if err != nil {
		t.Fatal(err)
	}
	defer f.Close()
	fmt.Fprintf(f, "cost_infinity %d\n", dvp.Vf18Consts()["CostInfinity"])
	synctest.Test(t, func(t *testing.T) {
		name := func(s string) enc.Name { n, _ := enc.NameFromStr(s); return n }
		me, nb, x, y, z := name("/net/probe"), name("/net/nb"), name("/net/x"), name("/net/y"), name("/net/z")
		// the unit of the initial advertisement sequence number: a Router constructed at a known virtual time
		fmt.Fprintf(f, "clock_ns %d\n", time.Now().UnixNano())
		r := newRouter(me)
		fmt.Fprintf(f, "seq_init %d\n", r.Vf18AdvertSeq())
		r.Vf18AddNeighbor(nb)
		adv := &tlv.Advertisement{Entries: []*tlv.AdvEntry{
			{Destination: &tlv.Destination{Name: x}, NextHop: &tlv.Destination{Name: y}, Cost: 3, OtherCost: 7},
			{Destination: &tlv.Destination{Name: z}, NextHop: &tlv.Destination{Name: me}, Cost: 2, OtherCost: 5},
		}}
		r.Vf18RibUpdate(nb, adv)
		synctest.Wait()
		for _, e := range r.Vf18Rib().Vf18Dump() {
			c, ok := e.Costs[nb.Hash()]
			if !ok {
				continue
			}
			if e.Name.Equal(x) {
				fmt.Fprintf(f, "local_cost %d\n", int64(c)-3)
			}
			if e.Name.Equal(z) {
				fmt.Fprintf(f, "local_cost_poison %d\n", int64(c)-5)
			}
		}
		// the tie-break: one destination offered by two neighbours at the same cost — which one becomes nextHop1
		n2 := name("/net/nb2")
		r.Vf18AddNeighbor(n2)
		tieDest := name("/net/tie")
		tieAdv := &tlv.Advertisement{Entries: []*tlv.AdvEntry{
			{Destination: &tlv.Destination{Name: tieDest}, NextHop: &tlv.Destination{Name: y}, Cost: 4, OtherCost: 16}}}
		r.Vf18RibUpdate(nb, tieAdv)
		r.Vf18RibUpdate(n2, tieAdv)
		synctest.Wait()
		for _, e := range r.Vf18Rib().Vf18Dump() {
			if e.Name.Equal(tieDest) && len(e.Costs) == 2 && e.Lowest1 == e.Lowest2 {
				lo, hi := nb.Hash(), n2.Hash()
				if lo > hi {
					lo, hi = hi, lo
				}
				switch e.NextHop1 {
				case lo:
					fmt.Fprintf(f, "tie_smaller_wins 1\n")
				case hi:
					fmt.Fprintf(f, "tie_smaller_wins 0\n")
				}
			}
		}
		r.Vf18StopNfdc()
	})
}
