// Harness for C18: a network of real dv.Router objects (real table.Rib, real ribUpdate / checkDeadNeighbors
// through the verif wrappers, fake ndn.Engine) driven by generated schedules inside a go1.26 testing/synctest
// bubble; writes a trace for the Coq runner (runner/Dv).
//
// Trace (one record per line, ids are the 64-bit name hashes in decimal):
//   case <k> <kind> n=<routers> edges=<m>
//   node n<idx> <hash> <name>   ids below are n<idx> for these, raw decimal hashes otherwise (0 = none)
//   ev rup <i> | ev rdown <i> | ev up <i> <j> | ev dead <i> <j> | ev fetch <i> <j>
//   ev laterace <i> <j>         the same with the real interleaving: the update STARTED while the sweep held the lock (stalled)
//   ev late <i> <j>             the ribUpdate started for neighbour j runs only now, after the preceding `ev dead i j`
//   ev clock <ns> | ev sync <i> <j> <s> | ev data|olddata <i> <j> <s> | ev hold <j> | ev sweep <i> <dead ns>
//                               the sequence-number / liveness layer through the real handlers (see ProtoModel.v)
//   ev nack|ftimeout <i> <j> <s>  the outstanding fetch of i for (j, s) fails;  rft <i> <j> <s> <0|1>: was it expressed again
//   ev snap <j>                 store j's current advertisement;  ev deliver <i> <j>: i processes the stored one
//   obs <i> <dirty 0|1|x> nb=<j,j,..|-> rib=<entry;entry..|-> adv=<d/nh/cost/other;..|-> ent=<d/cost/nh;..|->
//        entry = d/nh1/l1/nh2/l2/dirty/h=c,h=c..      (everything sorted by key)
//   chkfixed <r>   >= 2*16+maxdist+1 rounds: the implementation's whole state must be a fixed point
//   chkpair <i> <j>  after a restart of j and its Sync Interest + Data: i's costs through j must be what j now offers
//   chkquiet       nobody has an unfetched announcement left (notification-driven schedule ran to quiescence)
//   chk <r>        the harness claims >= r complete rounds since the last topology change (runner verifies)
//   chkclean <r>   same, and no loss event happened since the start of the case
//   end
package dv

import (
	"bufio"
	"fmt"
	"math/rand"
	"os"
	"runtime"
	"sort"
	"strconv"
	"strings"
	"sync"
	"testing"
	"testing/synctest"
	"time"

	"github.com/named-data/ndnd/dv/config"
	dvp "github.com/named-data/ndnd/dv/dv"
	"github.com/named-data/ndnd/dv/table"
	"github.com/named-data/ndnd/dv/tlv"
	enc "github.com/named-data/ndnd/std/encoding"
	"github.com/named-data/ndnd/std/engine/basic"
	"github.com/named-data/ndnd/std/log"
	"github.com/named-data/ndnd/std/ndn"
	spec "github.com/named-data/ndnd/std/ndn/spec_2022"
	svs_2024 "github.com/named-data/ndnd/std/ndn/svs_2024"
	"github.com/named-data/ndnd/std/security"
	"github.com/named-data/ndnd/std/utils"
)

// ---------------------------------------------------------------------------------------------
// fake engine: nothing is ever sent; management commands succeed
// ---------------------------------------------------------------------------------------------
type fakeEngine struct {
	timer   ndn.Timer
	mu      sync.Mutex
	fetches []*pendingFetch // advertisement fetches expressed by the router (never answered unless the harness does)
}

type pendingFetch struct {
	target enc.Name
	seq    uint64
	cb     ndn.ExpressCallbackFunc
}

// engine of a router created by newRouter
var engOf sync.Map

func (e *fakeEngine) EngineTrait() ndn.Engine                           { return e }
func (e *fakeEngine) Spec() ndn.Spec                                    { return spec.Spec{} }
func (e *fakeEngine) Timer() ndn.Timer                                  { return e.timer }
func (e *fakeEngine) Start() error                                      { return nil }
func (e *fakeEngine) Stop() error                                       { return nil }
func (e *fakeEngine) IsRunning() bool                                   { return true }
func (e *fakeEngine) AttachHandler(enc.Name, ndn.InterestHandler) error { return nil }
func (e *fakeEngine) DetachHandler(enc.Name) error                      { return nil }
func (e *fakeEngine) Express(in *ndn.EncodedInterest, cb ndn.ExpressCallbackFunc) error {
	name := in.FinalName
	// /localhop/<router>/32=DV/32=ADV/seq=<s>
	if len(name) > 4 && name[0].Equal(config.Localhop[0]) && name[len(name)-2].String() == "32=ADV" && cb != nil {
		e.mu.Lock()
		e.fetches = append(e.fetches, &pendingFetch{name[1 : len(name)-3].Clone(), name[len(name)-1].NumberVal(), cb})
		e.mu.Unlock()
	}
	return nil
}
func (e *fakeEngine) RegisterRoute(enc.Name) error          { return nil }
func (e *fakeEngine) UnregisterRoute(enc.Name) error        { return nil }
func (e *fakeEngine) ExecMgmtCmd(string, string, any) error { return nil }

// ---------------------------------------------------------------------------------------------
// the simulated network
// ---------------------------------------------------------------------------------------------
type world struct {
	t      *testing.T
	w      *bufio.Writer
	r      *rand.Rand
	n      int
	names  []enc.Name
	hash   []uint64
	byHash map[uint64]int
	rt     []*dvp.Router // nil = down
	nbr    []map[int]bool
	seq    []uint64
	fail   string
	// round accounting, mirrored by the runner (greedy: a round ends as soon as every ordered pair was served)
	evc        int              // number of ev lines so far
	pending    map[[2]int]bool  // pairs not yet served in the current round
	rounds     int              // complete rounds since the last topology change
	roundStart int              // evc at the start of the current round
	slots      map[int]snapshot // latest stored advertisement per sender
	mseq       map[[2]int]uint64          // mirror of NeighborState.AdvertSeq as the protocol defines it
	held       map[int]snapshot           // advertisement Data "in flight": stored, to arrive late
	abort      bool                       // the case is over (a bound was exceeded and reported)
	lastAdv    map[int]*tlv.Advertisement // the last advertisement of a router that went down (for late updates)
	need       map[[2]int]bool  // (i, j): j announced a change (or is new to i) that i has not fetched yet
	delivered  bool             // some stored advertisement was delivered so far
	unclean    bool             // the history so far is not a loss-free history of atomic fetches followed by valid rounds
}

// router i flagged a change: every router that has i as a neighbour is told (Sync Interest with a new sequence number)
func (w *world) announce(i int) {
	for k := 0; k < w.n; k++ {
		if w.rt[k] != nil && w.nbr[k][i] {
			w.need[[2]int{k, i}] = true
		}
	}
}

func (w *world) topoChanged() {
	if w.delivered {
		w.unclean = true // a Deliver before a topology change belongs to the history part
	}
	w.resetRounds()
}

type snapshot struct {
	adv   *tlv.Advertisement
	stamp int
}

func (w *world) resetRounds() {
	w.rounds = 0
	w.roundStart = w.evc
	w.pending = map[[2]int]bool{}
	for _, p := range w.pairs() {
		w.pending[p] = true
	}
}

// a transfer for pair (i, j) was issued
func (w *world) served(i, j int) {
	delete(w.pending, [2]int{i, j})
	if len(w.pending) == 0 {
		ps := w.pairs()
		if len(ps) == 0 {
			return
		}
		w.rounds++
		w.roundStart = w.evc
		for _, p := range ps {
			w.pending[p] = true
		}
	}
}

const deadIntervalMs = 30000

func newRouter(name enc.Name) *dvp.Router {
	cfg := config.DefaultConfig()
	cfg.Network = "/net"
	cfg.Router = name.String()
	cfg.AdvertisementSyncInterval_ms = 10000
	cfg.RouterDeadInterval_ms = deadIntervalMs
	eng := &fakeEngine{timer: basic.NewTimer()}
	r, err := dvp.NewRouter(cfg, eng)
	if err != nil {
		panic(err)
	}
	engOf.Store(r, eng)
	r.Vf18StartNfdc()
	r.Vf18SelfInit()
	return r
}

func (w *world) settle() {
	synctest.Wait()
	time.Sleep(200 * time.Millisecond) // virtual: lets the nfdc consumer drain
	synctest.Wait()
}

func u(x uint64) string { return strconv.FormatUint(x, 10) }

// node ids are printed as n<idx> (declared by a `node` line); anything else as the raw decimal hash
func (w *world) id(h uint64) string {
	if k, ok := w.byHash[h]; ok {
		return "n" + strconv.Itoa(k)
	}
	return u(h)
}

func (w *world) obs(i int, dS string) {
	r := w.rt[i]
	if r == nil {
		return
	}
	// neighbour table
	nbs := []uint64{}
	for _, nm := range r.Vf18Neighbors().Vf18Names() {
		nbs = append(nbs, nm.Hash())
	}
	sort.Slice(nbs, func(a, b int) bool { return nbs[a] < nbs[b] })
	nbS := make([]string, len(nbs))
	for k, h := range nbs {
		nbS[k] = w.id(h)
	}
	// rib dump
	dump := r.Vf18Rib().Vf18Dump()
	sort.Slice(dump, func(a, b int) bool { return dump[a].Hash < dump[b].Hash })
	ribS := make([]string, len(dump))
	for k, e := range dump {
		if e.Name.Hash() != e.Hash {
			w.fail = "rib entry keyed by a hash that is not the hash of its name"
		}
		hops := make([]uint64, 0, len(e.Costs))
		for h := range e.Costs {
			hops = append(hops, h)
		}
		sort.Slice(hops, func(a, b int) bool { return hops[a] < hops[b] })
		cs := make([]string, len(hops))
		for q, h := range hops {
			cs[q] = w.id(h) + "=" + u(e.Costs[h])
		}
		d := "0"
		if e.Dirty {
			d = "1"
		}
		ribS[k] = strings.Join([]string{w.id(e.Hash), w.id(e.NextHop1), u(e.Lowest1), w.id(e.NextHop2), u(e.Lowest2), d, dashed(cs, ",")}, "/")
	}
	// advertisement, through the wire encoding as a neighbour would see it
	adv := w.advertOf(i)
	type ae struct{ d, nh, c, o uint64 }
	aes := []ae{}
	for _, e := range adv.Entries {
		var nh uint64
		if e.NextHop != nil && e.NextHop.Name != nil {
			nh = e.NextHop.Name.Hash()
		}
		aes = append(aes, ae{e.Destination.Name.Hash(), nh, e.Cost, e.OtherCost})
	}
	sort.Slice(aes, func(a, b int) bool { return aes[a].d < aes[b].d })
	advS := make([]string, len(aes))
	for k, a := range aes {
		advS[k] = w.id(a.d) + "/" + w.id(a.nh) + "/" + u(a.c) + "/" + u(a.o)
	}
	// Entries()
	type ee struct{ d, c, nh uint64 }
	ees := []ee{}
	for _, e := range r.Vf18Rib().Entries() {
		nh, c := e.Vf18Best()
		ees = append(ees, ee{e.Name().Hash(), c, nh})
	}
	sort.Slice(ees, func(a, b int) bool { return ees[a].d < ees[b].d })
	entS := make([]string, len(ees))
	for k, e := range ees {
		entS[k] = w.id(e.d) + "/" + u(e.c) + "/" + w.id(e.nh)
	}
	// the latest advertisement sequence number known per neighbour
	sqS := make([]string, len(nbs))
	for k, h := range nbs {
		var sq uint64
		if idx, ok := w.byHash[h]; ok {
			sq, _ = r.Vf18NeighborSeq(w.names[idx])
		}
		sqS[k] = w.id(h) + ":" + u(sq)
	}
	fmt.Fprintf(w.w, "obs %s %s nb=%s rib=%s adv=%s ent=%s sq=%s ms=%d\n", w.id(w.hash[i]), dS,
		dashed(nbS, ","), dashed(ribS, ";"), dashed(advS, ";"), dashed(entS, ";"), dashed(sqS, ","), r.Vf18AdvertSeq())
}

func dashed(xs []string, sep string) string {
	if len(xs) == 0 {
		return "-"
	}
	return strings.Join(xs, sep)
}

// the advertisement of router j as it travels: Rib.Advert() -> Encode -> ParseAdvertisement
func (w *world) advertOf(j int) *tlv.Advertisement {
	a := w.rt[j].Vf18Advert()
	wire := a.Encode()
	p, err := tlv.ParseAdvertisement(enc.NewBufferReader(wire.Join()), false)
	if err != nil {
		w.fail = "advertisement does not parse: " + err.Error()
		return &tlv.Advertisement{}
	}
	return p
}

// did router i flag a change (advertSyncNotifyNew increments the sequence number)
func (w *world) dirtyOf(i int) string {
	s := w.rt[i].Vf18AdvertSeq()
	d := s != w.seq[i]
	w.seq[i] = s
	if d {
		return "1"
	}
	return "0"
}

func (w *world) evRup(i int) {
	w.evClock()
	fmt.Fprintf(w.w, "ev rup %s\n", w.id(w.hash[i]))
	w.evc++
	if w.rt[i] == nil {
		w.rt[i] = newRouter(w.names[i])
		w.nbr[i] = map[int]bool{}
		w.settle()
		w.seq[i] = w.rt[i].Vf18AdvertSeq()
		w.announce(i)
		w.topoChanged()
	}
	w.obs(i, "x")
}

func (w *world) evRdown(i int) {
	fmt.Fprintf(w.w, "ev rdown %s\n", w.id(w.hash[i]))
	w.evc++
	w.unclean = true
	if w.rt[i] != nil {
		w.settle()
		if w.lastAdv == nil {
			w.lastAdv = map[int]*tlv.Advertisement{}
		}
		w.lastAdv[i] = w.advertOf(i)
		w.rt[i].Vf18StopNfdc()
		w.rt[i] = nil
		w.nbr[i] = map[int]bool{}
		for p := range w.need {
			if p[0] == i {
				delete(w.need, p)
			}
		}
		for p := range w.mseq {
			if p[0] == i {
				delete(w.mseq, p)
			}
		}
		w.topoChanged()
	}
}

// the virtual clock, for the events whose outcome depends on time (neighbour creation, pings, sweeps)
func (w *world) evClock() {
	fmt.Fprintf(w.w, "ev clock %d\n", time.Now().UnixNano())
	w.evc++
}

func (w *world) evUp(i, j int) {
	w.evClock()
	fmt.Fprintf(w.w, "ev up %s %s\n", w.id(w.hash[i]), w.id(w.hash[j]))
	w.evc++
	if w.rt[i] == nil {
		return
	}
	w.rt[i].Vf18AddNeighbor(w.names[j])
	if !w.nbr[i][j] {
		w.nbr[i][j] = true
		delete(w.mseq, [2]int{i, j})
		w.need[[2]int{i, j}] = true
		w.topoChanged()
	}
	w.settle()
	w.obs(i, w.dirtyOf(i))
}

func (w *world) evDead(i, j int) {
	w.evClock()
	fmt.Fprintf(w.w, "ev dead %s %s\n", w.id(w.hash[i]), w.id(w.hash[j]))
	w.evc++
	w.unclean = true
	if w.rt[i] == nil {
		return
	}
	if w.nbr[i][j] {
		defer w.topoChanged()
	}
	// the harness owns the clock: every neighbour was just heard from, except the victim
	now := time.Now()
	for _, nm := range w.rt[i].Vf18Neighbors().Vf18Names() {
		ns := w.rt[i].Vf18Neighbors().Get(nm)
		if nm.Equal(w.names[j]) {
			ns.Vf18SetLastSeen(time.Time{})
		} else {
			ns.Vf18SetLastSeen(now)
		}
	}
	w.rt[i].Vf18CheckDead()
	delete(w.nbr[i], j)
	delete(w.need, [2]int{i, j})
	delete(w.mseq, [2]int{i, j})
	w.settle()
	d := w.dirtyOf(i)
	if d == "1" {
		w.announce(i)
	}
	w.obs(i, d)
}

// The interleaving of advertDataHandler and checkDeadNeighbors in which the dead sweep wins the lock:
// advertDataHandler has stored j's advertisement in the neighbour object and started `go dv.ribUpdate(ns)`;
// the sweep removes j (and deletes the object) first; then the pending ribUpdate runs on the object it holds.
func (w *world) evDeadLate(i, j int) {
	if w.rt[i] == nil || !w.nbr[i][j] {
		w.evDead(i, j)
		return
	}
	var adv *tlv.Advertisement
	if w.rt[j] != nil {
		adv = w.advertOf(j)
	} else if a, ok := w.lastAdv[j]; ok {
		adv = a
	}
	if adv == nil {
		w.evDead(i, j)
		return
	}
	ns := w.rt[i].Vf18StoreAdvert(w.names[j], adv)
	w.evDead(i, j)
	if ns == nil {
		return
	}
	fmt.Fprintf(w.w, "ev late %s %s\n", w.id(w.hash[i]), w.id(w.hash[j]))
	w.evc++
	w.rt[i].Vf18RibUpdateNs(ns)
	w.settle()
	d := w.dirtyOf(i)
	if d == "1" {
		w.announce(i)
	}
	w.obs(i, d)
}

// spin without letting virtual time pass (a goroutine blocked on the router mutex is not "durably blocked" for
// synctest, so neither synctest.Wait nor time.Sleep may be used while one is)
func spin(n int) {
	for k := 0; k < n; k++ {
		runtime.Gosched()
	}
}

// The REAL interleaving of the dead sweep with an update that has already started: the sweep holds the router lock and
// is stalled inside NeighborTable.Remove (the management queue is full, routeUnregister blocks) BEFORE the neighbour
// object is cleared; `go dv.ribUpdate(ns)` starts now (whatever it reads before taking the lock, it reads now); the
// queue drains, the sweep finishes, and only then the update gets the lock.  Trace: ev dead, ev late, one dump.
func (w *world) evDeadLateRace(i, j int) {
	if w.rt[i] == nil || !w.nbr[i][j] {
		return
	}
	var adv *tlv.Advertisement
	if w.rt[j] != nil {
		adv = w.advertOf(j)
	} else if a, ok := w.lastAdv[j]; ok {
		adv = a
	}
	if adv == nil {
		w.evDead(i, j)
		return
	}
	w.evSync(i, j, w.mseq[[2]int{i, j}]) // a heartbeat: the neighbour object gets a face, so removal issues commands
	if w.rt[i] == nil || !w.nbr[i][j] {
		return
	}
	ns := w.rt[i].Vf18StoreAdvert(w.names[j], adv)
	if ns == nil {
		return
	}
	w.evClock()
	fmt.Fprintf(w.w, "ev dead %s %s\n", w.id(w.hash[i]), w.id(w.hash[j]))
	w.evc++
	w.unclean = true
	now := time.Now()
	for _, nm := range w.rt[i].Vf18Neighbors().Vf18Names() {
		o := w.rt[i].Vf18Neighbors().Get(nm)
		if nm.Equal(w.names[j]) {
			o.Vf18SetLastSeen(time.Time{})
		} else {
			o.Vf18SetLastSeen(now)
		}
	}
	q := w.rt[i].Vf18Nfdc()
	synctest.Wait()
	q.Vf18FillQueue()
	done1 := make(chan struct{})
	go func() { w.rt[i].Vf18CheckDead(); close(done1) }()
	synctest.Wait() // the sweep is stalled on the full queue, holding the lock, the neighbour object still intact
	fmt.Fprintf(w.w, "ev laterace %s %s\n", w.id(w.hash[i]), w.id(w.hash[j]))
	w.evc++
	done2 := make(chan struct{})
	began := make(chan struct{})
	r := w.rt[i]
	go func() { close(began); r.Vf18RibUpdateNs(ns); close(done2) }()
	for k := 0; k < 5000000; k++ { // the goroutine is really running (also on a loaded machine) ...
		select {
		case <-began:
			k = 5000000
		default:
			runtime.Gosched()
		}
	}
	spin(20000) // ... and has started the update: it is waiting for the lock (or has read what it reads before locking)
	wait := func(done chan struct{}) bool {
		for k := 0; k < 2000000; k++ {
			q.Vf18DrainAll()
			select {
			case <-done:
				return true
			default:
				runtime.Gosched()
			}
		}
		return false
	}
	if !wait(done1) || !wait(done2) {
		w.fail = "interleaving harness stuck (sweep / late update did not finish)"
		return
	}
	delete(w.nbr[i], j)
	delete(w.need, [2]int{i, j})
	delete(w.mseq, [2]int{i, j})
	spin(2000)
	q.Vf18DrainAll()
	w.settle()
	if w.dirtyOf(i) == "1" {
		w.announce(i)
	}
	w.obs(i, "x")
	w.topoChanged()
}

// A newer advertisement overtakes an update that has already started: advertDataHandler stored advertisement A and
// started `go dv.ribUpdate(ns)`; before that goroutine gets the router lock, the handler of the next Data (played by the
// harness, holding the lock) stores the newer advertisement B.  The update must apply what is current when it holds
// the lock: B.   A = the advertisement held in flight (ev hold), B = the stored one (ev snap).
func (w *world) evOvertake(i, j int) {
	a, okA := w.held[j]
	b, okB := w.slots[j]
	if !okA || !okB || w.rt[i] == nil || !w.nbr[i][j] {
		return
	}
	ns := w.rt[i].Vf18StoreAdvert(w.names[j], a.adv)
	if ns == nil {
		return
	}
	fmt.Fprintf(w.w, "ev overtake %s %s\n", w.id(w.hash[i]), w.id(w.hash[j]))
	w.evc++
	w.delivered = true
	if b.stamp < w.roundStart {
		w.unclean = true
		w.resetRounds()
	} else {
		w.served(i, j)
	}
	w.need[[2]int{i, j}] = true
	r := w.rt[i]
	r.Vf18Lock()
	done := make(chan struct{})
	began := make(chan struct{})
	go func() { close(began); r.Vf18RibUpdateNs(ns); close(done) }()
	for k := 0; k < 5000000; k++ {
		select {
		case <-began:
			k = 5000000
		default:
			runtime.Gosched()
		}
	}
	spin(20000)
	ns.Advert = b.adv
	r.Vf18Unlock()
	ok := false
	for k := 0; k < 2000000 && !ok; k++ {
		select {
		case <-done:
			ok = true
		default:
			runtime.Gosched()
		}
	}
	if !ok {
		w.fail = "interleaving harness stuck (overtaken update did not finish)"
		return
	}
	w.settle()
	d := w.dirtyOf(i)
	if d == "1" {
		w.announce(i)
	}
	w.obs(i, d)
}

// several neighbours of i are found dead by ONE sweep of checkDeadNeighbors (= consecutive NbrDead events)
func (w *world) evDeadMulti(i int, js []int) {
	if w.rt[i] == nil || len(js) == 0 {
		return
	}
	victim := map[int]bool{}
	w.evClock()
	for k, j := range js {
		kind := "dead"
		if k > 0 {
			kind = "deadmore" // same sweep: one change notification for all of them
		}
		fmt.Fprintf(w.w, "ev %s %s %s\n", kind, w.id(w.hash[i]), w.id(w.hash[j]))
		w.evc++
		victim[j] = true
	}
	w.unclean = true
	now := time.Now()
	changed := false
	for _, nm := range w.rt[i].Vf18Neighbors().Vf18Names() {
		ns := w.rt[i].Vf18Neighbors().Get(nm)
		if k, ok := w.byHash[nm.Hash()]; ok && victim[k] {
			ns.Vf18SetLastSeen(time.Time{})
		} else {
			ns.Vf18SetLastSeen(now)
		}
	}
	w.rt[i].Vf18CheckDead()
	for _, j := range js {
		if w.nbr[i][j] {
			changed = true
		}
		delete(w.nbr[i], j)
		delete(w.need, [2]int{i, j})
		delete(w.mseq, [2]int{i, j})
	}
	w.settle()
	if w.dirtyOf(i) == "1" {
		w.announce(i)
	}
	w.obs(i, "x")
	if changed {
		w.topoChanged()
	}
}

func (w *world) evFetch(i, j int) {
	fmt.Fprintf(w.w, "ev fetch %s %s\n", w.id(w.hash[i]), w.id(w.hash[j]))
	w.evc++
	w.served(i, j)
	if w.rt[i] == nil {
		return
	}
	if w.rt[j] != nil && w.nbr[i][j] {
		w.rt[i].Vf18RibUpdate(w.names[j], w.advertOf(j))
		w.settle()
		delete(w.need, [2]int{i, j})
	}
	d := w.dirtyOf(i)
	if d == "1" {
		w.announce(i)
	}
	w.obs(i, d)
}

// store router j's current advertisement (as a neighbour would receive it) for a later, stale delivery
func (w *world) evSnap(j int) {
	if w.rt[j] == nil {
		return
	}
	fmt.Fprintf(w.w, "ev snap %s\n", w.id(w.hash[j]))
	w.evc++
	w.slots[j] = snapshot{w.advertOf(j), w.evc}
}

// router i processes the stored advertisement of j (advertDataHandler + ribUpdate on an older advertisement)
func (w *world) evDeliver(i, j int) {
	sn, ok := w.slots[j]
	if !ok {
		return
	}
	fmt.Fprintf(w.w, "ev deliver %s %s\n", w.id(w.hash[i]), w.id(w.hash[j]))
	w.evc++
	w.delivered = true
	if sn.stamp < w.roundStart {
		w.unclean = true
		w.resetRounds() // older than the round: the runner starts counting afresh as well
	} else {
		w.served(i, j)
	}
	if w.rt[i] == nil {
		return
	}
	if w.nbr[i][j] {
		w.rt[i].Vf18RibUpdate(w.names[j], sn.adv)
		w.settle()
		w.need[[2]int{i, j}] = true // it may not have been j's latest advertisement
	}
	d := w.dirtyOf(i)
	if d == "1" {
		w.announce(i)
	}
	w.obs(i, d)
}

// notification-driven schedule, as the real protocol runs: a router fetches a neighbour's advertisement only when
// that neighbour announced a change; run until nobody has anything left to fetch
// a correct notification-driven run of 6 routers needs at most ~200 fetches to come to rest
const quiesceBound = 1500

// cases that did not come to rest so far in this run; after a few the run stops generating (the failure is established)
var noQuiet int

func (w *world) quiesce() { w.quiesceLast(-1) }

// lazy >= 0: that router is slow — it fetches only when nobody else has anything left to fetch
func (w *world) quiesceLast(lazy int) {
	if w.abort {
		return
	}
	for steps := 0; ; steps++ {
		ps := [][2]int{}
		slow := [][2]int{}
		for p := range w.need {
			if w.rt[p[0]] != nil && w.rt[p[1]] != nil && w.nbr[p[0]][p[1]] {
				if p[0] == lazy {
					slow = append(slow, p)
				} else {
					ps = append(ps, p)
				}
			}
		}
		if len(ps) == 0 {
			ps = slow
		}
		if len(ps) == 0 {
			break
		}
		if steps > quiesceBound {
			// "reaches within a bounded number of exchanges a fixed point": about ten times what any correct run needs
			w.obsAll()
			fmt.Fprintf(w.w, "noquiet %d\n", steps)
			w.abort = true
			noQuiet++
			return
		}
		sort.Slice(ps, func(a, b int) bool { return ps[a][0] < ps[b][0] || (ps[a][0] == ps[b][0] && ps[a][1] < ps[b][1]) })
		p := ps[w.r.Intn(len(ps))]
		w.evFetch(p[0], p[1])
	}
	w.obsAll()
	fmt.Fprintf(w.w, "chkquiet\n")
}

// ---- the sequence-number / liveness layer, through the real handlers ----

// router i receives a Sync Interest of j carrying sequence number s (real advertSyncOnInterest)
func (w *world) evSync(i, j int, s uint64) {
	if w.rt[i] == nil || i == j {
		return
	}
	w.evClock()
	fmt.Fprintf(w.w, "ev sync %s %s %d\n", w.id(w.hash[i]), w.id(w.hash[j]), s)
	w.evc++
	syncName, _ := enc.NameFromStr("/localhop/net/32=DV/32=ADS/32=ACT")
	syncName = append(syncName, enc.NewVersionComponent(2))
	sv := &svs_2024.StateVectorAppParam{StateVector: &svs_2024.StateVector{
		Entries: []*svs_2024.StateVectorEntry{{NodeId: w.names[j], SeqNo: s}}}}
	cfg := &ndn.InterestConfig{MustBeFresh: true, Lifetime: utils.IdPtr(time.Millisecond), Nonce: utils.IdPtr(uint64(w.evc))}
	ei, err := spec.Spec{}.MakeInterest(syncName, cfg, sv.Encode(), nil)
	if err != nil {
		w.fail = "cannot build Sync Interest: " + err.Error()
		return
	}
	pi, sigCov, err := spec.Spec{}.ReadInterest(enc.NewWireReader(ei.Wire))
	if err != nil {
		w.fail = "cannot parse Sync Interest: " + err.Error()
		return
	}
	fid := uint64(100 + j)
	w.rt[i].Vf18OnSyncInterest(ndn.InterestHandlerArgs{Interest: pi, RawInterest: ei.Wire, SigCovered: sigCov,
		IncomingFaceId: &fid, Reply: func(enc.Wire) error { return nil }}, true)
	key := [2]int{i, j}
	if !w.nbr[i][j] {
		w.nbr[i][j] = true
		w.mseq[key] = s
		w.need[key] = true
		w.topoChanged()
	} else if s > w.mseq[key] {
		w.mseq[key] = s
	}
	w.settle()
	w.obs(i, w.dirtyOf(i))
}

// advertisement Data named (j, s) arrives at i (real advertDataHandler); content: the stored advertisement of j,
// or the one held "in flight" since an earlier moment
func (w *world) evData(i, j int, s uint64, old bool) {
	src := w.slots
	kind := "data"
	if old {
		src = w.held
		kind = "olddata"
	}
	sn, ok := src[j]
	if !ok || w.rt[i] == nil {
		return
	}
	fmt.Fprintf(w.w, "ev %s %s %s %d\n", kind, w.id(w.hash[i]), w.id(w.hash[j]), s)
	w.evc++
	name := append(enc.Name{}, config.Localhop...)
	name = append(name, w.names[j]...)
	name = append(name, enc.NewStringComponent(enc.TypeKeywordNameComponent, "DV"),
		enc.NewStringComponent(enc.TypeKeywordNameComponent, "ADV"), enc.NewSequenceNumComponent(s))
	ed, err := spec.Spec{}.MakeData(name, &ndn.DataConfig{ContentType: utils.IdPtr(ndn.ContentTypeBlob),
		Freshness: utils.IdPtr(10 * time.Second)}, sn.adv.Encode(), security.NewSha256Signer())
	if err != nil {
		w.fail = "cannot build advertisement Data: " + err.Error()
		return
	}
	data, _, err := spec.Spec{}.ReadData(enc.NewWireReader(ed.Wire))
	if err != nil {
		w.fail = "cannot parse advertisement Data: " + err.Error()
		return
	}
	accepted := w.nbr[i][j] && w.mseq[[2]int{i, j}] == s
	if accepted {
		w.delivered = true
		if sn.stamp < w.roundStart {
			w.unclean = true
			w.resetRounds()
		} else {
			w.served(i, j)
		}
		w.need[[2]int{i, j}] = true
	}
	w.rt[i].Vf18OnAdvertData(data)
	w.settle()
	d := w.dirtyOf(i)
	if d == "1" {
		w.announce(i)
	}
	w.obs(i, d)
}

// the outstanding advertisement fetch of i towards j fails (NACK: no route yet; or timeout): the real callback of
// advertDataFetch runs; within its back-off the fetch must be expressed again
func (w *world) evNack(i, j int, timeout bool) {
	if w.rt[i] == nil {
		return
	}
	v, ok := engOf.Load(w.rt[i])
	if !ok {
		return
	}
	eng := v.(*fakeEngine)
	eng.mu.Lock()
	var pf *pendingFetch
	idx := -1
	for k, f := range eng.fetches {
		if f.target.Equal(w.names[j]) {
			pf, idx = f, k
		}
	}
	eng.mu.Unlock()
	if pf == nil {
		return
	}
	kind := "nack"
	res := ndn.ExpressCallbackArgs{Result: ndn.InterestResultNack, NackReason: 150}
	if timeout {
		kind = "ftimeout"
		res = ndn.ExpressCallbackArgs{Result: ndn.InterestResultTimeout}
	}
	fmt.Fprintf(w.w, "ev %s %s %s %d\n", kind, w.id(w.hash[i]), w.id(w.hash[j]), pf.seq)
	w.evc++
	pf.cb(res)
	synctest.Wait()
	time.Sleep(2500 * time.Millisecond) // longer than either back-off (2 s after a NACK, 100 ms after a timeout)
	synctest.Wait()
	again := 0
	eng.mu.Lock()
	for k, f := range eng.fetches {
		if k > idx && f.target.Equal(w.names[j]) && f.seq == pf.seq {
			again = 1
		}
	}
	eng.mu.Unlock()
	fmt.Fprintf(w.w, "rft %s %s %d %d\n", w.id(w.hash[i]), w.id(w.hash[j]), pf.seq, again)
}

// the advertisement last stored for j goes "in flight" (its Data is delayed)
func (w *world) evHold(j int) {
	if sn, ok := w.slots[j]; ok {
		fmt.Fprintf(w.w, "ev hold %s\n", w.id(w.hash[j]))
		w.evc++
		w.held[j] = sn
	}
}

// the real dead sweep with the real (virtual) clock
func (w *world) evSweep(i int) {
	if w.rt[i] == nil {
		return
	}
	w.evClock()
	fmt.Fprintf(w.w, "ev sweep %s %d\n", w.id(w.hash[i]), int64(deadIntervalMs)*1000000)
	w.evc++
	w.rt[i].Vf18CheckDead()
	w.settle()
	left := map[int]bool{}
	for _, nm := range w.rt[i].Vf18Neighbors().Vf18Names() {
		if k, ok := w.byHash[nm.Hash()]; ok {
			left[k] = true
		}
	}
	changed := false
	for j := range w.nbr[i] {
		if !left[j] {
			delete(w.nbr[i], j)
			delete(w.need, [2]int{i, j})
			delete(w.mseq, [2]int{i, j})
			changed = true
			w.unclean = true
		}
	}
	d := w.dirtyOf(i)
	if d == "1" {
		w.announce(i)
	}
	w.obs(i, d)
	if changed {
		w.topoChanged()
	}
}

// delayed / reordered advertisement Data: i learns sequence s1 of j, the Data for s1 is delayed; j's table changes
// (a neighbour of j may be lost meanwhile), j announces s2, that fetch completes; then the s1 Data arrives
func (w *world) seqScenario() {
	ps := w.pairs()
	if len(ps) == 0 {
		return
	}
	p := ps[w.r.Intn(len(ps))]
	i, j := p[0], p[1]
	if w.rt[j] == nil {
		return
	}
	s1 := w.mseq[[2]int{i, j}] + 1 + uint64(w.r.Intn(3))
	w.evSync(i, j, s1)
	if w.r.Intn(2) == 0 {
		w.evNack(i, j, w.r.Intn(3) == 0) // the first fetch fails: it must be retried
	}
	w.evSnap(j)
	w.evHold(j) // the Data for s1 is in flight
	if w.r.Intn(2) == 0 {
		w.evData(i, j, s1, false) // sometimes a timely copy arrives as well
	}
	// j's table changes
	switch w.r.Intn(3) {
	case 0:
		ks := []int{}
		for k := range w.nbr[j] {
			if k != i {
				ks = append(ks, k)
			}
		}
		sort.Ints(ks)
		if len(ks) > 0 {
			k := ks[w.r.Intn(len(ks))]
			if w.r.Intn(2) == 0 {
				w.evRdown(k)
			}
			w.evDead(j, k)
		}
	case 1:
		w.someFetches(2 + w.r.Intn(6))
	}
	s2 := s1 + 1 + uint64(w.r.Intn(2))
	if w.r.Intn(5) != 0 {
		w.evSync(i, j, s2)
		if w.rt[j] != nil {
			w.evSnap(j)
			w.evData(i, j, s2, false)
		}
	}
	w.someFetches(w.r.Intn(4))
	if w.rt[j] != nil && w.r.Intn(2) == 0 {
		w.evSnap(j)
		w.evOvertake(i, j) // an update started with the held advertisement is overtaken by the newer one
	}
	w.evData(i, j, s1, true)           // the delayed Data
	w.evData(i, j, s2+5, w.r.Intn(2) == 0) // Data for a sequence number never announced
	if w.r.Intn(3) == 0 {
		w.evSync(i, j, s1) // an old Sync Interest arrives late: the sequence number must not go back
		w.evData(i, j, s1, true)
	}
}

// a router makes several table changes in quick succession, is torn down and comes back (a fresh NewRouter with the
// same name) well inside its neighbours' dead interval, with a smaller table; the neighbours, driven only by the
// sequence numbers in its Sync Interests, must fetch the new advertisement and drop what it no longer offers
func (w *world) restartScenario() {
	ps := w.pairs()
	if len(ps) == 0 {
		return
	}
	p := ps[w.r.Intn(len(ps))]
	i, j := p[0], p[1]
	if w.rt[j] == nil || w.rt[i] == nil || !w.nbr[j][i] {
		return
	}
	// fresh incarnation of j first, so that its initial sequence number is recent
	w.evRdown(j)
	w.evRup(j)
	js := []int{}
	for k := 0; k < w.n; k++ {
		if k != j && w.rt[k] != nil && w.nbr[k][j] {
			js = append(js, k)
		}
	}
	for _, k := range js {
		w.evUp(j, k)
		w.evFetch(j, k)
	}
	// quick table changes at j: it loses and re-learns everything behind i, several times
	for c := 0; c < 6+w.r.Intn(6); c++ {
		w.evDead(j, i)
		w.evUp(j, i)
		w.evFetch(j, i)
	}
	// i is up to date with this incarnation
	s1 := w.rt[j].Vf18AdvertSeq()
	w.evSync(i, j, s1)
	w.evSnap(j)
	w.evData(i, j, s1, false)
	// j restarts at once, this time hearing only i
	w.evRdown(j)
	w.evRup(j)
	w.evUp(j, i)
	if w.r.Intn(2) == 0 {
		w.evFetch(j, i)
	}
	s2 := w.rt[j].Vf18AdvertSeq()
	w.evSync(i, j, s2)
	w.evSnap(j)
	w.evData(i, j, s2, false)
	fmt.Fprintf(w.w, "chkpair %s %s\n", w.id(w.hash[i]), w.id(w.hash[j]))
}

// heartbeats: every neighbour of i keeps sending Sync Interests with an UNCHANGED sequence number; time passes;
// the sweep must not remove anybody who was heard from within the dead interval
func (w *world) pingScenario() {
	live := []int{}
	for i := 0; i < w.n; i++ {
		if w.rt[i] != nil && len(w.nbr[i]) > 0 {
			live = append(live, i)
		}
	}
	if len(live) == 0 {
		return
	}
	i := live[w.r.Intn(len(live))]
	js := []int{}
	for j := range w.nbr[i] {
		js = append(js, j)
	}
	sort.Ints(js)
	silent := -1
	if w.r.Intn(3) == 0 {
		silent = js[w.r.Intn(len(js))] // this one really stops talking
	}
	for round := 0; round < 2+w.r.Intn(2); round++ {
		time.Sleep(time.Duration(5000+w.r.Intn(20000)) * time.Millisecond)
		for _, j := range js {
			if j != silent && w.nbr[i][j] {
				w.evSync(i, j, w.mseq[[2]int{i, j}]) // same sequence number as known: a pure heartbeat
			}
		}
		if w.r.Intn(2) == 0 {
			time.Sleep(time.Duration(w.r.Intn(25000)) * time.Millisecond)
			w.evSweep(i)
		}
	}
	time.Sleep(time.Duration(w.r.Intn(29000)) * time.Millisecond)
	w.evSweep(i)
}

// one transfer for the pair: atomic, or a stale advertisement generated earlier in the current round
func (w *world) xfer(i, j int) {
	if w.r.Intn(4) == 0 {
		w.evSnap(w.r.Intn(w.n))
	}
	if sn, ok := w.slots[j]; ok && sn.stamp >= w.roundStart && w.r.Intn(5) < 2 {
		w.evDeliver(i, j)
	} else {
		w.evFetch(i, j)
	}
}

// ordered adjacent pairs (i has j in its neighbour table and j is up)
func (w *world) pairs() [][2]int {
	ps := [][2]int{}
	for i := 0; i < w.n; i++ {
		if w.rt[i] == nil {
			continue
		}
		for j := 0; j < w.n; j++ {
			if w.nbr[i][j] {
				ps = append(ps, [2]int{i, j})
			}
		}
	}
	return ps
}

func (w *world) settled() bool {
	for i := 0; i < w.n; i++ {
		if w.rt[i] == nil {
			continue
		}
		for j := range w.nbr[i] {
			if w.rt[j] == nil {
				return false
			}
		}
	}
	return true
}

// one fair round: a random permutation of all ordered pairs, with random repetitions mixed in
func (w *world) round() {
	ps := w.pairs()
	w.r.Shuffle(len(ps), func(a, b int) { ps[a], ps[b] = ps[b], ps[a] })
	for _, p := range ps {
		w.xfer(p[0], p[1])
		if w.r.Intn(8) == 0 {
			q := ps[w.r.Intn(len(ps))]
			w.xfer(q[0], q[1])
		}
	}
}

// diameter bound: the largest finite hop distance (directed, along neighbour tables)
func (w *world) maxDist() int {
	md := 0
	for s := 0; s < w.n; s++ {
		if w.rt[s] == nil {
			continue
		}
		dist := map[int]int{s: 0}
		q := []int{s}
		for len(q) > 0 {
			x := q[0]
			q = q[1:]
			for y := range w.nbr[x] {
				if _, ok := dist[y]; !ok && w.rt[y] != nil {
					dist[y] = dist[x] + 1
					if dist[y] > md {
						md = dist[y]
					}
					q = append(q, y)
				}
			}
		}
	}
	return md
}

func (w *world) obsAll() {
	for i := 0; i < w.n; i++ {
		w.obs(i, "x")
	}
}

func (w *world) someFetches(k int) {
	for ; k > 0; k-- {
		ps := w.pairs()
		if len(ps) == 0 {
			return
		}
		p := ps[w.r.Intn(len(ps))]
		switch w.r.Intn(6) {
		case 0:
			w.evSnap(p[1])
		case 1:
			w.evDeliver(p[0], p[1]) // whatever is stored, however old
		default:
			w.evFetch(p[0], p[1])
		}
	}
}

// bring all detected-dead / undetected neighbours into a settled state
func (w *world) detectAll() {
	for i := 0; i < w.n; i++ {
		if w.rt[i] == nil {
			continue
		}
		js := []int{}
		for j := range w.nbr[i] {
			if w.rt[j] == nil {
				js = append(js, j)
			}
		}
		sort.Ints(js)
		for _, j := range js {
			switch w.r.Intn(3) {
			case 0:
				w.evDeadLate(i, j)
			case 1:
				w.evDeadLateRace(i, j)
			default:
				w.evDead(i, j)
			}
			w.someFetches(w.r.Intn(3))
		}
	}
}

func (w *world) converge(clean bool) {
	if w.abort {
		return
	}
	w.detectAll()
	if !clean && w.r.Intn(4) != 0 {
		lazy := -1
		if w.r.Intn(2) == 0 {
			lazy = w.r.Intn(w.n) // one router is slow to fetch: it sees only the settled advertisements
		}
		w.quiesceLast(lazy)
		if w.abort {
			return
		}
	}
	md := w.maxDist()
	rounds := 16 + md + 1
	kind := "chk"
	if clean && !w.unclean {
		rounds = md + 1
		kind = "chkclean"
	}
	if len(w.pairs()) > 0 {
		for w.rounds < rounds {
			w.round()
		}
	}
	w.obsAll()
	fmt.Fprintf(w.w, "%s %d\n", kind, rounds)
	if w.abort {
		return
	}
	// one more round must not change any table (fixed point of the routing tables)
	w.round()
	w.obsAll()
	fmt.Fprintf(w.w, "%s %d\n", kind, rounds+1)
	// now and then go on to 2*16 + maxdist + 1 rounds: the whole state (second-best costs included) is at rest
	if kind == "chk" && len(w.pairs()) > 0 && w.r.Intn(4) == 0 {
		full := 2*16 + md + 1
		for w.rounds < full {
			w.round()
		}
		w.obsAll()
		fmt.Fprintf(w.w, "chkfixed %d\n", full)
	}
}

func (w *world) fault(edges [][2]int) {
	if w.abort {
		return
	}
	switch w.r.Intn(10) {
	case 9:
		w.restartScenario()
	case 7:
		w.seqScenario()
	case 8:
		w.pingScenario()
	case 6: // a router loses all its links at once: one sweep removes every neighbour
		i := w.r.Intn(w.n)
		js := []int{}
		for j := range w.nbr[i] {
			js = append(js, j)
		}
		sort.Ints(js)
		w.evDeadMulti(i, js)
	case 0, 1: // link loss (both directions detect, at different times)
		ps := w.pairs()
		if len(ps) == 0 {
			return
		}
		p := ps[w.r.Intn(len(ps))]
		switch w.r.Intn(4) {
		case 0:
			w.evDeadLate(p[0], p[1])
		case 1:
			w.evDeadLateRace(p[0], p[1])
		default:
			w.evDead(p[0], p[1])
		}
		w.someFetches(w.r.Intn(6))
		if w.rt[p[1]] != nil && w.nbr[p[1]][p[0]] && w.r.Intn(8) != 0 {
			if w.r.Intn(3) == 0 {
				w.evDeadLate(p[1], p[0])
			} else {
				w.evDead(p[1], p[0])
			}
		}
	case 2: // link (re-)addition
		i, j := w.r.Intn(w.n), w.r.Intn(w.n)
		if i == j {
			return
		}
		w.evUp(i, j)
		w.someFetches(w.r.Intn(4))
		if w.r.Intn(8) != 0 {
			w.evUp(j, i)
		}
	case 3: // router loss; neighbours notice later, in any order
		i := w.r.Intn(w.n)
		w.evRdown(i)
		w.someFetches(w.r.Intn(6))
	case 4: // router (re)start and its links come back
		i := w.r.Intn(w.n)
		if w.rt[i] != nil {
			return
		}
		w.evRup(i)
		for _, e := range edges {
			a, b := e[0], e[1]
			if a != i && b != i {
				continue
			}
			if w.r.Intn(5) == 0 {
				continue
			}
			// a stale neighbour entry for the restarted router may still be there: that is fine
			w.evUp(a, b)
			w.evUp(b, a)
			w.someFetches(w.r.Intn(3))
		}
	case 5:
		w.someFetches(1 + w.r.Intn(10))
	}
}

func connected(n int, edges [][2]int) bool {
	adj := make([][]int, n)
	for _, e := range edges {
		adj[e[0]] = append(adj[e[0]], e[1])
		adj[e[1]] = append(adj[e[1]], e[0])
	}
	seen := make([]bool, n)
	seen[0] = true
	q := []int{0}
	c := 1
	for len(q) > 0 {
		x := q[0]
		q = q[1:]
		for _, y := range adj[x] {
			if !seen[y] {
				seen[y] = true
				c++
				q = append(q, y)
			}
		}
	}
	return c == n
}

func randomConnected(r *rand.Rand, n int) [][2]int {
	for {
		edges := [][2]int{}
		p := 0.25 + r.Float64()*0.5
		for i := 0; i < n; i++ {
			for j := i + 1; j < n; j++ {
				if r.Float64() < p {
					edges = append(edges, [2]int{i, j})
				}
			}
		}
		if connected(n, edges) {
			return edges
		}
	}
}

// sparse connected graph: a random spanning tree plus 0..2 extra edges (tails, rings with tails, long detours)
func randomSparse(r *rand.Rand, n int) [][2]int {
	edges := [][2]int{}
	has := map[[2]int]bool{}
	perm := r.Perm(n)
	for k := 1; k < n; k++ {
		a, b := perm[k], perm[r.Intn(k)]
		if a > b {
			a, b = b, a
		}
		edges = append(edges, [2]int{a, b})
		has[[2]int{a, b}] = true
	}
	for x := r.Intn(3); x > 0; x-- {
		a, b := r.Intn(n), r.Intn(n)
		if a > b {
			a, b = b, a
		}
		if a != b && !has[[2]int{a, b}] {
			edges = append(edges, [2]int{a, b})
			has[[2]int{a, b}] = true
		}
	}
	return edges
}

// all labelled connected graphs on n nodes
func allConnected(n int) [][][2]int {
	all := [][2]int{}
	for i := 0; i < n; i++ {
		for j := i + 1; j < n; j++ {
			all = append(all, [2]int{i, j})
		}
	}
	res := [][][2]int{}
	for mask := 0; mask < 1<<len(all); mask++ {
		edges := [][2]int{}
		for k, e := range all {
			if mask>>k&1 == 1 {
				edges = append(edges, e)
			}
		}
		if connected(n, edges) {
			res = append(res, edges)
		}
	}
	return res
}

func runCase(t *testing.T, out *bufio.Writer, r *rand.Rand, k int, kind string, n int, edges [][2]int, faults int) string {
	fail := ""
	synctest.Test(t, func(t *testing.T) {
		w := &world{t: t, w: out, r: r, n: n, byHash: map[uint64]int{}, slots: map[int]snapshot{}, pending: map[[2]int]bool{}, need: map[[2]int]bool{}, mseq: map[[2]int]uint64{}, held: map[int]snapshot{}}
		// random router names: the hash order (the tie-break key) is unrelated to the index order.
		// In a third of the cases the names are HIERARCHICAL: a router's name is a proper prefix of another's
		// (/net/r1 and /net/r1/c2, a legal configuration).
		nested := r.Intn(3) == 0
		for len(w.names) < n {
			str := fmt.Sprintf("/net/r%d", r.Intn(1000000))
			if nested && len(w.names) > 0 && r.Intn(4) != 0 {
				str = w.names[r.Intn(len(w.names))].String() + fmt.Sprintf("/c%d", r.Intn(1000))
			}
			nm, _ := enc.NameFromStr(str)
			if _, dup := w.byHash[nm.Hash()]; dup || nm.Hash() < 1000 {
				continue
			}
			w.byHash[nm.Hash()] = len(w.names)
			w.names = append(w.names, nm)
			w.hash = append(w.hash, nm.Hash())
		}
		w.rt = make([]*dvp.Router, n)
		w.nbr = make([]map[int]bool, n)
		w.seq = make([]uint64, n)
		for i := range w.nbr {
			w.nbr[i] = map[int]bool{}
		}
		fmt.Fprintf(out, "case %d %s n=%d edges=%d\n", k, kind, n, len(edges))
		for i := range w.hash {
			fmt.Fprintf(out, "node n%d %s %s\n", i, u(w.hash[i]), w.names[i].String())
		}
		// bring-up
		order := r.Perm(n)
		interleave := r.Intn(2) == 0
		for _, i := range order {
			w.evRup(i)
		}
		es := append([][2]int{}, edges...)
		r.Shuffle(len(es), func(a, b int) { es[a], es[b] = es[b], es[a] })
		for _, e := range es {
			if r.Intn(2) == 0 {
				w.evUp(e[0], e[1])
				w.evUp(e[1], e[0])
			} else {
				w.evUp(e[1], e[0])
				w.evUp(e[0], e[1])
			}
			if interleave {
				w.someFetches(r.Intn(4))
			}
		}
		// growth-only history: converges within maxdist+1 rounds
		w.converge(true)
		if r.Intn(2) == 0 {
			w.converge(false)
		}
		for f := 0; f < faults; f++ {
			nf := 1 + r.Intn(4)
			for q := 0; q < nf; q++ {
				w.fault(edges)
			}
			w.converge(false)
		}
		fmt.Fprintf(out, "end\n")
		for i := range w.rt {
			if w.rt[i] != nil {
				w.rt[i].Vf18StopNfdc()
			}
		}
		fail = w.fail
	})
	return fail
}

// The oracle of refresh_order_independent on the implementation: entries with >= 3 finite-cost next hops and ties for
// the first AND the second place (what full meshes K4, K5 and K_{2,3} produce), filled through the real ribUpdate / Set /
// refresh path; then the same unchanged advertisements are re-delivered many times (each re-delivery iterates the Go
// map in a fresh random order): next hops and costs must be the two least (cost, hash) pairs every time and the
// re-delivery must not report a change.
//   rf   <h=c,h=c,..> <nh1>/<l1>/<nh2>/<l2>            after the initial deliveries
//   rfre <h=c,h=c,..> <nh1>/<l1>/<nh2>/<l2> <dirty>    after each re-delivery of an unchanged advertisement
func refreshOracle(t *testing.T, out *bufio.Writer, r *rand.Rand, trials int) {
	patterns := [][]uint64{
		{2, 2, 2}, {2, 2, 2, 2}, {3, 3, 3, 3, 3}, // all tied (full mesh: every neighbour is one hop from the rest)
		{1, 2, 2}, {1, 2, 2, 2}, {1, 3, 3, 3, 3}, // unique best, ties for second place
		{2, 2, 3, 3}, {2, 2, 2, 5}, {4, 4, 4, 9, 9}, {1, 1, 2, 2, 2}, {5, 2, 2, 7, 2},
	}
	synctest.Test(t, func(t *testing.T) {
		for k := 0; k < trials; k++ {
			pat := patterns[k%len(patterns)]
			name := func(s string) enc.Name { n, _ := enc.NameFromStr(s); return n }
			me := name(fmt.Sprintf("/net/me%d", r.Intn(1000000)))
			dest := name(fmt.Sprintf("/net/d%d", r.Intn(1000000)))
			far := name("/net/elsewhere")
			rt := newRouter(me)
			hops := []enc.Name{}
			advs := []*tlv.Advertisement{}
			for q, c := range pat {
				h := name(fmt.Sprintf("/net/h%d-%d", q, r.Intn(1000000)))
				hops = append(hops, h)
				advs = append(advs, &tlv.Advertisement{Entries: []*tlv.AdvEntry{{Destination: &tlv.Destination{Name: dest},
					NextHop: &tlv.Destination{Name: far}, Cost: c - 1, OtherCost: 16}}})
				rt.Vf18AddNeighbor(h)
			}
			for _, q := range r.Perm(len(hops)) {
				rt.Vf18RibUpdate(hops[q], advs[q])
			}
			synctest.Wait()
			time.Sleep(100 * time.Millisecond)
			dump := func() string {
				for _, e := range rt.Vf18Rib().Vf18Dump() {
					if !e.Name.Equal(dest) {
						continue
					}
					hs := make([]uint64, 0, len(e.Costs))
					for h := range e.Costs {
						hs = append(hs, h)
					}
					sort.Slice(hs, func(a, b int) bool { return hs[a] < hs[b] })
					cs := make([]string, len(hs))
					for q, h := range hs {
						cs[q] = u(h) + "=" + u(e.Costs[h])
					}
					return fmt.Sprintf("%s %d/%d/%d/%d", strings.Join(cs, ","), e.NextHop1, e.Lowest1, e.NextHop2, e.Lowest2)
				}
				return "- 0/16/0/16"
			}
			fmt.Fprintf(out, "rf %s\n", dump())
			seq := rt.Vf18AdvertSeq()
			for rep := 0; rep < 25; rep++ {
				q := r.Intn(len(hops))
				rt.Vf18RibUpdate(hops[q], advs[q])
				synctest.Wait()
				time.Sleep(20 * time.Millisecond)
				s2 := rt.Vf18AdvertSeq()
				d := 0
				if s2 != seq {
					d = 1
				}
				seq = s2
				fmt.Fprintf(out, "rfre %s %d\n", dump(), d)
			}
			rt.Vf18StopNfdc()
		}
	})
}

func TestTrace(t *testing.T) {
	log.SetHandler(log.HandlerFunc(func(*log.Entry) error { return nil }))
	seed, _ := strconv.ParseInt(os.Getenv("VERIF_SEED"), 10, 64)
	n, _ := strconv.Atoi(os.Getenv("VERIF_N"))
	if n == 0 {
		n = 10
	}
	exhaustive := os.Getenv("VERIF_EXHAUSTIVE") == "1"
	path := os.Getenv("VERIF_OUT")
	if path == "" {
		path = "/dev/null"
	}
	f, err := os.Create(path)
	if err != nil {
		t.Fatal(err)
	}
	defer f.Close()
	out := bufio.NewWriterSize(f, 1<<20)
	defer out.Flush()
	r := rand.New(rand.NewSource(seed))
	k := 0
	fails := []string{}
	one := func(kind string, nn int, edges [][2]int, faults int) {
		if noQuiet >= 3 {
			return // enough histories that do not come to rest have been reported
		}
		if msg := runCase(t, out, r, k, kind, nn, edges, faults); msg != "" {
			fails = append(fails, fmt.Sprintf("case %d: %s", k, msg))
			fmt.Fprintf(out, "harnessfail %d %s\n", k, msg)
		}
		out.Flush() // a run cut short by the wall clock keeps its completed cases
		k++
	}
	if os.Getenv("VERIF_GRAPH") == "" {
		refreshOracle(t, out, r, 33)
	}
	if g := os.Getenv("VERIF_GRAPH"); g != "" {
		// scripted case (used to produce corpus histories): "n:a-b,c-d,..." ; after bring-up and convergence router
		// VERIF_LOSE disappears, its neighbours notice, and the notification-driven schedule runs to quiescence
		var nn int
		var es string
		fmt.Sscanf(g, "%d:%s", &nn, &es)
		edges := [][2]int{}
		for _, e := range strings.Split(es, ",") {
			var a, b int
			fmt.Sscanf(e, "%d-%d", &a, &b)
			edges = append(edges, [2]int{a, b})
		}
		lose, _ := strconv.Atoi(os.Getenv("VERIF_LOSE"))
		synctest.Test(t, func(t *testing.T) {
			w := &world{t: t, w: out, r: r, n: nn, byHash: map[uint64]int{}, slots: map[int]snapshot{}, pending: map[[2]int]bool{}, need: map[[2]int]bool{}, mseq: map[[2]int]uint64{}, held: map[int]snapshot{}}
			for i := 0; i < nn; i++ {
				nm, _ := enc.NameFromStr(fmt.Sprintf("/net/s%d", i))
				w.byHash[nm.Hash()] = i
				w.names = append(w.names, nm)
				w.hash = append(w.hash, nm.Hash())
			}
			w.rt = make([]*dvp.Router, nn)
			w.nbr = make([]map[int]bool, nn)
			w.seq = make([]uint64, nn)
			for i := range w.nbr {
				w.nbr[i] = map[int]bool{}
			}
			fmt.Fprintf(out, "case 0 script n=%d edges=%d\n", nn, len(edges))
			for i := range w.hash {
				fmt.Fprintf(out, "node n%d %s %s\n", i, u(w.hash[i]), w.names[i].String())
			}
			for i := 0; i < nn; i++ {
				w.evRup(i)
			}
			for _, e := range edges {
				w.evUp(e[0], e[1])
				w.evUp(e[1], e[0])
			}
			w.quiesce()
			w.evRdown(lose)
			for i := 0; i < nn; i++ {
				if w.rt[i] != nil && w.nbr[i][lose] {
					w.evDead(i, lose)
				}
			}
			lazy := -1
			if v := os.Getenv("VERIF_LAZY"); v != "" {
				lazy, _ = strconv.Atoi(v)
			}
			w.quiesceLast(lazy)
			fmt.Fprintf(out, "end\n")
			for i := range w.rt {
				if w.rt[i] != nil {
					w.rt[i].Vf18StopNfdc()
				}
			}
		})
		return
	}
	if exhaustive {
		for nn := 2; nn <= 5; nn++ {
			for _, edges := range allConnected(nn) {
				one(fmt.Sprintf("all%d", nn), nn, edges, 2)
			}
		}
	} else {
		// sampled small graphs (every connected graph on 2..4 nodes has a fair chance), then 5 and 6 nodes
		for c := 0; c < n; c++ {
			var nn int
			switch {
			case c%5 == 0:
				nn = 2 + r.Intn(3)
			case c%5 <= 2:
				nn = 5
			default:
				nn = 6
			}
			if c%2 == 0 || nn < 4 {
				one(fmt.Sprintf("rand%d", nn), nn, randomConnected(r, nn), 2+r.Intn(2))
			} else {
				one(fmt.Sprintf("sparse%d", nn), nn, randomSparse(r, nn), 2+r.Intn(2))
			}
		}
	}
	_ = table.Vf18Entry{}
}

// TestReplay re-runs exactly the events of one case (file VERIF_OPS: the case/node/ev/chk lines of a trace).
func TestReplay(t *testing.T) {
	log.SetHandler(log.HandlerFunc(func(*log.Entry) error { return nil }))
	ops, err := os.ReadFile(os.Getenv("VERIF_OPS"))
	if err != nil {
		t.Fatal(err)
	}
	f, err := os.Create(os.Getenv("VERIF_OUT"))
	if err != nil {
		t.Fatal(err)
	}
	defer f.Close()
	out := bufio.NewWriterSize(f, 1<<20)
	defer out.Flush()
	synctest.Test(t, func(t *testing.T) {
		w := &world{t: t, w: out, byHash: map[uint64]int{}, slots: map[int]snapshot{}, pending: map[[2]int]bool{}, need: map[[2]int]bool{}, mseq: map[[2]int]uint64{}, held: map[int]snapshot{}}
		idx := func(s string) int {
			k, _ := strconv.Atoi(strings.TrimPrefix(s, "n"))
			return k
		}
		started := false
		start := func() {
			if started {
				return
			}
			started = true
			w.n = len(w.names)
			w.rt = make([]*dvp.Router, w.n)
			w.nbr = make([]map[int]bool, w.n)
			w.seq = make([]uint64, w.n)
			for i := range w.nbr {
				w.nbr[i] = map[int]bool{}
			}
		}
		lines := strings.Split(string(ops), "\n")
		skip := -1
		for li, line := range lines {
			p := strings.Fields(line)
			if len(p) == 0 || li == skip {
				continue
			}
			switch p[0] {
			case "case":
				fmt.Fprintln(out, line)
			case "node":
				nm, err := enc.NameFromStr(p[3])
				if err != nil {
					t.Fatal(err)
				}
				w.byHash[nm.Hash()] = len(w.names)
				w.names = append(w.names, nm)
				w.hash = append(w.hash, nm.Hash())
				fmt.Fprintf(out, "node n%d %s %s\n", len(w.names)-1, u(nm.Hash()), nm.String())
			case "ev":
				start()
				switch p[1] {
				case "rup":
					w.evRup(idx(p[2]))
				case "rdown":
					w.evRdown(idx(p[2]))
				case "up":
					w.evUp(idx(p[2]), idx(p[3]))
				case "deadmore":
					w.evDead(idx(p[2]), idx(p[3]))
				case "dead":
					// `ev dead i j` directly followed by `ev late i j`: the sweep overtook a pending ribUpdate
					late, race := false, false
					for q := li + 1; q < len(lines); q++ {
						f := strings.Fields(lines[q])
						if len(f) >= 2 && f[0] == "ev" {
							if len(f) == 4 && (f[1] == "late" || f[1] == "laterace") && f[2] == p[2] && f[3] == p[3] {
								late, race = true, f[1] == "laterace"
								skip = q
							}
							break
						}
					}
					if race {
						w.evDeadLateRace(idx(p[2]), idx(p[3]))
					} else if late {
						w.evDeadLate(idx(p[2]), idx(p[3]))
					} else {
						w.evDead(idx(p[2]), idx(p[3]))
					}
				case "fetch":
					w.evFetch(idx(p[2]), idx(p[3]))
				case "clock":
					// the replay keeps the virtual clock of the recorded run
					if t, err := strconv.ParseInt(p[2], 10, 64); err == nil {
						if d := t - time.Now().UnixNano(); d > 0 {
							time.Sleep(time.Duration(d))
						}
					}
				case "sync":
					sq, _ := strconv.ParseUint(p[4], 10, 64)
					w.evSync(idx(p[2]), idx(p[3]), sq)
				case "data", "olddata":
					sq, _ := strconv.ParseUint(p[4], 10, 64)
					w.evData(idx(p[2]), idx(p[3]), sq, p[1] == "olddata")
				case "overtake":
					w.evOvertake(idx(p[2]), idx(p[3]))
				case "hold":
					w.evHold(idx(p[2]))
				case "nack", "ftimeout":
					w.evNack(idx(p[2]), idx(p[3]), p[1] == "ftimeout")
				case "sweep":
					w.evSweep(idx(p[2]))
				case "snap":
					w.evSnap(idx(p[2]))
				case "deliver":
					w.evDeliver(idx(p[2]), idx(p[3]))
				}
			case "chkpair":
				start()
				w.obsAll()
				fmt.Fprintln(out, line)
			case "chk", "chkclean", "chkquiet", "chkfixed":
				start()
				w.obsAll()
				fmt.Fprintln(out, line)
			}
		}
		fmt.Fprintf(out, "end\n")
		for i := range w.rt {
			if w.rt[i] != nil {
				w.rt[i].Vf18StopNfdc()
			}
		}
		if w.fail != "" {
			fmt.Fprintf(out, "harnessfail 0 %s\n", w.fail)
		}
	})
}
