// Harness for C19 (harness/dvfib). Test binary reads VERIF_SEED, VERIF_N (cases per kind), VERIF_OUT (trace path),
// VERIF_KINDS (subset of "pfx,fib,net"), VERIF_OPS (file with one recorded case to replay instead of generating).
package dvfib

import (
	"bufio"
	"math/rand"
	"os"
	"strconv"
	"strings"
	"testing"
	"testing/synctest"

	"github.com/named-data/ndnd/std/log"
)

func envInt(k string, d int) int {
	if v, err := strconv.Atoi(os.Getenv(k)); err == nil {
		return v
	}
	return d
}

func TestTrace(t *testing.T) {
	log.SetLevel(log.FatalLevel)
	out := os.Getenv("VERIF_OUT")
	if out == "" {
		out = "/dev/null"
	}
	f, err := os.Create(out)
	if err != nil {
		t.Fatal(err)
	}
	defer f.Close()
	w := bufio.NewWriterSize(f, 1<<20)
	defer w.Flush()

	if p := os.Getenv("VERIF_OPS"); p != "" {
		raw, err := os.ReadFile(p)
		if err != nil {
			t.Fatal(err)
		}
		var cur []string
		flush := func() {
			if len(cur) == 0 {
				return
			}
			ops := cur
			cur = nil
			synctest.Test(t, func(t *testing.T) { replayCase(w, ops) })
		}
		for _, l := range strings.Split(string(raw), "\n") {
			l = strings.TrimSpace(l)
			if l == "" || strings.HasPrefix(l, "#") {
				continue
			}
			if strings.HasPrefix(l, "case ") {
				flush()
			}
			cur = append(cur, strings.TrimPrefix(l, "op "))
		}
		flush()
		return
	}

	seed := int64(envInt("VERIF_SEED", 1))
	n := envInt("VERIF_N", 20)
	kinds := os.Getenv("VERIF_KINDS")
	if kinds == "" {
		kinds = "pfx,fib,net"
	}
	rng := rand.New(rand.NewSource(seed))
	for k := 0; k < n; k++ {
		for _, kind := range strings.Split(kinds, ",") {
			sub := rand.New(rand.NewSource(rng.Int63()))
			kk := k
			synctest.Test(t, func(t *testing.T) { genCase(w, sub, kind, kk) })
		}
	}
}

func genCase(w *bufio.Writer, rng *rand.Rand, kind string, k int) {
	switch kind {
	case "pfx":
		if k < len(sweepOffsets) { // the first histories sweep the late-join offset around the snapshot cadence
			genSweepCase(w, rng, k, sweepOffsets[k])
			return
		}
		if k < len(sweepOffsets)+4 { // then: everything withdrawn during a long gap -> reset-only snapshot at a peer holding a set
			genEmptySnapCase(w, rng, k)
			return
		}
		budget := []int{30, 60, 120, 250}[rng.Intn(4)]
		genPfxCase(w, rng, k, budget)
	case "fib":
		budget := []int{15, 40, 80, 160}[rng.Intn(4)]
		genFibCase(w, rng, k, budget)
	case "net":
		budget := []int{20, 50, 100}[rng.Intn(3)]
		genNetCase(w, rng, k, budget)
	}
}

func replayCase(w *bufio.Writer, ops []string) {
	h := strings.Fields(ops[0])
	switch h[1] {
	case "pfx":
		replayPfxCase(w, ops)
	case "fib":
		replayFibCase(w, ops)
	case "net":
		replayNetCase(w, ops)
	}
}
