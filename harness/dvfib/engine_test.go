// Fake ndn.Engine for the C19 harness: records expressed Interests (with their callbacks) and management
// commands; never touches a network. Real packets are built/parsed with spec_2022.
package dvfib

import (
	"math/rand"
	"sync"
	"time"

	enc "github.com/named-data/ndnd/std/encoding"
	"github.com/named-data/ndnd/std/ndn"
	spec "github.com/named-data/ndnd/std/ndn/spec_2022"
)

type expressed struct {
	interest *ndn.EncodedInterest
	cb       ndn.ExpressCallbackFunc
}

type fakeTimer struct{ r *rand.Rand }

func (t *fakeTimer) Now() time.Time        { return time.Now() }
func (t *fakeTimer) Sleep(d time.Duration) { time.Sleep(d) }
func (t *fakeTimer) Schedule(d time.Duration, f func()) func() error {
	tm := time.AfterFunc(d, f)
	return func() error { tm.Stop(); return nil }
}
func (t *fakeTimer) Nonce() []byte {
	b := make([]byte, 8)
	for i := range b {
		b[i] = byte(t.r.Intn(256))
	}
	return b
}

type fakeEngine struct {
	mu       sync.Mutex
	timer    *fakeTimer
	pending  []expressed
	handlers map[string]ndn.InterestHandler
	nExpress int
	onExec   func(module string, cmd string, args any) error // stand-in forwarder (executor histories)
}

func newFakeEngine(seed int64) *fakeEngine {
	return &fakeEngine{timer: &fakeTimer{r: rand.New(rand.NewSource(seed))}, handlers: map[string]ndn.InterestHandler{}}
}

func (e *fakeEngine) EngineTrait() ndn.Engine { return e }
func (e *fakeEngine) Spec() ndn.Spec          { return spec.Spec{} }
func (e *fakeEngine) Timer() ndn.Timer        { return e.timer }
func (e *fakeEngine) Start() error            { return nil }
func (e *fakeEngine) Stop() error             { return nil }
func (e *fakeEngine) IsRunning() bool         { return true }
func (e *fakeEngine) AttachHandler(prefix enc.Name, h ndn.InterestHandler) error {
	e.mu.Lock()
	defer e.mu.Unlock()
	e.handlers[prefix.String()] = h
	return nil
}
func (e *fakeEngine) DetachHandler(prefix enc.Name) error {
	e.mu.Lock()
	defer e.mu.Unlock()
	delete(e.handlers, prefix.String())
	return nil
}
func (e *fakeEngine) Express(interest *ndn.EncodedInterest, cb ndn.ExpressCallbackFunc) error {
	e.mu.Lock()
	defer e.mu.Unlock()
	e.nExpress++
	if cb != nil {
		e.pending = append(e.pending, expressed{interest, cb})
	}
	return nil
}
func (e *fakeEngine) RegisterRoute(prefix enc.Name) error   { return nil }
func (e *fakeEngine) UnregisterRoute(prefix enc.Name) error { return nil }
func (e *fakeEngine) ExecMgmtCmd(module string, cmd string, args any) error {
	if e.onExec != nil {
		return e.onExec(module, cmd, args)
	}
	return nil
}

// takePending removes and returns the pending Interests whose name has the given prefix.
func (e *fakeEngine) takePending(prefix enc.Name) []expressed {
	e.mu.Lock()
	defer e.mu.Unlock()
	var out, rest []expressed
	for _, p := range e.pending {
		if prefix.IsPrefix(p.interest.FinalName) {
			out = append(out, p)
		} else {
			rest = append(rest, p)
		}
	}
	e.pending = rest
	return out
}

func (e *fakeEngine) peekPending(prefix enc.Name) []expressed {
	e.mu.Lock()
	defer e.mu.Unlock()
	var out []expressed
	for _, p := range e.pending {
		if prefix.IsPrefix(p.interest.FinalName) {
			out = append(out, p)
		}
	}
	return out
}
