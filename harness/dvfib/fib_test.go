// C19 harness, FIB half (kind "fib"): one real dv.Router over the fake engine. The RIB, the neighbour table and the
// prefix table are changed through their real APIs (Rib.Set / Prune / RemoveNextHop, NeighborTable.Add / Remove,
// NeighborState.RecvPing, PrefixTable.Apply), then the real fibUpdate is run and the nfdc queue drained. Before each
// fibUpdate the tables are dumped (verif hooks); the runner feeds the dump to the model (SetTables), compares the
// command sets and the installer's prefixes map, folds the implementation's commands into a reference route table
// and evaluates the spec predicate (route table = from-scratch desired) on it.
package dvfib

import (
	"bufio"
	"fmt"
	"hash/fnv"
	"math/rand"
	"sort"
	"strconv"
	"strings"
	"testing/synctest"
	"time"

	"github.com/named-data/ndnd/dv/config"
	"github.com/named-data/ndnd/dv/dv"
	"github.com/named-data/ndnd/dv/nfdc"
	"github.com/named-data/ndnd/dv/table"
	"github.com/named-data/ndnd/dv/tlv"
	enc "github.com/named-data/ndnd/std/encoding"
	mgmt "github.com/named-data/ndnd/std/ndn/mgmt_2022"
)

var routerPoolStr = []string{"/net/me", "/net/a", "/net/b", "/net/c", "/net/d", "/net/e", "/net/a/sub"}
var fibPfxPoolStr = []string{"/p/1", "/p/32=1", "/p/2", "/p/2/x", "/q", "/net/b/32=DV", "/net/a", "/r/%01", "/s/t/u/v"}

type interner struct {
	ids   map[string]int
	names []enc.Name
}

func newInterner() *interner { return &interner{ids: map[string]int{}} }
func (in *interner) id(n enc.Name) int {
	k := n.String()
	if v, ok := in.ids[k]; ok {
		return v
	}
	in.names = append(in.names, n.Clone())
	in.ids[k] = len(in.names)
	return len(in.names)
}
func (in *interner) known(n enc.Name) (int, bool) { v, ok := in.ids[n.String()]; return v, ok }

type fibCase struct {
	w          *bufio.Writer
	in         *interner
	r          *dv.Router
	eng        *fakeEngine
	cfg        *config.Config
	routers    []enc.Name // routerPool (index 0 = this router)
	pfxs       []enc.Name
	hashes     map[uint64]string
	collisions []string // reported after the case header

	// executor histories (kind "fib ... x"): the REAL NfdMgmtThread.Start runs against a stand-in forwarder whose
	// ExecMgmtCmd fails the first k attempts of chosen commands
	execMode  bool
	faultSeed uint64
	perm      bool
	inst      map[*mgmt.ControlArgs]int
	tries     map[int]int
	failK     map[int]int
	occ       map[string]int
	attLog    []string
	fwd       map[string]uint64
}

func dvPrefix(router enc.Name) enc.Name {
	return append(router.Clone(), enc.NewStringComponent(enc.TypeKeywordNameComponent, "DV"))
}

func newFibCase(w *bufio.Writer, seed int64) *fibCase {
	c := &fibCase{w: w, in: newInterner(), hashes: map[uint64]string{}}
	c.eng = newFakeEngine(seed)
	cfg := config.DefaultConfig()
	cfg.Network = "/net"
	cfg.Router = routerPoolStr[0]
	r, err := dv.NewRouter(cfg, c.eng)
	if err != nil {
		panic(err)
	}
	c.r, c.cfg = r, cfg
	for _, s := range routerPoolStr {
		n := mustName(s)
		c.routers = append(c.routers, n)
		c.in.id(n)
	}
	for _, s := range fibPfxPoolStr {
		n := mustName(s)
		c.pfxs = append(c.pfxs, n)
		c.in.id(n)
	}
	// the zero-component prefix "/" the way the wire delivers it (Name TLV `07 00`: non-nil, empty) and as a nil Name (a
	// PrefixOp whose Name field is absent decodes to nil), and a prefix with a zero-length component
	root, err := enc.NameFromBytes([]byte{0x07, 0x00})
	if err != nil {
		panic(err)
	}
	if root == nil {
		root = enc.Name{}
	}
	for _, n := range []enc.Name{root, nil, {enc.NewStringComponent(enc.TypeGenericNameComponent, "z"), enc.NewBytesComponent(enc.TypeGenericNameComponent, []byte{})}} {
		c.pfxs = append(c.pfxs, n)
		c.in.id(n)
	}
	for _, n := range c.routers {
		c.in.id(dvPrefix(n))
	}
	// hash-collision freedom on the universe is an assumption of the model: check it
	for _, n := range c.in.names {
		h := n.Hash()
		if o, ok := c.hashes[h]; ok && o != n.String() {
			// the model assumes collision freedom on the universe: report, and go on (the tables will conflate the two)
			c.collisions = append(c.collisions, fmt.Sprintf("obs hashcollision %s %s", o, n.String()))
		}
		c.hashes[h] = n.String()
	}
	return c
}

// cmdStr canonicalises one drained command. Commands on names outside the universe (neighbour routes under
// /localhop, sync prefixes) are the neighbour table's business, not the installer's: reported as "o".
func (c *fibCase) cmdStr(m nfdc.NfdMgmtCmd) string {
	if m.Module != "rib" || m.Args == nil {
		return "o"
	}
	id, ok := c.in.known(m.Args.Name)
	if !ok {
		return "o"
	}
	face := uint64(0)
	if m.Args.FaceId != nil {
		face = *m.Args.FaceId
	}
	bad := ""
	if m.Args.Origin == nil || *m.Args.Origin != config.NlsrOrigin {
		bad = "!origin"
	}
	switch m.Cmd {
	case "register":
		cost := "nil"
		if m.Args.Cost != nil {
			cost = strconv.FormatUint(*m.Args.Cost, 10)
		}
		return fmt.Sprintf("R:%d:%d:%s%s", id, face, cost, bad)
	case "unregister":
		return fmt.Sprintf("U:%d:%d%s", id, face, bad)
	}
	return "o"
}

func (c *fibCase) drain() string {
	cmds := c.r.Vf19Nfdc().Vf19Drain()
	var l []string
	for _, m := range cmds {
		if s := c.cmdStr(m); s != "o" {
			l = append(l, s)
		}
	}
	if len(l) == 0 {
		return "-"
	}
	return strings.Join(l, ",") // emission order; the runner compares as a set and folds in order
}

func (c *fibCase) nameID(n enc.Name, hash uint64) int {
	if n == nil {
		if hash == 0 {
			return 0
		}
		return 999999 // a next-hop hash the RIB cannot name: never expected
	}
	return c.in.id(n)
}

// dumpTables writes the tables the installer is about to read.
func (c *fibCase) dumpTables() {
	c.r.Vf19Locked(func() {
		var lines []string
		for _, e := range c.r.Vf19Rib().Vf19Dump() {
			lines = append(lines, fmt.Sprintf("tab rib %d %d %d %d %d %d", c.in.id(e.Name), c.in.id(dvPrefix(e.Name)),
				c.nameID(e.NextHop1, e.NextHop1H), e.Lowest1, c.nameID(e.NextHop2, e.NextHop2H), e.Lowest2))
			// spec-level view of the RIB entry itself: all (next hop, cost) pairs, for the two-least oracle
			var cs []string
			for _, k := range e.Costs {
				cs = append(cs, fmt.Sprintf("%d:%d:%d", c.nameID(k.Hop, k.HopH), k.HopH, k.Cost))
			}
			sort.Strings(cs)
			if len(cs) == 0 {
				cs = []string{"-"}
			}
			lines = append(lines, fmt.Sprintf("tab costs %d %d %d %s", c.in.id(e.Name), e.NextHop1H, e.NextHop2H, strings.Join(cs, ",")))
		}
		for _, n := range c.r.Vf19Neighbors().Vf19Dump() {
			lines = append(lines, fmt.Sprintf("tab nbr %d %d", c.in.id(n.Name), n.FaceId))
		}
		for _, pr := range c.r.Vf19Pfx().Vf19Routers() {
			var ids []int
			for _, e := range pr.Prefixes {
				ids = append(ids, c.in.id(e.Name))
			}
			lines = append(lines, fmt.Sprintf("tab pfx %d %s", c.in.id(pr.Name), idsCSV(ids)))
		}
		sort.Strings(lines)
		fmt.Fprintf(c.w, "tab me %d\n", c.in.id(c.cfg.RouterName()))
		for _, l := range lines {
			fmt.Fprintln(c.w, l)
		}
	})
}

func (c *fibCase) obsFib() {
	var l []string
	np, nn, nm := 0, 0, 0
	c.r.Vf19Locked(func() {
		for _, p := range c.r.Vf19Fib().Vf19Dump() {
			id := 999999
			if p.Name != nil {
				id = c.in.id(p.Name)
			}
			for _, e := range p.Entries {
				l = append(l, fmt.Sprintf("%d:%d:%d", id, e.FaceId, e.Cost))
			}
			if len(p.Entries) == 0 {
				l = append(l, fmt.Sprintf("%d:empty", id))
			}
		}
		np, nn, nm = c.r.Vf19Fib().Vf19Sizes()
	})
	sort.Strings(l)
	s := "-"
	if len(l) > 0 {
		s = strings.Join(l, ",")
	}
	fmt.Fprintf(c.w, "obs fib %d %d %s\n", np, nn, s)
	_ = nm
}

func (c *fibCase) reportCollisions() {
	for _, l := range c.collisions {
		fmt.Fprintln(c.w, l)
	}
	c.collisions = nil
}

func (c *fibCase) exec(op string) {
	c.reportCollisions()
	fmt.Fprintf(c.w, "op %s\n", op)
	f := strings.Fields(op)
	atoi := func(s string) int { v, _ := strconv.Atoi(s); return v }
	u64 := func(s string) uint64 { v, _ := strconv.ParseUint(s, 10, 64); return v }
	R := func(i string) enc.Name { return c.routers[atoi(i)] }
	switch f[0] {
	case "rset": // rset dest nh cost
		c.r.Vf19Locked(func() { c.r.Vf19Rib().Set(R(f[1]), R(f[2]), u64(f[3])) })
	case "rprune":
		c.r.Vf19Locked(func() { c.r.Vf19Rib().Prune() })
	case "rremnh":
		c.r.Vf19Locked(func() { c.r.Vf19Rib().RemoveNextHop(R(f[1])) })
	case "nadd":
		c.r.Vf19Locked(func() { c.r.Vf19Neighbors().Add(R(f[1])) })
	case "nping": // nping n face active
		c.r.Vf19Locked(func() {
			if ns := c.r.Vf19Neighbors().Get(R(f[1])); ns != nil {
				ns.RecvPing(u64(f[2]), f[3] == "1")
			}
		})
	case "nrem":
		c.r.Vf19Locked(func() { c.r.Vf19Neighbors().Remove(R(f[1])) })
	case "papply": // papply router reset adds(csv of pool indexes or -) rems(csv or -)
		ops := &tlv.PrefixOpList{ExitRouter: &tlv.Destination{Name: R(f[1])}, PrefixOpReset: f[2] == "1"}
		if f[3] != "-" {
			for _, x := range strings.Split(f[3], ",") {
				ops.PrefixOpAdds = append(ops.PrefixOpAdds, &tlv.PrefixOpAdd{Name: c.pfxs[atoi(x)], Cost: 1})
			}
		}
		if f[4] != "-" {
			for _, x := range strings.Split(f[4], ",") {
				ops.PrefixOpRemoves = append(ops.PrefixOpRemoves, &tlv.PrefixOpRemove{Name: c.pfxs[atoi(x)]})
			}
		}
		dirty := false
		c.r.Vf19Locked(func() { dirty = c.r.Vf19Pfx().Apply(ops) })
		// direct observation of Apply on that router's record (compared with apply_ops / apply_dirty of the model)
		var ids []int
		c.r.Vf19Locked(func() {
			if pr := c.r.Vf19Pfx().Vf19Peek(R(f[1])); pr != nil {
				for _, e := range pr.Prefixes {
					ids = append(ids, c.in.id(e.Name))
				}
			}
		})
		var adds, rems []int
		for _, a := range ops.PrefixOpAdds { // an op without a Name field (nil) is ignored by Apply: not part of the reported op
			if a.Name != nil {
				adds = append(adds, c.in.id(a.Name))
			}
		}
		for _, a := range ops.PrefixOpRemoves {
			if a.Name != nil {
				rems = append(rems, c.in.id(a.Name))
			}
		}
		seq := func(l []int) string {
			if len(l) == 0 {
				return "-"
			}
			s := make([]string, len(l))
			for i, x := range l {
				s[i] = strconv.Itoa(x)
			}
			return strings.Join(s, ",")
		}
		d := 0
		if dirty {
			d = 1
		}
		synctest.Wait()
		fmt.Fprintf(c.w, "obs apply %d %s %s %s %d %s\n", c.in.id(R(f[1])), f[2], seq(adds), seq(rems), d, idsCSV(ids))
		return
	case "settle":
		c.settle()
		return
	case "burst": // burst free: a fibUpdate while the command queue has only `free` slots left and its consumer is stalled
		if c.execMode {
			return
		}
		q := c.r.Vf19Nfdc()
		q.Vf19Drain()
		free := atoi(f[1])
		for q.Vf19QueueLen() < q.Vf19QueueCap()-free { // capacity probed, not assumed
			q.Exec(nfdc.NfdMgmtCmd{Module: "faces", Cmd: "noop", Args: &mgmt.ControlArgs{}, Retries: 1})
		}
		c.dumpTables()
		fmt.Fprintln(c.w, "go fu")
		done := make(chan struct{})
		go func() { c.r.Vf19FibUpdate(); close(done) }()
		var all []nfdc.NfdMgmtCmd
		for finished := false; !finished; {
			synctest.Wait() // fibUpdate is either done or blocked in Exec on the full queue
			select {
			case <-done:
				finished = true
			default:
			}
			all = append(all, q.Vf19Drain()...) // the consumer catches up
		}
		var l []string
		for _, m := range all {
			if s := c.cmdStr(m); s != "o" {
				l = append(l, s)
			}
		}
		out := "-"
		if len(l) > 0 {
			out = strings.Join(l, ",")
		}
		fmt.Fprintf(c.w, "obs cmds %s\n", out)
		c.obsFib()
		return
	case "pbulk": // pbulk router n: the router announces n further prefixes /bulk/<i> in one operation
		ops := &tlv.PrefixOpList{ExitRouter: &tlv.Destination{Name: R(f[1])}}
		for i := 0; i < atoi(f[2]); i++ {
			n := mustName(fmt.Sprintf("/bulk/%d", i))
			c.in.id(n)
			ops.PrefixOpAdds = append(ops.PrefixOpAdds, &tlv.PrefixOpAdd{Name: n, Cost: 1})
		}
		c.r.Vf19Locked(func() { c.r.Vf19Pfx().Apply(ops) })
	case "fu":
		if c.execMode {
			c.dumpTables()
			fmt.Fprintln(c.w, "go fu")
			c.r.Vf19FibUpdate()
			synctest.Wait()
			c.obsFib()
			return
		}
		c.r.Vf19Nfdc().Vf19Drain() // commands of neighbour (un)registration since the last update are not the installer's
		c.dumpTables()
		fmt.Fprintln(c.w, "go fu")
		c.r.Vf19FibUpdate()
		synctest.Wait()
		fmt.Fprintf(c.w, "obs cmds %s\n", c.drain())
		c.obsFib()
		return
	default:
		panic("bad op " + op)
	}
	synctest.Wait()
}

var _ = table.NewRib

// startExecutor starts the real management thread of the router against the stand-in forwarder.
func (c *fibCase) startExecutor(seed uint64, perm bool) {
	c.execMode, c.faultSeed, c.perm = true, seed, perm
	c.inst, c.tries, c.failK, c.occ = map[*mgmt.ControlArgs]int{}, map[int]int{}, map[int]int{}, map[string]int{}
	c.fwd = map[string]uint64{}
	c.eng.onExec = func(module string, cmd string, args any) error {
		a, _ := args.(*mgmt.ControlArgs)
		cs := c.cmdStr(nfdc.NfdMgmtCmd{Module: module, Cmd: cmd, Args: a})
		id, ok := c.inst[a]
		if !ok {
			id = len(c.inst) + 1
			c.inst[a] = id
			c.occ[cs]++
			// the fault pattern depends only on the command's content and on how often that content occurred, so a
			// replay hits the same commands whatever order Go's map iteration emits them in
			h := fnv.New64a()
			fmt.Fprintf(h, "%d|%s|%d", c.faultSeed, cs, c.occ[cs])
			r := h.Sum64() % 100
			k := 0
			switch {
			case cs == "o":
				k = 0
			case r < 72:
				k = 0
			case r < 88:
				k = 1
			case r < 97 || !c.perm:
				k = 2
			default:
				k = 7 // more than any retry budget: the command is dropped
			}
			c.failK[id] = k
		}
		c.tries[id]++
		if c.tries[id] <= c.failK[id] {
			c.attLog = append(c.attLog, fmt.Sprintf("%d|%s|F", id, cs))
			return fmt.Errorf("transient failure")
		}
		c.attLog = append(c.attLog, fmt.Sprintf("%d|%s|ok", id, cs))
		f := strings.Split(cs, ":")
		switch f[0] {
		case "R":
			v, _ := strconv.ParseUint(f[3], 10, 64)
			c.fwd[f[1]+":"+f[2]] = v
		case "U":
			delete(c.fwd, f[1]+":"+f[2])
		}
		return nil
	}
	go c.r.Vf19Nfdc().Start()
}

func (c *fibCase) stopExecutor() {
	if c.execMode {
		synctest.Wait()
		c.r.Vf19Nfdc().Stop()
		synctest.Wait()
	}
}

// settle lets the executor drain its queue (virtual time) and reports every ExecMgmtCmd call since the last settle and
// the stand-in forwarder's route table.
func (c *fibCase) settle() {
	for i := 0; i < 2000; i++ { // virtual time: until the executor has emptied its queue (1 ms per call, 100 ms per failure)
		time.Sleep(10 * time.Second)
		synctest.Wait()
		if c.r.Vf19Nfdc().Vf19QueueLen() == 0 {
			break
		}
	}
	time.Sleep(5 * time.Second) // the command taken last may still be retried
	synctest.Wait()
	att := "-"
	if len(c.attLog) > 0 {
		att = strings.Join(c.attLog, ",")
	}
	c.attLog = nil
	fmt.Fprintf(c.w, "obs attempts %s\n", att)
	var l []string
	for k, v := range c.fwd {
		l = append(l, fmt.Sprintf("%s:%d", k, v))
	}
	sort.Strings(l)
	t := "-"
	if len(l) > 0 {
		t = strings.Join(l, ",")
	}
	fmt.Fprintf(c.w, "obs fwd %s\n", t)
}

func genFibCase(w *bufio.Writer, rng *rand.Rand, k int, budget int) []string {
	c := newFibCase(w, rng.Int63())
	hdr := fmt.Sprintf("case fib %d", k)
	exec := rng.Intn(3) == 0
	if exec { // every third fib history runs the real executor with transient (sometimes permanent) faults
		seed, perm := uint64(rng.Int63()), rng.Intn(5) == 0
		p := 0
		if perm {
			p = 1
		}
		hdr = fmt.Sprintf("case fib %d x %d %d", k, seed, p)
		c.startExecutor(seed, perm)
		defer c.stopExecutor()
	}
	fmt.Fprintln(w, hdr)
	ops := []string{hdr}
	do := func(op string) { ops = append(ops, op); c.exec(op) }
	nR := len(c.routers)
	faces := []uint64{101, 102, 103, 103, 104, 0}
	nbrs := []int{1, 2, 3} // usual neighbours (indexes into routers); sometimes others
	pickNbr := func() int {
		if rng.Intn(8) == 0 {
			return 1 + rng.Intn(nR-1)
		}
		return nbrs[rng.Intn(len(nbrs))]
	}
	// a plausible start: neighbours with faces
	for _, n := range nbrs {
		if rng.Intn(6) != 0 {
			do(fmt.Sprintf("nadd %d", n))
			do(fmt.Sprintf("nping %d %d %d", n, faces[rng.Intn(4)], rng.Intn(2)))
		}
	}
	costs := []uint64{1, 1, 2, 2, 3, 4, 5, 15, 15, 16, 17, 0}
	for i := 0; i < budget; i++ {
		r := rng.Intn(100)
		switch {
		case r < 34:
			dest := rng.Intn(nR) // may be "me"
			do(fmt.Sprintf("rset %d %d %d", dest, pickNbr(), costs[rng.Intn(len(costs))]))
		case r < 38:
			do("rprune")
		case r < 41:
			do(fmt.Sprintf("rremnh %d", pickNbr()))
		case r < 45:
			do(fmt.Sprintf("nadd %d", pickNbr()))
		case r < 55:
			do(fmt.Sprintf("nping %d %d %d", pickNbr(), faces[rng.Intn(len(faces))], rng.Intn(2)))
		case r < 58:
			do(fmt.Sprintf("nrem %d", pickNbr()))
		case r < 76:
			router := rng.Intn(nR)
			reset := 0
			if rng.Intn(8) == 0 {
				reset = 1
			}
			pick := func(max int) string {
				n := rng.Intn(max + 1)
				if n == 0 {
					return "-"
				}
				var l []string
				for j := 0; j < n; j++ {
					l = append(l, strconv.Itoa(rng.Intn(len(c.pfxs))))
				}
				return strings.Join(l, ",")
			}
			adds, rems := pick(3), "-"
			if rng.Intn(3) == 0 {
				rems = pick(2)
			}
			do(fmt.Sprintf("papply %d %d %s %s", router, reset, adds, rems))
		default:
			if !exec && rng.Intn(12) == 0 {
				do(fmt.Sprintf("burst %d", rng.Intn(4))) // queue (almost) full, consumer stalled
			} else {
				do("fu")
			}
			if exec && rng.Intn(3) == 0 {
				do("settle")
			}
		}
	}
	do("fu")
	if exec {
		do("settle")
	}
	fmt.Fprintln(w, "end")
	return ops
}

func replayFibCase(w *bufio.Writer, ops []string) {
	h := strings.Fields(ops[0])
	c := newFibCase(w, 7)
	if len(h) >= 6 && h[3] == "x" {
		seed, _ := strconv.ParseUint(h[4], 10, 64)
		c.startExecutor(seed, h[5] == "1")
		defer c.stopExecutor()
		fmt.Fprintf(w, "case fib %s x %s %s\n", h[2], h[4], h[5])
	} else {
		fmt.Fprintf(w, "case fib %s\n", h[2])
	}
	for _, op := range ops[1:] {
		if op == "" || op == "end" {
			continue
		}
		c.exec(op)
	}
	fmt.Fprintln(w, "end")
}
