// Behavioural probes of the two snapshot-threshold tests and compiler-evaluated constants (TestProbe, output VERIF_OUT).
// The checks derive / cross-check coq/DvFib/GenConsts.v from this table, so that the translation does not depend on how
// the Go source spells the tests (identifier names, helpers, named constants).
//
//	const <name> <value>
//	pub <snapshotAt> <seq> <0|1>      publishOp with pt.snapshotAt = snapshotAt, new sequence number seq: snapshot published?
//	fetch <latest> <known> <0|1>      prefixDataFetch with router.Latest / router.Known: snapshot requested (1) or the next op (0)
package dvfib

import (
	"bufio"
	"fmt"
	"os"
	"sort"
	"testing"
	"testing/synctest"

	"github.com/named-data/ndnd/dv/config"
	"github.com/named-data/ndnd/dv/dv"
	"github.com/named-data/ndnd/dv/table"
	"github.com/named-data/ndnd/std/log"
	ndn_sync "github.com/named-data/ndnd/std/sync"
)

func probePub(snapAt, seq uint64) int {
	cfg := mkConfig("/net/pub")
	eng := newFakeEngine(1)
	svs := ndn_sync.NewSvSync(eng, cfg.PrefixTableSyncPrefix(), func(ndn_sync.SvSyncUpdate) {})
	if seq-1 > 0 {
		svs.SetSeqNo(cfg.RouterName(), seq-1)
	}
	pt := table.NewPrefixTable(cfg, eng, svs)
	before := pt.Vf19RepoLen()
	pt.Vf19SetSnapshotAt(snapAt)
	pt.Announce(mustName("/probe"))
	if pt.Vf19Me().Latest != seq {
		return -1
	}
	switch pt.Vf19RepoLen() - before {
	case 1:
		return 0 // only the op was stored
	case 2:
		return 1 // op + a new snapshot packet
	}
	return -1
}

func TestProbe(t *testing.T) {
	log.SetLevel(log.FatalLevel)
	out := os.Getenv("VERIF_OUT")
	if out == "" {
		out = "/dev/null"
	}
	f, err := os.Create(out)
	if err != nil {
		t.Fatal(err)
	}
	defer f.Close()
	w := bufio.NewWriter(f)
	defer w.Flush()
	synctest.Test(t, func(t *testing.T) {
		cs := table.Vf19Consts()
		var names []string
		for k := range cs {
			names = append(names, k)
		}
		sort.Strings(names)
		for _, k := range names {
			fmt.Fprintf(w, "const %s %d\n", k, cs[k])
		}
		// publisher: snapshots 0..320 behind the new number, 1..320 ahead of it, and far away
		const seq = uint64(100000)
		for d := uint64(0); d <= 320; d++ {
			fmt.Fprintf(w, "pub %d %d %d\n", seq-d, seq, probePub(seq-d, seq))
		}
		for d := uint64(1); d <= 320; d++ {
			fmt.Fprintf(w, "pub %d %d %d\n", seq+d, seq, probePub(seq+d, seq))
		}
		for _, s := range []uint64{0, 1, seq / 2, seq + 5000, 1 << 40, 1<<63 - 1, 1 << 63, 1<<64 - 1} {
			fmt.Fprintf(w, "pub %d %d %d\n", s, seq, probePub(s, seq))
		}
		// fetcher
		cfg := config.DefaultConfig()
		cfg.Network = "/net"
		cfg.Router = "/net/peer"
		eng := newFakeEngine(2)
		r, err := dv.NewRouter(cfg, eng)
		if err != nil {
			t.Fatal(err)
		}
		pubCfg := mkConfig("/net/pub")
		pub := pubCfg.RouterName()
		r.Vf19Locked(func() { r.Vf19Rib().Set(pub, mustName("/net/nb"), 1) })
		probeFetch := func(latest, known uint64) int {
			r.Vf19Locked(func() {
				rec := r.Vf19Pfx().GetRouter(pub)
				rec.Known, rec.Latest, rec.Fetching = known, latest, false
			})
			eng.takePending(pubCfg.PrefixTableDataPrefix())
			r.Vf19PrefixDataFetch(pub)
			synctest.Wait()
			ps := eng.takePending(pubCfg.PrefixTableDataPrefix())
			if len(ps) != 1 {
				return -1
			}
			nm := ps[0].interest.FinalName
			if string(nm[len(nm)-1].Val) == "SNAP" {
				return 1
			}
			return 0
		}
		const known = uint64(50000)
		for g := uint64(1); g <= 320; g++ {
			fmt.Fprintf(w, "fetch %d %d %d\n", known+g, known, probeFetch(known+g, known))
		}
		for _, p := range [][2]uint64{{1, 0}, {100, 0}, {101, 0}, {102, 0}, {1 << 40, 0}, {1<<64 - 1, 0}, {1<<64 - 1, 1<<64 - 2}, {1<<64 - 1, 1 << 63}, {1 << 63, 5}} {
			fmt.Fprintf(w, "fetch %d %d %d\n", p[0], p[1], probeFetch(p[0], p[1]))
		}
	})
}
