// C19 harness, integrated half (kind "net"): one real dv.Router whose tables change only through its real event
// handlers — advertisement sync Interests from neighbours (advertSyncOnInterest: neighbour creation, face changes),
// advertisement Data (advertDataHandler -> ribUpdate), dead-neighbour checks under virtual time, prefix sync updates
// and prefix Data fetched from real remote PrefixTables (processPrefixData -> Apply). The router itself decides when
// to run fibUpdate. After every operation (at quiescence) the tables are dumped and the nfdc queue drained: the
// route table folded from all commands must equal the from-scratch `desired` of the dumped tables.
package dvfib

import (
	"bufio"
	"fmt"
	"math/rand"
	"sort"
	"strconv"
	"strings"
	"testing/synctest"
	"time"

	"github.com/named-data/ndnd/dv/config"
	"github.com/named-data/ndnd/dv/table"
	"github.com/named-data/ndnd/dv/tlv"
	enc "github.com/named-data/ndnd/std/encoding"
	"github.com/named-data/ndnd/std/ndn"
	spec "github.com/named-data/ndnd/std/ndn/spec_2022"
	svs_2024 "github.com/named-data/ndnd/std/ndn/svs_2024"
	"github.com/named-data/ndnd/std/security"
	ndn_sync "github.com/named-data/ndnd/std/sync"
	"github.com/named-data/ndnd/std/utils"
)

type remotePub struct {
	cfg *config.Config
	pt  *table.PrefixTable
}

type netCase struct {
	*fibCase
	advSeq map[int]uint64
	pubs   map[int]*remotePub
}

func quiesce() {
	for i := 0; i < 3; i++ {
		synctest.Wait()
		time.Sleep(12 * time.Millisecond)
	}
	synctest.Wait()
}

func newNetCase(w *bufio.Writer, seed int64) *netCase {
	c := &netCase{fibCase: newFibCase(w, seed), advSeq: map[int]uint64{}, pubs: map[int]*remotePub{}}
	// what Router.Start does before its loop
	c.r.Vf19Locked(func() { c.r.Vf19Rib().Set(c.cfg.RouterName(), c.cfg.RouterName(), 0) })
	return c
}

func (c *netCase) pub(i int) *remotePub {
	if p, ok := c.pubs[i]; ok {
		return p
	}
	cfg := mkConfig(routerPoolStr[i])
	eng := newFakeEngine(int64(i) + 100)
	svs := ndn_sync.NewSvSync(eng, cfg.PrefixTableSyncPrefix(), func(ndn_sync.SvSyncUpdate) {})
	svs.SetSeqNo(cfg.RouterName(), uint64(1000*i+500))
	p := &remotePub{cfg: cfg, pt: table.NewPrefixTable(cfg, eng, svs)}
	c.pubs[i] = p
	return p
}

func advPrefix(n enc.Name) enc.Name {
	return append(config.Localhop.Clone(), append(n.Clone(),
		enc.NewStringComponent(enc.TypeKeywordNameComponent, "DV"),
		enc.NewStringComponent(enc.TypeKeywordNameComponent, "ADV"))...)
}

// obsPfxSync: for every remote publisher, what we hold for it against what it really announces
func (c *netCase) obsPfxSync() {
	var idx []int
	for i := range c.pubs {
		idx = append(idx, i)
	}
	sort.Ints(idx)
	for _, i := range idx {
		p := c.pubs[i]
		var mine, theirs []int
		known := uint64(0)
		c.r.Vf19Locked(func() {
			if rec := c.r.Vf19Pfx().Vf19Peek(p.cfg.RouterName()); rec != nil {
				known = rec.Known
				for _, e := range rec.Prefixes {
					mine = append(mine, c.in.id(e.Name))
				}
			}
		})
		for _, e := range p.pt.Vf19Me().Prefixes {
			theirs = append(theirs, c.in.id(e.Name))
		}
		fmt.Fprintf(c.w, "obs pfxsync %d %d %d %s %s\n", c.in.id(p.cfg.RouterName()), known, p.pt.Vf19Me().Latest, idsCSV(mine), idsCSV(theirs))
	}
}

func (c *netCase) observe() {
	c.obsPfxSync()
	c.dumpTables()
	fmt.Fprintln(c.w, "go net")
	fmt.Fprintf(c.w, "obs cmds %s\n", c.drain())
	c.obsFib()
}

func (c *netCase) exec(op string) {
	c.reportCollisions()
	fmt.Fprintf(c.w, "op %s\n", op)
	f := strings.Fields(op)
	atoi := func(s string) int { v, _ := strconv.Atoi(s); return v }
	u64 := func(s string) uint64 { v, _ := strconv.ParseUint(s, 10, 64); return v }
	switch f[0] {
	case "sync": // sync n face active new|same
		n := atoi(f[1])
		if f[4] == "new" || c.advSeq[n] == 0 {
			c.advSeq[n]++
		}
		active := f[3] == "1"
		pfx := c.cfg.AdvertisementSyncPassivePrefix()
		if active {
			pfx = c.cfg.AdvertisementSyncActivePrefix()
		}
		sv := &svs_2024.StateVectorAppParam{StateVector: &svs_2024.StateVector{
			Entries: []*svs_2024.StateVectorEntry{{NodeId: c.routers[n], SeqNo: c.advSeq[n]}}}}
		iv, err := spec.Spec{}.MakeInterest(append(pfx.Clone(), enc.NewVersionComponent(2)),
			&ndn.InterestConfig{MustBeFresh: true, Lifetime: utils.IdPtr(time.Millisecond), Nonce: utils.ConvertNonce(c.eng.timer.Nonce())},
			sv.Encode(), nil)
		if err != nil {
			panic(err)
		}
		i, _, err := spec.Spec{}.ReadInterest(enc.NewWireReader(iv.Wire))
		if err != nil {
			panic(err)
		}
		face := u64(f[2])
		c.r.Vf19AdvertSyncOnInterest(ndn.InterestHandlerArgs{Interest: i, RawInterest: iv.Wire, IncomingFaceId: &face}, active)
	case "adv", "advtmo": // adv n dest:nexthop:cost:other,...
		n := atoi(f[1])
		ps := c.eng.takePending(advPrefix(c.routers[n]))
		for _, p := range ps { // normally exactly one
			if f[0] == "advtmo" {
				p.cb(ndn.ExpressCallbackArgs{Result: ndn.InterestResultTimeout})
				continue
			}
			adv := &tlv.Advertisement{}
			if f[2] != "-" {
				for _, e := range strings.Split(f[2], ",") {
					x := strings.Split(e, ":")
					adv.Entries = append(adv.Entries, &tlv.AdvEntry{
						Destination: &tlv.Destination{Name: c.routers[atoi(x[0])]},
						NextHop:     &tlv.Destination{Name: c.routers[atoi(x[1])]},
						Cost:        u64(x[2]), OtherCost: u64(x[3])})
				}
			}
			d, err := spec.Spec{}.MakeData(p.interest.FinalName, &ndn.DataConfig{ContentType: utils.IdPtr(ndn.ContentTypeBlob),
				Freshness: utils.IdPtr(10 * time.Second)}, adv.Encode(), security.NewSha256Signer())
			if err != nil {
				panic(err)
			}
			w := enc.Wire{d.Wire.Join()}
			_, data, sc := dataSeq(w)
			p.cb(ndn.ExpressCallbackArgs{Result: ndn.InterestResultData, Data: data, RawData: w, SigCovered: sc})
		}
		if f[0] == "advtmo" {
			synctest.Wait()
			time.Sleep(150 * time.Millisecond)
		}
	case "lateupd": // lateupd n entries: an advertisement is stored and its ribUpdate(ns) is still waiting for the router
		// mutex when the dead-neighbour check removes that neighbour; then the pending ribUpdate runs on the old state object
		n := atoi(f[1])
		var ns *table.NeighborState
		c.r.Vf19Locked(func() {
			ns = c.r.Vf19Neighbors().Get(c.routers[n])
			if ns == nil {
				return
			}
			adv := &tlv.Advertisement{}
			if f[2] != "-" {
				for _, e := range strings.Split(f[2], ",") {
					x := strings.Split(e, ":")
					adv.Entries = append(adv.Entries, &tlv.AdvEntry{
						Destination: &tlv.Destination{Name: c.routers[atoi(x[0])]},
						NextHop:     &tlv.Destination{Name: c.routers[atoi(x[1])]},
						Cost:        u64(x[2]), OtherCost: u64(x[3])})
				}
			}
			ns.Advert = adv // what advertDataHandler does before `go dv.ribUpdate(ns)`
		})
		if ns != nil {
			time.Sleep(31 * time.Second) // the neighbour (and every other silent one) is now dead
			c.r.Vf19CheckDeadNeighbors()
			quiesce()
			c.r.Vf19RibUpdate(ns) // the goroutine spawned by advertDataHandler finally gets the mutex
		}
	case "sleep":
		time.Sleep(time.Duration(atoi(f[1])) * time.Millisecond)
	case "deadcheck":
		c.r.Vf19CheckDeadNeighbors()
	case "pa", "pw": // a publisher never announces a nameless prefix (readvertise rejects it): nil stands for "/" here
		n := c.pfxs[atoi(f[2])]
		if n == nil {
			n = enc.Name{}
		}
		if f[0] == "pa" {
			c.pub(atoi(f[1])).pt.Announce(n)
		} else {
			c.pub(atoi(f[1])).pt.Withdraw(n)
		}
	case "pclear": // pclear router n: n announce/withdraw pairs that leave the set as it is, then withdraw everything
		p := c.pub(atoi(f[1]))
		q := c.pfxs[len(c.pfxs)-1]
		for i := 0; i < atoi(f[2]); i++ {
			if p.pt.Vf19Me().Prefixes[q.Hash()] == nil {
				p.pt.Announce(q)
				p.pt.Withdraw(q)
			} else {
				p.pt.Withdraw(q)
				p.pt.Announce(q)
			}
		}
		var all []enc.Name
		for _, e := range p.pt.Vf19Me().Prefixes {
			all = append(all, e.Name)
		}
		for _, n := range all {
			p.pt.Withdraw(n)
		}
	case "prestart": // the remote router restarts: empty set, sequence number far ahead, fresh (reset-only) snapshot
		i := atoi(f[1])
		old := c.pub(i)
		cfg := mkConfig(routerPoolStr[i])
		eng := newFakeEngine(int64(i) + 200)
		svs := ndn_sync.NewSvSync(eng, cfg.PrefixTableSyncPrefix(), func(ndn_sync.SvSyncUpdate) {})
		svs.SetSeqNo(cfg.RouterName(), old.pt.Vf19Me().Latest+1000)
		c.pubs[i] = &remotePub{cfg: cfg, pt: table.NewPrefixTable(cfg, eng, svs)}
	case "psync":
		p := c.pub(atoi(f[1]))
		c.r.Vf19OnPfxSyncUpdate(ndn_sync.SvSyncUpdate{NodeId: p.cfg.RouterName(), High: p.pt.Vf19Me().Latest})
	case "pfetch": // pfetch router [all]
		p := c.pub(atoi(f[1]))
		max := 1
		if len(f) > 2 {
			max = 400
		}
		for k := 0; k < max; k++ {
			quiesce()
			ps := c.eng.takePending(p.cfg.PrefixTableDataPrefix())
			if len(ps) == 0 {
				break
			}
			for _, x := range ps {
				i, _, err := spec.Spec{}.ReadInterest(enc.NewWireReader(x.interest.Wire))
				if err != nil {
					panic(err)
				}
				var got enc.Wire
				p.pt.OnDataInterest(ndn.InterestHandlerArgs{Interest: i, Reply: func(w enc.Wire) error { got = w; return nil }})
				if got == nil {
					x.cb(ndn.ExpressCallbackArgs{Result: ndn.InterestResultTimeout})
					synctest.Wait()
					time.Sleep(150 * time.Millisecond)
					continue
				}
				w := enc.Wire{got.Join()}
				_, data, sc := dataSeq(w)
				x.cb(ndn.ExpressCallbackArgs{Result: ndn.InterestResultData, Data: data, RawData: w, SigCovered: sc})
			}
		}
	case "fu":
		c.r.Vf19FibUpdate()
	default:
		panic("bad op " + op)
	}
	quiesce()
	c.observe()
}

func genNetCase(w *bufio.Writer, rng *rand.Rand, k int, budget int) []string {
	c := newNetCase(w, rng.Int63())
	hdr := fmt.Sprintf("case net %d", k)
	fmt.Fprintln(w, hdr)
	ops := []string{hdr}
	do := func(op string) { ops = append(ops, op); c.exec(op) }
	nR := len(c.routers)
	nbrs := []int{1, 2, 3}
	if rng.Intn(3) == 0 {
		nbrs = []int{1, 2}
	}
	faceOf := map[int]uint64{}
	faces := []uint64{201, 202, 203, 203, 204}
	pickNbr := func() int { return nbrs[rng.Intn(len(nbrs))] }
	advert := func(n int) string {
		var es []string
		for d := 0; d < nR; d++ {
			if rng.Intn(4) == 0 {
				continue
			}
			cost := []int{0, 1, 1, 1, 2, 2, 2, 3, 3, 5, 14, 15, 16}[rng.Intn(13)]
			if d == n {
				cost = 0
			}
			nh := rng.Intn(nR) // 0 = me: poison reverse branch
			other := []int{1, 2, 3, 7, 16, 16}[rng.Intn(6)]
			es = append(es, fmt.Sprintf("%d:%d:%d:%d", d, nh, cost, other))
		}
		if len(es) == 0 {
			return "-"
		}
		return strings.Join(es, ",")
	}
	have := map[int]map[int]bool{}
	pendingAdv := map[int]bool{}
	doSync := func(n int, forceNew bool) {
		face, ok := faceOf[n]
		if !ok || rng.Intn(5) == 0 { // first contact or face change
			face = faces[rng.Intn(len(faces))]
			faceOf[n] = face
		}
		kind := "new"
		if !forceNew && rng.Intn(3) == 0 {
			kind = "same"
		}
		if kind == "new" || !ok {
			pendingAdv[n] = true
		}
		do(fmt.Sprintf("sync %d %d %d %s", n, face, rng.Intn(2), kind))
	}
	for i := 0; i < budget; i++ {
		r := rng.Intn(100)
		switch {
		case r < 18:
			n := pickNbr()
			doSync(n, false)
			if pendingAdv[n] && rng.Intn(10) < 7 {
				do(fmt.Sprintf("adv %d %s", n, advert(n)))
				delete(pendingAdv, n)
			}
		case r < 36:
			n := pickNbr()
			if !pendingAdv[n] {
				doSync(n, true)
			}
			do(fmt.Sprintf("adv %d %s", n, advert(n)))
			delete(pendingAdv, n)
		case r < 37:
			do(fmt.Sprintf("advtmo %d", pickNbr()))
		case r < 38: // teardown racing an in-flight advertisement
			n := pickNbr()
			if _, ok := faceOf[n]; !ok {
				doSync(n, true)
			}
			do(fmt.Sprintf("lateupd %d %s", n, advert(n)))
			faceOf = map[int]uint64{} // everybody silent for 31 s is gone
			pendingAdv = map[int]bool{}
		case r < 44:
			do(fmt.Sprintf("sleep %d", []int{1000, 9000, 16000, 31000}[rng.Intn(4)]))
		case r < 50:
			do("deadcheck")
		case r < 80: // a remote router changes what it announces; usually we hear about it and fetch
			router := 1 + rng.Intn(nR-1)
			if have[router] == nil {
				have[router] = map[int]bool{}
			}
			var cur []int
			for x := range have[router] {
				cur = append(cur, x)
			}
			sort.Ints(cur)
			if len(cur) > 0 && rng.Intn(5) < 2 {
				x := cur[rng.Intn(len(cur))]
				delete(have[router], x)
				do(fmt.Sprintf("pw %d %d", router, x))
			} else {
				x := rng.Intn(len(c.pfxs))
				have[router][x] = true
				do(fmt.Sprintf("pa %d %d", router, x))
			}
			if rng.Intn(5) != 0 {
				do(fmt.Sprintf("psync %d", router))
				if rng.Intn(6) != 0 {
					do(fmt.Sprintf("pfetch %d all", router))
				}
			}
		case r < 83: // everything withdrawn during a long gap, or a restart: the next fetch is a reset-only snapshot
			router := 1 + rng.Intn(nR-1)
			if len(have[router]) == 0 || rng.Intn(4) == 0 {
				// make sure there is something to lose, and that we hold it
				x := rng.Intn(len(c.pfxs))
				if have[router] == nil {
					have[router] = map[int]bool{}
				}
				have[router][x] = true
				do(fmt.Sprintf("pa %d %d", router, x))
				do(fmt.Sprintf("psync %d", router))
				do(fmt.Sprintf("pfetch %d all", router))
			}
			if rng.Intn(3) == 0 {
				do(fmt.Sprintf("prestart %d", router))
			} else {
				do(fmt.Sprintf("pclear %d %d", router, []int{1, 49, 51, 60}[rng.Intn(4)]))
			}
			have[router] = map[int]bool{}
			if rng.Intn(6) != 0 {
				do(fmt.Sprintf("psync %d", router))
				do(fmt.Sprintf("pfetch %d all", router))
			}
		case r < 86:
			do(fmt.Sprintf("psync %d", 1+rng.Intn(nR-1)))
		case r < 97:
			if rng.Intn(2) == 0 {
				do(fmt.Sprintf("pfetch %d all", 1+rng.Intn(nR-1)))
			} else {
				do(fmt.Sprintf("pfetch %d", 1+rng.Intn(nR-1)))
			}
		default:
			do("fu")
		}
	}
	fmt.Fprintln(w, "end")
	return ops
}

func replayNetCase(w *bufio.Writer, ops []string) {
	h := strings.Fields(ops[0])
	c := newNetCase(w, 7)
	fmt.Fprintf(w, "case net %s\n", h[2])
	for _, op := range ops[1:] {
		if op == "" || op == "end" {
			continue
		}
		c.exec(op)
	}
	fmt.Fprintln(w, "end")
}
