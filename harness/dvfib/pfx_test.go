// C19 harness, prefix-log half: one real publisher (table.PrefixTable, standalone or inside a dv.Router) and
// several real peers (dv.Router over a fake engine). Every Interest a peer expresses for the publisher's prefix
// data is carried by the harness to the publisher's real OnDataInterest (or answered from a harness-held cache of
// earlier snapshot packets), the Data is carried back into the peer's real Express callback.
package dvfib

import (
	"bufio"
	"fmt"
	"math/rand"
	"sort"
	"strconv"
	"strings"
	"testing/synctest"
	"time"

	"github.com/named-data/ndnd/dv/config"
	"github.com/named-data/ndnd/dv/dv"
	"github.com/named-data/ndnd/dv/table"
	enc "github.com/named-data/ndnd/std/encoding"
	"github.com/named-data/ndnd/std/ndn"
	mgmt "github.com/named-data/ndnd/std/ndn/mgmt_2022"
	spec "github.com/named-data/ndnd/std/ndn/spec_2022"
	ndn_sync "github.com/named-data/ndnd/std/sync"
)

func mustName(s string) enc.Name {
	n, err := enc.NameFromStr(s)
	if err != nil {
		panic(err)
	}
	return n
}

func mkConfig(router string) *config.Config {
	c := config.DefaultConfig()
	c.Network = "/net"
	c.Router = router
	if err := c.Parse(); err != nil {
		panic(err)
	}
	return c
}

// pool of announced names: shared prefixes, one name equal to a router's own routing prefix
var pfxPoolStr = []string{"/a", "/a/b", "/a/32=b", "/a/b/c", "/a/c", "/b", "/b/1", "/net/x", "/net/pub/32=DV", "/c/%00", "/c/long/er/na/me", "/d", "/e", "/"}

type pfxPeer struct {
	r        *dv.Router
	eng      *fakeEngine
	inflight enc.Wire
	hasInfl  bool
	inflSeq  uint64
}

type pfxCase struct {
	w          *bufio.Writer
	pool       []enc.Name
	pubName    enc.Name
	pubCfg     *config.Config
	pubEng     *fakeEngine
	pubPT      *table.PrefixTable
	pubRtr     *dv.Router // non-nil when the publisher lives inside a dv.Router (kind "r")
	peers      map[int]*pfxPeer
	snapWire   map[uint64]enc.Wire // harness-side cache: snapshot packets seen at the SNAP pointer, by sequence number
	nbName     enc.Name
	seedBase   int64
	collisions []string // reported after the case header
}

func (c *pfxCase) poolID(n enc.Name) int {
	for i, p := range c.pool {
		if p.Equal(n) {
			return i + 1
		}
	}
	return 0
}

func idsCSV(ids []int) string {
	if len(ids) == 0 {
		return "-"
	}
	sort.Ints(ids)
	s := make([]string, len(ids))
	for i, x := range ids {
		s[i] = strconv.Itoa(x)
	}
	return strings.Join(s, ",")
}

func newPfxCase(w *bufio.Writer, s0 uint64, kind string, seed int64) *pfxCase {
	c := &pfxCase{w: w, peers: map[int]*pfxPeer{}, snapWire: map[uint64]enc.Wire{}, seedBase: seed}
	for _, s := range pfxPoolStr {
		c.pool = append(c.pool, mustName(s))
	}
	seen := map[uint64]string{}
	for _, n := range c.pool {
		if o, ok := seen[n.Hash()]; ok && o != n.String() {
			// the model assumes collision freedom on the universe: report, and go on (the tables will conflate the two)
			c.collisions = append(c.collisions, fmt.Sprintf("obs hashcollision %s %s", o, n.String()))
		}
		seen[n.Hash()] = n.String()
	}
	c.nbName = mustName("/net/nb")
	c.pubEng = newFakeEngine(seed)
	// a 3-component router name makes config.Parse's append leave spare capacity in the data prefix slice, so that
	// publishOp / publishSnap append in place into one shared backing array
	pubRouter := "/net/pub"
	if strings.HasSuffix(kind, "3") {
		pubRouter = "/net/site/pub"
		kind = strings.TrimSuffix(kind, "3")
	}
	if kind == "r" {
		cfg := config.DefaultConfig()
		cfg.Network = "/net"
		cfg.Router = pubRouter
		r, err := dv.NewRouter(cfg, c.pubEng)
		if err != nil {
			panic(err)
		}
		c.pubCfg = cfg
		c.pubPT = r.Vf19Pfx()
		c.pubRtr = r
	} else {
		c.pubCfg = mkConfig(pubRouter)
		svs := ndn_sync.NewSvSync(c.pubEng, c.pubCfg.PrefixTableSyncPrefix(), func(ndn_sync.SvSyncUpdate) {})
		if s0 > 0 {
			if err := svs.SetSeqNo(c.pubCfg.RouterName(), s0); err != nil {
				panic(err)
			}
		}
		c.pubPT = table.NewPrefixTable(c.pubCfg, c.pubEng, svs)
	}
	c.pubName = c.pubCfg.RouterName()
	return c
}

// ask the publisher's real OnDataInterest; returns the reply wire (nil if it does not answer)
func (c *pfxCase) askPublisher(interestWire enc.Wire) enc.Wire {
	i, _, err := spec.Spec{}.ReadInterest(enc.NewWireReader(interestWire))
	if err != nil {
		panic(err)
	}
	var got enc.Wire
	c.pubPT.OnDataInterest(ndn.InterestHandlerArgs{Interest: i, RawInterest: interestWire,
		Reply: func(w enc.Wire) error { got = w; return nil }})
	return got
}

// minimal ndn.Interest carrying only a name (readvertiseOnInterest reads nothing else)
type nameOnlyInterest struct{ name enc.Name }

func (i nameOnlyInterest) Name() enc.Name             { return i.name }
func (i nameOnlyInterest) CanBePrefix() bool          { return false }
func (i nameOnlyInterest) MustBeFresh() bool          { return false }
func (i nameOnlyInterest) ForwardingHint() []enc.Name { return nil }
func (i nameOnlyInterest) Nonce() *uint64             { return nil }
func (i nameOnlyInterest) Lifetime() *time.Duration   { return nil }
func (i nameOnlyInterest) HopLimit() *uint            { return nil }
func (i nameOnlyInterest) AppParam() enc.Wire         { return nil }
func (i nameOnlyInterest) Signature() ndn.Signature   { return nil }

func (c *pfxCase) readvertise(register bool, prefix enc.Name) {
	params := &mgmt.ControlParameters{Val: &mgmt.ControlArgs{Name: prefix}}
	verb := "unregister"
	if register {
		verb = "register"
	}
	name := append(c.pubCfg.ReadvertisePrefix().Clone(),
		enc.NewStringComponent(enc.TypeGenericNameComponent, "rib"),
		enc.NewStringComponent(enc.TypeGenericNameComponent, verb),
		enc.NewBytesComponent(enc.TypeGenericNameComponent, params.Encode().Join()),
		enc.NewBytesComponent(enc.TypeParametersSha256DigestComponent, make([]byte, 32)))
	replied := false
	c.pubRtr.Vf19ReadvertiseOnInterest(ndn.InterestHandlerArgs{Interest: nameOnlyInterest{name},
		Reply: func(w enc.Wire) error { replied = true; return nil }})
	if !replied {
		panic("readvertise handler did not reply")
	}
}

func dataSeq(wire enc.Wire) (uint64, ndn.Data, enc.Wire) {
	d, sc, err := spec.Spec{}.ReadData(enc.NewWireReader(wire))
	if err != nil {
		panic(err)
	}
	nm := d.Name()
	return nm[len(nm)-1].NumberVal(), d, sc
}

func (c *pfxCase) obsPub() {
	for _, l := range c.collisions {
		fmt.Fprintln(c.w, l)
	}
	c.collisions = nil
	me := c.pubPT.Vf19Me()
	var ids []int
	for _, e := range me.Prefixes {
		ids = append(ids, c.poolID(e.Name))
	}
	// what does the SNAP pointer designate now? (the harness acts as a cache and remembers the packet)
	snapName := append(c.pubCfg.PrefixTableDataPrefix().Clone(), enc.NewStringComponent(enc.TypeKeywordNameComponent, "SNAP"))
	iv, err := spec.Spec{}.MakeInterest(snapName, &ndn.InterestConfig{CanBePrefix: true, MustBeFresh: true}, nil, nil)
	if err != nil {
		panic(err)
	}
	ptr := "-"
	if w := c.askPublisher(iv.Wire); w != nil {
		s, _, _ := dataSeq(w)
		c.snapWire[s] = enc.Wire{w.Join()}
		ptr = strconv.FormatUint(s, 10)
	}
	if me.Known != me.Latest {
		ptr += "!known" // cannot happen: reported as a divergence
	}
	fmt.Fprintf(c.w, "obs pub %d %d %s %s\n", me.Latest, c.pubPT.Vf19SnapshotAt(), idsCSV(ids), ptr)
}

func (c *pfxCase) pendingOf(p *pfxPeer) (string, []expressed) {
	ps := p.eng.peekPending(c.pubCfg.PrefixTableDataPrefix())
	if len(ps) == 0 {
		return "-", ps
	}
	if len(ps) > 1 {
		return "multi", ps
	}
	nm := ps[0].interest.FinalName
	last := nm[len(nm)-1]
	if last.Typ == enc.TypeSequenceNumNameComponent {
		return "op:" + strconv.FormatUint(last.NumberVal(), 10), ps
	}
	if last.Typ == enc.TypeKeywordNameComponent && string(last.Val) == "SNAP" {
		return "snap", ps
	}
	return "other", ps
}

func (c *pfxCase) obsPeer(j int) {
	p := c.peers[j]
	known, latest, fetching := uint64(0), uint64(0), false
	var ids []int
	p.r.Vf19Locked(func() {
		if r := p.r.Vf19Pfx().Vf19Peek(c.pubName); r != nil {
			known, latest, fetching = r.Known, r.Latest, r.Fetching
			for _, e := range r.Prefixes {
				ids = append(ids, c.poolID(e.Name))
			}
		}
	})
	pend, _ := c.pendingOf(p)
	infl := "-"
	if p.hasInfl {
		infl = strconv.FormatUint(p.inflSeq, 10)
	}
	f := 0
	if fetching {
		f = 1
	}
	p.r.Vf19Nfdc().Vf19Drain()
	fmt.Fprintf(c.w, "obs peer %d %d %d %d %s %s %s\n", j, known, latest, f, pend, infl, idsCSV(ids))
}

// resolve turns the symbolic last argument of jsync / ans into a number:
//
//	jsync j c+K | c-K | =V     (c = the publisher's current sequence number)
//	ans j - | sK                (sK = the K-th most recent snapshot packet the harness cache has seen, s0 = newest)
//
// Symbolic forms keep a recorded history meaningful when operations are removed from it (shrinking).
func (c *pfxCase) resolve(f []string) string {
	switch f[0] {
	case "jsync":
		cur := c.pubPT.Vf19Me().Latest
		a := f[2]
		switch {
		case strings.HasPrefix(a, "c+"):
			k, _ := strconv.ParseUint(a[2:], 10, 64)
			return strconv.FormatUint(cur+k, 10)
		case strings.HasPrefix(a, "c-"):
			k, _ := strconv.ParseUint(a[2:], 10, 64)
			if k > cur {
				k = cur
			}
			return strconv.FormatUint(cur-k, 10)
		case strings.HasPrefix(a, "="):
			return a[1:]
		}
		return a
	case "ans":
		if strings.HasPrefix(f[2], "s") {
			var l []uint64
			for s := range c.snapWire {
				l = append(l, s)
			}
			sort.Slice(l, func(a, b int) bool { return l[a] > l[b] })
			k, _ := strconv.Atoi(f[2][1:])
			if len(l) == 0 {
				return "0"
			}
			if k >= len(l) {
				k = len(l) - 1
			}
			return strconv.FormatUint(l[k], 10)
		}
		return "-"
	}
	return ""
}

// exec runs one operation against the implementation and writes the op line and the observations after it.
func (c *pfxCase) exec(op string) {
	f := strings.Fields(op)
	if f[0] == "jsync" || f[0] == "ans" {
		f = append(f[:3:3], c.resolve(f))
		fmt.Fprintf(c.w, "op %s %s\n", op, f[3])
	} else {
		fmt.Fprintf(c.w, "op %s\n", op)
	}
	atoi := func(s string) int { v, _ := strconv.Atoi(s); return v }
	switch f[0] {
	case "ra", "rw": // the same through the readvertise handler (/localhost/nlsr/rib/(un)register/<params>/<digest>)
		if c.pubRtr == nil {
			if f[0] == "ra" {
				c.pubPT.Announce(c.pool[atoi(f[1])-1])
			} else {
				c.pubPT.Withdraw(c.pool[atoi(f[1])-1])
			}
		} else {
			c.readvertise(f[0] == "ra", c.pool[atoi(f[1])-1])
		}
		synctest.Wait()
		c.obsPub()
		return
	case "pa":
		c.pubPT.Announce(c.pool[atoi(f[1])-1])
		synctest.Wait()
		c.obsPub()
		return
	case "pw":
		c.pubPT.Withdraw(c.pool[atoi(f[1])-1])
		synctest.Wait()
		c.obsPub()
		return
	}
	j := atoi(f[1])
	switch f[0] {
	case "jnew":
		eng := newFakeEngine(c.seedBase + int64(j) + 1)
		cfg := config.DefaultConfig()
		cfg.Network = "/net"
		cfg.Router = fmt.Sprintf("/net/peer%d", j)
		r, err := dv.NewRouter(cfg, eng)
		if err != nil {
			panic(err)
		}
		c.peers[j] = &pfxPeer{r: r, eng: eng}
	case "jreach":
		p := c.peers[j]
		cost := uint64(1)
		if f[2] == "0" {
			cost = config.CostInfinity
		}
		p.r.Vf19Locked(func() { p.r.Vf19Rib().Set(c.pubName, c.nbName, cost) })
	case "jsync":
		v, _ := strconv.ParseUint(f[3], 10, 64)
		c.peers[j].r.Vf19OnPfxSyncUpdate(ndn_sync.SvSyncUpdate{NodeId: c.pubName, High: v, Low: 0})
	case "jkick":
		c.peers[j].r.Vf19PrefixDataFetch(c.pubName)
	case "ans":
		p := c.peers[j]
		pend, ps := c.pendingOf(p)
		var w enc.Wire
		switch {
		case strings.HasPrefix(pend, "op:"):
			w = c.askPublisher(ps[0].interest.Wire)
		case pend == "snap" && f[3] == "-":
			w = c.askPublisher(ps[0].interest.Wire)
		case pend == "snap":
			s, _ := strconv.ParseUint(f[3], 10, 64)
			w = c.snapWire[s] // nil if the cache never saw it
		}
		if w != nil {
			s, _, _ := dataSeq(w)
			p.inflight, p.hasInfl, p.inflSeq = enc.Wire{w.Join()}, true, s
		}
	case "del":
		p := c.peers[j]
		if _, ps := c.pendingOf(p); len(ps) == 1 && p.hasInfl {
			p.eng.takePending(c.pubCfg.PrefixTableDataPrefix())
			_, d, sc := dataSeq(p.inflight)
			w := p.inflight
			p.inflight, p.hasInfl = nil, false
			ps[0].cb(ndn.ExpressCallbackArgs{Result: ndn.InterestResultData, Data: d, RawData: w, SigCovered: sc})
		}
	case "tmo":
		p := c.peers[j]
		if _, ps := c.pendingOf(p); len(ps) == 1 {
			p.eng.takePending(c.pubCfg.PrefixTableDataPrefix())
			p.inflight, p.hasInfl = nil, false
			res := ndn.InterestResultTimeout
			if len(f) > 2 && f[2] == "nack" {
				res = ndn.InterestResultNack
			}
			ps[0].cb(ndn.ExpressCallbackArgs{Result: res})
			synctest.Wait()
			time.Sleep(2500 * time.Millisecond)
		}
	default:
		panic("bad op " + op)
	}
	synctest.Wait()
	c.obsPeer(j)
}

// genPfxCase generates and executes one case online (the generator looks at the implementation's sequence number
// only to pick realistic sync values; all choices come from rng).
func genPfxCase(w *bufio.Writer, rng *rand.Rand, k int, budget int) []string {
	s0s := []uint64{0, 0, 0, 1, 57, 99, 100, 101, 1000, 1 << 40}
	kind := "t"
	s0 := s0s[rng.Intn(len(s0s))]
	if rng.Intn(5) == 0 {
		kind = "r"
	}
	if rng.Intn(3) == 0 {
		kind += "3"
	}
	c := newPfxCase(w, s0, kind, rng.Int63())
	s0 = c.pubPT.Vf19Me().Latest
	var ops []string
	hdr := fmt.Sprintf("case pfx %d %d %s", k, s0, kind)
	fmt.Fprintln(w, hdr)
	ops = append(ops, hdr)
	c.obsPub()
	do := func(op string) {
		if strings.HasPrefix(kind, "r") && (strings.HasPrefix(op, "pa ") || strings.HasPrefix(op, "pw ")) && rng.Intn(2) == 0 {
			op = "r" + op[1:] // through the readvertise Interest handler
		}
		ops = append(ops, op)
		c.exec(op)
	}
	nPeers := 1 + rng.Intn(3)
	created := 0
	inSet := map[int]bool{}
	pubOp := func() {
		n := 1 + rng.Intn(len(c.pool))
		r := rng.Intn(10)
		switch {
		case r < 3: // possibly a no-op
			if rng.Intn(2) == 0 {
				inSet[n] = true
				do(fmt.Sprintf("pa %d", n))
			} else {
				delete(inSet, n)
				do(fmt.Sprintf("pw %d", n))
			}
		default: // guaranteed change
			if inSet[n] {
				delete(inSet, n)
				do(fmt.Sprintf("pw %d", n))
			} else {
				inSet[n] = true
				do(fmt.Sprintf("pa %d", n))
			}
		}
	}
	curSeq := func() uint64 { return c.pubPT.Vf19Me().Latest }
	snapSeqs := func() []uint64 {
		var l []uint64
		for s := range c.snapWire {
			l = append(l, s)
		}
		sort.Slice(l, func(a, b int) bool { return l[a] < l[b] })
		return l
	}
	steps := 0
	for steps < budget {
		steps++
		r := rng.Intn(100)
		switch {
		case created == 0 || (created < nPeers && r < 4):
			// a late joiner starts here, after an arbitrary prefix of the publisher's history
			created++
			do(fmt.Sprintf("jnew %d", created))
			if rng.Intn(8) != 0 {
				do(fmt.Sprintf("jreach %d 1", created))
			}
		case r < 30:
			pubOp()
		case r < 36: // burst around the snapshot threshold
			n := []int{3, 20, 98, 99, 100, 101, 102, 130, 205}[rng.Intn(9)]
			for i := 0; i < n; i++ {
				pubOp()
			}
			steps += n / 4
		default:
			j := 1 + rng.Intn(created)
			q := rng.Intn(100)
			switch {
			case q < 22:
				v := "c+0"
				z := rng.Intn(20)
				switch {
				case z == 0:
					v = "=0"
				case z == 1:
					v = fmt.Sprintf("c+%d", 1+rng.Intn(120))
				case z == 2 && curSeq() > s0:
					v = fmt.Sprintf("c-%d", rng.Int63n(int64(curSeq()-s0)+1))
				case z == 3:
					v = fmt.Sprintf("=%d", rng.Intn(300))
				}
				do(fmt.Sprintf("jsync %d %s", j, v))
			case q < 26:
				if rng.Intn(4) == 0 {
					do(fmt.Sprintf("jreach %d 0", j))
				} else {
					do(fmt.Sprintf("jreach %d 1", j))
				}
			case q < 30:
				do(fmt.Sprintf("jkick %d", j))
			case q < 55:
				if ss := snapSeqs(); len(ss) > 0 && rng.Intn(6) == 0 {
					do(fmt.Sprintf("ans %d s%d", j, rng.Intn(len(ss))))
				} else {
					do(fmt.Sprintf("ans %d -", j))
				}
			case q < 80:
				do(fmt.Sprintf("del %d", j))
			case q < 86:
				if rng.Intn(3) == 0 {
					do(fmt.Sprintf("tmo %d nack", j))
				} else {
					do(fmt.Sprintf("tmo %d", j))
				}
			default: // catch up completely: sync to the current number, then answer/deliver until quiet
				do(fmt.Sprintf("jreach %d 1", j))
				do(fmt.Sprintf("jsync %d c+0", j))
				for i := 0; i < 140; i++ {
					if pend, _ := c.pendingOf(c.peers[j]); pend == "-" {
						break
					}
					do(fmt.Sprintf("ans %d -", j))
					do(fmt.Sprintf("del %d", j))
				}
			}
		}
	}
	fmt.Fprintln(w, "end")
	return ops
}

// sweepOffsets: a late joiner exactly d publications behind (around one and two snapshot periods of the probed cadence)
var sweepOffsets = []int{95, 96, 97, 98, 99, 100, 101, 102, 103, 104, 105, 196, 197, 198, 199, 200, 201, 202, 203, 204, 205, 206}

// genSweepCase: the publisher publishes exactly d operations, then a fresh peer hears the current number and the real
// fetch loop is driven (answer from the publisher, deliver) until nothing is pending, at most 140 fetches. The runner's
// catch-up oracle (peer_catches_up: fetch_threshold + 2 answered fetches) judges the implementation's observations.
func genSweepCase(w *bufio.Writer, rng *rand.Rand, k int, d int) []string {
	s0 := []uint64{0, 0, 57, 1000}[rng.Intn(4)]
	c := newPfxCase(w, s0, "t", rng.Int63())
	hdr := fmt.Sprintf("case pfx %d %d t", k, c.pubPT.Vf19Me().Latest)
	fmt.Fprintln(w, hdr)
	ops := []string{hdr}
	c.obsPub()
	do := func(op string) { ops = append(ops, op); c.exec(op) }
	in := map[int]bool{}
	for i := 0; i < d; i++ { // every operation changes the set, so every one is published
		n := 1 + rng.Intn(len(c.pool))
		if in[n] {
			delete(in, n)
			do(fmt.Sprintf("pw %d", n))
		} else {
			in[n] = true
			do(fmt.Sprintf("pa %d", n))
		}
	}
	do("jnew 1")
	do("jreach 1 1")
	do("jsync 1 c+0")
	// one fetch fault (lost Interest or Data: timeout, or a Nack) in some histories: on the first fetch (the snapshot fetch
	// when d is beyond the threshold), on a later op fetch, or after the Data was already answered; fetching must resume
	faultAt, nack := -1, false
	switch k % 4 {
	case 1:
		faultAt = 0
	case 2:
		faultAt, nack = 0, true
	case 3:
		faultAt, nack = 1+rng.Intn(5), rng.Intn(2) == 0
	}
	for i := 0; i < 140; i++ {
		if pend, _ := c.pendingOf(c.peers[1]); pend == "-" {
			break
		}
		if i == faultAt {
			if rng.Intn(2) == 0 {
				do("ans 1 -") // the Data is lost on its way back
			}
			if nack {
				do("tmo 1 nack")
			} else {
				do("tmo 1")
			}
			continue
		}
		do("ans 1 -")
		do("del 1")
	}
	fmt.Fprintln(w, "end")
	return ops
}

// genEmptySnapCase: a peer that holds a non-empty set falls more than a snapshot period behind while the publisher
// withdraws everything; the snapshot it then receives is reset-only (empty announced set).
func genEmptySnapCase(w *bufio.Writer, rng *rand.Rand, k int) []string {
	s0 := []uint64{0, 57, 1000, 1 << 40}[rng.Intn(4)]
	c := newPfxCase(w, s0, "t", rng.Int63())
	hdr := fmt.Sprintf("case pfx %d %d t", k, c.pubPT.Vf19Me().Latest)
	fmt.Fprintln(w, hdr)
	ops := []string{hdr}
	c.obsPub()
	do := func(op string) { ops = append(ops, op); c.exec(op) }
	catchUp := func() {
		do("jsync 1 c+0")
		for i := 0; i < 140; i++ {
			if pend, _ := c.pendingOf(c.peers[1]); pend == "-" {
				break
			}
			do("ans 1 -")
			do("del 1")
		}
	}
	held := []int{1 + rng.Intn(4), 5 + rng.Intn(4), 9 + rng.Intn(4)}
	for _, n := range held {
		do(fmt.Sprintf("pa %d", n))
	}
	do("jnew 1")
	do("jreach 1 1")
	catchUp()
	churn := 13
	for i := 0; i < 49+rng.Intn(8); i++ {
		do(fmt.Sprintf("pa %d", churn))
		do(fmt.Sprintf("pw %d", churn))
	}
	for _, n := range held {
		do(fmt.Sprintf("pw %d", n))
	}
	catchUp()
	fmt.Fprintln(w, "end")
	return ops
}

// replayPfxCase re-executes a recorded op list (first line: the case header).
func replayPfxCase(w *bufio.Writer, ops []string) {
	h := strings.Fields(ops[0])
	s0, _ := strconv.ParseUint(h[3], 10, 64)
	c := newPfxCase(w, s0, h[4], 7)
	fmt.Fprintf(w, "case pfx %s %d %s\n", h[2], c.pubPT.Vf19Me().Latest, h[4])
	c.obsPub()
	for _, op := range ops[1:] {
		if op == "" || op == "end" {
			continue
		}
		f := strings.Fields(op)
		if (f[0] == "jsync" || f[0] == "ans") && len(f) > 3 {
			op = strings.Join(f[:3], " ")
		}
		if f[0] != "pa" && f[0] != "pw" && f[0] != "ra" && f[0] != "rw" && f[0] != "jnew" {
			if j, _ := strconv.Atoi(f[1]); c.peers[j] == nil {
				continue // shrinking may have removed the peer's creation
			}
		}
		c.exec(op)
	}
	fmt.Fprintln(w, "end")
}
