module verifharness

go 1.26

require (
	github.com/cespare/xxhash v1.1.0
	github.com/gorilla/websocket v1.5.3
	github.com/named-data/ndnd v0.0.0
)

require (
	github.com/davecgh/go-spew v1.1.1 // indirect
	github.com/pkg/errors v0.9.1 // indirect
	github.com/pmezard/go-difflib v1.0.0 // indirect
	github.com/stretchr/testify v1.10.0 // indirect
	go.etcd.io/bbolt v1.3.11 // indirect
	golang.org/x/exp v0.0.0-20241217172543-b2144cdd0a67 // indirect
	golang.org/x/sys v0.28.0 // indirect
	gopkg.in/yaml.v3 v3.0.1 // indirect
)

replace github.com/named-data/ndnd => /repo
