module verifharness

go 1.26

require github.com/named-data/ndnd v0.0.0

replace github.com/named-data/ndnd => /repo
