// Harness for C20: drives the real basic.Engine (std/engine/basic) over the dummy face with the real basic.Timer
// inside a go1.26 testing/synctest bubble (virtual clock), and writes a trace for the Coq runner (runner/Engine).
//
// Two op languages:
//   - "gops" (generator level, text, one per line; this is what corpus files / VERIF_OPS hold), see parseGop;
//   - trace lines (what the OCaml runner reads): names are '/'-joined interned keys, see DESIGN appendix B and
//     runner/Engine/driver.ml.
//
// Environment: VERIF_SEED, VERIF_N (number of generated cases), VERIF_OUT (trace path), VERIF_OPS (file with
// cases given as gops, separated by lines "case ..."; replaces the generator), VERIF_CORPUS (directory with such
// files, replayed before the generated cases), VERIF_MODE (plain|nested|long: whether generated callbacks re-enter
// Express; long = nested with 40-140 operations per history; fire; reply = the face answers during Send).
package engine

import (
	"bufio"
	"crypto/sha256"
	"errors"
	"fmt"
	"math/rand"
	"os"
	"path/filepath"
	"runtime"
	"sort"
	"strconv"
	"strings"
	"sync"
	"sync/atomic"
	"testing"
	"testing/synctest"
	"time"

	enc "github.com/named-data/ndnd/std/encoding"
	basic "github.com/named-data/ndnd/std/engine/basic"
	"github.com/named-data/ndnd/std/engine/dummy"
	"github.com/named-data/ndnd/std/log"
	"github.com/named-data/ndnd/std/ndn"
	spec "github.com/named-data/ndnd/std/ndn/spec_2022"
	sec "github.com/named-data/ndnd/std/security"
)

// ---------------------------------------------------------------------------------------------------------
// generator-level ops
// ---------------------------------------------------------------------------------------------------------

type nestSpec struct {
	name  []int
	cbp   bool
	life  int
	depth int
}

type gop struct {
	kind     string // express data nack adv attach detach interest reply
	name     []int
	cbp      bool
	digK     byte // '-' none, 'd' digest of Data(digName,digCid), 'b' bogus
	digNm    []int
	digCid   int
	digLen   int    // 't': length of the truncated digest
	act      string // attach: what the handler does, synchronously, every time it is invoked: a:<name>:<hid> attach, d:<name> detach, x:<name>:<life> express, r reply
	seg      bool   // data: delivered through a multi-buffer wire reader (hook VerifOnPacket)
	nilcb    bool   // express: nil callback
	k        int    // junk: which malformed / unsupported arrival
	lp       int    // data: 0 bare Data; 1 LpPacket; 2 LpPacket with PIT token; 3 with congestion mark; 4 with incoming face id
	life     int    // ms, -1 = default lifetime
	nest     *nestSpec
	cid      int
	reason   int
	ms       int
	hid      int
	iid      int
	tok      string // hex or "-"
	replyK   byte   // express: '-' none, 'd' Data (replyNm, replyCid) / 'n' Nack (reason replyCid) fed back by the face during Send
	replyNm  []int
	replyCid int
	ns       int       // adv: additional nanoseconds
	sendFail bool      // express: face.Send fails
	during   *nestSpec // express: another Interest is expressed while Send is on the stack
	delay    int       // data/nack: the first timer cancel made while the packet is processed takes this many ms (0 = none)
	auto     bool      // appended by the harness (run-down of all timers), not part of the generated history
}

func nameTxt(n []int) string {
	if len(n) == 0 {
		return "-"
	}
	s := make([]string, len(n))
	for i, k := range n {
		s[i] = strconv.Itoa(k)
	}
	return strings.Join(s, "/")
}

func parseName(s string) []int {
	if s == "-" || s == "" {
		return nil
	}
	parts := strings.Split(s, "/")
	r := make([]int, len(parts))
	for i, p := range parts {
		r[i], _ = strconv.Atoi(p)
	}
	return r
}

func b01(b bool) string {
	if b {
		return "1"
	}
	return "0"
}

func lifeTxt(l int) string {
	if l < 0 {
		return "-"
	}
	return strconv.Itoa(l)
}

// lifeNs: a lifetime (ms in the gop) as written into the trace (ns)
func lifeNs(l int) string {
	if l < 0 {
		return "-"
	}
	return strconv.FormatInt(int64(l)*1000000, 10)
}

func parseLife(s string) int {
	if s == "-" {
		return -1
	}
	v, _ := strconv.Atoi(s)
	return v
}

func (g gop) String() string {
	switch g.kind {
	case "express":
		dig := "-"
		if g.digK == 'd' {
			dig = "d:" + nameTxt(g.digNm) + ":" + strconv.Itoa(g.digCid)
		} else if g.digK == 't' {
			dig = "t:" + nameTxt(g.digNm) + ":" + strconv.Itoa(g.digCid) + ":" + strconv.Itoa(g.digLen)
		} else if g.digK == 'b' {
			dig = "b:" + strconv.Itoa(g.digCid)
		}
		nest := "-"
		if g.nest != nil {
			nest = fmt.Sprintf("%s:%s:%d:%d", nameTxt(g.nest.name), b01(g.nest.cbp), g.nest.life, g.nest.depth)
		}
		rep := ""
		if g.replyK == 'd' {
			rep = fmt.Sprintf(" reply=d:%s:%d", nameTxt(g.replyNm), g.replyCid)
		} else if g.replyK == 'n' {
			rep = fmt.Sprintf(" reply=n:%d", g.replyCid)
		}
		if g.sendFail {
			rep += " sendfail=1"
		}
		if g.nilcb {
			rep += " nilcb=1"
		}
		if g.during != nil {
			rep += fmt.Sprintf(" during=%s:%s:%d", nameTxt(g.during.name), b01(g.during.cbp), g.during.life)
		}
		return fmt.Sprintf("express n=%s cbp=%s dig=%s life=%s nest=%s%s", nameTxt(g.name), b01(g.cbp), dig, lifeTxt(g.life), nest, rep)
	case "data":
		lp := ""
		if g.lp > 0 {
			lp = fmt.Sprintf(" lp=%d", g.lp)
		}
		if g.seg {
			lp += " seg=1"
		}
		if g.delay > 0 {
			return fmt.Sprintf("data n=%s cid=%d delay=%d%s", nameTxt(g.name), g.cid, g.delay, lp)
		}
		return fmt.Sprintf("data n=%s cid=%d%s", nameTxt(g.name), g.cid, lp)
	case "nack":
		dig := "-"
		if g.digK == 'd' {
			dig = "d:" + nameTxt(g.digNm) + ":" + strconv.Itoa(g.digCid)
		} else if g.digK == 't' {
			dig = "t:" + nameTxt(g.digNm) + ":" + strconv.Itoa(g.digCid) + ":" + strconv.Itoa(g.digLen)
		} else if g.digK == 'b' {
			dig = "b:" + strconv.Itoa(g.digCid)
		}
		if g.delay > 0 {
			return fmt.Sprintf("nack n=%s dig=%s reason=%d delay=%d", nameTxt(g.name), dig, g.reason, g.delay)
		}
		return fmt.Sprintf("nack n=%s dig=%s reason=%d", nameTxt(g.name), dig, g.reason)
	case "adv":
		if g.auto {
			return fmt.Sprintf("adv ms=%d auto=1", g.ms)
		}
		if g.ns != 0 {
			return fmt.Sprintf("adv ms=%d ns=%d", g.ms, g.ns)
		}
		return fmt.Sprintf("adv ms=%d", g.ms)
	case "attach":
		if g.act != "" {
			return fmt.Sprintf("attach n=%s h=%d act=%s", nameTxt(g.name), g.hid, g.act)
		}
		return fmt.Sprintf("attach n=%s h=%d", nameTxt(g.name), g.hid)
	case "detach":
		return fmt.Sprintf("detach n=%s", nameTxt(g.name))
	case "interest":
		return fmt.Sprintf("interest n=%s life=%s tok=%s", nameTxt(g.name), lifeTxt(g.life), g.tok)
	case "reply":
		return fmt.Sprintf("reply i=%d", g.iid)
	case "junk":
		return fmt.Sprintf("junk k=%d n=%s cid=%d", g.k, nameTxt(g.name), g.cid)
	case "facestop", "facestart", "faceerror":
		return g.kind
	}
	return "?"
}

func parseDig(v string, g *gop) {
	g.digK = '-'
	if strings.HasPrefix(v, "d:") {
		p := strings.Split(v, ":")
		g.digK = 'd'
		g.digNm = parseName(p[1])
		g.digCid, _ = strconv.Atoi(p[2])
	} else if strings.HasPrefix(v, "t:") {
		p := strings.Split(v, ":")
		if len(p) == 4 {
			g.digK = 't'
			g.digNm = parseName(p[1])
			g.digCid, _ = strconv.Atoi(p[2])
			g.digLen, _ = strconv.Atoi(p[3])
		}
	} else if strings.HasPrefix(v, "b:") {
		g.digK = 'b'
		g.digCid, _ = strconv.Atoi(v[2:])
	}
}

func parseGop(line string) (gop, bool) {
	f := strings.Fields(line)
	if len(f) == 0 {
		return gop{}, false
	}
	g := gop{kind: f[0], life: -1, digK: '-', tok: "-"}
	for _, kv := range f[1:] {
		i := strings.IndexByte(kv, '=')
		if i < 0 {
			continue
		}
		k, v := kv[:i], kv[i+1:]
		switch k {
		case "n":
			g.name = parseName(v)
		case "cbp":
			g.cbp = v == "1"
		case "dig":
			parseDig(v, &g)
		case "life":
			g.life = parseLife(v)
		case "nest":
			if v != "-" {
				p := strings.Split(v, ":")
				if len(p) == 4 {
					ns := &nestSpec{name: parseName(p[0]), cbp: p[1] == "1"}
					ns.life, _ = strconv.Atoi(p[2])
					ns.depth, _ = strconv.Atoi(p[3])
					g.nest = ns
				}
			}
		case "cid":
			g.cid, _ = strconv.Atoi(v)
		case "reason":
			g.reason, _ = strconv.Atoi(v)
		case "ms":
			g.ms, _ = strconv.Atoi(v)
		case "h":
			g.hid, _ = strconv.Atoi(v)
		case "i":
			g.iid, _ = strconv.Atoi(v)
		case "tok":
			g.tok = v
		case "auto":
			g.auto = v == "1"
		case "delay":
			g.delay, _ = strconv.Atoi(v)
		case "ns":
			g.ns, _ = strconv.Atoi(v)
		case "lp":
			g.lp, _ = strconv.Atoi(v)
		case "seg":
			g.seg = v == "1"
		case "act":
			g.act = v
		case "nilcb":
			g.nilcb = v == "1"
		case "k":
			g.k, _ = strconv.Atoi(v)
		case "sendfail":
			g.sendFail = v == "1"
		case "during":
			p := strings.Split(v, ":")
			if len(p) == 3 {
				ns := &nestSpec{name: parseName(p[0]), cbp: p[1] == "1"}
				ns.life, _ = strconv.Atoi(p[2])
				g.during = ns
			}
		case "reply":
			p := strings.Split(v, ":")
			if len(p) == 3 && p[0] == "d" {
				g.replyK, g.replyNm = 'd', parseName(p[1])
				g.replyCid, _ = strconv.Atoi(p[2])
			} else if len(p) == 2 && p[0] == "n" {
				g.replyK = 'n'
				g.replyCid, _ = strconv.Atoi(p[1])
			}
		}
	}
	switch g.kind {
	case "express", "data", "nack", "adv", "attach", "detach", "interest", "reply", "junk", "facestop", "facestart", "faceerror":
		return g, true
	}
	return g, false
}

// ---------------------------------------------------------------------------------------------------------
// the world: one engine in one synctest bubble
// ---------------------------------------------------------------------------------------------------------

var genericComps = []string{"", "a", "b", "c", "d", "e", "f", "g", "h", "i"}

// The dummy face is not safe for concurrent Send (it appends to a slice); Express calls made from the callbacks of
// timers that fire at the same instant are concurrent. The real faces serialise their writes; so does this wrapper.
//
// Replying face: Send may hand a scripted answer (Data or Nack) back to the engine before it returns — what an in-process
// pipe between two engines or a local cache does, and what a reader goroutine that wins the race amounts to. Legal for
// the face interface; the Interest must therefore be in the PIT before it is handed to the face.
type lockedFace struct {
	*dummy.DummyFace
	mu      sync.Mutex
	reply   []byte // fed back into the engine during the next Send
	fed     bool
	fail    bool   // the next Send fails
	during  func() // runs while the next Send is on the stack
	onError func(err error) error
}

// SetCallback keeps the engine's error callback so that a history can report a face error to the engine.
func (f *lockedFace) SetCallback(onPkt func(r enc.ParseReader) error, onError func(err error) error) {
	f.onError = onError
	f.DummyFace.SetCallback(onPkt, onError)
}

func (f *lockedFace) Send(pkt enc.Wire) error {
	f.mu.Lock()
	fail, during := f.fail, f.during
	f.fail, f.during = false, nil
	if during != nil || fail {
		f.mu.Unlock()
		if during != nil {
			during()
		}
		if fail {
			return errors.New("send failed")
		}
		f.mu.Lock()
	}
	err := f.DummyFace.Send(pkt)
	reply := f.reply
	f.reply = nil
	f.mu.Unlock()
	if reply != nil && err == nil {
		f.fed = true
		_ = f.DummyFace.FeedPacket(reply)
	}
	return err
}

type world struct {
	eng   *basic.Engine
	face  *lockedFace
	start time.Time

	clock       func() time.Time
	cancelDelay atomic.Int64
	exprMu      sync.Mutex
	mu          sync.Mutex
	cbs         []string // callback observations of the current top-level op
	nested      []string // nested op lines of the current top-level op
	outs        []string
	nextPid     int
	pidWire     map[int][]byte
	probe       []int
	intern      map[string]int
	trieIntern  map[string]int
	nextKey     int
	nextIid     int
	replies     map[int]ndn.WireReplyFunc
	iidWire     map[int][]byte
	iidTok      map[int]string
	curHid      int
	replySeq    int
	nextNilCb   bool
	curIntWire  []byte
	curIid      int
}

// all times in the trace are nanoseconds since the start of the case (gops keep milliseconds, plus optional ns=)
func (w *world) nowMs() int64 { return w.clock().Sub(w.start).Nanoseconds() }

// delayTimer is the engine's real timer; the cancel function of a scheduled event can be made to take (virtual) time once:
// that is how a run inside a synctest bubble gets "the timeout event fires while onData/onNack holds the PIT lock and
// then cancels it" — the schedule in which timer.Stop() reports that the event has already started.
type delayTimer struct {
	ndn.Timer
	w *world
}

func (d delayTimer) Schedule(dur time.Duration, f func()) func() error {
	cancel := d.Timer.Schedule(dur, f)
	return func() error {
		if ms := d.w.cancelDelay.Swap(0); ms > 0 {
			time.Sleep(time.Duration(ms) * time.Millisecond)
		}
		return cancel()
	}
}

// key interns a component by its identity (TLV bytes). The trie dumps report the engine's own keys; trieIntern maps those
// back to ids, so a trie whose keys conflate different components shows up as a divergence, and names in callbacks
// keep their true identity for the oracle.
func (w *world) key(c enc.Component) int {
	s := string(c.Bytes())
	if k, ok := w.intern[s]; ok {
		return k
	}
	k := w.nextKey
	w.nextKey++
	w.intern[s] = k
	w.trieIntern[basic.VerifTrieKey(c)] = k
	return k
}

// The component universe. Besides plain generic components it holds components that a sloppy trie key would conflate:
//
//	2, 3  segment numbers 05 and 00 05: same URI form "seg=5";
//	4     a generic component whose VALUE is the TLV encoding (32 01 05) of component 2;
//	6     a generic component with an empty value; 7 a generic component whose value is the TLV of component 1 ("a").
func compOf(k int) enc.Component {
	switch k {
	case 2:
		return enc.Component{Typ: enc.TypeSegmentNameComponent, Val: []byte{5}}
	case 3:
		return enc.Component{Typ: enc.TypeSegmentNameComponent, Val: []byte{0, 5}}
	case 4:
		return enc.Component{Typ: enc.TypeGenericNameComponent, Val: []byte{0x32, 0x01, 0x05}}
	case 6:
		return enc.Component{Typ: enc.TypeGenericNameComponent, Val: []byte{}}
	case 7:
		return enc.Component{Typ: enc.TypeGenericNameComponent, Val: []byte{0x08, 0x01, 'a'}}
	case 8: // a parameters-digest component with a zero-length value (only ever in Data / Nack names)
		return enc.Component{Typ: enc.TypeParametersSha256DigestComponent, Val: []byte{}}
	case 9: // the parameters digest of the ApplicationParameters "p" (what MakeInterest appends for them)
		return paramsComp()
	}
	return enc.NewStringComponent(enc.TypeGenericNameComponent, genericComps[k])
}

// makeInterest encodes an Interest for the name given by universe ids (+ optional implicit digest component). A name that
// ends with component 9 is an Interest with ApplicationParameters "p": MakeInterest appends the parameters digest itself.
func makeInterest(name []int, dig *enc.Component, cfg *ndn.InterestConfig) *ndn.EncodedInterest {
	fn := mkName(name)
	var appParam enc.Wire
	if len(name) > 0 && name[len(name)-1] == 9 && dig == nil {
		fn = mkName(name[:len(name)-1])
		appParam = enc.Wire{[]byte("p")}
	}
	if dig != nil {
		fn = append(fn, *dig)
	}
	enci, err := spec.Spec{}.MakeInterest(fn, cfg, appParam, nil)
	if err != nil {
		panic(fmt.Sprintf("MakeInterest %v: %v", name, err))
	}
	if appParam != nil && !enci.FinalName.Equal(mkName(name)) {
		panic("unexpected final name " + enci.FinalName.String())
	}
	return enci
}

var paramsCompOnce sync.Once
var paramsCompVal enc.Component

func paramsComp() enc.Component {
	paramsCompOnce.Do(func() {
		i, err := spec.Spec{}.MakeInterest(enc.Name{enc.NewStringComponent(enc.TypeGenericNameComponent, "x")}, &ndn.InterestConfig{}, enc.Wire{[]byte("p")}, nil)
		if err != nil {
			panic(err)
		}
		paramsCompVal = i.FinalName[len(i.FinalName)-1].Clone()
		if paramsCompVal.Typ != enc.TypeParametersSha256DigestComponent {
			panic("MakeInterest did not append a parameters digest")
		}
	})
	return paramsCompVal.Clone() // callers may scribble over what they get
}

func mkName(n []int) enc.Name {
	r := make(enc.Name, 0, len(n)+1)
	for _, k := range n {
		r = append(r, compOf(k))
	}
	return r
}

func (w *world) keysOf(n enc.Name) string {
	if len(n) == 0 {
		return "-"
	}
	s := make([]string, len(n))
	for i, c := range n {
		s[i] = strconv.Itoa(w.key(c))
	}
	return strings.Join(s, "/")
}

func dataWire(name []int, cid int) []byte {
	d, err := spec.Spec{}.MakeData(mkName(name), &ndn.DataConfig{}, enc.Wire{[]byte(fmt.Sprintf("content-%d", cid))}, sec.NewSha256Signer())
	if err != nil {
		panic(err)
	}
	return d.Wire.Join()
}

// digestComp builds an ImplicitSha256Digest component:
//
//	'd'  the digest of Data(nm, cid)                                  (32 bytes, matches that Data)
//	't'  the first dlen bytes of that digest (dlen 33: digest + 00)   (near miss of every length: 0, 1, 31, 33)
//	'b'  a bogus one: cid 0..9 32 bytes; 10 zero-length (empty, non-nil value, what the parsers produce); 11 one byte;
//	     12 31 bytes; 13 33 bytes; 14 zero-length with a nil value (same wire as 10)
//
// "A digest is requested" is decided by the PRESENCE of the component, whatever its value.
func digestComp(kind byte, nm []int, cid int, dlen int) enc.Component {
	var sum [32]byte
	if kind == 'd' || kind == 't' {
		sum = sha256.Sum256(dataWire(nm, cid))
	} else {
		for i := range sum {
			sum[i] = byte(0xf0 + cid%16)
		}
		sum[0] = byte(cid)
	}
	val := append([]byte{}, sum[:]...)
	if kind == 't' {
		val = append(val, 0)[:dlen]
	} else if kind == 'b' {
		switch cid {
		case 10:
			val = []byte{}
		case 11:
			val = val[:1]
		case 12:
			val = val[:31]
		case 13:
			val = append(val, 0x5a)
		case 14:
			val = nil
		}
	}
	return enc.Component{Typ: enc.TypeImplicitSha256DigestComponent, Val: val}
}

// express performs Engine.Express for (name, cbp, dig, life) and returns the trace text of the operation.
func (w *world) express(name []int, cbp bool, digK byte, digNm []int, digCid int, digLen int, life int, nest *nestSpec) string {
	fn := mkName(name)
	digTxt := "-"
	if digK != '-' {
		dc := digestComp(digK, digNm, digCid, digLen)
		fn = append(fn, dc)
		digTxt = strconv.Itoa(w.key(dc))
	}
	cfg := &ndn.InterestConfig{CanBePrefix: cbp, MustBeFresh: len(name)%2 == 0}
	if life >= 0 {
		d := time.Duration(life) * time.Millisecond
		cfg.Lifetime = &d
	}
	var appParam enc.Wire
	if len(name) > 0 && name[len(name)-1] == 9 && digK == '-' {
		// the Interest carries ApplicationParameters; MakeInterest appends their digest component itself
		fn = mkName(name[:len(name)-1])
		appParam = enc.Wire{[]byte("p")}
	}
	enci, err := spec.Spec{}.MakeInterest(fn, cfg, appParam, nil)
	if err != nil {
		panic(err)
	}
	if appParam != nil && !enci.FinalName.Equal(mkName(name)) {
		panic("unexpected final name " + enci.FinalName.String())
	}
	if len(fn) == 0 && appParam == nil { // Express refuses an empty name; no Interest id is consumed
		if err := w.eng.Express(enci, func(ndn.ExpressCallbackArgs) { panic("callback of a refused Express") }); err != nil {
			w.mu.Lock()
			w.outs = append(w.outs, "ret err")
			w.mu.Unlock()
		}
		return fmt.Sprintf("express - %s - %s", b01(cbp), lifeNs(life))
	}
	w.mu.Lock()
	pid := w.nextPid
	w.nextPid++
	w.pidWire[pid] = enci.Wire.Join()
	w.mu.Unlock()
	cb := func(args ndn.ExpressCallbackArgs) {
		if args.Result == basic.VerifProbe {
			w.probe = append(w.probe, pid)
			return
		}
		var line string
		switch args.Result {
		case ndn.InterestResultData:
			h := sha256.New()
			for _, b := range args.RawData {
				h.Write(b)
			}
			dd := enc.Component{Typ: enc.TypeImplicitSha256DigestComponent, Val: h.Sum(nil)}
			w.mu.Lock()
			line = fmt.Sprintf("cb %d data %s %d", pid, w.keysOf(args.Data.Name()), w.key(dd))
			w.mu.Unlock()
		case ndn.InterestResultNack:
			line = fmt.Sprintf("cb %d nack %d", pid, args.NackReason)
		case ndn.InterestResultTimeout:
			line = fmt.Sprintf("cb %d timeout %d", pid, w.nowMs())
		default:
			line = fmt.Sprintf("cb %d other %d", pid, int(args.Result))
		}
		w.mu.Lock()
		w.cbs = append(w.cbs, line)
		w.mu.Unlock()
		if nest != nil && nest.depth > 0 {
			sub := &nestSpec{name: nest.name, cbp: nest.cbp, life: nest.life, depth: nest.depth - 1}
			t := w.nowMs()
			// Callbacks of timers that fire at the same instant run in parallel goroutines: make "take the next Interest
			// id, call Express, record the call" one step, so that ids, PIT insertion order and the trace agree.
			w.exprMu.Lock()
			txt := w.express(nest.name, nest.cbp, '-', nil, 0, 0, nest.life, sub)
			w.mu.Lock()
			w.nested = append(w.nested, fmt.Sprintf("nop %s by=%d t=%d", txt, pid, t))
			w.mu.Unlock()
			w.exprMu.Unlock()
		}
	}
	var cbArg ndn.ExpressCallbackFunc = cb
	if w.nextNilCb { // Express(interest, nil): nothing can be observed for this Interest
		w.nextNilCb = false
		cbArg = nil
		w.mu.Lock()
		w.nested = append(w.nested, fmt.Sprintf("nocb %d", pid))
		w.mu.Unlock()
	}
	kind := "express"
	err = w.eng.Express(enci, cbArg)
	// Everything the caller handed in is the caller's again once Express has returned (an application re-uses one
	// InterestConfig for many Interests, recycles name and parameter buffers): scribble over all of it. What the engine
	// needs later — CanBePrefix, the digest, the lifetime — it must have taken at Express time.
	cfg.CanBePrefix = !cfg.CanBePrefix
	cfg.MustBeFresh = !cfg.MustBeFresh
	if cfg.Lifetime != nil {
		*cfg.Lifetime = 7 * time.Hour
	}
	bogusNonce := uint64(0xdeadbeef)
	cfg.Nonce = &bogusNonce
	for i := range fn {
		for j := range fn[i].Val {
			fn[i].Val[j] ^= 0xa5
		}
		fn[i].Typ = enc.TypeKeywordNameComponent
	}
	for i := range enci.FinalName {
		for j := range enci.FinalName[i].Val {
			enci.FinalName[i].Val[j] |= 0x80
		}
	}
	for _, b := range appParam {
		for j := range b {
			b[j] = 0
		}
	}
	if err != nil {
		w.mu.Lock()
		w.outs = append(w.outs, "ret err")
		delete(w.pidWire, pid) // nothing was transmitted for this Interest
		w.mu.Unlock()
		kind = "expressfail" // face.Send failed: the entry stays in the PIT, Express reports the error
	}
	w.mu.Lock()
	nm := w.keysOf(mkName(name))
	w.mu.Unlock()
	return fmt.Sprintf("%s %s %s %s %s", kind, nm, b01(cbp), digTxt, lifeNs(life))
}

// handler builds the Interest handler with id hid. act (may be empty) is what the handler does synchronously, while the
// engine is still inside onInterest: attach / detach handlers (its own prefix, longer or shorter ones), express an
// Interest, reply. The trace records these as nested operations of the `interest` op; in the model they are the next events
// (a registration change made by a handler takes effect for the next incoming Interest).
func (w *world) handler(hid int, act string) ndn.InterestHandler {
	return func(args ndn.InterestHandlerArgs) {
		if args.Interest == nil { // probe
			w.curHid = hid
			return
		}
		iid := w.curIid
		w.replies[iid] = args.Reply
		w.outs = append(w.outs, fmt.Sprintf("handler %d %d", hid, args.Deadline.Sub(w.start).Nanoseconds()))
		if w.curIntWire != nil && string(args.RawInterest.Join()) != string(w.curIntWire) {
			w.outs = append(w.outs, "handler-raw-interest-is-not-the-bare-interest")
		}
		p := strings.Split(act, ":")
		ret := func(err error) string {
			if err != nil {
				return "err"
			}
			return "ok"
		}
		addNested := func(l string) {
			w.mu.Lock()
			w.nested = append(w.nested, l)
			w.mu.Unlock()
		}
		switch {
		case len(p) == 3 && p[0] == "a":
			nm := parseName(p[1])
			h, _ := strconv.Atoi(p[2])
			r := ret(w.eng.AttachHandler(mkName(nm), w.handler(h, "")))
			w.outs = append(w.outs, "ret "+r)
			addNested(fmt.Sprintf("nop attach %s %d ret=%s", w.keysOf(mkName(nm)), h, r))
		case len(p) == 2 && p[0] == "d":
			nm := parseName(p[1])
			r := ret(w.eng.DetachHandler(mkName(nm)))
			w.outs = append(w.outs, "ret "+r)
			addNested(fmt.Sprintf("nop detach %s ret=%s", w.keysOf(mkName(nm)), r))
		case len(p) == 3 && p[0] == "x":
			nm := stripParams(parseName(p[1]))
			life, _ := strconv.Atoi(p[2])
			if len(nm) > 0 {
				addNested("nop " + w.express(nm, false, '-', nil, 0, 0, life, nil))
			}
		case len(p) == 1 && p[0] == "r":
			r := w.doReply(iid)
			addNested(fmt.Sprintf("nop reply %d ret=%s", iid, r))
		}
	}
}

// doReply calls the Reply closure of incoming Interest iid with a fresh Data and returns ok / deadline / err / noreply.
func (w *world) doReply(iid int) string {
	rf, ok := w.replies[iid]
	if !ok {
		w.outs = append(w.outs, "ret noreply")
		return "noreply"
	}
	// the reply Data: name does not matter to the engine; make it unique per reply call
	w.replySeq++
	content := []byte(fmt.Sprintf("reply-%d-%d", iid, w.replySeq))
	d, err := spec.Spec{}.MakeData(mkName([]int{1}), &ndn.DataConfig{}, enc.Wire{content}, sec.NewSha256Signer())
	if err != nil {
		panic(err)
	}
	exp := d.Wire.Join()
	if tk := w.iidTok[iid]; tk != "-" {
		tok, _ := hexDecode(tk)
		pkt := &spec.Packet{LpPacket: &spec.LpPacket{PitToken: tok, Fragment: d.Wire}}
		e := spec.PacketEncoder{}
		e.Init(pkt)
		exp = e.Encode(pkt).Join()
	}
	w.iidWire[iid] = exp
	r := "ok"
	if err := rf(d.Wire); err != nil {
		if err == ndn.ErrDeadlineExceed {
			r = "deadline"
		} else {
			r = "err"
		}
	}
	w.outs = append(w.outs, "ret "+r)
	return r
}

// drain the dummy face: every packet the engine transmitted since the last call, identified against what we handed in.
func (w *world) drain() {
	for {
		w.face.mu.Lock()
		buf, err := w.face.Consume()
		w.face.mu.Unlock()
		if err != nil {
			return
		}
		found := "out unknown " + fmt.Sprintf("%x", []byte(buf))
		// identical Interests have identical wires (no nonce): attribute the packet to the oldest not yet seen
		for pid := 0; pid < w.nextPid; pid++ {
			if wire, ok := w.pidWire[pid]; ok && string(wire) == string(buf) {
				found = fmt.Sprintf("out int %d", pid)
				delete(w.pidWire, pid)
				break
			}
		}
		for iid, wire := range w.iidWire {
			if string(wire) == string(buf) {
				found = fmt.Sprintf("out data %d", iid)
			}
		}
		w.outs = append(w.outs, found)
	}
}

func (w *world) pitDump() string {
	type nd struct {
		path []int
		pids []int
	}
	var nodes []*nd
	var cur *nd
	w.eng.VerifPitDump(func(path []string, entries int) {
		if cur != nil {
			cur.pids = append(cur.pids, w.probe...)
		}
		w.probe = nil
		p := make([]int, len(path))
		for i, s := range path {
			k, ok := w.trieIntern[s]
			if !ok {
				k = -1
			}
			p[i] = k
		}
		cur = &nd{path: p}
		nodes = append(nodes, cur)
	})
	if cur != nil {
		cur.pids = append(cur.pids, w.probe...)
	}
	w.probe = nil
	return canonNodes(len(nodes), func(i int) ([]int, string) {
		s := make([]string, len(nodes[i].pids))
		for j, p := range nodes[i].pids {
			s[j] = strconv.Itoa(p)
		}
		return nodes[i].path, strings.Join(s, ",")
	})
}

func (w *world) fibDump() string {
	type nd struct {
		path []int
		h    string
	}
	var nodes []nd
	w.eng.VerifFibDump(func(path []string, h ndn.InterestHandler) {
		p := make([]int, len(path))
		for i, s := range path {
			k, ok := w.trieIntern[s]
			if !ok {
				k = -1
			}
			p[i] = k
		}
		hs := "-"
		if h != nil {
			w.curHid = -1
			h(ndn.InterestHandlerArgs{})
			hs = strconv.Itoa(w.curHid)
		}
		nodes = append(nodes, nd{p, hs})
	})
	return canonNodes(len(nodes), func(i int) ([]int, string) { return nodes[i].path, nodes[i].h })
}

func canonNodes(n int, get func(int) ([]int, string)) string {
	type it struct {
		path []int
		s    string
	}
	items := make([]it, n)
	for i := 0; i < n; i++ {
		p, s := get(i)
		items[i] = it{p, s}
	}
	sort.Slice(items, func(a, b int) bool {
		pa, pb := items[a].path, items[b].path
		for i := 0; i < len(pa) && i < len(pb); i++ {
			if pa[i] != pb[i] {
				return pa[i] < pb[i]
			}
		}
		return len(pa) < len(pb)
	})
	out := make([]string, n)
	for i, x := range items {
		out[i] = nameTxt(x.path) + ":" + x.s
	}
	return strings.Join(out, ";")
}

var progress atomic.Int64

// runCase executes one case (list of gops) in a fresh bubble and returns the trace lines.
// runCase executes one case (list of gops) and returns the trace lines.
//
//	cfg "real":  the engine over the real basic.Timer inside a fresh synctest bubble (virtual clock);
//	cfg "dummy": the engine over dummy.Timer driven by MoveForward, as the repository's own tests do (no bubble).
func runCase(t *testing.T, ops []gop, cfg string) []string {
	var lines []string
	body := func(t *testing.T) {
		w := &world{pidWire: map[int][]byte{}, intern: map[string]int{}, trieIntern: map[string]int{}, nextKey: 100, replies: map[int]ndn.WireReplyFunc{},
			iidWire: map[int][]byte{}, iidTok: map[int]string{}}
		for k := 1; k < len(genericComps); k++ {
			w.intern[string(compOf(k).Bytes())] = k
			w.trieIntern[basic.VerifTrieKey(compOf(k))] = k
		}
		w.face = &lockedFace{DummyFace: dummy.NewDummyFace()}
		var timer ndn.Timer
		advance := func(d time.Duration) { time.Sleep(d) }
		wait := synctest.Wait
		if cfg == "dummy" {
			dt := dummy.NewTimer()
			timer = dt
			w.clock = dt.Now
			advance = func(d time.Duration) { dt.MoveForward(d) }
			wait = func() {}
		} else {
			timer = delayTimer{Timer: basic.NewTimer(), w: w}
			w.clock = time.Now
		}
		passAll := func(enc.Name, enc.Wire, ndn.Signature) bool { return true }
		w.eng = basic.NewEngine(w.face, timer, sec.NewSha256IntSigner(timer), passAll)
		if err := w.eng.Start(); err != nil {
			t.Fatal(err)
		}
		w.start = w.clock()
		emit := func(s string) { lines = append(lines, s) }
		for _, g := range ops {
			progress.Add(1)
			w.mu.Lock()
			w.cbs, w.nested, w.outs = nil, nil, nil
			w.mu.Unlock()
			var opTxt string
			switch g.kind {
			case "express":
				replyLine := ""
				if g.replyK == 'd' && len(g.replyNm) > 0 {
					wire := dataWire(g.replyNm, g.replyCid)
					sum := sha256.Sum256(wire)
					dd := enc.Component{Typ: enc.TypeImplicitSha256DigestComponent, Val: sum[:]}
					replyLine = fmt.Sprintf("nop data %s %d", w.keysOf(mkName(g.replyNm)), w.key(dd))
					w.face.reply = wire
				} else if g.replyK == 'n' && (len(g.name) > 0 || g.digK != '-') {
					fn := mkName(g.name)
					var digc *enc.Component
					if g.digK != '-' {
						dc := digestComp(g.digK, g.digNm, g.digCid, g.digLen)
						digc = &dc
						fn = append(fn, dc)
					}
					lt := 4 * time.Second
					enci := makeInterest(g.name, digc, &ndn.InterestConfig{Lifetime: &lt})
					pkt := &spec.Packet{LpPacket: &spec.LpPacket{Nack: &spec.NetworkNack{Reason: uint64(g.replyCid)}, Fragment: enci.Wire}}
					e := spec.PacketEncoder{}
					e.Init(pkt)
					replyLine = fmt.Sprintf("nop nack %s %d", w.keysOf(fn), g.replyCid)
					w.face.reply = e.Encode(pkt).Join()
				}
				w.face.fed = false
				w.face.fail = g.sendFail && (len(g.name) > 0 || g.digK != '-')
				if g.during != nil && len(g.during.name) > 0 && (len(g.name) > 0 || g.digK != '-') {
					du := g.during
					w.face.during = func() {
						txt := w.express(du.name, du.cbp, '-', nil, 0, 0, du.life, nil)
						w.mu.Lock()
						w.nested = append(w.nested, "nop "+txt)
						w.mu.Unlock()
					}
				}
				nOuts := len(w.outs)
				w.nextNilCb = g.nilcb && (len(g.name) > 0 || g.digK != '-')
				opTxt = w.express(g.name, g.cbp, g.digK, g.digNm, g.digCid, g.digLen, g.life, g.nest)
				w.nextNilCb = false
				w.face.reply, w.face.fail, w.face.during = nil, false, nil
				_ = nOuts
				if w.face.fed && replyLine != "" {
					w.mu.Lock()
					w.nested = append([]string{replyLine}, w.nested...)
					w.mu.Unlock()
				}
			case "data":
				wire := dataWire(g.name, g.cid)
				sum := sha256.Sum256(wire)
				dd := enc.Component{Typ: enc.TypeImplicitSha256DigestComponent, Val: sum[:]}
				opTxt = fmt.Sprintf("data %s %d", w.keysOf(mkName(g.name)), w.key(dd))
				// delivery inside a link-layer frame: the implicit digest and the raw bytes handed to the callbacks are those
				// of the bare Data (the LpPacket fragment), whatever headers the frame carries
				if g.lp > 0 {
					lpp := &spec.LpPacket{Fragment: enc.Wire{wire}}
					switch g.lp {
					case 2:
						lpp.PitToken = []byte{9, 8, 7, 6}
					case 3:
						cm := uint64(1)
						lpp.CongestionMark = &cm
					case 4:
						fid := uint64(261)
						lpp.IncomingFaceId = &fid
					}
					pkt := &spec.Packet{LpPacket: lpp}
					e := spec.PacketEncoder{}
					e.Init(pkt)
					wire = e.Encode(pkt).Join()
				}
				if !w.face.IsRunning() { // nothing reaches the engine through a stopped face
					_ = w.face.FeedPacket(wire)
					opTxt = "junk 0"
					break
				}
				t0 := w.nowMs()
				if cfg != "dummy" {
					w.cancelDelay.Store(int64(g.delay))
				}
				if g.seg && len(wire) > 6 {
					// the same bytes, but handed over as a wire of several buffers (what a stream face may do)
					a, b := len(wire)/3, 2*len(wire)/3
					_ = w.eng.VerifOnPacket(enc.NewWireReader(enc.Wire{wire[:a], wire[a:b], wire[b:]}))
				} else if err := w.face.FeedPacket(wire); err != nil {
					w.outs = append(w.outs, "ret err")
				}
				w.cancelDelay.Store(0)
				wait()
				if el := w.nowMs() - t0; el > 0 { // a cancel took time: timers fired while the PIT lock was held
					opTxt = fmt.Sprintf("datafire %s %d %d", w.keysOf(mkName(g.name)), w.key(dd), el)
				}
			case "nack":
				fn := mkName(g.name)
				var digc *enc.Component
				if g.digK != '-' {
					dc := digestComp(g.digK, g.digNm, g.digCid, g.digLen)
					digc = &dc
					fn = append(fn, dc)
				}
				lt := 4 * time.Second
				enci := makeInterest(g.name, digc, &ndn.InterestConfig{Lifetime: &lt})
				pkt := &spec.Packet{LpPacket: &spec.LpPacket{Nack: &spec.NetworkNack{Reason: uint64(g.reason)}, Fragment: enci.Wire}}
				e := spec.PacketEncoder{}
				e.Init(pkt)
				opTxt = fmt.Sprintf("nack %s %d", w.keysOf(fn), g.reason)
				if !w.face.IsRunning() {
					_ = w.face.FeedPacket(e.Encode(pkt).Join())
					opTxt = "junk 0"
					break
				}
				t0 := w.nowMs()
				if cfg != "dummy" {
					w.cancelDelay.Store(int64(g.delay))
				}
				if err := w.face.FeedPacket(e.Encode(pkt).Join()); err != nil {
					w.outs = append(w.outs, "ret err")
				}
				w.cancelDelay.Store(0)
				wait()
				if el := w.nowMs() - t0; el > 0 {
					opTxt = fmt.Sprintf("nackfire %s %d %d", w.keysOf(fn), g.reason, el)
				}
			case "adv":
				opTxt = fmt.Sprintf("adv %d", int64(g.ms)*1000000+int64(g.ns))
				advance(time.Duration(g.ms)*time.Millisecond + time.Duration(g.ns))
			case "attach":
				opTxt = fmt.Sprintf("attach %s %d", w.keysOf(mkName(g.name)), g.hid)
				if err := w.eng.AttachHandler(mkName(g.name), w.handler(g.hid, g.act)); err != nil {
					w.outs = append(w.outs, "ret err")
				} else {
					w.outs = append(w.outs, "ret ok")
				}
			case "detach":
				opTxt = fmt.Sprintf("detach %s", w.keysOf(mkName(g.name)))
				if err := w.eng.DetachHandler(mkName(g.name)); err != nil {
					w.outs = append(w.outs, "ret err")
				} else {
					w.outs = append(w.outs, "ret ok")
				}
			case "interest":
				cfg := &ndn.InterestConfig{}
				if g.life >= 0 {
					d := time.Duration(g.life) * time.Millisecond
					cfg.Lifetime = &d
				}
				enci := makeInterest(g.name, nil, cfg)
				wire := enci.Wire.Join()
				w.curIntWire = wire
				if g.tok != "-" {
					tok, _ := hexDecode(g.tok)
					pkt := &spec.Packet{LpPacket: &spec.LpPacket{PitToken: tok, Fragment: enci.Wire}}
					e := spec.PacketEncoder{}
					e.Init(pkt)
					wire = e.Encode(pkt).Join()
				}
				if !w.face.IsRunning() {
					_ = w.face.FeedPacket(wire)
					opTxt = "junk 0"
					break
				}
				iid := w.nextIid
				w.nextIid++
				w.curIid = iid
				w.iidTok[iid] = g.tok
				opTxt = fmt.Sprintf("interest %s %s %s", w.keysOf(mkName(g.name)), lifeNs(g.life), g.tok)
				n0 := len(w.outs)
				if err := w.face.FeedPacket(wire); err != nil {
					w.outs = append(w.outs, "ret err")
				}
				if len(w.outs) == n0 {
					w.outs = append(w.outs, "handler none")
				}
			case "junk":
				// malformed / unsupported arrivals: the engine must drop them without touching any pending Interest
				opTxt = fmt.Sprintf("junk %d", g.k)
				nm := g.name
				if len(nm) == 0 {
					nm = []int{1}
				}
				dw := dataWire(nm, g.cid)
				enc1 := func(lpp *spec.LpPacket) []byte {
					pkt := &spec.Packet{LpPacket: lpp}
					e := spec.PacketEncoder{}
					e.Init(pkt)
					return e.Encode(pkt).Join()
				}
				var wire []byte
				switch g.k {
				case 1: // garbage
					wire = []byte{0xde, 0xad, 0xbe, 0xef, 0x00, 0x01}
				case 2: // a Data packet cut in the middle
					wire = dw[:len(dw)/2]
				case 3: // a fragment of a fragmented LpPacket (not supported) carrying a Data some Interest may be waiting for
					idx, cnt := uint64(0), uint64(2)
					wire = enc1(&spec.LpPacket{FragIndex: &idx, FragCount: &cnt, Fragment: enc.Wire{dw}})
				case 4: // an LpPacket whose fragment is garbage
					wire = enc1(&spec.LpPacket{Fragment: enc.Wire{[]byte{0xde, 0xad, 0xbe, 0xef}}})
				case 5: // an LpPacket without a fragment (an IDLE frame)
					wire = enc1(&spec.LpPacket{PitToken: []byte{1, 2}})
				case 6: // a Nack header around a Data
					wire = enc1(&spec.LpPacket{Nack: &spec.NetworkNack{Reason: 150}, Fragment: enc.Wire{dw}})
				case 7: // an LpPacket whose fragment is a truncated Data
					wire = enc1(&spec.LpPacket{Fragment: enc.Wire{dw[:len(dw)-3]}})
				default: // empty packet
					wire = []byte{}
				}
				_ = w.face.FeedPacket(wire)
			case "facestop":
				opTxt = "facestop"
				if err := w.eng.Stop(); err != nil {
					w.outs = append(w.outs, "ret err")
				} else {
					w.outs = append(w.outs, "ret ok")
				}
			case "facestart":
				opTxt = "facestart"
				if err := w.eng.Start(); err != nil {
					w.outs = append(w.outs, "ret err")
				} else {
					w.outs = append(w.outs, "ret ok")
				}
			case "faceerror":
				// the face reports an I/O error to the engine (it only logs it); pending Interests must still resolve
				opTxt = "junk 9"
				if w.face.onError != nil {
					_ = w.face.onError(errors.New("read: connection reset"))
				}
			case "reply":
				opTxt = fmt.Sprintf("reply %d", g.iid)
				w.doReply(g.iid)
			}
			wait()
			w.drain()
			emit("op " + opTxt + " @" + strconv.FormatInt(w.nowMs(), 10))
			w.mu.Lock()
			cbs := append([]string{}, w.cbs...)
			nested := append([]string{}, w.nested...)
			w.mu.Unlock()
			if g.kind == "adv" {
				// timers that fire at the same virtual instant run in separate goroutines: order is not defined
				sort.SliceStable(cbs, func(a, b int) bool {
					fa, fb := strings.Fields(cbs[a]), strings.Fields(cbs[b])
					ta, _ := strconv.Atoi(fa[len(fa)-1])
					tb, _ := strconv.Atoi(fb[len(fb)-1])
					if ta != tb {
						return ta < tb
					}
					pa, _ := strconv.Atoi(fa[1])
					pb, _ := strconv.Atoi(fb[1])
					return pa < pb
				})
			}
			for _, l := range nested {
				emit(l)
			}
			for _, l := range cbs {
				emit(l)
			}
			outs := append([]string{}, w.outs...)
			if g.kind == "adv" {
				sort.Strings(outs)
			}
			for _, l := range outs {
				emit(l)
			}
			emit("pit " + w.pitDump())
			emit("fib " + w.fibDump())
		}
		if w.eng.IsRunning() {
			_ = w.eng.Stop()
		}
	}
	if cfg == "dummy" {
		body(t)
	} else {
		synctest.Test(t, body)
	}
	return lines
}

func hexDecode(s string) ([]byte, error) {
	b := make([]byte, len(s)/2)
	for i := range b {
		v, err := strconv.ParseUint(s[2*i:2*i+2], 16, 8)
		if err != nil {
			return nil, err
		}
		b[i] = byte(v)
	}
	return b, nil
}

// ---------------------------------------------------------------------------------------------------------
// generator
// ---------------------------------------------------------------------------------------------------------

type genr struct {
	r      *rand.Rand
	nested bool
	long   bool
	fire   bool
	reply  bool
}

func (g *genr) pick(xs []int) int { return xs[g.r.Intn(len(xs))] }

func (g *genr) pick3(a, b, c string) string { return []string{a, b, c}[g.r.Intn(3)] }

// names are drawn from a small nested universe so that prefixes, duplicates and siblings are frequent
func (g *genr) name(alpha, maxDepth int) []int {
	d := 1 + g.r.Intn(maxDepth)
	n := make([]int, d)
	for i := range n {
		if g.r.Intn(3) > 0 {
			n[i] = 1 // long shared spine /1/1/1...
		} else {
			n[i] = 1 + g.r.Intn(alpha)
		}
	}
	return n
}

// keepLastParams: a nacked Interest may end with the real parameters digest (9), nothing else of that kind
func keepLastParams(n []int) []int {
	r := stripParams(n)
	if len(n) > 0 && n[len(n)-1] == 9 {
		r = append(r, 9)
	}
	return r
}

func stripParams(n []int) []int {
	r := make([]int, 0, len(n))
	for _, k := range n {
		if k != 8 && k != 9 {
			r = append(r, k)
		}
	}
	return r
}

// lengths 0 (empty value), 1, 31, 33, and 0 with a nil value
var bogusShapes = []int{10, 11, 12, 13, 14}

var lifetimes = []int{0, 1, 3, 5, 5, 8, 10, 10, 12, 15, 20, 20, 30, 50, 100, -1}
var advances = []int{0, 1, 1, 2, 4, 5, 5, 6, 9, 10, 10, 11, 14, 15, 16, 20, 25, 30, 60, 110}

// genFireCase: the timeout events of some pending Interests fire while the Data / Nack that resolves them is being
// processed under the PIT lock (the first cancel takes `delay` ms and ends exactly at the common fire instant).
func (g *genr) genFireCase() []gop {
	margin := int(basic.VerifConstants()["TimeoutMargin"] / 1000000)
	life := g.pick([]int{5, 20, 50, 100})
	delay := 1 + g.r.Intn(4)
	nm := g.name(2, 3)
	var ops []gop
	k := 1 + g.r.Intn(3)
	for i := 0; i < k; i++ {
		ops = append(ops, gop{kind: "express", name: nm, cbp: g.r.Intn(2) == 0, digK: '-', life: life})
	}
	if len(nm) > 1 && g.r.Intn(2) == 0 { // a shorter name that the packet does not resolve, same fire instant
		ops = append(ops, gop{kind: "express", name: nm[:len(nm)-1], cbp: false, digK: '-', life: life})
	}
	if g.r.Intn(2) == 0 { // an unrelated long-lived one
		ops = append(ops, gop{kind: "express", name: append(append([]int{}, nm...), 5), cbp: false, digK: '-', life: life + 500})
	}
	ops = append(ops, gop{kind: "adv", ms: life + margin - delay})
	if g.r.Intn(3) == 0 {
		ops = append(ops, gop{kind: "nack", name: nm, digK: '-', reason: 150, delay: delay})
	} else {
		ops = append(ops, gop{kind: "data", name: nm, cid: g.r.Intn(3), delay: delay})
	}
	ops = append(ops, gop{kind: "adv", ms: g.pick([]int{0, 1, 10})}, gop{kind: "data", name: nm, cid: 1})
	return ops
}

func (g *genr) genCase() []gop {
	if g.fire {
		return g.genFireCase()
	}
	alpha := g.pick([]int{1, 2, 3, 3, 4, 6}) // components 1..alpha+1 of the universe (see compOf)
	depth := 1 + g.r.Intn(4)
	nops := 4 + g.r.Intn(22)
	if g.long {
		nops = 40 + g.r.Intn(100)
	}
	var ops []gop
	var expressed [][]int // names used so far (for related Data/Nack names)
	type dref struct {
		nm  []int
		cid int
	}
	var datas []dref
	nInt := 0
	clock := 0
	var deads []int
	handlersOn := g.r.Intn(3) == 0
	faceEvents := g.r.Intn(8) == 0 // Stop / Start (also misused) / face errors in the middle of the history
	related := func() []int {
		if len(expressed) > 0 && g.r.Intn(5) > 0 {
			b := expressed[g.r.Intn(len(expressed))]
			switch g.r.Intn(6) {
			case 0: // shorter
				if len(b) > 1 {
					return append([]int{}, b[:len(b)-1]...)
				}
			case 1: // longer
				return append(append([]int{}, b...), 1+g.r.Intn(alpha))
			case 2: // sibling
				if len(b) > 0 {
					c := append([]int{}, b...)
					c[len(c)-1] = 1 + g.r.Intn(alpha+1)
					return c
				}
			}
			return append([]int{}, b...)
		}
		return g.name(alpha+1, depth+1)
	}
	for i := 0; i < nops; i++ {
		x := g.r.Intn(100)
		if g.r.Intn(25) == 0 { // a malformed / unsupported arrival
			ops = append(ops, gop{kind: "junk", k: g.r.Intn(9), name: related(), cid: g.r.Intn(3)})
			continue
		}
		if faceEvents && g.r.Intn(6) == 0 {
			ops = append(ops, gop{kind: g.pick3("facestop", "facestart", "faceerror")})
			continue
		}
		switch {
		case x < 34:
			o := gop{kind: "express", name: g.name(alpha, depth), cbp: g.r.Intn(3) == 0, digK: '-', life: g.pick(lifetimes)}
			if len(expressed) > 0 && g.r.Intn(3) == 0 { // duplicate / nested relative of an earlier one
				o.name = related()
			}
			if g.r.Intn(8) == 0 {
				if g.r.Intn(3) > 0 {
					o.digK, o.digNm, o.digCid = 'd', o.name, g.r.Intn(3)
					if o.cbp && g.r.Intn(2) == 0 {
						o.digNm = append(append([]int{}, o.name...), 1)
					}
					datas = append(datas, dref{o.digNm, o.digCid})
				} else {
					o.digK, o.digCid = 'b', g.r.Intn(3)
				}
				// value shapes: a digest component of length 0, 1, 31, 33 (bogus, or a truncated/extended real digest)
				switch g.r.Intn(6) {
				case 0:
					o.digK, o.digCid = 'b', g.pick(bogusShapes)
				case 1:
					if o.digK == 'd' {
						o.digK, o.digLen = 't', g.pick([]int{0, 1, 31, 33})
					}
				}
			}
			// parameters-digest components: never inside an expressed name (MakeInterest refuses), sometimes the real one at
			// its end (an Interest with ApplicationParameters)
			o.name = stripParams(o.name)
			if o.digK == '-' && g.r.Intn(20) == 0 {
				o.name = append(append([]int{}, o.name...), 9)
			}
			if g.r.Intn(40) == 0 {
				o.name = nil // root node: only legal with a digest
				o.digK, o.digCid = 'b', g.pick(append([]int{0, 1, 2}, bogusShapes...))
			}
			if g.nested && g.r.Intn(3) == 0 {
				// Timers that fire at the same virtual instant run in goroutines of their own in no defined order; with
				// re-expressed Interests that order can become observable. The runner explores the admissible orders.
				nl := g.pick([]int{1, 2, 5, 9, 10, 11, 12, 15, 20, 30, 50, 100})
				o.nest = &nestSpec{name: stripParams(o.name), cbp: g.r.Intn(2) == 0, life: nl, depth: 1 + g.r.Intn(3)}
				if g.r.Intn(2) == 0 {
					o.nest.name = stripParams(related())
				}
				if len(o.nest.name) == 0 {
					o.nest.name = []int{1}
				}
			}
			if g.reply && len(o.name) > 0 && g.r.Intn(2) == 0 {
				switch g.r.Intn(5) {
				case 0: // Nack for this very Interest
					o.replyK, o.replyCid = 'n', g.pick([]int{50, 100, 150})
				case 1: // Data for another pending name
					o.replyK, o.replyNm, o.replyCid = 'd', related(), g.r.Intn(3)
				default: // Data for this very Interest
					o.replyK, o.replyNm, o.replyCid = 'd', o.name, g.r.Intn(3)
					if o.digK == 'd' {
						o.replyNm, o.replyCid = o.digNm, o.digCid
					} else if o.cbp && g.r.Intn(2) == 0 {
						o.replyNm = append(append([]int{}, o.name...), 1+g.r.Intn(alpha))
					}
				}
				if o.replyK == 'd' && len(o.replyNm) == 0 {
					o.replyK = '-'
				}
			} else if g.reply && len(o.name) > 0 && g.r.Intn(3) == 0 {
				// the face fails to send, and/or another Interest (mostly for the same PIT node) is expressed while Send is on the stack
				o.sendFail = g.r.Intn(3) > 0
				if g.r.Intn(3) > 0 {
					o.during = &nestSpec{name: stripParams(o.name), cbp: g.r.Intn(2) == 0, life: g.pick(lifetimes[:len(lifetimes)-1])}
					if g.r.Intn(4) == 0 {
						o.during.name = stripParams(related())
					}
					if len(o.during.name) == 0 {
						o.during.name = []int{1}
					}
				}
			}
			if o.nest == nil && o.replyK == 0 && g.r.Intn(30) == 0 {
				o.nilcb = true
			}
			expressed = append(expressed, o.name)
			if o.life >= 0 {
				deads = append(deads, clock+o.life)
			} else {
				deads = append(deads, clock+4000)
			}
			ops = append(ops, o)
		case x < 56:
			o := gop{kind: "data", name: related(), cid: g.r.Intn(3)}
			if len(datas) > 0 && g.r.Intn(3) == 0 {
				d := datas[g.r.Intn(len(datas))]
				o.name, o.cid = d.nm, d.cid
			}
			if len(o.name) == 0 {
				o.name = []int{1}
			}
			if g.r.Intn(3) == 0 {
				o.lp = 1 + g.r.Intn(4)
			}
			o.seg = g.r.Intn(4) == 0
			if g.r.Intn(25) == 0 {
				o.name = append(stripParams(o.name), g.pick([]int{8, 9, 9}))
			}
			ops = append(ops, o)
		case x < 68:
			o := gop{kind: "nack", name: keepLastParams(related()), reason: g.pick([]int{50, 100, 150}), digK: '-'}
			if len(o.name) == 0 {
				o.name = []int{1}
			}
			if len(datas) > 0 && g.r.Intn(6) == 0 {
				d := datas[g.r.Intn(len(datas))]
				o.digK, o.digNm, o.digCid = 'd', d.nm, d.cid
			} else if g.r.Intn(10) == 0 {
				o.digK, o.digCid = 'b', g.pick(bogusShapes)
			}
			if o.digK != '-' {
				o.name = stripParams(o.name)
				if len(o.name) == 0 {
					o.name = []int{1}
				}
			}
			ops = append(ops, o)
		case x < 90 || !handlersOn:
			ms := g.pick(advances)
			if len(deads) > 0 && g.r.Intn(3) == 0 {
				// straddle a deadline (d-1, d, d+1) or the instant of its timeout timer (d+10 +- 1)
				ms = deads[g.r.Intn(len(deads))] - clock + g.pick([]int{-1, 0, 1, 9, 10, 11})
				if ms < 0 {
					ms = 0
				}
			}
			clock += ms
			o := gop{kind: "adv", ms: ms}
			if g.r.Intn(6) == 0 {
				o.ns = g.pick([]int{1, 999, 300000, 999999})
			}
			ops = append(ops, o)
		default:
			switch g.r.Intn(5) {
			case 0, 1:
				o := gop{kind: "attach", name: g.name(alpha, depth), hid: g.r.Intn(50)}
				o.act = g.handlerAct(o.name, alpha, related)
				ops = append(ops, o)
			case 2:
				ops = append(ops, gop{kind: "detach", name: related()})
			case 3:
				o := gop{kind: "interest", name: keepLastParams(related()), life: g.pick(lifetimes), tok: "-"}
				if len(o.name) == 0 {
					o.name = []int{1}
				}
				if g.r.Intn(3) == 0 {
					o.tok = "0a0b0c"
				}
				nInt++
				ops = append(ops, o)
			case 4:
				if nInt > 0 {
					ops = append(ops, gop{kind: "reply", iid: g.r.Intn(nInt)})
				}
			}
		}
	}
	if handlersOn {
		ops = append(ops, g.fibBurst(alpha, depth, &nInt)...)
	}
	return ops
}

// handlerAct: what a handler does synchronously when it is invoked (re-entrant use of the engine), or "" (nothing)
func (g *genr) handlerAct(own []int, alpha int, other func() []int) string {
	if g.r.Intn(3) > 0 {
		return ""
	}
	longer := append(append([]int{}, own...), 1+g.r.Intn(alpha))
	shorter := own
	if len(own) > 1 {
		shorter = own[:len(own)-1]
	}
	target := [][]int{own, longer, shorter, other()}[g.r.Intn(4)]
	if len(target) == 0 {
		target = own
	}
	switch g.r.Intn(5) {
	case 0: // one-shot handler: detaches (mostly itself)
		return "d:" + nameTxt(target)
	case 1: // hands over to a session handler
		return fmt.Sprintf("a:%s:%d", nameTxt(target), 200+g.r.Intn(50))
	case 2:
		return fmt.Sprintf("x:%s:%d", nameTxt(stripParams(target)), g.pick(lifetimes[:len(lifetimes)-1]))
	default:
		return "r"
	}
}

// a burst of handler registration history with Interests and (late) replies
func (g *genr) fibBurst(alpha, depth int, nInt *int) []gop {
	var ops []gop
	var attached [][]int
	n := 3 + g.r.Intn(12)
	for i := 0; i < n; i++ {
		switch x := g.r.Intn(10); {
		case x < 3:
			nm := g.name(alpha, depth)
			attached = append(attached, nm)
			o := gop{kind: "attach", name: nm, hid: 100 + i}
			o.act = g.handlerAct(nm, alpha, func() []int { return g.name(alpha+1, depth+1) })
			ops = append(ops, o)
		case x < 5:
			if len(attached) > 0 {
				nm := attached[g.r.Intn(len(attached))]
				if g.r.Intn(4) == 0 && len(nm) > 1 {
					nm = nm[:len(nm)-1]
				}
				ops = append(ops, gop{kind: "detach", name: nm})
			} else {
				ops = append(ops, gop{kind: "detach", name: g.name(alpha, depth)})
			}
		case x < 6 && len(attached) > 0 && g.r.Intn(2) == 0:
			// a reply at the deadline, and 1 ns / 300 us / 999.999 us / 1 ms after it (virtual time is not millisecond-aligned)
			nm := append(append([]int{}, attached[g.r.Intn(len(attached))]...), 1)
			life := g.pick([]int{1, 5, 10, 30})
			ops = append(ops, gop{kind: "interest", name: nm, life: life, tok: "-"},
				gop{kind: "adv", ms: life, ns: g.pick([]int{0, 1, 300000, 999999, 1000000})},
				gop{kind: "reply", iid: *nInt})
			*nInt++
		case x < 8:
			nm := g.name(alpha+1, depth+1)
			if len(attached) > 0 && g.r.Intn(2) == 0 {
				nm = append(append([]int{}, attached[g.r.Intn(len(attached))]...), g.name(alpha, 2)...)
			}
			o := gop{kind: "interest", name: nm, life: g.pick(lifetimes), tok: "-"}
			if g.r.Intn(3) == 0 {
				o.tok = "01020304"
			}
			*nInt++
			ops = append(ops, o)
		case x < 9:
			ops = append(ops, gop{kind: "adv", ms: g.pick(advances)})
		default:
			if *nInt > 0 {
				if g.r.Intn(5) == 0 { // reply through a face that was stopped meanwhile (ErrFaceDown), then go on
					ops = append(ops, gop{kind: "facestop"}, gop{kind: "reply", iid: g.r.Intn(*nInt)}, gop{kind: "facestart"})
				} else {
					ops = append(ops, gop{kind: "reply", iid: g.r.Intn(*nInt)})
				}
			}
		}
	}
	return ops
}

// ---------------------------------------------------------------------------------------------------------
// entry points
// ---------------------------------------------------------------------------------------------------------

func readCases(path string) ([][]gop, []string, error) {
	f, err := os.Open(path)
	if err != nil {
		return nil, nil, err
	}
	defer f.Close()
	var cases [][]gop
	var names []string
	var cur []gop
	title := filepath.Base(path)
	sc := bufio.NewScanner(f)
	flush := func() {
		if len(cur) > 0 {
			cases = append(cases, cur)
			names = append(names, title)
			cur = nil
		}
	}
	for sc.Scan() {
		l := strings.TrimSpace(sc.Text())
		if l == "" || strings.HasPrefix(l, "#") {
			continue
		}
		if strings.HasPrefix(l, "case") {
			flush()
			title = filepath.Base(path) + ":" + strings.TrimSpace(strings.TrimPrefix(l, "case"))
			continue
		}
		if g, ok := parseGop(l); ok {
			cur = append(cur, g)
		}
	}
	flush()
	return cases, names, sc.Err()
}

// watchdog (outside every bubble, wall clock): a case that makes no progress is a deadlock of the engine
// deadlockEvidence inspects a dump of all goroutines. A deadlock of the engine is PROVEN by state, not by elapsed time:
// at least one goroutine is blocked acquiring a mutex with the engine on its stack (sync.Mutex.Lock under
// basic.(*Engine)...), and no goroutine other than the caller (the watchdog) is running or runnable. It returns the ids of
// the mutex-blocked engine goroutines (sorted, as one string), their stacks, and whether anything else can still run.
func deadlockEvidence() (blocked string, stacks string, live bool) {
	buf := make([]byte, 1<<20)
	for {
		n := runtime.Stack(buf, true)
		if n < len(buf) {
			buf = buf[:n]
			break
		}
		buf = make([]byte, 2*len(buf))
	}
	var ids []string
	first := true
	for _, g := range strings.Split(string(buf), "\n\n") {
		head, _, _ := strings.Cut(g, "\n")
		if !strings.HasPrefix(head, "goroutine ") {
			continue
		}
		f := strings.Fields(head)
		state := ""
		if i := strings.IndexByte(head, '['); i >= 0 {
			state = strings.TrimRight(head[i+1:], "]:")
		}
		if first { // runtime.Stack prints the calling goroutine first
			first = false
			continue
		}
		switch {
		case strings.HasPrefix(state, "running"), strings.HasPrefix(state, "runnable"), strings.HasPrefix(state, "syscall"):
			if !strings.Contains(g, "os/signal.") && !strings.Contains(g, "runtime.ensureSigM") {
				live = true
			}
		case strings.HasPrefix(state, "sync.Mutex.Lock"), strings.HasPrefix(state, "semacquire"), strings.HasPrefix(state, "sync.RWMutex"):
			if strings.Contains(g, "engine/basic.(*Engine)") {
				ids = append(ids, f[1])
				stacks += g + "\n\n"
			}
		}
	}
	sort.Strings(ids)
	return strings.Join(ids, ","), stacks, live
}

// watchdog (outside every bubble). No wall-clock limit decides a verdict: when a case makes no progress the watchdog looks
// at the goroutines; only when the same engine goroutines are blocked on a mutex, nothing else is runnable and the
// operation counter has not moved, in two inspections 2 s apart, the deadlock is recorded (with the stacks) and the
// process exits. Otherwise it keeps waiting (a slow machine is not a deadlock).
func watchdog(out *bufio.Writer, cur *atomic.Value, stop chan struct{}) {
	last := progress.Load()
	stall := 0
	prevBlocked := ""
	for {
		select {
		case <-stop:
			return
		case <-time.After(500 * time.Millisecond):
		}
		now := progress.Load()
		if now != last {
			last, stall, prevBlocked = now, 0, ""
			continue
		}
		stall++
		if stall < 4 || stall%4 != 0 { // first look after 2 s without progress, then every 2 s
			continue
		}
		blocked, stacks, live := deadlockEvidence()
		if blocked == "" || live || progress.Load() != now {
			prevBlocked = ""
			if stall%40 == 0 {
				fmt.Fprintf(os.Stderr, "watchdog: no operation finished for %d s, but goroutines can still run: waiting\n", stall/2)
			}
			continue
		}
		if blocked != prevBlocked { // first sighting: look again
			prevBlocked = blocked
			continue
		}
		ops, _ := cur.Load().([]gop)
		fmt.Fprintf(out, "deadlock at-op %d goroutines %s\n", now, blocked)
		for _, l := range strings.Split(strings.TrimSpace(stacks), "\n") {
			fmt.Fprintf(out, "stack %s\n", l)
		}
		for _, g := range ops {
			fmt.Fprintf(out, "gop %s\n", g.String())
		}
		fmt.Fprintf(out, "end\n")
		out.Flush()
		os.Exit(3)
	}
}

func TestTrace(t *testing.T) {
	log.SetHandler(log.HandlerFunc(func(*log.Entry) error { return nil }))
	seed, _ := strconv.ParseInt(os.Getenv("VERIF_SEED"), 10, 64)
	if seed == 0 {
		seed = 1
	}
	n, _ := strconv.Atoi(os.Getenv("VERIF_N"))
	outPath := os.Getenv("VERIF_OUT")
	if outPath == "" {
		outPath = filepath.Join(t.TempDir(), "trace")
	}
	f, err := os.Create(outPath)
	if err != nil {
		t.Fatal(err)
	}
	defer f.Close()
	out := bufio.NewWriter(f)
	defer out.Flush()

	cfg := os.Getenv("VERIF_CFG") // real (default) | dummy
	var cases [][]gop
	var titles []string
	if p := os.Getenv("VERIF_OPS"); p != "" {
		cs, ns, err := readCases(p)
		if err != nil {
			t.Fatal(err)
		}
		cases, titles = cs, ns
	} else {
		if dir := os.Getenv("VERIF_CORPUS"); dir != "" {
			files, _ := filepath.Glob(filepath.Join(dir, "*.ops"))
			sort.Strings(files)
			for _, p := range files {
				cs, ns, err := readCases(p)
				if err != nil {
					t.Fatal(err)
				}
				cases = append(cases, cs...)
				titles = append(titles, ns...)
			}
		}
		mode := os.Getenv("VERIF_MODE")
		g := &genr{r: rand.New(rand.NewSource(seed)), nested: mode == "nested" || mode == "long", long: mode == "long", fire: mode == "fire", reply: mode == "reply"}
		for i := 0; i < n; i++ {
			cases = append(cases, g.genCase())
			titles = append(titles, fmt.Sprintf("gen-%d-%d", seed, i))
		}
	}
	var cur atomic.Value
	stop := make(chan struct{})
	go watchdog(out, &cur, stop)
	defer close(stop)
	fmt.Fprintf(out, "# seed=%d cases=%d\n", seed, len(cases))
	for i, ops := range cases {
		// run every timer down: beyond the default lifetime plus the longest chain (3) of nested re-expressions (<= 100 ms each);
		// computed from the engine's own constants (4100 and 600 ms for 4 s / 10 ms)
		consts := basic.VerifConstants()
		lifeMs := int(consts["DefaultInterestLife"] / 1000000)
		marginMs := int(consts["TimeoutMargin"]/1000000) + 1
		for len(ops) > 0 && ops[len(ops)-1].auto { // a replayed case may already carry them
			ops = ops[:len(ops)-1]
		}
		ops = append(append([]gop{}, ops...), gop{kind: "adv", ms: lifeMs + marginMs + 89, auto: true}, gop{kind: "adv", ms: 3*(100+marginMs) + 267, auto: true})
		cur.Store(ops)
		fmt.Fprintf(out, "case %d %s\n", i, titles[i])
		for _, g := range ops {
			fmt.Fprintf(out, "gop %s\n", g.String())
		}
		out.Flush()
		for _, l := range runCase(t, ops, cfg) {
			fmt.Fprintln(out, l)
		}
		fmt.Fprintf(out, "end\n")
	}
}

// TestConsts prints the engine's package constants (nanoseconds, compiler-evaluated through the hook) for the translator
// in checks/C20.py.
func TestConsts(t *testing.T) {
	c := basic.VerifConstants()
	names := make([]string, 0, len(c))
	for k := range c {
		names = append(names, k)
	}
	sort.Strings(names)
	for _, k := range names {
		fmt.Printf("CONST %s %d\n", k, c[k])
	}
}

// TestKeys: the trie's key function must be injective on components (Keys.v: then equal key paths are equal names). It is
// checked on an adversarial set: generic values equal to TLV encodings of typed/generic components, values that are
// prefixes/suffixes of each other, empty values, type numbers at the 1/3/5-byte TL boundaries, equal URI forms.
func TestKeys(t *testing.T) {
	var set []enc.Component
	vals := [][]byte{{}, {0}, {5}, {0, 5}, {0, 0, 5}, {'a'}, {'a', 'b'}, {'b'}, {0x08, 0x01, 'a'}, {0x32, 0x01, 0x05}, {0x01, 'a'}, {0xfd, 0x00, 0xfd}, {0xff}}
	typs := []enc.TLNum{1, 2, 8, 0x32, 0x34, 0x36, 0x38, 0x3a, 0x20, 252, 253, 254, 255, 256, 65535, 65536, 1 << 32}
	for _, ty := range typs {
		for _, v := range vals {
			set = append(set, enc.Component{Typ: ty, Val: v})
		}
	}
	// generic components whose value is the encoding of another component of the set, and concatenations
	n0 := len(set)
	for i := 0; i < n0; i += 7 {
		set = append(set, enc.Component{Typ: enc.TypeGenericNameComponent, Val: set[i].Bytes()})
		set = append(set, enc.Component{Typ: enc.TypeGenericNameComponent, Val: append(set[i].Bytes(), set[(i+3)%n0].Bytes()...)})
	}
	for k := 1; k < len(genericComps); k++ {
		set = append(set, compOf(k))
	}
	seen := map[string]enc.Component{}
	bad := 0
	for _, c := range set {
		k := basic.VerifTrieKey(c)
		if o, ok := seen[k]; ok && !(o.Typ == c.Typ && string(o.Val) == string(c.Val)) {
			fmt.Printf("KEYCOLLISION %d:%x %d:%x key=%x\n", uint64(o.Typ), o.Val, uint64(c.Typ), c.Val, k)
			bad++
			if bad > 5 {
				break
			}
		} else {
			seen[k] = c
		}
	}
	fmt.Printf("KEYS %d components %d collisions\n", len(set), bad)
}
