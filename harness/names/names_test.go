// Harness for C14: drives std/encoding name functions on generated inputs and writes a trace for the Coq runner.
package names

import (
	"bufio"
	"encoding/hex"
	"fmt"
	"math/rand"
	"os"
	"strconv"
	"strings"
	"testing"

	enc "github.com/named-data/ndnd/std/encoding"
)

func hx(b []byte) string {
	if len(b) == 0 {
		return "-"
	}
	return hex.EncodeToString(b)
}

func nameStr(n enc.Name) string {
	if len(n) == 0 {
		return "-"
	}
	parts := make([]string, len(n))
	for i, c := range n {
		parts[i] = strconv.FormatUint(uint64(c.Typ), 10) + ":" + hex.EncodeToString(c.Val)
	}
	return strings.Join(parts, ",")
}

type gen struct{ r *rand.Rand }

var interestingTypes = []uint64{8, 8, 8, 8, 1, 2, 32, 50, 52, 54, 56, 58, 9, 252, 253, 255, 256, 65535}
var wildTypes = []uint64{0, 65536, 1 << 32, 1<<64 - 1, 4294967295, 4294967296}
var specialBytes = []byte{'.', '%', '=', '/', '\\', '~', '-', '_', 'a', 'Z', '0', '9', 0, 0x7f, 0x80, 0xff, 0xb2, ' ', '+'}

func (g *gen) val() []byte {
	switch g.r.Intn(10) {
	case 0:
		return []byte{}
	case 1:
		return []byte{'.'}
	case 2:
		return []byte{'.', '.'}
	case 3: // boundary sized
		ls := []int{252, 253, 254, 255, 256, 300}
		l := ls[g.r.Intn(len(ls))]
		b := make([]byte, l)
		for i := range b {
			b[i] = byte('a' + g.r.Intn(3))
		}
		return b
	default:
		l := g.r.Intn(5)
		b := make([]byte, l)
		for i := range b {
			if g.r.Intn(2) == 0 {
				b[i] = specialBytes[g.r.Intn(len(specialBytes))]
			} else {
				b[i] = byte(g.r.Intn(256))
			}
		}
		return b
	}
}

func (g *gen) comp(wild bool) enc.Component {
	t := interestingTypes[g.r.Intn(len(interestingTypes))]
	if wild && g.r.Intn(6) == 0 {
		t = wildTypes[g.r.Intn(len(wildTypes))]
	}
	v := g.val()
	// numeric conventions: mostly shortest-form values
	if t >= 50 && t <= 58 && g.r.Intn(4) != 0 {
		xs := []uint64{0, 1, 255, 256, 65535, 65536, 1<<32 - 1, 1 << 32, 1<<64 - 1, uint64(g.r.Int63())}
		v = enc.Nat(xs[g.r.Intn(len(xs))]).Bytes()
	}
	return enc.Component{Typ: enc.TLNum(t), Val: v}
}

func (g *gen) name(wild bool) enc.Name {
	l := g.r.Intn(5)
	n := make(enc.Name, l)
	for i := range n {
		n[i] = g.comp(wild)
	}
	return n
}

// mutate returns a name adversarially close to n
func (g *gen) mutate(n enc.Name) enc.Name {
	m := n.Clone()
	switch g.r.Intn(8) {
	case 0:
		return m
	case 1:
		if len(m) > 0 {
			return m[:g.r.Intn(len(m))]
		}
	case 2:
		return append(m, g.comp(false))
	case 3, 4:
		if len(m) > 0 {
			i := g.r.Intn(len(m))
			if len(m[i].Val) > 0 {
				j := g.r.Intn(len(m[i].Val))
				m[i].Val[j] ^= byte(1 << uint(g.r.Intn(8)))
			} else {
				m[i].Val = []byte{0}
			}
		}
	case 5:
		if len(m) > 0 {
			i := g.r.Intn(len(m))
			if g.r.Intn(2) == 0 {
				m[i].Typ++
			} else if m[i].Typ > 0 {
				m[i].Typ--
			}
		}
	case 6:
		if len(m) > 0 {
			i := g.r.Intn(len(m))
			if len(m[i].Val) > 0 && g.r.Intn(2) == 0 {
				m[i].Val = m[i].Val[:len(m[i].Val)-1]
			} else {
				m[i].Val = append(m[i].Val, byte(g.r.Intn(256)))
			}
		}
	case 7:
		return g.name(false)
	}
	return m
}

func uriWf(n enc.Name) bool {
	for _, c := range n {
		if c.Typ < 1 || c.Typ > 65535 {
			return false
		}
		if c.Typ >= 50 && c.Typ <= 58 && c.Typ%2 == 0 {
			// numeric conventions: value must be the shortest-form Nat encoding
			if l := len(c.Val); l != 1 && l != 2 && l != 4 && l != 8 {
				return false
			}
			x := uint64(0)
			for _, b := range c.Val {
				x = x<<8 | uint64(b)
			}
			if len(enc.Nat(x).Bytes()) != len(c.Val) {
				return false
			}
		}
	}
	return true
}

func parseLine(w *bufio.Writer, kind string, s string, extra string) {
	var res string
	func() {
		defer func() {
			if e := recover(); e != nil {
				res = "panic"
			}
		}()
		n, err := enc.NameFromStr(s)
		if err != nil {
			res = "err"
		} else {
			res = "ok " + nameStr(n)
		}
	}()
	fmt.Fprintf(w, "%s %s%s %s\n", kind, extra, "", res)
}

func (g *gen) uriString() string {
	alphabet := []string{"/", "/", "=", "%", "%4", "%41", "%zz", "a", "b", ".", "..", "seg", "v", "t", "off", "seq", "sha256digest", "params-sha256",
		"0", "1", "8", "9", "32", "65535", "65536", "18446744073709551615", "18446744073709551616", "00", "ff", "FF", "\\", " ", "\xff", "\xc3\xa9", "+", "-", "~", "_"}
	var sb strings.Builder
	k := g.r.Intn(8)
	for i := 0; i < k; i++ {
		sb.WriteString(alphabet[g.r.Intn(len(alphabet))])
	}
	return sb.String()
}

func TestTrace(t *testing.T) {
	seed, _ := strconv.ParseInt(os.Getenv("VERIF_SEED"), 10, 64)
	ncases, _ := strconv.Atoi(os.Getenv("VERIF_N"))
	if ncases == 0 {
		ncases = 200
	}
	out := os.Getenv("VERIF_OUT")
	if out == "" {
		t.Skip("VERIF_OUT not set")
	}
	f, err := os.Create(out)
	if err != nil {
		t.Fatal(err)
	}
	defer f.Close()
	w := bufio.NewWriter(f)
	defer w.Flush()
	g := &gen{r: rand.New(rand.NewSource(seed))}
	b01 := func(b bool) string {
		if b {
			return "1"
		}
		return "0"
	}
	// fixed corpus of parser inputs first (regressions)
	for _, s := range []string{"", "/", "//", "/=abc", "=", "/a/=", "/8=a", "/0=a", "/seg=", "/seg=x", "/v=18446744073709551616", "/%", "/%4", "/a%2Fb", "/sha256digest=0", "/sha256digest=zz", "/a=b=c", "///", "/./..", "/65536=a", "/1=abcd"} {
		parseLine(w, "PARSE", s, hx([]byte(s)))
	}
	for i := 0; i < ncases; i++ {
		a := g.name(true)
		b := g.mutate(a)
		fmt.Fprintf(w, "PAIR %s %s %d %s %s %s\n", nameStr(a), nameStr(b), a.Compare(b), b01(a.Equal(b)), b01(a.IsPrefix(b)), b01(b.IsPrefix(a)))
		fmt.Fprintf(w, "BYTES %s %s\n", nameStr(a), hx(a.Bytes()))
		// NameFromBytes on the encoding, on a truncation, and on a mutated copy
		bs := a.Bytes()
		inputs := [][]byte{bs}
		if len(bs) > 0 {
			inputs = append(inputs, bs[:g.r.Intn(len(bs))])
			m := append([]byte(nil), bs...)
			m[g.r.Intn(len(m))] = byte(g.r.Intn(256))
			inputs = append(inputs, m)
		}
		for _, in := range inputs {
			var res string
			func() {
				defer func() {
					if e := recover(); e != nil {
						res = "panic"
					}
				}()
				n, err := enc.NameFromBytes(in)
				if err != nil {
					res = "err"
				} else {
					res = "ok " + nameStr(n)
				}
			}()
			fmt.Fprintf(w, "FROMBYTES %s %s\n", hx(in), res)
		}
		// hashes: equal names hash equally, i-th prefix hash = hash of the i-component prefix
		hok := true
		c := a.Clone()
		if c.Hash() != a.Hash() {
			hok = false
		}
		ph := a.PrefixHash()
		if len(ph) != len(a)+1 {
			hok = false
		} else {
			for k := 0; k <= len(a); k++ {
				if ph[k] != a[:k].Clone().Hash() {
					hok = false
				}
			}
		}
		fmt.Fprintf(w, "HASH %s %s\n", nameStr(a), b01(hok))
		// URI
		u := g.name(g.r.Intn(4) == 0)
		fmt.Fprintf(w, "STR %s %s\n", nameStr(u), hx([]byte(u.String())))
		parseLine(w, "RT", u.String(), nameStr(u)+" "+b01(uriWf(u)))
		s := g.uriString()
		parseLine(w, "PARSE", s, hx([]byte(s)))
	}
}
