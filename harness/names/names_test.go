// Harness for C14: drives the std/encoding name functions on generated inputs and writes a trace for the Coq runner.
//
// Every trace line is "<KIND> <inputs...> <observations...>" (single spaces).  The inputs alone determine the line:
// TestReplay re-executes the implementation on the inputs of given lines (corpus files, replay files), so a stored
// line is a stored test case.  Line formats are documented in runner/Names/driver.ml.
package names

import (
	"bufio"
	"bytes"
	"crypto/sha256"
	"encoding/hex"
	"fmt"
	"math/rand"
	"os"
	"path/filepath"
	"sort"
	"strconv"
	"strings"
	"testing"

	"github.com/cespare/xxhash"
	enc "github.com/named-data/ndnd/std/encoding"
)

// ---------------------------------------------------------------------------------------------------------------
// text forms

func hx(b []byte) string {
	if len(b) == 0 {
		return "-"
	}
	return hex.EncodeToString(b)
}

func unhx(s string) []byte {
	if s == "-" {
		return []byte{}
	}
	b, err := hex.DecodeString(s)
	if err != nil {
		panic("bad hex in input line: " + s)
	}
	return b
}

func compStr(c enc.Component) string {
	return strconv.FormatUint(uint64(c.Typ), 10) + ":" + hex.EncodeToString(c.Val)
}

func nameStr(n enc.Name) string {
	if len(n) == 0 {
		return "-"
	}
	parts := make([]string, len(n))
	for i, c := range n {
		parts[i] = compStr(c)
	}
	return strings.Join(parts, ",")
}

func parseComp(s string) enc.Component {
	i := strings.IndexByte(s, ':')
	t, err := strconv.ParseUint(s[:i], 10, 64)
	if err != nil {
		panic("bad component in input line: " + s)
	}
	v, err := hex.DecodeString(s[i+1:])
	if err != nil {
		panic("bad component in input line: " + s)
	}
	return enc.Component{Typ: enc.TLNum(t), Val: v}
}

func parseName(s string) enc.Name {
	if s == "-" {
		return enc.Name{}
	}
	parts := strings.Split(s, ",")
	n := make(enc.Name, len(parts))
	for i, p := range parts {
		n[i] = parseComp(p)
	}
	return n
}

func cpatStr(c enc.ComponentPattern) string {
	switch v := c.(type) {
	case enc.Component:
		return "C~" + compStr(v)
	case *enc.Component:
		return "C~" + compStr(*v)
	case enc.Pattern:
		return "P~" + strconv.FormatUint(uint64(v.Typ), 10) + ":" + hex.EncodeToString([]byte(v.Tag))
	case *enc.Pattern:
		return "P~" + strconv.FormatUint(uint64(v.Typ), 10) + ":" + hex.EncodeToString([]byte(v.Tag))
	default:
		return "?"
	}
}

func npatStr(n enc.NamePattern) string {
	if len(n) == 0 {
		return "-"
	}
	parts := make([]string, len(n))
	for i, c := range n {
		parts[i] = cpatStr(c)
	}
	return strings.Join(parts, ",")
}

func b01(b bool) string {
	if b {
		return "1"
	}
	return "0"
}

// ---------------------------------------------------------------------------------------------------------------
// emitters: run the implementation on given inputs, write one trace line, count the category

type emitter struct {
	w    *bufio.Writer
	dist map[string]int
	ops  *os.File // <trace>.ops: kind and inputs of every operation, written unbuffered BEFORE it is executed
}

// op logs the operation about to be executed; after an abort (a panic that escapes recover, a runtime fatal error, a
// timeout) the last line of the .ops file names the operation that was running, and it is a replayable input line.
func (e *emitter) op(kind string, ins ...string) {
	if e.ops != nil {
		e.ops.WriteString(kind + " " + strings.Join(ins, " ") + "\n")
	}
}

// safe variants of implementation calls made by the generators themselves: a panic becomes a trace line (an oracle
// failure with that name as the replay) instead of aborting the harness
func (e *emitter) bytesOf(n enc.Name) []byte {
	var bs []byte
	e.op("BYTES", nameStr(n))
	if guard(func() string { bs = n.Bytes(); return "" }) == "panic" {
		fmt.Fprintf(e.w, "BYTES %s panic\n", nameStr(n))
		return nil
	}
	return bs
}

func (e *emitter) compBytesOf(c enc.Component) []byte {
	var bs []byte
	e.op("COMP", compStr(c), compStr(c))
	if guard(func() string { bs = c.Bytes(); return "" }) == "panic" {
		fmt.Fprintf(e.w, "COMP %s %s panic\n", compStr(c), compStr(c))
		return nil
	}
	return bs
}

func (e *emitter) compStringOf(c enc.Component) string {
	var r string
	e.op("CSTR", compStr(c))
	if guard(func() string { r = c.String(); return "" }) == "panic" {
		fmt.Fprintf(e.w, "CSTR %s panic\n", compStr(c))
		return ""
	}
	return r
}

func (e *emitter) count(k string) { e.dist[k]++ }

// guard runs f and returns "panic" if it panicked
func guard(f func() string) (res string) {
	defer func() {
		if r := recover(); r != nil {
			res = "panic"
		}
	}()
	return f()
}

// deriveAlias builds two operands that alias each other in memory out of one private copy of full.
//   sub:i:j:k     a = base[i:j], b = base[i:k]            same first element, different lengths (prefix related)
//   ovl:i:j:i2:k  a = base[i:j], b = base[i2:k]           overlapping windows of one backing array
//   same:i:j      a = b = base[i:j]                       the same slice twice
//   clone:i:j     a = base[i:j], b = a.Clone()            equal values, disjoint memory
//   val:i:j       a = base[i:j], b = fresh slice of the same Component structs (shared Val buffers)
//   cap:i:j       a = base[i:j], b = append(a, base[0])   written in place into a's spare capacity when j < len(base)
func deriveAlias(shape string, full enc.Name) (a, b enc.Name, ok bool) {
	f := strings.Split(shape, ":")
	base := cloneName(full)
	num := func(k int) int {
		if k >= len(f) {
			return -1
		}
		v, err := strconv.Atoi(f[k])
		if err != nil {
			return -1
		}
		return v
	}
	in := func(i, j int) bool { return 0 <= i && i <= j && j <= len(base) }
	switch f[0] {
	case "sub":
		i, j, k := num(1), num(2), num(3)
		if len(f) != 4 || !in(i, j) || !in(i, k) {
			return nil, nil, false
		}
		return base[i:j], base[i:k], true
	case "ovl":
		i, j, i2, k := num(1), num(2), num(3), num(4)
		if len(f) != 5 || !in(i, j) || !in(i2, k) {
			return nil, nil, false
		}
		return base[i:j], base[i2:k], true
	case "rep":
		// rep:ra:rb:i:j — the SAME value base[i:j] presented in two Go representations (see present)
		i, j := num(3), num(4)
		if len(f) != 5 || !in(i, j) || len(f[1]) != 1 || len(f[2]) != 1 {
			return nil, nil, false
		}
		a, ok1 := present(f[1][0], base[i:j])
		b, ok2 := present(f[2][0], base[i:j])
		return a, b, ok1 && ok2
	case "same", "clone", "val", "cap":
		i, j := num(1), num(2)
		if len(f) != 3 || !in(i, j) {
			return nil, nil, false
		}
		a = base[i:j]
		switch f[0] {
		case "same":
			return a, a, true
		case "clone":
			return a, a.Clone(), true
		case "val":
			b = make(enc.Name, len(a))
			copy(b, a)
			return a, b, true
		default:
			if len(base) == 0 {
				return nil, nil, false
			}
			return a, append(a, base[0]), true
		}
	}
	return nil, nil, false
}

func eqNames(a, b enc.Name) bool {
	if len(a) != len(b) {
		return false
	}
	for i := range a {
		if a[i].Typ != b[i].Typ || !bytes.Equal(a[i].Val, b[i].Val) {
			return false
		}
	}
	return true
}

// present returns the value w in a particular Go representation; the model has ONE value for all of them (the encoding
// decides), so Equal/Compare/IsPrefix/Hash/Bytes/String must not distinguish them.
//   s  the slice as it is (a window of the backing array; w[:0]-style when empty)
//   n  the zero value Name(nil) when w is empty (else s)
//   z  nilName[:0] when w is empty (else s)
//   e  Name{} (non-nil, empty literal) when w is empty, else a fresh copy
//   c  w.Clone()
//   p  what the URI parser returns for w.String()           (when it returns the same value, else s)
//   d  what the wire decoder returns for w.Bytes()          (when it returns the same value, else s)
//   v  fresh copy whose empty component values are nil      w  fresh copy whose empty component values are []byte{}
func present(rep byte, w enc.Name) (enc.Name, bool) {
	switch rep {
	case 's':
		return w, true
	case 'n':
		if len(w) == 0 {
			return enc.Name(nil), true
		}
		return w, true
	case 'z':
		if len(w) == 0 {
			var x enc.Name
			return x[:0], true
		}
		return w, true
	case 'e':
		if len(w) == 0 {
			return enc.Name{}, true
		}
		return cloneName(w), true
	case 'c':
		return w.Clone(), true
	case 'p':
		if r, err := enc.NameFromStr(w.String()); err == nil && eqNames(r, w) {
			return r, true
		}
		return w, true
	case 'd':
		if r, err := enc.NameFromBytes(w.Bytes()); err == nil && eqNames(r, w) {
			return r, true
		}
		return w, true
	case 'v', 'w':
		m := make(enc.Name, len(w))
		for i, c := range w {
			m[i] = enc.Component{Typ: c.Typ, Val: append([]byte{}, c.Val...)}
			if len(c.Val) == 0 {
				if rep == 'v' {
					m[i].Val = nil
				} else {
					m[i].Val = []byte{}
				}
			}
		}
		if len(w) == 0 && rep == 'v' {
			return nil, true
		}
		return m, true
	}
	return nil, false
}

// apair: every relational call family on operands that alias in memory; the answers must depend on the values only
func (e *emitter) apair(shape string, full enc.Name) {
	e.op("APAIR", shape, nameStr(full))
	var a, b enc.Name
	ok := false
	if guard(func() string { a, b, ok = deriveAlias(shape, full); return "" }) == "panic" {
		fmt.Fprintf(e.w, "APAIR %s %s panic\n", shape, nameStr(full))
		return
	}
	if !ok {
		fmt.Fprintf(e.w, "BADINPUT APAIR\n")
		return
	}
	e.count("APAIR-" + strings.SplitN(shape, ":", 2)[0])
	obs := guard(func() string {
		o := fmt.Sprintf("%d %s %s %s %d %s %s %s", a.Compare(b), b01(a.Equal(b)), b01(a.IsPrefix(b)), b01(b.IsPrefix(a)),
			b.Compare(a), b01(a.Hash() == b.Hash()), hx(a.Bytes()), hx(b.Bytes()))
		o += " " + hx([]byte(a.String())) + " " + hx([]byte(b.String()))
		hok := true
		for _, n := range []enc.Name{a, b} {
			ph := n.PrefixHash()
			if len(ph) != len(n)+1 {
				hok = false
				continue
			}
			for k := 0; k <= len(n); k++ {
				if ph[k] != n[:k].Hash() || ph[k] != n[:k].Clone().Hash() {
					hok = false
				}
			}
		}
		// the common prefix of a and b hashes identically from either operand
		pa, pb := a.PrefixHash(), b.PrefixHash()
		for k := 0; k < len(pa) && k < len(pb); k++ {
			if a[:k].Equal(b[:k]) != (pa[k] == pb[k]) {
				hok = false
			}
		}
		return o + " " + b01(hok) + " " + nameStr(a) + " " + nameStr(b)
	})
	fmt.Fprintf(e.w, "APAIR %s %s %s\n", shape, nameStr(full), obs)
}

// recHash is a hash.Hash that records every byte written to it: Component.HashInto takes the hasher as an argument, so
// the exact byte stream the implementation feeds can be observed without any hook.
type recHash struct{ buf []byte }

func (r *recHash) Write(p []byte) (int, error) { r.buf = append(r.buf, p...); return len(p), nil }
func (r *recHash) Sum(b []byte) []byte         { return b }
func (r *recHash) Reset()                      { r.buf = r.buf[:0] }
func (r *recHash) Size() int                   { return 8 }
func (r *recHash) BlockSize() int              { return 1 }

func fillVal(l int, seed int) []byte {
	v := make([]byte, l)
	for i := range v {
		v[i] = byte(seed + i)
	}
	return v
}

// value specs of the hash-input lines: x:<hex> explicit, z:<len> zero filled (zero-filled values of different lengths are
// prefixes of one another, which is what exposes a layout that does not delimit the value)
func specVal(spec string) ([]byte, bool) {
	f := strings.Split(spec, ":")
	if len(f) != 2 {
		return nil, false
	}
	switch f[0] {
	case "x":
		v, err := hex.DecodeString(f[1])
		return v, err == nil
	case "z":
		l, err := strconv.Atoi(f[1])
		if err != nil || l < 0 || l > 1<<28 {
			return nil, false
		}
		return make([]byte, l), true
	}
	return nil, false
}

func valSpec(v []byte) string {
	if len(v) > 32 && len(bytes.Trim(v, "\x00")) == 0 {
		return "z:" + strconv.Itoa(len(v))
	}
	return "x:" + hex.EncodeToString(v)
}

// stream records what HashInto feeds for one component; det = the same bytes are fed again for the same value held in
// different memory (a clone) and when called a second time
func stream(c enc.Component) (s []byte, det bool) {
	r := &recHash{}
	c.HashInto(r)
	s = append([]byte(nil), r.buf...)
	r2 := &recHash{}
	c.Clone().HashInto(r2)
	r3 := &recHash{}
	c.HashInto(r3)
	return s, bytes.Equal(s, r2.buf) && bytes.Equal(s, r3.buf)
}

// hin: the byte stream HashInto feeds for one component (layout-agnostic oracle in the runner: determinism, and
// prefix-freeness against every other component of the run)
func (e *emitter) hin(t uint64, spec string) {
	v, ok := specVal(spec)
	if !ok {
		fmt.Fprintf(e.w, "BADINPUT HIN\n")
		return
	}
	e.op("HIN", strconv.FormatUint(t, 10), spec)
	e.count("HIN")
	obs := guard(func() string {
		s, det := stream(enc.Component{Typ: enc.TLNum(t), Val: v})
		return hx(s) + " " + b01(det)
	})
	fmt.Fprintf(e.w, "HIN %d %s %s\n", t, spec, obs)
}

// hpair: the streams of two components (replay form of a prefix-freeness failure)
func (e *emitter) hpair(t1 uint64, spec1 string, t2 uint64, spec2 string) {
	v1, ok1 := specVal(spec1)
	v2, ok2 := specVal(spec2)
	if !ok1 || !ok2 {
		fmt.Fprintf(e.w, "BADINPUT HPAIR\n")
		return
	}
	e.op("HPAIR", strconv.FormatUint(t1, 10), spec1, strconv.FormatUint(t2, 10), spec2)
	e.count("HPAIR")
	obs := guard(func() string {
		s1, d1 := stream(enc.Component{Typ: enc.TLNum(t1), Val: v1})
		s2, d2 := stream(enc.Component{Typ: enc.TLNum(t2), Val: v2})
		return hx(s1) + " " + hx(s2) + " " + b01(d1 && d2)
	})
	fmt.Fprintf(e.w, "HPAIR %d %s %d %s %s\n", t1, spec1, t2, spec2, obs)
}

// hname: the HashInto streams of a name's components (comma separated), and whether Name.Hash, PrefixHash[i] and
// Component.Hash are xxhash of exactly the concatenation of these streams up to the respective component
func (e *emitter) hname(n enc.Name) {
	e.op("HNAME", nameStr(n))
	e.count("HNAME")
	obs := guard(func() string {
		var all []byte
		ok := true
		ph := n.PrefixHash()
		if len(ph) != len(n)+1 || ph[0] != xxhash.Sum64(nil) {
			ok = false
		}
		parts := make([]string, len(n))
		for i, c := range n {
			s, det := stream(c)
			if !det {
				ok = false
			}
			parts[i] = hx(s)
			all = append(all, s...)
			if c.Hash() != xxhash.Sum64(s) {
				ok = false
			}
			if i+1 < len(ph) && ph[i+1] != xxhash.Sum64(all) {
				ok = false
			}
		}
		if n.Hash() != xxhash.Sum64(all) {
			ok = false
		}
		ps := "none"
		if len(parts) > 0 {
			ps = strings.Join(parts, ",")
		}
		return ps + " " + b01(ok)
	})
	fmt.Fprintf(e.w, "HNAME %s %s\n", nameStr(n), obs)
}

func (e *emitter) pair(a, b enc.Name) {
	e.op("PAIR", nameStr(a), nameStr(b))
	e.count("PAIR")
	obs := guard(func() string {
		return fmt.Sprintf("%d %s %s %s %d %s %s %s", a.Compare(b), b01(a.Equal(b)), b01(a.IsPrefix(b)), b01(b.IsPrefix(a)),
			b.Compare(a), b01(a.Hash() == b.Hash()), hx(a.Bytes()), hx(b.Bytes()))
	})
	fmt.Fprintf(e.w, "PAIR %s %s %s\n", nameStr(a), nameStr(b), obs)
}

func (e *emitter) triple(a, b, c enc.Name) {
	e.op("TRIPLE", nameStr(a), nameStr(b), nameStr(c))
	e.count("TRIPLE")
	obs := guard(func() string {
		return fmt.Sprintf("%d %d %d %d %d %d", a.Compare(b), b.Compare(c), a.Compare(c), b.Compare(a), c.Compare(b), c.Compare(a))
	})
	fmt.Fprintf(e.w, "TRIPLE %s %s %s %s\n", nameStr(a), nameStr(b), nameStr(c), obs)
}

func (e *emitter) comp(c, d enc.Component) {
	e.op("COMP", compStr(c), compStr(d))
	e.count("COMP")
	obs := guard(func() string {
		return fmt.Sprintf("%d %s %s %s", c.Compare(d), b01(c.Equal(d)), hx(c.Bytes()), hx(d.Bytes()))
	})
	fmt.Fprintf(e.w, "COMP %s %s %s\n", compStr(c), compStr(d), obs)
}

func (e *emitter) nameBytes(a enc.Name) {
	e.op("BYTES", nameStr(a))
	e.count("BYTES")
	fmt.Fprintf(e.w, "BYTES %s %s\n", nameStr(a), guard(func() string { return hx(a.Bytes()) }))
}

func (e *emitter) brt(a enc.Name) {
	e.op("BRT", nameStr(a))
	e.count("BRT")
	res := guard(func() string {
		n, err := enc.NameFromBytes(a.Bytes())
		if err != nil {
			return "err"
		}
		return "ok " + nameStr(n)
	})
	fmt.Fprintf(e.w, "BRT %s %s\n", nameStr(a), res)
}

func (e *emitter) fromBytes(in []byte) {
	e.op("FROMBYTES", hx(in))
	e.count("FROMBYTES")
	res := guard(func() string {
		n, err := enc.NameFromBytes(in)
		if err != nil {
			return "err"
		}
		return "ok " + nameStr(n)
	})
	fmt.Fprintf(e.w, "FROMBYTES %s %s\n", hx(in), res)
}

func (e *emitter) compFromBytes(in []byte) {
	e.op("CFB", hx(in))
	e.count("CFB")
	res := guard(func() string {
		c, err := enc.ComponentFromBytes(in)
		if err != nil {
			return "err"
		}
		return "ok=" + compStr(c)
	})
	fmt.Fprintf(e.w, "CFB %s %s\n", hx(in), res)
}

func (e *emitter) hash(a enc.Name) {
	e.op("HASH", nameStr(a))
	e.count("HASH")
	res := guard(func() string {
		hok := true
		c := a.Clone()
		if c.Hash() != a.Hash() {
			hok = false
		}
		ph := a.PrefixHash()
		if len(ph) != len(a)+1 {
			hok = false
		} else {
			for k := 0; k <= len(a); k++ {
				if ph[k] != a[:k].Clone().Hash() {
					hok = false
				}
			}
		}
		// a single component hashes like the one-component name
		for _, c := range a {
			if c.Hash() != (enc.Name{c}).Hash() {
				hok = false
			}
		}
		return b01(hok)
	})
	fmt.Fprintf(e.w, "HASH %s %s\n", nameStr(a), res)
}

func parseRes(s string) string {
	return guard(func() string {
		n, err := enc.NameFromStr(s)
		if err != nil {
			return "err"
		}
		return "ok " + nameStr(n)
	})
}

func cparseRes(s string) string {
	return guard(func() string {
		c, err := enc.ComponentFromStr(s)
		if err != nil {
			return "err"
		}
		return "ok=" + compStr(c)
	})
}

func (e *emitter) str(u enc.Name) {
	e.op("STR", nameStr(u))
	e.count("STR")
	fmt.Fprintf(e.w, "STR %s %s\n", nameStr(u), guard(func() string { return hx([]byte(u.String())) }))
}

func (e *emitter) rt(u enc.Name) {
	e.op("RT", nameStr(u))
	e.count("RT")
	res := guard(func() string { return parseRes(u.String()) })
	fmt.Fprintf(e.w, "RT %s %s\n", nameStr(u), res)
}

func (e *emitter) cstr(c enc.Component) {
	e.op("CSTR", compStr(c))
	e.count("CSTR")
	res := guard(func() string { return hx([]byte(c.String())) + " " + hx([]byte(c.CanonicalString())) })
	fmt.Fprintf(e.w, "CSTR %s %s\n", compStr(c), res)
}

func (e *emitter) crt(c enc.Component) {
	e.op("CRT", compStr(c))
	e.count("CRT")
	res := guard(func() string { return cparseRes(c.String()) + " " + cparseRes(c.CanonicalString()) })
	fmt.Fprintf(e.w, "CRT %s %s\n", compStr(c), res)
}

func (e *emitter) parse(s string) {
	e.op("PARSE", hx([]byte(s)))
	e.count("PARSE")
	fmt.Fprintf(e.w, "PARSE %s %s\n", hx([]byte(s)), parseRes(s))
}

func (e *emitter) cparse(s string) {
	e.op("CPARSE", hx([]byte(s)))
	e.count("CPARSE")
	fmt.Fprintf(e.w, "CPARSE %s %s\n", hx([]byte(s)), cparseRes(s))
}

func (e *emitter) pparse(s string) {
	e.op("PPARSE", hx([]byte(s)))
	e.count("PPARSE")
	res := guard(func() string {
		n, err := enc.NamePatternFromStr(s)
		if err != nil {
			return "err"
		}
		return "ok " + npatStr(n) + " " + hx([]byte(n.String()))
	})
	fmt.Fprintf(e.w, "PPARSE %s %s\n", hx([]byte(s)), res)
}

func (e *emitter) cpparse(s string) {
	e.op("CPPARSE", hx([]byte(s)))
	e.count("CPPARSE")
	res := guard(func() string {
		c, err := enc.ComponentPatternFromStr(s)
		if err != nil {
			return "err"
		}
		return "ok " + cpatStr(c) + " " + hx([]byte(c.String()))
	})
	fmt.Fprintf(e.w, "CPPARSE %s %s\n", hx([]byte(s)), res)
}

func (e *emitter) ppair(s1, s2 string) {
	e.op("PPAIR", hx([]byte(s1)), hx([]byte(s2)))
	e.count("PPAIR")
	res := guard(func() string {
		p1, err1 := enc.NamePatternFromStr(s1)
		p2, err2 := enc.NamePatternFromStr(s2)
		if err1 != nil || err2 != nil {
			return "err"
		}
		return fmt.Sprintf("ok %d %s", p1.Compare(p2), b01(p1.Equal(p2)))
	})
	fmt.Fprintf(e.w, "PPAIR %s %s %s\n", hx([]byte(s1)), hx([]byte(s2)), res)
}

func (e *emitter) full(a enc.Name) {
	e.op("FULL", nameStr(a))
	e.count("FULL")
	raw := []byte{6, 3, 7, 1, 0}
	dg := sha256.Sum256(raw)
	res := guard(func() string {
		n := a.Clone().ToFullName(enc.Wire{raw})
		return "ok " + nameStr(n)
	})
	fmt.Fprintf(e.w, "FULL %s %s %s\n", nameStr(a), hex.EncodeToString(dg[:]), res)
}

// csreq records a request for the Content Store probe, which lives in its own harness package (harness/namescs:
// it depends on fw/table, not on std/encoding alone); the check script feeds these lines to it.
func (e *emitter) csreq(x, y enc.Name) {
	e.count("CSREQ")
	fmt.Fprintf(e.w, "CSREQ %s %s\n", nameStr(x), nameStr(y))
}

// conventions: black-box probe of the naming-convention table through Component.String()
func (e *emitter) conventions() {
	probe := func(t uint64) {
		e.op("CSTR", strconv.FormatUint(t, 10)+":01")
		s := ""
		if guard(func() string { s = enc.Component{Typ: enc.TLNum(t), Val: []byte{1}}.String(); return "" }) == "panic" {
			fmt.Fprintf(e.w, "CSTR %d:01 panic\n", t)
			return
		}
		i := strings.IndexByte(s, '=')
		if i < 0 {
			if t != 8 {
				fmt.Fprintf(e.w, "CONV %d %s noeq\n", t, hx([]byte(s)))
			}
			return
		}
		pre, val := s[:i], s[i+1:]
		if pre == strconv.FormatUint(t, 10) && val == "%01" {
			return // no convention
		}
		f := "?"
		switch val {
		case "1":
			f = "dec"
		case "01":
			f = "hex"
		case "%01":
			f = "text"
		}
		fmt.Fprintf(e.w, "CONV %d %s %s\n", t, hx([]byte(pre)), f)
		e.count("CONV")
	}
	for t := uint64(0); t <= 70000; t++ {
		probe(t)
	}
	for _, t := range []uint64{1 << 32, 1<<32 + 50, 1<<63 + 50, 1<<64 - 1} {
		probe(t)
	}
}

// harness-side helpers that do not go through the implementation
func natBytes(x uint64) []byte {
	switch {
	case x <= 0xff:
		return []byte{byte(x)}
	case x <= 0xffff:
		return []byte{byte(x >> 8), byte(x)}
	case x <= 0xffffffff:
		return []byte{byte(x >> 24), byte(x >> 16), byte(x >> 8), byte(x)}
	default:
		return []byte{byte(x >> 56), byte(x >> 48), byte(x >> 40), byte(x >> 32), byte(x >> 24), byte(x >> 16), byte(x >> 8), byte(x)}
	}
}

func valBytes(n enc.Name) int {
	t := 0
	for _, c := range n {
		t += len(c.Val) + 12
	}
	return t
}

func cloneName(n enc.Name) enc.Name {
	m := make(enc.Name, len(n))
	for i, c := range n {
		m[i] = enc.Component{Typ: c.Typ, Val: append([]byte{}, c.Val...)}
	}
	return m
}

func (e *emitter) streamOf(c enc.Component) []byte {
	var s []byte
	e.op("HIN", strconv.FormatUint(uint64(c.Typ), 10), valSpec(c.Val))
	if guard(func() string { s, _ = stream(c); return "" }) == "panic" {
		fmt.Fprintf(e.w, "HIN %d %s panic\n", uint64(c.Typ), valSpec(c.Val))
		return nil
	}
	return s
}

// reexec re-executes the implementation on the inputs of a stored trace line
func (e *emitter) reexec(line string) bool {
	f := strings.Split(strings.TrimSpace(line), " ")
	if len(f) < 2 {
		return false
	}
	defer func() {
		if r := recover(); r != nil {
			fmt.Fprintf(e.w, "BADINPUT %s\n", f[0])
		}
	}()
	switch f[0] {
	case "PAIR":
		e.pair(parseName(f[1]), parseName(f[2]))
	case "APAIR":
		e.apair(f[1], parseName(f[2]))
	case "TRIPLE":
		e.triple(parseName(f[1]), parseName(f[2]), parseName(f[3]))
	case "COMP":
		e.comp(parseComp(f[1]), parseComp(f[2]))
	case "BYTES":
		e.nameBytes(parseName(f[1]))
	case "BRT":
		e.brt(parseName(f[1]))
	case "FROMBYTES":
		e.fromBytes(unhx(f[1]))
	case "CFB":
		e.compFromBytes(unhx(f[1]))
	case "HASH":
		e.hash(parseName(f[1]))
	case "HIN":
		t, err := strconv.ParseUint(f[1], 10, 64)
		if err != nil {
			panic(err)
		}
		e.hin(t, f[2])
	case "HPAIR":
		t1, err1 := strconv.ParseUint(f[1], 10, 64)
		t2, err2 := strconv.ParseUint(f[3], 10, 64)
		if err1 != nil || err2 != nil {
			panic("bad HPAIR")
		}
		e.hpair(t1, f[2], t2, f[4])
	case "HNAME":
		e.hname(parseName(f[1]))
	case "STR":
		e.str(parseName(f[1]))
	case "RT":
		e.rt(parseName(f[1]))
	case "CSTR":
		e.cstr(parseComp(f[1]))
	case "CRT":
		e.crt(parseComp(f[1]))
	case "PARSE":
		e.parse(string(unhx(f[1])))
	case "CPARSE":
		e.cparse(string(unhx(f[1])))
	case "PPARSE":
		e.pparse(string(unhx(f[1])))
	case "CPPARSE":
		e.cpparse(string(unhx(f[1])))
	case "PPAIR":
		e.ppair(string(unhx(f[1])), string(unhx(f[2])))
	case "FULL":
		e.full(parseName(f[1]))
	case "CSHIT", "CSREQ":
		e.csreq(parseName(f[1]), parseName(f[2]))
	default:
		return false
	}
	return true
}

// ---------------------------------------------------------------------------------------------------------------
// generators

type gen struct {
	r    *rand.Rand
	e    *emitter
	huge int // remaining budget of 65535/65536-byte components
}

var interestingTypes = []uint64{8, 8, 8, 8, 8, 8, 8, 8, 8, 8, 8, 8, 1, 2, 32, 50, 52, 54, 56, 58, 9, 7, 49, 51, 59, 252, 253, 254, 255, 256, 65534, 65535}
var wildTypes = []uint64{0, 65536, 65537, 1<<32 - 1, 1 << 32, 1<<32 + 1, 1<<63 - 1, 1 << 63, 1<<64 - 1}
var specialBytes = []byte{'.', '%', '=', '/', '\\', '~', '-', '_', 'a', 'z', 'A', 'Z', '0', '9', 0, 0x7f, 0x80, 0xff, 0xb2, ' ', '+', '<', '>', '@', '[', '`', '{', ':', 0xc3, 0xa9}
var boundaryLens = []int{252, 253, 254, 255, 256, 257, 300}
var hugeLens = []int{65535, 65536, 65537}
var natValues = []uint64{0, 1, 5, 252, 253, 255, 256, 257, 65535, 65536, 1<<32 - 1, 1 << 32, 1<<63 - 1, 1 << 63, 1<<64 - 1}

func (g *gen) lenClass(l int) string {
	switch {
	case l == 0:
		return "len0"
	case l == 1:
		return "len1"
	case l < 252:
		return "len2-251"
	case l <= 257:
		return "len" + strconv.Itoa(l)
	case l < 65535:
		return "len258-65534"
	default:
		return "len" + strconv.Itoa(l)
	}
}

func (g *gen) fill(l int) []byte {
	b := make([]byte, l)
	switch g.r.Intn(3) {
	case 0:
		for i := range b {
			b[i] = byte('a' + g.r.Intn(3))
		}
	case 1:
		for i := range b {
			b[i] = byte(g.r.Intn(256))
		}
	default:
		for i := range b {
			b[i] = specialBytes[g.r.Intn(len(specialBytes))]
		}
	}
	return b
}

func (g *gen) val() []byte {
	switch g.r.Intn(12) {
	case 0:
		return []byte{}
	case 1:
		return []byte{'.'}
	case 2:
		return []byte{'.', '.'}
	case 3: // encoding-boundary sized
		return g.fill(boundaryLens[g.r.Intn(len(boundaryLens))])
	case 4:
		if g.huge > 0 && g.r.Intn(3) == 0 {
			g.huge--
			return g.fill(hugeLens[g.r.Intn(len(hugeLens))])
		}
		return g.fill(1)
	case 5: // looks like URI syntax
		s := []string{"seg=5", "a=b", "8=a", "%41", "%", "%4", "a/b", "/", "=", "sha256digest=00", "...", "<x>", "<seg=x>"}
		return []byte(s[g.r.Intn(len(s))])
	default:
		l := g.r.Intn(6)
		b := make([]byte, l)
		for i := range b {
			if g.r.Intn(2) == 0 {
				b[i] = specialBytes[g.r.Intn(len(specialBytes))]
			} else {
				b[i] = byte(g.r.Intn(256))
			}
		}
		return b
	}
}

func (g *gen) typ(wild bool) uint64 {
	if wild && g.r.Intn(5) == 0 {
		return wildTypes[g.r.Intn(len(wildTypes))]
	}
	if g.r.Intn(12) == 0 {
		return uint64(1 + g.r.Intn(65535))
	}
	return interestingTypes[g.r.Intn(len(interestingTypes))]
}

func isNumConv(t uint64) bool { return t >= 50 && t <= 58 && t%2 == 0 }

func (g *gen) comp(wild bool) enc.Component {
	t := g.typ(wild)
	v := g.val()
	if isNumConv(t) {
		switch g.r.Intn(8) {
		case 0: // arbitrary value (usually non-shortest)
		case 1: // non-shortest on purpose: leading zero bytes / odd widths / 9 bytes
			x := natValues[g.r.Intn(len(natValues))]
			v = append(make([]byte, 1+g.r.Intn(3)), natBytes(x)...)
		default:
			x := natValues[g.r.Intn(len(natValues))]
			if g.r.Intn(3) == 0 {
				x = g.r.Uint64() >> uint(g.r.Intn(64))
			}
			v = natBytes(x)
		}
	}
	g.e.count("comp-" + g.lenClass(len(v)))
	switch {
	case t == 8:
		g.e.count("typ-generic")
	case t == 1 || t == 2:
		g.e.count("typ-sha")
	case isNumConv(t):
		g.e.count("typ-numconv")
	case t == 0 || t > 65535:
		g.e.count("typ-outside-1..65535")
	case t >= 252 && t <= 256:
		g.e.count("typ-252..256")
	default:
		g.e.count("typ-other")
	}
	return enc.Component{Typ: enc.TLNum(t), Val: v}
}

func (g *gen) name(wild bool) enc.Name {
	l := g.r.Intn(5)
	if g.r.Intn(20) == 0 {
		l = 5 + g.r.Intn(12)
	}
	n := make(enc.Name, l)
	for i := range n {
		n[i] = g.comp(wild)
	}
	return n
}

// mutate returns a name adversarially close to n
func (g *gen) mutate(n enc.Name) enc.Name {
	m := cloneName(n)
	k := g.r.Intn(11)
	g.e.count("mut-" + []string{"same", "prefix", "extend", "bitflip", "bitflip", "typ+-1", "len+-1", "fresh", "swaplen", "dup-last", "byte+-1"}[k])
	switch k {
	case 0:
		return m
	case 1:
		if len(m) > 0 {
			return m[:g.r.Intn(len(m))]
		}
	case 2:
		return append(m, g.comp(false))
	case 3, 4:
		if len(m) > 0 {
			i := g.r.Intn(len(m))
			if len(m[i].Val) > 0 {
				j := g.r.Intn(len(m[i].Val))
				m[i].Val[j] ^= byte(1 << uint(g.r.Intn(8)))
			} else {
				m[i].Val = []byte{0}
			}
		}
	case 5:
		if len(m) > 0 {
			i := g.r.Intn(len(m))
			if g.r.Intn(2) == 0 {
				m[i].Typ++
			} else if m[i].Typ > 0 {
				m[i].Typ--
			}
		}
	case 6:
		if len(m) > 0 {
			i := g.r.Intn(len(m))
			if len(m[i].Val) > 0 && g.r.Intn(2) == 0 {
				m[i].Val = m[i].Val[:len(m[i].Val)-1]
			} else {
				m[i].Val = append(m[i].Val, byte(g.r.Intn(256)))
			}
		}
	case 7:
		return g.name(false)
	case 8: // shorter value with larger bytes vs longer value with smaller bytes (length before bytes)
		if len(m) > 0 {
			i := g.r.Intn(len(m))
			v := m[i].Val
			if len(v) > 0 {
				w := append([]byte(nil), v[:len(v)-1]...)
				if len(w) > 0 {
					w[0] = 0xff
				}
				m[i].Val = w
			} else {
				m[i].Val = []byte{0, 0}
			}
		}
	case 9:
		if len(m) > 0 {
			return append(m, cloneName(enc.Name{m[len(m)-1]})[0])
		}
	case 10:
		if len(m) > 0 {
			i := g.r.Intn(len(m))
			if len(m[i].Val) > 0 {
				j := g.r.Intn(len(m[i].Val))
				if g.r.Intn(2) == 0 {
					m[i].Val[j]++
				} else {
					m[i].Val[j]--
				}
			}
		}
	}
	return m
}

var uriAlphabet = []string{"/", "/", "/", "=", "%", "%4", "%41", "%zz", "%2F", "%2f", "%3D", "%25", "a", "b", ".", "..", "...", "seg", "v", "t", "off", "seq",
	"sha256digest", "params-sha256", "seg=", "v=", "8=", "0=", "1=", "2=", "50=", "0", "1", "8", "9", "32", "007", "65535", "65536",
	"18446744073709551615", "18446744073709551616", "00", "ff", "FF", "aB", "\\", " ", "\xff", "\xc3\xa9", "\xef\xbc\x9d", "+", "-", "~", "_",
	"<", ">", "<a>", "<seg=n>", "<8=x>", "<=", "=>", "<>", "Seg", "SEG", "x=", "+1", "-1", "1e3", "0x10", "١"}

func (g *gen) uriString() string {
	var sb strings.Builder
	k := g.r.Intn(9)
	for i := 0; i < k; i++ {
		sb.WriteString(uriAlphabet[g.r.Intn(len(uriAlphabet))])
	}
	return sb.String()
}

// mostly well-formed URI with typed components
func (g *gen) goodUri() string {
	var sb strings.Builder
	k := g.r.Intn(5)
	for i := 0; i < k; i++ {
		sb.WriteString("/")
		switch g.r.Intn(7) {
		case 0:
			sb.WriteString([]string{"seg", "off", "v", "t", "seq"}[g.r.Intn(5)] + "=" + strconv.FormatUint(natValues[g.r.Intn(len(natValues))], 10))
		case 1:
			sb.WriteString([]string{"sha256digest", "params-sha256"}[g.r.Intn(2)] + "=" + hex.EncodeToString(g.fill(g.r.Intn(4))))
		case 2:
			v := g.val()
			if len(v) > 300 {
				v = v[:300]
			}
			sb.WriteString(strconv.Itoa(g.r.Intn(70000)) + "=" + g.e.compStringOf(enc.Component{Typ: 8, Val: v}))
		case 3:
			sb.WriteString("<" + []string{"", "seg=", "8=", "300=", "v="}[g.r.Intn(5)] + []string{"x", "tag", "", "a=b", "a/b"}[g.r.Intn(5)] + ">")
		default:
			v := g.val()
			if len(v) > 300 {
				v = v[:300]
			}
			sb.WriteString(g.e.compStringOf(enc.Component{Typ: 8, Val: v}))
		}
	}
	if g.r.Intn(4) == 0 {
		sb.WriteString("/")
	}
	return sb.String()
}

// malformed stream: take a string and damage it
func (g *gen) damage(s string) string {
	b := []byte(s)
	switch g.r.Intn(6) {
	case 0:
		if len(b) > 0 {
			b = b[:g.r.Intn(len(b))]
		}
	case 1:
		if len(b) > 0 {
			b[g.r.Intn(len(b))] = byte(g.r.Intn(256))
		}
	case 2:
		i := g.r.Intn(len(b) + 1)
		ins := []string{"=", "%", "/", "<", ">", "\\", "%g", "\x00"}[g.r.Intn(8)]
		b = append(b[:i:i], append([]byte(ins), b[i:]...)...)
	case 3:
		if len(b) > 1 {
			i := g.r.Intn(len(b) - 1)
			b = append(b[:i:i], b[i+1:]...)
		}
	case 4:
		b = append(b, b...)
	case 5:
		b = g.fill(g.r.Intn(12))
	}
	return string(b)
}

// ---------------------------------------------------------------------------------------------------------------
// fixed regression inputs (parsers) — always first

var fixedStrings = []string{"", "/", "//", "///", "/=abc", "=", "=a", "a=", "/a/=", "/8=a", "/0=a", "/seg=", "/seg=x", "/seg=5", "/50=%00%05",
	"/v=18446744073709551616", "/v=18446744073709551615", "/%", "/%4", "/%41", "/a%2Fb", "/a%2fb", "/sha256digest=0", "/sha256digest=zz",
	"/sha256digest=AB", "/a=b=c", "/./..", "/65536=a", "/65535=a", "/1=abcd", "/1=%ab", "<", ">", "<>", "<=>", "<a", "a>", "/<a>", "/<a>/", "/<seg=n>/b",
	"/<=x>", "/<x=y>", "/<8=a=b>", "/<0=t>", "/<70000=t>", "/a/<b>//", "<a>/<b>", "/<a/b>", "%41%", "%%41", "/a\\b", "a", "a/", "/a/", "/a//", "/a//b"}

func runFixed(e *emitter) {
	for _, s := range fixedStrings {
		e.parse(s)
		e.cparse(s)
		e.pparse(s)
		e.cpparse(s)
		e.cpparse(strings.TrimPrefix(s, "/"))
	}
	// structural witnesses named in the notes (informational: model and implementation must agree on them)
	a := enc.Name{{Typ: 8, Val: []byte{0, 0, 0, 0, 0, 0, 0, 8}}}
	b := enc.Name{{Typ: 8, Val: []byte{}}, {Typ: 8, Val: []byte{}}}
	e.pair(a, b) // same hash input before the HashInto fix, different names
	e.csreq(a, b)
	c := enc.Name{{Typ: 50, Val: []byte{0, 5}}}
	d := enc.Name{{Typ: 50, Val: []byte{5}}}
	e.pair(c, d) // same String(), different names
	e.str(c)
	e.str(d)
	e.rt(c)
	e.full(enc.Name{})
	e.full(d)
	e.full(enc.Name{{Typ: 1, Val: make([]byte, 32)}})
}

// systematic sweeps: all 256 byte values in each position of short values, every encoding-boundary length and type
func runSweeps(e *emitter, g *gen, thorough bool) {
	for b := 0; b < 256; b++ {
		vals := [][]byte{{byte(b)}, {byte(b), 'a'}, {'a', byte(b)}, {'%', byte(b), '0'}, {byte(b), byte(b)}}
		for vi, v := range vals {
			c := enc.Component{Typ: 8, Val: v}
			e.count("sweep-byte")
			e.cstr(c)
			e.crt(c)
			if vi < 3 {
				n := enc.Name{{Typ: 8, Val: []byte("p")}, c}
				e.rt(n)
				// neighbour in the order: next byte value in the same position
				w := append([]byte(nil), v...)
				for i := range w {
					if w[i] == byte(b) {
						w[i] = byte(b + 1)
						break
					}
				}
				e.pair(n, enc.Name{{Typ: 8, Val: []byte("p")}, {Typ: 8, Val: w}})
				e.comp(c, enc.Component{Typ: 8, Val: w})
			}
			// as a parser input, raw
			e.cparse(string(v))
		}
		// typed and hex/dec conventions with this byte
		for _, t := range []uint64{1, 32, 50, 300} {
			c := enc.Component{Typ: enc.TLNum(t), Val: []byte{byte(b)}}
			e.cstr(c)
			e.crt(c)
		}
		e.parse("/" + string([]byte{byte(b)}))
		e.parse("/a" + string([]byte{byte(b)}) + "b/c")
		e.parse("/%" + string([]byte{byte(b)}) + "1")
		e.parse("/%4" + string([]byte{byte(b)}))
		e.parse("/" + string([]byte{byte(b)}) + "=a")
		e.parse("/seg=" + string([]byte{byte(b)}))
		e.parse("/sha256digest=a" + string([]byte{byte(b)}))
		e.pparse("/<" + string([]byte{byte(b)}) + ">")
		e.pparse("/" + string([]byte{byte(b)}) + "a>")
		e.cpparse("<a" + string([]byte{byte(b)}))
	}
	// hash-input adversarial set: the runner checks, whatever the layout, that streams are deterministic, non-empty and
	// that no stream is a prefix of the stream of a different component.  Zero-filled values (prefixes of one another) of
	// every small and boundary length under types that collide under plausible packings of (type, length) into fewer
	// bits: t and t+2^16, t+2^32, t+2^48, t+2^56, t+2^63; lengths >= 65536 next to (type+1, length-65536).
	hTypes := []uint64{0, 1, 7, 8, 9, 50, 255, 256, 65535, 65536, 65536 + 8, 65536 + 9, 1 << 32, 1<<32 + 8, 1 << 48, 1<<48 + 8, 1<<48 + 9,
		1<<56 + 8, 1 << 63, 1<<63 + 8, 1<<64 - 1}
	for _, t := range hTypes {
		for _, l := range []int{0, 1, 2, 7, 8, 9, 15, 16, 17, 24, 255, 256, 257} {
			e.hin(t, "z:"+strconv.Itoa(l))
			e.hin(t, "x:"+hex.EncodeToString(fillVal(l, 1)))
		}
	}
	for _, t := range []uint64{8, 9, 65536 + 8, 1<<48 + 8} {
		for _, l := range []int{65535, 65536, 65537, 65536 + 8, 65536 + 16, 65536 + 255} {
			e.hin(t, "z:"+strconv.Itoa(l))
		}
	}
	// values that contain what the layout itself produces: component boundaries inside a value
	{
		base := []enc.Component{{Typ: 8, Val: []byte{}}, {Typ: 8, Val: []byte("a")}, {Typ: 9, Val: []byte{}}, {Typ: 8, Val: make([]byte, 8)}, {Typ: 50, Val: []byte{1}}}
		for _, c := range base {
			sc := e.streamOf(c)
			if sc == nil {
				continue
			}
			for _, d := range base {
				sd := e.streamOf(d)
				if sd == nil {
					continue
				}
				for _, cut := range []int{0, 8, 16, len(sc) - len(c.Val)} {
					if cut < 0 || cut > len(sc) {
						continue
					}
					v := append(append([]byte(nil), sc[cut:]...), sd...)
					e.hin(uint64(c.Typ), valSpec(v))
					e.hin(uint64(c.Typ), valSpec(append(append([]byte(nil), c.Val...), sd...)))
				}
			}
			e.hname(enc.Name{c, c})
		}
	}
	e.hname(enc.Name{{Typ: 8, Val: []byte("c05")}, {Typ: 8, Val: make([]byte, 65536)}})
	e.hname(enc.Name{{Typ: 8, Val: []byte("c05")}, {Typ: 9, Val: []byte{}}, {Typ: 8, Val: make([]byte, 65528)}})
	// aliased operands: every pair of windows of one backing array (5 components, two of them equal), every shape
	for _, full := range []enc.Name{
		{{Typ: 8, Val: []byte("a")}, {Typ: 8, Val: []byte("b")}, {Typ: 8, Val: []byte("a")}, {Typ: 8, Val: []byte("b")}, {Typ: 50, Val: []byte{1}}},
		{{Typ: 8, Val: []byte{}}, {Typ: 8, Val: []byte{}}, {Typ: 8, Val: []byte{}}, {Typ: 8, Val: []byte{}}},
	} {
		n := len(full)
		for i := 0; i <= n; i++ {
			for j := i; j <= n; j++ {
				for _, sh := range []string{"same", "clone", "val", "cap"} {
					e.apair(fmt.Sprintf("%s:%d:%d", sh, i, j), full)
				}
				if j-i <= 2 { // one value in two Go representations (nil / empty / parsed / decoded / cloned; nil / empty Val)
					for _, ra := range "snzecpdvw" {
						for _, rb := range "snzecpdvw" {
							e.apair(fmt.Sprintf("rep:%c:%c:%d:%d", ra, rb, i, j), full)
						}
					}
				}
				for k := i; k <= n; k++ {
					e.apair(fmt.Sprintf("sub:%d:%d:%d", i, j, k), full)
				}
				for i2 := 0; i2 <= n; i2++ {
					for k := i2; k <= n; k += 2 {
						e.apair(fmt.Sprintf("ovl:%d:%d:%d:%d", i, j, i2, k), full)
					}
				}
			}
		}
	}
	lens := []int{0, 1, 2, 251, 252, 253, 254, 255, 256, 257, 65535, 65536}
	if thorough {
		lens = append(lens, 65537, 70000, 1<<16+300)
	}
	for _, l := range lens {
		for _, t := range []uint64{8, 32, 1} {
			v := bytes.Repeat([]byte{'x'}, l)
			c := enc.Component{Typ: enc.TLNum(t), Val: v}
			e.count("sweep-len-" + strconv.Itoa(l))
			// neighbours: one byte shorter with a larger last byte, one byte longer, same length last byte +1
			var nb []enc.Component
			if l > 0 {
				s := append([]byte(nil), v[:l-1]...)
				if len(s) > 0 {
					s[0] = 'z'
				}
				nb = append(nb, enc.Component{Typ: enc.TLNum(t), Val: s})
				s2 := append([]byte(nil), v...)
				s2[l-1]++
				nb = append(nb, enc.Component{Typ: enc.TLNum(t), Val: s2})
			}
			l1 := append(append([]byte(nil), v...), 0)
			l1[0] = 'a'
			nb = append(nb, enc.Component{Typ: enc.TLNum(t), Val: l1})
			for _, d := range nb {
				e.comp(c, d)
				e.pair(enc.Name{c}, enc.Name{d})
			}
			n := enc.Name{{Typ: 8, Val: []byte("a")}, c, {Typ: 50, Val: []byte{7}}}
			e.nameBytes(n)
			e.brt(n)
			if bs := e.bytesOf(n); bs != nil {
				e.fromBytes(bs)
			}
			e.hash(n)
			// Name.String() is quadratic in the value length (string concatenation per byte): the URI functions have no
			// length-dependent behaviour, so the quick tier prints only one 65536-byte value
			if l <= 257 || thorough {
				e.str(n)
				e.rt(n)
			} else if t == 8 && l == 65536 {
				e.rt(n)
			}
			e.triple(enc.Name{c}, enc.Name{nb[len(nb)-1]}, n)
		}
	}
	types := []uint64{0, 1, 2, 7, 8, 9, 49, 50, 51, 58, 59, 251, 252, 253, 254, 255, 256, 257, 65534, 65535, 65536, 65537, 1<<32 - 1, 1 << 32, 1<<32 + 1, 1<<63 - 1, 1 << 63, 1<<64 - 2, 1<<64 - 1}
	for i, t := range types {
		e.count("sweep-type")
		c := enc.Component{Typ: enc.TLNum(t), Val: []byte{1}}
		e.cstr(c)
		e.crt(c)
		e.nameBytes(enc.Name{c})
		e.brt(enc.Name{c})
		if bs := e.bytesOf(enc.Name{c}); bs != nil {
			e.fromBytes(bs)
		}
		e.str(enc.Name{c})
		e.rt(enc.Name{c})
		e.hash(enc.Name{c})
		for j := i; j < len(types) && j < i+3; j++ {
			d := enc.Component{Typ: enc.TLNum(types[j]), Val: []byte{1}}
			e.comp(c, d)
			e.comp(d, c)
			e.pair(enc.Name{c}, enc.Name{d})
			// larger type with a shorter/smaller value must still sort later
			e.comp(enc.Component{Typ: enc.TLNum(t), Val: []byte{0xff, 0xff}}, enc.Component{Typ: enc.TLNum(types[j]), Val: []byte{}})
		}
		e.parse("/" + strconv.FormatUint(t, 10) + "=a")
		e.pparse("/<" + strconv.FormatUint(t, 10) + "=tag>")
	}
	// numeric conventions: every width, shortest and not
	for _, t := range []uint64{50, 52, 54, 56, 58} {
		for _, x := range natValues {
			c := enc.Component{Typ: enc.TLNum(t), Val: natBytes(x)}
			e.count("sweep-nat")
			e.cstr(c)
			e.crt(c)
			e.rt(enc.Name{c})
			for _, pad := range []int{1, 2, 3, 7, 8} {
				p := enc.Component{Typ: enc.TLNum(t), Val: append(make([]byte, pad), natBytes(x)...)}
				e.cstr(p)
				e.crt(p)
			}
		}
		for l := 0; l <= 10; l++ {
			c := enc.Component{Typ: enc.TLNum(t), Val: bytes.Repeat([]byte{0x81}, l)}
			e.cstr(c)
			e.crt(c)
		}
	}
}

func runGenerated(e *emitter, g *gen, ncases int, thorough bool) {
	for i := 0; i < ncases; i++ {
		a := g.name(true)
		b := g.mutate(a)
		e.pair(a, b)
		// triple: chain of close names, or two mutants of the same name
		var c enc.Name
		if g.r.Intn(2) == 0 {
			c = g.mutate(b)
		} else {
			c = g.mutate(a)
		}
		e.triple(a, b, c)
		// the same calls on operands that alias in memory
		{
			saved := g.huge
			g.huge = 0
			full := g.name(true)
			for len(full) < 3 {
				full = append(full, g.comp(false))
			}
			g.huge = saved
			n := len(full)
			i := g.r.Intn(n)
			j := i + g.r.Intn(n-i+1)
			k := i + g.r.Intn(n-i+1)
			e.apair(fmt.Sprintf("sub:%d:%d:%d", i, j, k), full)
			e.apair(fmt.Sprintf("sub:0:%d:%d", n, 1+g.r.Intn(n-1)), full) // the longer operand first
			i2 := g.r.Intn(n)
			e.apair(fmt.Sprintf("ovl:%d:%d:%d:%d", i, j, i2, i2+g.r.Intn(n-i2+1)), full)
			e.apair(fmt.Sprintf("%s:%d:%d", []string{"same", "clone", "val", "cap"}[g.r.Intn(4)], i, j), full)
			reps := "snzecpdvw"
			ri, rj := i, j
			if g.r.Intn(2) == 0 {
				rj = ri // the zero-component name, the case where nil and empty slices differ
			}
			e.apair(fmt.Sprintf("rep:%c:%c:%d:%d", reps[g.r.Intn(len(reps))], reps[g.r.Intn(len(reps))], ri, rj), full)
		}
		if len(a) > 0 && len(b) > 0 {
			e.comp(a[g.r.Intn(len(a))], b[g.r.Intn(len(b))])
			if cb := e.compBytesOf(a[g.r.Intn(len(a))]); len(cb) > 0 {
				e.compFromBytes(cb)
				e.compFromBytes(cb[:g.r.Intn(len(cb))])
				e.compFromBytes(append(cb, byte(g.r.Intn(256))))
			}
		}
		e.nameBytes(a)
		e.brt(a)
		// NameFromBytes on the encoding, on a truncation, on a mutated copy, on a copy with one byte inserted
		bs := e.bytesOf(a)
		e.fromBytes(bs)
		if len(bs) > 0 {
			e.fromBytes(bs[:g.r.Intn(len(bs))])
			m := append([]byte(nil), bs...)
			m[g.r.Intn(len(m))] = byte(g.r.Intn(256))
			e.fromBytes(m)
			j := g.r.Intn(len(bs))
			ins := append(append(append([]byte(nil), bs[:j]...), byte(g.r.Intn(256))), bs[j:]...)
			e.fromBytes(ins)
		}
		e.hash(a)
		e.hname(a)
		if len(b) > 0 {
			c := b[g.r.Intn(len(b))]
			e.hin(uint64(c.Typ), valSpec(c.Val))
		}
		// URI printing and the round trip
		saved := g.huge
		if !thorough || i%50 != 0 {
			g.huge = 0 // String() is quadratic in the value length; huge values go to the byte-level functions
		}
		u := g.name(g.r.Intn(4) == 0)
		g.huge = saved
		e.str(u)
		e.rt(u)
		if len(u) > 0 {
			c := u[g.r.Intn(len(u))]
			e.cstr(c)
			e.crt(c)
		}
		if i%10 == 0 {
			e.full(u)
			if len(a) > 0 && len(b) > 0 && valBytes(a) < 4000 && valBytes(b) < 4000 {
				e.csreq(a, b)
			}
		}
		// parser inputs: grammar soup, mostly-good URIs, damaged good URIs (the malformed stream)
		s := g.uriString()
		e.count("str-soup")
		e.parse(s)
		e.pparse(s)
		gu := g.goodUri()
		e.count("str-good")
		e.parse(gu)
		e.pparse(gu)
		if parts := strings.Split(gu, "/"); len(parts) > 1 {
			p := parts[1+g.r.Intn(len(parts)-1)]
			e.cparse(p)
			e.cpparse(p)
		}
		bad := g.damage(gu)
		e.count("str-damaged")
		e.parse(bad)
		e.pparse(bad)
		e.cparse(bad)
		e.cpparse(bad)
		if i%4 == 0 {
			e.ppair(gu, g.damage(gu))
			e.ppair(gu, gu)
		}
	}
}

func openOut(t *testing.T) (*os.File, *bufio.Writer) {
	out := os.Getenv("VERIF_OUT")
	if out == "" {
		t.Skip("VERIF_OUT not set")
	}
	f, err := os.Create(out)
	if err != nil {
		t.Fatal(err)
	}
	return f, bufio.NewWriterSize(f, 1<<20)
}

func replayFile(e *emitter, path string) (int, error) {
	f, err := os.Open(path)
	if err != nil {
		return 0, err
	}
	defer f.Close()
	sc := bufio.NewScanner(f)
	sc.Buffer(make([]byte, 1<<20), 1<<26)
	n := 0
	for sc.Scan() {
		l := sc.Text()
		if l == "" || strings.HasPrefix(l, "#") {
			continue
		}
		if e.reexec(l) {
			n++
		}
	}
	return n, sc.Err()
}

func writeDist(e *emitter) {
	keys := make([]string, 0, len(e.dist))
	for k := range e.dist {
		keys = append(keys, k)
	}
	sort.Strings(keys)
	for _, k := range keys {
		fmt.Fprintf(e.w, "DIST %s %d\n", k, e.dist[k])
	}
}

// TestTrace: corpus (VERIF_CORPUS dir, *.trace), fixed regressions, convention probe, sweeps, then VERIF_N generated rounds.
func TestTrace(t *testing.T) {
	seed, _ := strconv.ParseInt(os.Getenv("VERIF_SEED"), 10, 64)
	ncases, _ := strconv.Atoi(os.Getenv("VERIF_N"))
	if ncases == 0 {
		ncases = 200
	}
	thorough := os.Getenv("VERIF_TIER") == "thorough"
	f, w := openOut(t)
	defer f.Close()
	defer w.Flush()
	e := &emitter{w: w, dist: map[string]int{}}
	if ops, err := os.Create(os.Getenv("VERIF_OUT") + ".ops"); err == nil {
		e.ops = ops
		defer ops.Close()
	}
	defer func() {
		if r := recover(); r != nil { // a panic that escaped every guard: name it in the ops log, keep the trace written so far
			if e.ops != nil {
				e.ops.WriteString("!PANIC " + strings.ReplaceAll(fmt.Sprint(r), "\n", " ") + "\n")
			}
			w.Flush()
			t.Fatalf("harness aborted: %v", r)
		}
	}()
	if dir := os.Getenv("VERIF_CORPUS"); dir != "" {
		files, _ := filepath.Glob(filepath.Join(dir, "*.trace"))
		sort.Strings(files)
		for _, p := range files {
			n, err := replayFile(e, p)
			if err != nil {
				t.Fatal(err)
			}
			e.dist["corpus-lines"] += n
		}
	}
	runFixed(e)
	e.conventions()
	g := &gen{r: rand.New(rand.NewSource(seed)), e: e, huge: 4}
	if thorough {
		g.huge = 40
	}
	runSweeps(e, g, thorough)
	runGenerated(e, g, ncases, thorough)
	writeDist(e)
}

// TestReplay: re-execute the implementation on the inputs of the lines in VERIF_OPS.
func TestReplay(t *testing.T) {
	ops := os.Getenv("VERIF_OPS")
	if ops == "" {
		t.Skip("VERIF_OPS not set")
	}
	f, w := openOut(t)
	defer f.Close()
	defer w.Flush()
	e := &emitter{w: w, dist: map[string]int{}}
	if _, err := replayFile(e, ops); err != nil {
		t.Fatal(err)
	}
}
