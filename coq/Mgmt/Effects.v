(* Mgmt/Effects.v — mgmt_effect_exact: what an accepted command does to the tables, verb by verb, stated through
   lookups (the named route / next hop / strategy / capacity / MTU is exactly as described by the parameters with the
   stated defaults, everything else is untouched), the status is 200; and the refusals of bad parameters with 4xx. *)
From Mgmt Require Import Model Spec Tables Proofs.
Open Scope N_scope.

(* the defaults of the statement: requesting face, application origin, cost 0, child-inherit *)
Lemma defaults_as_stated :
  k_RIBModule_register_default_origin = k_route_origin_app /\ k_RIBModule_register_default_cost = 0 /\
  k_RIBModule_register_default_flags = k_route_flag_child_inherit /\ k_RIBModule_unregister_default_origin = k_route_origin_app /\
  k_FIBModule_add_default_cost = 0.
Proof. vm_compute. repeat split. Qed.

Lemma ok_codes :
  RIBModule_register_st_OK = 200 /\ RIBModule_unregister_st_OK = 200 /\ FIBModule_add_st_OK = 200 /\ FIBModule_remove_st_OK = 200 /\
  StrategyChoiceModule_set_st_OK = 200 /\ StrategyChoiceModule_unset_st_OK = 200 /\ ContentStoreModule_config_st_OK = 200 /\
  FaceModule_update_st_OK = 200 /\ FaceModule_destroy_st_OK = 200.
Proof. vm_compute. repeat split. Qed.

Lemma to_u64_small z : (0 <= z < two64)%Z -> to_u64 z = Z.to_N z.
Proof. intros H. unfold to_u64. rewrite Z.mod_small by exact H. reflexivity. Qed.

Lemma exp_roundtrip_id e : e <= k_RIBModule_register_max_expiration -> exp_roundtrip e = e.
Proof.
  intros H. assert (Hb : (Z.of_N e <= 9223372036854)%Z) by (replace k_RIBModule_register_max_expiration with 9223372036854 in H by reflexivity; lia).
  unfold exp_roundtrip. rewrite (wrap64_small (Z.of_N e)) by (unfold two63; lia).
  rewrite (wrap64_small (Z.of_N e * 1000000)) by (unfold two63; lia).
  rewrite Z.quot_mul by lia. rewrite to_u64_small by (unfold two64; lia). apply N2Z.id.
Qed.


  (* what every command handler needs to get past its opening *)
  Definition has_params (c : cmd) (a : cargs) : Prop := (plen + 3 <= length (c_name c))%nat /\ c_pdec c = Some a.

  Lemma with_params_ok st vs c bad k a : has_params c a -> with_params st vs c bad k = k a.
  Proof.
    intros [Hl Hp]. unfold with_params. rewrite Hp.
    destruct (length (c_name c) <? plen + 3)%nat eqn:E; [apply Nat.ltb_lt in E; lia | reflexivity].
  Qed.

  (* the face a RIB/FIB command acts on: FaceId if present and non-zero, else the requesting face *)
  Definition acts_on (c : cmd) (a : cargs) : N :=
    match a_face a with Some 0 => c_inface c | Some f => f | None => c_inface c end.
  Lemma target_face_acts_on c a : target_face c a = acts_on c a.
  Proof. unfold target_face, acts_on, nonzero, oget. destruct (a_face a) as [[|p]|]; reflexivity. Qed.

  (* ---------------- rib/register ---------------- *)
  Theorem rib_register_effect (rib_to_fib : ribT -> name -> fibT -> fibT) st vs c a nm :
    has_params c a -> a_name a = Some nm ->
    (explicit_face a = true -> face_exists st (acts_on c a) = true) ->
    (forall e, a_exp a = Some e -> e <= k_RIBModule_register_max_expiration) ->
    let fid := acts_on c a in
    let origin := oget (a_origin a) k_route_origin_app in
    let cost := oget (a_cost a) 0 in
    let flags := oget (a_flags a) k_route_flag_child_inherit in
    exists st' echo,
      rib_register rib_to_fib st vs c = Ok st' vs (RCtl 200 echo (c_inface c)) /\
      rib_find (s_rib st') nm fid origin = Some (Build_route fid origin cost flags (a_exp a)) /\
      (forall n' f o, (n', f, o) <> (nm, fid, origin) -> rib_find (s_rib st') n' f o = rib_find (s_rib st) n' f o) /\
      s_fib st' = rib_to_fib (s_rib st') nm (s_fib st) /\
      s_strat st' = s_strat st /\ s_cs st' = s_cs st /\ s_faces st' = s_faces st /\
      a_name echo = Some nm /\ a_face echo = Some fid /\ a_origin echo = Some origin /\ a_cost echo = Some cost /\ a_flags echo = Some flags.
  Proof.
    intros Hp Hn Hf He fid origin cost flags.
    unfold rib_register. rewrite (with_params_ok _ _ _ _ _ _ Hp), Hn. rewrite target_face_acts_on. fold fid.
    assert (Hfe : explicit_face a && negb (face_exists st fid) = false).
    { unfold fid. destruct (explicit_face a) eqn:E; [rewrite (Hf eq_refl); reflexivity | reflexivity]. }
    rewrite Hfe.
    assert (Hexp : option_map exp_roundtrip (a_exp a) = a_exp a).
    { destruct (a_exp a) as [e|] eqn:E; [simpl; rewrite (exp_roundtrip_id e (He e eq_refl)); reflexivity | reflexivity]. }
    assert (Hbound : match a_exp a with Some e => k_RIBModule_register_max_expiration <? e | None => false end = false).
    { destruct (a_exp a) as [e|] eqn:E; [apply N.ltb_ge; apply He; reflexivity | reflexivity]. }
    rewrite Hbound, Hexp.
    eexists. eexists. split; [reflexivity|].
    cbn [s_rib s_fib s_strat s_cs s_faces set_rib_fib a_name a_face a_origin a_cost a_flags].
    pose proof (rib_add_effect (s_rib st) nm (Build_route fid origin cost flags (a_exp a))) as [R1 R2]. cbn [r_face r_origin] in R1, R2.
    repeat split; try reflexivity; [exact R1 | exact R2].
  Qed.

  (* ---------------- rib/unregister ---------------- *)
  Theorem rib_unregister_effect (rib_to_fib : ribT -> name -> fibT -> fibT) st vs c a nm :
    has_params c a -> a_name a = Some nm -> rib_wf (s_rib st) ->
    let fid := acts_on c a in
    let origin := oget (a_origin a) k_route_origin_app in
    exists st' echo,
      rib_unregister rib_to_fib st vs c = Ok st' vs (RCtl 200 echo (c_inface c)) /\
      rib_find (s_rib st') nm fid origin = None /\
      (forall n' f o, (n', f, o) <> (nm, fid, origin) -> rib_find (s_rib st') n' f o = rib_find (s_rib st) n' f o) /\
      s_fib st' = rib_to_fib (s_rib st') nm (s_fib st) /\
      s_strat st' = s_strat st /\ s_cs st' = s_cs st /\ s_faces st' = s_faces st.
  Proof.
    intros Hp Hn Hwf fid origin.
    unfold rib_unregister. rewrite (with_params_ok _ _ _ _ _ _ Hp), Hn. rewrite target_face_acts_on. fold fid.
    eexists. eexists. split; [reflexivity|].
    cbn [s_rib s_fib s_strat s_cs s_faces set_rib_fib].
    pose proof (rib_remove_effect (s_rib st) nm fid origin Hwf) as [R1 R2].
    repeat split; try reflexivity; [exact R1 | exact R2].
  Qed.

  (* ---------------- fib/add-nexthop, fib/remove-nexthop ---------------- *)
  Theorem fib_add_effect st vs c a nm :
    has_params c a -> a_name a = Some nm ->
    (explicit_face a = true -> face_exists st (acts_on c a) = true) ->
    let fid := acts_on c a in
    let cost := oget (a_cost a) 0 in
    exists st' echo,
      fib_add st vs c = Ok st' vs (RCtl 200 echo (c_inface c)) /\
      fib_find (s_fib st') nm fid = Some cost /\
      (forall n' f, (n', f) <> (nm, fid) -> fib_find (s_fib st') n' f = fib_find (s_fib st) n' f) /\
      s_rib st' = s_rib st /\ s_strat st' = s_strat st /\ s_cs st' = s_cs st /\ s_faces st' = s_faces st.
  Proof.
    intros Hp Hn Hf fid cost.
    unfold fib_add. rewrite (with_params_ok _ _ _ _ _ _ Hp), Hn. rewrite target_face_acts_on. fold fid.
    assert (Hfe : explicit_face a && negb (face_exists st fid) = false).
    { unfold fid. destruct (explicit_face a) eqn:E; [rewrite (Hf eq_refl); reflexivity | reflexivity]. }
    rewrite Hfe. eexists. eexists. split; [reflexivity|].
    cbn [s_rib s_fib s_strat s_cs s_faces set_fib].
    pose proof (fib_insert_effect (s_fib st) nm fid cost) as [R1 R2].
    repeat split; try reflexivity; [exact R1 | exact R2].
  Qed.

  Theorem fib_remove_effect' st vs c a nm :
    has_params c a -> a_name a = Some nm -> fib_wf (s_fib st) ->
    let fid := acts_on c a in
    exists st' echo,
      fib_remove_cmd st vs c = Ok st' vs (RCtl 200 echo (c_inface c)) /\
      fib_find (s_fib st') nm fid = None /\
      (forall n' f, (n', f) <> (nm, fid) -> fib_find (s_fib st') n' f = fib_find (s_fib st) n' f) /\
      s_rib st' = s_rib st /\ s_strat st' = s_strat st /\ s_cs st' = s_cs st /\ s_faces st' = s_faces st.
  Proof.
    intros Hp Hn Hwf fid.
    unfold fib_remove_cmd. rewrite (with_params_ok _ _ _ _ _ _ Hp), Hn. rewrite target_face_acts_on. fold fid.
    eexists. eexists. split; [reflexivity|].
    cbn [s_rib s_fib s_strat s_cs s_faces set_fib].
    pose proof (fib_remove_effect (s_fib st) nm fid Hwf) as [R1 R2].
    repeat split; try reflexivity; [exact R1 | exact R2].
  Qed.

  (* ---------------- strategy-choice/set, unset ---------------- *)
  (* the strategy named <prefix>/<s> or <prefix>/<s>/<v>: s registered with versions avail, v one of them (default: newest) *)
  Theorem strat_set_effect' st vs c a nm s avail v vopt :
    has_params c a -> a_name a = Some nm ->
    In (s, avail) k_strategies -> strategy_versions k_strategies (gcomp s) = Some avail ->
    (match vopt with
     | Some vb => a_strategy a = Some (strategy_prefix ++ [gcomp s; mkc k_typ_version vb]) /\ parse_nat vb = Some v /\ In v avail
     | None => a_strategy a = Some (strategy_prefix ++ [gcomp s]) /\ max_version avail = Some v
     end) ->
    let installed := strategy_prefix ++ [gcomp s; version_comp v] in
    exists st' echo,
      strat_set_cmd st vs c = Ok st' vs (RCtl 200 echo (c_inface c)) /\
      strat_find (s_strat st') nm = Some installed /\
      (forall n', n' <> nm -> strat_find (s_strat st') n' = strat_find (s_strat st) n') /\
      known_strategy installed = true /\
      s_rib st' = s_rib st /\ s_fib st' = s_fib st /\ s_cs st' = s_cs st /\ s_faces st' = s_faces st /\
      a_strategy echo = Some installed.
  Proof.
    intros Hp Hn Hin Hsv Hv installed.
    assert (Hpre : forall l, is_prefix strategy_prefix (strategy_prefix ++ l) = true).
    { intros l. vm_compute. destruct l; reflexivity. }
    assert (Hknown : known_strategy installed = true).
    { unfold known_strategy. apply existsb_exists. exists (s, avail). split; [exact Hin|].
      apply existsb_exists. exists v. split; [destruct vopt as [vb|]; [tauto | apply max_version_in; tauto] | apply name_eqb_refl]. }
    unfold strat_set_cmd. rewrite (with_params_ok _ _ _ _ _ _ Hp), Hn.
    destruct vopt as [vb|].
    - destruct Hv as [Hs [Hpn Hvin]]. rewrite Hs, Hpre.
      replace (length (strategy_prefix ++ [gcomp s; mkc k_typ_version vb]) <=? length strategy_prefix)%nat with false by reflexivity.
      cbn [negb orb].
      replace (nth_error (strategy_prefix ++ [gcomp s; mkc k_typ_version vb]) (length strategy_prefix)) with (Some (gcomp s)) by reflexivity.
      rewrite Hsv.
      destruct (max_version avail) as [newest|] eqn:Hm; [|destruct avail; [contradiction | discriminate]].
      replace (length strategy_prefix + 2 <? length (strategy_prefix ++ [gcomp s; mkc k_typ_version vb]))%nat with false by reflexivity.
      replace (nth_error (strategy_prefix ++ [gcomp s; mkc k_typ_version vb]) (length strategy_prefix + 1)) with (Some (mkc k_typ_version vb)) by reflexivity.
      cbn [ctyp cval]. rewrite N.eqb_refl. cbn [negb]. rewrite Hpn.
      assert (He : existsb (N.eqb v) avail = true) by (apply existsb_exists; exists v; split; [exact Hvin | apply N.eqb_refl]).
      rewrite He.
      replace (firstn (length strategy_prefix + 1) (strategy_prefix ++ [gcomp s; mkc k_typ_version vb])) with (strategy_prefix ++ [gcomp s]) by reflexivity.
      rewrite <- app_assoc. cbn [app]. fold installed.
      eexists. eexists. split; [reflexivity|]. cbn [s_rib s_fib s_strat s_cs s_faces set_strat a_strategy].
      pose proof (strat_set_effect (s_strat st) nm installed) as [R1 R2].
      repeat split; try reflexivity; assumption.
    - destruct Hv as [Hs Hm]. rewrite Hs, Hpre.
      replace (length (strategy_prefix ++ [gcomp s]) <=? length strategy_prefix)%nat with false by reflexivity.
      cbn [negb orb].
      replace (nth_error (strategy_prefix ++ [gcomp s]) (length strategy_prefix)) with (Some (gcomp s)) by reflexivity.
      rewrite Hsv, Hm.
      replace (length strategy_prefix + 2 <? length (strategy_prefix ++ [gcomp s]))%nat with false by reflexivity.
      replace (nth_error (strategy_prefix ++ [gcomp s]) (length strategy_prefix + 1)) with (@None comp) by reflexivity.
      replace (firstn (length strategy_prefix + 1) (strategy_prefix ++ [gcomp s])) with (strategy_prefix ++ [gcomp s]) by reflexivity.
      rewrite <- app_assoc. cbn [app]. fold installed.
      eexists. eexists. split; [reflexivity|]. cbn [s_rib s_fib s_strat s_cs s_faces set_strat a_strategy].
      pose proof (strat_set_effect (s_strat st) nm installed) as [R1 R2].
      repeat split; try reflexivity; assumption.
  Qed.

  Theorem strat_unset_effect' st vs c a nm :
    has_params c a -> a_name a = Some nm -> nm <> [] -> NoDup (map fst (s_strat st)) ->
    exists st' echo,
      strat_unset_cmd st vs c = Ok st' vs (RCtl 200 echo (c_inface c)) /\
      strat_find (s_strat st') nm = None /\
      (forall n', n' <> nm -> strat_find (s_strat st') n' = strat_find (s_strat st) n') /\
      s_rib st' = s_rib st /\ s_fib st' = s_fib st /\ s_cs st' = s_cs st /\ s_faces st' = s_faces st.
  Proof.
    intros Hp Hn Hne Hnd.
    unfold strat_unset_cmd. rewrite (with_params_ok _ _ _ _ _ _ Hp), Hn.
    destruct nm as [|x nm]; [contradiction|].
    eexists. eexists. split; [reflexivity|]. cbn [s_rib s_fib s_strat s_cs s_faces set_strat].
    pose proof (strat_unset_effect (s_strat st) (x :: nm) Hnd) as [R1 R2].
    repeat split; try reflexivity; assumption.
  Qed.

  (* the root strategy cannot be removed through management *)
  Theorem strat_unset_root_refused st vs c a :
    has_params c a -> a_name a = Some [] ->
    exists code, strat_unset_cmd st vs c = Ok st vs (RCtl code no_args (c_inface c)) /\ 400 <= code < 500.
  Proof.
    intros Hp Hn. unfold strat_unset_cmd. rewrite (with_params_ok _ _ _ _ _ _ Hp), Hn. unfold ctl.
    eexists. split; [reflexivity | vm_compute; split; congruence].
  Qed.

  (* ---------------- cs/config ---------------- *)
  Theorem cs_config_effect st vs c a cap :
    has_params c a -> a_capacity a = Some cap -> cap <= k_ContentStoreModule_config_max_capacity ->
    isSome (a_flags a) = isSome (a_mask a) ->
    exists echo,
      cs_config st vs c = Ok (set_cs st (Z.of_N cap)) vs (RCtl 200 echo (c_inface c)) /\ a_capacity echo = Some cap.
  Proof.
    intros Hp Hc Hb Hfm. unfold cs_config. rewrite (with_params_ok _ _ _ _ _ _ Hp), Hc.
    replace (xorb (isSome (a_flags a)) (isSome (a_mask a))) with false by (rewrite Hfm; destruct (isSome (a_mask a)); reflexivity).
    replace (k_ContentStoreModule_config_max_capacity <? cap) with false by (symmetry; apply N.ltb_ge; exact Hb).
    rewrite wrap64_small by (replace k_ContentStoreModule_config_max_capacity with 9223372036854775807 in Hb by reflexivity; unfold two63; lia).
    eexists. split; reflexivity.
  Qed.

  (* ---------------- faces/update: MTU ---------------- *)
  (* mtu_floor: an accepted MTU is stored (capped at the maximum packet size) and leaves a positive fragment payload
     whatever link-service options are on, with a PIT token and a congestion mark attached *)
  Theorem face_update_mtu st vs c a f m st' vs' echo :
    has_params c a -> face_get (s_faces st) (acts_on c a) = Some f -> a_mtu a = Some m ->
    face_update st vs c = Ok st' vs' (RCtl 200 echo (c_inface c)) ->
    exists f', face_get (s_faces st') (f_id f) = Some f' /\
               f_mtu f' = N.min m k_max_ndn_packet_size /\ k_FaceModule_update_min_mtu <= m /\
               forall o, header_overhead o + k_pit_token_overhead + k_congestion_mark_overhead < f_mtu f'.
  Proof.
    intros Hp Hg Hm H. unfold face_update in H. rewrite (with_params_ok _ _ _ _ _ _ Hp) in H.
    rewrite target_face_acts_on, Hg, Hm in H. cbv beta zeta in H.
    repeat destr_in H; try discriminate H;
      try (inversion H; match goal with Hc : _ = 200 |- _ => vm_compute in Hc; discriminate Hc end).
    all: inversion H; subst; clear H.
    all: match goal with Hx : _ || mtu_too_small _ _ = false |- _ =>
           apply orb_false_iff in Hx as [_ Hx2]; unfold mtu_too_small in Hx2; rewrite Hm in Hx2; apply N.ltb_ge in Hx2 end.
    all: eexists; split; [cbn [s_faces set_faces]; eapply face_get_put; [exact Hg | reflexivity]|].
    all: cbn [f_mtu]; destruct bounds_ok as [B1 [_ [B3 _]]].
    all: match goal with Hk : (k_max_ndn_packet_size <? _) = _ |- _ =>
           first [apply N.ltb_lt in Hk | apply N.ltb_ge in Hk] end.
    all: repeat split; try lia; intros o;
      assert (Ho : header_overhead o + k_pit_token_overhead + k_congestion_mark_overhead <= max_overhead)
        by (unfold header_overhead, max_overhead; destruct (o_frag o), (o_ifi o); vm_compute; congruence); lia.
  Qed.

  (* ------------------------------------------------------------------------------------------------
     refusals: bad parameters are answered 4xx (and by run_pure nothing changes) *)
  (* answered with SOME status of the 4xx class (which one is not constrained by the property), state and versions untouched *)
  Definition refused (o : outcome) (st : state) (vs : vers) (c : cmd) : Prop :=
    exists code echo, o = Ok st vs (RCtl code echo (c_inface c)) /\ 400 <= code < 500.

  Definition no_params (c : cmd) : Prop := (length (c_name c) < plen + 3)%nat \/ c_pdec c = None.
  Lemma with_params_bad st vs c bad k : no_params c -> with_params st vs c bad k = ctl st vs c bad no_args.
  Proof.
    intros [Hl|Hp]; unfold with_params.
    - apply Nat.ltb_lt in Hl. rewrite Hl. reflexivity.
    - rewrite Hp. destruct (length (c_name c) <? plen + 3)%nat; reflexivity.
  Qed.

  (* missing or undecodable ControlParameters: every command verb answers 400 *)
  Theorem missing_params_refused (rib_to_fib : ribT -> name -> fibT -> fibT) (face_cleanup : N -> ribT -> fibT -> ribT * fibT) st vs c : no_params c ->
    refused (rib_register rib_to_fib st vs c) st vs c /\ refused (rib_unregister rib_to_fib st vs c) st vs c /\
    refused (fib_add st vs c) st vs c /\ refused (fib_remove_cmd st vs c) st vs c /\
    refused (strat_set_cmd st vs c) st vs c /\ refused (strat_unset_cmd st vs c) st vs c /\
    refused (cs_config st vs c) st vs c /\ refused (face_create st vs c) st vs c /\
    refused (face_update st vs c) st vs c /\ refused (face_destroy face_cleanup st vs c) st vs c.
  Proof.
    intros Hn. unfold rib_register, rib_unregister, fib_add, fib_remove_cmd, strat_set_cmd, strat_unset_cmd, cs_config,
      face_create, face_update, face_destroy.
    rewrite !(with_params_bad _ _ _ _ _ Hn). unfold ctl, refused.
    repeat split; eexists; eexists; (split; [reflexivity | vm_compute; split; congruence]).
  Qed.

  (* a Name is required by the RIB, FIB and strategy-choice commands *)
  Theorem missing_name_refused (rib_to_fib : ribT -> name -> fibT -> fibT) st vs c a : has_params c a -> a_name a = None ->
    refused (rib_register rib_to_fib st vs c) st vs c /\ refused (rib_unregister rib_to_fib st vs c) st vs c /\
    refused (fib_add st vs c) st vs c /\ refused (fib_remove_cmd st vs c) st vs c /\
    refused (strat_set_cmd st vs c) st vs c /\ refused (strat_unset_cmd st vs c) st vs c.
  Proof.
    intros Hp Hn. unfold rib_register, rib_unregister, fib_add, fib_remove_cmd, strat_set_cmd, strat_unset_cmd.
    rewrite !(with_params_ok _ _ _ _ _ _ Hp), Hn. unfold ctl, refused.
    repeat split; eexists; eexists; (split; [reflexivity | vm_compute; split; congruence]).
  Qed.

  (* a face that does not exist *)
  Theorem unknown_face_refused (rib_to_fib : ribT -> name -> fibT -> fibT) st vs c a nm : has_params c a -> a_name a = Some nm ->
    explicit_face a = true -> face_exists st (acts_on c a) = false ->
    refused (rib_register rib_to_fib st vs c) st vs c /\ refused (fib_add st vs c) st vs c.
  Proof.
    intros Hp Hn He Hf. unfold rib_register, fib_add.
    rewrite !(with_params_ok _ _ _ _ _ _ Hp), Hn, target_face_acts_on, He, Hf. unfold ctl, refused.
    split; eexists; eexists; (split; [reflexivity | vm_compute; split; congruence]).
  Qed.
  Theorem update_unknown_face_refused st vs c a : has_params c a -> face_get (s_faces st) (acts_on c a) = None ->
    refused (face_update st vs c) st vs c.
  Proof.
    intros Hp Hf. unfold face_update. rewrite (with_params_ok _ _ _ _ _ _ Hp), target_face_acts_on, Hf. unfold ctl, refused.
    eexists; eexists; (split; [reflexivity | vm_compute; split; congruence]).
  Qed.

  (* a strategy name that is not under the strategy prefix, or lacks the strategy component *)
  Theorem strategy_without_component_refused st vs c a nm sn : has_params c a -> a_name a = Some nm ->
    a_strategy a = Some sn -> (is_prefix strategy_prefix sn = false \/ (length sn <= length strategy_prefix)%nat) ->
    refused (strat_set_cmd st vs c) st vs c.
  Proof.
    intros Hp Hn Hs Hbad. unfold strat_set_cmd. rewrite (with_params_ok _ _ _ _ _ _ Hp), Hn, Hs.
    assert (E : negb (is_prefix strategy_prefix sn) || (length sn <=? length strategy_prefix)%nat = true).
    { destruct Hbad as [H|H]; [rewrite H; reflexivity | apply Nat.leb_le in H; rewrite H; apply orb_true_r]. }
    rewrite E. unfold ctl, refused. eexists; eexists; (split; [reflexivity | vm_compute; split; congruence]).
  Qed.
  Theorem missing_strategy_refused st vs c a nm : has_params c a -> a_name a = Some nm -> a_strategy a = None ->
    refused (strat_set_cmd st vs c) st vs c.
  Proof.
    intros Hp Hn Hs. unfold strat_set_cmd. rewrite (with_params_ok _ _ _ _ _ _ Hp), Hn, Hs. unfold ctl, refused.
    eexists; eexists; (split; [reflexivity | vm_compute; split; congruence]).
  Qed.

  (* an MTU too small to carry a packet *)
  Theorem small_mtu_refused st vs c a f m : has_params c a -> face_get (s_faces st) (acts_on c a) = Some f ->
    (f_rscheme f =? sch_null) || (f_rscheme f =? sch_internal) = false ->
    a_mtu a = Some m -> m < k_FaceModule_update_min_mtu ->
    refused (face_update st vs c) st vs c.
  Proof.
    intros Hp Hf Hs Hm Hlt. unfold face_update. rewrite (with_params_ok _ _ _ _ _ _ Hp), target_face_acts_on, Hf, Hs.
    cbv beta zeta.
    assert (E : mtu_too_small k_FaceModule_update_min_mtu a = true) by (unfold mtu_too_small; rewrite Hm; apply N.ltb_lt; exact Hlt).
    rewrite E, !orb_true_r. unfold ctl, refused. eexists; eexists; (split; [reflexivity | vm_compute; split; congruence]).
  Qed.
  Theorem small_mtu_create_refused st vs c a u m : has_params c a -> a_uri a = Some u -> u_canon u = true ->
    flags_mask_mismatch a = false -> a_mtu a = Some m -> m < k_FaceModule_create_min_mtu ->
    refused (face_create st vs c) st vs c.
  Proof.
    intros Hp Hu Hc Hfm Hm Hlt. unfold face_create. rewrite (with_params_ok _ _ _ _ _ _ Hp), Hu, Hc, Hfm. cbn [negb].
    assert (E : mtu_too_small k_FaceModule_create_min_mtu a = true) by (unfold mtu_too_small; rewrite Hm; apply N.ltb_lt; exact Hlt).
    rewrite E. unfold ctl, refused. eexists; eexists; (split; [reflexivity | vm_compute; split; congruence]).
  Qed.

  (* out-of-range capacity / expiration *)
  Theorem huge_capacity_refused st vs c a cap : has_params c a -> isSome (a_flags a) = isSome (a_mask a) ->
    a_capacity a = Some cap -> k_ContentStoreModule_config_max_capacity < cap ->
    refused (cs_config st vs c) st vs c.
  Proof.
    intros Hp Hfm Hc Hlt. unfold cs_config. rewrite (with_params_ok _ _ _ _ _ _ Hp), Hc.
    replace (xorb (isSome (a_flags a)) (isSome (a_mask a))) with false by (rewrite Hfm; destruct (isSome (a_mask a)); reflexivity).
    apply N.ltb_lt in Hlt. rewrite Hlt. unfold ctl, refused. eexists; eexists; (split; [reflexivity | vm_compute; split; congruence]).
  Qed.
  Theorem huge_expiration_refused (rib_to_fib : ribT -> name -> fibT -> fibT) st vs c a nm e : has_params c a -> a_name a = Some nm ->
    explicit_face a && negb (face_exists st (acts_on c a)) = false ->
    a_exp a = Some e -> k_RIBModule_register_max_expiration < e ->
    refused (rib_register rib_to_fib st vs c) st vs c.
  Proof.
    intros Hp Hn Hf He Hlt. unfold rib_register. rewrite (with_params_ok _ _ _ _ _ _ Hp), Hn, target_face_acts_on, Hf, He.
    apply N.ltb_lt in Hlt. rewrite Hlt. unfold ctl, refused. eexists; eexists; (split; [reflexivity | vm_compute; split; congruence]).
  Qed.
