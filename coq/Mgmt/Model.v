(* Mgmt/Model.v — executable model of the management thread of YaNFD (fw/mgmt/*.go). No proofs here.

   Transcribed from:
     thread.go            Thread.Run (length and prefix checks, module dispatch, 501 for an unknown module)
     helpers.go           decodeControlParameters (indexes the name at prefixLength+2), makeStatusDataset
     rib.go               register / unregister / announce / list
     fib.go               add-nexthop / remove-nexthop / list
     strategy-choice.go   set / unset / list
     cs.go                config / info (erase, query: empty case bodies)
     face.go              create (parameter validation only; sockets are not modelled) / update / destroy / list / query
     forwarder-status.go  general
   Status codes, prefixes, verbs, defaults and bounds are NOT written here: they are the definitions of GenConsts.v,
   regenerated from the Go source on every run.

   Abstraction boundary (see docs/C17.md):
   * a command is (incoming face, name, result of mgmt.ParseControlParameters on name[prefixLength+2].Val, attributes
     of the Uri field computed with the real fw/defn URI functions, kind of ApplicationParameters);
   * the tables are abstract: RIB = entries with their route lists, FIB = next-hop lists per name, strategy table,
     CS capacity, face table. What table.Rib does to the FIB after a route change (updateNexthops) and what
     FaceTable.Remove does to RIB/FIB (CleanUpFace) belongs to C06; here these are the Section variables
     [rib_to_fib] and [face_cleanup], arbitrary in every theorem, instantiated in the runner with the implementation's
     observed tables.
   * unchecked indexing / nil dereference / failed type assertion in the Go code is the explicit outcome [Panic]. *)
From Base Require Export Bytes.
From Mgmt Require Export GenConsts.
Open Scope N_scope.

(* ---------- names ---------- *)
Record comp := mkc { ctyp : N; cval : bytes }.
Definition name := list comp.

Definition comp_eqb (c d : comp) : bool := (ctyp c =? ctyp d) && bytes_eqb (cval c) (cval d).
Definition name_eqb : name -> name -> bool := list_eqb comp_eqb.
Fixpoint is_prefix (a b : name) : bool :=        (* enc.Name.IsPrefix *)
  match a, b with
  | [], _ => true
  | _, [] => false
  | c :: a', d :: b' => comp_eqb c d && is_prefix a' b'
  end.
Definition of_pairs (l : list (N * list N)) : name := map (fun p => mkc (fst p) (snd p)) l.
Definition gcomp (s : bytes) : comp := mkc k_typ_generic s.
(* Component.String() == s for a plain ASCII word s: only the generic component with exactly these bytes prints so *)
Definition comp_is (c : comp) (s : bytes) : bool := comp_eqb c (gcomp s).

Definition local_prefix : name := of_pairs k_local_prefix.
Definition nonlocal_prefix : name := of_pairs k_nonlocal_prefix.
Definition plen : nat := length local_prefix.                       (* Thread.prefixLength() *)
Definition strategy_prefix : name := local_prefix ++ [gcomp k_strategy_comp].   (* StrategyChoiceModule.registerManager *)

(* ---------- Go integer conversions that occur in the handlers ---------- *)
Definition two64 : Z := 18446744073709551616%Z.
Definition two63 : Z := 9223372036854775808%Z.
Definition wrap64 (z : Z) : Z := ((z + two63) mod two64 - two63)%Z.       (* conversion to int64 / int *)
Definition to_u64 (z : Z) : N := Z.to_N (z mod two64)%Z.                    (* conversion to uint64 *)
(* time.Duration(ms) * time.Millisecond, then .Milliseconds() / division by time.Millisecond, then uint64() *)
Definition exp_roundtrip (ms : N) : N :=
  to_u64 (Z.quot (wrap64 (wrap64 (Z.of_N ms) * 1000000)) 1000000).

(* ---------- command input ---------- *)
Record uriattr := { u_canon : bool;          (* DecodeURIString gave a URI and Canonize() succeeded *)
                    u_scheme : N;            (* after canonisation: 0 = udp4/udp6, 1 = tcp4/tcp6, 2 = anything else *)
                    u_ip : bool;             (* net.ParseIP(URI.Path()) != nil *)
                    u_unicast : bool;        (* global unicast / link-local unicast / loopback *)
                    u_conflict : option N }. (* FaceTable.GetByURI: id of an existing face with this remote URI *)

Record cargs := {
  a_name : option name; a_face : option N; a_uri : option uriattr; a_origin : option N; a_cost : option N;
  a_capacity : option N; a_flags : option N; a_mask : option N; a_strategy : option name; a_exp : option N;
  a_pers : option N; a_basecong : option N; a_defcong : option N; a_mtu : option N }.
Definition no_args : cargs :=
  Build_cargs None None None None None None None None None None None None None None.

Record qfilter := { q_face : option N; q_scheme : option N; q_uri : option N; q_luri : option N;
                    q_scope : option N; q_pers : option N; q_link : option N }.

(* ParseFaceQueryFilter: an error, a FaceQueryFilter whose Val is nil (no 0x96 TLV in the component), or a filter *)
Inductive qdecode := QErr | QNil | QOk (q : qfilter).

Record cmd := {
  c_inface : N;                 (* IncomingFaceId attached by the internal link service *)
  c_name : name;
  c_pdec : option cargs;        (* ParseControlParameters(name[plen+2].Val): None = error or absent ControlParameters TLV *)
  c_app : N;                    (* ApplicationParameters: 0 absent/empty, 1 present but not a Data, 2 a Data *)
  c_qdec : qdecode }.           (* ParseFaceQueryFilter(name[plen+2].Val) *)

(* ---------- abstract tables ---------- *)
Record route := { r_face : N; r_origin : N; r_cost : N; r_flags : N; r_exp : option N }.
Definition ribT := list (name * list route).        (* entries having at least one route *)
Definition fibT := list (name * list (N * N)).      (* entries having at least one next hop: (face, cost) *)
Definition stratT := list (name * name).

(* face URI schemes that the handlers test for *)
Definition sch_null : N := 0.  Definition sch_internal : N := 1.  Definition sch_ether : N := 2.
Definition sch_udp4 : N := 3.  Definition sch_udp6 : N := 4.      Definition sch_unix : N := 5.
(* any other value: some other scheme *)

Record fopts := { o_ccf : bool; o_ifi : bool; o_lcp : bool; o_cm : bool; o_frag : bool;
                  o_basecong : N; o_defcong : N }.
Record faceT := { f_id : N; f_rscheme : N; f_lscheme : N; f_scope : N; f_link : N; f_pers : N; f_mtu : N;
                  f_ndnlp : bool; f_opts : fopts; f_key : N; f_lkey : N }.

Record state := { s_rib : ribT; s_fib : fibT; s_strat : stratT; s_cs : Z; s_faces : list faceT }.
Record vers := { v_rib : N; v_fib : N; v_strat : N; v_cs : N; v_face : N; v_status : N }.   (* next*DatasetVersion *)

Definition set_rib_fib (st : state) (r : ribT) (f : fibT) : state :=
  Build_state r f (s_strat st) (s_cs st) (s_faces st).
Definition set_fib (st : state) (f : fibT) : state := Build_state (s_rib st) f (s_strat st) (s_cs st) (s_faces st).
Definition set_strat (st : state) (s : stratT) : state := Build_state (s_rib st) (s_fib st) s (s_cs st) (s_faces st).
Definition set_cs (st : state) (c : Z) : state := Build_state (s_rib st) (s_fib st) (s_strat st) c (s_faces st).
Definition set_faces (st : state) (l : list faceT) : state := Build_state (s_rib st) (s_fib st) (s_strat st) (s_cs st) l.

(* --- RIB: table.Rib.AddEncRoute / RemoveRouteEnc on the list of entries --- *)
Definition same_route (face origin : N) (r : route) : bool := (r_face r =? face) && (r_origin r =? origin).
Fixpoint routes_add (rs : list route) (r : route) : list route :=
  match rs with
  | [] => [r]
  | x :: rs' => if same_route (r_face r) (r_origin r) x then r :: rs' else x :: routes_add rs' r
  end.
Fixpoint routes_remove (rs : list route) (face origin : N) : list route :=
  match rs with
  | [] => []
  | x :: rs' => if same_route face origin x then rs' else x :: routes_remove rs' face origin
  end.
Fixpoint rib_add (t : ribT) (n : name) (r : route) : ribT :=
  match t with
  | [] => [(n, [r])]
  | (m, rs) :: t' => if name_eqb m n then (m, routes_add rs r) :: t' else (m, rs) :: rib_add t' n r
  end.
Fixpoint rib_remove (t : ribT) (n : name) (face origin : N) : ribT :=
  match t with
  | [] => []
  | (m, rs) :: t' =>
      if name_eqb m n then
        match routes_remove rs face origin with [] => t' | rs' => (m, rs') :: t' end
      else (m, rs) :: rib_remove t' n face origin
  end.

(* --- FIB: FibStrategy.InsertNextHopEnc / RemoveNextHopEnc, SetStrategyEnc / UnSetStrategyEnc --- *)
Fixpoint nh_add (l : list (N * N)) (face cost : N) : list (N * N) :=
  match l with
  | [] => [(face, cost)]
  | (f, c) :: l' => if f =? face then (f, cost) :: l' else (f, c) :: nh_add l' face cost
  end.
Fixpoint nh_remove (l : list (N * N)) (face : N) : list (N * N) :=
  match l with
  | [] => []
  | (f, c) :: l' => if f =? face then l' else (f, c) :: nh_remove l' face
  end.
Fixpoint fib_insert (t : fibT) (n : name) (face cost : N) : fibT :=
  match t with
  | [] => [(n, [(face, cost)])]
  | (m, l) :: t' => if name_eqb m n then (m, nh_add l face cost) :: t' else (m, l) :: fib_insert t' n face cost
  end.
Fixpoint fib_remove (t : fibT) (n : name) (face : N) : fibT :=
  match t with
  | [] => []
  | (m, l) :: t' =>
      if name_eqb m n then match nh_remove l face with [] => t' | l' => (m, l') :: t' end
      else (m, l) :: fib_remove t' n face
  end.
Fixpoint strat_set (t : stratT) (n s : name) : stratT :=
  match t with
  | [] => [(n, s)]
  | (m, x) :: t' => if name_eqb m n then (m, s) :: t' else (m, x) :: strat_set t' n s
  end.
Fixpoint strat_unset (t : stratT) (n : name) : stratT :=
  match t with
  | [] => []
  | (m, x) :: t' => if name_eqb m n then t' else (m, x) :: strat_unset t' n
  end.

(* --- reference flattening of the RIB into FIB next hops (fw/table/rib.go collectNexthopsEnc, as repaired):
       a prefix with routes of its own gets: its own routes, plus - unless it holds a capture route - the child-inherit
       routes met on the walk from itself towards the root, the walk stopping after an entry that holds a capture route;
       per face the minimum cost. A prefix without routes gets no FIB entry from the RIB. --- *)
Definition has_ci (r : route) : bool := negb (N.land (r_flags r) k_route_flag_child_inherit =? 0).
Definition has_cap (r : route) : bool := negb (N.land (r_flags r) k_route_flag_capture =? 0).
Definition captures (l : list route) : bool := existsb has_cap l.
Fixpoint rib_routes (t : ribT) (n : name) : list route :=
  match t with [] => [] | (m, rs) :: t' => if name_eqb m n then rs else rib_routes t' n end.
Fixpoint inherit (t : ribT) (n : name) (k : nat) : list route :=
  let rs := rib_routes t (firstn k n) in
  filter has_ci rs ++ (if captures rs then [] else match k with O => [] | S k' => inherit t n k' end).
Definition contributing (t : ribT) (n : name) : list route :=
  let own := rib_routes t n in own ++ (if captures own then [] else inherit t n (length n)).
Fixpoint mc_insert (acc : list (N * N)) (f c : N) : list (N * N) :=
  match acc with
  | [] => [(f, c)]
  | (g, d) :: r => if g =? f then (g, if c <? d then c else d) :: r else (g, d) :: mc_insert r f c
  end.
Definition min_cost (rs : list route) : list (N * N) :=
  fold_left (fun acc r => mc_insert acc (r_face r) (r_cost r)) rs [].
Definition fib_want (t : ribT) (n : name) : list (N * N) :=
  match rib_routes t n with [] => [] | _ => min_cost (contributing t n) end.

Fixpoint fib_hops (t : fibT) (n : name) : list (N * N) :=
  match t with [] => [] | (m, l) :: t' => if name_eqb m n then l else fib_hops t' n end.
(* FibStrategy.ReplaceNextHopsEnc for one prefix: clear, then insert the given next hops *)
Fixpoint fib_replace (t : fibT) (n : name) (l : list (N * N)) : fibT :=
  match t with
  | [] => match l with [] => [] | _ => [(n, l)] end
  | (m, x) :: t' => if name_eqb m n then match l with [] => t' | _ => (m, l) :: t' end else (m, x) :: fib_replace t' n l
  end.
(* the FIB after table.Rib has re-flattened every prefix with routes at or below [scope] (None: the whole tree);
   prefixes without routes are left as they are in [f] *)
Definition in_scope (scope : option name) (n : name) : bool :=
  match scope with Some nm => is_prefix nm n | None => true end.
Definition rib_sync (rib' : ribT) (scope : option name) (f : fibT) : fibT :=
  fold_left (fun acc e => if in_scope scope (fst e) then fib_replace acc (fst e) (fib_want rib' (fst e)) else acc) rib' f.
(* Rib.CleanUpFace: every route of the face goes; emptied entries disappear *)
Definition rib_cleanup (t : ribT) (face : N) : ribT :=
  filter (fun e => match snd e with [] => false | _ => true end)
         (map (fun e => (fst e, filter (fun r => negb (r_face r =? face)) (snd e))) t).

(* --- faces --- *)
Fixpoint face_get (l : list faceT) (id : N) : option faceT :=
  match l with [] => None | f :: l' => if f_id f =? id then Some f else face_get l' id end.
Definition face_exists (st : state) (id : N) : bool :=
  match face_get (s_faces st) id with Some _ => true | None => false end.
Fixpoint face_put (l : list faceT) (g : faceT) : list faceT :=
  match l with [] => [] | f :: l' => if f_id f =? f_id g then g :: l' else f :: face_put l' g end.
Fixpoint face_del (l : list faceT) (id : N) : list faceT :=
  match l with [] => [] | f :: l' => if f_id f =? id then l' else f :: face_del l' id end.

(* NDNLPLinkServiceOptions.Flags() *)
Definition opts_flags (o : fopts) : N :=
  (if o_ccf o then k_face_flag_local_fields else 0) + (if o_cm o then k_face_flag_congestion_marking else 0).
(* computeHeaderOverhead *)
Definition header_overhead (o : fopts) : N :=
  k_lp_packet_overhead + (if o_frag o then k_hdr_fragmentation else 0) + (if o_ifi o then k_hdr_incoming_face else 0).

(* ---------- responses ---------- *)
Record facestat := { fs_id : N; fs_scope : N; fs_pers : N; fs_link : N; fs_mtu : N; fs_flags : N;
                     fs_basecong : option N; fs_defcong : option N }.
Inductive dataset :=
| DRib (t : ribT) | DFib (t : fibT) | DStrat (t : stratT) | DCs (capacity flags entries : N)
| DFaces (l : list facestat) | DGeneral (nfib : N).
(* which name the dataset is published under *)
Inductive dsname := NRibList (arrival : name) | NFibList | NStratList | NCsInfo | NFacesList | NQuery (full : name) | NGeneral.

Definition w_rib : bytes := [114;105;98].            Definition w_fib : bytes := [102;105;98].
Definition w_list : bytes := [108;105;115;116].        Definition w_cs : bytes := [99;115].
Definition w_info : bytes := [105;110;102;111].        Definition w_faces : bytes := [102;97;99;101;115].
Definition w_status : bytes := [115;116;97;116;117;115].  Definition w_general : bytes := [103;101;110;101;114;97;108].
Definition w_strategy_choice : bytes := [115;116;114;97;116;101;103;121;45;99;104;111;105;99;101].
(* the name a dataset is published under (before the version and segment components) *)
Definition ds_name (d : dsname) : name :=
  match d with
  | NRibList arrival => arrival ++ [gcomp w_rib; gcomp w_list]      (* arrival prefix + "/rib/list" *)
  | NFibList => local_prefix ++ [gcomp w_fib; gcomp w_list]
  | NStratList => local_prefix ++ [gcomp w_strategy_choice; gcomp w_list]
  | NCsInfo => local_prefix ++ [gcomp w_cs; gcomp w_info]
  | NFacesList => local_prefix ++ [gcomp w_faces; gcomp w_list]
  | NQuery full => full                                            (* the Interest name itself *)
  | NGeneral => local_prefix ++ [gcomp w_status; gcomp w_general]
  end.

Inductive resp :=
| RNone                                           (* nothing is sent *)
| RCtl (code : N) (echo : cargs) (nexthop : N)    (* ControlResponse Data, NextHopFaceId = requesting face *)
| RData (nm : dsname) (version : N) (d : dataset) (* status dataset, one segment *)
| RSocket.                                        (* faces/create passed validation: transport creation is not modelled *)

Inductive outcome := Ok (st : state) (vs : vers) (r : resp) | Panic.

Definition oget {A} (o : option A) (d : A) : A := match o with Some x => x | None => d end.
Definition nonzero (o : option N) : option N := match o with Some 0 => None | x => x end.
Definition isSome {A} (o : option A) : bool := match o with Some _ => true | None => false end.

Section Dispatch.
  (* external code (C06): FIB after table.Rib has re-flattened the next hops below [n] for the new RIB; RIB and FIB
     after FaceTable.Remove -> Rib.CleanUpFace *)
  Variable rib_to_fib : ribT -> name -> fibT -> fibT.
  Variable face_cleanup : N -> ribT -> fibT -> ribT * fibT.

  Variable allow_localhop : bool.           (* core config Mgmt.AllowLocalhop -> enableLocalhopManagement *)
  (* external code (codec): does the dataset fit one Data packet (at most MaxNDNPacketSize bytes)? makeStatusDataset publishes a single segment.
     If not, nothing is sent (the dataset version is consumed all the same). *)
  Variable ds_fits : dataset -> bool.
  Definition publish (nm : dsname) (version : N) (d : dataset) : resp :=
    if ds_fits d then RData nm version d else RNone.

  Definition ctl (st : state) (vs : vers) (c : cmd) (code : N) (echo : cargs) : outcome :=
    Ok st vs (RCtl code echo (c_inface c)).

  (* the common opening of every command handler: name long enough, ControlParameters decodable *)
  Definition with_params (st : state) (vs : vers) (c : cmd) (bad : N) (k : cargs -> outcome) : outcome :=
    if (length (c_name c) <? plen + 3)%nat then ctl st vs c bad no_args
    else match c_pdec c with
         | None => ctl st vs c bad no_args
         | Some a => k a
         end.

  (* faceID := inFace; if params.FaceId is present and non-zero then faceID = that *)
  Definition target_face (c : cmd) (a : cargs) : N := oget (nonzero (a_face a)) (c_inface c).
  Definition explicit_face (a : cargs) : bool := isSome (nonzero (a_face a)).

  (* ---------------- rib.go ---------------- *)
  Definition rib_register (st : state) (vs : vers) (c : cmd) : outcome :=
    with_params st vs c RIBModule_register_st_ControlParameters_is_incorrect (fun a =>
      match a_name a with
      | None => ctl st vs c RIBModule_register_st_ControlParameters_is_incorrect no_args
      | Some nm =>
        let fid := target_face c a in
        if explicit_face a && negb (face_exists st fid) then
          ctl st vs c RIBModule_register_st_Face_does_not_exist no_args
        else if match a_exp a with Some e => k_RIBModule_register_max_expiration <? e | None => false end then
          ctl st vs c RIBModule_register_st_ControlParameters_is_incorrect no_args
        else
          let origin := oget (a_origin a) k_RIBModule_register_default_origin in
          let cost := oget (a_cost a) k_RIBModule_register_default_cost in
          let flags := oget (a_flags a) k_RIBModule_register_default_flags in
          let exp := option_map exp_roundtrip (a_exp a) in
          let rib' := rib_add (s_rib st) nm (Build_route fid origin cost flags exp) in
          let st' := set_rib_fib st rib' (rib_to_fib rib' nm (s_fib st)) in
          Ok st' vs (RCtl RIBModule_register_st_OK
                       (Build_cargs (Some nm) (Some fid) None (Some origin) (Some cost) None (Some flags) None None exp
                                    None None None None) (c_inface c))
      end).

  Definition rib_unregister (st : state) (vs : vers) (c : cmd) : outcome :=
    with_params st vs c RIBModule_unregister_st_ControlParameters_is_incorrect (fun a =>
      match a_name a with
      | None => ctl st vs c RIBModule_unregister_st_ControlParameters_is_incorrect no_args
      | Some nm =>
        let fid := target_face c a in
        let origin := oget (a_origin a) k_RIBModule_unregister_default_origin in
        let rib' := rib_remove (s_rib st) nm fid origin in
        let st' := set_rib_fib st rib' (rib_to_fib rib' nm (s_fib st)) in
        Ok st' vs (RCtl RIBModule_unregister_st_OK
                     (Build_cargs (Some nm) (Some fid) None (Some origin) None None None None None None
                                  None None None None) (c_inface c))
      end).

  Definition rib_announce (st : state) (vs : vers) (c : cmd) : outcome :=
    let n := c_name c in
    if negb (length n =? plen + 3)%nat then ctl st vs c RIBModule_announce_st_Name_is_incorrect no_args
    else match nth_error n (plen + 2) with
         | None => Panic
         | Some pc =>
           if negb (ctyp pc =? k_typ_params_sha256) then ctl st vs c RIBModule_announce_st_Name_is_incorrect no_args
           else if c_app c =? 0 then ctl st vs c RIBModule_announce_st_PrefixAnnouncement_is_missing no_args
           else if c_app c =? 1 then ctl st vs c RIBModule_announce_st_PrefixAnnouncement_is_invalid no_args
           else ctl st vs c RIBModule_announce_st_YaNFD_does_not_support_PrefixAnnouncement no_args
         end.

  Definition bump_rib (v : vers) := Build_vers (v_rib v + 1) (v_fib v) (v_strat v) (v_cs v) (v_face v) (v_status v).
  Definition bump_fib (v : vers) := Build_vers (v_rib v) (v_fib v + 1) (v_strat v) (v_cs v) (v_face v) (v_status v).
  Definition bump_strat (v : vers) := Build_vers (v_rib v) (v_fib v) (v_strat v + 1) (v_cs v) (v_face v) (v_status v).
  Definition bump_cs (v : vers) := Build_vers (v_rib v) (v_fib v) (v_strat v) (v_cs v + 1) (v_face v) (v_status v).
  Definition bump_face (v : vers) := Build_vers (v_rib v) (v_fib v) (v_strat v) (v_cs v) (v_face v + 1) (v_status v).
  Definition bump_status (v : vers) := Build_vers (v_rib v) (v_fib v) (v_strat v) (v_cs v) (v_face v) (v_status v + 1).

  (* every list/info verb starts with: if len(name) > prefixLength+2 { return } *)
  Definition is_dataset_request (c : cmd) : bool := (length (c_name c) <=? plen + 2)%nat.

  Definition rib_list (st : state) (vs : vers) (c : cmd) : outcome :=
    if negb (is_dataset_request c) then Ok st vs RNone
    else Ok st (bump_rib vs) (publish (NRibList (firstn plen (c_name c))) (v_rib vs) (DRib (s_rib st))).

  Definition verb_of (c : cmd) : option comp := nth_error (c_name c) (plen + 1).

  Definition rib_module (st : state) (vs : vers) (c : cmd) : outcome :=
    match verb_of c with
    | None => Panic
    | Some v =>
      if comp_is v [114;101;103;105;115;116;101;114] (* register *) then rib_register st vs c
      else if comp_is v [117;110;114;101;103;105;115;116;101;114] (* unregister *) then rib_unregister st vs c
      else if comp_is v [97;110;110;111;117;110;99;101] (* announce *) then rib_announce st vs c
      else if comp_is v [108;105;115;116] (* list *) then rib_list st vs c
      else ctl st vs c RIBModule_handleIncomingInterest_st_Unknown_verb no_args
    end.

  (* ---------------- fib.go ---------------- *)
  Definition fib_add (st : state) (vs : vers) (c : cmd) : outcome :=
    with_params st vs c FIBModule_add_st_ControlParameters_is_incorrect (fun a =>
      match a_name a with
      | None => ctl st vs c FIBModule_add_st_ControlParameters_is_incorrect no_args
      | Some nm =>
        let fid := target_face c a in
        if explicit_face a && negb (face_exists st fid) then
          ctl st vs c FIBModule_add_st_Face_does_not_exist no_args
        else
          let cost := oget (a_cost a) k_FIBModule_add_default_cost in
          Ok (set_fib st (fib_insert (s_fib st) nm fid cost)) vs
             (RCtl FIBModule_add_st_OK
                (Build_cargs (Some nm) (Some fid) None None (Some cost) None None None None None None None None None)
                (c_inface c))
      end).

  Definition fib_remove_cmd (st : state) (vs : vers) (c : cmd) : outcome :=
    with_params st vs c FIBModule_remove_st_ControlParameters_is_incorrect (fun a =>
      match a_name a with
      | None => ctl st vs c FIBModule_remove_st_ControlParameters_is_incorrect no_args
      | Some nm =>
        let fid := target_face c a in
        Ok (set_fib st (fib_remove (s_fib st) nm fid)) vs
           (RCtl FIBModule_remove_st_OK
              (Build_cargs (Some nm) (Some fid) None None None None None None None None None None None None)
              (c_inface c))
      end).

  Definition fib_list (st : state) (vs : vers) (c : cmd) : outcome :=
    if negb (is_dataset_request c) then Ok st vs RNone
    else Ok st (bump_fib vs) (publish NFibList (v_fib vs) (DFib (s_fib st))).

  Definition fib_module (st : state) (vs : vers) (c : cmd) : outcome :=
    if k_FIBModule_local_only && negb (is_prefix local_prefix (c_name c)) then Ok st vs RNone
    else match verb_of c with
    | None => Panic
    | Some v =>
      if comp_is v [97;100;100;45;110;101;120;116;104;111;112] (* add-nexthop *) then fib_add st vs c
      else if comp_is v [114;101;109;111;118;101;45;110;101;120;116;104;111;112] (* remove-nexthop *) then fib_remove_cmd st vs c
      else if comp_is v [108;105;115;116] then fib_list st vs c
      else ctl st vs c FIBModule_handleIncomingInterest_st_Unknown_verb no_args
    end.

  (* ---------------- strategy-choice.go ---------------- *)
  Fixpoint strategy_versions (l : list (list N * list N)) (c : comp) : option (list N) :=   (* fw.StrategyVersions[c.String()] *)
    match l with
    | [] => None
    | (s, vs) :: l' => if comp_is c s then Some vs else strategy_versions l' c
    end.
  Definition max_version (vs : list N) : option N :=      (* availableVersions[0], then the maximum *)
    match vs with [] => None | v :: r => Some (fold_left N.max r v) end.
  (* enc.ParseNat: 1, 2, 4 or 8 bytes big-endian *)
  Definition parse_nat (b : bytes) : option N :=
    match length b with
    | 1%nat | 2%nat | 4%nat | 8%nat => Some (be_val b)
    | _ => None
    end.
  (* enc.NewVersionComponent: shortest of 1/2/4/8 bytes *)
  Definition nat_bytes (v : N) : bytes :=
    if v <? 256 then be 1 v else if v <? 65536 then be 2 v else if v <? 4294967296 then be 4 v else be 8 v.
  Definition version_comp (v : N) : comp := mkc k_typ_version (nat_bytes v).

  Definition strat_set_cmd (st : state) (vs : vers) (c : cmd) : outcome :=
    with_params st vs c StrategyChoiceModule_set_st_ControlParameters_is_incorrect (fun a =>
      match a_name a with
      | None => ctl st vs c StrategyChoiceModule_set_st_ControlParameters_is_incorrect no_args
      | Some nm =>
      match a_strategy a with
      | None => ctl st vs c StrategyChoiceModule_set_st_ControlParameters_is_incorrect no_args
      | Some sn =>
        if negb (is_prefix strategy_prefix sn) || (length sn <=? length strategy_prefix)%nat then
          ctl st vs c StrategyChoiceModule_set_st_Unknown_strategy no_args
        else
        match nth_error sn (length strategy_prefix) with
        | None => Panic                                   (* params.Strategy.Name[len(s.strategyPrefix)] *)
        | Some sc =>
          match strategy_versions k_strategies sc with
          | None => ctl st vs c StrategyChoiceModule_set_st_Unknown_strategy no_args
          | Some avail =>
            match max_version avail with
            | None => ctl st vs c StrategyChoiceModule_set_st_Unknown_strategy no_args    (* len(availableVersions) == 0 *)
            | Some newest =>
              if (length strategy_prefix + 2 <? length sn)%nat then
                ctl st vs c StrategyChoiceModule_set_st_Strategy_parameters_are_not_supported no_args
              else
              (* the canonical instance name <prefix>/<strategy>/<version> is what gets installed and echoed *)
              let accept (v : N) :=
                let sn' := firstn (length strategy_prefix + 1) sn ++ [version_comp v] in
                Ok (set_strat st (strat_set (s_strat st) nm sn')) vs
                   (RCtl StrategyChoiceModule_set_st_OK
                      (Build_cargs (Some nm) None None None None None None None (Some sn') None None None None None)
                      (c_inface c)) in
              match nth_error sn (length strategy_prefix + 1) with
              | Some vc =>
                if negb (ctyp vc =? k_typ_version) then
                  ctl st vs c StrategyChoiceModule_set_st_Unknown_strategy_version no_args
                else match parse_nat (cval vc) with
                     | None => ctl st vs c StrategyChoiceModule_set_st_Unknown_strategy_version no_args
                     | Some v =>
                       if existsb (N.eqb v) avail then accept v
                       else ctl st vs c StrategyChoiceModule_set_st_Unknown_strategy_version no_args
                     end
              | None => accept newest
              end
            end
          end
        end
      end
      end).

  Definition strat_unset_cmd (st : state) (vs : vers) (c : cmd) : outcome :=
    with_params st vs c StrategyChoiceModule_unset_st_ControlParameters_is_incorrect (fun a =>
      match a_name a with
      | None => ctl st vs c StrategyChoiceModule_unset_st_ControlParameters_is_incorrect no_args
      | Some [] => ctl st vs c StrategyChoiceModule_unset_st_ControlParameters_is_incorrect no_args
      | Some nm =>
        Ok (set_strat st (strat_unset (s_strat st) nm)) vs
           (RCtl StrategyChoiceModule_unset_st_OK
              (Build_cargs (Some nm) None None None None None None None None None None None None None) (c_inface c))
      end).

  Definition strat_list (st : state) (vs : vers) (c : cmd) : outcome :=
    if negb (is_dataset_request c) then Ok st vs RNone
    else Ok st (bump_strat vs) (publish NStratList (v_strat vs) (DStrat (s_strat st))).

  Definition strat_module (st : state) (vs : vers) (c : cmd) : outcome :=
    if k_StrategyChoiceModule_local_only && negb (is_prefix local_prefix (c_name c)) then Ok st vs RNone
    else match verb_of c with
    | None => Panic
    | Some v =>
      if comp_is v [115;101;116] (* set *) then strat_set_cmd st vs c
      else if comp_is v [117;110;115;101;116] (* unset *) then strat_unset_cmd st vs c
      else if comp_is v [108;105;115;116] then strat_list st vs c
      else ctl st vs c StrategyChoiceModule_handleIncomingInterest_st_Unknown_verb no_args
    end.

  (* ---------------- cs.go ---------------- *)
  Definition cs_config (st : state) (vs : vers) (c : cmd) : outcome :=
    with_params st vs c ContentStoreModule_config_st_ControlParameters_is_incorrect (fun a =>
      if xorb (isSome (a_flags a)) (isSome (a_mask a)) then
        ctl st vs c ContentStoreModule_config_st_ControlParameters_are_incorrect no_args
      else if match a_capacity a with Some cap => k_ContentStoreModule_config_max_capacity <? cap | None => false end then
        ctl st vs c ContentStoreModule_config_st_ControlParameters_is_incorrect no_args
      else
        let st' := match a_capacity a with
                   | Some cap => set_cs st (wrap64 (Z.of_N cap))      (* table.SetCsCapacity(int(Capacity)) *)
                   | None => st
                   end in
        Ok st' vs (RCtl ContentStoreModule_config_st_OK
                     (Build_cargs None None None None None (a_capacity a) (Some 0) None None None None None None None)
                     (c_inface c))).

  Definition cs_info (st : state) (vs : vers) (c : cmd) : outcome :=
    if negb (is_dataset_request c) then Ok st vs RNone
    else Ok st (bump_cs vs)
            (publish NCsInfo (v_cs vs) (DCs (to_u64 (s_cs st)) (k_cs_flag_enable_admit + k_cs_flag_enable_serve) 0)).

  Definition cs_module (st : state) (vs : vers) (c : cmd) : outcome :=
    if k_ContentStoreModule_local_only && negb (is_prefix local_prefix (c_name c)) then Ok st vs RNone
    else match verb_of c with
    | None => Panic
    | Some v =>
      if comp_is v [99;111;110;102;105;103] (* config *) then cs_config st vs c
      else if comp_is v [101;114;97;115;101] (* erase: empty case *) then Ok st vs RNone
      else if comp_is v [105;110;102;111] (* info *) then cs_info st vs c
      else if comp_is v [113;117;101;114;121] (* query: empty case *) then Ok st vs RNone
      else ctl st vs c ContentStoreModule_handleIncomingInterest_st_Unknown_verb no_args
    end.

  (* ---------------- forwarder-status.go ---------------- *)
  Definition status_module (st : state) (vs : vers) (c : cmd) : outcome :=
    if k_ForwarderStatusModule_local_only && negb (is_prefix local_prefix (c_name c)) then Ok st vs RNone
    else match verb_of c with
    | None => Panic
    | Some v =>
      if comp_is v [103;101;110;101;114;97;108] (* general *) then
        if negb (is_dataset_request c) then Ok st vs RNone
        else Ok st (bump_status vs) (publish NGeneral (v_status vs) (DGeneral (N.of_nat (length (s_fib st)))))
      else ctl st vs c ForwarderStatusModule_handleIncomingInterest_st_Unknown_verb no_args
    end.

  (* ---------------- face.go ---------------- *)
  (* fillFaceProperties without Uri/LocalUri *)
  Definition face_props (f : faceT) : cargs :=
    Build_cargs None (Some (f_id f)) None None None None
                (Some (if f_ndnlp f then opts_flags (f_opts f) else 0)) None None None
                (Some (f_pers f))
                (if f_ndnlp f then Some (o_basecong (f_opts f)) else None)
                (if f_ndnlp f then Some (o_defcong (f_opts f)) else None)
                (Some (f_mtu f)).

  Definition flags_mask_mismatch (a : cargs) : bool := xorb (isSome (a_flags a)) (isSome (a_mask a)).
  Definition mtu_too_small (floor : N) (a : cargs) : bool :=
    match a_mtu a with Some m => m <? floor | None => false end.

  Definition face_create (st : state) (vs : vers) (c : cmd) : outcome :=
    with_params st vs c FaceModule_create_st_ControlParameters_is_incorrect (fun a =>
      match a_uri a with
      | None => ctl st vs c FaceModule_create_st_ControlParameters_is_incorrect no_args
      | Some u =>
        if negb (u_canon u) then ctl st vs c FaceModule_create_st_URI_could_not_be_canonized no_args
        else if flags_mask_mismatch a then ctl st vs c FaceModule_create_st_Incomplete_Flags_Mask_combination no_args
        else if mtu_too_small k_FaceModule_create_min_mtu a then ctl st vs c FaceModule_create_st_MTU_is_too_small no_args
        else match u_conflict u with
        | Some id =>
          match face_get (s_faces st) id with
          | Some f => ctl st vs c FaceModule_create_st_Conflicts_with_existing_face (face_props f)
          | None =>          (* cannot arise: the attribute is computed from the same face table; kept total *)
            ctl st vs c FaceModule_create_st_Conflicts_with_existing_face
                (Build_cargs None (Some id) None None None None None None None None None None None None)
          end
        | None =>
          if (u_scheme u =? 0) || (u_scheme u =? 1) then
            if negb (u_ip u) then ctl st vs c FaceModule_create_st_URI_must_be_IP no_args
            else if negb (u_unicast u) then ctl st vs c FaceModule_create_st_URI_must_be_unicast no_args
            else match a_pers a with
                 | Some p =>
                   if (p =? k_pers_persistent) || (p =? k_pers_permanent) then Ok st vs RSocket
                   else ctl st vs c FaceModule_create_st_Unacceptable_persistency no_args
                 | None => Ok st vs RSocket
                 end
          else ctl st vs c FaceModule_create_st_Unsupported_scheme_ no_args
        end
      end).

  Definition pers_valid (f : faceT) (p : N) : bool :=
    if f_rscheme f =? sch_ether then p =? k_pers_permanent
    else if (f_rscheme f =? sch_udp4) || (f_rscheme f =? sch_udp6) then (p =? k_pers_persistent) || (p =? k_pers_permanent)
    else if f_lscheme f =? sch_unix then p =? k_pers_persistent
    else true.

  Definition apply_flags (o : fopts) (flags mask : N) : fopts :=
    let lf := negb (N.land mask k_face_flag_local_fields =? 0) in
    let lfv := negb (N.land flags k_face_flag_local_fields =? 0) in
    let cm := negb (N.land mask k_face_flag_congestion_marking =? 0) in
    let cmv := negb (N.land flags k_face_flag_congestion_marking =? 0) in
    Build_fopts (if lf then lfv else o_ccf o) (if lf then lfv else o_ifi o) (if lf then lfv else o_lcp o)
                (if cm then cmv else o_cm o) (o_frag o) (o_basecong o) (o_defcong o).

  Definition face_update (st : state) (vs : vers) (c : cmd) : outcome :=
    with_params st vs c FaceModule_update_st_ControlParameters_is_incorrect (fun a =>
      let fid := target_face c a in
      let only_id := Build_cargs None (Some fid) None None None None None None None None None None None None in
      match face_get (s_faces st) fid with
      | None => ctl st vs c FaceModule_update_st_Face_does_not_exist only_id
      | Some f =>
        if (f_rscheme f =? sch_null) || (f_rscheme f =? sch_internal) then
          ctl st vs c FaceModule_update_st_Face_cannot_be_updated_via_management only_id
        else
          let pers_ok := match a_pers a with Some p => pers_valid f p | None => true end in
          if negb pers_ok || flags_mask_mismatch a || mtu_too_small k_FaceModule_update_min_mtu a then
            ctl st vs c FaceModule_update_st_ControlParameters_are_incorrect no_args
          else
            if negb (f_ndnlp f) then Panic          (* selectedFace.( *face.NDNLPLinkService ) *)
            else
              let o0 := f_opts f in
              let o1 := Build_fopts (o_ccf o0) (o_ifi o0) (o_lcp o0) (o_cm o0) (o_frag o0)
                                    (oget (a_basecong a) (o_basecong o0)) (oget (a_defcong a) (o_defcong o0)) in
              let mtu := match a_mtu a with
                         | Some m => if k_max_ndn_packet_size <? m then k_max_ndn_packet_size else m
                         | None => f_mtu f
                         end in
              let o2 := match a_flags a, a_mask a with
                        | Some fl, Some mk => apply_flags o1 fl mk
                        | _, _ => o1
                        end in
              let f' := Build_faceT (f_id f) (f_rscheme f) (f_lscheme f) (f_scope f) (f_link f)
                                    (oget (a_pers a) (f_pers f)) mtu (f_ndnlp f) o2 (f_key f) (f_lkey f) in
              Ok (set_faces st (face_put (s_faces st) f')) vs
                 (RCtl FaceModule_update_st_OK (face_props f') (c_inface c))
      end).

  Definition face_destroy (st : state) (vs : vers) (c : cmd) : outcome :=
    with_params st vs c FaceModule_destroy_st_ControlParameters_is_incorrect (fun a =>
      match a_face a with
      | None => ctl st vs c FaceModule_destroy_st_ControlParameters_is_incorrect no_args
      | Some id =>
        let st' := if face_exists st id then
                     let rf := face_cleanup id (s_rib st) (s_fib st) in
                     set_faces (set_rib_fib st (fst rf) (snd rf)) (face_del (s_faces st) id)
                   else st in
        Ok st' vs (RCtl FaceModule_destroy_st_OK a (c_inface c))      (* params.ToDict(): everything is echoed *)
      end).

  Definition face_stat (f : faceT) : facestat :=
    Build_facestat (f_id f) (f_scope f) (f_pers f) (f_link f) (f_mtu f)
                   (if f_ndnlp f then opts_flags (f_opts f) else 0)
                   (if f_ndnlp f then Some (o_basecong (f_opts f)) else None)
                   (if f_ndnlp f then Some (o_defcong (f_opts f)) else None).

  Definition face_list (st : state) (vs : vers) (c : cmd) : outcome :=
    if negb (is_dataset_request c) then Ok st vs RNone
    else Ok st (bump_face vs) (publish NFacesList (v_face vs) (DFaces (map face_stat (s_faces st)))).

  Definition opt_match (o : option N) (v : N) : bool := match o with Some x => x =? v | None => true end.
  Definition face_matches (q : qfilter) (f : faceT) : bool :=
    opt_match (q_face q) (f_id f)
    && (match q_scheme q with Some s => (s =? f_lscheme f) || (s =? f_rscheme f) | None => true end)
    && opt_match (q_uri q) (f_key f) && opt_match (q_luri q) (f_lkey f)
    && opt_match (q_scope q) (f_scope f) && opt_match (q_pers q) (f_pers f) && opt_match (q_link q) (f_link f).

  Definition face_query (st : state) (vs : vers) (c : cmd) : outcome :=
    if (length (c_name c) <? plen + 3)%nat then Ok st vs RNone
    else match c_qdec c with
         | QErr => Ok st vs RNone
         | QNil => Ok st vs RNone                          (* filterV.Val == nil *)
         | QOk q => Ok st (bump_face vs)
                       (publish (NQuery (c_name c)) (v_face vs) (DFaces (map face_stat (filter (face_matches q) (s_faces st)))))
         end.

  Definition face_module (st : state) (vs : vers) (c : cmd) : outcome :=
    if k_FaceModule_local_only && negb (is_prefix local_prefix (c_name c)) then Ok st vs RNone
    else match verb_of c with
    | None => Panic
    | Some v =>
      if comp_is v [99;114;101;97;116;101] (* create *) then face_create st vs c
      else if comp_is v [117;112;100;97;116;101] (* update *) then face_update st vs c
      else if comp_is v [100;101;115;116;114;111;121] (* destroy *) then face_destroy st vs c
      else if comp_is v [108;105;115;116] then face_list st vs c
      else if comp_is v [113;117;101;114;121] (* query *) then face_query st vs c
      else ctl st vs c FaceModule_handleIncomingInterest_st_Unknown_verb no_args
    end.

  (* ---------------- thread.go: Run, one received Interest ---------------- *)
  Definition run (st : state) (vs : vers) (c : cmd) : outcome :=
    let n := c_name c in
    if (length n <? plen + N.to_nat k_run_min_extra)%nat then Ok st vs RNone
    else if negb (is_prefix local_prefix n)
            && negb ((if k_run_localhop_guarded then allow_localhop else true) && is_prefix nonlocal_prefix n)
    then Ok st vs RNone
    else match nth_error n plen with
    | None => Panic                              (* interest.NameV[len(m.localPrefix)] *)
    | Some mc =>
      if comp_is mc [99;115] (* cs *) then cs_module st vs c
      else if comp_is mc [102;97;99;101;115] (* faces *) then face_module st vs c
      else if comp_is mc [102;105;98] (* fib *) then fib_module st vs c
      else if comp_is mc [114;105;98] (* rib *) then rib_module st vs c
      else if comp_is mc [115;116;97;116;117;115] (* status *) then status_module st vs c
      else if comp_is mc [115;116;114;97;116;101;103;121;45;99;104;111;105;99;101] (* strategy-choice *) then strat_module st vs c
      else ctl st vs c Thread_Run_st_Unknown_module no_args
    end.

  (* the FIB right after Thread.Run has started on a fresh FIB: the management prefixes point at the internal face *)
  Definition initial_fib (internal : N) : fibT :=
    (local_prefix, [(internal, 0)]) :: (if allow_localhop then [(nonlocal_prefix, [(internal, 0)])] else []).
  Definition initial_strat : stratT := [([], of_pairs k_default_strategy)].
End Dispatch.

(* The names the model tests verbs/modules against must be the ones the source registers: checked data. *)
Definition modules_expected : list (list N) :=
  [[99;115]; [102;97;99;101;115]; [102;105;98]; [114;105;98]; [115;116;97;116;117;115];
   [115;116;114;97;116;101;103;121;45;99;104;111;105;99;101]].
Definition verbs_of (l : list (list N * bool)) : list (list N) := map fst l.
Definition consts_match_model : bool :=
  list_eqb bytes_eqb k_modules modules_expected
  && list_eqb bytes_eqb (verbs_of k_RIBModule_verbs)
       [[114;101;103;105;115;116;101;114]; [117;110;114;101;103;105;115;116;101;114]; [97;110;110;111;117;110;99;101]; [108;105;115;116]]
  && list_eqb bytes_eqb (verbs_of k_FIBModule_verbs)
       [[97;100;100;45;110;101;120;116;104;111;112]; [114;101;109;111;118;101;45;110;101;120;116;104;111;112]; [108;105;115;116]]
  && list_eqb bytes_eqb (verbs_of k_StrategyChoiceModule_verbs) [[115;101;116]; [117;110;115;101;116]; [108;105;115;116]]
  && list_eqb (fun a b => bytes_eqb (fst a) (fst b) && Bool.eqb (snd a) (snd b)) k_ContentStoreModule_verbs
       [([99;111;110;102;105;103], true); ([101;114;97;115;101], false); ([105;110;102;111], true); ([113;117;101;114;121], false)]
  && list_eqb bytes_eqb (verbs_of k_FaceModule_verbs)
       [[99;114;101;97;116;101]; [117;112;100;97;116;101]; [100;101;115;116;114;111;121]; [108;105;115;116]; [113;117;101;114;121]]
  && list_eqb bytes_eqb (verbs_of k_ForwarderStatusModule_verbs) [[103;101;110;101;114;97;108]]
  && negb k_RIBModule_local_only.
