(* Mgmt/Tables.v — lemmas about the abstract tables: equality tests, and the exact effect of
   rib_add / rib_remove / fib_insert / fib_remove / strat_set / strat_unset as seen through lookups. *)
From Mgmt Require Import Model Spec.
Open Scope N_scope.

(* ---------- equality tests decide equality ---------- *)
Lemma comp_eqb_spec c d : comp_eqb c d = true <-> c = d.
Proof.
  unfold comp_eqb. rewrite andb_true_iff, N.eqb_eq, bytes_eqb_spec.
  destruct c, d; simpl; split; [intros [-> ->]; reflexivity | intros H; inversion H; auto].
Qed.
Lemma name_eqb_spec a b : name_eqb a b = true <-> a = b.
Proof. apply list_eqb_spec. apply comp_eqb_spec. Qed.
Lemma name_eqb_refl a : name_eqb a a = true.
Proof. apply name_eqb_spec; reflexivity. Qed.
Lemma name_eqb_false a b : name_eqb a b = false <-> a <> b.
Proof.
  split.
  - intros H E. apply name_eqb_spec in E. congruence.
  - intros H. destruct (name_eqb a b) eqn:E; [apply name_eqb_spec in E; contradiction | reflexivity].
Qed.

Lemma opt_eqb_spec {A} (e : A -> A -> bool) : (forall x y, e x y = true <-> x = y) ->
  forall a b, opt_eqb e a b = true <-> a = b.
Proof.
  intros He [x|] [y|]; simpl; split; intros H; try discriminate; try reflexivity.
  - apply He in H; congruence.
  - inversion H; apply He; reflexivity.
Qed.

Lemma route_eqb_spec a b : route_eqb a b = true <-> a = b.
Proof.
  unfold route_eqb. rewrite !andb_true_iff, !N.eqb_eq, (opt_eqb_spec N.eqb N.eqb_eq).
  destruct a, b; simpl; split.
  - intros [[[[-> ->] ->] ->] ->]; reflexivity.
  - intros H; inversion H; auto.
Qed.

Lemma pair_eqb_spec {A B} (ea : A -> A -> bool) (eb : B -> B -> bool) :
  (forall x y, ea x y = true <-> x = y) -> (forall x y, eb x y = true <-> x = y) ->
  forall (p q : A * B), ea (fst p) (fst q) && eb (snd p) (snd q) = true <-> p = q.
Proof.
  intros Ha Hb [a b] [c d]; simpl. rewrite andb_true_iff, Ha, Hb. split; [intros [-> ->]; reflexivity | intros H; inversion H; auto].
Qed.

Lemma rib_eqb_spec a b : rib_eqb a b = true <-> a = b.
Proof.
  apply list_eqb_spec. apply pair_eqb_spec; [apply name_eqb_spec | apply list_eqb_spec, route_eqb_spec].
Qed.
Lemma nh_eqb_spec a b : nh_eqb a b = true <-> a = b.
Proof. apply (pair_eqb_spec N.eqb N.eqb); apply N.eqb_eq. Qed.
Lemma fib_eqb_spec a b : fib_eqb a b = true <-> a = b.
Proof.
  apply list_eqb_spec. apply pair_eqb_spec; [apply name_eqb_spec | apply list_eqb_spec, nh_eqb_spec].
Qed.
Lemma strat_eqb_spec a b : strat_eqb a b = true <-> a = b.
Proof. apply list_eqb_spec. apply pair_eqb_spec; apply name_eqb_spec. Qed.

Lemma bool_eqb_spec a b : Bool.eqb a b = true <-> a = b.
Proof. split; [apply eqb_prop | intros ->; apply eqb_reflx]. Qed.

Lemma fopts_eqb_spec a b : fopts_eqb a b = true <-> a = b.
Proof.
  unfold fopts_eqb. rewrite !andb_true_iff, !bool_eqb_spec, !N.eqb_eq.
  destruct a, b; simpl; split.
  - intros [[[[[[-> ->] ->] ->] ->] ->] ->]; reflexivity.
  - intros H; inversion H; subst; repeat split.
Qed.
Lemma face_eqb_spec a b : face_eqb a b = true <-> a = b.
Proof.
  unfold face_eqb. rewrite !andb_true_iff, !bool_eqb_spec, !N.eqb_eq, fopts_eqb_spec.
  destruct a, b; simpl; split.
  - intros [[[[[[[[[[-> ->] ->] ->] ->] ->] ->] ->] ->] ->] ->]; reflexivity.
  - intros H; inversion H; subst; repeat split.
Qed.
Lemma state_eqb_spec a b : state_eqb a b = true <-> a = b.
Proof.
  unfold state_eqb. rewrite !andb_true_iff, rib_eqb_spec, fib_eqb_spec, strat_eqb_spec, Z.eqb_eq,
    (list_eqb_spec face_eqb face_eqb_spec).
  destruct a, b; simpl; split.
  - intros [[[[-> ->] ->] ->] ->]; reflexivity.
  - intros H; inversion H; subst; repeat split.
Qed.
Lemma state_eqb_refl a : state_eqb a a = true.
Proof. apply state_eqb_spec; reflexivity. Qed.

Lemma facestat_eqb_spec a b : facestat_eqb a b = true <-> a = b.
Proof.
  unfold facestat_eqb. rewrite !andb_true_iff, !N.eqb_eq, !(opt_eqb_spec N.eqb N.eqb_eq).
  destruct a, b; simpl; split.
  - intros [[[[[[[-> ->] ->] ->] ->] ->] ->] ->]; reflexivity.
  - intros H; inversion H; subst; repeat split.
Qed.
Lemma facestats_eqb_refl l : list_eqb facestat_eqb l l = true.
Proof. apply (list_eqb_spec facestat_eqb facestat_eqb_spec); reflexivity. Qed.

(* ---------- RIB: lookups ---------- *)
Definition routes_find (rs : list route) (face origin : N) : option route := find (same_route face origin) rs.
(* the route for (prefix, face, origin), if any *)
Definition rib_find (t : ribT) (n : name) (face origin : N) : option route := routes_find (rib_routes t n) face origin.

Lemma same_route_self r : same_route (r_face r) (r_origin r) r = true.
Proof. unfold same_route. rewrite !N.eqb_refl. reflexivity. Qed.

Lemma routes_find_add_same rs r : routes_find (routes_add rs r) (r_face r) (r_origin r) = Some r.
Proof.
  unfold routes_find. induction rs as [|x rs IH]; simpl.
  - rewrite same_route_self. reflexivity.
  - destruct (same_route (r_face r) (r_origin r) x) eqn:E; simpl.
    + rewrite same_route_self. reflexivity.
    + rewrite E. exact IH.
Qed.
Lemma routes_find_add_other rs r f o : (f, o) <> (r_face r, r_origin r) ->
  routes_find (routes_add rs r) f o = routes_find rs f o.
Proof.
  intros Hne. unfold routes_find.
  assert (Hr : same_route f o r = false).
  { unfold same_route. destruct (r_face r =? f) eqn:E1; destruct (r_origin r =? o) eqn:E2; try reflexivity.
    apply N.eqb_eq in E1, E2. subst. contradiction Hne. reflexivity. }
  induction rs as [|x rs IH]; simpl.
  - rewrite Hr. reflexivity.
  - destruct (same_route (r_face r) (r_origin r) x) eqn:E; simpl.
    + rewrite Hr.
      assert (Hx : same_route f o x = false).
      { unfold same_route in *. apply andb_true_iff in E as [E1 E2]. apply N.eqb_eq in E1, E2.
        destruct (r_face x =? f) eqn:F1; destruct (r_origin x =? o) eqn:F2; try reflexivity.
        apply N.eqb_eq in F1, F2. subst. contradiction Hne. congruence. }
      rewrite Hx. reflexivity.
    + destruct (same_route f o x); [reflexivity | exact IH].
Qed.

Lemma rib_routes_add_same t n r : rib_routes (rib_add t n r) n = routes_add (rib_routes t n) r.
Proof.
  induction t as [|[m rs] t IH]; simpl.
  - rewrite name_eqb_refl. reflexivity.
  - destruct (name_eqb m n) eqn:E; simpl; rewrite E; [reflexivity | exact IH].
Qed.
Lemma rib_routes_add_other t n r n' : n' <> n -> rib_routes (rib_add t n r) n' = rib_routes t n'.
Proof.
  intros Hne. induction t as [|[m rs] t IH]; simpl.
  - destruct (name_eqb n n') eqn:E; [apply name_eqb_spec in E; congruence | reflexivity].
  - destruct (name_eqb m n) eqn:E; simpl.
    + apply name_eqb_spec in E. subst m.
      destruct (name_eqb n n') eqn:E2; [apply name_eqb_spec in E2; congruence | reflexivity].
    + destruct (name_eqb m n'); [reflexivity | exact IH].
Qed.

(* rib_add: the named route is there with exactly the given attributes; every other (prefix, face, origin) is untouched *)
Theorem rib_add_effect t n r :
  rib_find (rib_add t n r) n (r_face r) (r_origin r) = Some r /\
  (forall n' f o, (n', f, o) <> (n, r_face r, r_origin r) -> rib_find (rib_add t n r) n' f o = rib_find t n' f o).
Proof.
  split.
  - unfold rib_find. rewrite rib_routes_add_same. apply routes_find_add_same.
  - intros n' f o Hne. unfold rib_find.
    destruct (name_eqb n' n) eqn:E.
    + apply name_eqb_spec in E. subst n'. rewrite rib_routes_add_same. apply routes_find_add_other.
      intros H. inversion H; subst. contradiction Hne. reflexivity.
    + apply name_eqb_false in E. rewrite rib_routes_add_other by exact E. reflexivity.
Qed.

(* entries keep at most one route per (face, origin): the invariant under which removal is exact *)
Definition routes_nodup (rs : list route) : Prop := NoDup (map (fun r => (r_face r, r_origin r)) rs).
Definition rib_wf (t : ribT) : Prop :=
  NoDup (map fst t) /\ Forall (fun e => routes_nodup (snd e) /\ snd e <> []) t.

Lemma same_route_true f o x : same_route f o x = true <-> (r_face x, r_origin x) = (f, o).
Proof.
  unfold same_route. rewrite andb_true_iff, !N.eqb_eq. split; [intros [-> ->]; reflexivity | intros H; inversion H; auto].
Qed.

Lemma routes_find_none rs f o : ~ In (f, o) (map (fun r => (r_face r, r_origin r)) rs) -> routes_find rs f o = None.
Proof.
  unfold routes_find. induction rs as [|x rs IH]; simpl; intros H; [reflexivity|].
  destruct (same_route f o x) eqn:E.
  - apply same_route_true in E. exfalso. apply H. left. exact E.
  - apply IH. intros HI. apply H. right. exact HI.
Qed.

Lemma routes_find_remove_same rs f o : routes_nodup rs -> routes_find (routes_remove rs f o) f o = None.
Proof.
  unfold routes_nodup. induction rs as [|x rs IH]; simpl; intros Hnd; [reflexivity|].
  inversion Hnd as [|k l Hnotin Hnd']; subst.
  destruct (same_route f o x) eqn:E.
  - apply same_route_true in E. rewrite E in Hnotin. apply routes_find_none. exact Hnotin.
  - unfold routes_find in *. simpl. rewrite E. apply IH. exact Hnd'.
Qed.
Lemma routes_find_remove_other rs f o f' o' : (f', o') <> (f, o) ->
  routes_find (routes_remove rs f o) f' o' = routes_find rs f' o'.
Proof.
  intros Hne. unfold routes_find. induction rs as [|x rs IH]; simpl; [reflexivity|].
  destruct (same_route f o x) eqn:E.
  - apply same_route_true in E.
    assert (Hx : same_route f' o' x = false).
    { destruct (same_route f' o' x) eqn:E2; [|reflexivity]. apply same_route_true in E2. congruence. }
    rewrite Hx. reflexivity.
  - simpl. destruct (same_route f' o' x); [reflexivity | exact IH].
Qed.

Lemma rib_routes_notin t n : ~ In n (map fst t) -> rib_routes t n = [].
Proof.
  induction t as [|[m rs] t IH]; simpl; intros H; [reflexivity|].
  destruct (name_eqb m n) eqn:E.
  - apply name_eqb_spec in E. exfalso. apply H. left. exact E.
  - apply IH. intros HI. apply H. right. exact HI.
Qed.

Lemma rib_routes_remove_same t n f o : NoDup (map fst t) ->
  rib_routes (rib_remove t n f o) n = routes_remove (rib_routes t n) f o.
Proof.
  induction t as [|[m rs] t IH]; simpl; intros Hnd; [reflexivity|].
  inversion Hnd as [|k l Hnotin Hnd']; subst.
  destruct (name_eqb m n) eqn:E.
  - apply name_eqb_spec in E. subst m.
    destruct (routes_remove rs f o) eqn:R; simpl.
    + apply rib_routes_notin. exact Hnotin.
    + rewrite name_eqb_refl. reflexivity.
  - simpl. rewrite E. apply IH. exact Hnd'.
Qed.
Lemma rib_routes_remove_other t n f o n' : n' <> n -> rib_routes (rib_remove t n f o) n' = rib_routes t n'.
Proof.
  intros Hne. induction t as [|[m rs] t IH]; simpl; [reflexivity|].
  destruct (name_eqb m n) eqn:E.
  - apply name_eqb_spec in E. subst m.
    assert (E2 : name_eqb n n' = false) by (apply name_eqb_false; congruence).
    rewrite E2. destruct (routes_remove rs f o); simpl; [reflexivity | rewrite E2; reflexivity].
  - simpl. destruct (name_eqb m n'); [reflexivity | exact IH].
Qed.

(* rib_remove: the named route is gone; every other (prefix, face, origin) is untouched *)
Theorem rib_remove_effect t n f o : rib_wf t ->
  rib_find (rib_remove t n f o) n f o = None /\
  (forall n' f' o', (n', f', o') <> (n, f, o) -> rib_find (rib_remove t n f o) n' f' o' = rib_find t n' f' o').
Proof.
  intros [Hnd Hall]. split.
  - unfold rib_find. rewrite rib_routes_remove_same by exact Hnd. apply routes_find_remove_same.
    clear Hnd. induction t as [|[m rs] t IH]; simpl; [constructor|].
    inversion Hall as [|e l [He _] Hall']; subst. destruct (name_eqb m n); [exact He | apply IH; exact Hall'].
  - intros n' f' o' Hne. unfold rib_find.
    destruct (name_eqb n' n) eqn:E.
    + apply name_eqb_spec in E. subst n'. rewrite rib_routes_remove_same by exact Hnd.
      apply routes_find_remove_other. intros H. inversion H; subst. contradiction Hne. reflexivity.
    + apply name_eqb_false in E. rewrite rib_routes_remove_other by exact E. reflexivity.
Qed.

(* rib_wf is kept by both operations *)
Lemma routes_add_keys rs r k : In k (map (fun r => (r_face r, r_origin r)) (routes_add rs r)) ->
  k = (r_face r, r_origin r) \/ In k (map (fun r => (r_face r, r_origin r)) rs).
Proof.
  induction rs as [|x rs IH]; simpl.
  - intros [H|[]]; left; auto.
  - destruct (same_route (r_face r) (r_origin r) x) eqn:E; simpl.
    + intros [H|H]; [left; auto | right; right; exact H].
    + intros [H|H]; [right; left; exact H|]. destruct (IH H); [left; assumption | right; right; assumption].
Qed.
Lemma routes_add_nodup rs r : routes_nodup rs -> routes_nodup (routes_add rs r).
Proof.
  unfold routes_nodup. induction rs as [|x rs IH]; simpl; intros Hnd.
  - constructor; [intros [] | constructor].
  - inversion Hnd as [|k l Hnotin Hnd']; subst.
    destruct (same_route (r_face r) (r_origin r) x) eqn:E; simpl.
    + apply same_route_true in E. rewrite <- E. constructor; assumption.
    + constructor; [|apply IH; exact Hnd'].
      intros HI. apply routes_add_keys in HI as [HI|HI]; [|contradiction].
      assert (same_route (r_face r) (r_origin r) x = true) by (apply same_route_true; auto). congruence.
Qed.
Lemma routes_add_nonempty rs r : routes_add rs r <> [].
Proof. destruct rs as [|x rs]; simpl; [discriminate|]. destruct (same_route _ _ x); discriminate. Qed.

Lemma rib_add_keys t n r k : In k (map fst (rib_add t n r)) -> k = n \/ In k (map fst t).
Proof.
  induction t as [|[m rs] t IH]; simpl.
  - intros [H|[]]; left; auto.
  - destruct (name_eqb m n) eqn:E; simpl.
    + intros H; right; exact H.
    + intros [H|H]; [right; left; exact H|]. destruct (IH H); [left; assumption | right; right; assumption].
Qed.
Lemma rib_add_wf t n r : rib_wf t -> rib_wf (rib_add t n r).
Proof.
  intros [Hnd Hall]. induction t as [|[m rs] t IH]; simpl.
  - split; [constructor; [intros []|constructor] | constructor; [|constructor]].
    split; [unfold routes_nodup; simpl; constructor; [intros []|constructor] | discriminate].
  - inversion Hnd as [|k l Hnotin Hnd']; subst. inversion Hall as [|e l [He Hne] Hall']; subst.
    destruct (name_eqb m n) eqn:E; simpl.
    + split; [constructor; assumption|]. constructor; [|exact Hall'].
      split; [apply routes_add_nodup; exact He | apply routes_add_nonempty].
    + destruct (IH Hnd' Hall') as [IH1 IH2]. split.
      * constructor; [|exact IH1]. intros HI. apply rib_add_keys in HI as [HI|HI]; [|contradiction].
        subst. rewrite name_eqb_refl in E. discriminate.
      * constructor; [split; assumption | exact IH2].
Qed.

Lemma routes_remove_keys rs f o k : In k (map (fun r => (r_face r, r_origin r)) (routes_remove rs f o)) ->
  In k (map (fun r => (r_face r, r_origin r)) rs).
Proof.
  induction rs as [|x rs IH]; simpl; [auto|].
  destruct (same_route f o x); simpl; [intros H; right; exact H|].
  intros [H|H]; [left; exact H | right; apply IH; exact H].
Qed.
Lemma routes_remove_nodup rs f o : routes_nodup rs -> routes_nodup (routes_remove rs f o).
Proof.
  unfold routes_nodup. induction rs as [|x rs IH]; simpl; intros Hnd; [constructor|].
  inversion Hnd as [|k l Hnotin Hnd']; subst.
  destruct (same_route f o x); simpl; [exact Hnd'|].
  constructor; [|apply IH; exact Hnd']. intros HI. apply routes_remove_keys in HI. contradiction.
Qed.
Lemma rib_remove_keys t n f o k : In k (map fst (rib_remove t n f o)) -> In k (map fst t).
Proof.
  induction t as [|[m rs] t IH]; simpl; [auto|].
  destruct (name_eqb m n).
  - destruct (routes_remove rs f o); simpl; [intros H; right; exact H | intros H; exact H].
  - simpl. intros [H|H]; [left; exact H | right; apply IH; exact H].
Qed.
Lemma rib_remove_wf t n f o : rib_wf t -> rib_wf (rib_remove t n f o).
Proof.
  intros [Hnd Hall]. induction t as [|[m rs] t IH]; simpl; [split; constructor|].
  inversion Hnd as [|k l Hnotin Hnd']; subst. inversion Hall as [|e l [He Hne] Hall']; subst.
  destruct (name_eqb m n) eqn:E.
  - destruct (routes_remove rs f o) eqn:R.
    + split; assumption.
    + split; [constructor; assumption|]. constructor; [|exact Hall'].
      split; [rewrite <- R; apply routes_remove_nodup; exact He | discriminate].
  - destruct (IH Hnd' Hall') as [IH1 IH2]. split.
    + constructor; [|exact IH1]. intros HI. apply rib_remove_keys in HI. contradiction.
    + constructor; [split; assumption | exact IH2].
Qed.

(* ---------- FIB next hops: lookups ---------- *)
Fixpoint nh_find (l : list (N * N)) (face : N) : option N :=
  match l with [] => None | (f, c) :: l' => if f =? face then Some c else nh_find l' face end.
(* cost of the next hop (prefix, face), if any *)
Definition fib_find (t : fibT) (n : name) (face : N) : option N := nh_find (fib_hops t n) face.

Lemma nh_find_add_same l f c : nh_find (nh_add l f c) f = Some c.
Proof.
  induction l as [|[g d] l IH]; simpl; [rewrite N.eqb_refl; reflexivity|].
  destruct (g =? f) eqn:E; simpl; rewrite E; [reflexivity | exact IH].
Qed.
Lemma nh_find_add_other l f c f' : f' <> f -> nh_find (nh_add l f c) f' = nh_find l f'.
Proof.
  intros Hne. induction l as [|[g d] l IH]; simpl.
  - destruct (f =? f') eqn:E; [apply N.eqb_eq in E; congruence | reflexivity].
  - destruct (g =? f) eqn:E; simpl.
    + apply N.eqb_eq in E. subst g. destruct (f =? f') eqn:E2; [apply N.eqb_eq in E2; congruence | reflexivity].
    + destruct (g =? f'); [reflexivity | exact IH].
Qed.
Lemma fib_hops_insert_same t n f c : fib_hops (fib_insert t n f c) n = nh_add (fib_hops t n) f c.
Proof.
  induction t as [|[m l] t IH]; simpl; [rewrite name_eqb_refl; reflexivity|].
  destruct (name_eqb m n) eqn:E; simpl; rewrite E; [reflexivity | exact IH].
Qed.
Lemma fib_hops_insert_other t n f c n' : n' <> n -> fib_hops (fib_insert t n f c) n' = fib_hops t n'.
Proof.
  intros Hne. induction t as [|[m l] t IH]; simpl.
  - destruct (name_eqb n n') eqn:E; [apply name_eqb_spec in E; congruence | reflexivity].
  - destruct (name_eqb m n) eqn:E; simpl.
    + apply name_eqb_spec in E. subst m. destruct (name_eqb n n') eqn:E2; [apply name_eqb_spec in E2; congruence | reflexivity].
    + destruct (name_eqb m n'); [reflexivity | exact IH].
Qed.

Theorem fib_insert_effect t n f c :
  fib_find (fib_insert t n f c) n f = Some c /\
  (forall n' f', (n', f') <> (n, f) -> fib_find (fib_insert t n f c) n' f' = fib_find t n' f').
Proof.
  split.
  - unfold fib_find. rewrite fib_hops_insert_same. apply nh_find_add_same.
  - intros n' f' Hne. unfold fib_find. destruct (name_eqb n' n) eqn:E.
    + apply name_eqb_spec in E. subst n'. rewrite fib_hops_insert_same. apply nh_find_add_other. congruence.
    + apply name_eqb_false in E. rewrite fib_hops_insert_other by exact E. reflexivity.
Qed.

Definition fib_wf (t : fibT) : Prop :=
  NoDup (map fst t) /\ Forall (fun e => NoDup (map fst (snd e)) /\ snd e <> []) t.

Lemma nh_find_none l f : ~ In f (map fst l) -> nh_find l f = None.
Proof.
  induction l as [|[g d] l IH]; simpl; intros H; [reflexivity|].
  destruct (g =? f) eqn:E; [apply N.eqb_eq in E; exfalso; apply H; left; exact E | apply IH; intros HI; apply H; right; exact HI].
Qed.
Lemma nh_find_remove_same l f : NoDup (map fst l) -> nh_find (nh_remove l f) f = None.
Proof.
  induction l as [|[g d] l IH]; simpl; intros Hnd; [reflexivity|].
  inversion Hnd as [|k l' Hnotin Hnd']; subst.
  destruct (g =? f) eqn:E.
  - apply N.eqb_eq in E. subst. apply nh_find_none. exact Hnotin.
  - simpl. rewrite E. apply IH. exact Hnd'.
Qed.
Lemma nh_find_remove_other l f f' : f' <> f -> nh_find (nh_remove l f) f' = nh_find l f'.
Proof.
  intros Hne. induction l as [|[g d] l IH]; simpl; [reflexivity|].
  destruct (g =? f) eqn:E.
  - apply N.eqb_eq in E. subst g. destruct (f =? f') eqn:E2; [apply N.eqb_eq in E2; congruence | reflexivity].
  - simpl. destruct (g =? f'); [reflexivity | exact IH].
Qed.
Lemma fib_hops_notin t n : ~ In n (map fst t) -> fib_hops t n = [].
Proof.
  induction t as [|[m l] t IH]; simpl; intros H; [reflexivity|].
  destruct (name_eqb m n) eqn:E; [apply name_eqb_spec in E; exfalso; apply H; left; exact E | apply IH; intros HI; apply H; right; exact HI].
Qed.
Lemma fib_hops_remove_same t n f : NoDup (map fst t) -> fib_hops (fib_remove t n f) n = nh_remove (fib_hops t n) f.
Proof.
  induction t as [|[m l] t IH]; simpl; intros Hnd; [reflexivity|].
  inversion Hnd as [|k l' Hnotin Hnd']; subst.
  destruct (name_eqb m n) eqn:E.
  - apply name_eqb_spec in E. subst m. destruct (nh_remove l f) eqn:R; simpl.
    + apply fib_hops_notin. exact Hnotin.
    + rewrite name_eqb_refl. reflexivity.
  - simpl. rewrite E. apply IH. exact Hnd'.
Qed.
Lemma fib_hops_remove_other t n f n' : n' <> n -> fib_hops (fib_remove t n f) n' = fib_hops t n'.
Proof.
  intros Hne. induction t as [|[m l] t IH]; simpl; [reflexivity|].
  destruct (name_eqb m n) eqn:E.
  - apply name_eqb_spec in E. subst m.
    assert (E2 : name_eqb n n' = false) by (apply name_eqb_false; congruence).
    rewrite E2. destruct (nh_remove l f); simpl; [reflexivity | rewrite E2; reflexivity].
  - simpl. destruct (name_eqb m n'); [reflexivity | exact IH].
Qed.

Theorem fib_remove_effect t n f : fib_wf t ->
  fib_find (fib_remove t n f) n f = None /\
  (forall n' f', (n', f') <> (n, f) -> fib_find (fib_remove t n f) n' f' = fib_find t n' f').
Proof.
  intros [Hnd Hall]. split.
  - unfold fib_find. rewrite fib_hops_remove_same by exact Hnd. apply nh_find_remove_same.
    clear Hnd. induction t as [|[m l] t IH]; simpl; [constructor|].
    inversion Hall as [|e l' [He _] Hall']; subst. destruct (name_eqb m n); [exact He | apply IH; exact Hall'].
  - intros n' f' Hne. unfold fib_find. destruct (name_eqb n' n) eqn:E.
    + apply name_eqb_spec in E. subst n'. rewrite fib_hops_remove_same by exact Hnd. apply nh_find_remove_other. congruence.
    + apply name_eqb_false in E. rewrite fib_hops_remove_other by exact E. reflexivity.
Qed.

(* ---------- strategy table: lookups ---------- *)
Fixpoint strat_find (t : stratT) (n : name) : option name :=
  match t with [] => None | (m, s) :: t' => if name_eqb m n then Some s else strat_find t' n end.

Theorem strat_set_effect t n s :
  strat_find (strat_set t n s) n = Some s /\ (forall n', n' <> n -> strat_find (strat_set t n s) n' = strat_find t n').
Proof.
  split.
  - induction t as [|[m x] t IH]; simpl; [rewrite name_eqb_refl; reflexivity|].
    destruct (name_eqb m n) eqn:E; simpl; rewrite E; [reflexivity | exact IH].
  - intros n' Hne. induction t as [|[m x] t IH]; simpl.
    + destruct (name_eqb n n') eqn:E; [apply name_eqb_spec in E; congruence | reflexivity].
    + destruct (name_eqb m n) eqn:E; simpl.
      * apply name_eqb_spec in E. subst m. destruct (name_eqb n n') eqn:E2; [apply name_eqb_spec in E2; congruence | reflexivity].
      * destruct (name_eqb m n'); [reflexivity | exact IH].
Qed.

Lemma strat_find_none t n : ~ In n (map fst t) -> strat_find t n = None.
Proof.
  induction t as [|[m x] t IH]; simpl; intros H; [reflexivity|].
  destruct (name_eqb m n) eqn:E; [apply name_eqb_spec in E; exfalso; apply H; left; exact E | apply IH; intros HI; apply H; right; exact HI].
Qed.
Theorem strat_unset_effect t n : NoDup (map fst t) ->
  strat_find (strat_unset t n) n = None /\ (forall n', n' <> n -> strat_find (strat_unset t n) n' = strat_find t n').
Proof.
  intros Hnd. split.
  - induction t as [|[m x] t IH]; simpl; [reflexivity|].
    inversion Hnd as [|k l Hnotin Hnd']; subst.
    destruct (name_eqb m n) eqn:E.
    + apply name_eqb_spec in E. subst. apply strat_find_none. exact Hnotin.
    + simpl. rewrite E. apply IH. exact Hnd'.
  - intros n' Hne. clear Hnd. induction t as [|[m x] t IH]; simpl; [reflexivity|].
    destruct (name_eqb m n) eqn:E.
    + apply name_eqb_spec in E. subst m. destruct (name_eqb n n') eqn:E2; [apply name_eqb_spec in E2; congruence | reflexivity].
    + simpl. destruct (name_eqb m n'); [reflexivity | exact IH].
Qed.

(* ---------- unique keys are kept by the FIB and strategy operations too ---------- *)
Lemma nh_add_keys l f c k : In k (map fst (nh_add l f c)) -> k = f \/ In k (map fst l).
Proof.
  induction l as [|[g d] l IH]; simpl.
  - intros [H|[]]; left; auto.
  - destruct (g =? f) eqn:E; simpl.
    + intros [H|H]; [right; left; exact H | right; right; exact H].
    + intros [H|H]; [right; left; exact H|]. destruct (IH H); [left; assumption | right; right; assumption].
Qed.
Lemma nh_add_nodup l f c : NoDup (map fst l) -> NoDup (map fst (nh_add l f c)).
Proof.
  induction l as [|[g d] l IH]; simpl; intros Hnd.
  - constructor; [intros [] | constructor].
  - inversion Hnd as [|k l' Hnotin Hnd']; subst. destruct (g =? f) eqn:E; simpl.
    + constructor; assumption.
    + constructor; [|apply IH; exact Hnd'].
      intros HI. apply nh_add_keys in HI as [HI|HI]; [subst; rewrite N.eqb_refl in E; discriminate | contradiction].
Qed.
Lemma nh_add_nonempty l f c : nh_add l f c <> [].
Proof. destruct l as [|[g d] l]; simpl; [discriminate|]. destruct (g =? f); discriminate. Qed.
Lemma fib_insert_keys t n f c k : In k (map fst (fib_insert t n f c)) -> k = n \/ In k (map fst t).
Proof.
  induction t as [|[m l] t IH]; simpl.
  - intros [H|[]]; left; auto.
  - destruct (name_eqb m n) eqn:E; simpl.
    + intros H; right; exact H.
    + intros [H|H]; [right; left; exact H|]. destruct (IH H); [left; assumption | right; right; assumption].
Qed.
Lemma fib_insert_wf t n f c : fib_wf t -> fib_wf (fib_insert t n f c).
Proof.
  intros [Hnd Hall]. induction t as [|[m l] t IH]; simpl.
  - split; [constructor; [intros []|constructor] | constructor; [|constructor]].
    split; [simpl; constructor; [intros []|constructor] | discriminate].
  - inversion Hnd as [|k l' Hnotin Hnd']; subst. inversion Hall as [|e l' [He Hne] Hall']; subst.
    destruct (name_eqb m n) eqn:E; simpl.
    + split; [constructor; assumption|]. constructor; [|exact Hall'].
      split; [apply nh_add_nodup; exact He | apply nh_add_nonempty].
    + destruct (IH Hnd' Hall') as [IH1 IH2]. split.
      * constructor; [|exact IH1]. intros HI. apply fib_insert_keys in HI as [HI|HI]; [|contradiction].
        subst. rewrite name_eqb_refl in E. discriminate.
      * constructor; [split; assumption | exact IH2].
Qed.
Lemma nh_remove_keys l f k : In k (map fst (nh_remove l f)) -> In k (map fst l).
Proof.
  induction l as [|[g d] l IH]; simpl; [auto|].
  destruct (g =? f); simpl; [intros H; right; exact H|]. intros [H|H]; [left; exact H | right; apply IH; exact H].
Qed.
Lemma nh_remove_nodup l f : NoDup (map fst l) -> NoDup (map fst (nh_remove l f)).
Proof.
  induction l as [|[g d] l IH]; simpl; intros Hnd; [constructor|].
  inversion Hnd as [|k l' Hnotin Hnd']; subst. destruct (g =? f); simpl; [exact Hnd'|].
  constructor; [|apply IH; exact Hnd']. intros HI. apply nh_remove_keys in HI. contradiction.
Qed.
Lemma fib_remove_keys t n f k : In k (map fst (fib_remove t n f)) -> In k (map fst t).
Proof.
  induction t as [|[m l] t IH]; simpl; [auto|].
  destruct (name_eqb m n).
  - destruct (nh_remove l f); simpl; [intros H; right; exact H | intros H; exact H].
  - simpl. intros [H|H]; [left; exact H | right; apply IH; exact H].
Qed.
Lemma fib_remove_wf t n f : fib_wf t -> fib_wf (fib_remove t n f).
Proof.
  intros [Hnd Hall]. induction t as [|[m l] t IH]; simpl; [split; constructor|].
  inversion Hnd as [|k l' Hnotin Hnd']; subst. inversion Hall as [|e l' [He Hne] Hall']; subst.
  destruct (name_eqb m n) eqn:E.
  - destruct (nh_remove l f) eqn:R.
    + split; assumption.
    + split; [constructor; assumption|]. constructor; [|exact Hall'].
      split; [rewrite <- R; apply nh_remove_nodup; exact He | discriminate].
  - destruct (IH Hnd' Hall') as [IH1 IH2]. split.
    + constructor; [|exact IH1]. intros HI. apply fib_remove_keys in HI. contradiction.
    + constructor; [split; assumption | exact IH2].
Qed.

Lemma strat_set_keys t n s k : In k (map fst (strat_set t n s)) -> k = n \/ In k (map fst t).
Proof.
  induction t as [|[m x] t IH]; simpl.
  - intros [H|[]]; left; auto.
  - destruct (name_eqb m n) eqn:E; simpl.
    + intros H; right; exact H.
    + intros [H|H]; [right; left; exact H|]. destruct (IH H); [left; assumption | right; right; assumption].
Qed.
Lemma strat_set_nodup t n s : NoDup (map fst t) -> NoDup (map fst (strat_set t n s)).
Proof.
  induction t as [|[m x] t IH]; simpl; intros Hnd.
  - constructor; [intros [] | constructor].
  - inversion Hnd as [|k l Hnotin Hnd']; subst. destruct (name_eqb m n) eqn:E; simpl.
    + constructor; assumption.
    + constructor; [|apply IH; exact Hnd'].
      intros HI. apply strat_set_keys in HI as [HI|HI]; [subst; rewrite name_eqb_refl in E; discriminate | contradiction].
Qed.
Lemma strat_unset_keys t n k : In k (map fst (strat_unset t n)) -> In k (map fst t).
Proof.
  induction t as [|[m x] t IH]; simpl; [auto|].
  destruct (name_eqb m n); simpl; [intros H; right; exact H|]. intros [H|H]; [left; exact H | right; apply IH; exact H].
Qed.
Lemma strat_unset_nodup t n : NoDup (map fst t) -> NoDup (map fst (strat_unset t n)).
Proof.
  induction t as [|[m x] t IH]; simpl; intros Hnd; [constructor|].
  inversion Hnd as [|k l Hnotin Hnd']; subst. destruct (name_eqb m n); simpl; [exact Hnd'|].
  constructor; [|apply IH; exact Hnd']. intros HI. apply strat_unset_keys in HI. contradiction.
Qed.

(* ---------- the reference RIB -> FIB synchronisation meets the specification of the FIB after a RIB change ---------- *)
Lemma hops_same_refl l : hops_same l l = true.
Proof.
  unfold hops_same. assert (H : forallb (fun x => existsb (nh_eqb x) l) l = true).
  { apply forallb_forall. intros x Hx. apply existsb_exists. exists x. split; [exact Hx | apply nh_eqb_spec; reflexivity]. }
  rewrite H. reflexivity.
Qed.

Lemma fib_replace_keys t n l k : In k (map fst (fib_replace t n l)) -> k = n \/ In k (map fst t).
Proof.
  induction t as [|[m x] t IH]; simpl.
  - destruct l; simpl; [intros [] | intros [H|[]]; left; auto].
  - destruct (name_eqb m n) eqn:E.
    + apply name_eqb_spec in E. subst m. destruct l; simpl; [intros H; right; right; exact H | intros [H|H]; [left; auto | right; right; exact H]].
    + simpl. intros [H|H]; [right; left; exact H|]. destruct (IH H); [left; assumption | right; right; assumption].
Qed.
Lemma fib_replace_nodup t n l : NoDup (map fst t) -> NoDup (map fst (fib_replace t n l)).
Proof.
  induction t as [|[m x] t IH]; simpl; intros Hnd.
  - destruct l; simpl; constructor; [intros [] | constructor].
  - inversion Hnd as [|k l' Hnotin Hnd']; subst. destruct (name_eqb m n) eqn:E.
    + destruct l; [exact Hnd' | simpl; constructor; assumption].
    + simpl. constructor; [|apply IH; exact Hnd'].
      intros HI. apply fib_replace_keys in HI as [HI|HI]; [subst; rewrite name_eqb_refl in E; discriminate | contradiction].
Qed.
Lemma fib_hops_replace_same t n l : NoDup (map fst t) -> fib_hops (fib_replace t n l) n = l.
Proof.
  induction t as [|[m x] t IH]; simpl; intros Hnd.
  - destruct l; simpl; [reflexivity | rewrite name_eqb_refl; reflexivity].
  - inversion Hnd as [|k l' Hnotin Hnd']; subst. destruct (name_eqb m n) eqn:E.
    + apply name_eqb_spec in E. subst m. destruct l; [apply fib_hops_notin; exact Hnotin | simpl; rewrite name_eqb_refl; reflexivity].
    + simpl. rewrite E. apply IH. exact Hnd'.
Qed.
Lemma fib_hops_replace_other t n l n' : n' <> n -> fib_hops (fib_replace t n l) n' = fib_hops t n'.
Proof.
  intros Hne. induction t as [|[m x] t IH]; simpl.
  - destruct l; simpl; [reflexivity|]. destruct (name_eqb n n') eqn:E; [apply name_eqb_spec in E; congruence | reflexivity].
  - destruct (name_eqb m n) eqn:E.
    + apply name_eqb_spec in E. subst m.
      assert (E2 : name_eqb n n' = false) by (apply name_eqb_false; congruence).
      destruct l; simpl; rewrite ?E2; reflexivity.
    + simpl. destruct (name_eqb m n'); [reflexivity | exact IH].
Qed.

(* one step of the fold of rib_sync, for any list of entries [es] *)
Definition sync_step (rib' : ribT) (scope : option name) (acc : fibT) (e : name * list route) : fibT :=
  if in_scope scope (fst e) then fib_replace acc (fst e) (fib_want rib' (fst e)) else acc.

Lemma sync_fold_nodup rib' scope es : forall f, NoDup (map fst f) -> NoDup (map fst (fold_left (sync_step rib' scope) es f)).
Proof.
  induction es as [|e es IH]; intros f Hf; simpl; [exact Hf|].
  apply IH. unfold sync_step. destruct (in_scope scope (fst e)); [apply fib_replace_nodup; exact Hf | exact Hf].
Qed.
Lemma sync_fold_other rib' scope es n : ~ In n (map fst es) -> forall f,
  fib_hops (fold_left (sync_step rib' scope) es f) n = fib_hops f n.
Proof.
  induction es as [|e es IH]; intros Hn f; simpl; [reflexivity|].
  rewrite IH by (intros HI; apply Hn; right; exact HI).
  unfold sync_step. destruct (in_scope scope (fst e)); [|reflexivity].
  apply fib_hops_replace_other. intros E. apply Hn. left. symmetry. exact E.
Qed.
Lemma sync_fold_in rib' scope es n : NoDup (map fst es) -> In n (map fst es) -> forall f, NoDup (map fst f) ->
  fib_hops (fold_left (sync_step rib' scope) es f) n = if in_scope scope n then fib_want rib' n else fib_hops f n.
Proof.
  induction es as [|e es IH]; intros Hnd Hin f Hf; simpl in *; [contradiction|].
  inversion Hnd as [|k l Hnotin Hnd']; subst.
  destruct Hin as [Hin|Hin].
  - subst n. rewrite sync_fold_other by exact Hnotin. unfold sync_step.
    destruct (in_scope scope (fst e)); [apply fib_hops_replace_same; exact Hf | reflexivity].
  - assert (Hne : n <> fst e) by (intros E; subst; contradiction).
    rewrite IH; try assumption.
    + destruct (in_scope scope n); [reflexivity|]. unfold sync_step.
      destruct (in_scope scope (fst e)); [apply fib_hops_replace_other; exact Hne | reflexivity].
    + unfold sync_step. destruct (in_scope scope (fst e)); [apply fib_replace_nodup; exact Hf | exact Hf].
Qed.

Lemma rib_routes_in t n : rib_routes t n <> [] -> In n (map fst t).
Proof.
  induction t as [|[m rs] t IH]; simpl; intros H; [contradiction|].
  destruct (name_eqb m n) eqn:E; [left; apply name_eqb_spec; exact E | right; apply IH; exact H].
Qed.

Theorem rib_sync_meets_spec rib' scope pre :
  NoDup (map fst rib') -> NoDup (map fst pre) ->
  spec_fib_after_rib scope rib' pre (rib_sync rib' scope pre) = true.
Proof.
  intros Hr Hp. unfold spec_fib_after_rib. apply forallb_forall. intros n _.
  change (rib_sync rib' scope pre) with (fold_left (sync_step rib' scope) rib' pre).
  destruct (in_scope scope n) eqn:Es.
  - destruct (rib_routes rib' n) eqn:Er.
    + (* no routes: untouched, or (an entry with an empty route list) cleared *)
      destruct (in_dec (fun a b => match Bool.bool_dec (name_eqb a b) true with
                                   | left e => left (proj1 (name_eqb_spec a b) e)
                                   | right ne => right (fun h => ne (proj2 (name_eqb_spec a b) h)) end) n (map fst rib')) as [Hin|Hnin].
      * rewrite (sync_fold_in rib' scope rib' n Hr Hin pre Hp), Es. unfold fib_want. rewrite Er. apply orb_true_r.
      * rewrite (sync_fold_other rib' scope rib' n Hnin). rewrite hops_same_refl. reflexivity.
    + assert (Hin : In n (map fst rib')) by (apply rib_routes_in; rewrite Er; discriminate).
      rewrite (sync_fold_in rib' scope rib' n Hr Hin pre Hp), Es. apply hops_same_refl.
  - destruct (in_dec (fun a b => match Bool.bool_dec (name_eqb a b) true with
                                 | left e => left (proj1 (name_eqb_spec a b) e)
                                 | right ne => right (fun h => ne (proj2 (name_eqb_spec a b) h)) end) n (map fst rib')) as [Hin|Hnin].
    + rewrite (sync_fold_in rib' scope rib' n Hr Hin pre Hp), Es. apply hops_same_refl.
    + rewrite (sync_fold_other rib' scope rib' n Hnin). apply hops_same_refl.
Qed.
