(* Mgmt/Wire.v — TLV-TYPE numbers of the NFD Management protocol (ControlParameters, ControlResponse) as the protocol
   specification assigns them. This table is written by hand from the protocol and is NOT regenerated from the source: it is
   what a command sent by nfdc or any other NDN library carries. The harness encodes a share of its commands and decodes every
   ControlResponse with an independent codec driven by the same table (harness/mgmt/wire_test.go), and the numbers the
   repository's own codec uses are observed on every run (GenConsts.v k_wire_observed); Props_C17.mgmt_wire_numbers_match_spec
   compares all three. *)
From Base Require Export Bytes.
Open Scope N_scope.

Definition wire_spec : list (list N * N) :=
  [ ([67;111;110;116;114;111;108;80;97;114;97;109;101;116;101;114;115], 104)    (* ControlParameters 0x68 *)
  ; ([78;97;109;101], 7)                                                          (* Name 0x07 *)
  ; ([70;97;99;101;73;100], 105)                                                  (* FaceId 0x69 *)
  ; ([85;114;105], 114)                                                           (* Uri 0x72 *)
  ; ([76;111;99;97;108;85;114;105], 129)                                          (* LocalUri 0x81 *)
  ; ([79;114;105;103;105;110], 111)                                               (* Origin 0x6f *)
  ; ([67;111;115;116], 106)                                                       (* Cost 0x6a *)
  ; ([67;97;112;97;99;105;116;121], 131)                                          (* Capacity 0x83 *)
  ; ([67;111;117;110;116], 132)                                                   (* Count 0x84 *)
  ; ([70;108;97;103;115], 108)                                                    (* Flags 0x6c *)
  ; ([77;97;115;107], 112)                                                        (* Mask 0x70 *)
  ; ([83;116;114;97;116;101;103;121], 107)                                        (* Strategy 0x6b *)
  ; ([69;120;112;105;114;97;116;105;111;110;80;101;114;105;111;100], 109)        (* ExpirationPeriod 0x6d *)
  ; ([70;97;99;101;80;101;114;115;105;115;116;101;110;99;121], 133)              (* FacePersistency 0x85 *)
  ; ([66;97;115;101;67;111;110;103;101;115;116;105;111;110;77;97;114;107;105;110;103;73;110;116;101;114;118;97;108], 135)  (* BaseCongestionMarkingInterval 0x87 *)
  ; ([68;101;102;97;117;108;116;67;111;110;103;101;115;116;105;111;110;84;104;114;101;115;104;111;108;100], 136)          (* DefaultCongestionThreshold 0x88 *)
  ; ([77;116;117], 137)                                                           (* Mtu 0x89 *)
  ; ([67;111;110;116;114;111;108;82;101;115;112;111;110;115;101], 101)            (* ControlResponse 0x65 *)
  ; ([83;116;97;116;117;115;67;111;100;101], 102)                                 (* StatusCode 0x66 *)
  ; ([83;116;97;116;117;115;84;101;120;116], 103) ].                              (* StatusText 0x67 *)

Definition wire_entry_eqb (a b : list N * N) : bool := bytes_eqb (fst a) (fst b) && (snd a =? snd b).
Definition wire_table_eqb : list (list N * N) -> list (list N * N) -> bool := list_eqb wire_entry_eqb.
