(* Property C17 — management commands are authorised, act as specified; bad ones are refused safely.
   Only theorem statements closed by `exact`, each followed by Print Assumptions. *)
From Mgmt Require Import Model Spec Proofs.
Open Scope N_scope.

(* the module and verb names the model dispatches on are the ones the source registers (translated data) *)
Theorem consts_match : consts_match_model = true.
Proof. exact consts_match_model_ok. Qed.
Print Assumptions consts_match.
