(* Property C17 — management commands are authorised, act as specified; bad ones are refused safely.
   Only theorem statements closed by `exact`, each followed by Print Assumptions.
   [rib_to_fib] and [face_cleanup] stand for table.Rib's re-flattening into the FIB and Rib.CleanUpFace (C06); [allow] is
   the configuration switch mgmt.allow_localhop. Every theorem holds for all of them.
   [run] is one iteration of Thread.Run on a received Interest; [Panic] is any unchecked index / nil dereference / failed
   type assertion of the Go handlers. Status codes, prefixes, verbs, defaults and bounds are the translated GenConsts.v. *)
From Mgmt Require Import Wire Model Spec Tables Proofs Effects.
Open Scope N_scope.

(* ---- translated data agrees with what the model dispatches on; the bounds it relies on ---- *)
Theorem consts_match : consts_match_model = true /\ k_missing_status = [].
Proof. exact (conj consts_match_model_ok eq_refl). Qed.
Print Assumptions consts_match.

(* the TLV-TYPE numbers of ControlParameters / ControlResponse: the ones the repository's codec writes (observed on this run)
   and the ones the harness's independent codec uses both equal the protocol's table (Wire.v, written by hand) *)
Theorem mgmt_wire_numbers_match_spec :
  wire_table_eqb k_wire_observed wire_spec = true /\ wire_table_eqb k_wire_harness wire_spec = true.
Proof. exact (conj eq_refl eq_refl). Qed.
Print Assumptions mgmt_wire_numbers_match_spec.

Theorem guards_in_source :
  (k_ContentStoreModule_local_only = true /\ k_FaceModule_local_only = true /\ k_FIBModule_local_only = true /\
   k_ForwarderStatusModule_local_only = true /\ k_StrategyChoiceModule_local_only = true /\ k_RIBModule_local_only = false) /\
  (k_run_localhop_guarded = true /\ k_run_min_extra = 2).
Proof. exact (conj local_only_flags run_guard_flags). Qed.
Print Assumptions guards_in_source.

Theorem defaults_are_the_stated_ones :
  k_RIBModule_register_default_origin = k_route_origin_app /\ k_RIBModule_register_default_cost = 0 /\
  k_RIBModule_register_default_flags = k_route_flag_child_inherit /\ k_RIBModule_unregister_default_origin = k_route_origin_app /\
  k_FIBModule_add_default_cost = 0.
Proof. exact defaults_as_stated. Qed.
Print Assumptions defaults_are_the_stated_ones.

(* ---- mgmt_authorised: a command changes forwarder state only under /localhost/nfd, or - RIB commands only - under
   /localhop/nfd when localhop management is enabled. (That only local faces can send under /localhost is C09.) ---- *)
Theorem mgmt_authorised : forall rib_to_fib face_cleanup allow ds_fits st vs c st' vs' r,
  run rib_to_fib face_cleanup allow ds_fits st vs c = Ok st' vs' r -> st' = st \/ authorised allow (c_name c) = true.
Proof. exact run_authorised. Qed.
Print Assumptions mgmt_authorised.

(* ---- mgmt_reject_pure: whatever is not answered with status 200 (4xx/5xx, silent drop, dataset) changes nothing ---- *)
Theorem mgmt_reject_pure : forall rib_to_fib face_cleanup allow ds_fits st vs c st' vs' r,
  run rib_to_fib face_cleanup allow ds_fits st vs c = Ok st' vs' r -> accepted r = false -> st' = st.
Proof. exact run_pure. Qed.
Print Assumptions mgmt_reject_pure.

Theorem mgmt_status_class : forall rib_to_fib face_cleanup allow ds_fits st vs c st' vs' r,
  run rib_to_fib face_cleanup allow ds_fits st vs c = Ok st' vs' r -> spec_status_class r = true.
Proof. exact run_classed. Qed.
Print Assumptions mgmt_status_class.

(* ---- mgmt_total: no Interest makes the management thread panic (indexing past the strategy prefix, nil parameters or
   filter, non-NDNLP link service), given the face-table invariant that only null/internal faces are non-NDNLP ---- *)
Theorem mgmt_total : forall rib_to_fib face_cleanup allow ds_fits st vs c,
  faces_wf st = true -> run rib_to_fib face_cleanup allow ds_fits st vs c <> Panic.
Proof. exact run_total. Qed.
Print Assumptions mgmt_total.

(* ---- invariants kept by every command: only instantiated strategies in the strategy table and the root keeps one;
   every NDNLP face keeps an MTU above the largest link overhead (mtu_floor); CS capacity stays non-negative;
   the face-table invariant ---- *)
Theorem mgmt_keeps_invariants : forall rib_to_fib face_cleanup allow ds_fits st vs c st' vs' r,
  inv st = true -> run rib_to_fib face_cleanup allow ds_fits st vs c = Ok st' vs' r -> inv st' = true.
Proof. exact run_keeps_inv. Qed.
Print Assumptions mgmt_keeps_invariants.

(* ---- the three tables keep unique keys (the precondition of the removal-effect theorems below), provided the two external
   functions keep them ---- *)
Theorem mgmt_keeps_unique_keys : forall rib_to_fib face_cleanup allow ds_fits st vs c st' vs' r,
  ext_wf rib_to_fib face_cleanup -> tables_wf st ->
  run rib_to_fib face_cleanup allow ds_fits st vs c = Ok st' vs' r -> tables_wf st'.
Proof. exact (fun rtf fc al df st vs c st' vs' r X W H => run_keeps_tables_wf rtf fc al df st vs c X W st' vs' r H). Qed.
Print Assumptions mgmt_keeps_unique_keys.

(* ---- the FIB after a RIB change. [spec_fib_after_rib] (evaluated by the runner on the implementation after every accepted
   rib/register, rib/unregister and face removal): every prefix with routes in scope holds exactly the flattened next hops of
   the new RIB (own routes + child-inherit routes up to the nearest capture, minimum cost per face), prefixes without routes
   keep or lose theirs, prefixes out of scope are untouched. The reference synchronisation [rib_sync] - which the runner uses
   as the model's RIB->FIB function - meets it. ---- *)
Theorem rib_change_reflected_in_fib : forall rib' scope pre,
  NoDup (map fst rib') -> NoDup (map fst pre) -> spec_fib_after_rib scope rib' pre (rib_sync rib' scope pre) = true.
Proof. exact rib_sync_meets_spec. Qed.
Print Assumptions rib_change_reflected_in_fib.

(* an in-place update of a route (same prefix, face, origin; new cost, flags 0) changes the next hop's cost at that prefix and
   withdraws the inherited next hop from the sub-prefix *)
Example rib_update_example :
  let a := [gcomp [97]] in let ab := [gcomp [97]; gcomp [98]] in
  let rib1 := rib_add (rib_add [] a (Build_route 400 0 10 1 None)) ab (Build_route 401 0 0 1 None) in
  let fib1 := rib_sync rib1 (Some []) [] in
  let rib2 := rib_add rib1 a (Build_route 400 0 3 0 None) in
  let fib2 := rib_sync rib2 (Some a) fib1 in
  fib_hops fib1 a = [(400, 10)] /\ fib_hops fib1 ab = [(401, 0); (400, 10)] /\
  fib_hops fib2 a = [(400, 3)] /\ fib_hops fib2 ab = [(401, 0)].
Proof. vm_compute. repeat split. Qed.

(* ---- datasets_exact: every status dataset (single segment) lists exactly the table it reports ---- *)
Theorem datasets_exact : forall rib_to_fib face_cleanup allow ds_fits st vs c st' vs' r,
  run rib_to_fib face_cleanup allow ds_fits st vs c = Ok st' vs' r -> spec_dataset c r st' = true.
Proof. exact run_ds_exact. Qed.
Print Assumptions datasets_exact.

(* ---- datasets_answered_partial. Full statement: every dataset request under the management prefix is answered with the
   dataset. Proved only under the visible hypothesis that every dataset fits one segment ([ds_fits] = "fits one Data packet",
   external codec): a larger dataset cannot be sent as the single segment makeStatusDataset builds, and nothing arrives. The pinned code therefore
   violates the full statement - answered_unless_large_refuted, known finding (about 180 routes are enough). ---- *)
Theorem datasets_answered_partial : forall rib_to_fib face_cleanup allow ds_fits st vs c st' vs' r,
  (forall d, ds_fits d = true) ->
  run rib_to_fib face_cleanup allow ds_fits st vs c = Ok st' vs' r -> spec_answered allow c r = true.
Proof. exact run_answered. Qed.
Print Assumptions datasets_answered_partial.

Theorem answered_unless_large_refuted : forall rib_to_fib face_cleanup fits, honest_fits fits ->
  inv big_state = true /\ is_dataset_cmd false (c_name rib_list_cmd) = true /\
  forall vs, exists vs', run rib_to_fib face_cleanup false fits big_state vs rib_list_cmd = Ok big_state vs' RNone.
Proof. exact answered_refuted. Qed.
Print Assumptions answered_unless_large_refuted.

(* ---- the model meets the step specification that the runner evaluates on the implementation's observations ---- *)
Theorem mgmt_step_spec : forall rib_to_fib face_cleanup allow ds_fits st vs c st' vs' r,
  run rib_to_fib face_cleanup allow ds_fits st vs c = Ok st' vs' r -> spec_step allow st c r st' = true.
Proof. exact run_spec_step. Qed.
Print Assumptions mgmt_step_spec.

(* ---- all histories: from any state meeting the invariants, every sequence of commands runs without panic, every step
   meets the step specification and the invariants hold after every step ---- *)
Theorem mgmt_all_histories : forall rib_to_fib face_cleanup allow ds_fits cs st vs, inv st = true ->
  exists tr, run_trace rib_to_fib face_cleanup allow ds_fits st vs cs = Some tr /\ length tr = length cs /\ Forall (step_good allow) tr.
Proof. exact all_histories. Qed.
Print Assumptions mgmt_all_histories.

(* ---- mgmt_effect_exact, verb by verb (lookups: rib_find / fib_find / strat_find) ---- *)
Theorem mgmt_effect_rib_register : forall rib_to_fib st vs c a nm,
  has_params c a -> a_name a = Some nm ->
  (explicit_face a = true -> face_exists st (acts_on c a) = true) ->
  (forall e, a_exp a = Some e -> e <= k_RIBModule_register_max_expiration) ->
  let fid := acts_on c a in
  let origin := oget (a_origin a) k_route_origin_app in
  let cost := oget (a_cost a) 0 in
  let flags := oget (a_flags a) k_route_flag_child_inherit in
  exists st' echo,
    rib_register rib_to_fib st vs c = Ok st' vs (RCtl 200 echo (c_inface c)) /\
    rib_find (s_rib st') nm fid origin = Some (Build_route fid origin cost flags (a_exp a)) /\
    (forall n' f o, (n', f, o) <> (nm, fid, origin) -> rib_find (s_rib st') n' f o = rib_find (s_rib st) n' f o) /\
    s_fib st' = rib_to_fib (s_rib st') nm (s_fib st) /\
    s_strat st' = s_strat st /\ s_cs st' = s_cs st /\ s_faces st' = s_faces st /\
    a_name echo = Some nm /\ a_face echo = Some fid /\ a_origin echo = Some origin /\ a_cost echo = Some cost /\ a_flags echo = Some flags.
Proof. exact rib_register_effect. Qed.
Print Assumptions mgmt_effect_rib_register.

Theorem mgmt_effect_rib_unregister : forall rib_to_fib st vs c a nm,
  has_params c a -> a_name a = Some nm -> rib_wf (s_rib st) ->
  let fid := acts_on c a in
  let origin := oget (a_origin a) k_route_origin_app in
  exists st' echo,
    rib_unregister rib_to_fib st vs c = Ok st' vs (RCtl 200 echo (c_inface c)) /\
    rib_find (s_rib st') nm fid origin = None /\
    (forall n' f o, (n', f, o) <> (nm, fid, origin) -> rib_find (s_rib st') n' f o = rib_find (s_rib st) n' f o) /\
    s_fib st' = rib_to_fib (s_rib st') nm (s_fib st) /\
    s_strat st' = s_strat st /\ s_cs st' = s_cs st /\ s_faces st' = s_faces st.
Proof. exact rib_unregister_effect. Qed.
Print Assumptions mgmt_effect_rib_unregister.

Theorem mgmt_effect_fib_add : forall st vs c a nm,
  has_params c a -> a_name a = Some nm ->
  (explicit_face a = true -> face_exists st (acts_on c a) = true) ->
  let fid := acts_on c a in
  let cost := oget (a_cost a) 0 in
  exists st' echo,
    fib_add st vs c = Ok st' vs (RCtl 200 echo (c_inface c)) /\
    fib_find (s_fib st') nm fid = Some cost /\
    (forall n' f, (n', f) <> (nm, fid) -> fib_find (s_fib st') n' f = fib_find (s_fib st) n' f) /\
    s_rib st' = s_rib st /\ s_strat st' = s_strat st /\ s_cs st' = s_cs st /\ s_faces st' = s_faces st.
Proof. exact fib_add_effect. Qed.
Print Assumptions mgmt_effect_fib_add.

Theorem mgmt_effect_fib_remove : forall st vs c a nm,
  has_params c a -> a_name a = Some nm -> fib_wf (s_fib st) ->
  let fid := acts_on c a in
  exists st' echo,
    fib_remove_cmd st vs c = Ok st' vs (RCtl 200 echo (c_inface c)) /\
    fib_find (s_fib st') nm fid = None /\
    (forall n' f, (n', f) <> (nm, fid) -> fib_find (s_fib st') n' f = fib_find (s_fib st) n' f) /\
    s_rib st' = s_rib st /\ s_strat st' = s_strat st /\ s_cs st' = s_cs st /\ s_faces st' = s_faces st.
Proof. exact fib_remove_effect'. Qed.
Print Assumptions mgmt_effect_fib_remove.

Theorem mgmt_effect_strategy_set : forall st vs c a nm s avail v vopt,
  has_params c a -> a_name a = Some nm ->
  In (s, avail) k_strategies -> strategy_versions k_strategies (gcomp s) = Some avail ->
  (match vopt with
   | Some vb => a_strategy a = Some (strategy_prefix ++ [gcomp s; mkc k_typ_version vb]) /\ parse_nat vb = Some v /\ In v avail
   | None => a_strategy a = Some (strategy_prefix ++ [gcomp s]) /\ max_version avail = Some v
   end) ->
  let installed := strategy_prefix ++ [gcomp s; version_comp v] in
  exists st' echo,
    strat_set_cmd st vs c = Ok st' vs (RCtl 200 echo (c_inface c)) /\
    strat_find (s_strat st') nm = Some installed /\
    (forall n', n' <> nm -> strat_find (s_strat st') n' = strat_find (s_strat st) n') /\
    known_strategy installed = true /\
    s_rib st' = s_rib st /\ s_fib st' = s_fib st /\ s_cs st' = s_cs st /\ s_faces st' = s_faces st /\
    a_strategy echo = Some installed.
Proof. exact strat_set_effect'. Qed.
Print Assumptions mgmt_effect_strategy_set.

Theorem mgmt_effect_strategy_unset : forall st vs c a nm,
  has_params c a -> a_name a = Some nm -> nm <> [] -> NoDup (map fst (s_strat st)) ->
  exists st' echo,
    strat_unset_cmd st vs c = Ok st' vs (RCtl 200 echo (c_inface c)) /\
    strat_find (s_strat st') nm = None /\
    (forall n', n' <> nm -> strat_find (s_strat st') n' = strat_find (s_strat st) n') /\
    s_rib st' = s_rib st /\ s_fib st' = s_fib st /\ s_cs st' = s_cs st /\ s_faces st' = s_faces st.
Proof. exact strat_unset_effect'. Qed.
Print Assumptions mgmt_effect_strategy_unset.

Theorem mgmt_effect_cs_config : forall st vs c a cap,
  has_params c a -> a_capacity a = Some cap -> cap <= k_ContentStoreModule_config_max_capacity ->
  isSome (a_flags a) = isSome (a_mask a) ->
  exists echo, cs_config st vs c = Ok (set_cs st (Z.of_N cap)) vs (RCtl 200 echo (c_inface c)) /\ a_capacity echo = Some cap.
Proof. exact cs_config_effect. Qed.
Print Assumptions mgmt_effect_cs_config.

(* ---- mtu_floor: an accepted MTU is stored (capped at the maximum packet size) and always leaves a positive fragment
   payload, whatever link-service options are on, with a PIT token and a congestion mark attached ---- *)
Theorem mtu_floor : forall st vs c a f m st' vs' echo,
  has_params c a -> face_get (s_faces st) (acts_on c a) = Some f -> a_mtu a = Some m ->
  face_update st vs c = Ok st' vs' (RCtl 200 echo (c_inface c)) ->
  exists f', face_get (s_faces st') (f_id f) = Some f' /\
             f_mtu f' = N.min m k_max_ndn_packet_size /\ k_FaceModule_update_min_mtu <= m /\
             forall o, header_overhead o + k_pit_token_overhead + k_congestion_mark_overhead < f_mtu f'.
Proof. exact face_update_mtu. Qed.
Print Assumptions mtu_floor.

(* ---- bad parameters are answered with a status of the 4xx class - which code is not constrained - and, by mgmt_reject_pure,
   change nothing ---- *)
Theorem mgmt_refuses_missing_params : forall rib_to_fib face_cleanup st vs c, no_params c ->
  refused (rib_register rib_to_fib st vs c) st vs c /\ refused (rib_unregister rib_to_fib st vs c) st vs c /\
  refused (fib_add st vs c) st vs c /\ refused (fib_remove_cmd st vs c) st vs c /\
  refused (strat_set_cmd st vs c) st vs c /\ refused (strat_unset_cmd st vs c) st vs c /\
  refused (cs_config st vs c) st vs c /\ refused (face_create st vs c) st vs c /\
  refused (face_update st vs c) st vs c /\ refused (face_destroy face_cleanup st vs c) st vs c.
Proof. exact missing_params_refused. Qed.
Print Assumptions mgmt_refuses_missing_params.

Theorem mgmt_refuses_unknown_face : forall rib_to_fib st vs c a nm, has_params c a -> a_name a = Some nm ->
  explicit_face a = true -> face_exists st (acts_on c a) = false ->
  refused (rib_register rib_to_fib st vs c) st vs c /\ refused (fib_add st vs c) st vs c.
Proof. exact unknown_face_refused. Qed.
Print Assumptions mgmt_refuses_unknown_face.

Theorem mgmt_refuses_strategy_without_component : forall st vs c a nm sn, has_params c a -> a_name a = Some nm ->
  a_strategy a = Some sn -> (is_prefix strategy_prefix sn = false \/ (length sn <= length strategy_prefix)%nat) ->
  refused (strat_set_cmd st vs c) st vs c.
Proof. exact strategy_without_component_refused. Qed.
Print Assumptions mgmt_refuses_strategy_without_component.

Theorem mgmt_refuses_small_mtu : forall st vs c a f m, has_params c a -> face_get (s_faces st) (acts_on c a) = Some f ->
  (f_rscheme f =? sch_null) || (f_rscheme f =? sch_internal) = false ->
  a_mtu a = Some m -> m < k_FaceModule_update_min_mtu ->
  refused (face_update st vs c) st vs c.
Proof. exact small_mtu_refused. Qed.
Print Assumptions mgmt_refuses_small_mtu.

Theorem mgmt_refuses_out_of_range : forall rib_to_fib st vs c a,
  has_params c a ->
  (forall cap, isSome (a_flags a) = isSome (a_mask a) -> a_capacity a = Some cap -> k_ContentStoreModule_config_max_capacity < cap ->
     refused (cs_config st vs c) st vs c) /\
  (forall nm e, a_name a = Some nm -> explicit_face a && negb (face_exists st (acts_on c a)) = false ->
     a_exp a = Some e -> k_RIBModule_register_max_expiration < e -> refused (rib_register rib_to_fib st vs c) st vs c).
Proof.
  exact (fun rtf st vs c a Hp => conj (fun cap H1 H2 H3 => huge_capacity_refused st vs c a cap Hp H1 H2 H3)
                                      (fun nm e H1 H2 H3 H4 => huge_expiration_refused rtf st vs c a nm e Hp H1 H2 H3 H4)).
Qed.
Print Assumptions mgmt_refuses_out_of_range.

(* ---- non-vacuity: a concrete state meeting the invariants, and a history that registers a route from the requesting
   face with the defaults, sets a strategy, lowers an MTU to the floor and reads the RIB back ---- *)
Definition ex_opts : fopts := Build_fopts false false false false true 100000000 65536.
Definition ex_state : state :=
  Build_state [] (initial_fib false 1) initial_strat 1024
    [Build_faceT 1 sch_internal sch_internal 1 0 0 8800 true ex_opts 1 1; Build_faceT 2 sch_udp4 sch_udp4 0 0 0 1500 true ex_opts 2 3].
Definition ex_name (ws : list (list N)) : name := map gcomp ws.
Definition ex_ab : name := ex_name [[97]; [98]].
Definition ex_args : cargs := Build_cargs (Some ex_ab) None None None None None None None None None None None None None.
Definition ex_cmd (module verb : list N) (a : cargs) : cmd :=
  Build_cmd 2 (local_prefix ++ ex_name [module; verb; [104]]) (Some a) 0 QErr.
Definition ex_history : list cmd :=
  [ ex_cmd w_rib [114;101;103;105;115;116;101;114] ex_args;
    ex_cmd w_strategy_choice [115;101;116]
      (Build_cargs (Some ex_ab) None None None None None None None (Some (strategy_prefix ++ [gcomp [109;117;108;116;105;99;97;115;116]])) None None None None None);
    ex_cmd w_faces [117;112;100;97;116;101] (Build_cargs None None None None None None None None None None None None None (Some 64));
    Build_cmd 2 (local_prefix ++ ex_name [w_rib; w_list]) None 0 QErr ].
Example c17_example :
  inv ex_state = true /\
  match run_trace (fun r _ f => f) (fun _ r f => (r, f)) false (fun _ => true) ex_state (Build_vers 0 0 0 0 0 0) ex_history with
  | Some [(_, _, RCtl 200 _ 2, s1); (_, _, RCtl 200 _ 2, s2); (_, _, RCtl 200 _ 2, s3); (_, _, RData (NRibList _) 0 (DRib t), _)] =>
      rib_find (s_rib s1) ex_ab 2 0 = Some (Build_route 2 0 0 1 None) /\
      strat_find (s_strat s2) ex_ab = Some (strategy_prefix ++ [gcomp [109;117;108;116;105;99;97;115;116]; version_comp 1]) /\
      option_map f_mtu (face_get (s_faces s3) 2) = Some 64 /\ t = s_rib s1
  | _ => False
  end.
Proof. vm_compute. repeat split. Qed.
