(* Mgmt/Proofs.v — theorems about the management model (Model.v) against the specification predicates (Spec.v).
   The two external functions (C06's RIB->FIB flattening and face clean-up) and the localhop switch are Section
   variables: every theorem holds for all of them. *)
From Mgmt Require Import Model Spec Tables.
Open Scope N_scope.

Lemma consts_match_model_ok : consts_match_model = true.
Proof. vm_compute. reflexivity. Qed.

(* facts about the translated constants, decided by computation; if the source changes one of them these fail *)
Lemma local_only_flags :
  k_ContentStoreModule_local_only = true /\ k_FaceModule_local_only = true /\ k_FIBModule_local_only = true /\
  k_ForwarderStatusModule_local_only = true /\ k_StrategyChoiceModule_local_only = true /\ k_RIBModule_local_only = false.
Proof. vm_compute. repeat split. Qed.
Lemma run_guard_flags : k_run_localhop_guarded = true /\ k_run_min_extra = 2.
Proof. vm_compute. split; reflexivity. Qed.
Lemma plen_is_2 : plen = 2%nat.
Proof. vm_compute. reflexivity. Qed.

(* innermost-first case split on the matches occurring in a hypothesis *)
Ltac destr_in H :=
  match type of H with
  | context [match ?x with _ => _ end] =>
      lazymatch x with
      | context [match _ with _ => _ end] => fail
      | _ => destruct x eqn:?
      end
  end.
Ltac cases_of H := repeat destr_in H; try discriminate H.
Ltac inv_ok H := inversion H; subst; clear H.
Ltac closed_bool H := vm_compute in H; discriminate H.


(* ---------- helper lemmas ---------- *)
Lemma comp_is_eq c s : comp_is c s = true -> c = gcomp s.
Proof. unfold comp_is. apply comp_eqb_spec. Qed.

Lemma is_prefix_firstn p : forall n, is_prefix p n = true -> firstn (length p) n = p.
Proof.
  induction p as [|c p IH]; intros [|d n]; simpl; intros H; try reflexivity; try discriminate.
  apply andb_true_iff in H as [H1 H2]. apply comp_eqb_spec in H1. subst. f_equal. apply IH. exact H2.
Qed.
Lemma firstn_succ_nth {A} (l : list A) : forall k x, nth_error l k = Some x -> firstn (S k) l = firstn k l ++ [x].
Proof.
  induction l as [|a l IH]; intros [|k] x H; simpl in *; try discriminate.
  - inversion H. reflexivity.
  - f_equal. apply IH. exact H.
Qed.

Lemma strategy_versions_in l sc avail :
  strategy_versions l sc = Some avail -> exists s, In (s, avail) l /\ sc = gcomp s.
Proof.
  induction l as [|[s vs] l IH]; simpl; intros H; [discriminate|].
  destruct (comp_is sc s) eqn:E.
  - inversion H; subst. exists s. split; [left; reflexivity | apply comp_is_eq; exact E].
  - destruct (IH H) as [s' [Hin Heq]]. exists s'. split; [right; exact Hin | exact Heq].
Qed.

Lemma fold_max_in l : forall v, In (fold_left N.max l v) (v :: l).
Proof.
  induction l as [|x l IH]; intros v; simpl; [left; reflexivity|].
  destruct (IH (N.max v x)) as [H|H].
  - destruct (N.max_spec v x) as [[_ E]|[_ E]]; rewrite E in *; [right; left; exact H | left; exact H].
  - right; right; exact H.
Qed.
Lemma max_version_in avail v : max_version avail = Some v -> In v avail.
Proof.
  destruct avail as [|x r]; simpl; intros H; [discriminate|]. inversion H. apply fold_max_in.
Qed.
Lemma existsb_eqb_in v l : existsb (N.eqb v) l = true -> In v l.
Proof.
  intros H. apply existsb_exists in H as [x [Hin E]]. apply N.eqb_eq in E. subst. exact Hin.
Qed.

Lemma known_accept sn sc avail v :
  is_prefix strategy_prefix sn = true -> nth_error sn (length strategy_prefix) = Some sc ->
  strategy_versions k_strategies sc = Some avail -> In v avail ->
  known_strategy (firstn (length strategy_prefix + 1) sn ++ [version_comp v]) = true.
Proof.
  intros Hp Hn Hs Hv.
  destruct (strategy_versions_in _ _ _ Hs) as [s [Hin Heq]]. subst sc.
  replace (length strategy_prefix + 1)%nat with (S (length strategy_prefix)) by lia.
  rewrite (firstn_succ_nth _ _ _ Hn), (is_prefix_firstn _ _ Hp).
  unfold known_strategy. apply existsb_exists. exists (s, avail). split; [exact Hin|].
  apply existsb_exists. exists v. split; [exact Hv|]. cbn [fst].
  rewrite <- app_assoc. apply name_eqb_refl.
Qed.

Lemma strat_known_set t n s : strat_known t = true -> known_strategy s = true -> strat_known (strat_set t n s) = true.
Proof.
  unfold strat_known. intros Ht Hs. induction t as [|[m x] t IH]; simpl in *.
  - rewrite Hs. reflexivity.
  - apply andb_true_iff in Ht as [H1 H2]. destruct (name_eqb m n); simpl.
    + rewrite Hs, H2. reflexivity.
    + rewrite H1. apply IH. exact H2.
Qed.
Lemma strat_known_unset t n : strat_known t = true -> strat_known (strat_unset t n) = true.
Proof.
  unfold strat_known. intros Ht. induction t as [|[m x] t IH]; simpl in *; [reflexivity|].
  apply andb_true_iff in Ht as [H1 H2]. destruct (name_eqb m n); simpl; [exact H2 | rewrite H1; apply IH; exact H2].
Qed.
Lemma root_set t n s : root_has_strategy t = true -> root_has_strategy (strat_set t n s) = true.
Proof.
  unfold root_has_strategy. intros Ht. induction t as [|[m x] t IH]; simpl in *; [discriminate|].
  destruct (name_eqb m n); simpl.
  - exact Ht.
  - apply orb_true_iff in Ht as [H|H]; [rewrite H; reflexivity | rewrite (IH H); apply orb_true_r].
Qed.
Lemma root_unset t n : n <> [] -> root_has_strategy t = true -> root_has_strategy (strat_unset t n) = true.
Proof.
  unfold root_has_strategy. intros Hn Ht. induction t as [|[m x] t IH]; simpl in *; [discriminate|].
  destruct (name_eqb m n) eqn:E; simpl.
  - apply name_eqb_spec in E. subst m.
    apply orb_true_iff in Ht as [H|H]; [|exact H]. apply name_eqb_spec in H. contradiction.
  - apply orb_true_iff in Ht as [H|H]; [rewrite H; reflexivity | rewrite (IH H); apply orb_true_r].
Qed.

Lemma forallb_face_put (P : faceT -> bool) l g : forallb P l = true -> P g = true -> forallb P (face_put l g) = true.
Proof.
  intros Hl Hg. induction l as [|f l IH]; simpl in *; [reflexivity|].
  apply andb_true_iff in Hl as [H1 H2]. destruct (f_id f =? f_id g); simpl.
  - rewrite Hg, H2. reflexivity.
  - rewrite H1. apply IH. exact H2.
Qed.
Lemma forallb_face_del (P : faceT -> bool) l id : forallb P l = true -> forallb P (face_del l id) = true.
Proof.
  intros Hl. induction l as [|f l IH]; simpl in *; [reflexivity|].
  apply andb_true_iff in Hl as [H1 H2]. destruct (f_id f =? id); simpl; [exact H2 | rewrite H1; apply IH; exact H2].
Qed.
Lemma face_get_forallb (P : faceT -> bool) l id f : forallb P l = true -> face_get l id = Some f -> P f = true.
Proof.
  intros Hl. induction l as [|g l IH]; simpl in *; [discriminate|].
  apply andb_true_iff in Hl as [H1 H2]. destruct (f_id g =? id); intros H; [inversion H; subst; exact H1 | apply IH; assumption].
Qed.

Lemma face_get_id l id f : face_get l id = Some f -> f_id f = id.
Proof.
  induction l as [|g l IH]; simpl; [discriminate|].
  destruct (f_id g =? id) eqn:E; intros H; [inversion H; subst; apply N.eqb_eq; exact E | apply IH; exact H].
Qed.
Lemma face_get_put l id f g : face_get l id = Some f -> f_id g = f_id f -> face_get (face_put l g) (f_id f) = Some g.
Proof.
  intros Hg Hid. pose proof (face_get_id _ _ _ Hg) as Hf. subst id.
  induction l as [|x l IH]; simpl in *; [discriminate|].
  destruct (f_id x =? f_id f) eqn:E.
  - rewrite Hid, E. simpl. rewrite Hid, N.eqb_refl. reflexivity.
  - rewrite Hid, E. simpl. rewrite E. apply IH. exact Hg.
Qed.

Lemma wrap64_small z : (0 <= z < two63)%Z -> wrap64 z = z.
Proof.
  intros H. unfold wrap64. rewrite Z.mod_small; unfold two63, two64 in *; lia.
Qed.

(* the forwarder-state invariants that management must keep *)
Definition strat_ok (st : state) : bool := strat_known (s_strat st) && root_has_strategy (s_strat st).
(* only NDNLP link services carry a scheme other than null/internal (true of every face the daemon creates) *)
Definition face_wf (f : faceT) : bool := f_ndnlp f || (f_rscheme f =? sch_null) || (f_rscheme f =? sch_internal).
Definition faces_wf (st : state) : bool := forallb face_wf (s_faces st).
Definition inv (st : state) : bool := strat_ok st && faces_usable st && cs_sane st && faces_wf st.

(* the floor accepted by faces/update and faces/create exceeds the largest overhead; the capacity bound fits an int *)
Lemma bounds_ok :
  max_overhead < k_FaceModule_update_min_mtu /\ max_overhead < k_FaceModule_create_min_mtu /\
  k_FaceModule_update_min_mtu <= k_max_ndn_packet_size /\
  (Z.of_N k_ContentStoreModule_config_max_capacity < two63)%Z.
Proof. vm_compute. repeat split; congruence. Qed.

Section Proofs.
  Variable rib_to_fib : ribT -> name -> fibT -> fibT.
  Variable face_cleanup : N -> ribT -> fibT -> ribT * fibT.
  Variable allow : bool.
  Variable ds_fits : dataset -> bool.

  Notation rib_module := (rib_module rib_to_fib ds_fits).
  Notation face_module := (face_module face_cleanup ds_fits).
  Notation fib_module := (fib_module ds_fits).
  Notation strat_module := (strat_module ds_fits).
  Notation cs_module := (cs_module ds_fits).
  Notation status_module := (status_module ds_fits).
  Notation run := (run rib_to_fib face_cleanup allow ds_fits).

  (* ------------------------------------------------------------------------------------------------
     mgmt_reject_pure: anything but a ControlResponse with status 200 leaves the state untouched *)
  Definition pure (st : state) (o : outcome) : Prop :=
    forall st' vs' r, o = Ok st' vs' r -> accepted r = false -> st' = st.

  Ltac pure_tac unf :=
    intros st' vs' r H Hacc; unf; cbv beta zeta in H; cases_of H; inv_ok H;
    first [reflexivity | cbv beta iota delta [accepted] in Hacc; closed_bool Hacc].

  Ltac unf_rib H := unfold Model.rib_module, rib_register, rib_unregister, rib_announce, rib_list, with_params, ctl, publish in H.
  Ltac unf_fib H := unfold Model.fib_module, fib_add, fib_remove_cmd, fib_list, with_params, ctl, publish in H.
  Ltac unf_strat H := unfold Model.strat_module, strat_set_cmd, strat_unset_cmd, strat_list, with_params, ctl, publish in H.
  Ltac unf_cs H := unfold Model.cs_module, cs_config, cs_info, with_params, ctl, publish in H.
  Ltac unf_status H := unfold Model.status_module, ctl, publish in H.
  Ltac unf_face H := unfold Model.face_module, face_create, face_update, face_destroy, face_list, face_query, with_params, ctl, publish in H.

  Lemma rib_module_pure st vs c : pure st (rib_module st vs c).
  Proof. pure_tac ltac:(unf_rib H). Qed.
  Lemma fib_module_pure st vs c : pure st (fib_module st vs c).
  Proof. pure_tac ltac:(unf_fib H). Qed.
  Lemma strat_module_pure st vs c : pure st (strat_module st vs c).
  Proof. pure_tac ltac:(unf_strat H). Qed.
  Lemma cs_module_pure st vs c : pure st (cs_module st vs c).
  Proof. pure_tac ltac:(unf_cs H). Qed.
  Lemma status_module_pure st vs c : pure st (status_module st vs c).
  Proof. pure_tac ltac:(unf_status H). Qed.
  Lemma face_module_pure st vs c : pure st (face_module st vs c).
  Proof. pure_tac ltac:(unf_face H). Qed.

  (* Run only selects a module (or answers / drops by itself) *)
  Lemma run_cases st vs c (P : outcome -> Prop) :
    P (Ok st vs RNone) -> P Panic -> P (ctl st vs c Thread_Run_st_Unknown_module no_args) ->
    P (cs_module st vs c) -> P (face_module st vs c) -> P (fib_module st vs c) -> P (rib_module st vs c) ->
    P (status_module st vs c) -> P (strat_module st vs c) -> P (run st vs c).
  Proof.
    intros. unfold Model.run. cbv zeta.
    repeat match goal with |- P (match ?x with _ => _ end) => destruct x end; assumption.
  Qed.

  Theorem run_pure st vs c : pure st (run st vs c).
  Proof.
    apply run_cases; try (intros st' vs' r H Hacc; first [discriminate H | inv_ok H; reflexivity]);
      auto using rib_module_pure, fib_module_pure, strat_module_pure, cs_module_pure, status_module_pure, face_module_pure.
  Qed.

  (* ------------------------------------------------------------------------------------------------
     every ControlResponse carries 200 or an error status 4xx/5xx (the codes are the translated ones) *)
  Definition classed (o : outcome) : Prop := forall st' vs' r, o = Ok st' vs' r -> spec_status_class r = true.
  Ltac classed_tac unf :=
    intros st' vs' r H; unf; cbv beta zeta in H; cases_of H; inv_ok H;
    first [reflexivity | cbv beta iota delta [spec_status_class]; vm_compute; reflexivity].
  Lemma rib_module_classed st vs c : classed (rib_module st vs c).
  Proof. classed_tac ltac:(unf_rib H). Qed.
  Lemma fib_module_classed st vs c : classed (fib_module st vs c).
  Proof. classed_tac ltac:(unf_fib H). Qed.
  Lemma strat_module_classed st vs c : classed (strat_module st vs c).
  Proof. classed_tac ltac:(unf_strat H). Qed.
  Lemma cs_module_classed st vs c : classed (cs_module st vs c).
  Proof. classed_tac ltac:(unf_cs H). Qed.
  Lemma status_module_classed st vs c : classed (status_module st vs c).
  Proof. classed_tac ltac:(unf_status H). Qed.
  Lemma face_module_classed st vs c : classed (face_module st vs c).
  Proof. classed_tac ltac:(unf_face H). Qed.
  Theorem run_classed st vs c : classed (run st vs c).
  Proof.
    apply run_cases; try (intros st' vs' r H; first [discriminate H | inv_ok H; reflexivity]);
      auto using rib_module_classed, fib_module_classed, strat_module_classed, cs_module_classed, status_module_classed, face_module_classed.
  Qed.

  (* ------------------------------------------------------------------------------------------------
     invariants kept by every command *)
  Definition keeps (P : state -> bool) (st : state) (o : outcome) : Prop :=
    P st = true -> forall st' vs' r, o = Ok st' vs' r -> P st' = true.

  Ltac proj_simpl := cbn [s_rib s_fib s_strat s_cs s_faces set_rib_fib set_fib set_strat set_cs set_faces] in *.

  (* --- strategy table: only known strategies, root keeps one --- *)
  Ltac same_tac P unf :=
    intros Hinv st' vs' r H; unf; cbv beta zeta in H; cases_of H; inv_ok H;
    first [exact Hinv | unfold P in *; proj_simpl; exact Hinv].

  Lemma rib_module_strat st vs c : keeps strat_ok st (rib_module st vs c).
  Proof. same_tac strat_ok ltac:(unf_rib H). Qed.
  Lemma fib_module_strat st vs c : keeps strat_ok st (fib_module st vs c).
  Proof. same_tac strat_ok ltac:(unf_fib H). Qed.
  Lemma cs_module_strat st vs c : keeps strat_ok st (cs_module st vs c).
  Proof. same_tac strat_ok ltac:(unf_cs H). Qed.
  Lemma status_module_strat st vs c : keeps strat_ok st (status_module st vs c).
  Proof. same_tac strat_ok ltac:(unf_status H). Qed.
  Lemma face_module_strat st vs c : keeps strat_ok st (face_module st vs c).
  Proof. same_tac strat_ok ltac:(unf_face H). Qed.

  Lemma strat_module_strat st vs c : keeps strat_ok st (strat_module st vs c).
  Proof.
    intros Hinv st' vs' r H. unf_strat H. cbv beta zeta in H. cases_of H; inv_ok H; try exact Hinv;
      unfold strat_ok in *; proj_simpl; apply andb_true_iff in Hinv as [Hk Hr]; apply andb_true_iff; split.
    (* set with an explicit version *)
    - apply strat_known_set; [exact Hk|].
      match goal with
      | Hp : negb (is_prefix strategy_prefix ?sn) || _ = false, Hn : nth_error ?sn (length strategy_prefix) = Some ?sc,
        Hs : strategy_versions k_strategies ?sc = Some ?av, He : existsb (N.eqb ?v) ?av = true |- _ =>
          apply orb_false_iff in Hp as [Hp _]; apply negb_false_iff in Hp;
          exact (known_accept sn sc av v Hp Hn Hs (existsb_eqb_in _ _ He))
      end.
    - apply root_set; exact Hr.
    (* set without a version: the newest one *)
    - apply strat_known_set; [exact Hk|].
      match goal with
      | Hp : negb (is_prefix strategy_prefix ?sn) || _ = false, Hn : nth_error ?sn (length strategy_prefix) = Some ?sc,
        Hs : strategy_versions k_strategies ?sc = Some ?av, Hm : max_version ?av = Some ?v |- _ =>
          apply orb_false_iff in Hp as [Hp _]; apply negb_false_iff in Hp;
          exact (known_accept sn sc av v Hp Hn Hs (max_version_in _ _ Hm))
      end.
    - apply root_set; exact Hr.
    (* unset of a non-root name *)
    - apply strat_known_unset; exact Hk.
    - apply root_unset; [discriminate | exact Hr].
  Qed.

  (* --- faces stay usable (MTU above the largest link overhead) --- *)
  Lemma face_module_usable st vs c : keeps faces_usable st (face_module st vs c).
  Proof.
    intros Hinv st' vs' r H. unf_face H. cbv beta zeta in H. cases_of H; inv_ok H; try exact Hinv;
      unfold faces_usable in *; proj_simpl; try (apply forallb_face_del; exact Hinv);
      (apply forallb_face_put; [exact Hinv|]);
      match goal with Hg : face_get _ _ = Some ?f |- _ => pose proof (face_get_forallb _ _ _ _ Hinv Hg) as Hf end;
      unfold face_usable in *; cbn [f_ndnlp f_mtu];
      match goal with Hn : negb (f_ndnlp ?f) = false |- _ => apply negb_false_iff in Hn; rewrite Hn in *; cbn [negb orb] in * end;
      try exact Hf;
      destruct bounds_ok as [B1 [_ [B3 _]]]; apply N.ltb_lt;
      match goal with Hm : _ || mtu_too_small _ _ = false, Ha : a_mtu _ = Some _ |- _ =>
        apply orb_false_iff in Hm as [_ Hm2]; unfold mtu_too_small in Hm2; rewrite Ha in Hm2; apply N.ltb_ge in Hm2 end;
      try match goal with Hk : (k_max_ndn_packet_size <? _) = _ |- _ => clear Hk end; lia.
  Qed.
  Lemma rib_module_usable st vs c : keeps faces_usable st (rib_module st vs c).
  Proof. same_tac faces_usable ltac:(unf_rib H). Qed.
  Lemma fib_module_usable st vs c : keeps faces_usable st (fib_module st vs c).
  Proof. same_tac faces_usable ltac:(unf_fib H). Qed.
  Lemma cs_module_usable st vs c : keeps faces_usable st (cs_module st vs c).
  Proof. same_tac faces_usable ltac:(unf_cs H). Qed.
  Lemma status_module_usable st vs c : keeps faces_usable st (status_module st vs c).
  Proof. same_tac faces_usable ltac:(unf_status H). Qed.
  Lemma strat_module_usable st vs c : keeps faces_usable st (strat_module st vs c).
  Proof. same_tac faces_usable ltac:(unf_strat H). Qed.
  Theorem run_keeps_usable st vs c : keeps faces_usable st (run st vs c).
  Proof.
    apply run_cases; try (intros Hinv st' vs' r H; first [discriminate H | inv_ok H; exact Hinv]);
      auto using rib_module_usable, fib_module_usable, strat_module_usable, cs_module_usable, status_module_usable, face_module_usable.
  Qed.

  (* --- CS capacity stays a non-negative count --- *)
  Lemma cs_module_sane st vs c : keeps cs_sane st (cs_module st vs c).
  Proof.
    intros Hinv st' vs' r H. unf_cs H. cbv beta zeta in H. cases_of H; inv_ok H; try exact Hinv.
    unfold cs_sane; proj_simpl. apply Z.leb_le.
    match goal with Hc : (k_ContentStoreModule_config_max_capacity <? ?cap) = false |- _ => apply N.ltb_ge in Hc;
      destruct bounds_ok as [_ [_ [_ B]]]; rewrite wrap64_small; lia end.
  Qed.
  Lemma rib_module_sane st vs c : keeps cs_sane st (rib_module st vs c).
  Proof. same_tac cs_sane ltac:(unf_rib H). Qed.
  Lemma fib_module_sane st vs c : keeps cs_sane st (fib_module st vs c).
  Proof. same_tac cs_sane ltac:(unf_fib H). Qed.
  Lemma face_module_sane st vs c : keeps cs_sane st (face_module st vs c).
  Proof. same_tac cs_sane ltac:(unf_face H). Qed.
  Lemma status_module_sane st vs c : keeps cs_sane st (status_module st vs c).
  Proof. same_tac cs_sane ltac:(unf_status H). Qed.
  Lemma strat_module_sane st vs c : keeps cs_sane st (strat_module st vs c).
  Proof. same_tac cs_sane ltac:(unf_strat H). Qed.
  Theorem run_keeps_cs st vs c : keeps cs_sane st (run st vs c).
  Proof.
    apply run_cases; try (intros Hinv st' vs' r H; first [discriminate H | inv_ok H; exact Hinv]);
      auto using rib_module_sane, fib_module_sane, strat_module_sane, cs_module_sane, status_module_sane, face_module_sane.
  Qed.

  (* --- face table well-formedness (non-NDNLP link services are null/internal only) --- *)
  Lemma face_module_wf st vs c : keeps faces_wf st (face_module st vs c).
  Proof.
    intros Hinv st' vs' r H. unf_face H. cbv beta zeta in H. cases_of H; inv_ok H; try exact Hinv;
      unfold faces_wf in *; proj_simpl; try (apply forallb_face_del; exact Hinv);
      (apply forallb_face_put; [exact Hinv|]);
      match goal with Hg : face_get _ _ = Some ?f |- _ => pose proof (face_get_forallb _ _ _ _ Hinv Hg) as Hf end;
      unfold face_wf in *; cbn [f_ndnlp f_rscheme]; exact Hf.
  Qed.
  Lemma rib_module_wf st vs c : keeps faces_wf st (rib_module st vs c).
  Proof. same_tac faces_wf ltac:(unf_rib H). Qed.
  Lemma fib_module_wf st vs c : keeps faces_wf st (fib_module st vs c).
  Proof. same_tac faces_wf ltac:(unf_fib H). Qed.
  Lemma cs_module_wf st vs c : keeps faces_wf st (cs_module st vs c).
  Proof. same_tac faces_wf ltac:(unf_cs H). Qed.
  Lemma status_module_wf st vs c : keeps faces_wf st (status_module st vs c).
  Proof. same_tac faces_wf ltac:(unf_status H). Qed.
  Lemma strat_module_wf st vs c : keeps faces_wf st (strat_module st vs c).
  Proof. same_tac faces_wf ltac:(unf_strat H). Qed.
  Theorem run_keeps_wf st vs c : keeps faces_wf st (run st vs c).
  Proof.
    apply run_cases; try (intros Hinv st' vs' r H; first [discriminate H | inv_ok H; exact Hinv]);
      auto using rib_module_wf, fib_module_wf, strat_module_wf, cs_module_wf, status_module_wf, face_module_wf.
  Qed.

  (* ------------------------------------------------------------------------------------------------
     mgmt_total: no command makes the management thread panic *)
  Ltac nat_facts :=
    repeat match goal with
    | Hx : negb _ = false |- _ => apply negb_false_iff in Hx
    | Hx : negb _ = true |- _ => apply negb_true_iff in Hx
    | Hx : (_ <? _)%nat = false |- _ => apply Nat.ltb_ge in Hx
    | Hx : (_ <? _)%nat = true |- _ => apply Nat.ltb_lt in Hx
    | Hx : (_ <=? _)%nat = false |- _ => apply Nat.leb_gt in Hx
    | Hx : (_ <=? _)%nat = true |- _ => apply Nat.leb_le in Hx
    | Hx : (_ =? _)%nat = true |- _ => apply Nat.eqb_eq in Hx
    | Hx : nth_error _ _ = None |- _ => apply nth_error_None in Hx
    | Hx : _ || _ = false |- _ => apply orb_false_iff in Hx as [? ?]
    end.
  Ltac total_tac unf :=
    intros Hlen Hwf H; unf; unfold verb_of in H; cbv beta zeta in H; cases_of H;
    nat_facts; rewrite ?plen_is_2 in *; try lia.

  Lemma rib_module_total st vs c : (plen + 2 <= length (c_name c))%nat -> faces_wf st = true -> rib_module st vs c <> Panic.
  Proof. total_tac ltac:(unf_rib H). Qed.
  Lemma fib_module_total st vs c : (plen + 2 <= length (c_name c))%nat -> faces_wf st = true -> fib_module st vs c <> Panic.
  Proof. total_tac ltac:(unf_fib H). Qed.
  Lemma cs_module_total st vs c : (plen + 2 <= length (c_name c))%nat -> faces_wf st = true -> cs_module st vs c <> Panic.
  Proof. total_tac ltac:(unf_cs H). Qed.
  Lemma status_module_total st vs c : (plen + 2 <= length (c_name c))%nat -> faces_wf st = true -> status_module st vs c <> Panic.
  Proof. total_tac ltac:(unf_status H). Qed.
  Lemma strat_module_total st vs c : (plen + 2 <= length (c_name c))%nat -> faces_wf st = true -> strat_module st vs c <> Panic.
  Proof. total_tac ltac:(unf_strat H). Qed.
  Lemma face_module_total st vs c : (plen + 2 <= length (c_name c))%nat -> faces_wf st = true -> face_module st vs c <> Panic.
  Proof.
    total_tac ltac:(unf_face H).
    (* the type assertion on the link service: excluded by face-table well-formedness *)
    all: match goal with Hg : face_get _ _ = Some ?f |- _ => pose proof (face_get_forallb _ _ _ _ Hwf Hg) as Hf end;
      unfold face_wf in Hf;
      match goal with Ha : f_ndnlp ?f = false, Hb : (f_rscheme ?f =? sch_null) = false, Hc : (f_rscheme ?f =? sch_internal) = false |- _ =>
        rewrite Ha, Hb, Hc in Hf end;
      discriminate Hf.
  Qed.

  Theorem run_total st vs c : faces_wf st = true -> run st vs c <> Panic.
  Proof.
    intros Hwf. unfold Model.run. cbv zeta.
    destruct (length (c_name c) <? plen + N.to_nat k_run_min_extra)%nat eqn:Hl; [discriminate|].
    apply Nat.ltb_ge in Hl. replace (N.to_nat k_run_min_extra) with 2%nat in Hl by reflexivity.
    destruct (negb (is_prefix local_prefix (c_name c)) && _); [discriminate|].
    destruct (nth_error (c_name c) plen) eqn:Hn; [|apply nth_error_None in Hn; lia].
    repeat match goal with |- (if ?x then _ else _) <> _ => destruct x end;
      auto using rib_module_total, fib_module_total, strat_module_total, cs_module_total, status_module_total, face_module_total.
    unfold ctl. discriminate.
  Qed.

  (* ------------------------------------------------------------------------------------------------
     mgmt_authorised: state changes only under /localhost/nfd, or for rib under /localhop/nfd when enabled *)
  Definition unchanged (st : state) (o : outcome) : Prop := forall st' vs' r, o = Ok st' vs' r -> st' = st.

  Ltac guarded_tac m flag :=
    intros Hloc st' vs' r H; unfold m in H; rewrite flag, Hloc in H; cbn [negb andb] in H; inv_ok H; reflexivity.
  Lemma cs_module_guard st vs c : is_prefix local_prefix (c_name c) = false -> unchanged st (cs_module st vs c).
  Proof. destruct local_only_flags as [F1 [F2 [F3 [F4 [F5 F6]]]]]. guarded_tac Model.cs_module F1. Qed.
  Lemma face_module_guard st vs c : is_prefix local_prefix (c_name c) = false -> unchanged st (face_module st vs c).
  Proof. destruct local_only_flags as [F1 [F2 [F3 [F4 [F5 F6]]]]]. guarded_tac Model.face_module F2. Qed.
  Lemma fib_module_guard st vs c : is_prefix local_prefix (c_name c) = false -> unchanged st (fib_module st vs c).
  Proof. destruct local_only_flags as [F1 [F2 [F3 [F4 [F5 F6]]]]]. guarded_tac Model.fib_module F3. Qed.
  Lemma status_module_guard st vs c : is_prefix local_prefix (c_name c) = false -> unchanged st (status_module st vs c).
  Proof. destruct local_only_flags as [F1 [F2 [F3 [F4 [F5 F6]]]]]. guarded_tac Model.status_module F4. Qed.
  Lemma strat_module_guard st vs c : is_prefix local_prefix (c_name c) = false -> unchanged st (strat_module st vs c).
  Proof. destruct local_only_flags as [F1 [F2 [F3 [F4 [F5 F6]]]]]. guarded_tac Model.strat_module F5. Qed.

  Theorem run_authorised st vs c st' vs' r :
    run st vs c = Ok st' vs' r -> st' = st \/ authorised allow (c_name c) = true.
  Proof.
    unfold authorised. destruct (is_prefix local_prefix (c_name c)) eqn:Hloc; [intros _; right; reflexivity|].
    cbn [orb]. unfold Model.run. cbv zeta. destruct run_guard_flags as [G _]. rewrite G, Hloc. cbn [negb andb].
    destruct (length (c_name c) <? plen + N.to_nat k_run_min_extra)%nat; [intros H; inv_ok H; left; reflexivity|].
    destruct (allow && is_prefix nonlocal_prefix (c_name c)) eqn:Hnl; cbn [negb]; [|intros H; inv_ok H; left; reflexivity].
    unfold is_rib_command, module_comp.
    destruct (nth_error (c_name c) plen) as [mc|]; [|discriminate].
    repeat match goal with |- (if ?x then _ else _) = _ -> _ => destruct x eqn:? end; intros H;
      try (left; first [ exact (cs_module_guard _ _ _ Hloc _ _ _ H) | exact (face_module_guard _ _ _ Hloc _ _ _ H)
                       | exact (fib_module_guard _ _ _ Hloc _ _ _ H) | exact (status_module_guard _ _ _ Hloc _ _ _ H)
                       | exact (strat_module_guard _ _ _ Hloc _ _ _ H) ]);
      try (unfold ctl in H; inv_ok H; left; reflexivity).
    (* the rib module under /localhop/nfd with localhop management enabled *)
    right. reflexivity.
  Qed.

  Theorem run_keeps_strat st vs c : keeps strat_ok st (run st vs c).
  Proof.
    apply run_cases; try (intros Hinv st' vs' r H; first [discriminate H | inv_ok H; exact Hinv]);
      auto using rib_module_strat, fib_module_strat, strat_module_strat, cs_module_strat, status_module_strat, face_module_strat.
  Qed.

  (* ------------------------------------------------------------------------------------------------
     datasets_exact: a status dataset (one segment) lists exactly the table it reports, under the expected name *)
  Definition ds_exact (c : cmd) (o : outcome) : Prop := forall st' vs' r, o = Ok st' vs' r -> spec_dataset c r st' = true.
  Ltac ds_tac unf :=
    intros st' vs' r H; unf; cbv beta zeta in H; cases_of H; inv_ok H; cbn [spec_dataset];
    first [ reflexivity | apply rib_eqb_spec; reflexivity | apply fib_eqb_spec; reflexivity | apply strat_eqb_spec; reflexivity
          | apply N.eqb_refl | apply facestats_eqb_refl
          | match goal with Hq : c_qdec _ = QOk _ |- _ => rewrite Hq end; apply facestats_eqb_refl ].
  Lemma rib_module_ds st vs c : ds_exact c (rib_module st vs c).
  Proof. ds_tac ltac:(unf_rib H). Qed.
  Lemma fib_module_ds st vs c : ds_exact c (fib_module st vs c).
  Proof. ds_tac ltac:(unf_fib H). Qed.
  Lemma strat_module_ds st vs c : ds_exact c (strat_module st vs c).
  Proof. ds_tac ltac:(unf_strat H). Qed.
  Lemma cs_module_ds st vs c : ds_exact c (cs_module st vs c).
  Proof. ds_tac ltac:(unf_cs H). Qed.
  Lemma status_module_ds st vs c : ds_exact c (status_module st vs c).
  Proof. ds_tac ltac:(unf_status H). Qed.
  Lemma face_module_ds st vs c : ds_exact c (face_module st vs c).
  Proof. ds_tac ltac:(unf_face H). Qed.
  Theorem run_ds_exact st vs c : ds_exact c (run st vs c).
  Proof.
    apply run_cases; try (intros st' vs' r H; first [discriminate H | inv_ok H; reflexivity]);
      auto using rib_module_ds, fib_module_ds, strat_module_ds, cs_module_ds, status_module_ds, face_module_ds.
  Qed.

  (* ------------------------------------------------------------------------------------------------
     datasets_answered (partial): a dataset request is answered - PROVIDED the encoded dataset fits one segment.
     a dataset that does not fit one Data packet is not delivered (known finding, see answered_refuted). *)
  Ltac eval_comp_is H :=
    repeat match type of H with
    | context [comp_is (gcomp ?a) ?b] =>
        let r := eval vm_compute in (comp_is (gcomp a) b) in change (comp_is (gcomp a) b) with r in H
    end.

  Lemma dataset_request_len c : (length (c_name c) =? plen + 2)%nat = true ->
    (length (c_name c) <? plen + N.to_nat k_run_min_extra)%nat = false /\ is_dataset_request c = true.
  Proof.
    intros H. apply Nat.eqb_eq in H. unfold is_dataset_request. rewrite H. split.
    - apply Nat.ltb_ge. replace (N.to_nat k_run_min_extra) with 2%nat by reflexivity. lia.
    - apply Nat.leb_le. lia.
  Qed.

  Theorem run_answered st vs c st' vs' r :
    (forall d, ds_fits d = true) -> run st vs c = Ok st' vs' r -> spec_answered allow c r = true.
  Proof.
    intros Hfits H. unfold spec_answered. destruct (is_dataset_cmd allow (c_name c)) eqn:E; [|reflexivity].
    cbn [negb orb]. unfold is_dataset_cmd in E. apply andb_true_iff in E as [Hlen E].
    destruct (dataset_request_len c Hlen) as [Hl Hd].
    destruct (nth_error (c_name c) plen) as [m|] eqn:Hm; [|discriminate].
    destruct (nth_error (c_name c) (plen + 1)) as [v|] eqn:Hv; [|discriminate].
    destruct local_only_flags as [F1 [F2 [F3 [F4 [F5 F6]]]]]. destruct run_guard_flags as [G _].
    unfold Model.run in H. cbv zeta in H. rewrite Hl, Hm, G in H.
    apply orb_true_iff in E as [E|E].
    - apply andb_true_iff in E as [Hloc E]. rewrite Hloc in H. cbn [negb andb] in H.
      apply existsb_exists in E as [[a b] [Hin E]]. cbn [fst snd] in E. apply andb_true_iff in E as [Ea Eb].
      apply comp_is_eq in Ea, Eb. subst m v.
      unfold dataset_verbs in Hin. cbn [In] in Hin.
      repeat destruct Hin as [Hin|Hin]; try contradiction; inversion Hin; subst a b; clear Hin;
        eval_comp_is H;
        unfold Model.rib_module, Model.fib_module, Model.strat_module, Model.cs_module, Model.face_module, Model.status_module, verb_of in H;
        rewrite ?F1, ?F2, ?F3, ?F4, ?F5, ?Hloc, ?Hv in H; cbn [negb andb] in H; eval_comp_is H;
        unfold rib_list, fib_list, strat_list, cs_info, face_list, publish in H; rewrite ?Hd, ?Hfits in H; cbn [negb] in H;
        inv_ok H; reflexivity.
    - apply andb_true_iff in E as [E Eb]. apply andb_true_iff in E as [E Ea]. apply andb_true_iff in E as [Hal Hnl].
      apply comp_is_eq in Ea, Eb. subst m v. rewrite Hal, Hnl in H. cbn [negb andb] in H.
      rewrite andb_false_r in H. eval_comp_is H.
      unfold Model.rib_module, verb_of in H. rewrite Hv in H. eval_comp_is H.
      unfold rib_list, publish in H. rewrite Hd, Hfits in H. cbn [negb] in H. inv_ok H. reflexivity.
  Qed.

  (* ------------------------------------------------------------------------------------------------
     the model satisfies the whole step specification that the runner evaluates on the implementation *)
  Theorem run_spec_step st vs c st' vs' r :
    run st vs c = Ok st' vs' r -> spec_step allow st c r st' = true.
  Proof.
    intros H. unfold spec_step. repeat (apply andb_true_iff; split).
    - unfold spec_authorised. destruct (run_authorised _ _ _ _ _ _ H) as [E|E];
        [subst; rewrite state_eqb_refl; reflexivity | rewrite E; apply orb_true_r].
    - unfold spec_reject_pure. destruct (accepted r) eqn:A; [reflexivity|].
      rewrite (run_pure _ _ _ _ _ _ H A). apply state_eqb_refl.
    - exact (run_classed _ _ _ _ _ _ H).
    - exact (run_ds_exact _ _ _ _ _ _ H).
    - destruct (strat_known (s_strat st) && root_has_strategy (s_strat st)) eqn:E; [|reflexivity].
      exact (run_keeps_strat _ _ _ E _ _ _ H).
    - destruct (faces_usable st) eqn:E; [|reflexivity]. exact (run_keeps_usable _ _ _ E _ _ _ H).
    - destruct (cs_sane st) eqn:E; [|reflexivity]. exact (run_keeps_cs _ _ _ E _ _ _ H).
  Qed.


  (* ------------------------------------------------------------------------------------------------
     unique keys in the three tables (the precondition of the removal effect theorems) are kept by every command,
     provided the two external functions keep them *)
  Definition tables_wf (st : state) : Prop :=
    rib_wf (s_rib st) /\ fib_wf (s_fib st) /\ NoDup (map fst (s_strat st)).
  Definition ext_wf : Prop :=
    (forall r n f, rib_wf r -> fib_wf f -> fib_wf (rib_to_fib r n f)) /\
    (forall id r f, rib_wf r -> fib_wf f -> rib_wf (fst (face_cleanup id r f)) /\ fib_wf (snd (face_cleanup id r f))).
  Definition keeps_wf (st : state) (o : outcome) : Prop :=
    ext_wf -> tables_wf st -> forall st' vs' r, o = Ok st' vs' r -> tables_wf st'.

  Ltac wf_tac unf :=
    intros [X1 X2] [W1 [W2 W3]] st' vs' r H; unf; cbv beta zeta in H; cases_of H; inv_ok H;
    unfold tables_wf; proj_simpl;
    try match goal with |- context [face_cleanup ?id ?a ?b] => destruct (X2 id a b W1 W2) end;
    refine (conj _ (conj _ _));
    eauto using rib_add_wf, rib_remove_wf, fib_insert_wf, fib_remove_wf, strat_set_nodup, strat_unset_nodup.
  Lemma rib_module_keeps_wf st vs c : keeps_wf st (rib_module st vs c).
  Proof. wf_tac ltac:(unf_rib H). Qed.
  Lemma fib_module_keeps_wf st vs c : keeps_wf st (fib_module st vs c).
  Proof. wf_tac ltac:(unf_fib H). Qed.
  Lemma strat_module_keeps_wf st vs c : keeps_wf st (strat_module st vs c).
  Proof. wf_tac ltac:(unf_strat H). Qed.
  Lemma cs_module_keeps_wf st vs c : keeps_wf st (cs_module st vs c).
  Proof. wf_tac ltac:(unf_cs H). Qed.
  Lemma status_module_keeps_wf st vs c : keeps_wf st (status_module st vs c).
  Proof. wf_tac ltac:(unf_status H). Qed.
  Lemma face_module_keeps_wf st vs c : keeps_wf st (face_module st vs c).
  Proof. wf_tac ltac:(unf_face H). Qed.
  Theorem run_keeps_tables_wf st vs c : keeps_wf st (run st vs c).
  Proof.
    apply run_cases; try (intros HX HW st' vs' r H; first [discriminate H | inv_ok H; exact HW]);
      auto using rib_module_keeps_wf, fib_module_keeps_wf, strat_module_keeps_wf, cs_module_keeps_wf, status_module_keeps_wf, face_module_keeps_wf.
  Qed.

  (* ------------------------------------------------------------------------------------------------
     all histories: from a state satisfying the invariants no command sequence panics, every step meets the step
     specification, and the invariants hold after every step *)
  Fixpoint run_trace (st : state) (vs : vers) (cs : list cmd) : option (list (state * cmd * resp * state)) :=
    match cs with
    | [] => Some []
    | c :: cs' =>
      match run st vs c with
      | Panic => None
      | Ok st' vs' r => match run_trace st' vs' cs' with Some tr => Some ((st, c, r, st') :: tr) | None => None end
      end
    end.

  Lemma inv_split st : inv st = true <-> strat_ok st = true /\ faces_usable st = true /\ cs_sane st = true /\ faces_wf st = true.
  Proof. unfold inv. rewrite !andb_true_iff. tauto. Qed.

  Lemma run_keeps_inv st vs c st' vs' r : inv st = true -> run st vs c = Ok st' vs' r -> inv st' = true.
  Proof.
    intros Hi H. apply inv_split in Hi as [H1 [H2 [H3 H4]]]. apply inv_split. repeat split.
    - exact (run_keeps_strat _ _ _ H1 _ _ _ H).
    - exact (run_keeps_usable _ _ _ H2 _ _ _ H).
    - exact (run_keeps_cs _ _ _ H3 _ _ _ H).
    - exact (run_keeps_wf _ _ _ H4 _ _ _ H).
  Qed.

  Definition step_good (t : state * cmd * resp * state) : Prop :=
    let '(pre, c, r, post) := t in spec_step allow pre c r post = true /\ inv post = true.

  Theorem all_histories cs : forall st vs, inv st = true ->
    exists tr, run_trace st vs cs = Some tr /\ length tr = length cs /\ Forall step_good tr.
  Proof.
    induction cs as [|c cs IH]; intros st vs Hi; simpl.
    - exists []. repeat split. constructor.
    - destruct (run st vs c) as [st' vs' r|] eqn:H.
      + pose proof (run_keeps_inv _ _ _ _ _ _ Hi H) as Hi'.
        destruct (IH st' vs' Hi') as [tr [Ht [Hl Hf]]]. rewrite Ht.
        exists ((st, c, r, st') :: tr). repeat split; [simpl; congruence|].
        constructor; [|exact Hf]. split; [exact (run_spec_step _ _ _ _ _ _ H) | exact Hi'].
      + exfalso. apply inv_split in Hi as [_ [_ [_ Hw]]]. exact (run_total st vs c Hw H).
  Qed.
End Proofs.

(* ---- datasets_answered is refuted for the pinned code as soon as a dataset exceeds one segment ----
   Whatever the codec is, a RIB dataset takes at least 4 bytes per entry; an honest "fits" test (one Data packet of at most
   MaxNDNPacketSize bytes) therefore says no for a RIB of 2201 entries (it says no far earlier: from about 180 routes in the implementation), and the request goes unanswered. *)
Definition rib_ds_size_lb (t : ribT) : N := 4 * N.of_nat (length t).
Definition honest_fits (fits : dataset -> bool) : Prop :=
  forall t, fits (DRib t) = true -> rib_ds_size_lb t <= k_max_ndn_packet_size.
Definition big_rib : ribT := map (fun i => ([gcomp [N.of_nat i]], [Build_route 2 0 0 1 None])) (seq 0 2201).
Definition big_state : state := Build_state big_rib [] initial_strat 1024 [].
Definition rib_list_cmd : cmd := Build_cmd 2 (local_prefix ++ [gcomp w_rib; gcomp w_list]) None 0 QErr.

Lemma answered_refuted : forall rib_to_fib face_cleanup fits, honest_fits fits ->
  inv big_state = true /\ is_dataset_cmd false (c_name rib_list_cmd) = true /\
  forall vs, exists vs', run rib_to_fib face_cleanup false fits big_state vs rib_list_cmd = Ok big_state vs' RNone.
Proof.
  intros rtf fc fits Hh. split; [vm_compute; reflexivity|]. split; [vm_compute; reflexivity|].
  intros vs. exists (bump_rib vs).
  assert (Hf : fits (DRib big_rib) = false).
  { destruct (fits (DRib big_rib)) eqn:E; [|reflexivity]. apply Hh in E. vm_compute in E. exfalso. apply E. reflexivity. }
  unfold run. cbv zeta.
  replace (length (c_name rib_list_cmd) <? plen + N.to_nat k_run_min_extra)%nat with false by reflexivity.
  replace (is_prefix local_prefix (c_name rib_list_cmd)) with true by reflexivity. cbn [negb andb].
  replace (nth_error (c_name rib_list_cmd) plen) with (Some (gcomp w_rib)) by reflexivity.
  replace (comp_is (gcomp w_rib) [99; 115]) with false by reflexivity.
  replace (comp_is (gcomp w_rib) [102; 97; 99; 101; 115]) with false by reflexivity.
  replace (comp_is (gcomp w_rib) [102; 105; 98]) with false by reflexivity.
  replace (comp_is (gcomp w_rib) [114; 105; 98]) with true by reflexivity.
  unfold rib_module, verb_of.
  replace (nth_error (c_name rib_list_cmd) (plen + 1)) with (Some (gcomp w_list)) by reflexivity.
  replace (comp_is (gcomp w_list) [114; 101; 103; 105; 115; 116; 101; 114]) with false by reflexivity.
  replace (comp_is (gcomp w_list) [117; 110; 114; 101; 103; 105; 115; 116; 101; 114]) with false by reflexivity.
  replace (comp_is (gcomp w_list) [97; 110; 110; 111; 117; 110; 99; 101]) with false by reflexivity.
  replace (comp_is (gcomp w_list) [108; 105; 115; 116]) with true by reflexivity.
  unfold rib_list, publish. replace (is_dataset_request rib_list_cmd) with true by reflexivity. cbn [negb].
  change (s_rib big_state) with big_rib. rewrite Hf. reflexivity.
Qed.
