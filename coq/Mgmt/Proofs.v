(* Mgmt/Proofs.v — lemmas about the management model. *)
From Mgmt Require Import Model.
Open Scope N_scope.

Lemma consts_match_model_ok : consts_match_model = true.
Proof. vm_compute. reflexivity. Qed.
