(* Mgmt/Spec.v — the property C17 as decidable predicates over (state before, command, response, state after).
   They are proved of the model in Proofs.v for all inputs, and they are extracted and evaluated by the runner on the
   IMPLEMENTATION's observations (tables read back before/after each command, decoded response), which is how a
   concrete failing command is found. No proofs here. *)
From Mgmt Require Export Model.
Open Scope N_scope.

(* ---- structural equality of the abstract tables (the runner feeds canonically sorted tables) ---- *)
Definition opt_eqb {A} (e : A -> A -> bool) (a b : option A) : bool :=
  match a, b with Some x, Some y => e x y | None, None => true | _, _ => false end.
Definition route_eqb (a b : route) : bool :=
  (r_face a =? r_face b) && (r_origin a =? r_origin b) && (r_cost a =? r_cost b) && (r_flags a =? r_flags b)
  && opt_eqb N.eqb (r_exp a) (r_exp b).
Definition rib_eqb : ribT -> ribT -> bool :=
  list_eqb (fun a b => name_eqb (fst a) (fst b) && list_eqb route_eqb (snd a) (snd b)).
Definition nh_eqb (a b : N * N) : bool := (fst a =? fst b) && (snd a =? snd b).
Definition fib_eqb : fibT -> fibT -> bool :=
  list_eqb (fun a b => name_eqb (fst a) (fst b) && list_eqb nh_eqb (snd a) (snd b)).
Definition strat_eqb : stratT -> stratT -> bool :=
  list_eqb (fun a b => name_eqb (fst a) (fst b) && name_eqb (snd a) (snd b)).
Definition fopts_eqb (a b : fopts) : bool :=
  Bool.eqb (o_ccf a) (o_ccf b) && Bool.eqb (o_ifi a) (o_ifi b) && Bool.eqb (o_lcp a) (o_lcp b)
  && Bool.eqb (o_cm a) (o_cm b) && Bool.eqb (o_frag a) (o_frag b)
  && (o_basecong a =? o_basecong b) && (o_defcong a =? o_defcong b).
Definition face_eqb (a b : faceT) : bool :=
  (f_id a =? f_id b) && (f_rscheme a =? f_rscheme b) && (f_lscheme a =? f_lscheme b) && (f_scope a =? f_scope b)
  && (f_link a =? f_link b) && (f_pers a =? f_pers b) && (f_mtu a =? f_mtu b) && Bool.eqb (f_ndnlp a) (f_ndnlp b)
  && fopts_eqb (f_opts a) (f_opts b) && (f_key a =? f_key b) && (f_lkey a =? f_lkey b).
Definition state_eqb (a b : state) : bool :=
  rib_eqb (s_rib a) (s_rib b) && fib_eqb (s_fib a) (s_fib b) && strat_eqb (s_strat a) (s_strat b)
  && (s_cs a =? s_cs b)%Z && list_eqb face_eqb (s_faces a) (s_faces b).

(* ---- authorisation ---- *)
Definition module_comp (n : name) : option comp := nth_error n plen.
Definition is_rib_command (n : name) : bool :=
  match module_comp n with Some mc => comp_is mc [114;105;98] | None => false end.
(* the command may change forwarder state only if it is under /localhost/nfd, or it is a RIB command under
   /localhop/nfd and localhop management is enabled *)
Definition authorised (allow_localhop : bool) (n : name) : bool :=
  is_prefix local_prefix n || (allow_localhop && is_prefix nonlocal_prefix n && is_rib_command n).
Definition spec_authorised (allow_localhop : bool) (pre : state) (c : cmd) (post : state) : bool :=
  state_eqb pre post || authorised allow_localhop (c_name c).

(* ---- only a response with status 200 may come with a change ---- *)
Definition accepted (r : resp) : bool :=
  match r with RCtl code _ _ => code =? 200 | _ => false end.
Definition spec_reject_pure (pre : state) (r : resp) (post : state) : bool :=
  accepted r || state_eqb pre post.
(* a ControlResponse is either 200 or an error status 4xx/5xx *)
Definition spec_status_class (r : resp) : bool :=
  match r with RCtl code _ _ => (code =? 200) || ((400 <=? code) && (code <? 600)) | _ => true end.

(* ---- strategy table: only instantiated strategies, and the root always has one ---- *)
Definition known_strategy (s : name) : bool :=
  existsb (fun p => existsb (fun v => name_eqb s (strategy_prefix ++ [gcomp (fst p); version_comp v])) (snd p)) k_strategies.
Definition strat_known (t : stratT) : bool := forallb (fun e => known_strategy (snd e)) t.
Definition root_has_strategy (t : stratT) : bool := existsb (fun e => name_eqb (fst e) []) t.
Definition spec_strategies (post : state) : bool := strat_known (s_strat post) && root_has_strategy (s_strat post).

(* ---- faces stay usable: whatever link-service options are switched on, a positive fragment payload remains under
   the MTU once the link headers, a PIT token and a congestion mark are accounted for (C10's frames_fit precondition) ---- *)
Definition max_overhead : N :=
  k_lp_packet_overhead + k_hdr_fragmentation + k_hdr_incoming_face + k_pit_token_overhead + k_congestion_mark_overhead.
Definition face_usable (f : faceT) : bool := negb (f_ndnlp f) || (max_overhead <? f_mtu f).
Definition faces_usable (st : state) : bool := forallb face_usable (s_faces st).
(* CS capacity is a non-negative count *)
Definition cs_sane (st : state) : bool := (0 <=? s_cs st)%Z.

(* ---- a status dataset lists exactly the table contents ---- *)
Definition facestat_eqb (a b : facestat) : bool :=
  (fs_id a =? fs_id b) && (fs_scope a =? fs_scope b) && (fs_pers a =? fs_pers b) && (fs_link a =? fs_link b)
  && (fs_mtu a =? fs_mtu b) && (fs_flags a =? fs_flags b) && opt_eqb N.eqb (fs_basecong a) (fs_basecong b)
  && opt_eqb N.eqb (fs_defcong a) (fs_defcong b).
Definition spec_dataset (c : cmd) (r : resp) (post : state) : bool :=
  match r with
  | RData _ _ (DRib t) => rib_eqb t (s_rib post)
  | RData _ _ (DFib t) => fib_eqb t (s_fib post)
  | RData _ _ (DStrat t) => strat_eqb t (s_strat post)
  | RData _ _ (DCs cap _ _) => (cap =? to_u64 (s_cs post))
  | RData NFacesList _ (DFaces l) => list_eqb facestat_eqb l (map face_stat (s_faces post))
  | RData (NQuery _) _ (DFaces l) =>
      match c_qdec c with
      | QOk q => list_eqb facestat_eqb l (map face_stat (filter (face_matches q) (s_faces post)))
      | _ => false
      end
  | RData _ _ (DGeneral n) => n =? N.of_nat (length (s_fib post))
  | _ => true
  end.

(* ---- after an accepted RIB change the FIB agrees with the RIB: every prefix with routes at or below the changed prefix
   (after a face removal: every prefix with routes) holds exactly the flattened next hops of the new RIB; a prefix without
   routes keeps its next hops or loses them; prefixes outside the scope keep theirs. Next-hop lists compared as sets. ---- *)
Definition hops_same (a b : list (N * N)) : bool :=
  forallb (fun x => existsb (nh_eqb x) b) a && forallb (fun x => existsb (nh_eqb x) a) b.
Definition is_nil {A} (l : list A) : bool := match l with [] => true | _ => false end.
Definition spec_fib_after_rib (scope : option name) (rib' : ribT) (pre post : fibT) : bool :=
  forallb (fun n =>
      if in_scope scope n then
        match rib_routes rib' n with
        | [] => hops_same (fib_hops post n) (fib_hops pre n) || is_nil (fib_hops post n)
        | _ => hops_same (fib_hops post n) (fib_want rib' n)
        end
      else hops_same (fib_hops post n) (fib_hops pre n))
    (map fst rib' ++ map fst pre ++ map fst post).
(* which RIB change an accepted command made: register/unregister of [nm], or a face removal *)
Definition rib_change_scope (pre : state) (c : cmd) (r : resp) : option (option name) :=
  if negb (accepted r) then None else
  match nth_error (c_name c) plen, nth_error (c_name c) (plen + 1), r with
  | Some m, Some v, RCtl _ echo _ =>
      if comp_is m w_rib && (comp_is v [114;101;103;105;115;116;101;114] || comp_is v [117;110;114;101;103;105;115;116;101;114]) then
        match a_name echo with Some nm => Some (Some nm) | None => None end
      else if comp_is m w_faces && comp_is v [100;101;115;116;114;111;121] then
        (* FaceTable.Remove (hence Rib.CleanUpFace) runs only for a face that is in the table *)
        match a_face echo with Some id => if face_exists pre id then Some None else None | None => None end
      else None
  | _, _, _ => None
  end.
Definition spec_rib_fib (pre : state) (c : cmd) (r : resp) (post : state) : bool :=
  match rib_change_scope pre c r with
  | Some scope => spec_fib_after_rib scope (s_rib post) (s_fib pre) (s_fib post)
  | None => true
  end.

(* ---- a dataset request is answered (the pinned code answers only when the dataset fits one segment) ---- *)
Definition dataset_verbs : list (bytes * bytes) :=
  [(w_rib, w_list); (w_fib, w_list); (w_strategy_choice, w_list); (w_cs, w_info); (w_faces, w_list); (w_status, w_general)].
Definition is_dataset_cmd (allow_localhop : bool) (n : name) : bool :=
  (length n =? plen + 2)%nat &&
  match nth_error n plen, nth_error n (plen + 1) with
  | Some m, Some v =>
      (is_prefix local_prefix n && existsb (fun p => comp_is m (fst p) && comp_is v (snd p)) dataset_verbs)
      || (allow_localhop && is_prefix nonlocal_prefix n && comp_is m w_rib && comp_is v w_list)
  | _, _ => false
  end.
Definition spec_answered (allow_localhop : bool) (c : cmd) (r : resp) : bool :=
  negb (is_dataset_cmd allow_localhop (c_name c)) || match r with RData _ _ _ => true | _ => false end.

(* everything that can be judged from one observed step *)
Definition spec_step (allow_localhop : bool) (pre : state) (c : cmd) (r : resp) (post : state) : bool :=
  spec_authorised allow_localhop pre c post && spec_reject_pure pre r post && spec_status_class r
  && spec_dataset c r post
  && (negb (strat_known (s_strat pre) && root_has_strategy (s_strat pre)) || spec_strategies post)
  && (negb (faces_usable pre) || faces_usable post)
  && (negb (cs_sane pre) || cs_sane post).
