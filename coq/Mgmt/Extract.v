(* Mgmt/Extract.v — extraction of the executable management model for the correspondence runner.
   ExtrOcamlBasic only: bool, option, unit, list, prod, sumbool -> OCaml natives; N/Z/positive/nat stay Coq datatypes. *)
From Coq Require Import Extraction ExtrOcamlBasic.
From Mgmt Require Import Model Spec.
Extraction Language OCaml.
Extraction "mgmt_model.ml"
  run initial_fib initial_strat no_args consts_match_model header_overhead opts_flags ds_name
  spec_step spec_authorised spec_reject_pure spec_status_class spec_dataset spec_strategies strat_known root_has_strategy
  faces_usable cs_sane state_eqb authorised accepted spec_answered is_dataset_cmd
  rib_sync rib_cleanup fib_want spec_rib_fib spec_fib_after_rib
  name_eqb is_prefix local_prefix nonlocal_prefix strategy_prefix of_pairs
  N.add N.mul N.of_nat N.to_nat N.eqb N.ltb N.leb N.div N.modulo N.compare
  Z.of_N Z.to_N Z.add Z.mul Z.opp Z.ltb Z.eqb Z.compare.
