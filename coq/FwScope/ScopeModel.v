(* FwScope/ScopeModel.v — face-scope classification (C09), definitions only (no proofs): the scope each transport constructor of
   fw/face gives its face, as OBSERVED by calling the real constructors (GenScope.observed, regenerated on every run from the
   harness rows), and the specification "a face is local iff its peer is this host".
   Scope codes: 1 = Local, 0 = NonLocal, 2 = Unknown. *)
From Coq Require Import List NArith Arith Bool.
From FwScope Require Import GenScope.
Import ListNotations.
Open Scope N_scope.

(* constructors: 0 MakeUnicastTCPTransport  1 AcceptUnicastTCPTransport  2 MakeUnicastUDPTransport  3 MakeUnixStreamTransport
                 4 NewWebSocketTransport    5 MakeInternalTransport      6 MakeMulticastUDPTransport 7 MakeNullTransport *)
Definition n_ctors : N := 8.

(* the peer is identified by an IP address *)
Definition ctor_ip (c : N) : bool := (c =? 0) || (c =? 1) || (c =? 2) || (c =? 4).

(* IP transports: Local iff the remote address is loopback; Unix stream and internal: Local; multicast UDP and null: NonLocal *)
Definition spec_local (c : N) (remote_loopback : bool) : bool :=
  if ctor_ip c then remote_loopback else (c =? 3) || (c =? 5).
Definition spec_code (c : N) (remote_loopback : bool) : N := if spec_local c remote_loopback then 1 else 0.

(* every observed scope of constructor c for a remote address that is / is not loopback *)
Definition observed_of (c : N) (lb : bool) : list N :=
  map (fun r => snd r) (filter (fun r => (fst (fst r) =? c) && Bool.eqb (snd (fst r)) lb) observed).

(* the scope constructor c gives such a face: the observed one (None if never observed and not in the reference) *)
Definition transport_scope (c : N) (lb : bool) : option bool :=
  match observed_of c lb with
  | v :: _ => if v =? 1 then Some true else if v =? 0 then Some false else None
  | [] => None
  end.

(* every row of the table agrees with the specification, and every constructor has a row for both kinds of remote address *)
Definition scope_table_ok : bool :=
  forallb (fun r => snd r =? spec_code (fst (fst r)) (snd (fst r))) observed &&
  forallb (fun c => forallb (fun lb => match observed_of c lb with [] => false | _ => true end) [true; false])
          (map N.of_nat (seq 0 (N.to_nat n_ctors))).
