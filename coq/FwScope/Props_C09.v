(* Property C09, face-scope classification part (family FwScope, kept apart from coq/Fw so that a problem here cannot touch the
   C01/C02 development).  Only theorem statements closed by `exact`, each followed by Print Assumptions.

   GenScope.observed is the table of scopes the REAL transport constructors of fw/face assigned in this run (harness/fwcore
   TestScope; rows this host could not exercise come from the committed reference); transport_scope c lb is the scope
   constructor c (numbering in ScopeModel.v) gives a face whose remote address is (lb = true) / is not (lb = false) loopback. *)
From Coq Require Import List NArith Bool.
From Fw Require Import Model Spec Run.
From FwScope Require Import GenScope ScopeModel Scope.
Import ListNotations.
Open Scope N_scope.

(* every constructor classifies as the specification says: IP transports (unicast TCP outgoing and accepted, unicast UDP,
   WebSocket) Local iff the remote address is loopback; Unix stream and internal always Local; multicast UDP and null NonLocal *)
Theorem c09_scope_classification : forall c lb, c < n_ctors -> transport_scope c lb = Some (spec_local c lb).
Proof. exact scope_classification. Qed.
Print Assumptions c09_scope_classification.

(* tie to c09_scope: a face whose scope was assigned by an IP transport constructor for a non-loopback peer is non-local, so
   no /localhost packet is ever transmitted on it *)
Theorem c09_remote_peer_never_localhost : forall s0 (h : history) pre e r o g c,
  In (pre, e, r) (trace s0 h) -> In o (r_outs r) -> get_face (faces pre) (o_face o) = Some g ->
  c < n_ctors -> ctor_ip c = true -> transport_scope c false = Some (f_local g) ->
  spec_localhost (o_name o) = false.
Proof. exact remote_peer_never_localhost. Qed.
Print Assumptions c09_remote_peer_never_localhost.

Theorem c09_local_peer_local : forall c, c < n_ctors ->
  (ctor_ip c = true -> transport_scope c true = Some true) /\
  ((c = 3 \/ c = 5) -> forall lb, transport_scope c lb = Some true).
Proof. exact local_peer_local. Qed.
Print Assumptions c09_local_peer_local.

