(* FwScope/Scope.v — the classification theorem over the observed table, tied to C09's c09_scope. *)
From Coq Require Import List NArith Arith Bool Lia.
From Fw Require Import Model Spec Run C09.
From FwScope Require Import GenScope ScopeModel.
Import ListNotations.
Open Scope N_scope.

Lemma scope_table_checked : scope_table_ok = true.
Proof. vm_compute. reflexivity. Qed.

Lemma scope_classification c lb : c < n_ctors -> transport_scope c lb = Some (spec_local c lb).
Proof.
  intros Hc. pose proof scope_table_checked as T. unfold scope_table_ok in T.
  apply andb_true_iff in T. destruct T as [T1 T2]. rewrite forallb_forall in T1, T2.
  assert (Hin : In c (map N.of_nat (seq 0 (N.to_nat n_ctors)))).
  { apply in_map_iff. exists (N.to_nat c). split; [apply N2Nat.id|]. apply in_seq. lia. }
  specialize (T2 c Hin). rewrite forallb_forall in T2.
  assert (Hlb : In lb [true; false]) by (destruct lb; cbn; auto).
  specialize (T2 lb Hlb). unfold transport_scope.
  destruct (observed_of c lb) as [|v rest] eqn:E; [discriminate|].
  assert (Hv : In v (observed_of c lb)) by (rewrite E; left; reflexivity).
  unfold observed_of in Hv. apply in_map_iff in Hv. destruct Hv as (r & <- & Hr). apply filter_In in Hr. destruct Hr as [Hr Hf].
  apply andb_true_iff in Hf. destruct Hf as [Hf1 Hf2]. apply N.eqb_eq in Hf1. apply Bool.eqb_prop in Hf2.
  specialize (T1 r Hr). apply N.eqb_eq in T1. rewrite T1, Hf1, Hf2. unfold spec_code.
  destruct (spec_local c lb); reflexivity.
Qed.

(* a face to a peer with a non-loopback IP address, built by any of the IP transports, is non-local ... *)
Lemma remote_peer_nonlocal c : c < n_ctors -> ctor_ip c = true -> transport_scope c false = Some false.
Proof. intros Hc Hip. rewrite scope_classification by exact Hc. unfold spec_local. rewrite Hip. reflexivity. Qed.

(* ... hence never gets a /localhost packet, after any history *)
Lemma remote_peer_never_localhost s0 (h : history) pre e r o g c :
  In (pre, e, r) (trace s0 h) -> In o (r_outs r) -> get_face (faces pre) (o_face o) = Some g ->
  c < n_ctors -> ctor_ip c = true -> transport_scope c false = Some (f_local g) ->
  spec_localhost (o_name o) = false.
Proof.
  intros Hin Ho Hg Hc Hip Hs. rewrite (remote_peer_nonlocal c Hc Hip) in Hs. inversion Hs as [E].
  eapply c09_scope_stmt; eauto.
Qed.

(* faces of this host stay local *)
Lemma local_peer_local c : c < n_ctors ->
  (ctor_ip c = true -> transport_scope c true = Some true) /\
  ((c = 3 \/ c = 5) -> forall lb, transport_scope c lb = Some true).
Proof.
  intros Hc. split.
  - intros Hip. rewrite scope_classification by exact Hc. unfold spec_local. rewrite Hip. reflexivity.
  - intros [-> | ->] lb; rewrite scope_classification by (vm_compute; reflexivity); reflexivity.
Qed.
