(* FwScope/Extract.v — extraction of the scope classification model for runner/FwScope/driver.ml (ExtrOcamlBasic only). *)
From Coq Require Import Extraction ExtrOcamlBasic.
From Coq Require Import List NArith.
From FwScope Require Import GenScope ScopeModel.
Extraction Language OCaml.
Extraction "scope_model.ml" transport_scope spec_local.
