(* Face/LpTotal.v — C04 receive path, link layer: handleIncomingFrame / reassemblePacket / dispatch never panic for any
   decoded frame and any store; the store grows by at most one bounded entry per frame; an undecodable frame changes nothing. *)
From Base Require Import Bytes VarNum.
From Face Require Import GenConsts Stream StreamProofs Lp LpProofs LpReasm.
From Coq Require Import ZifyBool ZifyN ZifyNat Lia.
Open Scope N_scope.

(* sizes of the partial message store *)
Definition store_cells (s : list (N * list bytes)) : nat := fold_right (fun kv a => (length (snd kv) + a)%nat) 0%nat s.
Definition slots_bytes (l : list bytes) : nat := fold_right (fun b a => (length b + a)%nat) 0%nat l.
Definition store_bytes (s : list (N * list bytes)) : nat := fold_right (fun kv a => (slots_bytes (snd kv) + a)%nat) 0%nat s.

Lemma store_cells_cons k v s : store_cells ((k, v) :: s) = (length v + store_cells s)%nat.
Proof. reflexivity. Qed.
Lemma store_bytes_cons k v s : store_bytes ((k, v) :: s) = (slots_bytes v + store_bytes s)%nat.
Proof. reflexivity. Qed.
Lemma st_del_cons k k' v s : st_del k ((k', v) :: s) = if negb (k' =? k) then (k', v) :: st_del k s else st_del k s.
Proof. reflexivity. Qed.

Lemma store_cells_del k s : (store_cells (st_del k s) <= store_cells s)%nat.
Proof. induction s as [|[k' v] s IH]; [cbn; lia|]. rewrite st_del_cons. destruct (negb (k' =? k)); rewrite ?store_cells_cons; lia. Qed.
Lemma store_bytes_del k s : (store_bytes (st_del k s) <= store_bytes s)%nat.
Proof. induction s as [|[k' v] s IH]; [cbn; lia|]. rewrite st_del_cons. destruct (negb (k' =? k)); rewrite ?store_bytes_cons; lia. Qed.

Lemma st_get_cells k s v : st_get k s = Some v -> (store_cells (st_del k s) + length v <= store_cells s)%nat.
Proof.
  induction s as [|[k' v'] s IH]; [discriminate|]. cbn [st_get]. rewrite st_del_cons, store_cells_cons.
  destruct (k' =? k) eqn:E; cbn [negb].
  - intros H; inversion H; subst. pose proof (store_cells_del k s). lia.
  - intros H. specialize (IH H). rewrite store_cells_cons. lia.
Qed.
Lemma st_get_bytes k s v : st_get k s = Some v -> (store_bytes (st_del k s) + slots_bytes v <= store_bytes s)%nat.
Proof.
  induction s as [|[k' v'] s IH]; [discriminate|]. cbn [st_get]. rewrite st_del_cons, store_bytes_cons.
  destruct (k' =? k) eqn:E; cbn [negb].
  - intros H; inversion H; subst. pose proof (store_bytes_del k s). lia.
  - intros H. specialize (IH H). rewrite store_bytes_cons. lia.
Qed.

Lemma slots_bytes_cons x l : slots_bytes (x :: l) = (length x + slots_bytes l)%nat.
Proof. reflexivity. Qed.
Lemma slots_bytes_set_nth v : forall l i, (slots_bytes (set_nth i v l) <= slots_bytes l + length v)%nat.
Proof.
  induction l as [|x l IH]; intros i; [destruct i; cbn; lia|]. destruct i as [|i]; cbn [set_nth]; rewrite !slots_bytes_cons; [lia|].
  specialize (IH i). lia.
Qed.
Lemma slots_bytes_repeat n : slots_bytes (repeat [] n) = 0%nat.
Proof. induction n as [|n IH]; [reflexivity|]. cbn [repeat]. rewrite slots_bytes_cons, IH. reflexivity. Qed.

(* reassemblePacket: for ANY store and ANY peer-supplied base / FragIndex / FragCount / fragment: no index panic;
   at most FragCount <= maxFragCount new slots and at most the fragment's bytes are added *)
Theorem reassemble_total_lemma : forall s base idx cnt frag,
  match reassemble true s base idx cnt frag with
  | RPanic => False
  | RNone s' => (store_cells s' <= store_cells s + N.to_nat c_maxFragCount)%nat /\ (store_bytes s' <= store_bytes s + length frag)%nat
  | RDone s' _ => (store_cells s' <= store_cells s)%nat /\ (store_bytes s' <= store_bytes s)%nat
  end.
Proof.
  intros s base idx cnt frag. unfold reassemble. cbn [andb].
  destruct ((c_maxFragCount <? cnt) || (cnt <=? idx)) eqn:G; [split; lia|].
  apply Bool.orb_false_iff in G as [G1 G2].
  destruct (st_get base s) as [slots0|] eqn:Eg.
  - destruct (negb (N.of_nat (length slots0) =? cnt)) eqn:El; [split; lia|].
    apply Bool.negb_false_iff, N.eqb_eq in El.
    replace (N.of_nat (length slots0) <=? idx) with false by lia.
    pose proof (st_get_cells _ _ _ Eg) as Hc. pose proof (st_get_bytes _ _ _ Eg) as Hb.
    pose proof (slots_bytes_set_nth frag slots0 (N.to_nat idx)) as Hsb.
    destruct (length (filter nonempty (set_nth (N.to_nat idx) frag slots0)) =? length (set_nth (N.to_nat idx) frag slots0))%nat.
    + split; [apply store_cells_del|apply store_bytes_del].
    + unfold st_set. rewrite store_cells_cons, store_bytes_cons, set_nth_length. split; lia.
  - rewrite repeat_length. replace (N.of_nat (N.to_nat cnt) <=? idx) with false by lia.
    pose proof (slots_bytes_set_nth frag (repeat [] (N.to_nat cnt)) (N.to_nat idx)) as Hsb. rewrite slots_bytes_repeat in Hsb.
    pose proof (store_cells_del base s). pose proof (store_bytes_del base s).
    destruct (length (filter nonempty (set_nth (N.to_nat idx) frag (repeat [] (N.to_nat cnt)))) =? length (set_nth (N.to_nat idx) frag (repeat [] (N.to_nat cnt))))%nat.
    + split; assumption.
    + unfold st_set. rewrite store_cells_cons, store_bytes_cons, set_nth_length, repeat_length. split; lia.
Qed.

(* dispatch: the thread taken from a 6-byte PIT token is bounds-checked; hash-derived threads are in range when the
   dispatch table and fw.Threads have the same length (l3_ok) *)
Definition l3_ok (n : N) (info : l3i) : Prop := h_thread info < n /\ N.of_nat (length (p_threads info)) <= n.
Definition ol3_ok (n : N) (o : option l3i) : Prop := match o with Some info => l3_ok n info | None => True end.

Lemma prefix_deliveries_total n mk : forall bits i, i + N.of_nat (length bits) <= n ->
  exists ds, prefix_deliveries n i bits mk = Some ds /\ Forall (fun d => exists t, d = mk t /\ t < n) ds.
Proof.
  induction bits as [|b bits IH]; intros i H; [exists []; split; [reflexivity|constructor]|].
  cbn [prefix_deliveries length] in *. destruct (IH (i + 1) ltac:(lia)) as (ds & -> & Hds).
  destruct b.
  - replace (i <? n) with true by lia. exists (mk i :: ds). split; [reflexivity|]. constructor; [exists i; split; [reflexivity|lia]|exact Hds].
  - exists ds. split; [reflexivity|exact Hds].
Qed.

Theorem dispatch_total_lemma : forall c st i d raw tok mark nh cp,
  ol3_ok (r_nthreads c) i -> ol3_ok (r_nthreads c) d ->
  exists st' out, dispatch true c st i d raw tok mark nh cp = HOk st' out /\ r_store st' = r_store st /\
                  Forall (fun x => d_thread x < r_nthreads c) out.
Proof.
  intros c st i d raw tok mark nh cp Hi Hd. unfold dispatch.
  destruct i as [info|].
  - destruct Hi as [Hi _]. replace (h_thread info <? r_nthreads c) with true by lia.
    eexists _, _. split; [reflexivity|]. split; [reflexivity|]. constructor; [exact Hi|constructor].
  - destruct d as [info|]; [|eexists _, _; split; [reflexivity|split; [reflexivity|constructor]]].
    destruct Hd as [Hh Hp].
    destruct (lenN tok =? 6).
    + unfold get_fw_thread. destruct (be16 tok <? r_nthreads c) eqn:E.
      * eexists _, _. split; [reflexivity|]. split; [reflexivity|]. constructor; [cbn [d_thread]; lia|constructor].
      * eexists _, _. split; [reflexivity|]. split; [reflexivity|constructor].
    + destruct (prefix_deliveries_total (r_nthreads c) (fun t => mkDel t false raw tok mark nh cp) (p_threads info) 0 ltac:(lia)) as (ds & -> & Hds).
      eexists _, _. split; [reflexivity|]. split; [reflexivity|].
      eapply Forall_impl; [|exact Hds]. intros x (t & -> & Ht). exact Ht.
Qed.

(* bytes of payload carried by a decoded frame (a sub-slice of the frame: at most the frame's length) *)
Definition frag_len (dec : dpkt) : nat :=
  match dec with DPkt _ _ (Some LP) => match f_frag LP with Some frag => length frag | None => 0%nat end | _ => 0%nat end.

Lemma lp_receive_total reasm s LP frag :
  match lp_receive true reasm s LP frag with
  | LPanic => False
  | LDrop s' | LUp s' _ => (store_cells s' <= store_cells s + N.to_nat c_maxFragCount)%nat /\ (store_bytes s' <= store_bytes s + length frag)%nat
  end.
Proof.
  unfold lp_receive. destruct (if reasm then f_seq LP else None) as [sq|].
  - destruct ((match f_idx LP with Some x => x | None => 0 end =? 0) && (match f_cnt LP with Some x => x | None => 1 end =? 1)); [split; lia|].
    pose proof (reassemble_total_lemma s (u64 (sq + two64 - match f_idx LP with Some x => x | None => 0 end))
                  (match f_idx LP with Some x => x | None => 0 end) (match f_cnt LP with Some x => x | None => 1 end) frag) as H.
    destruct (reassemble true s _ _ _ frag); [exact H|split; lia|exact H].
  - destruct (f_cnt LP), (f_idx LP); split; lia.
Qed.

(* exactly once per thread: what dispatch queues for one packet satisfies dl_once_ok *)
Lemma prefix_deliveries_threads n mk : forall bits i ds, prefix_deliveries n i bits mk = Some ds ->
  exists ts, ds = map mk ts /\ Forall (fun t => i <= t) ts /\ threads_nodup ts = true.
Proof.
  induction bits as [|b bits IH]; intros i ds H; cbn [prefix_deliveries] in H.
  - inversion H; subst. exists []. repeat split; constructor.
  - destruct (prefix_deliveries n (i + 1) bits mk) as [rest|] eqn:E; [|discriminate].
    destruct (IH (i + 1) rest E) as (ts & -> & Hge & Hnd).
    destruct b.
    + destruct (i <? n); [|discriminate]. inversion H; subst. exists (i :: ts). split; [reflexivity|]. split.
      * constructor; [lia|]. eapply Forall_impl; [|exact Hge]. cbn beta. intros; lia.
      * cbn [threads_nodup]. rewrite Hnd, andb_true_r. apply negb_true_iff. apply Bool.not_true_is_false. intros Hex.
        apply existsb_exists in Hex as (t & Hin & Heq). apply N.eqb_eq in Heq. subst t.
        rewrite Forall_forall in Hge. specialize (Hge i Hin). lia.
    + inversion H; subst. exists ts. split; [reflexivity|]. split; [|exact Hnd].
      eapply Forall_impl; [|exact Hge]. cbn beta. intros; lia.
Qed.

Theorem dispatch_once_lemma : forall c st i d raw tok mark nh cp st' out,
  dispatch true c st i d raw tok mark nh cp = HOk st' out -> dl_once_ok (r_nthreads c) out = true.
Proof.
  intros c st i d raw tok mark nh cp st' out H. unfold dispatch in H.
  destruct i as [info|].
  - destruct (h_thread info <? r_nthreads c); [|discriminate]. inversion H; subst. reflexivity.
  - destruct d as [info|]; [|inversion H; reflexivity].
    destruct (lenN tok =? 6) eqn:E6.
    + unfold get_fw_thread in H. destruct (be16 tok <? r_nthreads c) eqn:Et; inversion H; subst; [|reflexivity].
      unfold dl_once_ok. cbn [map d_thread d_interest d_tok threads_nodup existsb negb andb length Nat.eqb]. now rewrite E6, N.eqb_refl, Et.
    + destruct (prefix_deliveries (r_nthreads c) 0 (p_threads info) (fun t => mkDel t false raw tok mark nh cp)) as [ds|] eqn:Ep; [|discriminate].
      inversion H; subst out. destruct (prefix_deliveries_threads _ _ _ _ _ Ep) as (ts & -> & _ & Hnd).
      destruct ts as [|t ts]; [reflexivity|].
      remember (map (fun t0 => mkDel t0 false raw tok mark nh cp) (t :: ts)) as ds eqn:Eds.
      assert (Hm : map d_thread ds = t :: ts) by (subst ds; rewrite map_map; cbn [d_thread]; apply map_id).
      destruct ds as [|d0 ds']; [discriminate|]. cbn [map] in Eds. injection Eds as Ed0 _.
      unfold dl_once_ok. rewrite Hm, Hnd. subst d0. cbn [d_interest d_tok andb]. now rewrite E6.
Qed.

(* handleIncomingFrame on ANY decoded frame, in ANY state: no panic; the store grows by at most maxFragCount slots and
   by at most the bytes of the fragment carried by the frame; every delivery goes to an existing thread *)
Theorem handle_frame_total_lemma : forall c inner st dec frame,
  (forall p, match inner p with DErr => True | DPkt i d _ => ol3_ok (r_nthreads c) i /\ ol3_ok (r_nthreads c) d end) ->
  (match dec with DErr => True | DPkt i d _ => ol3_ok (r_nthreads c) i /\ ol3_ok (r_nthreads c) d end) ->
  exists st' out, handle_frame true c inner st dec frame = HOk st' out /\
    (store_cells (r_store st') <= store_cells (r_store st) + N.to_nat c_maxFragCount)%nat /\
    (store_bytes (r_store st') <= store_bytes (r_store st) + frag_len dec)%nat /\
    Forall (fun x => d_thread x < r_nthreads c) out.
Proof.
  intros c inner st dec frame Hinner Hdec. unfold handle_frame, frag_len.
  destruct dec as [|i d [LP|]].
  - eexists _, _. split; [reflexivity|]. split; [lia|]. split; [lia|constructor].
  - destruct (f_frag LP) as [frag|] eqn:Ef; [|eexists _, _; split; [reflexivity|split; [lia|split; [lia|constructor]]]].
    pose proof (lp_receive_total (r_reasm c) (r_store st) LP frag) as H.
    destruct (lp_receive true (r_reasm c) (r_store st) LP frag) as [s'|s' payload|]; [| |contradiction].
    + eexists _, _. split; [reflexivity|]. cbn [r_store]. destruct H. split; [lia|]. split; [lia|constructor].
    + specialize (Hinner payload). destruct (inner payload) as [|i' d' _].
      * eexists _, _. split; [reflexivity|]. cbn [r_store]. destruct H. split; [lia|]. split; [lia|constructor].
      * destruct Hinner as [Hi Hd].
        destruct (dispatch_total_lemma c (mkRs s' (r_nI st) (r_nD st)) i' d' payload (f_tok LP) (f_mark LP)
                    (if r_ccf c then f_nexthop LP else None) (if r_lcp c then f_cachepol LP else None) Hi Hd) as (st2 & out & -> & Hs & Ho).
        exists st2, out. split; [reflexivity|]. rewrite Hs. cbn [r_store]. destruct H. split; [lia|]. split; [lia|exact Ho].
  - destruct Hdec as [Hi Hd].
    destruct (dispatch_total_lemma c st i d frame [] None None None Hi Hd) as (st' & out & -> & Hs & Ho).
    exists st', out. split; [reflexivity|]. rewrite Hs. split; [lia|]. split; [lia|exact Ho].
Qed.

(* a frame that fails to decode changes nothing (no store change, no counter change, nothing dispatched) *)
Theorem bad_frame_state_unchanged_lemma : forall g c inner st frame, handle_frame g c inner st DErr frame = HOk st [].
Proof. reflexivity. Qed.

(* the code before the repairs (guard = false) *)
Lemma reassembly_refuted_before_fix : reassemble false [] 7 5 3 [1] = RPanic.
Proof. vm_compute. reflexivity. Qed.
Lemma dispatch_refuted_before_fix :
  dispatch false (mkRc true false false false 8) rs_init None (Some (mkL3 0 [])) [6;1] [0;8;1;2;3;4] None None None = HPanic.
Proof. vm_compute. reflexivity. Qed.

(* send side before the repair: 3061-byte packet, MTU 1500, outgoing 6-byte token (the incoming packet had none): the
   first fragment frame exceeds the MTU, and no fragment carries FragIndex/FragCount *)
Lemma frames_fit_refuted_before_fix :
  let fs := send_fields_old 1500 (mkSo true false) 0 false [0;0;1;2;3;4] None None (repeat 7 3061) in
  existsb (fun f => (1500 <? zlen (lp_encode f))%Z) fs = true /\ forallb (fun f => match f_idx f with None => true | Some _ => false end) fs = true.
Proof. vm_compute. split; reflexivity. Qed.

(* InternalTransport.Receive never hits a nil IncomingFaceId on what the internal face's link service sends: with incoming-face
   indication enabled and an incoming face named by the forwarding thread, EVERY frame of every packet - each fragment, not only
   the first - carries the field. *)
Lemma number_frags_inface sq cnt tok inface mark : forall cs i,
  Forall (fun f => f_inface f = inface) (number_frags sq i cnt tok inface mark cs).
Proof. induction cs as [|c cs IH]; intros i; cbn [number_frags]; constructor; [reflexivity|apply IH]. Qed.

Theorem internal_receive_total_lemma : forall mtu hdr o sq tok i mark wire,
  o_ifi o = true ->
  Forall (fun f => internal_receive (DPkt None None (Some f)) <> IPanic)
         (fst (send_fields_h mtu hdr o sq tok (Some i) mark wire)).
Proof.
  intros mtu hdr o sq tok i mark wire Hifi.
  assert (G : Forall (fun f => f_inface f = Some i) (fst (send_fields_h mtu hdr o sq tok (Some i) mark wire))).
  { unfold send_fields_h. rewrite Hifi.
    destruct (lp_frame_length (exact_header o tok (Some i) mark) (zlen wire) <=? mtu)%Z; [repeat constructor|].
    destruct (negb (o_frag o)); [constructor|].
    destruct (effective_mtu_h mtu hdr tok mark <=? 0)%Z; [constructor|]. cbn [fst]. apply number_frags_inface. }
  eapply Forall_impl; [|exact G]. intros f Hf. unfold internal_receive. destruct (f_frag f) as [[|x fr]|]; try discriminate.
  rewrite Hf. discriminate.
Qed.

(* carrying the field on the first fragment only (as NFD does) is what Receive cannot take *)
Lemma internal_receive_first_only_panics :
  internal_receive (DPkt None None (Some (mkLpf (Some 1) (Some 1) (Some 2) [] None None None None (Some [7])))) = IPanic.
Proof. reflexivity. Qed.
