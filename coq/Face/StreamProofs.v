(* Face/StreamProofs.v — proofs about the stream framer model (Stream.v): C11 framing_exact and friends,
   and the stream part of C04 (stream_total). *)
From Base Require Import Bytes VarNum.
From Face Require Import GenConsts Stream.
From Coq Require Import ZifyBool ZifyN ZifyNat Lia.
Open Scope N_scope.

(* ------------------------------------------------------------------------------------------------ *)
(* constants: the only facts about the translated constants that the proofs use *)
Lemma consts_buf_gt_max : c_MaxNDNPacketSize < c_recvBufSize.
Proof. reflexivity. Qed.
Lemma consts_max_ge_18 : 18 <= c_MaxNDNPacketSize.
Proof. unfold c_MaxNDNPacketSize. lia. Qed.
Lemma consts_max_small : c_MaxNDNPacketSize < 4611686018427387904.   (* 2^62 *)
Proof. reflexivity. Qed.

(* ------------------------------------------------------------------------------------------------ *)
(* binary-counter list functions = the usual ones *)
Lemma lenN_acc_spec l : forall acc, lenN_acc acc l = acc + N.of_nat (length l).
Proof. induction l as [|x l IH]; intros acc; cbn [lenN_acc length]; [lia|]. rewrite IH. lia. Qed.
Lemma lenN_spec l : lenN l = N.of_nat (length l).
Proof. unfold lenN. rewrite lenN_acc_spec. lia. Qed.

Lemma takeN_spec l : forall n, takeN n l = firstn (N.to_nat n) l.
Proof.
  induction l as [|x l IH]; intros n; cbn [takeN].
  - now rewrite firstn_nil.
  - destruct (n =? 0) eqn:E.
    + apply N.eqb_eq in E. subst. reflexivity.
    + apply N.eqb_neq in E. replace (N.to_nat n) with (S (N.to_nat (N.pred n))) by lia.
      cbn [firstn]. now rewrite IH.
Qed.
Lemma dropN_spec l : forall n, dropN n l = skipn (N.to_nat n) l.
Proof.
  induction l as [|x l IH]; intros n; cbn [dropN].
  - now rewrite skipn_nil.
  - destruct (n =? 0) eqn:E.
    + apply N.eqb_eq in E. subst. reflexivity.
    + apply N.eqb_neq in E. replace (N.to_nat n) with (S (N.to_nat (N.pred n))) by lia.
      cbn [skipn]. now rewrite IH.
Qed.

Lemma takeN_app_exact a b : takeN (lenN a) (a ++ b) = a.
Proof.
  rewrite takeN_spec, lenN_spec, Nat2N.id, firstn_app, Nat.sub_diag, firstn_all. cbn. now rewrite app_nil_r.
Qed.
Lemma dropN_app_exact a b : dropN (lenN a) (a ++ b) = b.
Proof.
  rewrite dropN_spec, lenN_spec, Nat2N.id, skipn_app, Nat.sub_diag, skipn_all. reflexivity.
Qed.
Lemma take_drop_N n l : takeN n l ++ dropN (lenN (takeN n l)) l = l.
Proof.
  rewrite takeN_spec, dropN_spec, lenN_spec, Nat2N.id.
  destruct (Nat.le_gt_cases (N.to_nat n) (length l)) as [H|H].
  - rewrite firstn_length_le by exact H. apply firstn_skipn.
  - rewrite firstn_all2 by lia. rewrite skipn_all. apply app_nil_r.
Qed.
Lemma takeN_length_le n l : lenN (takeN n l) <= n.
Proof. rewrite takeN_spec, lenN_spec, firstn_length. lia. Qed.

(* ------------------------------------------------------------------------------------------------ *)
(* Go int arithmetic *)
Lemma tl_len_bound n : (1 <= tl_len n <= 9)%nat.
Proof. unfold tl_len. destruct (n <=? 252); [lia|]. destruct (n <=? 65535); [lia|]. destruct (n <=? 4294967295); lia. Qed.

Lemma tlv_size_small t l : l < 4611686018427387904 ->
  tlv_size t l = (Z.of_nat (tl_len t) + Z.of_nat (tl_len l) + Z.of_N l)%Z.
Proof.
  intros Hl. unfold tlv_size, to_int64, wrap64, two63z, two64z.
  pose proof (tl_len_bound t). pose proof (tl_len_bound l).
  destruct (Z.of_N l <? 9223372036854775808)%Z eqn:E; [|lia].
  rewrite Z.mod_small by lia. lia.
Qed.

(* ------------------------------------------------------------------------------------------------ *)
(* ReadTLNum on prefixes and extensions *)
Lemma take_be_app_more k a v r b : take_be k a = Some (v, r) -> take_be k (a ++ b) = Some (v, r ++ b).
Proof.
  unfold take_be. destruct (k <=? length a)%nat eqn:E; [|discriminate].
  apply Nat.leb_le in E. intros H; inversion H; subst; clear H.
  rewrite app_length. replace (k <=? length a + length b)%nat with true by (symmetry; apply Nat.leb_le; lia).
  rewrite firstn_app, skipn_app. replace (k - length a)%nat with 0%nat by lia. cbn [firstn skipn].
  now rewrite app_nil_r.
Qed.

Lemma tl_dec_app_more a v r b : tl_dec a = Some (v, r) -> tl_dec (a ++ b) = Some (v, r ++ b).
Proof.
  destruct a as [|x a]; [discriminate|]. cbn [app tl_dec].
  destruct (x <=? 252); [intros H; inversion H; reflexivity|].
  destruct (x =? 253); [apply take_be_app_more|].
  destruct (x =? 254); apply take_be_app_more.
Qed.

Lemma take_be_short k l : (length l < k)%nat -> take_be k l = None.
Proof. intros H. unfold take_be. replace (k <=? length l)%nat with false; [reflexivity|]. symmetry. apply Nat.leb_gt. lia. Qed.

(* a strict prefix of an encoded number does not decode (it is "incomplete") *)
Lemma tl_dec_strict_prefix n p q : p ++ q = tl_enc n -> q <> [] -> tl_dec p = None.
Proof.
  intros He Hq. destruct p as [|x p]; [reflexivity|].
  assert (Hlen : (length (x :: p) < length (tl_enc n))%nat).
  { rewrite <- He, app_length. destruct q; [congruence|]. cbn [length]. lia. }
  unfold tl_enc in *.
  destruct (n <=? 252) eqn:E1.
  { cbn [length] in Hlen. lia. }
  destruct (n <=? 65535) eqn:E2.
  { cbn [app] in He. inversion He; subst. cbn [tl_dec]. change (253 <=? 252) with false. change (253 =? 253) with true. cbv iota.
    apply take_be_short. cbn [length] in Hlen. rewrite be_length in Hlen. lia. }
  destruct (n <=? 4294967295) eqn:E3.
  { cbn [app] in He. inversion He; subst. cbn [tl_dec]. change (254 <=? 252) with false. change (254 =? 253) with false.
    change (254 =? 254) with true. cbv iota.
    apply take_be_short. cbn [length] in Hlen. rewrite be_length in Hlen. lia. }
  cbn [app] in He. inversion He; subst. cbn [tl_dec]. change (255 <=? 252) with false. change (255 =? 253) with false.
  change (255 =? 254) with false. cbv iota.
  apply take_be_short. cbn [length] in Hlen. rewrite be_length in Hlen. lia.
Qed.

(* ------------------------------------------------------------------------------------------------ *)
(* well-formed blocks *)
Definition wf_block (b : bytes) : Prop :=
  exists t v, b = mk_block t v /\ t < two64 /\ lenN b <= c_MaxNDNPacketSize.

(* p is a strict prefix of some well-formed block, or nothing at all *)
Definition incomplete (p : bytes) : Prop := p = [] \/ exists q, wf_block (p ++ q) /\ q <> [].

Lemma mk_block_length t v : lenN (mk_block t v) = N.of_nat (tl_len t) + N.of_nat (tl_len (lenN v)) + lenN v.
Proof. unfold mk_block. rewrite !lenN_spec, !app_length, !tl_enc_length. lia. Qed.

Lemma wf_block_len_ge2 b : wf_block b -> 2 <= lenN b.
Proof.
  intros (t & v & -> & _ & _). rewrite mk_block_length.
  pose proof (tl_len_bound t). pose proof (tl_len_bound (lenN v)). lia.
Qed.
Lemma wf_block_nonnil b : wf_block b -> b <> [].
Proof. intros H Hn. apply wf_block_len_ge2 in H. subst. cbv in H. congruence. Qed.

(* one complete block at the head of the unread bytes is delivered and consumed *)
Lemma parse_complete g f off t v r acc :
  t < two64 -> lenN (mk_block t v) <= c_MaxNDNPacketSize ->
  parse_loop g (S f) off (mk_block t v ++ r) acc =
  parse_loop g f (off + lenN (mk_block t v)) r (mk_block t v :: acc).
Proof.
  intros Ht Hsz.
  pose proof consts_max_small as Hms.
  assert (Hb := mk_block_length t v).
  pose proof (tl_len_bound t) as Hbt. pose proof (tl_len_bound (lenN v)) as Hbl.
  assert (Hv : lenN v < 4611686018427387904) by lia.
  cbn [parse_loop].
  unfold mk_block at 1. rewrite <- !app_assoc.
  rewrite tl_dec_enc by exact Ht.
  rewrite tl_dec_enc by (unfold two64; lia).
  rewrite tlv_size_small by exact Hv.
  replace (c_MaxNDNPacketSize <? lenN v) with false by lia.
  replace (Z.of_N c_MaxNDNPacketSize <? Z.of_nat (tl_len t) + Z.of_nat (tl_len (lenN v)) + Z.of_N (lenN v))%Z with false by lia.
  rewrite Bool.andb_false_r.
  assert (Hlu : lenN (mk_block t v ++ r) = lenN (mk_block t v) + lenN r) by (rewrite !lenN_spec, app_length; lia).
  replace (Z.of_nat (tl_len t) + Z.of_nat (tl_len (lenN v)) + Z.of_N (lenN v) <=? Z.of_N (lenN (mk_block t v ++ r)))%Z with true by lia.
  replace (Z.of_nat (tl_len t) + Z.of_nat (tl_len (lenN v)) + Z.of_N (lenN v) <? 0)%Z with false by lia.
  replace (Z.of_nat (tl_len t) + Z.of_nat (tl_len (lenN v)) + Z.of_N (lenN v) =? 0)%Z with false by lia.
  replace (Z.to_N (Z.of_nat (tl_len t) + Z.of_nat (tl_len (lenN v)) + Z.of_N (lenN v))) with (lenN (mk_block t v)) by lia.
  rewrite takeN_app_exact, dropN_app_exact. reflexivity.
Qed.

(* a strict prefix of a well-formed block, alone in the buffer, is left alone ("incomplete packet") *)
Lemma parse_incomplete g f off p acc : incomplete p -> parse_loop g (S f) off p acc = (PBreak, off, p, acc).
Proof.
  intros [->|(q & (t & v & Hb & Ht & Hsz) & Hq)]; [reflexivity|].
  pose proof consts_max_small as Hms.
  pose proof (tl_len_bound t) as Hbt. pose proof (tl_len_bound (lenN v)) as Hbl.
  assert (Hlb := mk_block_length t v). rewrite <- Hb in Hlb.
  assert (Hlpq : lenN (p ++ q) = lenN p + lenN q) by (rewrite !lenN_spec, app_length; lia).
  assert (Hq1 : 1 <= lenN q) by (rewrite lenN_spec; destruct q; [congruence|cbn [length]; lia]).
  cbn [parse_loop].
  unfold mk_block in Hb.
  destruct (app_eq_app _ _ _ _ Hb) as (d & [[Hp Hd]|[He Hd]]).
  - (* p = tl_enc t ++ d *)
    subst p. rewrite tl_dec_enc by exact Ht.
    symmetry in Hd. destruct (app_eq_app _ _ _ _ Hd) as (d2 & [[Hp2 Hd2]|[He2 Hd2]]).
    + (* d = tl_enc l ++ d2, v = d2 ++ q : T and L complete, value incomplete *)
      subst d. rewrite tl_dec_enc by (unfold two64; lia).
      rewrite tlv_size_small by lia.
      replace (c_MaxNDNPacketSize <? lenN v) with false by lia.
      replace (Z.of_N c_MaxNDNPacketSize <? Z.of_nat (tl_len t) + Z.of_nat (tl_len (lenN v)) + Z.of_N (lenN v))%Z with false by lia.
      rewrite Bool.andb_false_r.
      assert (Hlp : lenN (tl_enc t ++ tl_enc (lenN v) ++ d2) = N.of_nat (tl_len t) + N.of_nat (tl_len (lenN v)) + lenN d2)
        by (rewrite !lenN_spec, !app_length, !tl_enc_length; lia).
      assert (Hlv : lenN v = lenN d2 + lenN q) by (rewrite Hd2, !lenN_spec, app_length; lia).
      rewrite Hlp.
      replace (Z.of_nat (tl_len t) + Z.of_nat (tl_len (lenN v)) + Z.of_N (lenN v) <=?
               Z.of_N (N.of_nat (tl_len t) + N.of_nat (tl_len (lenN v)) + lenN d2))%Z with false by lia.
      replace (Z.of_N c_MaxNDNPacketSize <? Z.of_N (N.of_nat (tl_len t) + N.of_nat (tl_len (lenN v)) + lenN d2))%Z with false by lia.
      reflexivity.
    + (* tl_enc l = d ++ d2, q = d2 ++ v *)
      destruct d2 as [|y d2].
      * (* d = tl_enc l exactly: same as above with an empty value part *)
        rewrite app_nil_r in He2. subst d. cbn [app] in Hd2. subst q.
        replace (tl_enc (lenN v)) with (tl_enc (lenN v) ++ []) at 1 by apply app_nil_r.
        rewrite tl_dec_enc by (unfold two64; lia).
        rewrite tlv_size_small by lia.
        replace (c_MaxNDNPacketSize <? lenN v) with false by lia.
        replace (Z.of_N c_MaxNDNPacketSize <? Z.of_nat (tl_len t) + Z.of_nat (tl_len (lenN v)) + Z.of_N (lenN v))%Z with false by lia.
        rewrite Bool.andb_false_r.
        assert (Hlp : lenN (tl_enc t ++ tl_enc (lenN v)) = N.of_nat (tl_len t) + N.of_nat (tl_len (lenN v)))
          by (rewrite lenN_spec, app_length, !tl_enc_length; lia).
        rewrite Hlp.
        replace (Z.of_nat (tl_len t) + Z.of_nat (tl_len (lenN v)) + Z.of_N (lenN v) <=?
                 Z.of_N (N.of_nat (tl_len t) + N.of_nat (tl_len (lenN v))))%Z with false by lia.
        replace (Z.of_N c_MaxNDNPacketSize <? Z.of_N (N.of_nat (tl_len t) + N.of_nat (tl_len (lenN v))))%Z with false by lia.
        reflexivity.
      * (* the length field is cut *)
        rewrite (tl_dec_strict_prefix (lenN v) d (y :: d2)); [reflexivity|now symmetry|discriminate].
  - (* tl_enc t = p ++ d : the type field is cut (d <> [] or the rest is q) *)
    destruct d as [|y d].
    + rewrite app_nil_r in He. subst p.
      replace (tl_enc t) with (tl_enc t ++ []) at 1 by apply app_nil_r.
      rewrite tl_dec_enc by exact Ht. reflexivity.
    + rewrite (tl_dec_strict_prefix t p (y :: d)); [reflexivity|now symmetry|discriminate].
Qed.

Lemma concat_lenN (bs : list bytes) : lenN (concat bs) = fold_right (fun b a => lenN b + a) 0 bs.
Proof. induction bs as [|b bs IH]; [reflexivity|]. cbn [concat fold_right]. rewrite <- IH, !lenN_spec, app_length. lia. Qed.

(* the whole inner loop on complete blocks followed by an incomplete one *)
Lemma parse_loop_blocks g nb : forall p fuel off acc,
  Forall wf_block nb -> incomplete p -> (length nb < fuel)%nat ->
  parse_loop g fuel off (concat nb ++ p) acc = (PBreak, off + lenN (concat nb), p, rev nb ++ acc).
Proof.
  induction nb as [|b nb IH]; intros p fuel off acc Hwf Hp Hf.
  - destruct fuel as [|f]; [lia|]. cbn [concat app rev]. rewrite parse_incomplete by exact Hp.
    replace (off + lenN []) with off by (cbv [lenN lenN_acc]; lia). reflexivity.
  - destruct fuel as [|f]; [cbn [length] in Hf; lia|].
    inversion Hwf as [|? ? Hb Hnb]; subst.
    destruct Hb as (t & v & -> & Ht & Hsz).
    cbn [concat]. rewrite <- app_assoc.
    rewrite parse_complete by assumption.
    rewrite IH; [|assumption|assumption|cbn [length] in Hf; lia].
    cbn [rev]. rewrite <- app_assoc. cbn [app].
    f_equal. f_equal. f_equal.
    rewrite !lenN_spec, app_length. lia.
Qed.

(* ------------------------------------------------------------------------------------------------ *)
(* any prefix of a concatenation of non-empty blocks = some complete leading blocks + a strict prefix of the next *)
Definition strictpre (p : bytes) (rs : list bytes) : Prop :=
  p = [] \/ exists b rs' q, rs = b :: rs' /\ b = p ++ q /\ q <> [].

Lemma prefix_decomp : forall (rs : list bytes) u rest,
  u ++ rest = concat rs ->
  exists nb rs' p', rs = nb ++ rs' /\ u = concat nb ++ p' /\ strictpre p' rs'.
Proof.
  induction rs as [|b rs IH]; intros u rest H.
  - cbn [concat] in H. apply app_eq_nil in H as [-> _]. exists [], [], []. split; [reflexivity|]. split; [reflexivity|now left].
  - cbn [concat] in H. destruct (app_eq_app _ _ _ _ H) as (d & [[Hu Hr]|[Hb Hr]]).
    + (* u = b ++ d *)
      symmetry in Hr. destruct (IH d rest Hr) as (nb & rs' & p' & Hrs & Hd & Hp).
      exists (b :: nb), rs', p'. subst u d rs. split; [reflexivity|]. split; [now cbn [concat]; rewrite app_assoc|exact Hp].
    + (* b = u ++ d *)
      destruct d as [|y d].
      * rewrite app_nil_r in Hb. subst u. exists [b], rs, []. split; [reflexivity|]. split; [cbn [concat]; now rewrite !app_nil_r|now left].
      * exists [], (b :: rs), u. split; [reflexivity|]. split; [reflexivity|].
        right. exists b, rs, (y :: d). split; [reflexivity|]. split; [exact Hb|discriminate].
Qed.

Lemma strictpre_incomplete p rs : Forall wf_block rs -> strictpre p rs -> incomplete p.
Proof.
  intros Hwf [->|(b & rs' & q & -> & -> & Hq)]; [now left|].
  right. exists q. inversion Hwf; subst. split; assumption.
Qed.

Lemma strictpre_short p rs : Forall wf_block rs -> strictpre p rs -> lenN p < c_MaxNDNPacketSize.
Proof.
  intros Hwf [->|(b & rs' & q & -> & -> & Hq)].
  - unfold c_MaxNDNPacketSize. cbv [lenN lenN_acc]. lia.
  - inversion Hwf as [|? ? (t & v & _ & _ & Hsz) _]; subst.
    rewrite lenN_spec in *. rewrite app_length in Hsz. destruct q; [congruence|]. cbn [length] in Hsz. lia.
Qed.

Lemma Forall_app_r {A} (P : A -> Prop) a b : Forall P (a ++ b) -> Forall P b.
Proof. intros H. apply Forall_app in H. tauto. Qed.
Lemma Forall_app_l {A} (P : A -> Prop) a b : Forall P (a ++ b) -> Forall P a.
Proof. intros H. apply Forall_app in H. tauto. Qed.

Lemma blocks_count_le (nb : list bytes) : Forall wf_block nb -> (length nb <= length (concat nb))%nat.
Proof.
  induction nb as [|b nb IH]; intros H; [cbn; lia|].
  inversion H as [|? ? Hb Hnb]; subst. cbn [concat length]. rewrite app_length.
  apply wf_block_len_ge2 in Hb. rewrite lenN_spec in Hb. specialize (IH Hnb). lia.
Qed.

(* one Read (err = nil) in a state whose buffer holds a strict prefix of the coming blocks *)
Lemma after_read_blocks g rs p chunk rest acc :
  Forall wf_block rs -> p ++ chunk ++ rest = concat rs ->
  exists nb rs' p', rs = nb ++ rs' /\ p ++ chunk = concat nb ++ p' /\ strictpre p' rs' /\
    after_read g (mkS 0 p) chunk acc = (PBreak, mkS 0 p', rev nb ++ acc).
Proof.
  intros Hwf H. rewrite app_assoc in H.
  destruct (prefix_decomp rs (p ++ chunk) rest H) as (nb & rs' & p' & Hrs & Hu & Hp).
  exists nb, rs', p'. split; [exact Hrs|]. split; [exact Hu|]. split; [exact Hp|].
  subst rs. assert (Hwn := Forall_app_l _ _ _ Hwf). assert (Hwr := Forall_app_r _ _ _ Hwf).
  unfold after_read. cbn [unread tlvOff]. rewrite Hu.
  rewrite parse_loop_blocks; [|exact Hwn|exact (strictpre_incomplete _ _ Hwr Hp)|].
  - pose proof (strictpre_short _ _ Hwr Hp) as Hs.
    replace (lenN p' <? c_MaxNDNPacketSize) with true by lia. reflexivity.
  - pose proof (blocks_count_le nb Hwn). rewrite app_length. lia.
Qed.

(* ------------------------------------------------------------------------------------------------ *)
(* C11: the run invariant.  ds = blocks delivered so far, rs = blocks not yet delivered. *)
Lemma takeN_0 (l : bytes) : takeN 0 l = [].
Proof. destruct l; reflexivity. Qed.
Lemma dropN_0 (l : bytes) : dropN 0 l = l.
Proof. destruct l; reflexivity. Qed.

(* the zero-length-read iteration on a buffer that holds a prefix of the coming blocks *)
Lemma settle_blocks g rs u rest acc :
  Forall wf_block rs -> u ++ rest = concat rs -> lenN u <= c_recvBufSize ->
  exists nb rs' u', rs = nb ++ rs' /\ u = concat nb ++ u' /\ u' ++ rest = concat rs' /\ Forall wf_block rs' /\
    settle g (mkS 0 u) acc = (PBreak, mkS 0 u', rev nb ++ acc) /\ lenN u' < c_recvBufSize /\
    (strictpre u rs -> nb = [] /\ u' = u).
Proof.
  intros Hwf Hcat Hle. unfold settle, recvOff. cbn [tlvOff unread].
  pose proof consts_buf_gt_max as Hbuf.
  destruct (c_recvBufSize - (0 + lenN u) =? 0) eqn:E.
  - assert (Hcat' : u ++ [] ++ rest = concat rs) by exact Hcat.
    destruct (after_read_blocks g rs u [] rest acc Hwf Hcat') as (nb & rs' & p' & Hrs & Hu & Hp' & Har).
    rewrite app_nil_r in Hu.
    assert (Hwr : Forall wf_block rs') by (subst rs; exact (Forall_app_r _ _ _ Hwf)).
    pose proof (strictpre_short _ _ Hwr Hp') as Hs.
    exists nb, rs', p'. split; [exact Hrs|]. split; [exact Hu|]. split.
    { subst rs. rewrite concat_app in Hcat. rewrite Hu, <- app_assoc in Hcat. now apply app_inv_head in Hcat. }
    split; [exact Hwr|]. split; [exact Har|]. split; [lia|].
    intros Hst. pose proof (strictpre_short _ _ Hwf Hst). lia.
  - exists [], rs, u. cbn [app concat rev]. repeat split; try assumption; try reflexivity. lia.
Qed.

(* C11: the run invariant.  ds = blocks delivered so far, rs = blocks not yet delivered, u = the buffer content: a prefix of the
   bytes of rs (the whole unparsed suffix of what has been received); after a successful read it is a strict prefix of the next
   block.  b = the buffer is settled on entry. *)
Lemma run_stream_blocks g : forall sched u rest ds rs consumed b,
  Forall wf_block rs -> u ++ rest = concat rs -> lenN u <= c_recvBufSize -> (b = true -> strictpre u rs) ->
  consumed = lenN (concat ds ++ u) ->
  exists ds' rs' u' rest' consumed',
    run_stream g sched (mkS 0 u) rest (rev ds) consumed = (SOk, ds', consumed', mkS 0 u') /\
    ds ++ rs = ds' ++ rs' /\ u' ++ rest' = concat rs' /\ Forall wf_block rs' /\
    consumed' = lenN (concat ds' ++ u') /\ lenN u' <= c_recvBufSize /\
    (settled_after b sched = true -> strictpre u' rs') /\ (exists mid, ds' = ds ++ mid).
Proof.
  induction sched as [|it sched IH]; intros u rest ds rs consumed b Hwf Hcat Hle Hb Hc.
  - exists ds, rs, u, rest, consumed. cbn [run_stream settled_after fold_left]. rewrite rev_involutive.
    split; [reflexivity|]. split; [reflexivity|]. split; [exact Hcat|]. split; [exact Hwf|]. split; [exact Hc|]. split; [exact Hle|].
    split; [exact Hb|]. exists []. now rewrite app_nil_r.
  - cbn [run_stream].
    destruct (settle_blocks g rs u rest (rev ds) Hwf Hcat Hle) as (nb0 & rs0 & u0 & Hrs0 & Hu0 & Hcat0 & Hwf0 & Hset & Hlt0 & Hkeep).
    rewrite Hset. unfold recvOff. cbn [tlvOff unread].
    replace (c_recvBufSize - (0 + lenN u0) =? 0) with false by lia.
    replace (rev nb0 ++ rev ds) with (rev (ds ++ nb0)) by apply rev_app_distr.
    assert (Hc0 : consumed = lenN (concat (ds ++ nb0) ++ u0)).
    { subst consumed. rewrite concat_app, <- app_assoc, <- Hu0. reflexivity. }
    assert (Hb0 : b = true -> strictpre u0 rs0).
    { intros E. destruct (Hkeep (Hb E)) as [-> ->]. cbn [app] in Hrs0. subst rs0. exact (Hb E). }
    destruct it as [k|k].
    + set (chunk := takeN (N.min k (c_recvBufSize - (0 + lenN u0))) rest).
      assert (Hrest : rest = chunk ++ dropN (lenN chunk) rest) by (symmetry; apply take_drop_N).
      assert (Hcat' : u0 ++ chunk ++ dropN (lenN chunk) rest = concat rs0) by (rewrite <- Hrest; exact Hcat0).
      destruct (after_read_blocks g rs0 u0 chunk (dropN (lenN chunk) rest) (rev (ds ++ nb0)) Hwf0 Hcat')
        as (nb & rs' & p' & Hrs & Hu & Hp' & Har).
      rewrite Har.
      assert (Hwr : Forall wf_block rs') by (subst rs0; exact (Forall_app_r _ _ _ Hwf0)).
      assert (Hcat2 : p' ++ dropN (lenN chunk) rest = concat rs').
      { subst rs0. rewrite concat_app in Hcat'. rewrite app_assoc, Hu, <- app_assoc in Hcat'. now apply app_inv_head in Hcat'. }
      replace (rev nb ++ rev (ds ++ nb0)) with (rev ((ds ++ nb0) ++ nb)) by apply rev_app_distr.
      assert (Hc2 : consumed + lenN chunk = lenN (concat ((ds ++ nb0) ++ nb) ++ p')).
      { rewrite Hc0. rewrite (concat_app (ds ++ nb0) nb), <- app_assoc, <- Hu, !lenN_spec, !app_length. lia. }
      pose proof (strictpre_short _ _ Hwr Hp') as Hsh. pose proof consts_buf_gt_max as Hbuf.
      destruct (IH p' (dropN (lenN chunk) rest) ((ds ++ nb0) ++ nb) rs' (consumed + lenN chunk) true Hwr Hcat2 ltac:(lia) (fun _ => Hp') Hc2)
        as (ds' & rs'' & u'' & rest' & consumed' & Hrun & Heq & Hcat3 & Hwf'' & Hc' & Hle' & Hst' & (mid & Hmid)).
      exists ds', rs'', u'', rest', consumed'.
      split; [exact Hrun|]. split; [rewrite <- Heq; subst rs rs0; now rewrite !app_assoc|].
      split; [exact Hcat3|]. split; [exact Hwf''|]. split; [exact Hc'|]. split; [exact Hle'|].
      split; [exact Hst'|]. exists (nb0 ++ nb ++ mid). rewrite Hmid. now rewrite !app_assoc.
    + set (chunk := takeN (N.min k (c_recvBufSize - (0 + lenN u0))) rest).
      assert (Hrest : rest = chunk ++ dropN (lenN chunk) rest) by (symmetry; apply take_drop_N).
      assert (Hcl : lenN chunk <= c_recvBufSize - lenN u0).
      { pose proof (takeN_length_le (N.min k (c_recvBufSize - (0 + lenN u0))) rest). fold chunk in H. lia. }
      assert (Hcat2 : (u0 ++ chunk) ++ dropN (lenN chunk) rest = concat rs0).
      { rewrite <- app_assoc, <- Hrest. exact Hcat0. }
      assert (Hle2 : lenN (u0 ++ chunk) <= c_recvBufSize) by (rewrite !lenN_spec, app_length in *; lia).
      assert (Hc2 : consumed + lenN chunk = lenN (concat (ds ++ nb0) ++ u0 ++ chunk)).
      { rewrite Hc0, !lenN_spec, !app_length. lia. }
      assert (Hb2 : b && (k =? 0) = true -> strictpre (u0 ++ chunk) rs0).
      { intros E. apply andb_true_iff in E as [E1 E2]. apply N.eqb_eq in E2. subst k.
        unfold chunk. rewrite N.min_0_l, takeN_0, app_nil_r. exact (Hb0 E1). }
      destruct (IH (u0 ++ chunk) (dropN (lenN chunk) rest) (ds ++ nb0) rs0 (consumed + lenN chunk) (b && (k =? 0)) Hwf0 Hcat2 Hle2 Hb2 Hc2)
        as (ds' & rs'' & u'' & rest' & consumed' & Hrun & Heq & Hcat3 & Hwf'' & Hc' & Hle' & Hst' & (mid & Hmid)).
      exists ds', rs'', u'', rest', consumed'.
      split; [exact Hrun|]. split; [rewrite <- Heq; subst rs; now rewrite !app_assoc|].
      split; [exact Hcat3|]. split; [exact Hwf''|]. split; [exact Hc'|]. split; [exact Hle'|].
      split; [exact Hst'|]. exists (nb0 ++ mid). rewrite Hmid. now rewrite !app_assoc.
Qed.

(* C11 core theorem, for EVERY read schedule - any chunking, zero-byte reads, failing reads that an ignoreError predicate
   accepts, with or without data arriving together with the error.  For every list of well-formed blocks (any number: the stream
   is unbounded, a run observes a finite prefix of it) the framer ends normally; the frames it handed up are a prefix of the blocks
   - byte-identical, in order, none lost, duplicated, split or merged; the buffer holds, at its front (tlvOff = 0), exactly the
   unparsed suffix u of the bytes received so far, which is a prefix of the bytes of the remaining blocks; and whenever the
   schedule leaves the buffer settled (its last data-carrying read was a successful one) u is a strict prefix of the next block. *)
Theorem framing_exact_lemma : forall bs sched, Forall wf_block bs ->
  exists frames rs u consumed,
    run true (concat bs) sched = (SOk, frames, consumed, mkS 0 u) /\
    bs = frames ++ rs /\
    firstn (N.to_nat consumed) (concat bs) = concat frames ++ u /\
    (exists rest, u ++ rest = concat rs) /\
    (settled_after true sched = true -> strictpre u rs).
Proof.
  intros bs sched Hwf. unfold run, s_init.
  assert (H0 : lenN [] <= c_recvBufSize) by (cbv [lenN lenN_acc]; lia).
  destruct (run_stream_blocks true sched [] (concat bs) [] bs 0 true Hwf eq_refl H0 (fun _ => or_introl eq_refl) eq_refl)
    as (ds' & rs' & u' & rest' & consumed' & Hrun & Heq & Hcat & Hwf' & Hc & _ & Hst & _).
  cbn [rev] in Hrun. exists ds', rs', u', consumed'. split; [exact Hrun|]. cbn [app] in Heq. split; [exact Heq|].
  split; [|split; [exists rest'; exact Hcat|exact Hst]].
  subst bs. rewrite concat_app, <- Hcat, app_assoc.
  rewrite Hc, lenN_spec, Nat2N.id, firstn_app, Nat.sub_diag, firstn_all. cbn [firstn]. now rewrite app_nil_r.
Qed.

(* when the whole stream has been consumed and the buffer is settled every block has been delivered *)
Corollary framing_complete_lemma : forall bs sched, Forall wf_block bs -> settled_after true sched = true ->
  snd (fst (run true (concat bs) sched)) = lenN (concat bs) ->
  fst (fst (fst (run true (concat bs) sched))) = SOk /\ snd (fst (fst (run true (concat bs) sched))) = bs.
Proof.
  intros bs sched Hwf Hset Hall.
  destruct (framing_exact_lemma bs sched Hwf) as (frames & rs & p & consumed & Hrun & Hbs & Hfirst & _ & Hp).
  specialize (Hp Hset).
  rewrite Hrun in *. cbn [fst snd] in *. split; [reflexivity|].
  subst consumed. rewrite lenN_spec, Nat2N.id, firstn_all in Hfirst.
  rewrite Hbs, concat_app in Hfirst. apply app_inv_head in Hfirst.
  destruct Hp as [->|(b & rs' & q & -> & -> & Hq)].
  - destruct rs as [|b rs]; [now rewrite app_nil_r in Hbs|].
    exfalso. cbn [concat] in Hfirst. apply app_eq_nil in Hfirst as [Hb _].
    rewrite Hbs in Hwf. apply Forall_app_r in Hwf. inversion Hwf; subst. now apply wf_block_nonnil in H1.
  - exfalso. cbn [concat] in Hfirst. rewrite <- app_assoc in Hfirst.
    rewrite <- (app_nil_r p) in Hfirst at 2. apply app_inv_head in Hfirst.
    apply app_eq_nil in Hfirst as [Hq' _]. contradiction.
Qed.

(* compaction never corrupts a partially received block / the buffer never fills: whenever the buffer is settled the parse
   offset is 0, fewer than MaxNDNPacketSize bytes are unread and the write offset is strictly inside the buffer; and in every
   case the buffer content stays within the buffer *)
Corollary compaction_safe_never_full_lemma : forall bs sched, Forall wf_block bs -> settled_after true sched = true ->
  let st := snd (run true (concat bs) sched) in
  tlvOff st = 0 /\ lenN (unread st) < c_MaxNDNPacketSize /\ recvOff st < c_recvBufSize.
Proof.
  intros bs sched Hwf Hset.
  destruct (framing_exact_lemma bs sched Hwf) as (frames & rs & p & consumed & Hrun & Hbs & _ & _ & Hp).
  specialize (Hp Hset).
  rewrite Hrun. cbn [snd tlvOff unread]. unfold recvOff. cbn [tlvOff unread].
  assert (Hwr : Forall wf_block rs) by (subst bs; exact (Forall_app_r _ _ _ Hwf)).
  pose proof (strictpre_short _ _ Hwr Hp). pose proof consts_buf_gt_max. repeat split; lia.
Qed.

(* schedules whose failing reads carry no data (what net.Conn does) always leave the buffer settled *)
Definition ign_nodata (it : rditem) : Prop := match it with RIgn k => k = 0 | RReq _ => True end.
Lemma ign_nodata_settled sched : Forall ign_nodata sched -> settled_after true sched = true.
Proof.
  unfold settled_after. induction sched as [|it sched IH]; intros H; [reflexivity|].
  inversion H as [|? ? Hit Hs]; subst. cbn [fold_left]. destruct it as [k|k]; cbn [settled_step]; [now apply IH|].
  cbn [ign_nodata] in Hit. subst k. cbn [andb N.eqb]. now apply IH.
Qed.

(* ------------------------------------------------------------------------------------------------ *)
(* the reference split used by the run-time oracle agrees with the theorem's decomposition *)
Lemma split_blocksN_spec bs : forall c, split_blocksN bs c = split_blocks bs (N.to_nat c).
Proof.
  induction bs as [|b bs IH]; intros c; [reflexivity|]. cbn [split_blocksN split_blocks].
  rewrite lenN_spec.
  destruct (N.of_nat (length b) <=? c) eqn:E.
  - replace (length b <=? N.to_nat c)%nat with true by (symmetry; apply Nat.leb_le; lia).
    rewrite IH. replace (N.to_nat (c - N.of_nat (length b))) with (N.to_nat c - length b)%nat by lia. reflexivity.
  - replace (length b <=? N.to_nat c)%nat with false by (symmetry; apply Nat.leb_gt; lia).
    now rewrite takeN_spec.
Qed.

Lemma split_blocks_char : forall ds rs p,
  Forall (fun b => b <> []) rs -> strictpre p rs -> split_blocks (ds ++ rs) (length (concat ds ++ p)) = (ds, p).
Proof.
  induction ds as [|b ds IH]; intros rs p Hne Hp.
  - cbn [app concat]. destruct Hp as [->|(b & rs' & q & -> & -> & Hq)].
    + destruct rs as [|b rs]; [reflexivity|]. cbn [split_blocks length].
      inversion Hne; subst. destruct b as [|x b]; [congruence|]. reflexivity.
    + cbn [split_blocks]. rewrite app_length.
      replace (length p + length q <=? length p)%nat with false
        by (symmetry; apply Nat.leb_gt; destruct q; [congruence|cbn [length]; lia]).
      rewrite firstn_app, Nat.sub_diag, firstn_all. cbn [firstn]. now rewrite app_nil_r.
  - cbn [app concat split_blocks]. rewrite <- app_assoc, app_length.
    replace (length b <=? length b + length (concat ds ++ p))%nat with true by (symmetry; apply Nat.leb_le; lia).
    replace (length b + length (concat ds ++ p) - length b)%nat with (length (concat ds ++ p)) by lia.
    now rewrite IH.
Qed.

(* ------------------------------------------------------------------------------------------------ *)
(* C04, stream part: arbitrary bytes, arbitrary schedules (current code: guard = true) *)
Definition frame_ok (f : bytes) : Prop := 2 <= lenN f <= c_MaxNDNPacketSize.

Lemma take_be_none_short k l : take_be k l = None -> (length l < k)%nat.
Proof. unfold take_be. destruct (k <=? length l)%nat eqn:E; [discriminate|]. intros _. apply Nat.leb_gt in E. exact E. Qed.

Lemma tl_dec_none_short l : tl_dec l = None -> (length l <= 8)%nat.
Proof.
  destruct l as [|x l]; [cbn; lia|]. cbn [tl_dec length].
  destruct (x <=? 252); [discriminate|].
  destruct (x =? 253); [intros H; apply take_be_none_short in H; lia|].
  destruct (x =? 254); intros H; apply take_be_none_short in H; lia.
Qed.

Lemma tl_dec_consumed l v r : tl_dec l = Some (v, r) -> (length l <= length r + 9)%nat.
Proof.
  destruct l as [|x l]; [discriminate|]. cbn [tl_dec length].
  destruct (x <=? 252); [intros H; inversion H; subst; lia|].
  destruct (x =? 253); [intros H; apply take_be_shorter in H; lia|].
  destruct (x =? 254); intros H; apply take_be_shorter in H; lia.
Qed.

Lemma parse_loop_total : forall fuel off un acc,
  (length un < fuel)%nat -> Forall frame_ok acc ->
  forall r off' un' acc', parse_loop true fuel off un acc = (r, off', un', acc') ->
  (r = PBreak \/ r = PErr) /\ (r = PBreak -> lenN un' < c_MaxNDNPacketSize) /\ Forall frame_ok acc' /\
  off' + lenN un' = off + lenN un.
Proof.
  induction fuel as [|f IH]; intros off un acc Hf Hacc r off' un' acc' H; [lia|].
  pose proof consts_max_ge_18 as H18. pose proof consts_max_small as Hms.
  cbn [parse_loop] in H.
  destruct (tl_dec un) as [[typ r1]|] eqn:E1.
  2:{ inversion H; subst. apply tl_dec_none_short in E1. rewrite lenN_spec.
      split; [now left|]. split; [intros _; lia|]. split; [assumption|reflexivity]. }
  destruct (tl_dec r1) as [[len r2]|] eqn:E2.
  2:{ inversion H; subst. apply tl_dec_none_short in E2. apply tl_dec_consumed in E1. rewrite lenN_spec.
      split; [now left|]. split; [intros _; lia|]. split; [assumption|reflexivity]. }
  cbn [andb] in H.
  destruct ((c_MaxNDNPacketSize <? len) || (Z.of_N c_MaxNDNPacketSize <? tlv_size typ len)%Z) eqn:G.
  { inversion H; subst. split; [now right|]. split; [discriminate|]. split; [assumption|reflexivity]. }
  apply Bool.orb_false_iff in G as [G1 G2].
  assert (Hlen : len <= c_MaxNDNPacketSize) by lia.
  rewrite tlv_size_small in * by lia.
  pose proof (tl_len_bound typ) as Hbt. pose proof (tl_len_bound len) as Hbl.
  set (sz := (Z.of_nat (tl_len typ) + Z.of_nat (tl_len len) + Z.of_N len)%Z) in *.
  destruct (sz <=? Z.of_N (lenN un))%Z eqn:Ea.
  - replace (sz <? 0)%Z with false in H by lia. replace (sz =? 0)%Z with false in H by lia.
    assert (Hk : (N.to_nat (Z.to_N sz) <= length un)%nat) by (rewrite lenN_spec in Ea; lia).
    assert (Hk2 : (2 <= N.to_nat (Z.to_N sz))%nat) by lia.
    specialize (IH (off + Z.to_N sz) (dropN (Z.to_N sz) un) (takeN (Z.to_N sz) un :: acc)).
    assert (Hd : length (dropN (Z.to_N sz) un) = (length un - N.to_nat (Z.to_N sz))%nat)
      by (rewrite dropN_spec, skipn_length; reflexivity).
    assert (Ht : length (takeN (Z.to_N sz) un) = N.to_nat (Z.to_N sz))
      by (rewrite takeN_spec, firstn_length_le; [reflexivity|exact Hk]).
    destruct (IH ltac:(lia) ltac:(constructor; [unfold frame_ok; rewrite lenN_spec, Ht; lia|exact Hacc]) r off' un' acc' H)
      as (Hr & Hb & Hfr & Hcons).
    split; [exact Hr|]. split; [exact Hb|]. split; [exact Hfr|].
    rewrite Hcons, !lenN_spec, Hd. lia.
  - destruct (Z.of_N c_MaxNDNPacketSize <? Z.of_N (lenN un))%Z eqn:Eb; inversion H; subst.
    + split; [now right|]. split; [discriminate|]. split; [assumption|reflexivity].
    + split; [now left|]. split; [intros _; lia|]. split; [assumption|reflexivity].
Qed.

Definition sinv (s : sstate) : Prop := tlvOff s = 0 /\ lenN (unread s) <= c_recvBufSize.

(* one Read (successful, possibly of zero bytes) from a state whose buffer content is at the front *)
Lemma after_read_total s chunk acc : sinv s -> lenN chunk <= c_recvBufSize - lenN (unread s) -> Forall frame_ok acc ->
  forall r s' acc', after_read true s chunk acc = (r, s', acc') ->
  (r = PBreak \/ r = PErr) /\ Forall frame_ok acc' /\ recvOff s' <= c_recvBufSize /\
  (r = PBreak -> tlvOff s' = 0 /\ lenN (unread s') < c_MaxNDNPacketSize).
Proof.
  intros [Hoff Hun] Hchunk Hacc r s' acc' H. unfold after_read in H.
  destruct (parse_loop true (S (length (unread s ++ chunk))) (tlvOff s) (unread s ++ chunk) acc) as [[[r1 off'] un'] acc1] eqn:Ep.
  destruct (parse_loop_total _ _ _ _ (Nat.lt_succ_diag_r _) Hacc _ _ _ _ Ep) as (Hr & Hb & Hfr & Hcons).
  assert (Hlu : lenN (unread s ++ chunk) = lenN (unread s) + lenN chunk) by (rewrite !lenN_spec, app_length; lia).
  destruct Hr as [-> | ->].
  - specialize (Hb eq_refl). replace (lenN un' <? c_MaxNDNPacketSize) with true in H by lia. inversion H; subst.
    pose proof consts_buf_gt_max. split; [now left|]. split; [exact Hfr|]. unfold recvOff. cbn [tlvOff unread].
    split; [lia|]. intros _. split; [reflexivity|exact Hb].
  - inversion H; subst. split; [now right|]. split; [exact Hfr|]. unfold recvOff. cbn [tlvOff unread]. split; [lia|discriminate].
Qed.

Lemma run_stream_total : forall sched s rest acc consumed,
  sinv s -> Forall frame_ok acc ->
  forall res frames c st, run_stream true sched s rest acc consumed = (res, frames, c, st) ->
  (res = SOk \/ res = SErrTooMuch) /\ Forall frame_ok frames /\ recvOff st <= c_recvBufSize.
Proof.
  induction sched as [|it sched IH]; intros s rest acc consumed Hinv Hacc res frames c st H.
  - cbn [run_stream] in H. inversion H; subst. destruct Hinv as [Hoff Hun].
    split; [now left|]. split; [now apply Forall_rev|]. unfold recvOff. lia.
  - cbn [run_stream] in H. pose proof consts_buf_gt_max as Hbuf.
    (* the zero-length-read iteration *)
    assert (Hset : exists r0 s0 acc0, settle true s acc = (r0, s0, acc0) /\ (r0 = PBreak \/ r0 = PErr) /\ Forall frame_ok acc0 /\
                   recvOff s0 <= c_recvBufSize /\ (r0 = PBreak -> sinv s0 /\ (c_recvBufSize - recvOff s0 =? 0) = false)).
    { unfold settle. destruct Hinv as [Hoff Hun]. unfold recvOff. rewrite Hoff.
      destruct (c_recvBufSize - (0 + lenN (unread s)) =? 0) eqn:E.
      - destruct (after_read true s [] acc) as [[r0 s0] acc0] eqn:Ea.
        destruct (after_read_total s [] acc (conj Hoff Hun) ltac:(cbv [lenN lenN_acc]; lia) Hacc _ _ _ Ea) as (Hr & Hf & Hro & Hpb).
        exists r0, s0, acc0. split; [reflexivity|]. split; [exact Hr|]. split; [exact Hf|]. split; [exact Hro|].
        intros Epb. destruct (Hpb Epb) as [H1 H2]. split; [split; [exact H1|lia]|]. unfold recvOff. rewrite H1. lia.
      - exists PBreak, s, acc. split; [reflexivity|]. split; [now left|]. split; [exact Hacc|].
        split; [lia|]. intros _. split; [split; assumption|]. rewrite Hoff. exact E. }
    destruct Hset as (r0 & s0 & acc0 & Hs & Hr0 & Hacc0 & Hro0 & Hpb0). rewrite Hs in H.
    destruct Hr0 as [-> | ->].
    2:{ inversion H; subst. split; [now right|]. split; [now apply Forall_rev|exact Hro0]. }
    destruct (Hpb0 eq_refl) as [[Hoff0 Hun0] Hfree]. rewrite Hfree in H.
    assert (Hro : recvOff s0 = lenN (unread s0)) by (unfold recvOff; rewrite Hoff0; lia).
    destruct it as [k|k].
    + set (chunk := takeN (N.min k (c_recvBufSize - recvOff s0)) rest) in *.
      assert (Hchunk : lenN chunk <= c_recvBufSize - lenN (unread s0)).
      { pose proof (takeN_length_le (N.min k (c_recvBufSize - recvOff s0)) rest) as Ht. fold chunk in Ht. lia. }
      destruct (after_read true s0 chunk acc0) as [[r s'] acc'] eqn:Ea.
      destruct (after_read_total s0 chunk acc0 (conj Hoff0 Hun0) Hchunk Hacc0 _ _ _ Ea) as (Hr & Hf & Hro' & Hpb).
      destruct Hr as [-> | ->].
      * destruct (Hpb eq_refl) as [H1 H2]. eapply (IH s'); [split; [exact H1|lia]|exact Hf|exact H].
      * inversion H; subst. split; [now right|]. split; [now apply Forall_rev|exact Hro'].
    + set (chunk := takeN (N.min k (c_recvBufSize - recvOff s0)) rest) in *.
      assert (Hchunk : lenN chunk <= c_recvBufSize - lenN (unread s0)).
      { pose proof (takeN_length_le (N.min k (c_recvBufSize - recvOff s0)) rest) as Ht. fold chunk in Ht. lia. }
      eapply (IH (mkS (tlvOff s0) (unread s0 ++ chunk))); [|exact Hacc0|exact H].
      split; cbn [tlvOff unread]; [exact Hoff0|]. rewrite !lenN_spec, app_length in *. lia.
Qed.

(* No byte stream and no read schedule - failing reads with or without data included - makes the framer panic or spin: it ends
   with nil (EOF) or with the "too large" error, every frame handed up is between 2 and MaxNDNPacketSize bytes, and the buffer
   offsets stay inside the buffer. *)
Theorem stream_total_lemma : forall stream sched,
  let '(res, frames, _, st) := run true stream sched in
  (res = SOk \/ res = SErrTooMuch) /\ Forall frame_ok frames /\ recvOff st <= c_recvBufSize.
Proof.
  intros stream sched. unfold run.
  destruct (run_stream true sched s_init stream [] 0) as [[[res frames] c] st] eqn:E.
  eapply (run_stream_total sched s_init stream [] 0); [split; cbn [s_init tlvOff unread]|constructor|exact E].
  - reflexivity.
  - cbv [lenN lenN_acc]. pose proof consts_buf_gt_max. lia.
Qed.

(* the code before the repair (guard = false): witnesses replayed on the real code in corpus/C04_face *)
Lemma stream_total_refuted_before_fix :
  (exists stream sched, fst (fst (fst (run false stream sched))) = SPanic) /\
  (exists stream sched, fst (fst (fst (run false stream sched))) = SSpin).
Proof.
  split.
  - exists [6; 255; 128;0;0;0;0;0;0;0; 1;2;3], [RReq 100]. vm_compute. reflexivity.   (* length 2^63: tlvSize < 0 *)
  - exists [6; 255; 255;255;255;255;255;255;255;246; 1;2;3], [RReq 100]. vm_compute. reflexivity. (* length 2^64-10: tlvSize = 0 *)
Qed.

(* A peer that uses a non-minimal number form is mis-framed (outside "well-formed"; recorded, not a violation):
   type 6 written as fd 00 06 makes the framer hand up the three type bytes as a frame. *)
Lemma nonminimal_misframed :
  exists stream sched, snd (fst (fst (run true stream sched))) = [[253;0;6]] /\ stream = [253;0;6; 1; 170].
Proof. exists [253;0;6;1;170], [RReq 100]. split; [vm_compute|]; reflexivity. Qed.

(* ------------------------------------------------------------------------------------------------ *)
(* application-side reader: frames = blocks, and a clean EOF *)
Lemma app_read_blocks : forall bs fuel acc, Forall wf_block bs -> (length bs < fuel)%nat ->
  app_read fuel (concat bs) acc = (AEnd true, rev acc ++ bs).
Proof.
  induction bs as [|b bs IH]; intros fuel acc Hwf Hf.
  - destruct fuel; [lia|]. cbn [concat app_read]. now rewrite app_nil_r.
  - destruct fuel as [|f]; [lia|]. inversion Hwf as [|? ? Hb Hbs]; subst.
    assert (Hne := wf_block_nonnil _ Hb).
    destruct Hb as (t & v & -> & Ht & Hsz).
    pose proof consts_max_small as Hms. pose proof (mk_block_length t v) as Hlb.
    pose proof (tl_len_bound t) as Hbt. pose proof (tl_len_bound (lenN v)) as Hbl.
    cbn [concat app_read].
    destruct (mk_block t v ++ concat bs) as [|x l] eqn:El.
    { apply app_eq_nil in El as [El _]. contradiction. }
    rewrite <- El. unfold mk_block at 1. rewrite <- !app_assoc.
    rewrite tl_dec_enc by exact Ht. rewrite tl_dec_enc by (unfold two64; lia).
    assert (Hw : wrap64 (Z.of_nat (tl_len t) + Z.of_nat (tl_len (lenN v)) + to_int64 (lenN v)) =
                 (Z.of_nat (tl_len t) + Z.of_nat (tl_len (lenN v)) + Z.of_N (lenN v))%Z).
    { rewrite <- tlv_size_small by lia. reflexivity. }
    rewrite Hw.
    replace (Z.of_nat (tl_len t) + Z.of_nat (tl_len (lenN v)) + Z.of_N (lenN v) <?
             Z.of_nat (tl_len t) + Z.of_nat (tl_len (lenN v)))%Z with false by lia.
    replace (lenN (v ++ concat bs) <? lenN v) with false by (rewrite !lenN_spec, app_length; lia).
    rewrite takeN_app_exact, dropN_app_exact.
    rewrite IH; [|assumption|cbn [length] in Hf; lia].
    cbn [rev]. rewrite <- app_assoc. reflexivity.
Qed.

Theorem app_framing_exact_lemma : forall bs, Forall wf_block bs -> app_frames (concat bs) = (AEnd true, bs).
Proof.
  intros bs Hwf. unfold app_frames. rewrite app_read_blocks; [reflexivity|exact Hwf|].
  pose proof (blocks_count_le bs Hwf). lia.
Qed.

(* decidable well-formedness (used for the non-vacuity example) *)
Lemma mk_block_wf t v : t < two64 -> lenN (mk_block t v) <= c_MaxNDNPacketSize -> wf_block (mk_block t v).
Proof. intros Ht Hs. exists t, v. repeat split; assumption. Qed.

(* ------------------------------------------------------------------------------------------------ *)
(* sender side of the stream face.  Obligation on StreamFace.Send: it is ATOMIC PER PACKET - the segments of one wire are
   written contiguously, so the byte stream is the concatenation of whole packets in some order.  Under that obligation the
   receiver gets exactly the packets sent: *)
Theorem send_atomic_delivers_lemma : forall (pkts : list (list bytes)),
  Forall (fun segs => wf_block (concat segs)) pkts ->
  app_frames (concat (map (@concat byte) pkts)) = (AEnd true, map (@concat byte) pkts).
Proof.
  intros pkts H. apply app_framing_exact_lemma. apply Forall_map. exact H.
Qed.

(* without it (a single-segment packet written between the two segments of another): blocks are split on the wire *)
Lemma send_interleaved_splits :
  let big := [[6; 4; 1; 2]; [3; 4]] in let small := [[5; 1; 9]] in
  snd (app_frames (concat [nth 0 big []; concat small; nth 1 big []])) <> [concat big; concat small] /\
  snd (app_frames (concat [nth 0 big []; concat small; nth 1 big []])) <> [concat small; concat big].
Proof. vm_compute. split; discriminate. Qed.

(* ------------------------------------------------------------------------------------------------ *)
(* expiry of an on-demand stream face (unicast-tcp-transport.go runReceive): every received frame moves the expiry to
   now + lifetime, `now` read AT THAT FRAME.  Times in any unit (Z). *)
Definition expiry_after (life t0 : Z) (arrivals : list Z) : Z := fold_left (fun _ t => (t + life)%Z) arrivals (t0 + life)%Z.

(* a stream whose frames arrive with gaps of at most the lifetime is never past its expiry when a frame arrives, however long
   it lasts *)
Fixpoint gaps_ok (life prev : Z) (arrivals : list Z) : Prop :=
  match arrivals with [] => True | t :: r => (prev <= t <= prev + life)%Z /\ gaps_ok life t r end.

Lemma stream_face_stays_up_lemma : forall life arrivals t0,
  (0 <= life)%Z -> gaps_ok life t0 arrivals ->
  forall k t, nth_error arrivals k = Some t -> (t <= expiry_after life t0 (firstn k arrivals))%Z.
Proof.
  intros life arrivals. induction arrivals as [|a r IH]; intros t0 Hl Hg k t Hk; [destruct k; discriminate|].
  destruct Hg as [Ha Hr]. destruct k as [|k]; cbn [nth_error firstn] in *.
  - inversion Hk; subst. unfold expiry_after. cbn [fold_left]. lia.
  - unfold expiry_after in *. cbn [fold_left]. apply (IH a Hl Hr k t Hk).
Qed.

(* reading the clock once per connection instead (expiry = t0 + life for ever): a frame arriving after t0 + life finds the face expired *)
Lemma clock_read_once_expires : exists life t0 arrivals, gaps_ok life t0 arrivals /\ exists t, In t arrivals /\ (t0 + life < t)%Z.
Proof. exists 10%Z, 0%Z, [6; 12]%Z. cbn. split; [lia|]. exists 12%Z. split; [tauto|lia]. Qed.

(* ------------------------------------------------------------------------------------------------ *)
(* every iteration leaves room: the state after ANY prefix of the schedule (i.e. after every iteration of the outer loop) has its
   unparsed bytes at the front of the buffer (tlvOff = 0, fewer than one packet of them), hence at least one whole packet of free
   space for the next Read - in particular when a block boundary falls exactly on the end of the buffer (nothing pending) the
   offsets have been reset.  A compaction rule that skips the reset when nothing is pending (tlvOff = recvOff = buffer size)
   violates exactly this. *)
Lemma consts_buf_two_packets : 2 * c_MaxNDNPacketSize <= c_recvBufSize.
Proof. vm_compute. discriminate. Qed.

Theorem every_iteration_leaves_room_lemma : forall bs sched k, Forall wf_block bs -> settled_after true (firstn k sched) = true ->
  let st := snd (run true (concat bs) (firstn k sched)) in
  tlvOff st = 0 /\ lenN (unread st) < c_MaxNDNPacketSize /\ c_MaxNDNPacketSize <= c_recvBufSize - recvOff st.
Proof.
  intros bs sched k Hwf Hset.
  destruct (compaction_safe_never_full_lemma bs (firstn k sched) Hwf Hset) as (H1 & H2 & H3).
  cbv zeta. split; [exact H1|]. split; [exact H2|].
  unfold recvOff in *. rewrite H1 in *. pose proof consts_buf_two_packets. lia.
Qed.

(* The full-buffer iteration is reachable and harmless (all numbers computed from the translated constants B = buffer size, Max =
   packet size): k + 1 blocks of n <= Max bytes each, k = B / n; a failing read that carries as much data as fits fills the buffer to the
   last byte (nothing parsed yet); the next Read gets an empty slice, the loop parses the k complete blocks and moves the rest to the
   front, and the following read - failing or not - gets the remaining bytes. *)
Lemma full_buffer_settles_lemma :
  let b := mk_block 6 (repeat 1 (N.to_nat (c_MaxNDNPacketSize - 10))) in
  let n := lenN b in
  let k := c_recvBufSize / n in
  let bs := repeat b (N.to_nat (k + 1)) in
  let big := 2 * c_recvBufSize in
  n <= c_MaxNDNPacketSize /\
  (let '(r, _, c, st) := run true (concat bs) [RIgn big] in (r, c, recvOff st)) = (SOk, c_recvBufSize, c_recvBufSize) /\
  (let '(r, fr, c, st) := run true (concat bs) [RIgn big; RIgn big] in (r, frames_eqb fr (repeat b (N.to_nat k)), c, recvOff st))
     = (SOk, true, (k + 1) * n, n) /\
  (let '(r, fr, c, st) := run true (concat bs) [RIgn big; RReq big] in (r, frames_eqb fr bs, c, recvOff st))
     = (SOk, true, (k + 1) * n, 0).
Proof. vm_compute. repeat split. discriminate. Qed.
