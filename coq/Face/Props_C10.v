(* Property C10 — link-layer fragmentation and reassembly reproduce every packet exactly.
   Only theorem statements closed by `exact`, each followed by Print Assumptions.
   Model: Face/Lp.v (fw/face/ndnlp-link-service.go sendPacket / handleIncomingFrame / reassemblePacket).
   send_packet mtu o seq tok inface mark wire = (frames handed to transport.sendFrame, next sequence number);
   o = (fragmentation enabled, incoming-face indication enabled); mark = the congestion mark attached (the packet's own, or
   1 when the link service decides to mark: that decision depends on time and socket queue length and is an input). *)
From Base Require Import Bytes VarNum.
From Face Require Import GenConsts Stream StreamProofs Lp LpProofs LpReasm LpTheorems LpTotal.
From Coq Require Import Permutation.
Open Scope N_scope.

(* Every frame handed to the transport fits the MTU - for every MTU (the statement's range 128..8800 is included; the bound
   65535 is where the reserved 3-byte length fields stop sufficing), every packet size, token, mark, incoming-face id,
   with fragmentation on or off.  All sizes at once, by arithmetic over the VarNum sizes (no sweep). *)
Theorem frames_fit : forall mtu o seq tok inface mark wire,
  (mtu <= 65535)%Z -> (zlen wire <= 65535)%Z ->
  Forall (fits mtu) (fst (send_packet mtu o seq tok inface mark wire)).
Proof. exact frames_fit_lemma. Qed.
Print Assumptions frames_fit.

(* The same over every history of a link service's send side.  The per-fragment reservation is a cached field
   (l.headerOverhead) recomputed by MakeNDNLPLinkService and by SetOptions (management faces/update) AFTER the new options
   are stored.  For every initial option set and every sequence of SetOptions / sequence-counter values / sends (each send
   with its own MTU): every frame of every send fits that send's MTU.  Invariant: cached reservation = reservation of the
   options in force (ls_inv). *)
Theorem frames_fit_histories : forall o0 evs, Forall ev_ok evs ->
  Forall send_ok (snd (ls_run (make_ls o0) evs [])).
Proof. exact frames_fit_histories_lemma. Qed.
Print Assumptions frames_fit_histories.

(* Why the order in SetOptions matters: a reservation computed from the OLD options (fragmentation off) with the NEW
   options in force (fragmentation on) overflows the MTU. *)
Theorem stale_reservation_overflows_mtu :
  let stale := mkLs (mkSo true false) (compute_header_overhead (mkSo false false)) 0 in
  existsb (fun f => (1500 <? zlen f)%Z) (fst (ls_send 1500 stale [0;0;1;2;3;4] None None (repeat 7 4000))) = true.
Proof. exact stale_reservation_overflows. Qed.
Print Assumptions stale_reservation_overflows_mtu.

(* ... in particular with the EFFECTIVE congestion mark: whatever the link service's own marking decision (an input: it
   depends on time and on the transport's send queue) and whatever the upstream mark, the budget is computed for the mark
   that is actually attached. *)
Theorem frames_fit_effective_mark : forall mark_decision upstream mtu o seq tok inface wire,
  (mtu <= 65535)%Z -> (zlen wire <= 65535)%Z ->
  Forall (fits mtu) (fst (send_packet mtu o seq tok inface (effective_mark mark_decision upstream) wire)).
Proof. exact (fun md up mtu o seq tok inface wire => frames_fit_lemma mtu o seq tok inface (effective_mark md up) wire). Qed.
Print Assumptions frames_fit_effective_mark.

(* A packet that fits - i.e. whose LpPacket (token, mark, incoming-face id, Fragment, no fragmentation fields) is no
   larger than the MTU - is sent as exactly one frame: that LpPacket.  The sequence counter is not consumed. *)
Theorem fits_one_frame : forall mtu o seq tok inface mark wire,
  fits mtu (lp_encode (mkLpf None None None tok (if o_ifi o then inface else None) None None mark (Some wire))) ->
  send_packet mtu o seq tok inface mark wire =
    ([lp_encode (mkLpf None None None tok (if o_ifi o then inface else None) None None mark (Some wire))], seq).
Proof.
  exact (fun mtu o seq tok inface mark wire H =>
           fits_one_frame_lemma mtu o seq tok inface mark wire (proj2 (single_frame_fits_spec mtu o tok inface mark wire) H)).
Qed.
Print Assumptions fits_one_frame.

(* With fragmentation disabled a packet that does not fit is dropped: no frame at all - never a truncated one. *)
Theorem nofrag_oversize_dropped_not_truncated : forall mtu o seq tok inface mark wire,
  single_frame_fits mtu o tok inface mark wire = false -> o_frag o = false ->
  send_packet mtu o seq tok inface mark wire = ([], seq).
Proof. exact nofrag_oversize_dropped_lemma. Qed.
Print Assumptions nofrag_oversize_dropped_not_truncated.

(* The peer decodes what the sender encodes (for every frame the sender can build). *)
Theorem frame_decode_encode : forall l3 f, sendable f -> pkt_decode l3 (lp_encode f) = DecOk (DPkt None None (Some f)).
Proof. exact decode_encode. Qed.
Print Assumptions frame_decode_encode.

(* Core theorem.  Any number of packets (1..MaxNDNPacketSize bytes, PIT token of at most 32 bytes, any congestion mark and
   incoming-face id, pairwise different sequence-counter values) sent on a face with any MTU >= 128 and fragmentation
   enabled; ALL their frames delivered to the peer in ANY order and interleaving (any permutation).  Then the peer never
   fails, hands up exactly the original packets - each exactly once, byte-identical, with its PIT token and congestion
   mark (a permutation of the list sent) - and its partial-message store is empty again.  Sequence arithmetic is mod 2^64. *)
Theorem reassembly_any_interleaving : forall l3 mtu o msgs frames,
  (128 <= mtu)%Z -> o_frag o = true -> Forall msg_ok msgs -> NoDup (map s_seq msgs) ->
  Permutation (concat (map (frames_of_msg mtu o) msgs)) frames ->
  exists store ups,
    link_run_bytes l3 [] [] frames = Some (store, ups) /\
    (forall b, st_get b store = None) /\
    Permutation ups (map (fun x => (s_wire x, s_tok x, s_mark x)) msgs).
Proof. exact reassembly_any_interleaving_lemma. Qed.
Print Assumptions reassembly_any_interleaving.

(* The receiver's bound on FragCount (maxFragCount, translated from the tree) is at least the number of fragments the sender
   produces, for every admissible MTU, option setting, token, mark, incoming-face id and packet: no legitimate frame is
   rejected for its FragCount. *)
Theorem sender_count_le_receiver_bound : forall mtu o sq tok inface mark wire,
  (128 <= mtu)%Z -> (length tok <= 32)%nat -> (1 <= zlen wire <= Z.of_N c_MaxNDNPacketSize)%Z -> sq < two64 ->
  N.of_nat (length (fst (send_fields mtu o sq tok inface mark wire))) <= c_maxFragCount.
Proof. exact sender_count_le_receiver_bound_lemma. Qed.
Print Assumptions sender_count_le_receiver_bound.

(* link_run_bytes is the reassembly step of handleIncomingFrame (the rest is the inner parse and thread dispatch) *)
Theorem link_step_is_handle_frame : forall c inner st i d f frame, r_reasm c = true ->
  handle_frame true c inner st (DPkt i d (Some f)) frame =
  match link_rx (r_store st) f with
  | LPanic => HPanic
  | LDrop s => HOk (mkRs s (r_nI st) (r_nD st)) []
  | LUp s payload =>
    match inner payload with
    | DErr => HOk (mkRs s (r_nI st) (r_nD st)) []
    | DPkt i' d' _ => dispatch true c (mkRs s (r_nI st) (r_nD st)) i' d' payload (f_tok f) (f_mark f)
                               (if r_ccf c then f_nexthop f else None) (if r_lcp c then f_cachepol f else None)
    end
  end.
Proof. exact handle_frame_link_rx. Qed.
Print Assumptions link_step_is_handle_frame.

(* Exactly once at the forwarder: whatever dispatch queues for one packet, counted over ALL forwarding threads, satisfies
   dl_once_ok: no thread gets it twice; an Interest goes to one thread; a Data with a 6-byte PIT token of ours goes to exactly
   the thread the token names and nowhere else (to none if that thread does not exist); other Data once per prefix thread.
   dl_once_ok is the predicate the runner evaluates on the implementation's recording threads after every frame. *)
Theorem delivered_once_per_thread : forall c st i d raw tok mark nh cp st' out,
  dispatch true c st i d raw tok mark nh cp = HOk st' out -> dl_once_ok (r_nthreads c) out = true.
Proof. exact dispatch_once_lemma. Qed.
Print Assumptions delivered_once_per_thread.

(* The statement was false for the code before the repair: 3061-byte packet, MTU 1500, a 6-byte outgoing token - a frame
   larger than the MTU, and fragments without FragIndex/FragCount (replayed on the old code: docs/C10.md). *)
Theorem frames_fit_refuted_before_fix :
  let fs := send_fields_old 1500 (mkSo true false) 0 false [0;0;1;2;3;4] None None (repeat 7 3061) in
  existsb (fun f => (1500 <? zlen (lp_encode f))%Z) fs = true /\ forallb (fun f => match f_idx f with None => true | Some _ => false end) fs = true.
Proof. exact LpTotal.frames_fit_refuted_before_fix. Qed.
Print Assumptions frames_fit_refuted_before_fix.

(* non-vacuity: two packets (300 bytes with a token and a mark, 700 bytes) on MTU 128, sequence numbers wrapping at 2^64;
   frames interleaved in reverse order: both are handed up intact and the store is empty *)
Example c10_example :
  let o := mkSo true true in
  let m1 := mkSm 18446744073709551614 [0;0;9;9;9;9] (Some 300) (Some 1) (repeat 7 300) in
  let m2 := mkSm 5 [] None None (repeat 9 700) in
  Forall msg_ok [m1; m2] /\
  length (frames_of_msg 128 o m1) = 5%nat /\
  exists store, link_run_bytes (fun _ => DErr) [] [] (rev (frames_of_msg 128 o m1 ++ frames_of_msg 128 o m2)) =
                Some (store, [(s_wire m1, s_tok m1, s_mark m1); (s_wire m2, s_tok m2, s_mark m2)]) /\ store = [].
Proof.
  cbv zeta. split; [|split].
  - repeat (apply Forall_cons; [unfold msg_ok; cbn [s_wire s_tok s_seq s_inface s_mark olt length]; repeat split;
                                 try (vm_compute; (reflexivity || discriminate)); try exact I; repeat constructor|]). apply Forall_nil.
  - vm_compute. reflexivity.
  - eexists. vm_compute. split; reflexivity.
Qed.
