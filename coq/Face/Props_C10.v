(* placeholder until LpProofs lands *)
From Base Require Import Bytes VarNum.
From Face Require Import GenConsts Stream Lp.
Open Scope N_scope.
Example c10_example : length (fst (send_packet 128 (mkSo true false) 5 [] None None (repeat 7 300))) = 3%nat.
Proof. vm_compute. reflexivity. Qed.
