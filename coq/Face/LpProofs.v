(* Face/LpProofs.v — proofs about the link-service model (Lp.v): C10 send side (frames_fit, fits_one_frame,
   nofrag_oversize_dropped), encode/decode round trip, and chunking lemmas used by the reassembly proof (LpReasm.v). *)
From Base Require Import Bytes VarNum.
From Face Require Import GenConsts Stream StreamProofs Lp.
From Coq Require Import ZifyBool ZifyN ZifyNat Lia.
Open Scope N_scope.

(* ------------------------------------------------------------------------------------------------ *)
(* the facts about the translated constants that the proofs use (re-checked whenever GenConsts.v changes) *)
Lemma consts_header_frag : forall ifi : bool, 4 + 4 + 18 + (if ifi then 12 else 0) <= c_headerOverhead true ifi.
Proof. intros [|]; vm_compute; discriminate. Qed.
Lemma consts_header_small : forall fr ifi : bool, c_headerOverhead fr ifi <= 38.
Proof. intros [|] [|]; vm_compute; discriminate. Qed.
Lemma consts_mark : 12 <= c_congestionMarkOverhead <= 12.
Proof. split; vm_compute; discriminate. Qed.
Lemma consts_maxfrag : c_MaxNDNPacketSize <= c_maxFragCount * 32.
Proof. vm_compute. discriminate. Qed.
Lemma consts_maxfrag_small : c_maxFragCount < 65536.
Proof. reflexivity. Qed.

(* ------------------------------------------------------------------------------------------------ *)
(* sizes *)
Lemma zlen_app a b : zlen (a ++ b) = (zlen a + zlen b)%Z.
Proof. unfold zlen. rewrite !lenN_spec, app_length. lia. Qed.
Lemma zlen_nil : zlen [] = 0%Z.
Proof. reflexivity. Qed.
Lemma zlen_nonneg a : (0 <= zlen a)%Z.
Proof. unfold zlen. lia. Qed.
Lemma zlen_length a : zlen a = Z.of_nat (length a).
Proof. unfold zlen. rewrite lenN_spec. lia. Qed.
Lemma ztl_zlen v : ztl (zlen v) = Z.of_nat (tl_len (lenN v)).
Proof. unfold ztl, zlen. now rewrite N2Z.id. Qed.

Lemma zlen_tlv typ v : zlen (tlv typ v) = (Z.of_nat (tl_len typ) + ztl (zlen v) + zlen v)%Z.
Proof. unfold tlv. rewrite !zlen_app, ztl_zlen, !zlen_length, !tl_enc_length. lia. Qed.

Lemma nat_len_bound n : (1 <= nat_len n <= 8)%nat.
Proof. unfold nat_len. destruct (n <=? 255); [lia|]. destruct (n <=? 65535); [lia|]. destruct (n <=? 4294967295); lia. Qed.
Lemma nat_len_small n : n <= 65535 -> (nat_len n <= 2)%nat.
Proof. intros H. unfold nat_len. destruct (n <=? 255) eqn:E; [lia|]. replace (n <=? 65535) with true by lia. lia. Qed.
Lemma tl_len_small n : n <= 65535 -> (tl_len n <= 3)%nat.
Proof. intros H. unfold tl_len. destruct (n <=? 252); [lia|]. replace (n <=? 65535) with true by lia. lia. Qed.
Lemma tl_len_tiny n : n <= 252 -> tl_len n = 1%nat.
Proof. intros H. unfold tl_len. now replace (n <=? 252) with true by lia. Qed.
Lemma ztl_mono_small z : (0 <= z <= 65535)%Z -> (1 <= ztl z <= 3)%Z.
Proof. intros H. unfold ztl. pose proof (tl_len_small (Z.to_N z) ltac:(lia)). pose proof (tl_len_bound (Z.to_N z)). lia. Qed.

Lemma zlen_nat_enc n : zlen (nat_enc n) = znat n.
Proof. unfold znat. rewrite zlen_length, nat_enc_length. reflexivity. Qed.
Lemma zlen_be k n : zlen (be k n) = Z.of_nat k.
Proof. now rewrite zlen_length, be_length. Qed.

(* a TLV whose value is an encoded natural number: type length + 1 + value length *)
Lemma zlen_tlv_nat typ n : zlen (tlv typ (nat_enc n)) = (Z.of_nat (tl_len typ) + 1 + znat n)%Z.
Proof.
  rewrite zlen_tlv, ztl_zlen, zlen_nat_enc. unfold znat.
  pose proof (nat_len_bound n). rewrite (tl_len_tiny (lenN (nat_enc n))); [lia|]. rewrite lenN_spec, nat_enc_length. lia.
Qed.

Lemma zlen_tok tok : zlen (tok_tlv tok) = token_len tok.
Proof.
  destruct tok as [|x t]; [reflexivity|]. unfold token_len, tok_tlv. rewrite zlen_tlv. change (tl_len T_TOK) with 1%nat. lia.
Qed.

Definition hdr_inface (o : option N) : Z := match o with Some i => (3 + 1 + znat i)%Z | None => 0%Z end.
Lemma zlen_opt_inface o : zlen (opt_tlv T_INFACE (option_map nat_enc o)) = hdr_inface o.
Proof. destruct o as [i|]; [|reflexivity]. cbn [option_map opt_tlv hdr_inface]. rewrite zlen_tlv_nat. change (tl_len T_INFACE) with 3%nat. lia. Qed.
Lemma zlen_opt_mark o : zlen (opt_tlv T_MARK (option_map nat_enc o)) = hdr_inface o.
Proof. destruct o as [i|]; [|reflexivity]. cbn [option_map opt_tlv hdr_inface]. rewrite zlen_tlv_nat. change (tl_len T_MARK) with 3%nat. lia. Qed.
Lemma hdr_inface_bound o : (0 <= hdr_inface o <= 12)%Z.
Proof. destruct o as [i|]; cbn [hdr_inface]; [|lia]. unfold znat. pose proof (nat_len_bound i). lia. Qed.

(* exact size of a frame without fragmentation fields *)
Lemma zlen_single tok inface mark wire :
  zlen (lp_encode (mkLpf None None None tok inface None None mark (Some wire))) =
  lp_frame_length (token_len tok + hdr_inface inface + hdr_inface mark) (zlen wire).
Proof.
  unfold lp_encode, lp_inner. cbn [f_seq f_idx f_cnt f_tok f_inface f_mark f_frag option_map opt_tlv app].
  rewrite zlen_tlv. change (tl_len T_LP) with 1%nat.
  rewrite !zlen_app, zlen_tok, zlen_opt_inface, zlen_opt_mark, zlen_tlv. change (tl_len T_FRAG) with 1%nat.
  unfold lp_frame_length.
  match goal with |- (_ + ztl ?a + _ = _ + ztl ?b + _)%Z => replace a with b by lia end. lia.
Qed.

Lemma exact_header_eq o tok inface mark :
  exact_header o tok inface mark = (token_len tok + hdr_inface (if o_ifi o then inface else None) + hdr_inface mark)%Z.
Proof. unfold exact_header. destruct inface as [i|], (o_ifi o), mark as [m|]; cbn [hdr_inface]; lia. Qed.

(* size of a fragment frame *)
Lemma zlen_fragment sq idx cnt tok inface mark c :
  zlen (lp_encode (mkLpf (Some sq) (Some idx) (Some cnt) tok inface None None mark (Some c))) =
  (let inner := (10 + (1 + 1 + znat idx) + (1 + 1 + znat cnt) + token_len tok + hdr_inface inface + hdr_inface mark
                 + (1 + ztl (zlen c) + zlen c))%Z in 1 + ztl inner + inner)%Z.
Proof.
  unfold lp_encode, lp_inner. cbn [f_seq f_idx f_cnt f_tok f_inface f_mark f_frag option_map opt_tlv].
  rewrite zlen_tlv. change (tl_len T_LP) with 1%nat.
  rewrite !zlen_app, zlen_tok, zlen_opt_inface, zlen_opt_mark, !zlen_tlv_nat, !zlen_tlv, zlen_be.
  change (tl_len T_FRAG) with 1%nat. change (tl_len T_SEQ) with 1%nat. change (tl_len T_IDX) with 1%nat. change (tl_len T_CNT) with 1%nat.
  replace (ztl (Z.of_nat 8)) with 1%Z by reflexivity.
  cbv zeta.
  match goal with |- (_ + ztl ?a + _ = _ + ztl ?b + _)%Z => replace a with b by lia end. lia.
Qed.

Lemma token_len_nonneg tok : (0 <= token_len tok)%Z.
Proof. destruct tok; cbn [token_len]; [lia|]. unfold ztl. pose proof (zlen_nonneg (b :: tok)). lia. Qed.

(* ------------------------------------------------------------------------------------------------ *)
(* chunking *)
Lemma chunk_list_length n eff w : length (chunk_list n eff w) = n.
Proof.
  revert w. induction n as [|n IH]; intros w; [reflexivity|]. destruct n as [|n']; [reflexivity|].
  change (chunk_list (S (S n')) eff w) with (takeN eff w :: chunk_list (S n') eff (dropN eff w)).
  cbn [length]. now rewrite IH.
Qed.

Lemma take_drop_app n (l : bytes) : takeN n l ++ dropN n l = l.
Proof. rewrite takeN_spec, dropN_spec. apply firstn_skipn. Qed.

Lemma chunk_list_concat n eff w : (1 <= n)%nat -> concat (chunk_list n eff w) = w.
Proof.
  revert w. induction n as [|n IH]; intros w Hn; [lia|]. destruct n as [|n'].
  - cbn. apply app_nil_r.
  - change (chunk_list (S (S n')) eff w) with (takeN eff w :: chunk_list (S n') eff (dropN eff w)).
    cbn [concat]. rewrite IH by lia. apply take_drop_app.
Qed.

Lemma lenN_takeN n l : lenN (takeN n l) = N.min n (lenN l).
Proof. rewrite takeN_spec, !lenN_spec, firstn_length. lia. Qed.
Lemma lenN_dropN n l : lenN (dropN n l) = lenN l - n.
Proof. rewrite dropN_spec, !lenN_spec, skipn_length. lia. Qed.

Lemma chunk_list_sizes n eff : forall w, lenN w <= N.of_nat n * eff ->
  Forall (fun c => lenN c <= eff) (chunk_list n eff w).
Proof.
  induction n as [|n IH]; intros w H; [constructor|]. destruct n as [|n'].
  - constructor; [lia|constructor].
  - change (chunk_list (S (S n')) eff w) with (takeN eff w :: chunk_list (S n') eff (dropN eff w)).
    constructor; [rewrite lenN_takeN; lia|]. apply IH. rewrite lenN_dropN. lia.
Qed.

Lemma nonempty_len c : nonempty c = true <-> 1 <= lenN c.
Proof. rewrite lenN_spec. destruct c; cbn; split; intros; try lia; try discriminate; reflexivity. Qed.

Lemma chunk_list_nonempty n eff : forall w, 1 <= eff -> N.of_nat (n - 1) * eff < lenN w ->
  Forall (fun c => nonempty c = true) (chunk_list n eff w).
Proof.
  induction n as [|n IH]; intros w He H; [constructor|]. destruct n as [|n'].
  - constructor; [apply nonempty_len; lia|constructor].
  - change (chunk_list (S (S n')) eff w) with (takeN eff w :: chunk_list (S n') eff (dropN eff w)).
    constructor.
    + apply nonempty_len. rewrite lenN_takeN. replace (S (S n') - 1)%nat with (S n') in H by lia. lia.
    + apply IH; [exact He|]. rewrite lenN_dropN. replace (S (S n') - 1)%nat with (S n') in H by lia.
      replace (S n' - 1)%nat with n' by lia. lia.
Qed.

(* number of fragments n = ceil(len / eff) *)
Lemma ceil_div_facts (w eff : Z) : (1 <= eff)%Z -> (0 <= w)%Z ->
  let n := ((w + eff - 1) / eff)%Z in (0 <= n /\ w <= n * eff /\ (1 <= w -> (n - 1) * eff < w /\ 1 <= n) /\ n <= w)%Z.
Proof.
  intros He Hw n. subst n.
  pose proof (Z.div_mod (w + eff - 1) eff ltac:(lia)) as Hd.
  pose proof (Z.mod_pos_bound (w + eff - 1) eff ltac:(lia)) as Hm.
  set (q := ((w + eff - 1) / eff)%Z) in *. set (r := ((w + eff - 1) mod eff)%Z) in *.
  assert (0 <= q)%Z by (apply Z.div_pos; lia).
  repeat split; try nia.
Qed.

(* ------------------------------------------------------------------------------------------------ *)
(* shape of number_frags *)
Lemma number_frags_forall (Q : lpf -> Prop) seq cnt tok inface mark : forall cs i,
  (forall k c, nth_error cs k = Some c ->
     Q (mkLpf (Some (u64 (seq + (i + N.of_nat k)))) (Some (i + N.of_nat k)) (Some cnt) tok inface None None mark (Some c))) ->
  Forall Q (number_frags seq i cnt tok inface mark cs).
Proof.
  induction cs as [|c cs IH]; intros i H; [constructor|]. cbn [number_frags]. constructor.
  - specialize (H 0%nat c eq_refl). now rewrite N.add_0_r in H.
  - apply IH. intros k c' Hk. specialize (H (S k) c' Hk).
    replace (i + 1 + N.of_nat k) with (i + N.of_nat (S k)) by lia. exact H.
Qed.

(* ------------------------------------------------------------------------------------------------ *)
(* C10 send side *)
Definition fits (mtu : Z) (f : bytes) : Prop := (zlen f <= mtu)%Z.

(* the cached reservation is sufficient for the options in force *)
Definition hdr_ok (o : sopts) (hdr : N) : Prop :=
  o_frag o = true -> 4 + 4 + 18 + (if o_ifi o then 12 else 0) <= hdr.

Lemma hdr_ok_computed o : hdr_ok o (compute_header_overhead o).
Proof. intros Hfr. unfold compute_header_overhead. rewrite Hfr. apply consts_header_frag. Qed.

(* every frame handed to the transport fits the MTU, for any cached reservation that is sufficient for the options.
   No lower bound on the MTU is needed for this half; the upper bounds are those under which the reserved 3-byte
   length fields and 2-byte fragment numbers suffice. *)
Lemma frames_fit_h : forall mtu hdr o seq tok inface mark wire,
  hdr_ok o hdr -> (mtu <= 65535)%Z -> (zlen wire <= 65535)%Z ->
  Forall (fits mtu) (map lp_encode (fst (send_fields_h mtu (Z.of_N hdr) o seq tok inface mark wire))).
Proof.
  intros mtu hdr o seq tok inface mark wire Hhdr Hmtu Hw.
  unfold send_fields_h.
  destruct (lp_frame_length (exact_header o tok inface mark) (zlen wire) <=? mtu)%Z eqn:Efit.
  { cbn [fst map]. constructor; [|constructor]. unfold fits. rewrite zlen_single, <- exact_header_eq. lia. }
  destruct (negb (o_frag o)) eqn:Efrag; [constructor|].
  destruct (effective_mtu_h mtu (Z.of_N hdr) tok mark <=? 0)%Z eqn:Eeff; [constructor|].
  cbn [fst]. apply Forall_map.
  set (eff := effective_mtu_h mtu (Z.of_N hdr) tok mark) in *.
  set (n := ((zlen wire + eff - 1) / eff)%Z).
  pose proof (zlen_nonneg wire) as Hw0.
  destruct (ceil_div_facts (zlen wire) eff ltac:(lia) Hw0) as (Hn0 & Hcover & _ & Hnw). fold n in Hn0, Hcover, Hnw.
  assert (Hsizes : Forall (fun c => lenN c <= Z.to_N eff) (chunk_list (Z.to_nat n) (Z.to_N eff) wire)).
  { apply chunk_list_sizes. unfold zlen in *. nia. }
  apply number_frags_forall. intros k c Hk.
  assert (Hkn : (k < Z.to_nat n)%nat).
  { assert (Hk' : nth_error (chunk_list (Z.to_nat n) (Z.to_N eff) wire) k <> None) by congruence.
    apply nth_error_Some in Hk'. now rewrite chunk_list_length in Hk'. }
  assert (Hc : lenN c <= Z.to_N eff).
  { rewrite Forall_forall in Hsizes. apply Hsizes. eapply nth_error_In; exact Hk. }
  unfold fits. rewrite N.add_0_l, zlen_fragment. cbv zeta.
  (* the budget *)
  assert (Hfr : o_frag o = true) by (destruct (o_frag o); [reflexivity|discriminate]).
  specialize (Hhdr Hfr).
  unfold eff, effective_mtu_h in *.
  pose proof consts_mark as Hm.
  pose proof (token_len_nonneg tok) as Ht.
  pose proof (hdr_inface_bound (if o_ifi o then inface else None)) as Hi.
  assert (Hi' : (hdr_inface (if o_ifi o then inface else None) <= (if o_ifi o then 12 else 0))%Z)
    by (destruct (o_ifi o); [lia|cbn; lia]).
  pose proof (hdr_inface_bound mark) as Hmk.
  assert (Hmk' : (hdr_inface mark <= match mark with Some _ => Z.of_N c_congestionMarkOverhead | None => 0 end)%Z)
    by (destruct mark; [lia|cbn; lia]).
  assert (Hidx : (znat (N.of_nat k) <= 2)%Z) by (unfold znat; pose proof (nat_len_small (N.of_nat k) ltac:(lia)); lia).
  assert (Hcnt : (znat (Z.to_N n) <= 2)%Z) by (unfold znat; pose proof (nat_len_small (Z.to_N n) ltac:(lia)); lia).
  assert (Hzc : (0 <= zlen c <= 65535)%Z) by (unfold zlen; lia).
  pose proof (ztl_mono_small (zlen c) Hzc) as Htc.
  set (inner := (10 + (1 + 1 + znat (N.of_nat k)) + (1 + 1 + znat (Z.to_N n)) + token_len tok +
                 hdr_inface (if o_ifi o then inface else None) + hdr_inface mark + (1 + ztl (zlen c) + zlen c))%Z).
  assert (Hinner : (0 <= inner <= mtu - 4)%Z).
  { unfold inner. unfold zlen in *. unfold znat in *. pose proof (nat_len_bound (N.of_nat k)). pose proof (nat_len_bound (Z.to_N n)).
    destruct (o_ifi o); destruct mark; lia. }
  pose proof (ztl_mono_small inner ltac:(lia)). lia.
Qed.

Theorem frames_fit_lemma : forall mtu o seq tok inface mark wire,
  (mtu <= 65535)%Z -> (zlen wire <= 65535)%Z ->
  Forall (fits mtu) (fst (send_packet mtu o seq tok inface mark wire)).
Proof.
  intros mtu o seq tok inface mark wire Hmtu Hw.
  pose proof (frames_fit_h mtu (compute_header_overhead o) o seq tok inface mark wire (hdr_ok_computed o) Hmtu Hw) as H.
  unfold send_packet, send_fields. now destruct (send_fields_h mtu (Z.of_N (compute_header_overhead o)) o seq tok inface mark wire).
Qed.

(* histories: the cached reservation always is the one of the options in force (MakeNDNLPLinkService and SetOptions
   store the options and THEN recompute it), so every frame of every send of every history fits the MTU of that send *)
Definition ls_inv (l : lsend) : Prop := ls_hdr l = compute_header_overhead (ls_opts l).

Lemma ls_inv_make o : ls_inv (make_ls o).
Proof. reflexivity. Qed.
Lemma ls_inv_set l o : ls_inv (set_options l o).
Proof. reflexivity. Qed.

Definition send_ok (x : Z * list bytes) : Prop := Forall (fits (fst x)) (snd x).
Definition ev_ok (e : lsev) : Prop :=
  match e with EvSend mtu _ _ _ wire => (mtu <= 65535)%Z /\ (zlen wire <= 65535)%Z | _ => True end.

Lemma ls_run_fit : forall evs l acc, ls_inv l -> Forall ev_ok evs -> Forall send_ok acc ->
  ls_inv (fst (ls_run l evs acc)) /\ Forall send_ok (snd (ls_run l evs acc)).
Proof.
  induction evs as [|e evs IH]; intros l acc Hl Hev Hacc.
  - cbn [ls_run fst snd]. split; [exact Hl|]. now apply Forall_rev.
  - inversion Hev as [|? ? He Hev']; subst. destruct e as [o|s|mtu tok inface mark wire]; cbn [ls_run].
    + apply IH; [apply ls_inv_set|exact Hev'|exact Hacc].
    + apply IH; [exact Hl|exact Hev'|exact Hacc].
    + destruct He as [Hmtu Hw]. unfold ls_send.
      pose proof (frames_fit_h mtu (ls_hdr l) (ls_opts l) (ls_seq l) tok inface mark wire) as Hfit.
      destruct (send_fields_h mtu (Z.of_N (ls_hdr l)) (ls_opts l) (ls_seq l) tok inface mark wire) as [fs s'].
      apply IH; [exact Hl|exact Hev'|]. constructor; [|exact Hacc].
      unfold send_ok. cbn [fst snd]. apply Hfit; [|exact Hmtu|exact Hw].
      rewrite Hl. apply hdr_ok_computed.
Qed.

Theorem frames_fit_histories_lemma : forall o0 evs, Forall ev_ok evs ->
  Forall send_ok (snd (ls_run (make_ls o0) evs [])).
Proof. intros o0 evs H. apply (ls_run_fit evs (make_ls o0) [] (ls_inv_make o0) H). constructor. Qed.

(* what goes wrong when SetOptions recomputes the reservation BEFORE storing the new options (reservation of the old
   options, fields of the new ones): fragmentation switched on by SetOptions, MTU 1500, 4000-byte packet *)
Lemma stale_reservation_overflows :
  let stale := mkLs (mkSo true false) (compute_header_overhead (mkSo false false)) 0 in
  existsb (fun f => (1500 <? zlen f)%Z) (fst (ls_send 1500 stale [0;0;1;2;3;4] None None (repeat 7 4000))) = true.
Proof. vm_compute. reflexivity. Qed.

(* a packet whose unfragmented LpPacket fits the MTU is sent as exactly one frame, which carries the whole packet
   with its PIT token and congestion mark; the sequence counter is not used *)
Theorem fits_one_frame_lemma : forall mtu o seq tok inface mark wire,
  single_frame_fits mtu o tok inface mark wire = true ->
  send_packet mtu o seq tok inface mark wire =
    ([lp_encode (mkLpf None None None tok (if o_ifi o then inface else None) None None mark (Some wire))], seq).
Proof.
  intros mtu o seq tok inface mark wire H. unfold single_frame_fits in H. unfold send_packet, send_fields, send_fields_h. now rewrite H.
Qed.

(* with fragmentation disabled a packet that does not fit is dropped: no frame at all is emitted (never a truncated one) *)
Theorem nofrag_oversize_dropped_lemma : forall mtu o seq tok inface mark wire,
  single_frame_fits mtu o tok inface mark wire = false -> o_frag o = false ->
  send_packet mtu o seq tok inface mark wire = ([], seq).
Proof.
  intros mtu o seq tok inface mark wire H Hf. unfold single_frame_fits in H. unfold send_packet, send_fields, send_fields_h. now rewrite H, Hf.
Qed.

(* single_frame_fits is exactly "the LpPacket carrying the whole packet is no larger than the MTU" *)
Lemma single_frame_fits_spec mtu o tok inface mark wire :
  single_frame_fits mtu o tok inface mark wire = true <->
  fits mtu (lp_encode (mkLpf None None None tok (if o_ifi o then inface else None) None None mark (Some wire))).
Proof. unfold single_frame_fits, fits. rewrite zlen_single, <- exact_header_eq. lia. Qed.
