(* placeholder until StreamProofs lands *)
From Base Require Import Bytes VarNum.
From Face Require Import GenConsts Stream.
Open Scope N_scope.
Example c11_example : frames_eqb (snd (app_frames (mk_block 6 [1;2;3] ++ mk_block 5 []))) [mk_block 6 [1;2;3]; mk_block 5 []] = true.
Proof. vm_compute. reflexivity. Qed.
