(* Property C11 — stream framing delivers each TLV exactly once for any chunking of the stream, for streams of
   unbounded length.  Only theorem statements closed by `exact`, each followed by Print Assumptions.
   Model: Face/Stream.v (fw/face/stream-transport.go readTlvStream; std/engine/face/stream_face.go Run).
   `run true stream sched` = (result, frames handed to onFrame, bytes consumed, final buffer state); a schedule item
   RReq k is a Read returning min(k, free buffer space, bytes remaining) bytes (so every partition of the stream into
   reads, including zero-byte reads, is a schedule), RIgn k a Read failing with an ignorable error and returning k bytes.
   The theorems hold for EVERY schedule, including failing reads that carry data (io.Reader permits n > 0 together with an
   error): those bytes stay in the buffer unparsed until the next successful read, so the invariant is "buffer content =
   unparsed suffix of the bytes received so far".  `settled_after true sched = true` says that no data-carrying failing read
   came after the last successful read (in particular: every schedule whose failing reads carry no data, and every schedule
   that ends with a successful read); then the buffer content is the incomplete head of the next block.
   A Read that is handed an empty slice (full buffer - only reachable through data-carrying failing reads) is modelled as a
   socket answers it: (0, nil) at once, nothing taken from the connection (Stream.settle). *)
From Base Require Import Bytes VarNum.
From Face Require Import GenConsts Stream StreamProofs.
Open Scope N_scope.

(* Core theorem.  Well-formed = shortest-form T and L, whole block at most MaxNDNPacketSize bytes (wf_block).
   For every list of well-formed blocks - of any length: a run observes a finite prefix of an unbounded stream - and
   EVERY read schedule, the framer does not fail, the frames handed up are leading blocks of the stream (bs = frames ++ rs:
   byte-identical, in order, none lost, duplicated, split or merged), the bytes received so far are exactly those frames
   followed by the buffer content u at the front of the buffer, u is a prefix of the remaining blocks, and - when no
   data-carrying failing read came after the last successful one - u is a strict prefix of the next block, i.e. the frames
   are ALL the blocks complete within the received bytes. *)
Theorem framing_exact : forall bs sched, Forall wf_block bs ->
  exists frames rs u consumed,
    run true (concat bs) sched = (SOk, frames, consumed, mkS 0 u) /\
    bs = frames ++ rs /\
    firstn (N.to_nat consumed) (concat bs) = concat frames ++ u /\
    (exists rest, u ++ rest = concat rs) /\
    (settled_after true sched = true -> strictpre u rs).
Proof. exact framing_exact_lemma. Qed.
Print Assumptions framing_exact.

(* The schedules of the earlier, partial statement (failing reads carry no data) are settled ones. *)
Theorem nodata_schedules_settled : forall sched, Forall ign_nodata sched -> settled_after true sched = true.
Proof. exact ign_nodata_settled. Qed.
Print Assumptions nodata_schedules_settled.

(* Once all bytes have been read and a successful read has followed the last data-carrying failing one, all blocks have been
   handed up. *)
Theorem framing_complete : forall bs sched, Forall wf_block bs -> settled_after true sched = true ->
  snd (fst (run true (concat bs) sched)) = lenN (concat bs) ->
  fst (fst (fst (run true (concat bs) sched))) = SOk /\ snd (fst (fst (run true (concat bs) sched))) = bs.
Proof. exact framing_complete_lemma. Qed.
Print Assumptions framing_complete.

(* Moving the unread bytes to the front never loses part of a block, and the buffer never fills up: after any settled run the
   parse offset is 0, fewer than MaxNDNPacketSize bytes are unread and the write offset is strictly inside the buffer.  (For
   arbitrary schedules: C04 stream_total - offsets inside the buffer, never a spin.) *)
Theorem compaction_safe_never_full : forall bs sched, Forall wf_block bs -> settled_after true sched = true ->
  let st := snd (run true (concat bs) sched) in
  tlvOff st = 0 /\ lenN (unread st) < c_MaxNDNPacketSize /\ recvOff st < c_recvBufSize.
Proof. exact compaction_safe_never_full_lemma. Qed.
Print Assumptions compaction_safe_never_full.

(* ... and after EVERY iteration of the read loop that parses (the state after any settled prefix of the schedule): the unparsed
   bytes are at the front of the buffer, fewer than one packet of them, and at least one whole packet of space is free for the next
   Read - also when a block boundary falls exactly on the end of the buffer with nothing pending.  (A compaction rule that does not
   reset the offsets in that situation leaves tlvOff = recvOff = buffer size: every later Read gets an empty slice and the loop spins.) *)
Theorem every_iteration_leaves_room : forall bs sched k, Forall wf_block bs -> settled_after true (firstn k sched) = true ->
  let st := snd (run true (concat bs) (firstn k sched)) in
  tlvOff st = 0 /\ lenN (unread st) < c_MaxNDNPacketSize /\ c_MaxNDNPacketSize <= c_recvBufSize - recvOff st.
Proof. exact every_iteration_leaves_room_lemma. Qed.
Print Assumptions every_iteration_leaves_room.

(* The full-buffer iteration (only reachable through data-carrying failing reads), all numbers computed from the translated
   constants: k + 1 blocks of n bytes (n just under MaxNDNPacketSize), k = buffer size / n.  One failing read fills the buffer to the
   last byte, nothing parsed; the next iteration hands up the k complete blocks and frees the buffer; the rest follows. *)
Theorem full_buffer_settles :
  let b := mk_block 6 (repeat 1 (N.to_nat (c_MaxNDNPacketSize - 10))) in
  let n := lenN b in
  let k := c_recvBufSize / n in
  let bs := repeat b (N.to_nat (k + 1)) in
  let big := 2 * c_recvBufSize in
  n <= c_MaxNDNPacketSize /\
  (let '(r, _, c, st) := run true (concat bs) [RIgn big] in (r, c, recvOff st)) = (SOk, c_recvBufSize, c_recvBufSize) /\
  (let '(r, fr, c, st) := run true (concat bs) [RIgn big; RIgn big] in (r, frames_eqb fr (repeat b (N.to_nat k)), c, recvOff st))
     = (SOk, true, (k + 1) * n, n) /\
  (let '(r, fr, c, st) := run true (concat bs) [RIgn big; RReq big] in (r, frames_eqb fr bs, c, recvOff st))
     = (SOk, true, (k + 1) * n, 0).
Proof. exact full_buffer_settles_lemma. Qed.
Print Assumptions full_buffer_settles.

(* The decomposition of the core theorem is the one computed by the run-time oracle (split_blocksN), which the
   runner evaluates on the frames observed from the implementation. *)
Theorem oracle_split_agrees : forall ds rs p,
  Forall (fun b => b <> []) rs -> strictpre p rs ->
  split_blocksN (ds ++ rs) (lenN (concat ds ++ p)) = (ds, p).
Proof.
  exact (fun ds rs p Hne Hp =>
    eq_trans (split_blocksN_spec (ds ++ rs) (lenN (concat ds ++ p)))
      (eq_trans (f_equal (split_blocks (ds ++ rs)) (eq_trans (f_equal N.to_nat (lenN_spec (concat ds ++ p))) (Nat2N.id _)))
                (split_blocks_char ds rs p Hne Hp))).
Qed.
Print Assumptions oracle_split_agrees.

(* Application-side reader (T, L, then exactly L bytes): the packets handed to the engine are the blocks. *)
Theorem app_framing_exact : forall bs, Forall wf_block bs -> app_frames (concat bs) = (AEnd true, bs).
Proof. exact app_framing_exact_lemma. Qed.
Print Assumptions app_framing_exact.

(* Sender side (StreamFace.Send).  Model obligation: Send is atomic per packet (the segments of a wire reach the connection
   contiguously), i.e. the stream is the concatenation of whole packets in some order.  Then the receiving face hands up
   exactly those packets.  The obligation itself is checked on the real code by concurrent Send calls over a gated pipe. *)
Theorem send_atomic_delivers : forall (pkts : list (list bytes)),
  Forall (fun segs => wf_block (concat segs)) pkts ->
  app_frames (concat (map (@concat byte) pkts)) = (AEnd true, map (@concat byte) pkts).
Proof. exact send_atomic_delivers_lemma. Qed.
Print Assumptions send_atomic_delivers.

(* ... and it is needed: one single-segment packet written between the two segments of another splits the blocks. *)
Theorem send_not_atomic_splits :
  let big := [[6; 4; 1; 2]; [3; 4]] in let small := [[5; 1; 9]] in
  snd (app_frames (concat [nth 0 big []; concat small; nth 1 big []])) <> [concat big; concat small] /\
  snd (app_frames (concat [nth 0 big []; concat small; nth 1 big []])) <> [concat small; concat big].
Proof. exact send_interleaved_splits. Qed.
Print Assumptions send_not_atomic_splits.

(* "Stream longer than the face lifetime": an on-demand stream face moves its expiry to now + lifetime at every received
   frame, the clock being read at that frame; then a stream whose frames arrive with gaps of at most the lifetime is never past
   its expiry when a frame arrives, however long it lasts.  (Reading the clock once per connection breaks this:
   StreamProofs.clock_read_once_expires; checked on the real UnicastTCPTransport over a loopback socket, lifetime 1 s.) *)
Theorem stream_face_stays_up : forall life arrivals t0,
  (0 <= life)%Z -> gaps_ok life t0 arrivals ->
  forall k t, nth_error arrivals k = Some t -> (t <= expiry_after life t0 (firstn k arrivals))%Z.
Proof. exact stream_face_stays_up_lemma. Qed.
Print Assumptions stream_face_stays_up.

(* Outside the statement ("well-formed" = shortest forms): a non-minimal number form is mis-framed. Recorded, not a violation. *)
Theorem nonminimal_form_misframed :
  exists stream sched, snd (fst (fst (run true stream sched))) = [[253;0;6]] /\ stream = [253;0;6; 1; 170].
Proof. exact nonminimal_misframed. Qed.
Print Assumptions nonminimal_form_misframed.

(* non-vacuity: three well-formed blocks (1-byte and 3-byte length forms, a 3-byte type), read 1 byte at a time, then
   in one piece; both deliver exactly the blocks *)
Example c11_example :
  let bs := [mk_block 6 [1;2;3]; mk_block 800 (repeat 7 300); mk_block 5 []] in
  Forall wf_block bs /\
  snd (fst (fst (run true (concat bs) (rep_item (RReq 1) 400 [])))) = bs /\
  snd (fst (fst (run true (concat bs) [RReq 0; RIgn 0; RReq 100000]))) = bs /\
  snd (fst (fst (run true (concat bs) [RIgn 4; RIgn 100; RReq 2; RIgn 100000; RReq 0]))) = bs /\
  run true (concat bs) [RIgn 4; RIgn 100] = (SOk, [], 104, mkS 0 (firstn 104 (concat bs))).
Proof.
  split.
  - repeat (apply Forall_cons; [apply mk_block_wf; [vm_compute; reflexivity|vm_compute; discriminate]|]). apply Forall_nil.
  - repeat split; vm_compute; reflexivity.
Qed.
