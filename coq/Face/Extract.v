(* Face/Extract.v — extraction of the executable face-layer models for the correspondence runner.
   ExtrOcamlBasic only: bool, option, unit, list, prod, sumbool, sumor -> OCaml natives; N/Z/positive/nat stay Coq datatypes. *)
From Coq Require Import Extraction ExtrOcamlBasic.
From Coq Require Import NArith ZArith.
From Face Require Import GenConsts Stream Lp.
Extraction Language OCaml.
Extraction "face_model.ml"
  run rep_item frames_eqb mk_block split_blocksN app_frames lenN takeN dropN
  c_MaxNDNPacketSize c_recvBufSize
  send_packet send_fields lp_encode make_ls set_options set_next_seq ls_send handle_frame pkt_decode c10_send_ok c10_frames_sem single_frame_fits rs_init dl_once_ok effective_mark
  N.compare Z.of_N
  N.add N.mul N.sub N.of_nat N.to_nat N.eqb N.ltb N.leb N.div N.modulo.
