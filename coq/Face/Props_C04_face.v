(* placeholder *)
From Base Require Import Bytes VarNum.
From Face Require Import GenConsts Stream.
Open Scope N_scope.
Example c04_face_example : fst (fst (fst (run true [6;1;7] [RReq 1; RReq 5]))) = SOk.
Proof. vm_compute. reflexivity. Qed.
