(* Property C04, receive-path half (stream framing, link-layer reassembly, PIT-token dispatch): never panics, never
   spins, allocation bounded; a frame that fails to decode changes no state.  Only statements closed by `exact`. *)
From Base Require Import Bytes VarNum.
From Face Require Import GenConsts Stream StreamProofs Lp LpProofs LpReasm LpTotal.
Open Scope N_scope.

(* Stream framer (fw/face/stream-transport.go readTlvStream), for ALL byte streams and ALL read schedules:
   the result is nil/EOF or the "too large" error - never a panic (slice bounds), never a spin (zero-length Read on a
   full buffer, or an endless loop of empty frames); every frame handed to the link service has between 2 and
   MaxNDNPacketSize bytes; the write offset never leaves the fixed buffer (no growth at all). *)
Theorem stream_total : forall stream sched,
  let '(res, frames, _, st) := run true stream sched in
  (res = SOk \/ res = SErrTooMuch) /\ Forall frame_ok frames /\ recvOff st <= c_recvBufSize.
Proof. exact stream_total_lemma. Qed.
Print Assumptions stream_total.

(* reassemblePacket for ANY store and ANY peer-supplied base sequence / FragIndex / FragCount (all of N, i.e. beyond
   uint64 too): no index panic; a frame adds at most FragCount <= maxFragCount slots and at most its fragment's bytes. *)
Theorem reassembly_total : forall s base idx cnt frag,
  match reassemble true s base idx cnt frag with
  | RPanic => False
  | RNone s' => (store_cells s' <= store_cells s + N.to_nat c_maxFragCount)%nat /\ (store_bytes s' <= store_bytes s + length frag)%nat
  | RDone s' _ => (store_cells s' <= store_cells s)%nat /\ (store_bytes s' <= store_bytes s)%nat
  end.
Proof. exact reassemble_total_lemma. Qed.
Print Assumptions reassembly_total.

(* Thread dispatch: the thread id taken from a 6-byte PIT token is bounds-checked (an id >= the thread count drops the
   packet); name-hash derived ids are in range when fw.Threads and the dispatch table have the same length (l3_ok). *)
Theorem dispatch_total : forall c st i d raw tok mark nh cp,
  ol3_ok (r_nthreads c) i -> ol3_ok (r_nthreads c) d ->
  exists st' out, dispatch true c st i d raw tok mark nh cp = HOk st' out /\ r_store st' = r_store st /\
                  Forall (fun x => d_thread x < r_nthreads c) out.
Proof. exact dispatch_total_lemma. Qed.
Print Assumptions dispatch_total.

(* handleIncomingFrame for ANY decoded frame in ANY state: no panic, bounded growth of the partial message store
   (slots: maxFragCount per frame; bytes: the fragment carried by the frame), deliveries only to existing threads. *)
Theorem handle_frame_total : forall c inner st dec frame,
  (forall p, match inner p with DErr => True | DPkt i d _ => ol3_ok (r_nthreads c) i /\ ol3_ok (r_nthreads c) d end) ->
  (match dec with DErr => True | DPkt i d _ => ol3_ok (r_nthreads c) i /\ ol3_ok (r_nthreads c) d end) ->
  exists st' out, handle_frame true c inner st dec frame = HOk st' out /\
    (store_cells (r_store st') <= store_cells (r_store st) + N.to_nat c_maxFragCount)%nat /\
    (store_bytes (r_store st') <= store_bytes (r_store st) + frag_len dec)%nat /\
    Forall (fun x => d_thread x < r_nthreads c) out.
Proof. exact handle_frame_total_lemma. Qed.
Print Assumptions handle_frame_total.

(* The PIT token of a frame has no length bound in handle_frame_total (f_tok LP is any byte list: the generated LpPacket decoder
   accepts a token of any length, NDNLPv2 says 1..32): e.g. a 1000-byte token on a frame whose payload does not parse. *)
Example long_token_total :
  handle_frame true (mkRc true false false false 2) (fun _ => DErr) rs_init
    (DPkt None None (Some (mkLpf None None None (repeat 7 1000) None None None None (Some [6;0])))) [] = HOk rs_init [].
Proof. vm_compute. reflexivity. Qed.

(* Internal (management) face: InternalTransport.Receive dereferences IncomingFaceId of every frame it is given; the frames it is
   given are those of the internal face's own link service.  With incoming-face indication on and the incoming face named
   (the forwarding thread always names it), every frame of every packet - every fragment - carries the field: no nil dereference. *)
Theorem internal_receive_total : forall mtu hdr o sq tok i mark wire,
  o_ifi o = true ->
  Forall (fun f => internal_receive (DPkt None None (Some f)) <> IPanic)
         (fst (send_fields_h mtu hdr o sq tok (Some i) mark wire)).
Proof. exact internal_receive_total_lemma. Qed.
Print Assumptions internal_receive_total.

(* A frame that fails to decode changes no forwarder state: store and counters equal, nothing dispatched. *)
Theorem bad_frame_state_unchanged : forall g c inner st frame, handle_frame g c inner st DErr frame = HOk st [].
Proof. exact bad_frame_state_unchanged_lemma. Qed.
Print Assumptions bad_frame_state_unchanged.

(* The statements were false for the code before the repairs (guard = false); witnesses replayed on the real code
   (corpus/C04_face): stream length 2^63 panics, length 2^64-10 loops for ever; FragIndex 5 of FragCount 3 is an index
   panic; a 6-byte PIT token naming thread 8 of 8 is an index panic. *)
Theorem stream_total_refuted_before_fix :
  (exists stream sched, fst (fst (fst (run false stream sched))) = SPanic) /\
  (exists stream sched, fst (fst (fst (run false stream sched))) = SSpin).
Proof. exact StreamProofs.stream_total_refuted_before_fix. Qed.
Print Assumptions stream_total_refuted_before_fix.

Theorem reassembly_total_refuted_before_fix : reassemble false [] 7 5 3 [1] = RPanic.
Proof. exact reassembly_refuted_before_fix. Qed.
Print Assumptions reassembly_total_refuted_before_fix.

Theorem dispatch_total_refuted_before_fix :
  dispatch false (mkRc true false false false 8) rs_init None (Some (mkL3 0 [])) [6;1] [0;8;1;2;3;4] None None None = HPanic.
Proof. exact dispatch_refuted_before_fix. Qed.
Print Assumptions dispatch_total_refuted_before_fix.

Example c04_face_example :
  fst (fst (fst (run true [6; 255; 128;0;0;0;0;0;0;0; 1;2;3] [RReq 100]))) = SErrTooMuch /\
  fst (fst (fst (run true [6;1;7; 5;0] [RReq 1; RReq 5]))) = SOk /\
  reassemble true [] 7 5 3 [1] = RNone [] /\
  (exists s, reassemble true [] 7 1 3 [1] = RNone s /\ store_cells s = 3%nat).
Proof. repeat split; try (vm_compute; reflexivity). eexists. split; vm_compute; reflexivity. Qed.
