(* Property C04, receive-path half (stream framing, link-layer reassembly, PIT-token dispatch): never panics, never
   spins, allocation bounded; a frame that fails to decode changes no state.  Only statements closed by `exact`. *)
From Base Require Import Bytes VarNum.
From Face Require Import GenConsts Stream StreamProofs.
Open Scope N_scope.

(* Stream framer (fw/face/stream-transport.go readTlvStream), for ALL byte streams and ALL read schedules:
   the result is nil/EOF or the "too large" error - never a panic (slice bounds), never a spin (zero-length Read on a
   full buffer, or an endless loop of empty frames); every frame handed to the link service has between 2 and
   MaxNDNPacketSize bytes; the write offset never leaves the fixed buffer (no growth at all). *)
Theorem stream_total : forall stream sched,
  let '(res, frames, _, st) := run true stream sched in
  (res = SOk \/ res = SErrTooMuch) /\ Forall frame_ok frames /\ recvOff st <= c_recvBufSize.
Proof. exact stream_total_lemma. Qed.
Print Assumptions stream_total.

(* The same statement was false for the code before the repair (guard = false): a length of 2^63 panics, a length of
   2^64-10 loops for ever.  (Witnesses replayed on the real code: corpus/C04_face/stream-len-*.case.) *)
Theorem stream_total_refuted_before_fix :
  (exists stream sched, fst (fst (fst (run false stream sched))) = SPanic) /\
  (exists stream sched, fst (fst (fst (run false stream sched))) = SSpin).
Proof. exact StreamProofs.stream_total_refuted_before_fix. Qed.
Print Assumptions stream_total_refuted_before_fix.

Example c04_face_example :
  fst (fst (fst (run true [6; 255; 128;0;0;0;0;0;0;0; 1;2;3] [RReq 100]))) = SErrTooMuch /\
  fst (fst (fst (run true [6;1;7; 5;0] [RReq 1; RReq 5]))) = SOk.
Proof. split; vm_compute; reflexivity. Qed.
