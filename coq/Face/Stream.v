(* Face/Stream.v — executable model of the stream framer fw/face/stream-transport.go readTlvStream
   (forwarder side) and of the application-side reader std/engine/face/stream_face.go Run.  No proofs here.

   The receive buffer is modelled by what the code can observe of it: `tlvOff` and the unread bytes
   recvBuf[tlvOff:recvOff] (so recvOff = tlvOff + |unread|).  Bytes below tlvOff are dead (never read again) and
   bytes above recvOff are overwritten by Read before they are looked at.  The capacity `c_recvBufSize`, the Go `int`
   arithmetic of tlvSize, the slice expression recvBuf[tlvOff:tlvOff+tlvSize] (panic when high < low) and the
   zero-length Read that a full buffer produces are explicit. *)
From Base Require Import Bytes VarNum.
From Face Require Import GenConsts.
Open Scope N_scope.

(* ---- Go integer conversions (64-bit platform) ---- *)
Definition two63z : Z := 9223372036854775808%Z.
Definition two64z : Z := 18446744073709551616%Z.
(* int(x) for x : uint64 *)
Definition to_int64 (x : N) : Z := let z := Z.of_N x in if (z <? two63z)%Z then z else (z - two64z)%Z.
(* wrap-around of int arithmetic *)
Definition wrap64 (z : Z) : Z := ((z + two63z) mod two64z - two63z)%Z.

(* ---- list helpers over N (binary counters: the extracted code never builds unary numbers) ---- *)
Fixpoint lenN_acc (acc : N) (l : bytes) : N := match l with [] => acc | _ :: r => lenN_acc (N.succ acc) r end.
Definition lenN (l : bytes) : N := lenN_acc 0 l.
Fixpoint takeN (n : N) (l : bytes) : bytes :=
  match l with [] => [] | x :: r => if n =? 0 then [] else x :: takeN (N.pred n) r end.
Fixpoint dropN (n : N) (l : bytes) : bytes :=
  match l with [] => [] | x :: r => if n =? 0 then l else dropN (N.pred n) r end.

(* ---- the framer ---- *)
Record sstate := mkS { tlvOff : N; unread : bytes }.
Definition s_init : sstate := mkS 0 [].
Definition recvOff (s : sstate) : N := tlvOff s + lenN (unread s).

Inductive sres := SOk | SErrTooMuch | SPanic | SSpin.
Inductive pres := PBreak | PErr | PPanic | PSpin.

(* tlvSize := typ.EncodingLength() + len.EncodingLength() + int(len)      (Go int, wraps) *)
Definition tlv_size (typ len : N) : Z :=
  wrap64 (Z.of_nat (tl_len typ) + Z.of_nat (tl_len len) + to_int64 len).

(* `guard` = the size check added by the repair "fix: readTlvStream ..." (true = current code, false = code before it). *)
Section Framer.
Variable guard : bool.

(* The inner `for` of readTlvStream.  acc = frames delivered so far, most recent first. Fuel: every delivered frame
   consumes at least one byte, |unread|+1 is enough; running out is reported as PSpin. *)
Fixpoint parse_loop (fuel : nat) (off : N) (un : bytes) (acc : list bytes) : pres * N * bytes * list bytes :=
  match fuel with
  | O => (PSpin, off, un, acc)
  | S f =>
    match tl_dec un with
    | None => (PBreak, off, un, acc)                       (* "Probably incomplete packet" *)
    | Some (typ, r1) =>
      match tl_dec r1 with
      | None => (PBreak, off, un, acc)
      | Some (len, _) =>
        if guard && ((c_MaxNDNPacketSize <? len) || (Z.of_N c_MaxNDNPacketSize <? tlv_size typ len)%Z) then (PErr, off, un, acc)
        else
        let sz := tlv_size typ len in
        let avail := Z.of_N (lenN un) in
        if (sz <=? avail)%Z then
          (* onFrame(recvBuf[tlvOff : tlvOff+tlvSize]) ; tlvOff += tlvSize *)
          if (sz <? 0)%Z then (PPanic, off, un, acc)          (* slice bounds out of range: high < low *)
          else if (sz =? 0)%Z then (PSpin, off, un, [] :: acc) (* empty frame, no progress: loops forever *)
          else let k := Z.to_N sz in parse_loop f (off + k) (dropN k un) (takeN k un :: acc)
        else if (Z.of_N c_MaxNDNPacketSize <? avail)%Z then (PErr, off, un, acc)
        else (PBreak, off, un, acc)
      end
    end
  end.

(* one Read that returned chunk (err = nil) followed by the parse loop and the compaction rule *)
Definition after_read (s : sstate) (chunk : bytes) (acc : list bytes) : pres * sstate * list bytes :=
  let un := unread s ++ chunk in
  let '(r, off, un', acc') := parse_loop (S (length un)) (tlvOff s) un acc in
  match r with
  | PBreak => (PBreak, (if lenN un' <? c_MaxNDNPacketSize then mkS 0 un' else mkS off un'), acc')
  | _ => (r, mkS off un', acc')
  end.

(* Read schedule items: RReq k = a Read that returns min(k, free space, remaining stream) bytes with err = nil;
   RIgn k = a Read that returns (n, err) with ignoreError(err) = true, n = min(k, free space, remaining): io.Reader permits data
   together with an error; the bytes are kept (recvOff += readSize) and the loop `continue`s without parsing.
   When the schedule is exhausted the reader returns io.EOF and readTlvStream returns nil. *)
Inductive rditem := RReq (k : N) | RIgn (k : N).

(* A full buffer: Read(recvBuf[len:]) gets an empty slice and a socket answers (0, nil) at once, taking nothing from the
   connection; the loop then parses what it has and applies the compaction rule.  `settle` is that iteration (the identity when
   there is room).  If it frees nothing the same happens for ever: a spin. *)
Definition settle (s : sstate) (acc : list bytes) : pres * sstate * list bytes :=
  if c_recvBufSize - recvOff s =? 0 then after_read s [] acc else (PBreak, s, acc).

(* result: outcome, frames (oldest first), bytes consumed from the stream, final state *)
Fixpoint run_stream (sched : list rditem) (s : sstate) (rest : bytes) (acc : list bytes) (consumed : N)
  : sres * list bytes * N * sstate :=
  match sched with
  | [] => (SOk, rev acc, consumed, s)
  | it :: sched' =>
    let '(r0, s0, acc0) := settle s acc in
    match r0 with
    | PErr => (SErrTooMuch, rev acc0, consumed, s0)
    | PPanic => (SPanic, rev acc0, consumed, s0)
    | PSpin => (SSpin, rev acc0, consumed, s0)
    | PBreak =>
      let free := c_recvBufSize - recvOff s0 in
      if free =? 0 then (SSpin, rev acc0, consumed, s0)   (* still full: zero-length reads for ever *)
      else match it with
      | RIgn k =>
        let chunk := takeN (N.min k free) rest in
        run_stream sched' (mkS (tlvOff s0) (unread s0 ++ chunk)) (dropN (lenN chunk) rest) acc0 (consumed + lenN chunk)
      | RReq k =>
        let chunk := takeN (N.min k free) rest in         (* min(k, free, remaining) bytes *)
        let n := lenN chunk in
        let '(r, s', acc') := after_read s0 chunk acc0 in
        match r with
        | PBreak => run_stream sched' s' (dropN n rest) acc' (consumed + n)
        | PErr => (SErrTooMuch, rev acc', consumed + n, s')
        | PPanic => (SPanic, rev acc', consumed + n, s')
        | PSpin => (SSpin, rev acc', consumed + n, s')
        end
      end
    end
  end.

Definition run (stream : bytes) (sched : list rditem) : sres * list bytes * N * sstate :=
  run_stream sched s_init stream [] 0.
End Framer.

(* After a successful read the buffer holds only the incomplete head of the next block ("settled").  A read that fails with an
   ignorable error and carries data leaves whole blocks unparsed in the buffer until the next successful read; one that carries
   no data changes nothing.  settled_after b sched: is the buffer settled after the schedule, given it was (b) before? *)
Definition settled_step (b : bool) (it : rditem) : bool := match it with RReq _ => true | RIgn k => b && (k =? 0) end.
Definition settled_after (b : bool) (sched : list rditem) : bool := fold_left settled_step sched b.

(* schedule helper used by the runner: k*n *)
Fixpoint rep_item (it : rditem) (n : nat) (tl : list rditem) : list rditem :=
  match n with O => tl | S m => it :: rep_item it m tl end.

(* ---- well-formed blocks (NDN packet format v0.3: shortest-form T and L) ---- *)
Definition mk_block (t : N) (v : bytes) : bytes := tl_enc t ++ tl_enc (lenN v) ++ v.

(* ---- reference semantics: which blocks are complete within the first c bytes of their concatenation ---- *)
Fixpoint split_blocks (bs : list bytes) (c : nat) : list bytes * bytes :=
  match bs with
  | [] => ([], [])
  | b :: r =>
    if (length b <=? c)%nat then let '(d, p) := split_blocks r (c - length b) in (b :: d, p)
    else ([], firstn c b)
  end.

(* the same with a binary counter (used by the extracted oracle; equal to split_blocks, see StreamProofs) *)
Fixpoint split_blocksN (bs : list bytes) (c : N) : list bytes * bytes :=
  match bs with
  | [] => ([], [])
  | b :: r =>
    if lenN b <=? c then let '(d, p) := split_blocksN r (c - lenN b) in (b :: d, p)
    else ([], takeN c b)
  end.

(* oracle: the frames observed are exactly the blocks (byte-identical, in order) *)
Definition frames_eqb (a b : list bytes) : bool := list_eqb bytes_eqb a b.

(* ---- application-side reader (std/engine/face/stream_face.go Run): T, L, then exactly L bytes through
   bufio + io.ReadFull, which block until the bytes are there, so chunking is invisible to it.  The frame handed up is
   re-encoded T and L (shortest form) followed by the value bytes.  The loop stops at the first read error:
   AEnd true = io.EOF (nothing of the next item was read), AEnd false = io.ErrUnexpectedEOF. *)
Inductive ares := AEnd (clean : bool) | APanic.
Definition is_nil (l : bytes) : bool := match l with [] => true | _ => false end.
Fixpoint app_read (fuel : nat) (s : bytes) (acc : list bytes) : ares * list bytes :=
  match fuel with
  | O => (AEnd true, rev acc)
  | S f =>
    match s with
    | [] => (AEnd true, rev acc)
    | _ =>
      match tl_dec s with
      | None => (AEnd false, rev acc)
      | Some (t, r1) =>
        match tl_dec r1 with
        | None => (AEnd (is_nil r1), rev acc)
        | Some (l, r2) =>
          (* buf := make([]byte, l0+l1+int(l)) : panics when the int is negative *)
          let sz := wrap64 (Z.of_nat (tl_len t) + Z.of_nat (tl_len l) + to_int64 l) in
          if (sz <? Z.of_nat (tl_len t) + Z.of_nat (tl_len l))%Z then (APanic, rev acc)
          else if lenN r2 <? l then (AEnd (is_nil r2), rev acc)
          else app_read f (dropN l r2) ((tl_enc t ++ tl_enc l ++ takeN l r2) :: acc)
        end
      end
    end
  end.
Definition app_frames (s : bytes) : ares * list bytes := app_read (S (length s)) s [].
