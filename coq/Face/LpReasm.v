(* Face/LpReasm.v — C10 receive side: reassembly delivers every message exactly once, with its PIT token and congestion
   mark, for ANY order / interleaving of the frames of any number of messages with distinct base sequences. *)
From Base Require Import Bytes VarNum.
From Face Require Import GenConsts Stream StreamProofs Lp LpProofs.
From Coq Require Import ZifyBool ZifyN ZifyNat Lia Permutation.
Open Scope N_scope.

Ltac Zify.zify_post_hook ::= Z.div_mod_to_equations.

(* ------------------------------------------------------------------------------------------------ *)
(* the store *)
Lemma st_get_del_same k s : st_get k (st_del k s) = None.
Proof.
  induction s as [|[k' v] s IH]; [reflexivity|]. unfold st_del in *. cbn [filter fst].
  destruct (k' =? k) eqn:E; cbn [negb]; [exact IH|]. cbn [st_get]. now rewrite E.
Qed.
Lemma st_get_del_other k k' s : k' <> k -> st_get k' (st_del k s) = st_get k' s.
Proof.
  intros Hne. induction s as [|[k2 v] s IH]; [reflexivity|]. unfold st_del in *. cbn [filter fst].
  destruct (k2 =? k) eqn:E; cbn [negb st_get].
  - apply N.eqb_eq in E. subst k2. replace (k =? k') with false by (symmetry; apply N.eqb_neq; congruence). exact IH.
  - destruct (k2 =? k'); [reflexivity|exact IH].
Qed.
Lemma st_get_set_same k v s : st_get k (st_set k v s) = Some v.
Proof. unfold st_set. cbn [st_get]. now rewrite N.eqb_refl. Qed.
Lemma st_get_set_other k k' v s : k' <> k -> st_get k' (st_set k v s) = st_get k' s.
Proof.
  intros Hne. unfold st_set. cbn [st_get]. replace (k =? k') with false by (symmetry; apply N.eqb_neq; congruence).
  now apply st_get_del_other.
Qed.

(* base sequence recovered by the receiver: (base + i mod 2^64) - i mod 2^64 = base *)
Lemma base_recovered b i : b < two64 -> i < two64 -> u64 (u64 (b + i) + two64 - i) = b.
Proof. unfold u64, two64. intros Hb Hi. lia. Qed.

(* ------------------------------------------------------------------------------------------------ *)
(* list helpers *)
Lemma set_nth_length i v l : length (set_nth i v l) = length l.
Proof. revert i; induction l as [|x l IH]; intros [|i]; cbn [set_nth length]; auto. Qed.

Lemma set_nth_map_seq {f : nat -> bytes} v : forall n a i, (i < n)%nat ->
  set_nth i v (map f (seq a n)) = map (fun k => if (k =? a + i)%nat then v else f k) (seq a n).
Proof.
  induction n as [|n IH]; intros a i Hi; [lia|]. cbn [seq map]. destruct i as [|i]; cbn [set_nth].
  - rewrite Nat.add_0_r, Nat.eqb_refl. f_equal. apply map_ext_in. intros k Hk. apply in_seq in Hk.
    replace (k =? a)%nat with false by (symmetry; apply Nat.eqb_neq; lia). reflexivity.
  - replace (a =? a + S i)%nat with false by (symmetry; apply Nat.eqb_neq; lia). f_equal.
    rewrite IH by lia. apply map_ext. intros k. now replace (S a + i)%nat with (a + S i)%nat by lia.
Qed.

Lemma filter_count_set_nth i v l :
  (i < length l)%nat -> nth i l [] = [] -> nonempty v = true ->
  length (filter nonempty (set_nth i v l)) = S (length (filter nonempty l)).
Proof.
  revert i; induction l as [|x l IH]; intros i Hi Hn Hv; [cbn in Hi; lia|]. destruct i as [|i]; cbn [set_nth filter nth] in *.
  - subst x. cbn [nonempty]. rewrite Hv. reflexivity.
  - destruct (nonempty x); cbn [length]; rewrite IH; auto; cbn [length] in Hi; lia.
Qed.

Lemma filter_length_le {A} (p : A -> bool) l : (length (filter p l) <= length l)%nat.
Proof. induction l as [|x l IH]; cbn; [lia|]. destruct (p x); cbn; lia. Qed.

Lemma filter_all {A} (p : A -> bool) l : length (filter p l) = length l -> forall x, In x l -> p x = true.
Proof.
  induction l as [|y l IH]; intros H x Hx; [destruct Hx|]. cbn [filter] in H. destruct (p y) eqn:E.
  - cbn [length] in H. destruct Hx as [->|Hx]; [exact E|]. apply IH; [lia|exact Hx].
  - pose proof (filter_length_le p l). cbn [length] in H. lia.
Qed.

Lemma map_nth_seq (cs : list bytes) : map (fun i => nth i cs []) (seq 0 (length cs)) = cs.
Proof.
  induction cs as [|c cs IH]; [reflexivity|]. cbn [length seq map nth]. f_equal.
  rewrite <- seq_shift, map_map. exact IH.
Qed.

Lemma map_const_repeat {A} (v : A) n a : map (fun _ : nat => v) (seq a n) = repeat v n.
Proof. revert a; induction n as [|n IH]; intros a; [reflexivity|]. cbn [seq map repeat]. now rewrite IH. Qed.

(* ------------------------------------------------------------------------------------------------ *)
(* messages as the sender emits them *)
Record mrec := mkM { m_base : N; m_multi : bool; m_cs : list bytes; m_tok : bytes; m_inface : option N; m_mark : option N }.
Definition mdummy : mrec := mkM 0 false [] [] None None.

Definition frame_of (m : mrec) (i : nat) : lpf :=
  let c := nth i (m_cs m) [] in
  if m_multi m
  then mkLpf (Some (u64 (m_base m + N.of_nat i))) (Some (N.of_nat i)) (Some (N.of_nat (length (m_cs m))))
             (m_tok m) (m_inface m) None None (m_mark m) (Some c)
  else mkLpf None None None (m_tok m) (m_inface m) None None (m_mark m) (Some c).

Definition frames_of_m (m : mrec) : list lpf := map (frame_of m) (seq 0 (length (m_cs m))).

Definition wf_m (m : mrec) : Prop :=
  Forall (fun c => nonempty c = true) (m_cs m) /\
  (if m_multi m then N.of_nat (length (m_cs m)) <= c_maxFragCount /\ m_base m < two64 else (length (m_cs m) <= 1)%nat).

Definition big (m : mrec) : bool := m_multi m && (2 <=? length (m_cs m))%nat.    (* goes through the store *)

(* distinct base sequences among the messages that are reassembled *)
Definition bases_distinct (ms : list mrec) : Prop :=
  forall j1 j2 m1 m2, nth_error ms j1 = Some m1 -> nth_error ms j2 = Some m2 -> big m1 = true -> big m2 = true ->
                      m_base m1 = m_base m2 -> j1 = j2.

Definition triple (m : mrec) : bytes * bytes * option N := (concat (m_cs m), m_tok m, m_mark m).

(* link-level run: what is handed up *)
Definition link_rx (s : list (N * list bytes)) (f : lpf) : lres :=
  match f_frag f with Some frag => lp_receive true true s f frag | None => LDrop s end.

Fixpoint link_run (s : list (N * list bytes)) (ups : list (bytes * bytes * option N)) (fs : list lpf)
  : option (list (N * list bytes) * list (bytes * bytes * option N)) :=
  match fs with
  | [] => Some (s, ups)
  | f :: r =>
    match link_rx s f with
    | LPanic => None
    | LDrop s' => link_run s' ups r
    | LUp s' p => link_run s' ((p, f_tok f, f_mark f) :: ups) r
    end
  end.

(* ------------------------------------------------------------------------------------------------ *)
(* frame identifiers (message index, fragment index) *)
Definition fid := (nat * nat)%type.
Definition fr (ms : list mrec) (id : fid) : lpf := frame_of (nth (fst id) ms mdummy) (snd id).
Definition valid (ms : list mrec) (id : fid) : Prop :=
  (fst id < length ms)%nat /\ (snd id < length (m_cs (nth (fst id) ms mdummy)))%nat.

Fixpoint ids_from (j : nat) (ms : list mrec) : list fid :=
  match ms with [] => [] | m :: r => map (pair j) (seq 0 (length (m_cs m))) ++ ids_from (S j) r end.
Definition all_ids (ms : list mrec) : list fid := ids_from 0 ms.

Definition got (j : nat) (done : list fid) : nat := length (filter (fun id => (fst id =? j)%nat) done).
Definition has (done : list fid) (j i : nat) : bool := existsb (fun id => (fst id =? j)%nat && (snd id =? i)%nat) done.
Definition slots (m : mrec) (j : nat) (done : list fid) : list bytes :=
  map (fun i => if has done j i then nth i (m_cs m) [] else []) (seq 0 (length (m_cs m))).
Definition complete (j : nat) (m : mrec) (done : list fid) : bool :=
  (0 <? length (m_cs m))%nat && (got j done =? length (m_cs m))%nat.
Definition ups_of (l : list (nat * mrec)) (done : list fid) : list (bytes * bytes * option N) :=
  flat_map (fun jm => if complete (fst jm) (snd jm) done then [triple (snd jm)] else []) l.
Definition indexed (ms : list mrec) : list (nat * mrec) := combine (seq 0 (length ms)) ms.

Lemma has_false_notin done j i : ~ In (j, i) done -> has done j i = false.
Proof.
  intros H. unfold has. apply Bool.not_true_is_false. intros E. apply existsb_exists in E as ([a b] & Hin & Hab).
  cbn [fst snd] in Hab. apply andb_true_iff in Hab as [Ha Hb]. apply Nat.eqb_eq in Ha, Hb. subst. contradiction.
Qed.
Lemma has_pos_got done j i : has done j i = true -> (0 < got j done)%nat.
Proof.
  unfold has, got. intros E. apply existsb_exists in E as (id & Hin & Hab). apply andb_true_iff in Hab as [Ha _].
  assert (Hf : In id (filter (fun id => (fst id =? j)%nat) done)) by (apply filter_In; split; assumption).
  destruct (filter (fun id => (fst id =? j)%nat) done); [destruct Hf|cbn; lia].
Qed.
Lemma has_cons done j0 i0 j i : has ((j0, i0) :: done) j i = ((j0 =? j)%nat && (i0 =? i)%nat) || has done j i.
Proof. reflexivity. Qed.
Lemma got_cons_same done j i : got j ((j, i) :: done) = S (got j done).
Proof. unfold got. cbn [filter fst]. now rewrite Nat.eqb_refl. Qed.
Lemma got_cons_other done j j0 i : j0 <> j -> got j ((j0, i) :: done) = got j done.
Proof. intros H. unfold got. cbn [filter fst]. now replace (j0 =? j)%nat with false by (symmetry; apply Nat.eqb_neq; exact H). Qed.
Lemma slots_cons_other m done j j0 i : j0 <> j -> slots m j ((j0, i) :: done) = slots m j done.
Proof.
  intros H. unfold slots. apply map_ext. intros k. rewrite has_cons.
  now replace (j0 =? j)%nat with false by (symmetry; apply Nat.eqb_neq; exact H).
Qed.
Lemma slots_cons_same m done j i : (i < length (m_cs m))%nat ->
  slots m j ((j, i) :: done) = set_nth i (nth i (m_cs m) []) (slots m j done).
Proof.
  intros Hi. unfold slots. rewrite set_nth_map_seq by exact Hi. apply map_ext. intros k. rewrite has_cons, Nat.eqb_refl. cbn [andb Nat.add].
  destruct (Nat.eqb_spec i k) as [->|Hne].
  - rewrite Nat.eqb_refl. reflexivity.
  - replace (k =? i)%nat with false by (symmetry; apply Nat.eqb_neq; congruence). reflexivity.
Qed.
Lemma slots_length m j done : length (slots m j done) = length (m_cs m).
Proof. unfold slots. now rewrite map_length, seq_length. Qed.
Lemma nth_map_seq {A} (f : nat -> A) d : forall n a i, (i < n)%nat -> nth i (map f (seq a n)) d = f (a + i)%nat.
Proof.
  induction n as [|n IH]; intros a i Hi; [lia|]. cbn [seq map]. destruct i as [|i]; cbn [nth].
  - now rewrite Nat.add_0_r.
  - rewrite IH by lia. f_equal. lia.
Qed.
Lemma slots_nth_empty m j done i : (i < length (m_cs m))%nat -> has done j i = false -> nth i (slots m j done) [] = [].
Proof. intros Hi Hh. unfold slots. rewrite nth_map_seq by exact Hi. cbn [Nat.add]. now rewrite Hh. Qed.
Lemma slots_none m j done : got j done = 0%nat -> slots m j done = repeat [] (length (m_cs m)).
Proof.
  intros H. unfold slots. rewrite <- (map_const_repeat [] (length (m_cs m)) 0). apply map_ext. intros k.
  destruct (has done j k) eqn:E; [|reflexivity]. apply has_pos_got in E. lia.
Qed.
Lemma slots_full m j done : Forall (fun c => nonempty c = true) (m_cs m) ->
  length (filter nonempty (slots m j done)) = length (m_cs m) -> slots m j done = m_cs m.
Proof.
  intros Hne H. rewrite <- (slots_length m j done) in H. pose proof (filter_all _ _ H) as Hall.
  transitivity (map (fun i => nth i (m_cs m) []) (seq 0 (length (m_cs m)))); [|apply map_nth_seq].
  unfold slots in *. apply map_ext_in. intros k Hk.
  destruct (has done j k) eqn:E; [reflexivity|].
  specialize (Hall ((fun i => if has done j i then nth i (m_cs m) [] else []) k) (in_map _ _ _ Hk)). cbn beta in Hall.
  rewrite E in Hall. discriminate.
Qed.

(* ------------------------------------------------------------------------------------------------ *)
(* ups_of under one more frame *)
Lemma complete_cons_other j m done j0 i : j0 <> j -> complete j m ((j0, i) :: done) = complete j m done.
Proof. intros H. unfold complete. now rewrite got_cons_other. Qed.

Lemma ups_of_same l done j0 i :
  (forall jm, In jm l -> fst jm <> j0) -> ups_of l ((j0, i) :: done) = ups_of l done.
Proof.
  intros H. unfold ups_of. induction l as [|jm l IH]; [reflexivity|]. cbn [flat_map].
  rewrite complete_cons_other by (intros E; apply (H jm (or_introl eq_refl)); now symmetry).
  f_equal. apply IH. intros x Hx. apply H. now right.
Qed.

Lemma ups_of_cons jm l done :
  ups_of (jm :: l) done = (if complete (fst jm) (snd jm) done then [triple (snd jm)] else []) ++ ups_of l done.
Proof. reflexivity. Qed.

Lemma ups_of_step l done j0 i0 m0 :
  NoDup (map fst l) -> In (j0, m0) l ->
  complete j0 m0 done = false ->
  Permutation ((if complete j0 m0 ((j0, i0) :: done) then [triple m0] else []) ++ ups_of l done) (ups_of l ((j0, i0) :: done)).
Proof.
  intros Hnd Hin Hc. induction l as [|[j m] l IH]; [destruct Hin|].
  cbn [map fst] in Hnd. inversion Hnd as [|? ? Hnotin Hnd']; subst.
  rewrite !ups_of_cons. cbn [fst snd].
  destruct Hin as [E|Hin].
  - inversion E; subst j m. rewrite Hc. cbn [app].
    rewrite (ups_of_same l done j0 i0); [apply Permutation_refl|].
    intros jm Hjm Efst. apply Hnotin. rewrite <- Efst. now apply in_map.
  - assert (Hne : j0 <> j) by (intros ->; apply Hnotin; change j with (fst (j, m0)); now apply in_map).
    rewrite (complete_cons_other j m done j0 i0 Hne).
    specialize (IH Hnd' Hin).
    set (X := if complete j0 m0 ((j0, i0) :: done) then [triple m0] else []) in *.
    set (Y := if complete j m done then [triple m] else []).
    rewrite app_assoc. eapply Permutation_trans; [apply Permutation_app_tail, Permutation_app_comm|].
    rewrite <- app_assoc. now apply Permutation_app_head.
Qed.

Lemma map_fst_combine_eq {A B} (l : list A) : forall (l' : list B), length l = length l' -> map fst (combine l l') = l.
Proof. induction l as [|x l IH]; intros [|y l'] H; cbn in *; try lia; [reflexivity|]. f_equal. apply IH. lia. Qed.
Lemma indexed_fst_nodup ms : NoDup (map fst (indexed ms)).
Proof. unfold indexed. rewrite map_fst_combine_eq by (now rewrite seq_length). apply seq_NoDup. Qed.

Lemma combine_seq_nth_error {A} (l : list A) : forall a j x,
  nth_error l j = Some x -> nth_error (combine (seq a (length l)) l) j = Some ((a + j)%nat, x).
Proof.
  induction l as [|y l IH]; intros a j x H; [destruct j; discriminate|].
  cbn [length seq combine]. destruct j as [|j]; cbn [nth_error] in *.
  - inversion H; subst. now rewrite Nat.add_0_r.
  - rewrite (IH (S a) j x H). f_equal. f_equal. lia.
Qed.

(* ------------------------------------------------------------------------------------------------ *)
(* the invariant *)
Section Run.
Variable ms : list mrec.
Hypothesis Hwf : Forall wf_m ms.
Hypothesis Hbases : bases_distinct ms.

Record Inv (done : list fid) (store : list (N * list bytes)) (ups : list (bytes * bytes * option N)) : Prop := mkInv {
  inv_store : forall j m, nth_error ms j = Some m -> big m = true ->
     st_get (m_base m) store =
       if ((0 <? got j done) && (got j done <? length (m_cs m)))%nat then Some (slots m j done) else None;
  inv_other : forall b, (forall j m, nth_error ms j = Some m -> big m = true -> m_base m <> b) -> st_get b store = None;
  inv_count : forall j m, nth_error ms j = Some m -> length (filter nonempty (slots m j done)) = got j done;
  inv_ups : Permutation ups (ups_of (indexed ms) done) }.

Lemma valid_nth_error id : valid ms id -> nth_error ms (fst id) = Some (nth (fst id) ms mdummy).
Proof. intros [H _]. now apply nth_error_nth'. Qed.

Lemma wf_nth j m : nth_error ms j = Some m -> wf_m m.
Proof. intros H. rewrite Forall_forall in Hwf. apply Hwf. eapply nth_error_In; exact H. Qed.

Lemma indexed_in j m : nth_error ms j = Some m -> In (j, m) (indexed ms).
Proof.
  intros H. unfold indexed. eapply nth_error_In. rewrite (combine_seq_nth_error ms 0 j m H). reflexivity.
Qed.

Lemma nth_error_inj_idx j m m' : nth_error ms j = Some m -> nth_error ms j = Some m' -> m = m'.
Proof. congruence. Qed.

Lemma count_repeat_empty n : filter nonempty (repeat [] n) = [].
Proof. induction n as [|n IH]; [reflexivity|]. cbn [repeat filter nonempty]. exact IH. Qed.

(* one more frame *)
Lemma step_inv done store ups j0 i0 :
  Inv done store ups -> valid ms (j0, i0) -> ~ In (j0, i0) done ->
  exists store' ups',
    ((link_rx store (fr ms (j0, i0)) = LDrop store' /\ ups' = ups) \/
     (exists p, link_rx store (fr ms (j0, i0)) = LUp store' p /\
                ups' = (p, f_tok (fr ms (j0, i0)), f_mark (fr ms (j0, i0))) :: ups)) /\
    Inv ((j0, i0) :: done) store' ups'.
Proof.
  intros HI Hv Hnotin.
  pose proof (valid_nth_error _ Hv) as Hm0. destruct Hv as [Hj0 Hi0]. cbn [fst snd] in *.
  set (m0 := nth j0 ms mdummy) in *.
  pose proof (wf_nth _ _ Hm0) as [Hne Hshape].
  set (n := length (m_cs m0)) in *.
  set (c := nth i0 (m_cs m0) []).
  assert (Hc : nonempty c = true).
  { rewrite Forall_forall in Hne. apply Hne. apply nth_In. exact Hi0. }
  assert (Hhas : has done j0 i0 = false) by (now apply has_false_notin).
  set (W := slots m0 j0 done).
  assert (HWlen : length W = n) by apply slots_length.
  assert (HWi : nth i0 W [] = []) by (now apply slots_nth_empty).
  assert (HW' : slots m0 j0 ((j0, i0) :: done) = set_nth i0 c W) by (now apply slots_cons_same).
  assert (Hcount : length (filter nonempty W) = got j0 done) by (now apply (inv_count _ _ _ HI)).
  assert (Hcount' : length (filter nonempty (set_nth i0 c W)) = S (got j0 done)).
  { rewrite filter_count_set_nth; [now rewrite Hcount|unfold W; rewrite slots_length; exact Hi0|exact HWi|exact Hc]. }
  assert (Hgot_lt : (got j0 done < n)%nat).
  { pose proof (filter_length_le nonempty (set_nth i0 c W)) as Hle. rewrite set_nth_length, Hcount', HWlen in Hle. lia. }
  assert (Hcompl_old : complete j0 m0 done = false).
  { unfold complete. fold n. replace (got j0 done =? n)%nat with false by (symmetry; apply Nat.eqb_neq; lia). apply andb_false_r. }
  assert (Hcompl_new : complete j0 m0 ((j0, i0) :: done) = (S (got j0 done) =? n)%nat).
  { unfold complete. fold n. rewrite got_cons_same. replace (0 <? n)%nat with true by (symmetry; apply Nat.ltb_lt; lia). reflexivity. }
  (* parts of the new invariant that do not depend on the kind of frame *)
  assert (Hcnt_new : forall j m, nth_error ms j = Some m -> length (filter nonempty (slots m j ((j0, i0) :: done))) = got j ((j0, i0) :: done)).
  { intros j m Hjm. destruct (Nat.eq_dec j0 j) as [<-|Hne'].
    - assert (m = m0) by congruence. subst m. rewrite HW', Hcount', got_cons_same. reflexivity.
    - rewrite slots_cons_other, got_cons_other by exact Hne'. now apply (inv_count _ _ _ HI). }
  assert (Hups_new : forall X, X = (if (S (got j0 done) =? n)%nat then [triple m0] else []) ->
                     Permutation (X ++ ups) (ups_of (indexed ms) ((j0, i0) :: done))).
  { intros X ->. rewrite <- Hcompl_new.
    eapply Permutation_trans; [apply Permutation_app_head, (inv_ups _ _ _ HI)|].
    apply ups_of_step; [apply indexed_fst_nodup|now apply indexed_in|exact Hcompl_old]. }
  assert (Hstore_other : forall j m, nth_error ms j = Some m -> big m = true -> j <> j0 ->
            (if ((0 <? got j ((j0, i0) :: done)) && (got j ((j0, i0) :: done) <? length (m_cs m)))%nat then Some (slots m j ((j0, i0) :: done)) else None)
            = st_get (m_base m) store).
  { intros j m Hjm Hbig Hne'. rewrite slots_cons_other, got_cons_other by congruence. symmetry. now apply (inv_store _ _ _ HI). }
  destruct (big m0) eqn:Hbig.
  - (* a fragment of a message that goes through the store *)
    unfold big in Hbig. apply andb_true_iff in Hbig as [Hmulti Hn2]. apply Nat.leb_le in Hn2. fold n in Hn2.
    rewrite Hmulti in Hshape. destruct Hshape as [Hmax Hbase]. fold n in Hmax.
    assert (Hbig0 : big m0 = true) by (unfold big; rewrite Hmulti; cbn [andb]; apply Nat.leb_le; exact Hn2).
    pose proof consts_maxfrag_small as Hmfs.
    assert (Hfr : fr ms (j0, i0) = mkLpf (Some (u64 (m_base m0 + N.of_nat i0))) (Some (N.of_nat i0)) (Some (N.of_nat n))
                                     (m_tok m0) (m_inface m0) None None (m_mark m0) (Some c)).
    { unfold fr, frame_of. cbn [fst snd]. fold m0. now rewrite Hmulti. }
    assert (Hcur : (match st_get (m_base m0) store with
                    | None => Some (repeat [] (N.to_nat (N.of_nat n)))
                    | Some sl => if negb (N.of_nat (length sl) =? N.of_nat n) then None else Some sl
                    end) = Some W).
    { rewrite (inv_store _ _ _ HI j0 m0 Hm0 Hbig0). fold n.
      destruct (0 <? got j0 done)%nat eqn:E0.
      - replace (got j0 done <? n)%nat with true by (symmetry; apply Nat.ltb_lt; lia). cbn [andb].
        fold W. rewrite HWlen, N.eqb_refl. reflexivity.
      - cbn [andb]. rewrite Nat2N.id. apply Nat.ltb_ge in E0. unfold W. rewrite slots_none by lia. reflexivity. }
    assert (Hrx : link_rx store (fr ms (j0, i0)) =
                  if (S (got j0 done) =? n)%nat then LUp (st_del (m_base m0) store) (concat (set_nth i0 c W))
                  else LDrop (st_set (m_base m0) (set_nth i0 c W) store)).
    { rewrite Hfr. unfold link_rx, lp_receive. cbn [f_frag f_seq f_idx f_cnt].
      rewrite base_recovered by (unfold two64 in *; lia).
      replace ((N.of_nat i0 =? 0) && (N.of_nat n =? 1)) with false by (symmetry; apply andb_false_iff; right; apply N.eqb_neq; lia).
      unfold reassemble.
      replace (c_maxFragCount <? N.of_nat n) with false by lia.
      replace (N.of_nat n <=? N.of_nat i0) with false by lia. cbn [orb andb].
      rewrite Hcur. rewrite HWlen.
      replace (N.of_nat n <=? N.of_nat i0) with false by lia.
      rewrite Nat2N.id, Hcount', set_nth_length, HWlen.
      destruct (S (got j0 done) =? n)%nat; reflexivity. }
    destruct (S (got j0 done) =? n)%nat eqn:Edone.
    + (* the last missing fragment: the message is handed up and leaves the store *)
      apply Nat.eqb_eq in Edone.
      assert (Hfull : set_nth i0 c W = m_cs m0).
      { rewrite <- HW'. apply slots_full; [exact Hne|]. rewrite HW', Hcount'. exact Edone. }
      exists (st_del (m_base m0) store), ((concat (m_cs m0), m_tok m0, m_mark m0) :: ups). split.
      * right. exists (concat (m_cs m0)). rewrite Hrx, Hfull, Hfr. cbn [f_tok f_mark]. split; reflexivity.
      * constructor.
        -- intros j m Hjm Hbigm. destruct (Nat.eq_dec j j0) as [->|Hne'].
           ++ assert (m = m0) by congruence. subst m. rewrite st_get_del_same, got_cons_same. fold n.
              replace (S (got j0 done) <? n)%nat with false by (symmetry; apply Nat.ltb_ge; lia). now rewrite andb_false_r.
           ++ rewrite st_get_del_other; [symmetry; now apply Hstore_other|].
              intros Eb. apply Hne'. eapply Hbases; eauto.
        -- intros b Hb. rewrite st_get_del_other; [now apply (inv_other _ _ _ HI)|]. intros ->. now apply (Hb j0 m0 Hm0 Hbig0).
        -- exact Hcnt_new.
        -- apply (Hups_new [triple m0]). now replace (S (got j0 done) =? n)%nat with true by (symmetry; apply Nat.eqb_eq; exact Edone).
    + (* still incomplete: stored *)
      apply Nat.eqb_neq in Edone.
      exists (st_set (m_base m0) (set_nth i0 c W) store), ups. split.
      * left. rewrite Hrx. split; reflexivity.
      * constructor.
        -- intros j m Hjm Hbigm. destruct (Nat.eq_dec j j0) as [->|Hne'].
           ++ assert (m = m0) by congruence. subst m. rewrite st_get_set_same, got_cons_same, HW'. fold n.
              replace (S (got j0 done) <? n)%nat with true by (symmetry; apply Nat.ltb_lt; lia). reflexivity.
           ++ rewrite st_get_set_other; [symmetry; now apply Hstore_other|].
              intros Eb. apply Hne'. eapply Hbases; eauto.
        -- intros b Hb. rewrite st_get_set_other; [now apply (inv_other _ _ _ HI)|]. intros ->. now apply (Hb j0 m0 Hm0 Hbig0).
        -- exact Hcnt_new.
        -- apply (Hups_new []). now replace (S (got j0 done) =? n)%nat with false by (symmetry; apply Nat.eqb_neq; exact Edone).
  - (* the only frame of its message: handed up at once, the store is not touched *)
    assert (Hn1 : n = 1%nat).
    { unfold big in Hbig. destruct (m_multi m0); cbn [andb] in Hbig; [apply Nat.leb_gt in Hbig; fold n in Hbig; lia|lia]. }
    assert (Hi00 : i0 = 0%nat) by lia. subst i0.
    assert (Hcs : m_cs m0 = [c]).
    { clear - Hn1. unfold c, n in *. destruct (m_cs m0) as [|x [|y r]]; cbn [length] in Hn1; try lia. reflexivity. }
    assert (Hgot0 : got j0 done = 0%nat) by lia.
    assert (Hrx : link_rx store (fr ms (j0, 0%nat)) = LUp store c).
    { unfold fr, frame_of. cbn [fst snd]. fold m0. fold c. destruct (m_multi m0); unfold link_rx, lp_receive; cbn [f_frag f_seq f_idx f_cnt].
      - fold n. rewrite Hn1. reflexivity.
      - reflexivity. }
    assert (Htm : f_tok (fr ms (j0, 0%nat)) = m_tok m0 /\ f_mark (fr ms (j0, 0%nat)) = m_mark m0).
    { unfold fr, frame_of. cbn [fst snd]. fold m0. destruct (m_multi m0); split; reflexivity. }
    exists store, ((concat (m_cs m0), m_tok m0, m_mark m0) :: ups). split.
    + right. exists c. rewrite Hrx. destruct Htm as [-> ->]. rewrite Hcs. cbn [concat]. rewrite app_nil_r. split; reflexivity.
    + constructor.
      * intros j m Hjm Hbigm. assert (Hne' : j <> j0) by (intros ->; assert (m = m0) by congruence; subst m; congruence).
        symmetry. now apply Hstore_other.
      * exact (inv_other _ _ _ HI).
      * exact Hcnt_new.
      * apply (Hups_new [triple m0]). rewrite Hgot0, Hn1. reflexivity.
Qed.

Lemma inv_init : Inv [] [] [].
Proof.
  constructor.
  - intros j m _ _. reflexivity.
  - intros b _. reflexivity.
  - intros j m _. rewrite slots_none by reflexivity. now rewrite count_repeat_empty.
  - unfold ups_of. induction (indexed ms) as [|[j m] l IH]; [constructor|]. cbn [flat_map fst snd].
    unfold complete at 1. cbn [got filter length]. destruct (length (m_cs m)); cbn; exact IH.
Qed.

Lemma link_run_inv : forall todo done store ups,
  Inv done store ups -> (forall id, In id todo -> valid ms id) -> NoDup (todo ++ done) ->
  exists store' ups', link_run store ups (map (fr ms) todo) = Some (store', ups') /\ Inv (rev todo ++ done) store' ups'.
Proof.
  induction todo as [|[j0 i0] todo IH]; intros done store ups HI Hval Hnd.
  - exists store, ups. split; [reflexivity|exact HI].
  - cbn [app] in Hnd. inversion Hnd as [|? ? Hnotin Hnd']; subst.
    assert (Hnotin' : ~ In (j0, i0) done) by (intros H; apply Hnotin; apply in_or_app; now right).
    destruct (step_inv done store ups j0 i0 HI (Hval _ (or_introl eq_refl)) Hnotin') as (store1 & ups1 & Hrx & HI1).
    assert (Hnd1 : NoDup (todo ++ (j0, i0) :: done)).
    { (* (j0,i0) :: todo ++ done is a permutation of todo ++ (j0,i0) :: done *)
      eapply Permutation_NoDup; [apply Permutation_middle|]. constructor; assumption. }
    destruct (IH ((j0, i0) :: done) store1 ups1 HI1 (fun id H => Hval id (or_intror H)) Hnd1) as (store' & ups' & Hrun & HI').
    exists store', ups'. split.
    + cbn [map link_run]. destruct Hrx as [[-> ->]|(p & -> & ->)]; exact Hrun.
    + cbn [rev]. rewrite <- app_assoc. exact HI'.
Qed.
End Run.

(* ------------------------------------------------------------------------------------------------ *)
(* identifiers of all frames *)
Lemma got_app j a b : got j (a ++ b) = (got j a + got j b)%nat.
Proof. unfold got. now rewrite filter_app, app_length. Qed.
Lemma got_pairs j a n : got j (map (pair a) (seq 0 n)) = if (a =? j)%nat then n else 0%nat.
Proof.
  unfold got.
  assert (G : forall s, length (filter (fun id : nat * nat => (fst id =? j)%nat) (map (pair a) (seq s n))) = if (a =? j)%nat then n else 0%nat).
  { induction n as [|n IH]; intros s; [now destruct (a =? j)%nat|].
    cbn [seq map filter fst]. destruct (a =? j)%nat eqn:E; cbn [length]; rewrite IH; reflexivity. }
  apply G.
Qed.

Lemma got_ids_from_below ms : forall a j, (j < a)%nat -> got j (ids_from a ms) = 0%nat.
Proof.
  induction ms as [|m ms IH]; intros a j H; [reflexivity|]. cbn [ids_from]. rewrite got_app, got_pairs, IH by lia.
  now replace (a =? j)%nat with false by (symmetry; apply Nat.eqb_neq; lia).
Qed.
Lemma got_ids_from ms : forall a k m, nth_error ms k = Some m -> got (a + k) (ids_from a ms) = length (m_cs m).
Proof.
  induction ms as [|x ms IH]; intros a k m H; [destruct k; discriminate|]. cbn [ids_from]. rewrite got_app, got_pairs.
  destruct k as [|k]; cbn [nth_error] in H.
  - inversion H; subst. rewrite Nat.add_0_r, Nat.eqb_refl, got_ids_from_below by lia. lia.
  - replace (a =? a + S k)%nat with false by (symmetry; apply Nat.eqb_neq; lia).
    replace (a + S k)%nat with (S a + k)%nat by lia. now rewrite (IH (S a) k m H).
Qed.

Lemma in_ids_from ms : forall a id, In id (ids_from a ms) ->
  (a <= fst id)%nat /\ (fst id - a < length ms)%nat /\ (snd id < length (m_cs (nth (fst id - a) ms mdummy)))%nat.
Proof.
  induction ms as [|m ms IH]; intros a id H; [destruct H|]. cbn [ids_from] in H. apply in_app_or in H as [H|H].
  - apply in_map_iff in H as (i & <- & Hi). apply in_seq in Hi. cbn [fst snd length]. rewrite Nat.sub_diag. cbn [nth]. lia.
  - destruct (IH (S a) id H) as (H1 & H2 & H3). cbn [length]. replace (fst id - a)%nat with (S (fst id - S a)) by lia. cbn [nth]. lia.
Qed.
Lemma all_ids_valid ms id : In id (all_ids ms) -> valid ms id.
Proof. intros H. apply in_ids_from in H as (_ & H2 & H3). rewrite Nat.sub_0_r in *. split; assumption. Qed.

Lemma NoDup_app_intro {A} (a b : list A) : NoDup a -> NoDup b -> (forall x, In x a -> In x b -> False) -> NoDup (a ++ b).
Proof.
  induction a as [|x a IH]; intros Ha Hb Hd; [exact Hb|]. cbn [app]. inversion Ha as [|? ? Hx Ha']; subst. constructor.
  - intros H. apply in_app_or in H as [H|H]; [contradiction|]. apply (Hd x); [now left|exact H].
  - apply IH; [exact Ha'|exact Hb|]. intros y Hy1 Hy2. apply (Hd y); [now right|exact Hy2].
Qed.
Lemma ids_from_nodup ms : forall a, NoDup (ids_from a ms).
Proof.
  induction ms as [|m ms IH]; intros a; [constructor|]. cbn [ids_from].
  apply NoDup_app_intro.
  - apply FinFun.Injective_map_NoDup; [intros x y E; now inversion E|apply seq_NoDup].
  - apply IH.
  - intros id H1 H2. apply in_map_iff in H1 as (i & <- & _). apply in_ids_from in H2 as (H2 & _). cbn [fst] in H2. lia.
Qed.

Lemma got_perm j l l' : Permutation l l' -> got j l = got j l'.
Proof.
  intros H. unfold got. induction H; cbn [filter]; try lia.
  - destruct (fst x =? j)%nat; cbn [length]; lia.
  - destruct (fst x =? j)%nat, (fst y =? j)%nat; reflexivity.
Qed.

Lemma frames_all_ids ms : concat (map frames_of_m ms) = map (fr ms) (all_ids ms).
Proof.
  unfold all_ids.
  assert (G : forall pre l, concat (map frames_of_m l) = map (fr (pre ++ l)) (ids_from (length pre) l)).
  { intros pre l. revert pre. induction l as [|m l IH]; intros pre; [reflexivity|].
    cbn [map concat ids_from]. rewrite map_app, map_map. f_equal.
    - unfold frames_of_m. apply map_ext. intros i. unfold fr. cbn [fst snd]. now rewrite app_nth2, Nat.sub_diag by lia.
    - specialize (IH (pre ++ [m])). rewrite <- app_assoc in IH. cbn [app] in IH. rewrite app_length in IH. cbn [length] in IH.
      now replace (length pre + 1)%nat with (S (length pre)) in IH by lia. }
  exact (G [] ms).
Qed.

Lemma ups_of_final ms : forall a done,
  (forall k m, nth_error ms k = Some m -> got (a + k) done = length (m_cs m)) ->
  ups_of (combine (seq a (length ms)) ms) done = flat_map (fun m => if (0 <? length (m_cs m))%nat then [triple m] else []) ms.
Proof.
  induction ms as [|m ms IH]; intros a done H; [reflexivity|]. cbn [length seq combine]. rewrite ups_of_cons. cbn [fst snd flat_map].
  f_equal.
  - unfold complete. specialize (H 0%nat m eq_refl). rewrite Nat.add_0_r in H. now rewrite H, Nat.eqb_refl, andb_true_r.
  - apply IH. intros k m' Hk. specialize (H (S k) m' Hk). now replace (S a + k)%nat with (a + S k)%nat by lia.
Qed.

(* ------------------------------------------------------------------------------------------------ *)
(* the link-level theorem on message records *)
Theorem reassembly_records : forall ms fs,
  Forall wf_m ms -> bases_distinct ms ->
  Permutation (concat (map frames_of_m ms)) fs ->
  exists store ups,
    link_run [] [] fs = Some (store, ups) /\
    (forall b, st_get b store = None) /\
    Permutation ups (flat_map (fun m => if (0 <? length (m_cs m))%nat then [triple m] else []) ms).
Proof.
  intros ms fs Hwf Hb Hperm. rewrite frames_all_ids in Hperm. apply Permutation_sym in Hperm.
  destruct (Permutation_map_inv _ _ Hperm) as (ids & -> & Hids).
  assert (Hval : forall id, In id ids -> valid ms id).
  { intros id H. apply all_ids_valid. eapply Permutation_in; [apply Permutation_sym; exact Hids|exact H]. }
  assert (Hnd : NoDup (ids ++ [])).
  { rewrite app_nil_r. eapply Permutation_NoDup; [exact Hids|apply ids_from_nodup]. }
  destruct (link_run_inv ms Hwf Hb ids [] [] [] (inv_init ms) Hval Hnd) as (store & ups & Hrun & HI).
  rewrite app_nil_r in HI.
  assert (Hgot : forall k m, nth_error ms k = Some m -> got k (rev ids) = length (m_cs m)).
  { intros k m Hk. rewrite (got_perm k (rev ids) (all_ids ms)).
    - exact (got_ids_from ms 0 k m Hk).
    - eapply Permutation_trans; [apply Permutation_sym, Permutation_rev|apply Permutation_sym; exact Hids]. }
  exists store, ups. split; [exact Hrun|]. split.
  - intros b.
    destruct (st_get b store) as [sl|] eqn:E; [|reflexivity]. exfalso.
    (* either b is the base of a message that goes through the store - then it is complete - or of none *)
    assert (Hcase : (exists j m, nth_error ms j = Some m /\ big m = true /\ m_base m = b) \/
                    (forall j m, nth_error ms j = Some m -> big m = true -> m_base m <> b)).
    { clear - ms. induction ms as [|m l IH].
      - right. intros j m H. destruct j; discriminate.
      - destruct (big m && (m_base m =? b)) eqn:Em.
        + apply andb_true_iff in Em as [E1 E2]. apply N.eqb_eq in E2. left. exists 0%nat, m. repeat split; assumption.
        + destruct IH as [(j & m' & H1 & H2 & H3)|IH].
          * left. exists (S j), m'. repeat split; assumption.
          * right. intros [|j] m' H Hbig; cbn [nth_error] in H.
            -- inversion H; subst m'. rewrite Hbig in Em. cbn [andb] in Em. now apply N.eqb_neq in Em.
            -- now apply (IH j m'). }
    destruct Hcase as [(j & m & Hjm & Hbig & <-)|Hnone].
    + rewrite (inv_store _ _ _ _ HI j m Hjm Hbig), (Hgot j m Hjm), Nat.ltb_irrefl, andb_false_r in E. discriminate.
    + rewrite (inv_other _ _ _ _ HI b Hnone) in E. discriminate.
  - eapply Permutation_trans; [exact (inv_ups _ _ _ _ HI)|]. unfold indexed.
    rewrite (ups_of_final ms 0 (rev ids)); [apply Permutation_refl|]. intros k m Hk. now apply Hgot.
Qed.
