(* Face/Lp.v — executable model of the NDNLPv2 link service of the forwarder (fw/face/ndnlp-link-service.go:
   sendPacket, handleIncomingFrame, reassemblePacket; fw/face/link-service.go: dispatchInterest/dispatchData;
   fw/dispatch/fw.go: GetFWThread).  No proofs here.

   Send side: `send_packet` produces the exact bytes of every frame handed to transport.sendFrame (the LpPacket
   encoding done by spec.PacketEncoder is `lp_encode`).  Receive side: `handle_frame` works on the *decoded* frame
   (type dpkt, the result of spec.ReadPacket); the decoder itself belongs to the codec family.  A small decoder for
   the frames this link service emits (`pkt_decode`) is defined here so that send -> receive theorems are closed.
   `guard` = true models the current code; false the code before the repairs (used by *_refuted_before_fix lemmas). *)
From Base Require Import Bytes VarNum.
From Face Require Import GenConsts Stream.
Open Scope N_scope.

(* ------------------------------------------------------------------------------------------------ *)
(* LpPacket fields used by the link service.  f_tok = [] means "no PIT token" (the code tests len > 0). *)
Record lpf := mkLpf {
  f_seq : option N; f_idx : option N; f_cnt : option N; f_tok : bytes;
  f_inface : option N; f_nexthop : option N; f_cachepol : option N; f_mark : option N;
  f_frag : option bytes }.

(* TLV-TYPE numbers of std/ndn/spec_2022/definitions.go (LpPacket 0x64, Fragment 0x50, Sequence 0x51, FragIndex 0x52,
   FragCount 0x53, PitToken 0x62, IncomingFaceId 0x032C, CongestionMark 0x0340) *)
Definition T_LP : N := 100.  Definition T_FRAG : N := 80.  Definition T_SEQ : N := 81.  Definition T_IDX : N := 82.
Definition T_CNT : N := 83. Definition T_TOK : N := 98.   Definition T_INFACE : N := 812. Definition T_MARK : N := 832.

Definition tlv (typ : N) (v : bytes) : bytes := tl_enc typ ++ tl_enc (lenN v) ++ v.
Definition opt_tlv (typ : N) (o : option bytes) : bytes := match o with Some v => tlv typ v | None => [] end.

Definition tok_tlv (t : bytes) : bytes := match t with [] => [] | _ => tlv T_TOK t end.

(* spec.PacketEncoder on Packet{LpPacket: f}: fields in declaration order, Fragment last *)
Definition lp_inner (f : lpf) : bytes :=
  opt_tlv T_SEQ (option_map (be 8) (f_seq f)) ++
  opt_tlv T_IDX (option_map nat_enc (f_idx f)) ++
  opt_tlv T_CNT (option_map nat_enc (f_cnt f)) ++
  tok_tlv (f_tok f) ++
  opt_tlv T_INFACE (option_map nat_enc (f_inface f)) ++
  opt_tlv T_MARK (option_map nat_enc (f_mark f)) ++
  opt_tlv T_FRAG (f_frag f).
Definition lp_encode (f : lpf) : bytes := tlv T_LP (lp_inner f).

(* ------------------------------------------------------------------------------------------------ *)
(* sendPacket *)
Record sopts := mkSo { o_frag : bool; o_ifi : bool }.

Definition zlen (l : bytes) : Z := Z.of_N (lenN l).
Definition ztl (n : Z) : Z := Z.of_nat (tl_len (Z.to_N n)).       (* TLNum(n).EncodingLength() for n >= 0 *)
Definition znat (n : N) : Z := Z.of_nat (nat_len n).               (* Nat(n).EncodingLength() *)

(* lpFrameLength(headerLen, payloadLen) *)
Definition lp_frame_length (hdr n : Z) : Z :=
  let inner := (hdr + 1 + ztl n + n)%Z in (1 + ztl inner + inner)%Z.

Definition token_len (tok : bytes) : Z := match tok with [] => 0%Z | _ => (1 + ztl (zlen tok) + zlen tok)%Z end.

(* exact size of the header fields of an unfragmented frame *)
Definition exact_header (o : sopts) (tok : bytes) (inface mark : option N) : Z :=
  (token_len tok
   + (match inface with Some i => if o_ifi o then 3 + 1 + znat i else 0 | None => 0 end)
   + (match mark with Some m => 3 + 1 + znat m | None => 0 end))%Z.

(* payload bytes per fragment; hdr = the link service's cached l.headerOverhead *)
Definition effective_mtu_h (mtu hdr : Z) (tok : bytes) (mark : option N) : Z :=
  (mtu - hdr - token_len tok - (match mark with Some _ => Z.of_N c_congestionMarkOverhead | None => 0 end))%Z.

(* computeHeaderOverhead: the reservation that belongs to a set of options *)
Definition compute_header_overhead (o : sopts) : N := c_headerOverhead (o_frag o) (o_ifi o).
Definition effective_mtu (mtu : Z) (o : sopts) (tok : bytes) (mark : option N) : Z :=
  effective_mtu_h mtu (Z.of_N (compute_header_overhead o)) tok mark.

(* the split loop: n-1 pieces of eff bytes, then the rest *)
Fixpoint chunk_list (n : nat) (eff : N) (w : bytes) : list bytes :=
  match n with
  | O => []
  | S O => [w]
  | S n' => takeN eff w :: chunk_list n' eff (dropN eff w)
  end.

Definition u64 (z : N) : N := z mod two64.

Fixpoint number_frags (seq : N) (i : N) (cnt : N) (tok : bytes) (inface mark : option N) (cs : list bytes) : list lpf :=
  match cs with
  | [] => []
  | c :: r => mkLpf (Some (u64 (seq + i))) (Some i) (Some cnt) tok inface None None mark (Some c)
              :: number_frags seq (i + 1) cnt tok inface mark r
  end.

(* the link service's own marking decision (congestion marking enabled, more than the threshold sent since the last check, marking
   interval elapsed, socket send queue above the threshold) is an input: mark_decision = true replaces the upstream mark by 1 *)
Definition effective_mark (mark_decision : bool) (upstream : option N) : option N := if mark_decision then Some 1 else upstream.

(* mark is the congestion mark that will be attached (pkt.CongestionMark, or 1 when the link service decides to mark:
   that decision depends on time and socket queue length and is an input here).  inface is out.InFace.
   Result: header fields of every frame, and the next sequence number. *)
Definition send_fields_h (mtu hdr : Z) (o : sopts) (seq : N) (tok : bytes) (inface mark : option N) (wire : bytes)
  : list lpf * N :=
  let inface' := if o_ifi o then inface else None in
  if (lp_frame_length (exact_header o tok inface mark) (zlen wire) <=? mtu)%Z then
    ([mkLpf None None None tok inface' None None mark (Some wire)], seq)
  else if negb (o_frag o) then ([], seq)
  else
    let eff := effective_mtu_h mtu hdr tok mark in
    if (eff <=? 0)%Z then ([], seq)
    else
      let n := ((zlen wire + eff - 1) / eff)%Z in
      let cs := chunk_list (Z.to_nat n) (Z.to_N eff) wire in
      (number_frags seq 0 (Z.to_N n) tok inface' mark cs, u64 (seq + Z.to_N n)).

(* a link service whose cached reservation is the one of its options *)
Definition send_fields (mtu : Z) (o : sopts) := send_fields_h mtu (Z.of_N (compute_header_overhead o)) o.

Definition send_packet mtu o seq tok inface mark wire : list bytes * N :=
  let '(fs, s) := send_fields mtu o seq tok inface mark wire in (map lp_encode fs, s).

(* The send side of a link service as state: options, the cached headerOverhead, the fragment sequence counter.
   MakeNDNLPLinkService: l.options = options; l.computeHeaderOverhead().   SetOptions: the same two statements. *)
(* NO CARRY-OVER: these three fields are the whole send-side state.  The frames of a packet depend on them and on the fields
   of THAT packet only (token, incoming-face id, mark, bytes); nothing of an earlier packet - its token, mark, in-face - can
   appear in a later frame.  (Checked on the real code by `vary` cases: one link service sending packets with varying field sets.) *)
Record lsend := mkLs { ls_opts : sopts; ls_hdr : N; ls_seq : N }.
Definition make_ls (o : sopts) : lsend := mkLs o (compute_header_overhead o) 0.
Definition set_options (l : lsend) (o : sopts) : lsend := mkLs o (compute_header_overhead o) (ls_seq l).
Definition set_next_seq (l : lsend) (s : N) : lsend := mkLs (ls_opts l) (ls_hdr l) s.
Definition ls_send (mtu : Z) (l : lsend) (tok : bytes) (inface mark : option N) (wire : bytes) : list bytes * lsend :=
  let '(fs, s) := send_fields_h mtu (Z.of_N (ls_hdr l)) (ls_opts l) (ls_seq l) tok inface mark wire in
  (map lp_encode fs, mkLs (ls_opts l) (ls_hdr l) s).

(* histories of a link service's send side: SetOptions (management faces/update), SetMTU is the mtu of each send *)
Inductive lsev := EvSet (o : sopts) | EvSeq (s : N) | EvSend (mtu : Z) (tok : bytes) (inface mark : option N) (wire : bytes).
Fixpoint ls_run (l : lsend) (evs : list lsev) (acc : list (Z * list bytes)) : lsend * list (Z * list bytes) :=
  match evs with
  | [] => (l, rev acc)
  | EvSet o :: r => ls_run (set_options l o) r acc
  | EvSeq s :: r => ls_run (set_next_seq l s) r acc
  | EvSend mtu tok inface mark wire :: r =>
    let '(frames, l') := ls_send mtu l tok inface mark wire in ls_run l' r ((mtu, frames) :: acc)
  end.

(* --- the code before the repair "fix: sendPacket ..." (for the refutation lemma only) ---
   budget: MTU - headerOverhead_old - (8 if the *incoming* packet had a token) - (12 if it had a mark); no Fragment TL;
   fragments carry Sequence only. *)
Definition old_header_overhead (o : sopts) : Z :=
  (4 + (if o_frag o then 10 + 8 else 0) + (if o_ifi o then 12 else 0))%Z.
Fixpoint number_frags_old (seq : N) (i : N) (tok : bytes) (inface mark : option N) (cs : list bytes) : list lpf :=
  match cs with
  | [] => []
  | c :: r => mkLpf (Some (u64 (seq + i))) None None tok inface None None mark (Some c)
              :: number_frags_old seq (i + 1) tok inface mark r
  end.
Definition send_fields_old (mtu : Z) (o : sopts) (seq : N) (in_tok : bool) (tok : bytes) (inface mark : option N) (wire : bytes)
  : list lpf :=
  let inface' := if o_ifi o then inface else None in
  let eff := (mtu - old_header_overhead o - (if in_tok then 8 else 0) - (match mark with Some _ => 12 | None => 0 end))%Z in
  if (zlen wire <=? eff)%Z then [mkLpf None None None tok inface' None None mark (Some wire)]
  else if negb (o_frag o) then []
  else let n := ((zlen wire + eff - 1) / eff)%Z in
       number_frags_old seq 0 tok inface' mark (chunk_list (Z.to_nat n) (Z.to_N eff) wire).

(* ------------------------------------------------------------------------------------------------ *)
(* receive side *)
Record l3i := mkL3 { h_thread : N; p_threads : list bool }.      (* fw.HashNameToFwThread / HashNameToAllPrefixFwThreads *)
(* result of spec.ReadPacket: error, or the Interest / Data / LpPacket members that are set *)
Inductive dpkt := DErr | DPkt (i : option l3i) (d : option l3i) (lp : option lpf).

Record delivery := mkDel { d_thread : N; d_interest : bool; d_raw : bytes; d_tok : bytes; d_mark : option N;
                           d_nexthop : option N; d_cachepol : option N }.
Record rcfg := mkRc { r_reasm : bool; r_ccf : bool; r_lcp : bool; r_local : bool; r_nthreads : N }.
Record rstate := mkRs { r_store : list (N * list bytes); r_nI : N; r_nD : N }.
Definition rs_init : rstate := mkRs [] 0 0.
Inductive hres := HOk (st : rstate) (out : list delivery) | HPanic.

(* partialMessageStore: map[uint64][][]byte *)
Fixpoint st_get (k : N) (s : list (N * list bytes)) : option (list bytes) :=
  match s with [] => None | (k', v) :: r => if k' =? k then Some v else st_get k r end.
Definition st_del (k : N) (s : list (N * list bytes)) := filter (fun kv => negb (fst kv =? k)) s.
Definition st_set (k : N) (v : list bytes) (s : list (N * list bytes)) := (k, v) :: st_del k s.

Fixpoint set_nth (i : nat) (v : bytes) (l : list bytes) : list bytes :=
  match l, i with
  | [], _ => []
  | _ :: r, O => v :: r
  | x :: r, S i' => x :: set_nth i' v r
  end.
Definition nonempty (b : bytes) : bool := match b with [] => false | _ => true end.

Inductive rres := RNone (s : list (N * list bytes)) | RDone (s : list (N * list bytes)) (frags : list bytes) | RPanic.

Section Recv.
Variable guard : bool.

(* reassemblePacket *)
Definition reassemble (s : list (N * list bytes)) (base idx cnt : N) (frag : bytes) : rres :=
  if guard && ((c_maxFragCount <? cnt) || (cnt <=? idx)) then RNone s
  else
    let cur := st_get base s in
    match (match cur with
           | None => Some (repeat [] (N.to_nat cnt))                   (* make([][]byte, fragCount) *)
           | Some slots => if guard && negb (N.of_nat (length slots) =? cnt) then None else Some slots
           end) with
    | None => RNone s
    | Some slots =>
      if N.of_nat (length slots) <=? idx then RPanic                  (* index out of range *)
      else
        let slots' := set_nth (N.to_nat idx) frag slots in
        if (length (filter nonempty slots') =? length slots')%nat
        then RDone (st_del base s) slots'
        else RNone (st_set base slots' s)
    end.

(* dispatch.GetFWThread(id): Some (Some t) = thread, Some None = nil, None = index panic *)
Definition get_fw_thread (n id : N) : option (option N) :=
  if guard then (if id <? n then Some (Some id) else Some None)
  else (if id <? n then Some (Some id) else if id =? n then None else Some None).

Fixpoint prefix_deliveries (n : N) (i : N) (bits : list bool) (mk : N -> delivery) : option (list delivery) :=
  match bits with
  | [] => Some []
  | b :: r =>
    match prefix_deliveries n (i + 1) r mk with
    | None => None
    | Some rest => if b then (if i <? n then Some (mk i :: rest) else None) else Some rest
    end
  end.

Definition be16 (t : bytes) : N := match t with a :: b :: _ => a * 256 + b | _ => 0 end.

(* the tail of handleIncomingFrame: counters and dispatchInterest / dispatchData *)
Definition dispatch (c : rcfg) (st : rstate) (i d : option l3i) (raw tok : bytes) (mark nexthop cachepol : option N) : hres :=
  let mk k t := mkDel t k raw tok mark nexthop cachepol in
  match i with
  | Some info =>
    let st' := mkRs (r_store st) (r_nI st + 1) (r_nD st) in
    if h_thread info <? r_nthreads c then HOk st' [mk true (h_thread info)] else HPanic   (* nil FWThread *)
  | None =>
    match d with
    | Some info =>
      let st' := mkRs (r_store st) (r_nI st) (r_nD st + 1) in
      if lenN tok =? 6 then
        match get_fw_thread (r_nthreads c) (be16 tok) with
        | None => HPanic
        | Some None => HOk st' []                                      (* "Invalid PIT token" - DROP *)
        | Some (Some t) => HOk st' [mk false t]
        end
      else
        (* no PIT token of ours: the threads of every prefix of the name, whatever the scope of the face *)
        match prefix_deliveries (r_nthreads c) 0 (p_threads info) (mk false) with
        | Some ds => HOk st' ds | None => HPanic
        end
    | None => HOk st []                                                (* "unknown type" *)
    end
  end.

(* the reassembly step of handleIncomingFrame: what is handed up (LUp), nothing (LDrop), or a panic *)
Inductive lres := LDrop (s : list (N * list bytes)) | LUp (s : list (N * list bytes)) (payload : bytes) | LPanic.

Definition lp_receive (reasm : bool) (s : list (N * list bytes)) (LP : lpf) (frag : bytes) : lres :=
  match (if reasm then f_seq LP else None) with
  | Some seq =>
    let idx := match f_idx LP with Some x => x | None => 0 end in
    let cnt := match f_cnt LP with Some x => x | None => 1 end in
    let base := u64 (seq + two64 - idx) in                            (* *LP.Sequence - fragIndex, uint64 *)
    if (idx =? 0) && (cnt =? 1) then LUp s frag                        (* bypass: only one fragment *)
    else match reassemble s base idx cnt frag with
         | RPanic => LPanic
         | RNone s' => LDrop s'
         | RDone s' frags => LUp s' (concat frags)                     (* fragment.Join() *)
         end
  | None =>
    match f_cnt LP, f_idx LP with
    | None, None => LUp s frag
    | _, _ => LDrop s                                                  (* fragmentation fields but reassembly disabled *)
    end
  end.

(* OBLIGATION (buffer ownership).  `frame`, the stored fragments and the delivered d_raw are byte values here.  In the Go code
   the frame is a slice of the transport's receive buffer, which the caller reuses as soon as handleIncomingFrame returns
   (readTlvStream compacts and refills it; a datagram buffer is overwritten by the next datagram): handleIncomingFrame must
   therefore copy whatever outlives the call (it copies the whole frame first).  The value semantics of this model is sound only
   under that obligation; the harness checks it on every run by delivering all frames through ONE reused buffer and comparing
   what the forwarding threads hold after the buffer has been reused (trace line HC, oracle `held-packet-changed`). *)
(* handleIncomingFrame on the decoded frame `dec` (= spec.ReadPacket of the frame bytes);
   inner = spec.ReadPacket applied to the (reassembled) payload *)
Definition handle_frame (c : rcfg) (inner : bytes -> dpkt) (st : rstate) (dec : dpkt) (frame : bytes) : hres :=
  match dec with
  | DErr => HOk st []
  | DPkt i d None => dispatch c st i d frame [] None None None
  | DPkt _ _ (Some LP) =>
    match f_frag LP with
    | None => HOk st []                                               (* IDLE *)
    | Some frag =>
      match lp_receive (r_reasm c) (r_store st) LP frag with
      | LPanic => HPanic
      | LDrop s => HOk (mkRs s (r_nI st) (r_nD st)) []
      | LUp s payload =>
        let st' := mkRs s (r_nI st) (r_nD st) in
        match inner payload with
        | DErr => HOk st' []
        | DPkt i d _ =>
          dispatch c st' i d payload (f_tok LP) (f_mark LP)
                   (if r_ccf c then f_nexthop LP else None) (if r_lcp c then f_cachepol LP else None)
        end
      end
    end
  end.
End Recv.

(* InternalTransport.Receive (fw/face/internal-transport.go): the management side of the internal face takes each frame the
   internal face's own link service emitted: spec.ReadPacket, then packet.LpPacket.Fragment, .PitToken and *IncomingFaceId -
   a nil LpPacket or a nil IncomingFaceId is a nil dereference in the management goroutine. *)
Inductive ires := IDrop | IPanic | IOk (frag tok : bytes) (inface : N).
Definition internal_receive (d : dpkt) : ires :=
  match d with
  | DErr => IDrop
  | DPkt _ _ None => IPanic
  | DPkt _ _ (Some LP) =>
    match f_frag LP with
    | None | Some [] => IDrop
    | Some fr => match f_inface LP with None => IPanic | Some i => IOk fr (f_tok LP) i end
    end
  end.

(* ------------------------------------------------------------------------------------------------ *)
(* decoder for the frames the link service emits (generated LpPacket/Packet parse loops restricted to the fields
   above; anything else is reported as DUnsupported and is outside the send -> receive theorems) *)
Inductive dres := DecOk (p : dpkt) | DUnsupported.

Definition two63 : N := 9223372036854775808.
Definition nat_of_be (l : bytes) : N := u64 (be_val l).      (* tempVal = tempVal<<8 | x over the value bytes *)

(* one LpPacket field: returns updated fields and the rest *)
Fixpoint lp_fields (fuel : nat) (s : bytes) (f : lpf) : option (option lpf) :=   (* None = unsupported, Some None = error *)
  match fuel with
  | O => None
  | S fu =>
    match s with
    | [] => Some (Some f)
    | _ =>
      match tl_dec s with
      | None => Some None
      | Some (typ, r1) =>
        match tl_dec r1 with
        | None => Some None
        | Some (l, r2) =>
          (* natural-number fields are read by `for i := 0; i < int(l); i++ { ReadByte }`: for an announced length >= 2^63 the
             int is NEGATIVE, the loop body never runs - nothing is consumed, the value is 0 and parsing goes on right after the
             length; for 2^63 > l > remaining the loop runs into EOF (error).  PitToken (`l > remaining`, unsigned) and Fragment
             (ReadWire(int(l)) refuses a negative length) are errors for every oversize length. *)
          let negnat := ((typ =? T_SEQ) || (typ =? T_IDX) || (typ =? T_CNT) || (typ =? T_INFACE) || (typ =? T_MARK)) && (two63 <=? l) in
          if negb negnat && (lenN r2 <? l) then
            (if (typ =? T_SEQ) || (typ =? T_IDX) || (typ =? T_CNT) || (typ =? T_TOK) || (typ =? T_INFACE)
                || (typ =? T_MARK) || (typ =? T_FRAG) then Some None else None)
          else
            let v := if negnat then [] else takeN l r2 in
            let rest := if negnat then r2 else dropN l r2 in
            let upd (g : lpf) := lp_fields fu rest g in
            if typ =? T_SEQ then upd (mkLpf (Some (nat_of_be v)) (f_idx f) (f_cnt f) (f_tok f) (f_inface f) (f_nexthop f) (f_cachepol f) (f_mark f) (f_frag f))
            else if typ =? T_IDX then upd (mkLpf (f_seq f) (Some (nat_of_be v)) (f_cnt f) (f_tok f) (f_inface f) (f_nexthop f) (f_cachepol f) (f_mark f) (f_frag f))
            else if typ =? T_CNT then upd (mkLpf (f_seq f) (f_idx f) (Some (nat_of_be v)) (f_tok f) (f_inface f) (f_nexthop f) (f_cachepol f) (f_mark f) (f_frag f))
            else if typ =? T_TOK then upd (mkLpf (f_seq f) (f_idx f) (f_cnt f) v (f_inface f) (f_nexthop f) (f_cachepol f) (f_mark f) (f_frag f))
            else if typ =? T_INFACE then upd (mkLpf (f_seq f) (f_idx f) (f_cnt f) (f_tok f) (Some (nat_of_be v)) (f_nexthop f) (f_cachepol f) (f_mark f) (f_frag f))
            else if typ =? T_MARK then upd (mkLpf (f_seq f) (f_idx f) (f_cnt f) (f_tok f) (f_inface f) (f_nexthop f) (f_cachepol f) (Some (nat_of_be v)) (f_frag f))
            else if typ =? T_FRAG then upd (mkLpf (f_seq f) (f_idx f) (f_cnt f) (f_tok f) (f_inface f) (f_nexthop f) (f_cachepol f) (f_mark f) (Some v))
            else None
        end
      end
    end
  end.

Definition lpf_empty : lpf := mkLpf None None None [] None None None None None.

(* l3 = the Interest/Data parser (spec_2022 generated code + checks of ReadPacket), external to this family:
   applied to the whole TLV *)
Definition pkt_decode (l3 : bytes -> dpkt) (frame : bytes) : dres :=
  match tl_dec frame with
  | None => DUnsupported
  | Some (typ, r1) =>
    match tl_dec r1 with
    | None => DUnsupported
    | Some (l, r2) =>
      if negb (lenN r2 =? l) then DUnsupported
      else if typ =? T_LP then
        match lp_fields (S (length r2)) r2 lpf_empty with
        | None => DUnsupported
        | Some None => DecOk DErr
        | Some (Some f) => match f_frag f with None => DecOk DErr | Some _ => DecOk (DPkt None None (Some f)) end
        end
      else if (typ =? 5) || (typ =? 6) then DecOk (l3 frame)
      else DUnsupported
    end
  end.

(* ------------------------------------------------------------------------------------------------ *)
(* run-time oracle for C10, evaluated on the implementation's observations.
   One message: what was handed to sendPacket, the frames the implementation emitted, the frames it tried to emit that
   exceed the MTU (refused by the transport), and the packets the peer delivered for it. *)
Definition single_frame_fits (mtu : Z) (o : sopts) (tok : bytes) (inface mark : option N) (wire : bytes) : bool :=
  (lp_frame_length (exact_header o tok inface mark) (zlen wire) <=? mtu)%Z.

(* exactly-once at the forwarder: the deliveries that one received frame causes (all for the same packet), observed on
   ALL forwarding threads.  No thread gets the packet twice; an Interest goes to exactly one thread; a Data carrying a
   6-byte PIT token of ours goes to exactly the thread the token names - and to none if that thread does not exist;
   other Data may go to several threads (one per prefix), each once. *)
Fixpoint threads_nodup (ts : list N) : bool :=
  match ts with [] => true | t :: r => negb (existsb (N.eqb t) r) && threads_nodup r end.
Definition dl_once_ok (n : N) (ds : list delivery) : bool :=
  match ds with
  | [] => true
  | d :: _ =>
    threads_nodup (map d_thread ds) &&
    (if d_interest d then (length ds =? 1)%nat
     else if lenN (d_tok d) =? 6 then (length ds =? 1)%nat && (d_thread d =? be16 (d_tok d)) && (be16 (d_tok d) <? n)
     else true)
  end.

Definition is_nil_list {A} (l : list A) : bool := match l with [] => true | _ => false end.

(* (every frame fits, a packet that fits is one frame, oversize + fragmentation off => nothing sent) *)
Definition c10_send_ok (mtu : Z) (o : sopts) (tok : bytes) (inface mark : option N) (wire : bytes)
                       (frames oversize : list bytes) : bool * bool * bool :=
  (forallb (fun f => (zlen f <=? mtu)%Z) frames && is_nil_list oversize,
   if single_frame_fits mtu o tok inface mark wire then (length frames =? 1)%nat && is_nil_list oversize else true,
   if negb (single_frame_fits mtu o tok inface mark wire) && negb (o_frag o)
   then is_nil_list frames && is_nil_list oversize else true).

(* ---- projected observables of the send side: the oracle FOLLOWS THE SPLIT THE IMPLEMENTATION CHOSE.  C10 fixes neither the
   fragment sizes nor the sequence numbers: whatever frames were emitted, a peer (the receive side of this model, current code) that
   gets them - in the order sent, reversed, or rotated by half - must hand up exactly the packet bytes, once, with the packet's PIT
   token and congestion mark; every frame carries the incoming-face indication iff it is enabled; the sequence numbers used lie in
   the window [seq, next sequence) so that the next packet cannot collide with this one. ---- *)
Definition frame_fields (frame : bytes) : option lpf :=
  match pkt_decode (fun _ => DPkt None None None) frame with
  | DecOk (DPkt _ _ (Some f)) => Some f
  | DecOk (DPkt _ _ None) => Some (mkLpf None None None [] None None None None (Some frame))       (* a bare network packet *)
  | _ => None
  end.

Fixpoint all_fields (frames : list bytes) : option (list lpf) :=
  match frames with
  | [] => Some []
  | fr :: r => match frame_fields fr, all_fields r with Some f, Some l => Some (f :: l) | _, _ => None end
  end.

Definition optN_eqb (a b : option N) : bool :=
  match a, b with Some x, Some y => x =? y | None, None => true | _, _ => false end.

Fixpoint peer_collect (s : list (N * list bytes)) (fs : list lpf) (acc : list (bytes * bytes * option N))
  : option (list (bytes * bytes * option N)) :=
  match fs with
  | [] => Some (rev acc)
  | f :: r =>
    match f_frag f with
    | None => peer_collect s r acc
    | Some frag =>
      match lp_receive true true s f frag with
      | LPanic => None
      | LDrop s' => peer_collect s' r acc
      | LUp s' payload => peer_collect s' r ((payload, f_tok f, f_mark f) :: acc)
      end
    end
  end.

Definition delivers_once (fs : list lpf) (wire tok : bytes) (mark : option N) : bool :=
  match peer_collect [] fs [] with
  | Some [(w, t, m)] => bytes_eqb w wire && bytes_eqb t tok && optN_eqb m mark
  | _ => false
  end.

Definition rotate_half {A} (l : list A) : list A := let h := Nat.div2 (length l) in skipn h l ++ firstn h l.

(* 0 = fine; 1 = a frame the peer cannot decode; 2, 3, 4 = the peer does not deliver exactly the packet, once, with token and mark
   (frames in the order sent / reversed / rotated); 5 = incoming-face indication wrong on some frame; 6 = a sequence number outside
   [seq, next) *)
Definition c10_frames_sem (o : sopts) (seq next : N) (tok : bytes) (inface mark : option N) (wire : bytes) (frames : list bytes) : N :=
  match all_fields frames with
  | None => 1
  | Some fs =>
    if negb (delivers_once fs wire tok mark) then 2
    else if negb (delivers_once (rev fs) wire tok mark) then 3
    else if negb (delivers_once (rotate_half fs) wire tok mark) then 4
    else if negb (forallb (fun f => optN_eqb (f_inface f) (if o_ifi o then inface else None)) fs) then 5
    else if negb (forallb (fun f => match f_seq f with
                                    | None => true
                                    | Some q => u64 (q + two64 - seq) <? u64 (next + two64 - seq)
                                    end) fs) then 6
    else 0
  end.
