(* Face/LpTheorems.v — C10 end to end: frames produced by send_packet, decoded and reassembled by the peer in any order. *)
From Base Require Import Bytes VarNum.
From Face Require Import GenConsts Stream StreamProofs Lp LpProofs LpReasm.
From Coq Require Import ZifyBool ZifyN ZifyNat Lia Permutation.
Open Scope N_scope.

(* ------------------------------------------------------------------------------------------------ *)
(* decode (encode f) = f for the frames the link service emits *)
Definition upd (typ : N) (v : bytes) (f : lpf) : option lpf :=
  if typ =? T_SEQ then Some (mkLpf (Some (nat_of_be v)) (f_idx f) (f_cnt f) (f_tok f) (f_inface f) (f_nexthop f) (f_cachepol f) (f_mark f) (f_frag f))
  else if typ =? T_IDX then Some (mkLpf (f_seq f) (Some (nat_of_be v)) (f_cnt f) (f_tok f) (f_inface f) (f_nexthop f) (f_cachepol f) (f_mark f) (f_frag f))
  else if typ =? T_CNT then Some (mkLpf (f_seq f) (f_idx f) (Some (nat_of_be v)) (f_tok f) (f_inface f) (f_nexthop f) (f_cachepol f) (f_mark f) (f_frag f))
  else if typ =? T_TOK then Some (mkLpf (f_seq f) (f_idx f) (f_cnt f) v (f_inface f) (f_nexthop f) (f_cachepol f) (f_mark f) (f_frag f))
  else if typ =? T_INFACE then Some (mkLpf (f_seq f) (f_idx f) (f_cnt f) (f_tok f) (Some (nat_of_be v)) (f_nexthop f) (f_cachepol f) (f_mark f) (f_frag f))
  else if typ =? T_MARK then Some (mkLpf (f_seq f) (f_idx f) (f_cnt f) (f_tok f) (f_inface f) (f_nexthop f) (f_cachepol f) (Some (nat_of_be v)) (f_frag f))
  else if typ =? T_FRAG then Some (mkLpf (f_seq f) (f_idx f) (f_cnt f) (f_tok f) (f_inface f) (f_nexthop f) (f_cachepol f) (f_mark f) (Some v))
  else None.

Lemma tl_enc_nonnil n : tl_enc n <> [].
Proof. unfold tl_enc. destruct (n <=? 252); [discriminate|]. destruct (n <=? 65535); [discriminate|]. destruct (n <=? 4294967295); discriminate. Qed.

Lemma lp_fields_cons fu typ v rest g : typ < two64 -> lenN v < two63 ->
  lp_fields (S fu) (tlv typ v ++ rest) g = match upd typ v g with Some g' => lp_fields fu rest g' | None => None end.
Proof.
  intros Ht Hv. cbn [lp_fields].
  destruct (tlv typ v ++ rest) as [|x l] eqn:E.
  { exfalso. unfold tlv in E. destruct (tl_enc typ) eqn:E2; [now apply tl_enc_nonnil in E2|discriminate]. }
  rewrite <- E. unfold tlv. rewrite <- !app_assoc.
  rewrite tl_dec_enc by exact Ht. rewrite tl_dec_enc by (unfold two63, two64 in *; lia).
  replace (two63 <=? lenN v) with false by (unfold two63 in *; lia). rewrite Bool.andb_false_r. cbn [negb andb].
  replace (lenN (v ++ rest) <? lenN v) with false by (rewrite !lenN_spec, app_length; lia).
  rewrite takeN_app_exact, dropN_app_exact. unfold upd.
  destruct (typ =? T_SEQ); [reflexivity|]. destruct (typ =? T_IDX); [reflexivity|]. destruct (typ =? T_CNT); [reflexivity|].
  destruct (typ =? T_TOK); [reflexivity|]. destruct (typ =? T_INFACE); [reflexivity|]. destruct (typ =? T_MARK); [reflexivity|].
  destruct (typ =? T_FRAG); reflexivity.
Qed.

Definition enc_fields (l : list (N * bytes)) : bytes := concat (map (fun tv => tlv (fst tv) (snd tv)) l).
Fixpoint apply_fields (l : list (N * bytes)) (g : lpf) : option lpf :=
  match l with [] => Some g | (t, v) :: r => match upd t v g with Some g' => apply_fields r g' | None => None end end.

Lemma lp_fields_list : forall l g fu, (length l < fu)%nat ->
  Forall (fun tv => fst tv < two64 /\ lenN (snd tv) < two63) l ->
  lp_fields fu (enc_fields l) g = match apply_fields l g with Some g' => Some (Some g') | None => None end.
Proof.
  induction l as [|[t v] l IH]; intros g fu Hfu Hok.
  - destruct fu; [cbn in Hfu; lia|]. reflexivity.
  - destruct fu as [|fu]; [cbn in Hfu; lia|]. inversion Hok as [|? ? [Ht Hv] Hok']; subst. cbn [fst snd] in *.
    unfold enc_fields. cbn [map concat fst snd]. rewrite lp_fields_cons by assumption. cbn [apply_fields].
    destruct (upd t v g) as [g'|]; [|reflexivity]. apply IH; [cbn [length] in Hfu; lia|exact Hok'].
Qed.

Definition olist {A} (o : option A) : list A := match o with Some x => [x] | None => [] end.
Definition fields_list (f : lpf) : list (N * bytes) :=
  olist (option_map (fun s => (T_SEQ, be 8 s)) (f_seq f)) ++
  olist (option_map (fun i => (T_IDX, nat_enc i)) (f_idx f)) ++
  olist (option_map (fun i => (T_CNT, nat_enc i)) (f_cnt f)) ++
  (match f_tok f with [] => [] | _ => [(T_TOK, f_tok f)] end) ++
  olist (option_map (fun i => (T_INFACE, nat_enc i)) (f_inface f)) ++
  olist (option_map (fun i => (T_MARK, nat_enc i)) (f_mark f)) ++
  olist (option_map (fun c => (T_FRAG, c)) (f_frag f)).

Lemma lp_inner_fields f : lp_inner f = enc_fields (fields_list f).
Proof.
  destruct f as [sq ix ct tk inf nh cp mk fr]. unfold lp_inner, fields_list, enc_fields, tok_tlv. cbn [f_seq f_idx f_cnt f_tok f_inface f_mark f_frag].
  destruct sq, ix, ct, tk, inf, mk, fr; cbn [option_map olist opt_tlv app map concat fst snd]; rewrite ?app_nil_r; reflexivity.
Qed.

Lemma nat_of_be_nat_enc n : n < two64 -> nat_of_be (nat_enc n) = n.
Proof.
  intros H. unfold nat_of_be, nat_enc, u64. rewrite be_val_be; [apply N.mod_small; exact H|].
  unfold nat_len, two64 in *.
  destruct (n <=? 255) eqn:E1; [change (256 ^ N.of_nat 1) with 256; lia|].
  destruct (n <=? 65535) eqn:E2; [change (256 ^ N.of_nat 2) with 65536; lia|].
  destruct (n <=? 4294967295) eqn:E3; [change (256 ^ N.of_nat 4) with 4294967296; lia|].
  change (256 ^ N.of_nat 8) with 18446744073709551616. lia.
Qed.
Lemma nat_of_be_be8 n : n < two64 -> nat_of_be (be 8 n) = n.
Proof.
  intros H. unfold nat_of_be, u64. rewrite be_val_be; [apply N.mod_small; exact H|].
  change (256 ^ N.of_nat 8) with 18446744073709551616. unfold two64 in H. exact H.
Qed.

Definition olt (o : option N) : Prop := match o with Some x => x < two64 | None => True end.
(* a frame as the sender builds it *)
Definition sendable (f : lpf) : Prop :=
  olt (f_seq f) /\ olt (f_idx f) /\ olt (f_cnt f) /\ olt (f_inface f) /\ olt (f_mark f) /\
  f_nexthop f = None /\ f_cachepol f = None /\ (exists c, f_frag f = Some c) /\
  lenN (f_tok f) < two63 /\ (match f_frag f with Some c => lenN c < two63 | None => True end) /\ lenN (lp_inner f) < two64.

Lemma apply_fields_list f : sendable f -> apply_fields (fields_list f) lpf_empty = Some f.
Proof.
  destruct f as [sq ix ct tk inf nh cp mk fr].
  intros (Hs & Hi & Hc & Hin & Hm & Hnh & Hcp & (c & Hfr) & _). cbn [f_seq f_idx f_cnt f_tok f_inface f_nexthop f_cachepol f_mark f_frag] in *.
  subst nh cp fr. unfold fields_list. cbn [f_seq f_idx f_cnt f_tok f_inface f_mark f_frag].
  destruct sq as [sq|], ix as [ix|], ct as [ct|], tk as [|t0 tk], inf as [inf|], mk as [mk|];
    cbn [option_map olist app apply_fields olt] in *;
    unfold upd; cbn [N.eqb Pos.eqb T_SEQ T_IDX T_CNT T_TOK T_INFACE T_MARK T_FRAG f_seq f_idx f_cnt f_tok f_inface f_nexthop f_cachepol f_mark f_frag lpf_empty];
    rewrite ?nat_of_be_be8, ?nat_of_be_nat_enc by assumption; reflexivity.
Qed.

Lemma fields_list_ok f : sendable f -> Forall (fun tv => fst tv < two64 /\ lenN (snd tv) < two63) (fields_list f).
Proof.
  destruct f as [sq ix ct tk inf nh cp mk fr].
  intros (_ & _ & _ & _ & _ & _ & _ & (c & Hfr) & Htk & Hfrl & _). cbn [f_tok f_frag] in *. subst fr.
  assert (Hnat : forall n, lenN (nat_enc n) < two63).
  { intros n. rewrite lenN_spec, nat_enc_length. pose proof (nat_len_bound n). unfold two63. lia. }
  assert (Hbe : forall n, lenN (be 8 n) < two63) by (intros n; rewrite lenN_spec, be_length; unfold two63; lia).
  unfold fields_list. cbn [f_seq f_idx f_cnt f_tok f_inface f_mark f_frag].
  assert (One : forall (t : N) (v : bytes), t < two64 -> lenN v < two63 ->
                Forall (fun tv : N * bytes => fst tv < two64 /\ lenN (snd tv) < two63) [(t, v)]).
  { intros t v Ht Hv. apply Forall_cons; [split; assumption|apply Forall_nil]. }
  apply Forall_app; split; [destruct sq; cbn [option_map olist]; [apply One; [reflexivity|apply Hbe]|apply Forall_nil]|].
  apply Forall_app; split; [destruct ix; cbn [option_map olist]; [apply One; [reflexivity|apply Hnat]|apply Forall_nil]|].
  apply Forall_app; split; [destruct ct; cbn [option_map olist]; [apply One; [reflexivity|apply Hnat]|apply Forall_nil]|].
  apply Forall_app; split; [destruct tk; [apply Forall_nil|apply One; [reflexivity|exact Htk]]|].
  apply Forall_app; split; [destruct inf; cbn [option_map olist]; [apply One; [reflexivity|apply Hnat]|apply Forall_nil]|].
  apply Forall_app; split; [destruct mk; cbn [option_map olist]; [apply One; [reflexivity|apply Hnat]|apply Forall_nil]|].
  cbn [option_map olist]. apply One; [reflexivity|exact Hfrl].
Qed.

Lemma enc_fields_length l : (length l <= length (enc_fields l))%nat.
Proof.
  assert (Htlv : forall t v, (1 <= length (tlv t v))%nat).
  { intros t v. unfold tlv. rewrite app_length, tl_enc_length. pose proof (tl_len_bound t). lia. }
  induction l as [|[t v] l IH]; [cbn; lia|].
  change (enc_fields ((t, v) :: l)) with (tlv t v ++ enc_fields l). rewrite app_length. cbn [length].
  specialize (Htlv t v). lia.
Qed.

Theorem decode_encode : forall l3 f, sendable f -> pkt_decode l3 (lp_encode f) = DecOk (DPkt None None (Some f)).
Proof.
  intros l3 f Hs. pose proof Hs as (_ & _ & _ & _ & _ & _ & _ & (c & Hfr) & _ & _ & Hin).
  unfold pkt_decode, lp_encode, tlv. rewrite tl_dec_enc by reflexivity. rewrite tl_dec_enc by exact Hin.
  rewrite N.eqb_refl. cbn [negb]. change (T_LP =? T_LP) with true. cbv iota.
  rewrite lp_inner_fields. rewrite lp_fields_list.
  - rewrite apply_fields_list by exact Hs. now rewrite Hfr.
  - pose proof (enc_fields_length (fields_list f)). lia.
  - now apply fields_list_ok.
Qed.

(* ------------------------------------------------------------------------------------------------ *)
(* what send_fields produces, as a message record *)
Lemma number_frags_map sq cnt tok inface mark : forall cs pre,
  number_frags sq (N.of_nat (length pre)) cnt tok inface mark cs =
  map (fun k => mkLpf (Some (u64 (sq + N.of_nat k))) (Some (N.of_nat k)) (Some cnt) tok inface None None mark (Some (nth k (pre ++ cs) [])))
      (seq (length pre) (length cs)).
Proof.
  induction cs as [|c cs IH]; intros pre; [reflexivity|]. cbn [number_frags length seq map]. f_equal.
  - now rewrite app_nth2, Nat.sub_diag by lia.
  - specialize (IH (pre ++ [c])). rewrite app_length in IH. cbn [length] in IH. rewrite <- app_assoc in IH. cbn [app] in IH.
    replace (N.of_nat (length pre) + 1) with (N.of_nat (length pre + 1)) by lia.
    replace (S (length pre)) with (length pre + 1)%nat by lia. exact IH.
Qed.

Lemma number_frags_frames sq tok inface mark cs :
  number_frags sq 0 (N.of_nat (length cs)) tok inface mark cs = frames_of_m (mkM sq true cs tok inface mark).
Proof. exact (number_frags_map sq (N.of_nat (length cs)) tok inface mark cs []). Qed.

Lemma token_len_le tok : (length tok <= 32)%nat -> (0 <= token_len tok <= 34)%Z.
Proof.
  intros H. destruct tok as [|x t]; [cbn; lia|]. unfold token_len.
  assert (Hz : (0 <= zlen (x :: t) <= 32)%Z) by (rewrite zlen_length; lia).
  unfold ztl. rewrite tl_len_tiny by lia. lia.
Qed.

Theorem send_fields_record : forall mtu o sq tok inface mark wire,
  (128 <= mtu)%Z -> (length tok <= 32)%nat -> (1 <= zlen wire <= Z.of_N c_MaxNDNPacketSize)%Z -> sq < two64 ->
  exists m, fst (send_fields mtu o sq tok inface mark wire) = frames_of_m m /\ wf_m m /\
            m_tok m = tok /\ m_mark m = mark /\ m_base m = sq /\ m_inface m = (if o_ifi o then inface else None) /\
            ((m_cs m = [] /\ o_frag o = false /\ single_frame_fits mtu o tok inface mark wire = false) \/
             (concat (m_cs m) = wire /\ m_cs m <> [])).
Proof.
  intros mtu o sq tok inface mark wire Hmtu Htok Hw Hsq.
  unfold send_fields, send_fields_h. fold (single_frame_fits mtu o tok inface mark wire).
  fold (effective_mtu mtu o tok mark).
  destruct (single_frame_fits mtu o tok inface mark wire) eqn:Efit.
  { exists (mkM sq false [wire] tok (if o_ifi o then inface else None) mark). cbn [fst m_cs m_tok m_mark m_base m_inface].
    split; [reflexivity|]. split.
    - split; cbn [m_cs m_multi length]; [|lia]. constructor; [|constructor]. apply nonempty_len. unfold zlen in Hw. lia.
    - repeat split; try reflexivity. right. split; [cbn; apply app_nil_r|discriminate]. }
  destruct (o_frag o) eqn:Efr; cbn [negb].
  2:{ exists (mkM sq false [] tok (if o_ifi o then inface else None) mark). cbn [fst m_cs m_tok m_mark m_base m_inface].
      split; [reflexivity|]. split; [split; cbn [m_cs m_multi length]; [constructor|lia]|].
      repeat split; try reflexivity. left. repeat split; reflexivity. }
  pose proof (token_len_le tok Htok) as Ht. pose proof (consts_header_small true (o_ifi o)) as Hh. pose proof consts_mark as Hm.
  assert (Heff : (32 <= effective_mtu mtu o tok mark)%Z).
  { unfold effective_mtu, effective_mtu_h, compute_header_overhead. rewrite Efr. destruct mark; lia. }
  set (eff := effective_mtu mtu o tok mark) in *.
  replace (eff <=? 0)%Z with false by lia.
  set (n := ((zlen wire + eff - 1) / eff)%Z).
  destruct (ceil_div_facts (zlen wire) eff ltac:(lia) ltac:(lia)) as (Hn0 & Hcover & Hlast & Hnw). fold n in Hn0, Hcover, Hlast, Hnw.
  destruct (Hlast ltac:(lia)) as [Hlast1 Hn1].
  set (cs := chunk_list (Z.to_nat n) (Z.to_N eff) wire).
  assert (Hlen : length cs = Z.to_nat n) by apply chunk_list_length.
  exists (mkM sq true cs tok (if o_ifi o then inface else None) mark). cbn [fst m_cs m_tok m_mark m_base m_inface].
  split.
  { replace (Z.to_N n) with (N.of_nat (length cs)) by lia. apply number_frags_frames. }
  split.
  { split; cbn [m_cs m_multi m_base].
    - apply chunk_list_nonempty; [lia|]. unfold zlen in *. nia.
    - split; [|exact Hsq]. rewrite Hlen. pose proof consts_maxfrag as Hmf. unfold zlen in *. nia. }
  repeat split; try reflexivity. right. split.
  - apply chunk_list_concat. lia.
  - intros E. rewrite E in Hlen. cbn in Hlen. lia.
Qed.

(* the receiver's bound on FragCount is at least the largest fragment count a sender can produce, for every admissible
   MTU (>= 128), option setting, PIT token (<= 32 bytes), congestion mark, incoming-face id and packet (<= MaxNDNPacketSize) *)
Theorem sender_count_le_receiver_bound_lemma : forall mtu o sq tok inface mark wire,
  (128 <= mtu)%Z -> (length tok <= 32)%nat -> (1 <= zlen wire <= Z.of_N c_MaxNDNPacketSize)%Z -> sq < two64 ->
  N.of_nat (length (fst (send_fields mtu o sq tok inface mark wire))) <= c_maxFragCount.
Proof.
  intros mtu o sq tok inface mark wire Hmtu Htok Hw Hsq.
  destruct (send_fields_record mtu o sq tok inface mark wire Hmtu Htok Hw Hsq) as (m & -> & [_ Hshape] & _).
  unfold frames_of_m. rewrite map_length, seq_length.
  destruct (m_multi m); [tauto|]. pose proof consts_maxfrag. unfold c_MaxNDNPacketSize in *. lia.
Qed.

(* every frame of send_fields can be decoded back *)
Lemma frame_of_sendable m i : wf_m m -> (i < length (m_cs m))%nat ->
  lenN (m_tok m) <= 32 -> olt (m_inface m) -> olt (m_mark m) -> lenN (concat (m_cs m)) <= c_MaxNDNPacketSize ->
  sendable (frame_of m i).
Proof.
  intros [Hne Hshape] Hi Htok Hin Hmk Hsz.
  assert (Hc : lenN (nth i (m_cs m) []) <= c_MaxNDNPacketSize).
  { clear - Hi Hsz. revert i Hi Hsz. induction (m_cs m) as [|c cs IH]; intros i Hi Hsz; [cbn in Hi; lia|].
    cbn [concat] in Hsz. rewrite lenN_spec, app_length in Hsz. destruct i as [|i]; cbn [nth].
    - rewrite lenN_spec. lia.
    - apply IH; [cbn [length] in Hi; lia|rewrite lenN_spec; lia]. }
  pose proof consts_max_small as Hms.
  assert (H64 : 4611686018427387904 < two64) by reflexivity.
  unfold frame_of. set (c := nth i (m_cs m) []) in *.
  assert (Hinner : forall f, f_frag f = Some c -> f_tok f = m_tok m -> f_inface f = m_inface m -> f_mark f = m_mark m ->
                   lenN (lp_inner f) < two64).
  { intros f Hf Ht Hi' Hm'. unfold lp_inner. rewrite Hf, Ht, Hi', Hm'.
    assert (G : forall a b, lenN (a ++ b) = lenN a + lenN b) by (intros; rewrite !lenN_spec, app_length; lia).
    assert (Hopt : forall T o, lenN (opt_tlv T (option_map nat_enc o)) <= 9 + 9 + 8).
    { intros T [x|]; cbn [option_map opt_tlv]; [|cbv; discriminate]. unfold tlv. rewrite !G, !lenN_spec, !tl_enc_length, nat_enc_length.
      pose proof (tl_len_bound T). pose proof (tl_len_bound (N.of_nat (nat_len x))). pose proof (nat_len_bound x). lia. }
    assert (Hseq : forall T o, lenN (opt_tlv T (option_map (be 8) o)) <= 9 + 9 + 8).
    { intros T [x|]; cbn [option_map opt_tlv]; [|cbv; discriminate]. unfold tlv. rewrite !G, !lenN_spec, !tl_enc_length, be_length.
      pose proof (tl_len_bound T). pose proof (tl_len_bound (N.of_nat 8)). lia. }
    assert (Htk : lenN (tok_tlv (m_tok m)) <= 9 + 9 + 32).
    { assert (Gt : forall tk, lenN tk <= 32 -> lenN (tok_tlv tk) <= 9 + 9 + 32).
      { intros tk Hk. unfold tok_tlv. destruct tk as [|x t]; [cbv; discriminate|]. unfold tlv. rewrite !G, !lenN_spec, !tl_enc_length.
        pose proof (tl_len_bound T_TOK). pose proof (tl_len_bound (N.of_nat (length (x :: t)))). rewrite lenN_spec in Hk. lia. }
      apply Gt. exact Htok. }
    assert (Hfrag : lenN (opt_tlv T_FRAG (Some c)) <= 9 + 9 + c_MaxNDNPacketSize).
    { cbn [opt_tlv]. unfold tlv. rewrite !G, !lenN_spec, !tl_enc_length.
      pose proof (tl_len_bound T_FRAG). pose proof (tl_len_bound (N.of_nat (length c))). rewrite lenN_spec in Hc. lia. }
    rewrite !G.
    pose proof (Hseq T_SEQ (f_seq f)). pose proof (Hopt T_IDX (f_idx f)). pose proof (Hopt T_CNT (f_cnt f)).
    pose proof (Hopt T_INFACE (m_inface m)). pose proof (Hopt T_MARK (m_mark m)). unfold two64. lia. }
  pose proof consts_maxfrag_small as Hmf.
  destruct (m_multi m) eqn:Em.
  - destruct Hshape as [Hmax Hbase]. unfold sendable. cbn [f_seq f_idx f_cnt f_tok f_inface f_nexthop f_cachepol f_mark f_frag olt].
    repeat split; try assumption; try reflexivity.
    + unfold u64. apply N.mod_lt. discriminate.
    + unfold two64. lia.
    + unfold two64. lia.
    + exists c. reflexivity.
    + unfold two63. lia.
    + unfold two63. lia.
    + apply Hinner; reflexivity.
  - unfold sendable. cbn [f_seq f_idx f_cnt f_tok f_inface f_nexthop f_cachepol f_mark f_frag olt].
    repeat split; try assumption; try reflexivity.
    + exists c. reflexivity.
    + unfold two63. lia.
    + unfold two63. lia.
    + apply Hinner; reflexivity.
Qed.

(* ------------------------------------------------------------------------------------------------ *)
(* end to end *)
Record smsg := mkSm { s_seq : N; s_tok : bytes; s_inface : option N; s_mark : option N; s_wire : bytes }.
Definition frames_of_msg (mtu : Z) (o : sopts) (x : smsg) : list bytes :=
  fst (send_packet mtu o (s_seq x) (s_tok x) (s_inface x) (s_mark x) (s_wire x)).
Definition msg_ok (x : smsg) : Prop :=
  (1 <= zlen (s_wire x) <= Z.of_N c_MaxNDNPacketSize)%Z /\ (length (s_tok x) <= 32)%nat /\ s_seq x < two64 /\
  olt (s_inface x) /\ olt (s_mark x).

(* the peer link service: decode each frame (spec.ReadPacket), then the reassembly step; ups = what is handed up *)
Fixpoint link_run_bytes (l3 : bytes -> dpkt) (s : list (N * list bytes)) (ups : list (bytes * bytes * option N)) (frames : list bytes)
  : option (list (N * list bytes) * list (bytes * bytes * option N)) :=
  match frames with
  | [] => Some (s, ups)
  | fb :: r =>
    match pkt_decode l3 fb with
    | DecOk (DPkt _ _ (Some f)) =>
      match link_rx s f with
      | LPanic => None
      | LDrop s' => link_run_bytes l3 s' ups r
      | LUp s' p => link_run_bytes l3 s' ((p, f_tok f, f_mark f) :: ups) r
      end
    | _ => None
    end
  end.

Lemma link_run_bytes_encode l3 : forall fs s ups, Forall sendable fs ->
  link_run_bytes l3 s ups (map lp_encode fs) = link_run s ups fs.
Proof.
  induction fs as [|f fs IH]; intros s ups H; [reflexivity|]. inversion H; subst. cbn [map link_run_bytes link_run].
  rewrite decode_encode by assumption. destruct (link_rx s f); auto.
Qed.

(* link_rx is the reassembly part of handleIncomingFrame *)
Lemma handle_frame_link_rx c inner st i d f frame : r_reasm c = true ->
  handle_frame true c inner st (DPkt i d (Some f)) frame =
  match link_rx (r_store st) f with
  | LPanic => HPanic
  | LDrop s => HOk (mkRs s (r_nI st) (r_nD st)) []
  | LUp s payload =>
    match inner payload with
    | DErr => HOk (mkRs s (r_nI st) (r_nD st)) []
    | DPkt i' d' _ => dispatch true c (mkRs s (r_nI st) (r_nD st)) i' d' payload (f_tok f) (f_mark f)
                               (if r_ccf c then f_nexthop f else None) (if r_lcp c then f_cachepol f else None)
    end
  end.
Proof.
  intros Hr. unfold handle_frame, link_rx. rewrite Hr. destruct (f_frag f); [reflexivity|]. now destruct st.
Qed.

Definition rel_msg (mtu : Z) (o : sopts) (x : smsg) (m : mrec) : Prop :=
  fst (send_fields mtu o (s_seq x) (s_tok x) (s_inface x) (s_mark x) (s_wire x)) = frames_of_m m /\ wf_m m /\
  m_tok m = s_tok x /\ m_mark m = s_mark x /\ m_base m = s_seq x /\ m_inface m = (if o_ifi o then s_inface x else None) /\
  concat (m_cs m) = s_wire x /\ m_cs m <> [].

Lemma records_exist mtu o msgs : (128 <= mtu)%Z -> o_frag o = true -> Forall msg_ok msgs ->
  exists ms, Forall2 (rel_msg mtu o) msgs ms.
Proof.
  intros Hmtu Hfr H. induction H as [|x l (Hw & Ht & Hs & _ & _) _ IH]; [exists []; constructor|].
  destruct IH as (ms & IH).
  destruct (send_fields_record mtu o (s_seq x) (s_tok x) (s_inface x) (s_mark x) (s_wire x) Hmtu Ht Hw Hs)
    as (m & H1 & H2 & H3 & H4 & H5 & H6 & [(_ & Hnf & _)|[H7 H8]]); [congruence|].
  exists (m :: ms). constructor; [|exact IH]. exact (conj H1 (conj H2 (conj H3 (conj H4 (conj H5 (conj H6 (conj H7 H8))))))).
Qed.

Theorem reassembly_any_interleaving_lemma : forall l3 mtu o msgs frames,
  (128 <= mtu)%Z -> o_frag o = true -> Forall msg_ok msgs -> NoDup (map s_seq msgs) ->
  Permutation (concat (map (frames_of_msg mtu o) msgs)) frames ->
  exists store ups,
    link_run_bytes l3 [] [] frames = Some (store, ups) /\
    (forall b, st_get b store = None) /\
    Permutation ups (map (fun x => (s_wire x, s_tok x, s_mark x)) msgs).
Proof.
  intros l3 mtu o msgs frames Hmtu Hfr Hok Hnd Hperm.
  destruct (records_exist mtu o msgs Hmtu Hfr Hok) as (ms & Hrel).
  (* frames = encodings of the records' frames *)
  assert (Hframes : concat (map (frames_of_msg mtu o) msgs) = map lp_encode (concat (map frames_of_m ms))).
  { clear - Hrel. induction Hrel as [|x m l ml (H1 & _) _ IH]; [reflexivity|]. cbn [map concat]. rewrite map_app, <- IH. f_equal.
    unfold frames_of_msg, send_packet. rewrite <- H1. now destruct (send_fields mtu o (s_seq x) (s_tok x) (s_inface x) (s_mark x) (s_wire x)). }
  rewrite Hframes in Hperm. apply Permutation_sym in Hperm.
  destruct (Permutation_map_inv _ _ Hperm) as (fs & -> & Hfs).
  (* well-formedness of the records *)
  assert (Hwf : Forall wf_m ms).
  { clear - Hrel. induction Hrel as [|x m l ml (_ & H2 & _) _ IH]; constructor; assumption. }
  assert (Hbases : bases_distinct ms).
  { intros j1 j2 m1 m2 H1 H2 _ _ Eb.
    assert (Hs : forall j m, nth_error ms j = Some m -> nth_error (map s_seq msgs) j = Some (m_base m)).
    { clear - Hrel. induction Hrel as [|x m l ml (_ & _ & _ & _ & H5 & _) _ IH]; intros j m' H; [destruct j; discriminate|].
      destruct j as [|j]; cbn [nth_error map] in *; [inversion H; subst; now rewrite H5|now apply IH]. }
    pose proof (Hs _ _ H1) as E1. pose proof (Hs _ _ H2) as E2. rewrite Eb in E1.
    eapply (proj1 (NoDup_nth_error (map s_seq msgs)) Hnd); [apply nth_error_Some; congruence|congruence]. }
  destruct (reassembly_records ms fs Hwf Hbases Hfs) as (store & ups & Hrun & Hempty & Hups).
  exists store, ups. split; [|split; [exact Hempty|]].
  - rewrite link_run_bytes_encode; [exact Hrun|].
    (* every frame is sendable *)
    assert (Hall : Forall sendable (concat (map frames_of_m ms))).
    { clear - Hrel Hok. revert Hok. induction Hrel as [|x m l ml (_ & H2 & H3 & H4 & _ & H6 & H7 & _) _ IH]; intros Hok; [constructor|].
      inversion Hok as [|? ? (Hw & Ht & _ & Hi & Hm) Hok']; subst. cbn [map concat]. apply Forall_app. split; [|now apply IH].
      unfold frames_of_m. apply Forall_forall. intros f Hf. apply in_map_iff in Hf as (i & <- & Hi'). apply in_seq in Hi'.
      apply frame_of_sendable; [exact H2|lia| | | |].
      - rewrite H3, lenN_spec. lia.
      - rewrite H6. destruct (o_ifi o); [exact Hi|exact I].
      - now rewrite H4.
      - rewrite H7. unfold zlen in Hw. lia. }
    eapply Permutation_Forall; [exact Hfs|exact Hall].
  - eapply Permutation_trans; [exact Hups|].
    replace (flat_map (fun m => if (0 <? length (m_cs m))%nat then [triple m] else []) ms)
      with (map (fun x => (s_wire x, s_tok x, s_mark x)) msgs); [apply Permutation_refl|].
    clear - Hrel. induction Hrel as [|x m l ml (_ & _ & H3 & H4 & _ & _ & H7 & H8) _ IH]; [reflexivity|].
    cbn [map flat_map]. rewrite IH. destruct (m_cs m) eqn:E; [congruence|]. cbn [length Nat.ltb Nat.leb app].
    unfold triple. now rewrite E, H7, H3, H4.
Qed.

(* The projected-observables oracle (Lp.c10_frames_sem) on concrete frames: it accepts the frames of the model's own sender (a 300-byte
   packet over an MTU of 100: several fragments), it accepts a DIFFERENT split of the same packet (balanced fragment sizes, sequence
   numbers starting elsewhere inside the window), and it rejects a lost fragment, a fragment with a byte changed, and a sequence number
   outside the window. *)
Lemma frames_sem_examples :
  let o := mkSo true true in
  let wire := map (fun i => N.of_nat i mod 251) (seq 0 300) in
  let tok := [1; 2; 3; 4; 5; 6] in
  let '(frames, ls1) := ls_send 100 (set_next_seq (make_ls o) 7) tok (Some 9) (Some 1) wire in
  let mk q i c fr := lp_encode (mkLpf (Some q) (Some i) (Some 3) tok (Some 9) None None (Some 1) (Some fr)) in
  let alt := [mk 8 0 3 (firstn 100 wire); mk 9 1 3 (firstn 100 (skipn 100 wire)); mk 10 2 3 (skipn 200 wire)] in
  (1 <? length frames)%nat = true /\
  c10_frames_sem o 7 (ls_seq ls1) tok (Some 9) (Some 1) wire frames = 0 /\
  c10_frames_sem o 7 12 tok (Some 9) (Some 1) wire alt = 0 /\
  c10_frames_sem o 7 (ls_seq ls1) tok (Some 9) (Some 1) wire (tl frames) = 2 /\
  c10_frames_sem o 7 12 tok (Some 9) (Some 1) (1 :: tl wire) alt = 2 /\
  c10_frames_sem o 7 10 tok (Some 9) (Some 1) wire alt = 6 /\
  c10_frames_sem o 7 12 tok None (Some 1) wire alt = 5.
Proof. vm_compute. repeat split. Qed.
