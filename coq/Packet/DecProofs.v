(* Packet/DecProofs.v — each generated parser, run on the bytes its encoder writes, returns the value.
   All statements are over View, i.e. hold for a BufferReader and for a WireReader over any segmentation. *)
From Packet Require Import Model Spec ReadersProofs EncProofs DecGeneric.
From Names Require Import Order.
From Coq Require Import ZifyBool ZifyN ZifyNat.
Open Scope nat_scope.
Arguments HDone {S}. Arguments HUnk {S}. Arguments HNot {S}.

Notation big := 9223372036854775808%N.     (* 2^63: sizes are Go ints *)

(* ---------------------------------------------------------------- numbers *)
Lemma be_val_acc_ge l : forall acc, (acc <= be_val_acc acc l)%N.
Proof. induction l as [|b l IH]; intros acc; simpl; [lia|]. specialize (IH (acc * 256 + b)%N). lia. Qed.

Lemma fold_uint_be m l : forall acc, (be_val_acc acc l < m)%N ->
  fold_left (fun v x => ((v * 256 + x) mod m)%N) l acc = be_val_acc acc l.
Proof.
  induction l as [|b l IH]; intros acc H; simpl in *; [reflexivity|].
  pose proof (be_val_acc_ge l (acc * 256 + b)%N).
  rewrite N.mod_small by lia. apply IH. exact H.
Qed.

Lemma nat_len_bound x : (x < two64)%N -> (x < 256 ^ N.of_nat (nat_len x))%N.
Proof.
  intros H. unfold nat_len, two64 in *.
  destruct (x <=? 255)%N eqn:E1; [change (256 ^ N.of_nat 1)%N with 256%N; lia|].
  destruct (x <=? 65535)%N eqn:E2; [change (256 ^ N.of_nat 2)%N with 65536%N; lia|].
  destruct (x <=? 4294967295)%N eqn:E3; [change (256 ^ N.of_nat 4)%N with 4294967296%N; lia|].
  change (256 ^ N.of_nat 8)%N with 18446744073709551616%N; lia.
Qed.

Lemma fold_uint_nat_enc x : (x < two64)%N -> fold_uint two64 (nat_enc x) = x.
Proof.
  intros H. unfold fold_uint, nat_enc. rewrite fold_uint_be.
  - change (be_val_acc 0 (be (nat_len x) x)) with (be_val (be (nat_len x) x)). apply be_val_be, nat_len_bound, H.
  - change (be_val_acc 0 (be (nat_len x) x)) with (be_val (be (nat_len x) x)). rewrite be_val_be by (apply nat_len_bound, H). exact H.
Qed.
Lemma fold_uint_be4 x : (x < 4294967296)%N -> fold_uint 4294967296 (be 4 x) = x.
Proof.
  intros H. unfold fold_uint. assert (Hb : be_val (be 4 x) = x) by (apply be_val_be; change (256 ^ N.of_nat 4)%N with 4294967296%N; exact H).
  rewrite fold_uint_be; [exact Hb|]. change (be_val_acc 0 (be 4 x)) with (be_val (be 4 x)). rewrite Hb. exact H.
Qed.
Lemma nat_enc_len_pos x : 0 < length (nat_enc x) <= 8.
Proof. rewrite nat_enc_length. unfold nat_len. repeat match goal with |- context[if ?c then _ else _] => destruct c end; lia. Qed.

Lemma dur_roundtrip d : dur_wf d -> dur_of_ms (ms_of d) = d.
Proof.
  intros (Hm & Hb). unfold dur_of_ms, ms_of, two64z, two63z in *.
  assert (E : (d = (d / 1000000) * 1000000)%Z) by (pose proof (Z.div_mod d 1000000); lia).
  set (q := (d / 1000000)%Z) in *. clearbody q.
  assert (Hq : Z.quot d 1000000 = q) by (rewrite E; apply Z.quot_mul; lia).
  rewrite Hq.
  assert (Hwrap : wrap_int (q * 1000000) = (q * 1000000)%Z) by (unfold wrap_int, two63z, two64z; rewrite Z.mod_small by lia; lia).
  destruct (Z_lt_le_dec q 0) as [Hn|Hp].
  - assert (Hmod : (q mod 18446744073709551616 = q + 18446744073709551616)%Z).
    { symmetry. apply (Z.mod_unique q 18446744073709551616 (-1)); lia. }
    rewrite Hmod. unfold to_int.
    replace (Z.to_N (q + 18446744073709551616) <? 9223372036854775808)%N with false by (symmetry; apply N.ltb_ge; lia).
    unfold two64, two64z. rewrite N.mod_small by lia. rewrite Z2N.id by lia.
    replace (q + 18446744073709551616 - 18446744073709551616)%Z with q by lia. rewrite Hwrap. lia.
  - rewrite Z.mod_small by lia. rewrite to_int_small by lia. rewrite Z2N.id by lia. rewrite Hwrap. lia.
Qed.
Lemma ms_of_bound d : (ms_of d < two64)%N.
Proof. unfold ms_of, two64, two64z. pose proof (Z.mod_pos_bound (Z.quot d 1000000) 18446744073709551616). lia. Qed.

(* ---------------------------------------------------------------- names *)
(* sigCoverEnd as the Interest parser computes it: start of the last component of type 2, else the default *)
Fixpoint scan_digest (n : name) (pos : Z) (dflt : Z) : Z :=
  match n with
  | [] => dflt
  | c :: r => scan_digest r (pos + Z.of_nat (length (comp_enc c))) (if (ctyp c =? 2)%N then pos else dflt)
  end.

Definition comp_ok (c : comp) : Prop := (ctyp c < two64)%N /\ (N.of_nat (length (cval c)) < big)%N.

Lemma comp_enc_ge2 c : 2 <= length (comp_enc c).
Proof. unfold comp_enc. rewrite !app_length, !tl_enc_length. pose proof (tl_len_pos (ctyp c)). pose proof (tl_len_pos (N.of_nat (length (cval c)))). lia. Qed.

Lemma name_loop_ok n : forall r all p rest acc j slots fuel ce,
  View r all p -> skipn p all = name_inner n ++ rest -> Forall comp_ok n ->
  length n < fuel -> (j + N.of_nat (length n) < slots)%N ->
  exists r', name_loop fuel j slots (Z.of_nat (p + length (name_inner n))) acc ce r =
             Ok (rev acc ++ n, scan_digest n (Z.of_nat p) ce, r') /\ View r' all (p + length (name_inner n)).
Proof.
  induction n as [|c n IH]; intros r all p rest acc j slots fuel ce V H Hok Hf Hs.
  - destruct fuel; [simpl in Hf; lia|]. cbn [name_loop name_inner map concat length scan_digest].
    rewrite Nat.add_0_r. destruct (slots <=? j)%N.
    + exists r. rewrite app_nil_r. auto.
    + destruct V as (Hw & Ha & Hp). rewrite Hp. rewrite Z.leb_refl. exists r. rewrite app_nil_r. repeat split; auto.
  - destruct fuel; [simpl in Hf; lia|]. inversion Hok as [|? ? [Ht Hl] Hok']; subst.
    unfold name_inner in *. cbn [map concat] in *. cbn [name_loop].
    simpl length in Hs. replace (slots <=? j)%N with false by lia.
    pose proof V as (Hw & Ha & Hp). rewrite Hp.
    pose proof (comp_enc_ge2 c) as Hc2. rewrite app_length.
    replace (Z.of_nat (p + (length (comp_enc c) + length (concat (map comp_enc n)))) <=? Z.of_nat p)%Z with false by lia.
    rewrite <- app_assoc in H. unfold comp_enc in H at 1. rewrite <- !app_assoc in H.
    destruct (read_tlnum_ok _ _ _ _ _ V H Ht) as (r1 & E1 & V1). rewrite E1. cbn.
    pose proof (skipn_skipn_eq _ _ _ _ H) as H1. rewrite tl_enc_length in H1.
    destruct (read_tlnum_ok _ _ _ _ _ V1 H1) as (r2 & E2 & V2); [unfold two64 in *; lia|]. rewrite E2. cbn.
    pose proof (skipn_skipn_eq _ _ _ _ H1) as H2. rewrite tl_enc_length in H2.
    rewrite to_int_small by exact Hl. rewrite nat_N_Z.
    destruct (read_buf_ok _ _ _ _ _ V2 H2) as (r3 & E3 & V3). rewrite E3. cbn.
    pose proof (skipn_skipn_eq _ _ _ _ H2) as H3.
    assert (Epos : p + tl_len (ctyp c) + tl_len (N.of_nat (length (cval c))) + length (cval c) = p + length (comp_enc c)).
    { unfold comp_enc. rewrite !app_length, !tl_enc_length. lia. }
    rewrite Epos in V3, H3.
    destruct (IH r3 all (p + length (comp_enc c)) rest (mkc (ctyp c) (cval c) :: acc) (j + 1)%N slots fuel
                 (if (ctyp c =? 2)%N then Z.of_nat p else ce) V3 H3 Hok') as (r' & E & V'); [simpl in Hf; lia|lia|].
    replace (p + (length (comp_enc c) + length (concat (map comp_enc n)))) with (p + length (comp_enc c) + length (concat (map comp_enc n))) by lia.
    exists r'. rewrite E. split; [|exact V'].
    cbn [rev scan_digest]. rewrite <- app_assoc. cbn [app]. destruct c; simpl. rewrite Nat2Z.inj_add. reflexivity.
Qed.

Lemma name_inner_len_ge n : 2 * length n <= length (name_inner n).
Proof. induction n as [|c n IH]; [simpl; lia|]. unfold name_inner in *. cbn [map concat length]. rewrite app_length. pose proof (comp_enc_ge2 c). lia. Qed.

Lemma parse_name_body_ok r all p n rest : View r all p -> skipn p all = name_inner n ++ rest -> Forall comp_ok n ->
  (N.of_nat (length all) < big)%N ->
  exists r', parse_name_body (N.of_nat (length (name_inner n))) r =
             Ok (n, Z.of_nat p, scan_digest n (Z.of_nat p) (Z.of_nat (p + length (name_inner n))), r') /\
             View r' all (p + length (name_inner n)).
Proof.
  intros V H Hok Hball. unfold parse_name_body. rewrite (view_remaining _ _ _ V).
  pose proof (skipn_eq_app _ _ _ _ (view_le _ _ _ V) H) as Hle.
  assert (Hb : (N.of_nat (length (name_inner n)) < big)%N) by lia.
  replace (N.of_nat (length all - p) <? N.of_nat (length (name_inner n)))%N with false by lia.
  pose proof V as (Hw & Ha & Hp). rewrite Hp.
  rewrite to_int_small by exact Hb. rewrite nat_N_Z. rewrite <- Nat2Z.inj_add.
  assert (Hwrap : wrap_int (Z.of_nat (p + length (name_inner n))) = Z.of_nat (p + length (name_inner n))).
  { unfold wrap_int, two63z, two64z in *. rewrite Z.mod_small by lia. lia. }
  rewrite Hwrap. pose proof (name_inner_len_ge n) as Hge.
  destruct (name_loop_ok n r all p rest [] 0%N (N.of_nat (length (name_inner n)) / 2 + 1)%N (S (S (length all - p)))
              (Z.of_nat (p + length (name_inner n))) V H Hok) as (r' & E & V').
  { lia. }
  { assert (N.of_nat (length n) <= N.of_nat (length (name_inner n)) / 2)%N by (apply N.div_le_lower_bound; lia). lia. }
  rewrite E. cbn. pose proof V' as (_ & _ & Hp'). rewrite Hp'. rewrite Z.eqb_refl. eauto.
Qed.

Lemma parse_name_ok r all p n rest : View r all p -> skipn p all = name_inner n ++ rest -> Forall comp_ok n ->
  (N.of_nat (length all) < big)%N ->
  exists r', parse_name (N.of_nat (length (name_inner n))) r = Ok (n, r') /\ View r' all (p + length (name_inner n)).
Proof.
  intros V H Hok Hb. unfold parse_name. destruct (parse_name_body_ok _ _ _ _ _ V H Hok Hb) as (r' & E & V').
  rewrite E. cbn. eauto.
Qed.

(* ---------------------------------------------------------------- element views of the encoders *)
Lemma tlv_elem t v : tlv t (blen v) v = enc_elem (t, v).
Proof. reflexivity. Qed.
Lemma nat_tlv_elem t x : nat_tlv t x = enc_elem (t, nat_enc x).
Proof.
  unfold nat_tlv, enc_elem. cbn [fst snd]. rewrite nat_enc_length.
  rewrite (tl_enc_small (N.of_nat (nat_len x))) by (pose proof (nat_len_small x); lia). reflexivity.
Qed.
Lemma name_tlv_elem n : name_tlv n = enc_elem (7%N, name_inner n).
Proof. unfold name_tlv. rewrite name_len_inner. reflexivity. Qed.
Lemma enc_elems_one e : enc_elems [e] = enc_elem e.
Proof. unfold enc_elems. simpl. apply app_nil_r. Qed.
Lemma oenc_oel {A} (f : A -> bytes) (g : A -> bytes) t (o : option A) : (forall a, f a = enc_elem (t, g a)) ->
  oenc f o = enc_elems (oel t (option_map g o)).
Proof. intros H. destruct o; simpl; [rewrite H, enc_elems_one; reflexivity|reflexivity]. Qed.

Ltac types_ok := repeat (first [apply Forall_nil | apply Forall_cons | apply Forall_app; split]); cbn [fst]; unfold two64; try lia.
Lemma oenc_bin t (o : option bytes) : oenc (bin_tlv t) o = enc_elems (oel t o).
Proof. destruct o; simpl; [rewrite enc_elems_one|]; reflexivity. Qed.
Lemma oel_types t o : (t < two64)%N -> Forall (fun e : elem => (fst e < two64)%N) (oel t o).
Proof. intros H. destruct o; simpl; constructor; auto. Qed.

(* ---------------------------------------------------------------- KeyLocator *)
Definition kl_elems (k : keyloc) : list elem := oel 7 (option_map name_inner (kl_name k)) ++ oel 29 (kl_digest k).
Lemma kl_enc_elems k : kl_enc k = enc_elems (kl_elems k).
Proof.
  unfold kl_enc, kl_elems. rewrite enc_elems_app. f_equal.
  - apply oenc_oel. apply name_tlv_elem.
  - apply oenc_bin.
Qed.
Definition name_ok (n : name) : Prop := Forall comp_ok n.
Definition kl_wf (k : keyloc) : Prop := match kl_name k with Some n => name_ok n | None => True end.
Inductive kl_step : elem -> keyloc -> keyloc -> Prop :=
| kls_name n k : name_ok n -> kl_step (7%N, name_inner n) k (mkKL (Some n) (kl_digest k))
| kls_dig b k : kl_step (29%N, b) k (mkKL (kl_name k) (Some b)).
Lemma kl_step_sound : forall e st st', kl_step e st st' -> forall r all p rest, View r all p -> skipn p all = snd e ++ rest ->
  (N.of_nat (length all) < big)%N ->
  exists r', kl_handle (fst e) (N.of_nat (length (snd e))) st r = Ok (st', r') /\ View r' all (p + length (snd e)).
Proof.
  intros e st st' Hs r all p rest V H Hb. inversion Hs; subst; cbn [fst snd] in *; unfold kl_handle.
  - change (7 =? 7)%N with true. cbv iota. destruct (parse_name_ok _ _ _ _ _ V H H0 Hb) as (r' & E & V'). rewrite E. cbn. eauto.
  - change (29 =? 7)%N with false. change (29 =? 29)%N with true. cbv iota.
    destruct (read_full_ok _ _ _ _ _ V H) as (r' & E & V'). rewrite E. cbn. eauto.
Qed.
Lemma kl_chain k : kl_wf k -> uchain kl_step (kl_elems k) (mkKL None None) k.
Proof.
  unfold kl_wf, kl_elems. destruct k as [[n|] [d|]]; simpl; intros H;
    repeat (econstructor; try eassumption); try constructor.
Qed.
Lemma parse_kl_ok r hid k : View r (hid ++ kl_enc k) (length hid) -> kl_wf k -> (N.of_nat (length (hid ++ kl_enc k)) < big)%N ->
  parse_kl r = Ok k.
Proof.
  intros V Hwf Hb. unfold parse_kl. rewrite kl_enc_elems in *.
  eapply (unord_parse_chain kl_handle kl_step kl_step_sound); [apply kl_chain; exact Hwf|exact V| |exact Hb].
  apply elems_wf; [|rewrite app_length in Hb; lia].
  unfold kl_elems. apply Forall_app; split; apply oel_types; unfold two64; lia.
Qed.

(* ---------------------------------------------------------------- Links *)
Definition links_elems (ns : list name) : list elem := map (fun n => (7%N, name_inner n)) ns.
Lemma links_enc_elems ns : links_enc ns = enc_elems (links_elems ns).
Proof. unfold links_enc, links_elems, enc_elems. rewrite map_map. f_equal. apply map_ext. intros; apply name_tlv_elem. Qed.
Inductive links_step : elem -> list name -> list name -> Prop :=
| lks n ns : name_ok n -> links_step (7%N, name_inner n) ns (ns ++ [n]).
Lemma links_step_sound : forall e st st', links_step e st st' -> forall r all p rest, View r all p -> skipn p all = snd e ++ rest ->
  (N.of_nat (length all) < big)%N ->
  exists r', links_handle (fst e) (N.of_nat (length (snd e))) st r = Ok (st', r') /\ View r' all (p + length (snd e)).
Proof.
  intros e st st' Hs r all p rest V H Hb. inversion Hs; subst; cbn [fst snd] in *; unfold links_handle.
  change (7 =? 7)%N with true. cbv iota. destruct (parse_name_ok _ _ _ _ _ V H H0 Hb) as (r' & E & V'). rewrite E. cbn. eauto.
Qed.
Lemma links_chain ns : forall acc, Forall name_ok ns -> uchain links_step (links_elems ns) acc (acc ++ ns).
Proof.
  induction ns as [|n ns IH]; intros acc H; simpl.
  - rewrite app_nil_r. constructor.
  - inversion H; subst. econstructor; [constructor; assumption|].
    replace (acc ++ n :: ns) with ((acc ++ [n]) ++ ns) by (rewrite <- app_assoc; reflexivity). apply IH; assumption.
Qed.
Lemma parse_links_ok r hid ns : View r (hid ++ links_enc ns) (length hid) -> Forall name_ok ns ->
  (N.of_nat (length (hid ++ links_enc ns)) < big)%N -> parse_links r = Ok ns.
Proof.
  intros V Hwf Hb. unfold parse_links. rewrite links_enc_elems in *.
  eapply (unord_parse_chain links_handle links_step links_step_sound); [apply (links_chain ns []); exact Hwf|exact V| |exact Hb].
  apply elems_wf; [|rewrite app_length in Hb; lia].
  unfold links_elems. apply Forall_forall. intros e He. apply in_map_iff in He as (n & <- & _). cbn. unfold two64; lia.
Qed.

(* ---------------------------------------------------------------- MetaInfo *)
Definition meta_elems (m : metainfo) : list elem :=
  oel 24 (option_map nat_enc (mi_ctype m)) ++ oel 25 (option_map (fun d => nat_enc (ms_of d)) (mi_fresh m)) ++ oel 26 (mi_fbid m).
Lemma meta_enc_elems m : meta_enc m = enc_elems (meta_elems m).
Proof.
  unfold meta_enc, meta_elems. rewrite !enc_elems_app. f_equal; [|f_equal].
  - apply oenc_oel. apply nat_tlv_elem.
  - apply (oenc_oel (fun t => nat_tlv 25 (ms_of t)) (fun d => nat_enc (ms_of d))). intros; apply nat_tlv_elem.
  - apply oenc_bin.
Qed.
Definition meta_wf (m : metainfo) : Prop :=
  match mi_ctype m with Some x => (x < two64)%N | None => True end /\ match mi_fresh m with Some d => dur_wf d | None => True end.
Inductive meta_step : elem -> metainfo -> metainfo -> Prop :=
| mts_ct x m : (x < two64)%N -> meta_step (24%N, nat_enc x) m (mkMeta (Some x) (mi_fresh m) (mi_fbid m))
| mts_fr d m : dur_wf d -> meta_step (25%N, nat_enc (ms_of d)) m (mkMeta (mi_ctype m) (Some d) (mi_fbid m))
| mts_fb b m : meta_step (26%N, b) m (mkMeta (mi_ctype m) (mi_fresh m) (Some b)).

Lemma read_nat_ok r all p x rest : View r all p -> skipn p all = nat_enc x ++ rest -> (x < two64)%N ->
  exists r', read_uint two64 r (N.of_nat (length (nat_enc x))) = Ok (x, r') /\ View r' all (p + length (nat_enc x)).
Proof.
  intros V H Hx. pose proof (nat_enc_len_pos x) as [H1 H2].
  destruct (read_uint_ok two64 _ _ _ _ _ V H H1) as (r' & E & V'); [lia|].
  rewrite fold_uint_nat_enc in E by exact Hx. eauto.
Qed.

Lemma meta_step_sound : forall e st st', meta_step e st st' -> forall r all p rest, View r all p -> skipn p all = snd e ++ rest ->
  (N.of_nat (length all) < big)%N ->
  exists r', meta_handle (fst e) (N.of_nat (length (snd e))) st r = Ok (st', r') /\ View r' all (p + length (snd e)).
Proof.
  intros e st st' Hs r all p rest V H Hb. inversion Hs; subst; cbn [fst snd] in *; unfold meta_handle.
  - change (24 =? 24)%N with true. cbv iota. destruct (read_nat_ok _ _ _ _ _ V H H0) as (r' & E & V'). rewrite E. cbn. eauto.
  - change (25 =? 24)%N with false. change (25 =? 25)%N with true. cbv iota.
    destruct (read_nat_ok _ _ _ _ _ V H (ms_of_bound d)) as (r' & E & V'). rewrite E. cbn. rewrite dur_roundtrip by assumption. eauto.
  - change (26 =? 24)%N with false. change (26 =? 25)%N with false. change (26 =? 26)%N with true. cbv iota.
    destruct (read_full_ok _ _ _ _ _ V H) as (r' & E & V'). rewrite E. cbn. eauto.
Qed.
Lemma meta_chain m : meta_wf m -> uchain meta_step (meta_elems m) (mkMeta None None None) m.
Proof.
  unfold meta_wf, meta_elems. destruct m as [[c|] [f|] [b|]]; simpl; intros [H1 H2];
    repeat (econstructor; try eassumption); try constructor.
Qed.
Lemma parse_meta_ok r hid m : View r (hid ++ meta_enc m) (length hid) -> meta_wf m -> (N.of_nat (length (hid ++ meta_enc m)) < big)%N ->
  parse_meta r = Ok m.
Proof.
  intros V Hwf Hb. unfold parse_meta. rewrite meta_enc_elems in *.
  eapply (unord_parse_chain meta_handle meta_step meta_step_sound); [apply meta_chain; exact Hwf|exact V| |exact Hb].
  apply elems_wf; [|rewrite app_length in Hb; lia].
  unfold meta_elems. repeat (apply Forall_app; split); apply oel_types; unfold two64; lia.
Qed.

(* ---------------------------------------------------------------- ValidityPeriod *)
Definition vp_elems (v : validity) : list elem := [(254%N, vp_nb v); (255%N, vp_na v)].
Lemma vp_enc_elems v : vp_enc v = enc_elems (vp_elems v).
Proof. unfold vp_enc, vp_elems, enc_elems. simpl. rewrite app_nil_r. reflexivity. Qed.
Inductive vp_step : elem -> (option bytes * option bytes) -> (option bytes * option bytes) -> Prop :=
| vps_nb b s : (N.of_nat (length b) < big)%N -> vp_step (254%N, b) s (Some b, snd s)
| vps_na b s : (N.of_nat (length b) < big)%N -> vp_step (255%N, b) s (fst s, Some b).
Lemma vp_step_sound : forall e st st', vp_step e st st' -> forall r all p rest, View r all p -> skipn p all = snd e ++ rest ->
  (N.of_nat (length all) < big)%N ->
  exists r', vp_handle (fst e) (N.of_nat (length (snd e))) st r = Ok (st', r') /\ View r' all (p + length (snd e)).
Proof.
  intros e st st' Hs r all p rest V H Hb. inversion Hs; subst; cbn [fst snd] in *; unfold vp_handle.
  - change (254 =? 254)%N with true. cbv iota. destruct (copy_n_ok _ _ _ _ _ V H H0) as (r' & E & V'). rewrite E. cbn. eauto.
  - change (255 =? 254)%N with false. change (255 =? 255)%N with true. cbv iota.
    destruct (copy_n_ok _ _ _ _ _ V H H0) as (r' & E & V'). rewrite E. cbn. eauto.
Qed.
Lemma parse_vp_ok r hid v : View r (hid ++ vp_enc v) (length hid) -> (N.of_nat (length (hid ++ vp_enc v)) < big)%N -> parse_vp r = Ok v.
Proof.
  intros V Hb. unfold parse_vp. rewrite vp_enc_elems in *.
  assert (Hwf : Forall elem_wf (vp_elems v)).
  { apply elems_wf; [|rewrite app_length in Hb; lia]. unfold vp_elems. repeat constructor; cbn; unfold two64; lia. }
  rewrite (unord_parse_chain vp_handle vp_step vp_step_sound (vp_elems v) (None, None) (Some (vp_nb v), Some (vp_na v)) r hid); auto.
  - destruct v; reflexivity.
  - inversion Hwf as [|? ? [_ H1] Hwf']; subst. inversion Hwf' as [|? ? [_ H2] _]; subst. cbn [snd] in *.
    unfold vp_elems. econstructor; [apply vps_nb; exact H1|]. econstructor; [apply (vps_na (vp_na v) (Some (vp_nb v), None)); exact H2|]. constructor.
Qed.

(* ---------------------------------------------------------------- SignatureInfo *)
Definition si_elems (s : siginfo) : list elem :=
  [(27%N, nat_enc (si_type s))] ++ oel 28 (option_map kl_enc (si_kl s)) ++ oel 38 (si_nonce s)
  ++ oel 40 (option_map (fun t => nat_enc (ms_of t)) (si_time s)) ++ oel 42 (option_map nat_enc (si_seq s))
  ++ oel 253 (option_map vp_enc (si_vp s)).
Lemma si_enc_elems s : si_enc s = enc_elems (si_elems s).
Proof.
  unfold si_enc, si_elems. rewrite !enc_elems_app. f_equal; [rewrite enc_elems_one; apply nat_tlv_elem|].
  f_equal; [apply (oenc_oel (fun k => tlv 28 (kl_len k) (kl_enc k)) kl_enc); intros; rewrite kl_len_ok; reflexivity|].
  f_equal; [apply oenc_bin|].
  f_equal; [apply (oenc_oel (fun t => nat_tlv 40 (ms_of t)) (fun t => nat_enc (ms_of t))); intros; apply nat_tlv_elem|].
  f_equal; [apply oenc_oel; apply nat_tlv_elem|].
  apply (oenc_oel (fun v => tlv 253 (vp_len v) (vp_enc v)) vp_enc); intros; rewrite vp_len_ok; reflexivity.
Qed.
Definition si_wf (s : siginfo) : Prop :=
  (si_type s < two64)%N /\ match si_kl s with Some k => kl_wf k | None => True end /\
  match si_time s with Some d => dur_wf d | None => True end /\ match si_seq s with Some x => (x < two64)%N | None => True end /\
  si_unmodelled s = false.
Inductive si_step : elem -> si_st -> si_st -> Prop :=
| sis_type x s : (x < two64)%N -> si_step (27%N, nat_enc x) s (mkSIst (Some x) (ss_kl s) (ss_nonce s) (ss_time s) (ss_seq s) (ss_vp s) (ss_unm s))
| sis_kl k s : kl_wf k -> si_step (28%N, kl_enc k) s (mkSIst (ss_type s) (Some k) (ss_nonce s) (ss_time s) (ss_seq s) (ss_vp s) (ss_unm s))
| sis_nonce b s : si_step (38%N, b) s (mkSIst (ss_type s) (ss_kl s) (Some b) (ss_time s) (ss_seq s) (ss_vp s) (ss_unm s))
| sis_time d s : dur_wf d -> si_step (40%N, nat_enc (ms_of d)) s (mkSIst (ss_type s) (ss_kl s) (ss_nonce s) (Some d) (ss_seq s) (ss_vp s) (ss_unm s))
| sis_seq x s : (x < two64)%N -> si_step (42%N, nat_enc x) s (mkSIst (ss_type s) (ss_kl s) (ss_nonce s) (ss_time s) (Some x) (ss_vp s) (ss_unm s))
| sis_vp v s : si_step (253%N, vp_enc v) s (mkSIst (ss_type s) (ss_kl s) (ss_nonce s) (ss_time s) (ss_seq s) (Some v) (ss_unm s)).

(* delegate to a sub-parser over exactly the value bytes *)
Lemma delegate_sub r all p x rest : View r all p -> skipn p all = x ++ rest -> (N.of_nat (length all) < big)%N ->
  exists sub r' hid, delegate r (Z.of_nat (length x)) = Ok (sub, r') /\ View sub (hid ++ x) (length hid) /\
                     (N.of_nat (length (hid ++ x)) < big)%N /\ View r' all (p + length x).
Proof.
  intros V H Hb. destruct (delegate_ok _ _ _ _ _ V H) as (sub & r' & hid & E & Hh & Vs & Vr).
  exists sub, r', hid. repeat split; try assumption; try apply Vs; try apply Vr.
  pose proof (view_le _ _ _ Vr). rewrite app_length. lia.
Qed.

Lemma si_step_sound : forall e st st', si_step e st st' -> forall r all p rest, View r all p -> skipn p all = snd e ++ rest ->
  (N.of_nat (length all) < big)%N ->
  exists r', si_handle (fst e) (N.of_nat (length (snd e))) st r = Ok (st', r') /\ View r' all (p + length (snd e)).
Proof.
  intros e st st' Hs r all p rest V H Hb.
  assert (Hl : (N.of_nat (length (snd e)) < big)%N) by (pose proof (skipn_eq_app _ _ _ _ (view_le _ _ _ V) H); lia).
  inversion Hs; subst; cbn [fst snd] in *; unfold si_handle.
  - change (27 =? 27)%N with true. cbv iota. destruct (read_nat_ok _ _ _ _ _ V H H0) as (r' & E & V'). rewrite E. cbn. eauto.
  - change (28 =? 27)%N with false. change (28 =? 28)%N with true. cbv iota.
    rewrite to_int_small by exact Hl. rewrite nat_N_Z.
    destruct (delegate_sub _ _ _ _ _ V H Hb) as (sub & r' & hid & E & Vs & Hbs & Vr). rewrite E. cbn.
    rewrite (parse_kl_ok sub hid k Vs H0 Hbs). cbn. eauto.
  - change (38 =? 27)%N with false. change (38 =? 28)%N with false. change (38 =? 38)%N with true. cbv iota.
    destruct (read_full_ok _ _ _ _ _ V H) as (r' & E & V'). rewrite E. cbn. eauto.
  - change (40 =? 27)%N with false. change (40 =? 28)%N with false. change (40 =? 38)%N with false. change (40 =? 40)%N with true. cbv iota.
    destruct (read_nat_ok _ _ _ _ _ V H (ms_of_bound d)) as (r' & E & V'). rewrite E. cbn. rewrite dur_roundtrip by assumption. eauto.
  - change (42 =? 27)%N with false. change (42 =? 28)%N with false. change (42 =? 38)%N with false. change (42 =? 40)%N with false.
    change (42 =? 42)%N with true. cbv iota.
    destruct (read_nat_ok _ _ _ _ _ V H H0) as (r' & E & V'). rewrite E. cbn. eauto.
  - change (253 =? 27)%N with false. change (253 =? 28)%N with false. change (253 =? 38)%N with false. change (253 =? 40)%N with false.
    change (253 =? 42)%N with false. change (253 =? 253)%N with true. cbv iota.
    rewrite to_int_small by exact Hl. rewrite nat_N_Z.
    destruct (delegate_sub _ _ _ _ _ V H Hb) as (sub & r' & hid & E & Vs & Hbs & Vr). rewrite E. cbn.
    rewrite (parse_vp_ok sub hid v Vs Hbs). cbn. eauto.
Qed.
Lemma si_chain s : si_wf s ->
  uchain si_step (si_elems s) (mkSIst None None None None None None false)
         (mkSIst (Some (si_type s)) (si_kl s) (si_nonce s) (si_time s) (si_seq s) (si_vp s) false).
Proof.
  unfold si_wf, si_elems. destruct s as [ty [k|] [n|] [t|] [q|] [v|] u]; simpl; intros (H1 & H2 & H3 & H4 & H5);
    repeat (econstructor; try eassumption); try constructor.
Qed.
Lemma parse_si_ok r hid s : View r (hid ++ si_enc s) (length hid) -> si_wf s -> (N.of_nat (length (hid ++ si_enc s)) < big)%N ->
  parse_si r = Ok s.
Proof.
  intros V Hwf Hb. unfold parse_si. rewrite si_enc_elems in *.
  rewrite (unord_parse_chain si_handle si_step si_step_sound (si_elems s) _ _ r hid (si_chain s Hwf) V); [| |exact Hb].
  - cbn. destruct Hwf as (_ & _ & _ & _ & Hu). destruct s; simpl in *. subst. reflexivity.
  - apply elems_wf; [|rewrite app_length in Hb; lia].
    unfold si_elems. repeat (apply Forall_app; split); try (apply oel_types; unfold two64; lia). repeat constructor.
Qed.

(* ---------------------------------------------------------------- sigCoverEnd of the Interest name, in nat *)
Fixpoint digest_pos (n : name) (pos dflt : nat) : nat :=
  match n with
  | [] => dflt
  | c :: r => digest_pos r (pos + length (comp_enc c)) (if (ctyp c =? 2)%N then pos else dflt)
  end.
Lemma scan_digest_nat n : forall pos dflt, scan_digest n (Z.of_nat pos) (Z.of_nat dflt) = Z.of_nat (digest_pos n pos dflt).
Proof.
  induction n as [|c n IH]; intros pos dflt; [reflexivity|]. cbn [scan_digest digest_pos].
  rewrite <- Nat2Z.inj_add. destruct (ctyp c =? 2)%N; apply IH.
Qed.
Lemma digest_pos_bounds n : forall pos dflt lo, lo <= pos -> lo <= dflt <= pos + length (name_inner n) ->
  lo <= digest_pos n pos dflt <= pos + length (name_inner n).
Proof.
  induction n as [|c n IH]; intros pos dflt lo H1 H2; [simpl in *; lia|].
  unfold name_inner in *. cbn [digest_pos map concat] in *. rewrite app_length in *.
  replace (pos + (length (comp_enc c) + length (concat (map comp_enc n)))) with (pos + length (comp_enc c) + length (concat (map comp_enc n))) by lia.
  apply IH; [lia|]. destruct (ctyp c =? 2)%N; lia.
Qed.
Lemma digest_pos_shift n : forall a x y, digest_pos n (a + x) (a + y) = a + digest_pos n x y.
Proof.
  induction n as [|c n IH]; intros a x y; [reflexivity|]. cbn [digest_pos].
  rewrite <- Nat.add_assoc. destruct (ctyp c =? 2)%N; apply IH.
Qed.
(* offset, inside the encoded components, where the part of the name covered by an Interest signature ends *)
Definition doff (n : name) : nat := digest_pos n 0 (length (name_inner n)).
Lemma doff_le n : doff n <= length (name_inner n).
Proof. unfold doff. pose proof (digest_pos_bounds n 0 (length (name_inner n)) 0). lia. Qed.
Lemma doff_last pre v : doff (pre ++ [mkc 2 v]) = length (name_inner pre).
Proof.
  unfold doff. generalize (length (name_inner (pre ++ [mkc 2 v]))) as dflt.
  assert (H : forall pos dflt, digest_pos (pre ++ [mkc 2 v]) pos dflt = pos + length (name_inner pre)).
  { induction pre as [|c pre IH]; intros pos dflt.
    - simpl. lia.
    - cbn [app digest_pos]. rewrite IH. unfold name_inner. cbn [map concat]. rewrite app_length. lia. }
  intros dflt. rewrite H. reflexivity.
Qed.
