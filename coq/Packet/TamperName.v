(* Packet/TamperName.v — C12: a flipped bit inside the name components of a signed Interest (first signed range). *)
From Packet Require Import Model Spec ReadersProofs EncProofs DecGeneric DecProofs DecData DecInterest EncData EncInterest Roundtrip Inv Tamper TamperInt.
From Coq Require Import ZifyBool ZifyN ZifyNat.
Open Scope nat_scope.
Arguments HDone {S}. Arguments HUnk {S}. Arguments HNot {S}.
Arguments ROk {A}. Arguments RErr {A}. Arguments RPanic {A}. Arguments RUnmodelled {A}.
Notation big := 9223372036854775808%N.

Ltac hnot k := let ix := fresh "ix" in let sx := fresh "sx" in let Hix := fresh "Hix" in intros ix sx Hix; unfold int_handle; cbn [N.eqb Pos.eqb]; replace (ix =? k)%nat with false by (symmetry; apply Nat.eqb_neq; lia); reflexivity.
Ltac hdone := let sx := fresh "sx" in intros sx; unfold int_handle; cbn [N.eqb Pos.eqb Nat.eqb]; reflexivity.

(* ---------------------------------------------------------------- flips inside the name components (first signed range) *)
Lemma name_loop_ce fuel : forall j slots en acc ce r all p n ce' r' lo, View r all p ->
  name_loop fuel j slots en acc ce r = Ok (n, ce', r') -> (lo <= ce <= en)%Z -> (lo <= Z.of_nat p)%Z ->
  exists p', p <= p' /\ View r' all p' /\ (lo <= ce' <= en)%Z.
Proof.
  induction fuel as [|f IH]; intros j slots en acc ce r all p n ce' r' lo V E Hce Hlo; [discriminate|].
  cbn [name_loop] in E.
  destruct (slots <=? j)%N; [inversion E; subst; eauto|].
  pose proof V as (_ & _ & Hp). rewrite Hp in E.
  destruct (en <=? Z.of_nat p)%Z eqn:Een; [inversion E; subst; eauto|].
  destruct (read_tlnum r) as [[t r1]| |] eqn:E1; cbn [bind] in E; try discriminate.
  destruct (read_tlnum r1) as [[l r2]| |] eqn:E2; cbn [bind] in E; try discriminate.
  destruct (read_buf r2 (to_int l)) as [[v r3]| |] eqn:E3; cbn [bind] in E; try discriminate.
  destruct (read_tlnum_inv _ _ _ _ _ V E1) as (k1 & ? & ? & _ & V1).
  destruct (read_tlnum_inv _ _ _ _ _ V1 E2) as (k2 & ? & ? & _ & V2).
  destruct (read_buf_inv _ _ _ _ _ _ V2 E3) as (? & ? & _ & V3).
  destruct (IH _ _ _ _ _ _ _ _ _ _ _ lo V3 E) as (p' & Hp' & V' & Hc'); [destruct (t =? 2)%N; lia|lia|].
  exists p'. split; [lia|]. split; assumption.
Qed.

Lemma parse_name_body_inv l r all p n sn ce r' : View r all p -> (N.of_nat (length all) < big)%N ->
  parse_name_body l r = Ok (n, sn, ce, r') ->
  sn = Z.of_nat p /\ (Z.of_nat p <= ce <= Z.of_nat (p + N.to_nat l))%Z /\ View r' all (p + N.to_nat l) /\ p + N.to_nat l <= length all.
Proof.
  intros V Hb E. unfold parse_name_body in E. rewrite (view_remaining _ _ _ V) in E. pose proof (view_le _ _ _ V) as Hle.
  destruct (N.of_nat (length all - p) <? l)%N eqn:El; [discriminate|].
  pose proof V as (_ & _ & Hp). rewrite Hp in E.
  assert (Hti : to_int l = Z.of_N l) by (apply to_int_small; lia).
  assert (Hen : wrap_int (Z.of_nat p + to_int l) = Z.of_nat (p + N.to_nat l)).
  { rewrite Hti. unfold wrap_int, two63z, two64z. rewrite Z.mod_small by lia. lia. }
  rewrite Hen in E.
  destruct (name_loop _ _ _ _ _ _ r) as [[[n0 ce0] r0]| |] eqn:Eloop; cbn [bind] in E; try discriminate.
  destruct (Z.of_nat (rd_pos r0) =? Z.of_nat (p + N.to_nat l))%Z eqn:Epos; [|discriminate]. inversion E; subst n0 sn ce0 r0.
  destruct (name_loop_ce _ _ _ _ _ _ _ _ _ _ _ _ (Z.of_nat p) V Eloop) as (p' & Hp' & V' & Hc); [lia|lia|].
  pose proof V' as (_ & _ & Hp2). rewrite Hp2 in Epos. assert (Hpe : p' = p + N.to_nat l) by lia. rewrite Hpe in V'.
  split; [reflexivity|]. split; [exact Hc|]. split; [exact V'|]. lia.
Qed.

Lemma head_elems_wf cbp mbf fh nonce life hop :
  (N.of_nat (length (enc_elems (int_head_elems cbp mbf fh nonce life hop))) < big)%N ->
  Forall elem_wf (int_head_elems cbp mbf fh nonce life hop).
Proof.
  intros Hb. apply elems_wf; [|exact Hb].
  pose proof (int_elems_types [] cbp mbf fh nonce life hop None None None) as Ht. unfold int_elems in Ht.
  apply Forall_app in Ht as [_ Ht]. apply Forall_app in Ht as [Ht _]. exact Ht.
Qed.

(* The Interest value  [7 L NV'] ++ HD ++ T2 ++ S  where NV' is the name's value with one octet changed at an index
   inside the signed components (index < r1, r1 = length of the name without its digest component). *)
Lemma int_name_core cbp mbf fh nonce life hop (T2 sv hid prefix sufx R1rest : bytes) x x' sub i cx w :
  head_wf fh nonce life ->
  let m := N.of_nat (length sv) in
  (m <= 252)%N -> x' <> x ->
  let NV' := prefix ++ x' :: sufx in
  length R1rest <= length sufx ->
  let HDb := enc_elems (int_head_elems cbp mbf fh nonce life hop) in
  let V' := enc_elem (7%N, NV') ++ HDb ++ T2 ++ 46%N :: tl_enc m ++ sv in
  View sub (hid ++ V') (length hid) -> (N.of_nat (length (hid ++ V')) < big)%N ->
  parse_interest (mkIctx [] [] 0 0 0) sub = Ok (i, cx) -> i_sv i = Some w ->
  concat (ix_cov cx) = (prefix ++ x :: R1rest) ++ T2 -> concat w = sv -> False.
Proof.
  intros Hh m Hm Hne NV' Hsuf HDb V' Vs Hbig Ep Hsv Hcov Hw.
  set (TL := T2 ++ 46%N :: tl_enc m ++ sv) in *. set (all := hid ++ V') in *. set (B := length hid) in *.
  assert (Htm : tl_enc m = [m]) by (unfold tl_enc; replace (m <=? 252)%N with true by lia; reflexivity).
  set (h := B + tl_len 7 + tl_len (N.of_nat (length NV'))).
  set (en := h + length NV'). set (a0 := en + length HDb).
  assert (HlenV' : B + length V' = a0 + length TL).
  { unfold V', a0, en, h. fold TL. rewrite !app_length, enc_elem_length. cbn [fst snd]. lia. }
  assert (Hall : length all = a0 + length TL) by (unfold all; rewrite app_length; fold B; lia).
  assert (HlenTL : length TL = length T2 + 2 + length sv).
  { unfold TL. rewrite app_length. cbn [length]. rewrite app_length, Htm. cbn [length]. lia. }
  (* the Name element: header intact, value arbitrary *)
  unfold parse_interest, ord_parse in Ep.
  assert (He : elem_wf (7%N, NV')).
  { split; [cbn; unfold two64; lia|]. cbn [snd]. rewrite Hall in Hbig. unfold a0, en in Hbig. lia. }
  assert (Hs0 : skipn B all = enc_elem (7%N, NV') ++ HDb ++ TL).
  { unfold all, B. rewrite skipn_app_ge by lia. rewrite Nat.sub_diag. reflexivity. }
  destruct (read_header _ _ _ _ _ Vs Hs0 He) as (r2 & Eh & V2 & H2 & Hlt). cbn [fst snd] in *. fold h in V2, H2.
  rewrite (view_remaining _ _ _ Vs) in Ep. fold B in Ep.
  cbn [ord_loop] in Ep.
  rewrite (view_len _ _ _ Vs) in Ep. pose proof Vs as (_ & _ & HpB). rewrite HpB in Ep. fold B in Ep.
  replace (length all <=? B) with false in Ep by (symmetry; apply Nat.leb_gt; lia).
  destruct (read_tlnum sub) as [[typ r1]| |] eqn:E1; cbn in Eh; try discriminate. cbn [bind] in Ep.
  destruct (read_tlnum r1) as [[l r2']| |] eqn:E2; cbn in Eh; try discriminate.
  inversion Eh; subst typ l r2'. cbn [bind] in Ep. change (15 + 2) with 17 in Ep.
  set (K := ord_loop 15 int_handle int_skip (length all - B)) in Ep.
  rewrite (ord_inner_known 15 int_handle int_skip 7 (N.of_nat (length NV')) B 2
             (fun s => let i := is_val s in let cx := is_ctx s in
                do (n, sn, ce, r') <- parse_name_body (N.of_nat (length NV')) r2;
                let cov := range_or_nil r' sn ce in
                Ok (mkIst (mkInt (Some n) (i_cbp i) (i_mbf i) (i_fh i) (i_nonce i) (i_life i) (i_hop i) (i_app i) (i_si i) (i_sv i))
                          (mkIctx (ix_cov cx ++ cov) (ix_dcov cx) (ix_start cx) (ix_dstart cx) (ix_dend cx)) (is_h9 s) (is_h10 s) (is_h14 s), r'))
             r2 ltac:(hnot 2) ltac:(hdone) 2 0 _ 17) in Ep by lia.
  cbn [iter_skip] in Ep. unfold int_skip in Ep. cbn [Nat.eqb] in Ep. cbv zeta in Ep.
  cbn [is_val is_ctx is_h9 is_h10 is_h14 i_cbp i_mbf i_fh i_nonce i_life i_hop i_app i_si i_sv ix_cov ix_dcov ix_start ix_dstart ix_dend] in Ep.
  destruct (parse_name_body (N.of_nat (length NV')) r2) as [[[[n' sn] ce] r3]| |] eqn:Epn; cbn [bind] in Ep; try discriminate.
  destruct (parse_name_body_inv _ _ _ _ _ _ _ _ V2 Hbig Epn) as (Hsn & Hce & V3 & Hen). rewrite Nat2N.id in V3, Hce, Hen. fold en in V3, Hen, Hce.
  set (cen := Z.to_nat ce).
  assert (Hcen : ce = Z.of_nat cen) by (unfold cen; lia).
  assert (Hcb : h <= cen <= en) by lia.
  destruct (range_ok _ _ _ h cen V3 ltac:(lia) ltac:(lia)) as (cw & Er & Hcw).
  unfold range_or_nil in Ep. rewrite Hsn, Hcen, Er in Ep. cbn [app] in Ep. unfold K in Ep. clear K.
  set (covX := firstn (cen - h) (skipn h all)) in *.
  (* forward over the (intact) optional fields *)
  set (st1 := mkIst (mkInt (Some n') false false None None None None None None None) (mkIctx cw [] 0 0 0) false false false) in *.
  assert (Hwf : Forall elem_wf (int_head_elems cbp mbf fh nonce life hop)).
  { apply head_elems_wf. fold HDb. rewrite Hall in Hbig. unfold a0 in Hbig. lia. }
  assert (Hs3 : skipn en all = HDb ++ TL).
  { unfold en. replace (h + length NV') with (length NV' + h) by lia. rewrite <- skipn_skipn, H2.
    rewrite skipn_app_ge by lia. rewrite Nat.sub_diag. reflexivity. }
  destruct (int_head_hoare covX n' cbp mbf fh nonce life hop Hh) with
      (all := all) (p := en) (st := st1) (nf := 3) (r := r3) (fuel := length all - B) (rest := TL)
    as (st2 & nf2 & r4 & f2 & E4 & V4 & Hf4 & HQ); auto.
  { unfold iholds, KH, st1. cbn. repeat split; auto. }
  { unfold en, h. pose proof (tl_len_pos 7%N). lia. }
  rewrite E4 in Ep. fold HDb in V4, HQ. fold a0 in V4, HQ.
  unfold iholds, KH in HQ.
  cbn [q_name q_cbp q_mbf q_fh q_nonce q_life q_hop q_app q_si q_sv q_cov q_start q_dstart] in HQ.
  destruct HQ as (Hnf & _ & _ & _ & _ & _ & _ & _ & _ & _ & Hq10 & Hq11 & Hq12 & _ & _).
  assert (Hsvn : i_sv (is_val st2) = None) by (destruct (i_sv (is_val st2)); [discriminate|reflexivity]).
  assert (Hinv : tinv all a0 covX st2 nf2 a0).
  { unfold tinv, isv_ok. split; [lia|]. split; [intros _; exact Hq12|]. split; [intros; lia|]. split; [rewrite Hsvn; congruence|].
    split; [intros _; exact Hq11|]. intros w0 Hw0. rewrite Hsvn in Hw0. discriminate. }
  destruct (ord_loop 15 int_handle int_skip f2 nf2 st2 r4) as [[[st5 r5] nf5]| |] eqn:El; cbn [bind] in Ep; try discriminate.
  destruct (int_tail_loop all a0 covX f2 _ _ _ _ _ _ _ V4 (le_n _) Hinv El) as (p' & (_ & _ & _ & _ & _ & Hsvok)).
  inversion Ep as [[Hi Hcx]]. clear Ep.
  assert (Hcov2 : ix_cov cx = ix_cov (is_ctx st5)).
  { rewrite <- Hcx. destruct (is_h9 st5), (is_h10 st5), (is_h14 st5); reflexivity. }
  rewrite <- Hi in Hsv. destruct (Hsvok w Hsv) as (b & l & c & Hab & Hh' & Hl0 & Hlr & Hwc & Hcc).
  destruct Hh' as (k1 & k2 & Hk1 & Hk2 & Hc & Hcl & _ & _).
  set (s := ix_start (is_ctx st5)) in *.
  rewrite Hcov2, Hcc in Hcov.
  assert (HL : Z.to_nat (to_int l) = length sv).
  { rewrite <- Hw, Hwc. rewrite firstn_length, skipn_length. nlia. }
  assert (HX2 : length (firstn (b - s) (skipn s all)) = b - s) by (rewrite firstn_length, skipn_length; nlia).
  assert (HX1 : length covX = cen - h) by (unfold covX; rewrite firstn_length, skipn_length; nlia).
  assert (Hbb : b - s <= length T2) by nlia.
  (* the first covered range either contains the changed octet or is too short *)
  assert (Hsk : skipn h all = (prefix ++ x' :: sufx) ++ HDb ++ TL) by exact H2.
  destruct (le_lt_dec cen (h + length prefix)) as [Hshort|Hlong].
  - apply (f_equal (@length N)) in Hcov. rewrite !app_length in Hcov. cbn [length] in Hcov. unfold bytes, byte in *. rewrite HX2, HX1 in Hcov. nlia.
  - assert (HcX : covX = prefix ++ x' :: firstn (cen - h - length prefix - 1) sufx).
    { unfold covX. rewrite Hsk. rewrite <- app_assoc. rewrite firstn_app_ge by nlia. f_equal.
      cbn [app]. destruct (cen - h - length prefix) as [|d] eqn:Ed; [nlia|]. cbn [firstn]. f_equal.
      replace (Datatypes.S d - 1) with d by lia.
      assert (d <= length sufx) by (unfold en, NV' in Hcb; rewrite app_length in Hcb; cbn [length] in Hcb; nlia).
      rewrite firstn_app_le by nlia. reflexivity. }
    rewrite HcX in Hcov. rewrite <- !app_assoc in Hcov. apply app_inv_head in Hcov. cbn [app] in Hcov. inversion Hcov. congruence.
Qed.


Section TamperInterestName.
Variable sha256 : bytes -> bytes.
Hypothesis sha256_len : forall x, length (sha256 x) = 32%nat.
Variable sign : list bytes -> option bytes.

(* flips in the name components covered by the signature (the name's value without its digest component) *)
Theorem tamper_name_bit_interest_thm nm cfg a sg si est e sv :
  let pre := strip_digest nm in
  int_siginfo sg true = Ok (si, est) -> (0 < est)%N -> name_ok pre ->
  iconfig_ok cfg -> signer_ok sg -> signer_int_ok sg -> int_fits (pre ++ [mkc 2 zeros32]) cfg (Some a) si est ->
  make_interest sha256 sign nm cfg (Some a) sg = Ok e -> sign (e_cov e) = Some sv ->
  let W := concat (e_wire e) in
  let s1 := value_offset W + value_offset (skipn (value_offset W) W) in
  forall i, s1 <= i / 8 < s1 + length (name_inner pre) ->
  forall r, View r (flip_bit W i) 0 ->
  forall i' cov', read_interest sha256 r = ROk i' cov' ->
    ~ (concat cov' = concat (e_cov e) /\ io_sv (obs_int i') = Some sv).
Proof.
  intros pre Hsi Hest Hpre Hcfg Hsg Hsgi Hfit Hmk Hsign W s1 i Hi r V i' cov' Er [Hcov Hsv].
  pose proof Hcfg as [Hfh Hlife].
  assert (Hhead : head_wf (ic_fh cfg) (option_map (fun x => (x mod 4294967296)%N) (ic_nonce cfg)) (ic_life cfg)).
  { split; [exact Hfh|]. split; [|exact Hlife]. destruct (ic_nonce cfg); cbn; [apply N.mod_lt; nlia|exact I]. }
  pose proof (int_siginfo_est _ _ _ Hsi) as He252.
  destruct (make_interest_params sha256 sha256_len sign nm cfg a sg si est Hsi) as (COV & HcovF & _ & Hnone & Hlong & Hok);
    [unfold int_fits in Hfit; unfold two64; fold pre; nlia|].
  destruct (sign COV) as [sv0|] eqn:Es; [|rewrite (Hnone Hest eq_refl) in Hmk; discriminate].
  destruct (N.le_gt_cases (blen sv0) est) as [Hle|Hgt]; [|rewrite (Hlong sv0 Hest eq_refl) in Hmk by nlia; discriminate].
  destruct (Hok (Some sv0)) as (W0 & E & HW); [intros; nlia|intros _; eauto|].
  rewrite E in Hmk. inversion Hmk; subst e. cbn [e_wire e_cov e_final] in *. rewrite Es in Hsign. inversion Hsign; subst sv0. clear Hsign Hmk E.
  fold pre in HW, HcovF.
  set (h := sha256 (AH (Some a) ++ CB (Some a) ++ ST44 si ++ enc_elems (oel 46 (Some sv)))) in *.
  set (nmF := pre ++ [mkc 2 h]) in *.
  assert (Hsize : (N.of_nat (length (enc_elem (5%N, IV nmF cfg (Some a) si (Some sv)))) < big)%N).
  { apply (IV_size sha256 sha256_len sign pre cfg a si est (Some sv) h (sha256_len _) Hfit). intros s0 Hs0. inversion Hs0; subst. split; assumption. }
  set (cbp := ic_cbp cfg) in *. set (mbf := ic_mbf cfg) in *. set (fh := ic_fh cfg) in *.
  set (nonce := option_map (fun x => (x mod 4294967296)%N) (ic_nonce cfg)) in *. set (life := ic_life cfg) in *.
  set (hop := option_map (fun x => (x mod 256)%N) (ic_hop cfg)) in *.
  set (HDb := enc_elems (int_head_elems cbp mbf fh nonce life hop)).
  set (T2 := enc_elems (oel 36 (Some (concat a)) ++ oel 44 (option_map si_enc si))).
  set (m := N.of_nat (length sv)).
  assert (Hm : (m <= 252)%N) by (unfold m; fold (blen sv); nlia).
  set (tail := enc_elems (int_tail_elems (Some (concat a)) si (Some sv))).
  assert (Htail : tail = T2 ++ 46%N :: tl_enc m ++ sv).
  { unfold tail, int_tail_elems, T2. rewrite app_assoc, enc_elems_app. cbn [oel]. rewrite enc_elems_one'. unfold enc_elem. cbn [fst snd].
    change (tl_enc 46) with [46%N]. reflexivity. }
  set (R1 := name_inner pre) in *.
  set (D := comp_enc (mkc 2 h)).
  set (NV := R1 ++ D).
  assert (HNV : name_inner nmF = NV) by (unfold nmF, NV, R1, D; apply name_inner_snoc).
  assert (HIV : IV nmF cfg (Some a) si (Some sv) = enc_elem (7%N, NV) ++ HDb ++ tail).
  { unfold IV. fold cbp mbf fh nonce life hop. unfold int_elems. rewrite !enc_elems_app, enc_elems_one'. rewrite HNV. reflexivity. }
  assert (HcovE : concat COV = R1 ++ T2).
  { rewrite (HcovF Hest). f_equal.
    unfold T2. rewrite enc_elems_app. change (Some (concat a)) with (option_map (@concat N) (Some a)). rewrite <- app_elems, ST44_elem, <- !app_assoc. reflexivity. }
  set (Vv := IV nmF cfg (Some a) si (Some sv)) in *.
  set (hd := 5%N :: tl_enc (N.of_nat (length Vv))).
  assert (HWv : W = hd ++ Vv) by (unfold W; rewrite HW; reflexivity).
  assert (HVb : (N.of_nat (length Vv) < two64)%N).
  { rewrite enc_elem_length in Hsize. cbn [fst snd] in Hsize. unfold two64. nlia. }
  assert (HNb : (N.of_nat (length NV) < two64)%N).
  { assert (length NV <= length Vv) by (rewrite HIV, !app_length, enc_elem_length; cbn [fst snd]; nlia). unfold two64 in *. nlia. }
  set (hn := 7%N :: tl_enc (N.of_nat (length NV))).
  assert (HVn : Vv = hn ++ NV ++ HDb ++ tail) by (rewrite HIV; unfold enc_elem; cbn [fst snd]; unfold hn; rewrite <- !app_assoc; reflexivity).
  assert (Hoff1 : value_offset W = length hd).
  { unfold value_offset. rewrite HWv. unfold hd. cbn [app tl_dec]. change (5 <=? 252)%N with true. cbv iota. rewrite tl_dec_enc by exact HVb.
    cbn [length]. rewrite !app_length. nlia. }
  assert (Hoff2 : value_offset (skipn (value_offset W) W) = length hn).
  { rewrite Hoff1, HWv. rewrite skipn_app_ge by nlia. rewrite Nat.sub_diag. cbn [skipn]. rewrite HVn.
    unfold value_offset, hn. cbn [app tl_dec]. change (7 <=? 252)%N with true. cbv iota. rewrite tl_dec_enc by exact HNb.
    cbn [length]. rewrite !app_length. nlia. }
  unfold s1 in Hi. rewrite Hoff2, Hoff1 in Hi.
  assert (HWs : W = (hd ++ hn) ++ NV ++ HDb ++ tail) by (rewrite HWv, HVn, <- app_assoc; reflexivity).
  (* split at the flipped octet *)
  unfold flip_bit in V.
  assert (HlenW : length W = length hd + length hn + length NV + length HDb + length tail) by (rewrite HWs, !app_length; nlia).
  assert (HlenNV : length NV = length R1 + length D) by (unfold NV; apply app_length).
  destruct (skipn_cons_ex W (i / 8) ltac:(nlia)) as (x & t & Hsk). rewrite Hsk in V.
  set (x' := N.lxor x (2 ^ N.of_nat (i mod 8))) in *.
  assert (Hbit : one_bit x x').
  { exists (N.of_nat (i mod 8)). split; [|reflexivity]. pose proof (Nat.mod_upper_bound i 8 ltac:(nlia)). nlia. }
  set (j := i / 8 - (length hd + length hn)).
  assert (Hj : j < length R1) by (unfold j; nlia).
  assert (Hfst : firstn (i / 8) W = (hd ++ hn) ++ firstn j R1).
  { rewrite HWs. rewrite firstn_app_ge by (rewrite app_length; nlia). rewrite app_length. fold j. f_equal.
    unfold NV. rewrite <- app_assoc. rewrite firstn_app_le by nlia. reflexivity. }
  assert (HRs : R1 ++ D ++ HDb ++ tail = firstn j R1 ++ x :: t).
  { rewrite HWs in Hsk. rewrite skipn_app_ge in Hsk by (rewrite app_length; nlia). rewrite app_length in Hsk. fold j in Hsk.
    unfold NV in Hsk. rewrite <- app_assoc in Hsk. rewrite <- Hsk. rewrite <- (firstn_app_le R1 (D ++ HDb ++ tail) j) by nlia. symmetry. apply firstn_skipn. }
  set (prefix := firstn j R1) in *.
  assert (Hlp : length prefix = j) by (unfold prefix; rewrite firstn_length; nlia).
  destruct (app_split_mid R1 (D ++ HDb ++ tail) prefix t x HRs) as [(R1rest & HR1 & Ht)|(pre2 & _ & Hp2)].
  2:{ exfalso. apply (f_equal (@length N)) in Hp2. rewrite app_length in Hp2. nlia. }
  set (sufx := R1rest ++ D).
  set (NV' := prefix ++ x' :: sufx).
  assert (HlenNV' : length NV' = length NV).
  { unfold NV', NV, sufx. rewrite HR1 at 1. rewrite !app_length. cbn [length]. rewrite !app_length. nlia. }
  set (V' := enc_elem (7%N, NV') ++ HDb ++ T2 ++ 46%N :: tl_enc m ++ sv).
  assert (HlenV' : length V' = length Vv).
  { unfold V'. rewrite <- Htail, HIV. rewrite !app_length, !enc_elem_length. cbn [fst snd]. rewrite HlenNV'. reflexivity. }
  assert (HW' : firstn (i / 8) W ++ x' :: t = enc_elem (5%N, V')).
  { rewrite Hfst, Ht. unfold enc_elem at 1. cbn [fst snd]. rewrite HlenV'. unfold V', enc_elem. cbn [fst snd]. rewrite HlenNV'.
    unfold hd, hn, NV', sufx. rewrite <- Htail. rewrite <- !app_assoc. cbn [app]. rewrite <- !app_assoc. reflexivity. }
  rewrite HW' in V.
  assert (Hb' : (N.of_nat (length (enc_elem (5%N, V'))) < big)%N).
  { rewrite !enc_elem_length in *. cbn [fst snd] in *. rewrite HlenV'. exact Hsize. }
  destruct (parse_packet_interest_any r V' V Hb') as (sub & hid & Vs & Hbs & Epp).
  unfold read_interest in Er. rewrite Epp in Er.
  destruct (parse_interest (mkIctx [] [] 0 0 0) sub) as [[i0 cx]| |] eqn:Epi; try discriminate.
  cbn [ps_lp ps_int ps_ictx] in Er. destruct (si_unm (i_si i0)); [discriminate|].
  destruct (check_interest sha256 i0 cx); [|discriminate]. inversion Er; subst i' cov'. clear Er.
  cbn [obs_int io_sv] in Hsv. destruct (i_sv i0) as [w|] eqn:Ew; [|discriminate]. cbn [option_map] in Hsv. inversion Hsv as [Hw].
  rewrite HcovE, HR1 in Hcov.
  eapply (int_name_core cbp mbf fh nonce life hop T2 sv hid prefix sufx R1rest x x' sub i0 cx w); eauto.
  - apply (one_bit_neq _ _ Hbit).
  - unfold sufx. rewrite app_length. nlia.
Qed.

(* both signed ranges and the signature *)
Corollary tamper_any_bit_interest_thm nm cfg a sg si est e sv :
  let pre := strip_digest nm in
  int_siginfo sg true = Ok (si, est) -> (0 < est)%N -> name_ok pre ->
  iconfig_ok cfg -> signer_ok sg -> signer_int_ok sg -> int_fits (pre ++ [mkc 2 zeros32]) cfg (Some a) si est ->
  make_interest sha256 sign nm cfg (Some a) sg = Ok e -> sign (e_cov e) = Some sv ->
  let W := concat (e_wire e) in
  let s1 := value_offset W + value_offset (skipn (value_offset W) W) in
  let tail := enc_elems (int_tail_elems (Some (concat a)) si (Some sv)) in
  forall i, (s1 <= i / 8 < s1 + length (name_inner pre)) \/ (length W - length tail <= i / 8 < length W) ->
  forall r, View r (flip_bit W i) 0 ->
  forall i' cov', read_interest sha256 r = ROk i' cov' ->
    ~ (concat cov' = concat (e_cov e) /\ io_sv (obs_int i') = Some sv).
Proof.
  intros pre Hsi Hest Hpre Hcfg Hsg Hsgi Hfit Hmk Hsign W s1 tail i [Hi|Hi] r V i' cov' Er.
  - exact (tamper_name_bit_interest_thm nm cfg a sg si est e sv Hsi Hest Hpre Hcfg Hsg Hsgi Hfit Hmk Hsign i Hi r V i' cov' Er).
  - exact (tamper_tail_bit_interest_thm sha256 sha256_len sign nm cfg a sg si est e sv Hsi Hest Hpre Hcfg Hsg Hsgi Hfit Hmk Hsign i Hi r V i' cov' Er).
Qed.
End TamperInterestName.

(* Rejection, under an explicit hypothesis on the validator's check: the only (message, signature) pair `chk` accepts is
   the pair that was signed (ideal unforgeability for the quantified signer).  Then a packet with one flipped bit in the
   signed portion or the signature, if it decodes at all, is rejected by `chk`. *)
Section Rejected.
Variable chk : bytes -> bytes -> bool.

Corollary tamper_any_bit_data_rejected_thm sign nm cfg content sg si est e sv :
  data_siginfo sg = Ok (si, est) -> name_ok nm -> meta_wf (meta_of cfg) -> signer_ok sg -> data_fits nm cfg content si est ->
  (0 < est)%N -> make_data sign nm cfg content sg = Ok e -> sign (e_cov e) = Some sv ->
  (forall m s, chk m s = true -> m = concat (e_cov e) /\ s = sv) ->
  forall i, value_offset (concat (e_wire e)) <= i / 8 < length (concat (e_wire e)) ->
  forall r, View r (flip_bit (concat (e_wire e)) i) 0 ->
  forall d' cov', read_data r = ROk d' cov' ->
    match do_sv (obs_data d') with Some s' => chk (concat cov') s' = false | None => True end.
Proof.
  intros Hsi Hn Hm Hsg Hfit Hest Hmk Hsign Hchk i Hi r V d' cov' Er.
  destruct (do_sv (obs_data d')) as [s'|] eqn:Es; [|exact I].
  destruct (chk (concat cov') s') eqn:Ec; [|reflexivity]. exfalso.
  destruct (Hchk _ _ Ec) as [Hm' Hs']. subst s'.
  exact (tamper_any_bit_read_data_thm sign nm cfg content sg si est e sv Hsi Hn Hm Hsg Hfit Hest Hmk Hsign i Hi r V d' cov' Er (conj Hm' Es)).
Qed.

Variable sha256 : bytes -> bytes.
Hypothesis sha256_len : forall x, length (sha256 x) = 32%nat.

Corollary tamper_any_bit_interest_rejected_thm sign nm cfg a sg si est e sv :
  let pre := strip_digest nm in
  int_siginfo sg true = Ok (si, est) -> (0 < est)%N -> name_ok pre ->
  iconfig_ok cfg -> signer_ok sg -> signer_int_ok sg -> int_fits (pre ++ [mkc 2 zeros32]) cfg (Some a) si est ->
  make_interest sha256 sign nm cfg (Some a) sg = Ok e -> sign (e_cov e) = Some sv ->
  (forall m s, chk m s = true -> m = concat (e_cov e) /\ s = sv) ->
  let W := concat (e_wire e) in
  let s1 := value_offset W + value_offset (skipn (value_offset W) W) in
  let tail := enc_elems (int_tail_elems (Some (concat a)) si (Some sv)) in
  forall i, (s1 <= i / 8 < s1 + length (name_inner pre)) \/ (length W - length tail <= i / 8 < length W) ->
  forall r, View r (flip_bit W i) 0 ->
  forall i' cov', read_interest sha256 r = ROk i' cov' ->
    match io_sv (obs_int i') with Some s' => chk (concat cov') s' = false | None => True end.
Proof.
  intros pre Hsi Hest Hpre Hcfg Hsg Hsgi Hfit Hmk Hsign Hchk W s1 tail i Hi r V i' cov' Er.
  destruct (io_sv (obs_int i')) as [s'|] eqn:Es; [|exact I].
  destruct (chk (concat cov') s') eqn:Ec; [|reflexivity]. exfalso.
  destruct (Hchk _ _ Ec) as [Hm' Hs']. subst s'.
  exact (tamper_any_bit_interest_thm sha256 sha256_len sign nm cfg a sg si est e sv Hsi Hest Hpre Hcfg Hsg Hsgi Hfit Hmk Hsign i Hi r V i' cov' Er (conj Hm' Es)).
Qed.
End Rejected.
