(* Packet/Model.v — executable model of the packet API of std/ndn/spec_2022:
     spec.go            MakeData, MakeInterest, ReadData, ReadInterest, ReadPacket, checkInterest
     zz_generated.go    Init / EncodeInto / Encode / Parse of KeyLocator, Links, MetaInfo, ValidityPeriod, SignatureInfo,
                        Interest, Data, Packet (the parts the packet API reaches; LpPacket and
                        CertAdditionalDescription are skipped over and flagged `unmodelled`)
     primitives.go      ShrinkLength, ParseTLNum
     security/*.go      the validators of known-key-validator.go (crypto primitives are Section variables)
   No proofs here.  Each encoder is modelled in the two passes of the generated code: `*_len` / `*_plan` follow Init
   (arithmetic on sizes), `*_enc` / `*_bufs` follow EncodeInto (bytes written).  The length fields written into the
   packet are the Init numbers, not the sizes of the bytes written: that they agree is theorem packet_tlv_exact. *)
From Packet Require Export Readers.
From Names Require Export Model.
From Coq Require Import ZifyBool ZifyN ZifyNat.
Open Scope N_scope.

(* ------------------------------------------------------------------------------------------------ values *)
Record metainfo := mkMeta { mi_ctype : option N; mi_fresh : option Z; mi_fbid : option bytes }.
Record keyloc := mkKL { kl_name : option name; kl_digest : option bytes }.
Record validity := mkVP { vp_nb : bytes; vp_na : bytes }.
Record siginfo := mkSI { si_type : N; si_kl : option keyloc; si_nonce : option bytes; si_time : option Z;
                         si_seq : option N; si_vp : option validity; si_unmodelled : bool }.
Record data := mkData { d_name : option name; d_meta : option metainfo; d_content : option (list bytes);
                        d_si : option siginfo; d_sv : option (list bytes) }.
Record interest := mkInt { i_name : option name; i_cbp : bool; i_mbf : bool; i_fh : option (list name);
                           i_nonce : option N; i_life : option Z; i_hop : option N;
                           i_app : option (list bytes); i_si : option siginfo; i_sv : option (list bytes) }.

(* durations are Go time.Duration: int64 nanoseconds *)
Definition ms_of (d : Z) : N := Z.to_N ((Z.quot d 1000000) mod two64z).     (* uint64(d / time.Millisecond) *)
Definition dur_of_ms (x : N) : Z := wrap_int (to_int x * 1000000).           (* time.Duration(x) * time.Millisecond *)

(* ------------------------------------------------------------------------------------------------ sizes (Init) *)
Definition tlsz (n : N) : N := N.of_nat (tl_len n).               (* switch x { <=0xfc: 1; <=0xffff: 3; <=0xffffffff: 5; default: 9 } *)
Definition natsz (x : N) : N := 1 + N.of_nat (nat_len x).         (* natural value with its one-byte length: 2/3/5/9 *)
Definition blen (b : bytes) : N := N.of_nat (length b).
Definition osz {A} (f : A -> N) (o : option A) : N := match o with Some a => f a | None => 0 end.
Definition oenc {A} (f : A -> bytes) (o : option A) : bytes := match o with Some a => f a | None => [] end.

Definition comp_len (c : comp) : N := tlsz (ctyp c) + tlsz (blen (cval c)) + blen (cval c).      (* Component.EncodingLength *)
Fixpoint name_len (n : name) : N := match n with [] => 0 | c :: r => comp_len c + name_len r end.
Definition wire_len (w : list bytes) : N := fold_right (fun b a => blen b + a) 0 w.              (* for _, c := range w { l += len(c) } *)

Definition tlv (t len : N) (v : bytes) : bytes := tl_enc t ++ tl_enc len ++ v.
Definition tlv_len (t len : N) : N := tlsz t + tlsz len + len.
Definition nat_tlv (t x : N) : bytes := tl_enc t ++ [N.of_nat (nat_len x)] ++ nat_enc x.
Definition nat_tlv_len (t x : N) : N := tlsz t + natsz x.
Definition bin_tlv (t : N) (b : bytes) : bytes := tlv t (blen b) b.
Definition bin_tlv_len (t : N) (b : bytes) : N := tlv_len t (blen b).

Definition name_tlv (n : name) : bytes := tlv 7 (name_len n) (name_inner n).
Definition name_tlv_len (n : name) : N := tlv_len 7 (name_len n).

Definition kl_len (k : keyloc) : N := osz name_tlv_len (kl_name k) + osz (bin_tlv_len 29) (kl_digest k).
Definition kl_enc (k : keyloc) : bytes := oenc name_tlv (kl_name k) ++ oenc (bin_tlv 29) (kl_digest k).

Definition vp_len (v : validity) : N := bin_tlv_len 254 (vp_nb v) + bin_tlv_len 255 (vp_na v).
Definition vp_enc (v : validity) : bytes := bin_tlv 254 (vp_nb v) ++ bin_tlv 255 (vp_na v).

Definition si_len (s : siginfo) : N :=
  nat_tlv_len 27 (si_type s) + osz (fun k => tlv_len 28 (kl_len k)) (si_kl s) + osz (bin_tlv_len 38) (si_nonce s)
  + osz (fun t => nat_tlv_len 40 (ms_of t)) (si_time s) + osz (nat_tlv_len 42) (si_seq s)
  + osz (fun v => tlv_len 253 (vp_len v)) (si_vp s).
Definition si_enc (s : siginfo) : bytes :=
  nat_tlv 27 (si_type s) ++ oenc (fun k => tlv 28 (kl_len k) (kl_enc k)) (si_kl s) ++ oenc (bin_tlv 38) (si_nonce s)
  ++ oenc (fun t => nat_tlv 40 (ms_of t)) (si_time s) ++ oenc (nat_tlv 42) (si_seq s)
  ++ oenc (fun v => tlv 253 (vp_len v) (vp_enc v)) (si_vp s).

Definition meta_len (m : metainfo) : N :=
  osz (nat_tlv_len 24) (mi_ctype m) + osz (fun t => nat_tlv_len 25 (ms_of t)) (mi_fresh m) + osz (bin_tlv_len 26) (mi_fbid m).
Definition meta_enc (m : metainfo) : bytes :=
  oenc (nat_tlv 24) (mi_ctype m) ++ oenc (fun t => nat_tlv 25 (ms_of t)) (mi_fresh m) ++ oenc (bin_tlv 26) (mi_fbid m).

Fixpoint links_len (ns : list name) : N := match ns with [] => 0 | n :: r => name_tlv_len n + links_len r end.
Definition links_enc (ns : list name) : bytes := concat (map name_tlv ns).

(* ------------------------------------------------------------------------------------------------ wire plan / wire under construction *)
(* Init: `wirePlan = append(wirePlan, l); l = 0` *)
Record plan := mkPlan { p_done : list N; p_l : N }.
Definition p_add (n : N) (p : plan) : plan := mkPlan (p_done p) (p_l p + n).
Definition p_cut (p : plan) : plan := mkPlan (p_done p ++ [p_l p]) 0.
Definition p_fin (p : plan) : list N := if 0 <? p_l p then p_done p ++ [p_l p] else p_done p.

(* EncodeInto: finished buffers (own = allocated by Encode from the plan and filled here; not own = a caller's buffer
   placed into a zero-length slot) and the bytes written so far into wire[wireIdx] *)
Record wr := mkW { w_done : list (bool * bytes); w_cur : bytes }.
Definition w_put (b : bytes) (w : wr) : wr := mkW (w_done w) (w_cur w ++ b).
Definition w_cut (w : wr) : wr := mkW (w_done w ++ [(true, w_cur w)]) [].     (* wireIdx++; pos = 0 *)
Definition w_ext (b : bytes) (w : wr) : wr := mkW (w_done w ++ [(false, b)]) [].   (* wire[wireIdx] = b; wireIdx++ *)
Definition w_fin (w : wr) : list (bool * bytes) := match w_cur w with [] => w_done w | c => w_done w ++ [(true, c)] end.
Definition bufs_of (l : list (bool * bytes)) : list bytes := map snd l.

(* covered range from (start buffer index, offset in it) to offset `e` of the current buffer:
     if sigCoverStart_wireIdx == wireIdx { buf[start:e] } else { wire[idx][start:], wire[idx+1..wireIdx-1]..., buf[:e] } *)
Definition cover (w : wr) (sidx spos e : nat) : list bytes :=
  let done := bufs_of (w_done w) in
  if (sidx =? length done)%nat then [firstn (e - spos) (skipn spos (w_cur w))]
  else [skipn spos (nth sidx done [])] ++ skipn (S sidx) done ++ [firstn e (w_cur w)].

(* the encoder succeeds when EncodeInto fills the buffers Encode allocated from the plan exactly (a longer write is an
   index panic in Go, a shorter one would leave zero bytes) and the slots of caller buffers were planned with length 0 *)
Definition plan_ok (pl : list N) (bufs : list (bool * bytes)) : bool :=
  list_eqb N.eqb pl (map (fun x : bool * bytes => if fst x then blen (snd x) else 0) bufs).

(* ------------------------------------------------------------------------------------------------ Data encoder *)
Definition data_len (d : data) (est : N) : N :=
  osz name_tlv_len (d_name d) + osz (fun m => tlv_len 20 (meta_len m)) (d_meta d)
  + osz (fun c => tlv_len 21 (wire_len c)) (d_content d) + osz (fun s => tlv_len 22 (si_len s)) (d_si d)
  + (if 0 <? est then tlv_len 23 est else 0).

Definition data_plan (d : data) (est : N) : list N * option nat (* SignatureValue_wireIdx *) :=
  let p := mkPlan [] 0 in
  let p := p_add (osz name_tlv_len (d_name d)) p in
  let p := p_add (osz (fun m => tlv_len 20 (meta_len m)) (d_meta d)) p in
  let p := match d_content d with
           | Some c => fold_left (fun p _ => p_cut p) c (p_cut (p_add (1 + tlsz (wire_len c)) p))
           | None => p end in
  let p := p_add (osz (fun s => tlv_len 22 (si_len s)) (d_si d)) p in
  if 0 <? est then
    let p := p_cut (p_add (1 + tlsz est) p) in
    (p_fin (p_cut p), Some (length (p_done p)))
  else (p_fin p, None).

(* bytes written by DataEncoder.EncodeInto and the covered ranges it records *)
Definition data_bufs (d : data) (est : N) : list (bool * bytes) * list bytes :=
  let w := mkW [] [] in
  let w := w_put (oenc name_tlv (d_name d)) w in
  let w := w_put (oenc (fun m => tlv 20 (meta_len m) (meta_enc m)) (d_meta d)) w in
  let w := match d_content d with
           | Some c => fold_left (fun w b => w_ext b w) c (w_cut (w_put (tl_enc 21 ++ tl_enc (wire_len c)) w))
           | None => w end in
  let w := w_put (oenc (fun s => tlv 22 (si_len s) (si_enc s)) (d_si d)) w in
  if 0 <? est then
    let start := length (w_cur w) in
    let w := w_put (tl_enc 23 ++ tl_enc est) w in
    let cov := cover w 0 0 start in
    (w_fin (w_cut (w_cut w)), cov)
  else (w_fin w, []).

(* PacketEncoder around one inner model: Init's wire plan and EncodeInto's header *)
Definition packet_plan (ilen : N) (iplan : list N) : res (list N) :=
  let l := 1 + tlsz ilen in
  if 0 <? ilen then
    match iplan with
    | [] => Panic                                           (* encoder.X_encoder.wirePlan[0] *)
    | p0 :: rest =>
        let p := fold_left (fun p x => mkPlan (p_done p ++ [p_l p]) x) rest (mkPlan [] (l + p0)) in
        let p := if p_l p =? 0 then p_cut p else p in
        Ok (p_fin p)
    end
  else Ok (p_fin (mkPlan [] l)).

Definition packet_bufs (t ilen : N) (ibufs : list (bool * bytes)) : list (bool * bytes) :=
  let hdr := tl_enc t ++ tl_enc ilen in
  match ibufs with
  | [] => [(true, hdr)]
  | (_, b0) :: rest => (true, hdr ++ b0) :: rest
  end.

(* ParseTLNum(buf): None = index panic *)
Definition parse_tlnum (b : bytes) : option (N * nat) :=
  match b with
  | [] => None
  | x :: r =>
      if x <=? 252 then Some (x, 1%nat)
      else let k := if x =? 253 then 2%nat else if x =? 254 then 4%nat else 8%nat in
           if (k <=? length r)%nat then Some (be_val (firstn k r), S k) else None
  end.

(* ShrinkLength(buf, shrink) *)
Definition shrink_length (buf : bytes) (shrink : N) : res bytes :=
  match parse_tlnum buf with
  | None => Panic
  | Some (typ, s1) =>
      match parse_tlnum (skipn s1 buf) with
      | None => Panic
      | Some (l, s2) =>
          let newl := (l + two64 - shrink mod two64) mod two64 in
          let news2 := tl_len newl in
          if (news2 =? s2)%nat then Ok (firstn s1 buf ++ tl_enc newl ++ skipn (s1 + s2) buf)
          else if (s2 <? news2)%nat then Panic                 (* buf[diff:] with diff < 0 *)
          else let diff := (s2 - news2)%nat in
               (* typ.EncodeInto(buf[diff:]); newL.EncodeInto(buf[diff+s1:]); return buf[diff:] *)
               Ok (tl_enc typ ++ firstn (s1 - tl_len typ) (skipn (diff + tl_len typ) buf) ++ tl_enc newl ++ skipn (s1 + s2) buf)
      end
  end.

(* replace the last byte of a buffer: buf[len(buf)-1] = x  (panic on an empty buffer) *)
Definition set_last (b : bytes) (x : N) : res bytes :=
  match b with [] => Panic | _ => Ok (removelast b ++ [x]) end.
Fixpoint set_nth {A} (l : list A) (i : nat) (x : A) : option (list A) :=
  match l, i with
  | [], _ => None
  | _ :: r, O => Some (x :: r)
  | y :: r, S i' => match set_nth r i' x with Some r' => Some (y :: r') | None => None end
  end.

(* ------------------------------------------------------------------------------------------------ signers *)
(* what SigInfo() and EstimateSize() return; ComputeSigValue is the function `sign` *)
Record signer := mkSigner { sg_type : Z; sg_key : option name; sg_nonce : option bytes; sg_time : option Z (* UnixMilli *);
                            sg_seq : option N; sg_nb : option bytes; sg_na : option bytes; sg_est : N }.
Record dconfig := mkDC { dc_ctype : option N; dc_fresh : option Z; dc_fbid : option comp }.
Record iconfig := mkIC { ic_cbp : bool; ic_mbf : bool; ic_fh : option (list name); ic_nonce : option N;
                         ic_life : option Z; ic_hop : option N }.
Record encoded := mkEnc { e_wire : list bytes; e_cov : list bytes; e_final : name }.

Definition sig_active (sg : option signer) : option signer :=
  match sg with Some s => if (sg_type s =? -1)%Z then None else Some s | None => None end.
Definition uint64_of (z : Z) : N := Z.to_N (z mod two64z).

(* patch of the signature slot, shared by MakeData and MakeInterest:
     wire[idx] = sigVal; buf := wire[idx-1]; buf[len(buf)-1] = byte(len(sigVal)) *)
Definition patch_sig (wire : list bytes) (idx : nat) (sv : bytes) : res (list bytes) :=
  match set_nth wire idx sv with
  | None => Panic
  | Some w1 =>
      match idx with
      | O => Panic
      | S i =>
          match nth_error w1 i with
          | None => Panic
          | Some b => do b' <- set_last b (blen sv mod 256);
                      match set_nth w1 i b' with Some w2 => Ok w2 | None => Panic end
          end
      end
  end.

(* MakeData (after the fix of the length patch): the buffer before the slot ends with the length octets written for the
   estimate; they are re-encoded for the actual length:  buf = buf[:len(buf)-old+new]; TLNum(len(sigVal)).EncodeInto(buf[len(buf)-new:]) *)
Definition patch_sig_data (wire : list bytes) (idx : nat) (sv : bytes) (est : N) : res (list bytes) :=
  match set_nth wire idx sv with
  | None => Panic
  | Some w1 =>
      match idx with
      | O => Panic
      | S i =>
          match nth_error w1 i with
          | None => Panic
          | Some b =>
              if (length b <? tl_len est)%nat then Panic
              else match set_nth w1 i (firstn (length b - tl_len est) b ++ tl_enc (blen sv)) with Some w2 => Ok w2 | None => Panic end
          end
      end
  end.

Section Crypto.
Variable sha256 : bytes -> bytes.
Variable sign : list bytes -> option bytes.       (* signer.ComputeSigValue: None = it returned an error *)

(* ---- MakeData ---- *)
Definition data_siginfo (sg : option signer) : res (option siginfo * N) :=
  match sig_active sg with
  | None => Ok (None, 0)
  | Some s =>
      match sg_nonce s, sg_seq s, sg_time s with
      | None, None, None =>
          let kl := match sg_key s with Some k => Some (mkKL (Some k) None) | None => None end in
          match sg_nb s, sg_na s with
          | None, None => Ok (Some (mkSI (uint64_of (sg_type s)) kl None None None None false), sg_est s)
          | Some nb, Some na => Ok (Some (mkSI (uint64_of (sg_type s)) kl None None None (Some (mkVP nb na)) false), sg_est s)
          | _, _ => Err
          end
      | _, _, _ => Err
      end
  end.

Definition make_data (nm : name) (cfg : dconfig) (content : option (list bytes)) (sg : option signer) : res encoded :=
  do (si, est) <- data_siginfo sg;
  let d := mkData (Some nm) (Some (mkMeta (dc_ctype cfg) (dc_fresh cfg) (option_map comp_enc (dc_fbid cfg)))) content si None in
  let '(dplan, idx) := data_plan d est in
  let '(dbufs, cov) := data_bufs d est in
  let dl := data_len d est in
  do pplan <- packet_plan dl dplan;
  let pwire := packet_bufs 6 dl dbufs in
  if negb (plan_ok pplan pwire) then Panic else
  let wire := bufs_of pwire in
  if 0 <? est then
    match sign cov with
    | None => Err
    | Some sv =>
        if est <? blen sv then Err else
        match idx with
        | None => Panic
        | Some i =>
            do w1 <- patch_sig_data wire i sv est;
            match w1 with
            | [] => Panic
            | b0 :: rest => do b0' <- shrink_length b0 (est - blen sv + (N.of_nat (tl_len est) - N.of_nat (tl_len (blen sv))));
                            Ok (mkEnc (b0' :: rest) cov nm)
            end
        end
    end
  else Ok (mkEnc wire [] nm).

(* ---- Interest encoder ---- *)
Definition zeros32 : bytes := repeat 0 32.
Definition is_digest_comp (c : comp) : bool := ctyp c =? 2.
(* InterestEncoder.Init's treatment of the name *)
Definition int_name (nm : name) (need : bool) : name :=
  let n1 := match rev nm with c :: pre => if is_digest_comp c then rev pre else nm | [] => nm end in
  if need then n1 ++ [mkc 2 zeros32] else n1.

Definition int_head_len (i : interest) : N :=
  osz name_tlv_len (i_name i) + (if i_cbp i then 2 else 0) + (if i_mbf i then 2 else 0)
  + osz (fun l => tlv_len 30 (links_len l)) (i_fh i) + osz (fun _ => 6) (i_nonce i)
  + osz (fun t => nat_tlv_len 12 (ms_of t)) (i_life i) + osz (fun _ => 3) (i_hop i).
Definition int_len (i : interest) (est : N) : N :=
  int_head_len i + osz (fun c => tlv_len 36 (wire_len c)) (i_app i) + osz (fun s => tlv_len 44 (si_len s)) (i_si i)
  + (if 0 <? est then tlv_len 46 est else 0).

Definition int_plan (i : interest) (est : N) : list N * option nat :=
  let p := mkPlan [] (int_head_len i) in
  let p := match i_app i with
           | Some c => fold_left (fun p _ => p_cut p) c (p_cut (p_add (1 + tlsz (wire_len c)) p))
           | None => p end in
  let p := p_add (osz (fun s => tlv_len 44 (si_len s)) (i_si i)) p in
  if 0 <? est then
    let p := p_cut (p_add (1 + tlsz est) p) in
    (p_fin (p_cut p), Some (length (p_done p)))
  else (p_fin p, None).

Definition int_head_enc (i : interest) : bytes :=
  oenc name_tlv (i_name i) ++ (if i_cbp i then [33; 0] else []) ++ (if i_mbf i then [18; 0] else [])
  ++ oenc (fun l => tlv 30 (links_len l) (links_enc l)) (i_fh i) ++ oenc (fun x => [10; 4] ++ be 4 x) (i_nonce i)
  ++ oenc (fun t => nat_tlv 12 (ms_of t)) (i_life i) ++ oenc (fun x => [34; 1; x mod 256]) (i_hop i).

(* result: buffers, covered ranges (name part first), NameV_pos *)
Definition int_bufs (i : interest) (est : N) (need : bool) : list (bool * bytes) * list bytes * nat :=
  let nm := match i_name i with Some n => n | None => [] end in
  let allbut := removelast nm in
  let cov_name := match i_name i with
                  | Some n => [name_inner (if need then allbut else n)]     (* buf[sigCoverStart:sigCoverEnd] *)
                  | None => [] end in
  let name_pos := (length (tl_enc 7 ++ tl_enc (name_len nm)) + length (name_inner allbut) + 2)%nat in
  let w := w_put (int_head_enc i) (mkW [] []) in
  let sidx := length (w_done w) in
  let spos := N.to_nat (int_head_len i) in                  (* encoder.sigCoverStart: Init's number *)
  let w := match i_app i with
           | Some c => fold_left (fun w b => w_ext b w) c (w_cut (w_put (tl_enc 36 ++ tl_enc (wire_len c)) w))
           | None => w end in
  let w := w_put (oenc (fun s => tlv 44 (si_len s) (si_enc s)) (i_si i)) w in
  if 0 <? est then
    let start := length (w_cur w) in
    let w := w_put (tl_enc 46 ++ tl_enc est) w in
    let cov := cover w sidx spos start in
    (w_fin (w_cut (w_cut w)), cov_name ++ cov, name_pos)
  else (w_fin w, cov_name, name_pos).

Definition int_siginfo (sg : option signer) (need : bool) : res (option siginfo * N) :=
  match sig_active sg with
  | None => Ok (None, 0)
  | Some s =>
      if negb need then Err else
      match sg_nb s, sg_na s with
      | None, None =>
          let tm := option_map (fun ms => wrap_int (ms * 1000000)) (sg_time s) in
          let ty := uint64_of (sg_type s) in
          if (sg_type s =? 0)%Z then
            if 253 <=? sg_est s then Err else Ok (Some (mkSI ty None (sg_nonce s) tm (sg_seq s) None false), sg_est s)
          else match sg_key s with
               | None => Err
               | Some k => if 253 <=? sg_est s then Err
                           else Ok (Some (mkSI ty (Some (mkKL (Some k) None)) (sg_nonce s) tm (sg_seq s) None false), sg_est s)
               end
      | _, _ => Err
      end
  end.

Definition splice (buf : bytes) (pos : nat) (src : bytes) : res bytes :=
  if (length buf <? pos + 32)%nat then Panic       (* buf[digestPos : digestPos+32] *)
  else let s := firstn 32 src in Ok (firstn pos buf ++ s ++ skipn (pos + length s) buf).

(* the signature step of MakeInterest: wire[idx] = sigVal, last length octet patched *)
Definition int_sig_block (wire : list bytes) (idx : option nat) (cov : list bytes) (est : N) : res (list bytes * N * list bytes) :=
  if 0 <? est then
    match idx with
    | None => Err                                           (* SignatureValue_wireIdx < 0 *)
    | Some ix =>
        match sign cov with
        | None => Err
        | Some sv => if est <? blen sv then Err else do w1 <- patch_sig wire ix sv; Ok (w1, blen sv, cov)
        end
    end
  else Ok (wire, 0, []).

(* the parameters-digest step of MakeInterest *)
Definition int_digest_block (wire1 : list bytes) (npos : nat) (app : option (list bytes)) (nm1 : name) : res (list bytes * name) :=
  match wire1 with
  | [] => Panic
  | b0 :: rest =>
      match parse_tlnum b0 with
      | None => Panic
      | Some (_, s1) =>
          match parse_tlnum (skipn s1 b0) with
          | None => Panic
          | Some (_, s2) =>
              let dpos := (npos + s1 + s2)%nat in
              let aplen := tl_len (wire_len (match app with Some a => a | None => [] end)) in
              if (length b0 <? aplen + 1)%nat then Panic else
              let h := sha256 (skipn (length b0 - aplen - 1) b0 ++ concat rest) in
              do b0' <- splice b0 dpos h;
              Ok (b0' :: rest, removelast nm1 ++ [mkc 2 (firstn 32 h ++ skipn (length (firstn 32 h)) zeros32)])
          end
      end
  end.

Definition make_interest (nm : name) (cfg : iconfig) (app : option (list bytes)) (sg : option signer) : res encoded :=
  let need := match app with Some _ => true | None => false end in
  (* without ApplicationParameters the name must not carry a parameters digest (ReadInterest rejects such a packet);
     a trailing one has been dropped by int_name *)
  if negb need && existsb is_digest_comp (int_name nm need) then Err else
  do (si, est) <- int_siginfo sg need;
  let nm1 := int_name nm need in
  let i := mkInt (Some nm1) (ic_cbp cfg) (ic_mbf cfg) (ic_fh cfg) (option_map (fun x => x mod 4294967296) (ic_nonce cfg))
                 (ic_life cfg) (option_map (fun x => x mod 256) (ic_hop cfg)) app si None in
  let '(iplan, idx) := int_plan i est in
  let '(ibufs, cov, npos) := int_bufs i est need in
  let il := int_len i est in
  do pplan <- packet_plan il iplan;
  let pwire := packet_bufs 5 il ibufs in
  if negb (plan_ok pplan pwire) then Panic else
  let wire := bufs_of pwire in
  do (wire1, svlen, cov1) <- int_sig_block wire idx cov est;
  do (wire2, final) <- (if need then int_digest_block wire1 npos app nm1 else Ok (wire1, nm1));
  if svlen <? est then
    match wire2 with
    | [] => Panic
    | b0 :: rest => do b0' <- shrink_length b0 (est - svlen); Ok (mkEnc (b0' :: rest) cov1 final)
    end
  else if est <? svlen then Err
  else Ok (mkEnc wire2 cov1 final).

(* ------------------------------------------------------------------------------------------------ parsers *)
Definition is_critical (t : N) : bool := (t <=? 31) || N.odd t.

(* the default branch of every generated switch (ignoreCritical = false in all callers of spec.go) *)
Definition default_field {S} (typ l : N) (st : S) (r : reader) : res (S * reader) :=
  if is_critical typ then Err
  else do r' <- rd_skip r (to_int l); Ok (st, r').

(* unordered models:  for { startPos := Pos(); if startPos >= Length() break; typ, l := ReadTLNum x2; switch typ {...} } *)
Section Unordered.
  Context {S : Type}.
  Variable handle : N -> N -> S -> reader -> res (S * reader).
  Fixpoint unord_loop (fuel : nat) (st : S) (r : reader) : res (S * reader) :=
    match fuel with
    | O => Err
    | Datatypes.S f =>
        if (rd_len r <=? rd_pos r)%nat then Ok (st, r)
        else do (typ, r1) <- read_tlnum r; do (l, r2) <- read_tlnum r1;
             do (st', r3) <- handle typ l st r2; unord_loop f st' r3
    end.
  Definition unord_parse (st : S) (r : reader) : res S :=
    do (st', _) <- unord_loop (Datatypes.S (rd_remaining r)) st r; Ok st'.
End Unordered.

(* ordered models: the progress loop.  nf = progress + 1 (index of the next field). *)
(* HDone: a known field was handled; HUnk: the default branch ran (it does `progress--`, commit 419053f); HNot: not handled *)
Inductive hres (S : Type) := HDone (x : res (S * reader)) | HUnk (x : res (S * reader)) | HNot.
Arguments HDone {S}. Arguments HUnk {S}. Arguments HNot {S}.
Section Ordered.
  Context {S : Type}.
  Variable nfields : nat.
  Variable handle : N -> N -> nat -> nat -> S -> reader -> hres S.       (* typ l nf startPos *)
  Variable skipf : nat -> nat -> S -> reader -> S.                       (* field index, startPos *)
  (* for handled := false; !handled && progress < nfields; progress++ { switch typ {...}; if !handled { skip field progress+1 } } *)
  Fixpoint ord_inner (fuel nf : nat) (typ l : N) (sp : nat) (st : S) (r : reader) : res (S * reader * nat) :=
    match fuel with
    | O => Ok (st, r, nf)
    | Datatypes.S f =>
        if (nfields <? nf)%nat then Ok (st, r, nf)
        else match handle typ l nf sp st r with
             | HDone x => do (st', r') <- x; Ok (st', r', Datatypes.S nf)
             | HUnk x => do (st', r') <- x; Ok (st', r', nf)
             | HNot => ord_inner f (Datatypes.S nf) typ l sp (skipf nf sp st r) r
             end
    end.
  Fixpoint ord_loop (fuel nf : nat) (st : S) (r : reader) : res (S * reader * nat) :=
    match fuel with
    | O => Err
    | Datatypes.S f =>
        let sp := rd_pos r in
        if (rd_len r <=? sp)%nat then Ok (st, r, nf)
        else do (typ, r1) <- read_tlnum r; do (l, r2) <- read_tlnum r1;
             do (st', r3, nf') <- ord_inner (nfields + 2) nf typ l sp st r2; ord_loop f nf' st' r3
    end.
  Definition ord_parse (st : S) (r : reader) : res (S * reader) :=
    do (st', r', _) <- ord_loop (Datatypes.S (rd_remaining r)) 0 st r; Ok (st', r').
End Ordered.

(* a Name value:  make(Name, l/2+1); for j := range name { if Pos() >= endName {truncate; break}; T, L, ReadBuf }; Pos() == endName.
   `cov_end` follows the Interest variant: start position of the last component of type ParametersSha256Digest (else endName). *)
Fixpoint name_loop (fuel : nat) (j slots : N) (end_name : Z) (acc : name) (cov_end : Z) (r : reader) : res (name * Z * reader) :=
  match fuel with
  | O => Err
  | S f =>
      if slots <=? j then Ok (rev acc, cov_end, r)
      else
        let sc := Z.of_nat (rd_pos r) in
        if (end_name <=? sc)%Z then Ok (rev acc, cov_end, r)
        else do (t, r1) <- read_tlnum r; do (l, r2) <- read_tlnum r1; do (v, r3) <- read_buf r2 (to_int l);
             name_loop f (j + 1) slots end_name (mkc t v :: acc) (if t =? 2 then sc else cov_end) r3
  end.
Definition parse_name_body (l : N) (r : reader) : res (name * Z * Z * reader) :=       (* name, startName, sigCoverEnd *)
  if N.of_nat (rd_remaining r) <? l then Err else       (* rem := Length()-Pos(); rem < 0 || l > TLNum(rem) *)
  let start_name := Z.of_nat (rd_pos r) in
  let end_name := wrap_int (start_name + to_int l) in
  do (n, ce, r') <- name_loop (S (S (rd_remaining r))) 0 (l / 2 + 1) end_name [] end_name r;
  if (Z.of_nat (rd_pos r') =? end_name)%Z then Ok (n, start_name, ce, r') else Err.
Definition parse_name (l : N) (r : reader) : res (name * reader) :=
  do (n, _, _, r') <- parse_name_body l r; Ok (n, r').

(* KeyLocator *)
Definition kl_handle (typ l : N) (k : keyloc) (r : reader) : res (keyloc * reader) :=
  if typ =? 7 then do (n, r') <- parse_name l r; Ok (mkKL (Some n) (kl_digest k), r')
  else if typ =? 29 then do (b, r') <- read_full r l; Ok (mkKL (kl_name k) (Some b), r')
  else default_field typ l k r.
Definition parse_kl (r : reader) : res keyloc := unord_parse kl_handle (mkKL None None) r.

(* Links *)
Definition links_handle (typ l : N) (ns : list name) (r : reader) : res (list name * reader) :=
  if typ =? 7 then do (n, r') <- parse_name l r; Ok (ns ++ [n], r')
  else default_field typ l ns r.
Definition parse_links (r : reader) : res (list name) := unord_parse links_handle [] r.

(* MetaInfo *)
Definition meta_handle (typ l : N) (m : metainfo) (r : reader) : res (metainfo * reader) :=
  if typ =? 24 then do (x, r') <- read_uint two64 r l; Ok (mkMeta (Some x) (mi_fresh m) (mi_fbid m), r')
  else if typ =? 25 then do (x, r') <- read_uint two64 r l; Ok (mkMeta (mi_ctype m) (Some (dur_of_ms x)) (mi_fbid m), r')
  else if typ =? 26 then do (b, r') <- read_full r l; Ok (mkMeta (mi_ctype m) (mi_fresh m) (Some b), r')
  else default_field typ l m r.
Definition parse_meta (r : reader) : res metainfo := unord_parse meta_handle (mkMeta None None None) r.

(* ValidityPeriod: both fields are required *)
Definition vp_handle (typ l : N) (v : option bytes * option bytes) (r : reader) : res ((option bytes * option bytes) * reader) :=
  if typ =? 254 then do (b, r') <- copy_n r l; Ok ((Some b, snd v), r')
  else if typ =? 255 then do (b, r') <- copy_n r l; Ok ((fst v, Some b), r')
  else default_field typ l v r.
Definition parse_vp (r : reader) : res validity :=
  do v <- unord_parse vp_handle (None, None) r;
  match v with (Some a, Some b) => Ok (mkVP a b) | _ => Err end.

(* SignatureInfo: SignatureType is required; CertAdditionalDescription (0x0102) is stepped over and flagged *)
Record si_st := mkSIst { ss_type : option N; ss_kl : option keyloc; ss_nonce : option bytes; ss_time : option Z;
                         ss_seq : option N; ss_vp : option validity; ss_unm : bool }.
Definition si_handle (typ l : N) (s : si_st) (r : reader) : res (si_st * reader) :=
  if typ =? 27 then do (x, r') <- read_uint two64 r l;
    Ok (mkSIst (Some x) (ss_kl s) (ss_nonce s) (ss_time s) (ss_seq s) (ss_vp s) (ss_unm s), r')
  else if typ =? 28 then do (sub, r') <- delegate r (to_int l); do k <- parse_kl sub;
    Ok (mkSIst (ss_type s) (Some k) (ss_nonce s) (ss_time s) (ss_seq s) (ss_vp s) (ss_unm s), r')
  else if typ =? 38 then do (b, r') <- read_full r l;
    Ok (mkSIst (ss_type s) (ss_kl s) (Some b) (ss_time s) (ss_seq s) (ss_vp s) (ss_unm s), r')
  else if typ =? 40 then do (x, r') <- read_uint two64 r l;
    Ok (mkSIst (ss_type s) (ss_kl s) (ss_nonce s) (Some (dur_of_ms x)) (ss_seq s) (ss_vp s) (ss_unm s), r')
  else if typ =? 42 then do (x, r') <- read_uint two64 r l;
    Ok (mkSIst (ss_type s) (ss_kl s) (ss_nonce s) (ss_time s) (Some x) (ss_vp s) (ss_unm s), r')
  else if typ =? 253 then do (sub, r') <- delegate r (to_int l); do v <- parse_vp sub;
    Ok (mkSIst (ss_type s) (ss_kl s) (ss_nonce s) (ss_time s) (ss_seq s) (Some v) (ss_unm s), r')
  else if typ =? 258 then do (_, r') <- delegate r (to_int l);
    Ok (mkSIst (ss_type s) (ss_kl s) (ss_nonce s) (ss_time s) (ss_seq s) (ss_vp s) true, r')
  else default_field typ l s r.
Definition parse_si (r : reader) : res siginfo :=
  do s <- unord_parse si_handle (mkSIst None None None None None None false) r;
  match ss_type s with
  | Some t => Ok (mkSI t (ss_kl s) (ss_nonce s) (ss_time s) (ss_seq s) (ss_vp s) (ss_unm s))
  | None => Err
  end.

Definition range_or_nil (r : reader) (a b : Z) : list bytes := match rd_range r a b with Some w => w | None => [] end.

(* Data (ordered): 0 sigCovered, 1 sigCoverStart, 2 Name, 3 MetaInfo, 4 Content, 5 SignatureInfo, 6 SignatureValue *)
Record dctx := mkDctx { dx_cov : list bytes; dx_start : nat }.
Record dstate := mkDst { ds_val : data; ds_ctx : dctx; ds_hstart : bool }.
Definition set_d (s : dstate) (d : data) : dstate := mkDst d (ds_ctx s) (ds_hstart s).
Definition data_handle (typ l : N) (nf sp : nat) (s : dstate) (r : reader) : hres dstate :=
  let d := ds_val s in
  if typ =? 7 then
    if (nf =? 2)%nat then HDone (do (n, r') <- parse_name l r; Ok (set_d s (mkData (Some n) (d_meta d) (d_content d) (d_si d) (d_sv d)), r')) else HNot
  else if typ =? 20 then
    if (nf =? 3)%nat then HDone (do (sub, r') <- delegate r (to_int l); do m <- parse_meta sub;
                                 Ok (set_d s (mkData (d_name d) (Some m) (d_content d) (d_si d) (d_sv d)), r')) else HNot
  else if typ =? 21 then
    if (nf =? 4)%nat then HDone (do (w, r') <- read_wire r (to_int l);
                                 Ok (set_d s (mkData (d_name d) (d_meta d) (Some w) (d_si d) (d_sv d)), r')) else HNot
  else if typ =? 22 then
    if (nf =? 5)%nat then HDone (do (sub, r') <- delegate r (to_int l); do si <- parse_si sub;
                                 Ok (set_d s (mkData (d_name d) (d_meta d) (d_content d) (Some si) (d_sv d)), r')) else HNot
  else if typ =? 23 then
    if (nf =? 6)%nat then HDone (do (w, r') <- read_wire r (to_int l);
                                 let cov := range_or_nil r' (Z.of_nat (dx_start (ds_ctx s))) (Z.of_nat sp) in
                                 Ok (mkDst (mkData (d_name d) (d_meta d) (d_content d) (d_si d) (Some w))
                                           (mkDctx (dx_cov (ds_ctx s) ++ cov) (dx_start (ds_ctx s))) (ds_hstart s), r')) else HNot
  else HUnk (default_field typ l s r).
Definition data_skip (nf sp : nat) (s : dstate) (r : reader) : dstate :=
  if (nf =? 1)%nat then mkDst (ds_val s) (mkDctx (dx_cov (ds_ctx s)) sp) true else s.
Definition parse_data (cx : dctx) (r : reader) : res (data * dctx) :=
  do (s, r') <- ord_parse 7 data_handle data_skip (mkDst (mkData None None None None None) cx false) r;
  let cx' := if ds_hstart s then ds_ctx s else mkDctx (dx_cov (ds_ctx s)) (rd_pos r') in
  Ok (ds_val s, cx').

(* Interest (ordered): 0 sigCovered, 1 digestCovered, 2 Name, 3 CanBePrefix, 4 MustBeFresh, 5 ForwardingHint, 6 Nonce,
   7 InterestLifetime, 8 HopLimit, 9 sigCoverStart, 10 digestCoverStart, 11 ApplicationParameters, 12 SignatureInfo,
   13 SignatureValue, 14 digestCoverEnd *)
Record ictx := mkIctx { ix_cov : list bytes; ix_dcov : list bytes; ix_start : nat; ix_dstart : nat; ix_dend : nat }.
Record istate := mkIst { is_val : interest; is_ctx : ictx; is_h9 : bool; is_h10 : bool; is_h14 : bool }.
Definition set_i (s : istate) (i : interest) : istate := mkIst i (is_ctx s) (is_h9 s) (is_h10 s) (is_h14 s).
Definition int_handle (typ l : N) (nf sp : nat) (s : istate) (r : reader) : hres istate :=
  let i := is_val s in
  let cx := is_ctx s in
  if typ =? 7 then
    if (nf =? 2)%nat then HDone (
      do (n, sn, ce, r') <- parse_name_body l r;
      let cov := range_or_nil r' sn ce in
      Ok (mkIst (mkInt (Some n) (i_cbp i) (i_mbf i) (i_fh i) (i_nonce i) (i_life i) (i_hop i) (i_app i) (i_si i) (i_sv i))
                (mkIctx (ix_cov cx ++ cov) (ix_dcov cx) (ix_start cx) (ix_dstart cx) (ix_dend cx)) (is_h9 s) (is_h10 s) (is_h14 s), r'))
    else HNot
  else if typ =? 33 then
    if (nf =? 3)%nat then HDone (Ok (set_i s (mkInt (i_name i) true (i_mbf i) (i_fh i) (i_nonce i) (i_life i) (i_hop i) (i_app i) (i_si i) (i_sv i)), r)) else HNot
  else if typ =? 18 then
    if (nf =? 4)%nat then HDone (Ok (set_i s (mkInt (i_name i) (i_cbp i) true (i_fh i) (i_nonce i) (i_life i) (i_hop i) (i_app i) (i_si i) (i_sv i)), r)) else HNot
  else if typ =? 30 then
    if (nf =? 5)%nat then HDone (do (sub, r') <- delegate r (to_int l); do ns <- parse_links sub;
      Ok (set_i s (mkInt (i_name i) (i_cbp i) (i_mbf i) (Some ns) (i_nonce i) (i_life i) (i_hop i) (i_app i) (i_si i) (i_sv i)), r')) else HNot
  else if typ =? 10 then
    if (nf =? 6)%nat then HDone (do (x, r') <- read_uint 4294967296 r l;
      Ok (set_i s (mkInt (i_name i) (i_cbp i) (i_mbf i) (i_fh i) (Some x) (i_life i) (i_hop i) (i_app i) (i_si i) (i_sv i)), r')) else HNot
  else if typ =? 12 then
    if (nf =? 7)%nat then HDone (do (x, r') <- read_uint two64 r l;
      Ok (set_i s (mkInt (i_name i) (i_cbp i) (i_mbf i) (i_fh i) (i_nonce i) (Some (dur_of_ms x)) (i_hop i) (i_app i) (i_si i) (i_sv i)), r')) else HNot
  else if typ =? 34 then
    if (nf =? 8)%nat then HDone (
      (* err = reader.Skip(1); if err == nil { value.HopLimitV = &reader.Range(reader.Pos()-1, reader.Pos())[0][0] } *)
      do r' <- rd_skip r 1;
      let p := Z.of_nat (rd_pos r') in
      match rd_range r' (p - 1) p with
      | Some ((x :: _) :: _) =>
          Ok (set_i s (mkInt (i_name i) (i_cbp i) (i_mbf i) (i_fh i) (i_nonce i) (i_life i) (Some x) (i_app i) (i_si i) (i_sv i)), r')
      | _ => Panic
      end) else HNot
  else if typ =? 36 then
    if (nf =? 11)%nat then HDone (do (w, r') <- read_wire r (to_int l);
      Ok (set_i s (mkInt (i_name i) (i_cbp i) (i_mbf i) (i_fh i) (i_nonce i) (i_life i) (i_hop i) (Some w) (i_si i) (i_sv i)), r')) else HNot
  else if typ =? 44 then
    if (nf =? 12)%nat then HDone (do (sub, r') <- delegate r (to_int l); do si <- parse_si sub;
      Ok (set_i s (mkInt (i_name i) (i_cbp i) (i_mbf i) (i_fh i) (i_nonce i) (i_life i) (i_hop i) (i_app i) (Some si) (i_sv i)), r')) else HNot
  else if typ =? 46 then
    if (nf =? 13)%nat then HDone (do (w, r') <- read_wire r (to_int l);
      let cov := range_or_nil r' (Z.of_nat (ix_start cx)) (Z.of_nat sp) in
      Ok (mkIst (mkInt (i_name i) (i_cbp i) (i_mbf i) (i_fh i) (i_nonce i) (i_life i) (i_hop i) (i_app i) (i_si i) (Some w))
                (mkIctx (ix_cov cx ++ cov) (ix_dcov cx) (ix_start cx) (ix_dstart cx) (ix_dend cx)) (is_h9 s) (is_h10 s) (is_h14 s), r')) else HNot
  else HUnk (default_field typ l s r).
Definition int_skip (nf sp : nat) (s : istate) (r : reader) : istate :=
  let cx := is_ctx s in
  if (nf =? 9)%nat then mkIst (is_val s) (mkIctx (ix_cov cx) (ix_dcov cx) sp (ix_dstart cx) (ix_dend cx)) true (is_h10 s) (is_h14 s)
  else if (nf =? 10)%nat then mkIst (is_val s) (mkIctx (ix_cov cx) (ix_dcov cx) (ix_start cx) sp (ix_dend cx)) (is_h9 s) true (is_h14 s)
  else if (nf =? 14)%nat then
    mkIst (is_val s) (mkIctx (ix_cov cx) (range_or_nil r (Z.of_nat (ix_dstart cx)) (Z.of_nat sp)) (ix_start cx) (ix_dstart cx) sp)
          (is_h9 s) (is_h10 s) true
  else s.
Definition parse_interest (cx : ictx) (r : reader) : res (interest * ictx) :=
  do (s, r') <- ord_parse 15 int_handle int_skip
                  (mkIst (mkInt None false false None None None None None None None) cx false false false) r;
  let e := rd_pos r' in
  let c := is_ctx s in
  let c := if is_h9 s then c else mkIctx (ix_cov c) (ix_dcov c) e (ix_dstart c) (ix_dend c) in
  let c := if is_h10 s then c else mkIctx (ix_cov c) (ix_dcov c) (ix_start c) e (ix_dend c) in
  let c := if is_h14 s then c
           else mkIctx (ix_cov c) (range_or_nil r' (Z.of_nat (ix_dstart c)) (Z.of_nat e)) (ix_start c) (ix_dstart c) e in
  Ok (is_val s, c).

(* Packet (unordered; contexts persist over repeated elements) *)
Record pstate := mkPst { ps_int : option interest; ps_data : option data; ps_lp : bool; ps_ictx : ictx; ps_dctx : dctx }.
Definition pkt_handle (typ l : N) (s : pstate) (r : reader) : res (pstate * reader) :=
  if typ =? 5 then do (sub, r') <- delegate r (to_int l); do (i, cx) <- parse_interest (ps_ictx s) sub;
    Ok (mkPst (Some i) (ps_data s) (ps_lp s) cx (ps_dctx s), r')
  else if typ =? 6 then do (sub, r') <- delegate r (to_int l); do (d, cx) <- parse_data (ps_dctx s) sub;
    Ok (mkPst (ps_int s) (Some d) (ps_lp s) (ps_ictx s) cx, r')
  else if typ =? 100 then do (_, r') <- delegate r (to_int l);
    Ok (mkPst (ps_int s) (ps_data s) true (ps_ictx s) (ps_dctx s), r')
  else default_field typ l s r.
Definition parse_packet (r : reader) : res pstate :=
  unord_parse pkt_handle (mkPst None None false (mkIctx [] [] 0 0 0) (mkDctx [] 0)) r.

(* checkInterest *)
Definition check_interest (i : interest) (cx : ictx) : bool :=
  match i_name i with
  | None => false
  | Some nm =>
      match i_sv i, i_app i with
      | Some _, None => false
      | _, None => negb (existsb is_digest_comp nm)        (* commit f4dc187 *)
      | _, Some _ =>
          match rev nm with
          | [] => false
          | c :: _ => (ctyp c =? 2) && bytes_eqb (cval c) (sha256 (concat (ix_dcov cx)))
          end
      end
  end.

(* results of the three entry points; `unmodelled` = an LpPacket element or a CertAdditionalDescription was stepped over *)
Inductive rdres (A : Type) := ROk (a : A) (cov : list bytes) | RErr | RPanic | RUnmodelled.
Arguments ROk {A}. Arguments RErr {A}. Arguments RPanic {A}. Arguments RUnmodelled {A}.
Definition si_unm (o : option siginfo) : bool := match o with Some s => si_unmodelled s | None => false end.

Definition read_data (r : reader) : rdres data :=
  match parse_packet r with
  | Panic => RPanic | Err => RErr
  | Ok s => if ps_lp s then RUnmodelled else
            match ps_data s with
            | None => RErr
            | Some d => if si_unm (d_si d) then RUnmodelled else
                        match d_name d with None => RErr | Some _ => ROk d (dx_cov (ps_dctx s)) end
            end
  end.
Definition read_interest (r : reader) : rdres interest :=
  match parse_packet r with
  | Panic => RPanic | Err => RErr
  | Ok s => if ps_lp s then RUnmodelled else
            match ps_int s with
            | None => RErr
            | Some i => if si_unm (i_si i) then RUnmodelled else
                        if check_interest i (ps_ictx s) then ROk i (ix_cov (ps_ictx s)) else RErr
            end
  end.
Inductive pkt := PData (d : data) | PInt (i : interest).
Definition read_packet (r : reader) : rdres pkt :=
  match parse_packet r with
  | Panic => RPanic | Err => RErr
  | Ok s => if ps_lp s then RUnmodelled else
            match ps_data s with
            | Some d => if si_unm (d_si d) then RUnmodelled else
                        match d_name d with None => RErr | Some _ => ROk (PData d) (dx_cov (ps_dctx s)) end
            | None =>
                match ps_int s with
                | Some i => if si_unm (i_si i) then RUnmodelled else
                            if check_interest i (ps_ictx s) then ROk (PInt i) (ix_cov (ps_ictx s)) else RErr
                | None => RErr
                end
            end
  end.

End Crypto.

(* ------------------------------------------------------------------------------------------------ observations *)
(* what a caller can see of a decoded packet: wires are compared by their joined bytes *)
Record data_obs := mkDobs { do_name : name; do_meta : option metainfo; do_content : option bytes; do_si : option siginfo;
                            do_sv : option bytes }.
Definition obs_data (d : data) : data_obs :=
  mkDobs (match d_name d with Some n => n | None => [] end) (d_meta d) (option_map (@concat N) (d_content d)) (d_si d)
         (option_map (@concat N) (d_sv d)).
Record int_obs := mkIobs { io_name : name; io_cbp : bool; io_mbf : bool; io_fh : option (list name); io_nonce : option N;
                           io_life : option Z; io_hop : option N; io_app : option bytes; io_si : option siginfo;
                           io_sv : option bytes }.
Definition obs_int (i : interest) : int_obs :=
  mkIobs (match i_name i with Some n => n | None => [] end) (i_cbp i) (i_mbf i) (i_fh i) (i_nonce i) (i_life i) (i_hop i)
         (option_map (@concat N) (i_app i)) (i_si i) (option_map (@concat N) (i_sv i)).

(* ------------------------------------------------------------------------------------------------ independent structural walker *)
(* Accepts a byte string iff it is a sequence of TLV elements whose type and length numbers are in shortest form and
   whose length fields are exact, recursively inside the elements that the NDN packet format defines as nested.  Written
   against tl_dec / tl_enc only: shares nothing with the encoders or parsers above. *)
Definition nested (ctx t : N) : option N :=
  if ctx =? 0 then (if (t =? 5) || (t =? 6) then Some t else None)
  else if ctx =? 6 then (if t =? 7 then Some 7 else if t =? 20 then Some 20 else if t =? 22 then Some 22 else None)
  else if ctx =? 5 then (if t =? 7 then Some 7 else if t =? 30 then Some 30 else if t =? 44 then Some 22 else None)
  else if ctx =? 20 then (if t =? 26 then Some 7 else None)
  else if ctx =? 22 then (if t =? 28 then Some 28 else if t =? 253 then Some 253 else None)
  else if ctx =? 28 then (if t =? 7 then Some 7 else None)
  else if ctx =? 30 then (if t =? 7 then Some 7 else None)
  else None.
(* a T or L number in its shortest form (the NDN packet format requires it) *)
Fixpoint bytes_prefix (p b : bytes) : bool :=
  match p, b with
  | [], _ => true
  | x :: p', y :: b' => (x =? y) && bytes_prefix p' b'
  | _ :: _, [] => false
  end.
Definition tl_dec_min (b : bytes) : option (N * bytes) :=
  match tl_dec b with
  | Some (n, r) => if bytes_prefix (tl_enc n) b then Some (n, r) else None
  | None => None
  end.
Fixpoint walk (fuel : nat) (ctx : N) (b : bytes) : bool :=
  match fuel with
  | O => false
  | S f =>
      match b with
      | [] => true
      | _ =>
          match tl_dec_min b with
          | None => false
          | Some (t, r1) =>
              match tl_dec_min r1 with
              | None => false
              | Some (l, r2) =>
                  if N.of_nat (length r2) <? l then false
                  else (match nested ctx t with Some c => walk f c (firstn (N.to_nat l) r2) | None => true end)
                       && walk f ctx (skipn (N.to_nat l) r2)
              end
          end
      end
  end.
(* exactly one top-level element, whose length field covers the rest of the buffer *)
Definition single_tlv (b : bytes) : bool :=
  match tl_dec_min b with
  | Some (_, r1) => match tl_dec_min r1 with Some (l, r2) => N.of_nat (length r2) =? l | None => false end
  | None => false
  end.
Definition walk_packet (b : bytes) : bool := single_tlv b && walk (S (length b)) 0 b.

(* ------------------------------------------------------------------------------------------------ validators (known-key-validator.go) *)
Section Validators.
Variable sha256 : bytes -> bytes.
Variable hmac : bytes -> bytes -> bytes.                     (* key, message *)
Variable ecdsa_verify : bytes -> bytes -> bytes -> bool.     (* public key, digest, signature *)
Variable rsa_verify : bytes -> bytes -> bytes -> bool.
Definition sig_type_of (o : option siginfo) : Z := match o with Some s => Z.of_N (si_type s) | None => (-1)%Z end.
Definition sha256_validate (cov : list bytes) (st : Z) (sv : bytes) : bool :=
  (st =? 0)%Z && bytes_eqb (sha256 (concat cov)) sv.
Definition hmac_validate (key : bytes) (cov : list bytes) (st : Z) (sv : bytes) : bool :=
  (st =? 4)%Z && bytes_eqb (hmac key (concat cov)) sv.
Definition ecdsa_validate (pub : bytes) (cov : list bytes) (st : Z) (sv : bytes) : bool :=
  (st =? 3)%Z && ecdsa_verify pub (sha256 (concat cov)) sv.
Definition rsa_validate (pub : bytes) (cov : list bytes) (st : Z) (sv : bytes) : bool :=
  (st =? 1)%Z && rsa_verify pub (sha256 (concat cov)) sv.
End Validators.
