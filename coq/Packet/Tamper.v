(* Packet/Tamper.v — C12: a flipped bit anywhere in the signed portion or the signature of a Data.
   Part A: what DataParsingContext.Parse guarantees on ARBITRARY bytes whenever it succeeds (an invariant of the ordered
   loop): the covered range is the contiguous range of the stream from the first recognised element (which is the Name)
   to the header of the SignatureValue element, and the signature is the value of that element.
   Part B: a wire that differs from a signed Data in one bit of the signed portion / SignatureValue element and still
   decodes yields a different (covered bytes, signature) pair. *)
From Packet Require Import Model Spec ReadersProofs EncProofs DecGeneric DecProofs DecData EncData Roundtrip Inv.
From Coq Require Import ZifyBool ZifyN ZifyNat.
Open Scope nat_scope.
Arguments HDone {S}. Arguments HUnk {S}. Arguments HNot {S}.
Arguments ROk {A}. Arguments RErr {A}. Arguments RPanic {A}. Arguments RUnmodelled {A}.

(* ---------------------------------------------------------------- names on arbitrary input: the reader only advances *)
Lemma name_loop_view fuel : forall j slots en acc ce r all p n ce' r', View r all p ->
  name_loop fuel j slots en acc ce r = Ok (n, ce', r') -> exists p', p <= p' /\ View r' all p'.
Proof.
  induction fuel as [|f IH]; intros j slots en acc ce r all p n ce' r' V E; [discriminate|].
  cbn [name_loop] in E.
  destruct (slots <=? j)%N; [inversion E; subst; eauto|].
  destruct (en <=? Z.of_nat (rd_pos r))%Z; [inversion E; subst; eauto|].
  destruct (read_tlnum r) as [[t r1]| |] eqn:E1; cbn [bind] in E; try discriminate.
  destruct (read_tlnum r1) as [[l r2]| |] eqn:E2; cbn [bind] in E; try discriminate.
  destruct (read_buf r2 (to_int l)) as [[v r3]| |] eqn:E3; cbn [bind] in E; try discriminate.
  destruct (read_tlnum_inv _ _ _ _ _ V E1) as (k1 & ? & ? & _ & V1).
  destruct (read_tlnum_inv _ _ _ _ _ V1 E2) as (k2 & ? & ? & _ & V2).
  destruct (read_buf_inv _ _ _ _ _ _ V2 E3) as (? & ? & _ & V3).
  destruct (IH _ _ _ _ _ _ _ _ _ _ _ V3 E) as (p' & Hp & V'). exists p'. split; [lia|exact V'].
Qed.

Lemma parse_name_view l r all p n r' : View r all p -> parse_name l r = Ok (n, r') -> exists p', p <= p' /\ View r' all p'.
Proof.
  intros V E. unfold parse_name, parse_name_body in E.
  destruct (N.of_nat (rd_remaining r) <? l)%N; [discriminate|].
  destruct (name_loop _ _ _ _ _ _ r) as [[[n0 ce] r0]| |] eqn:El; cbn [bind] in E; try discriminate.
  destruct (Z.of_nat (rd_pos r0) =? _)%Z; cbn [bind] in E; [|discriminate]. inversion E; subst.
  eapply name_loop_view; eauto.
Qed.

(* ---------------------------------------------------------------- the ordered loop past its last field *)
Section OrdPast.
  Context {S : Type}.
  Variable nfields : nat.
  Variable handle : N -> N -> nat -> nat -> S -> reader -> hres S.
  Variable skipf : nat -> nat -> S -> reader -> S.
  Lemma ord_inner_allnot typ l sp r nf0 : (forall i st, nf0 <= i -> handle typ l i sp st r = HNot) ->
    forall fuel nf st, nf0 <= nf -> exists d,
      ord_inner nfields handle skipf fuel nf typ l sp st r = Ok (iter_skip skipf sp r nf d st, r, nf + d).
  Proof.
    intros Hnot. induction fuel as [|f IH]; intros nf st Hle.
    - exists 0. cbn. rewrite Nat.add_0_r. reflexivity.
    - cbn [ord_inner]. destruct (nfields <? nf); [exists 0; cbn; rewrite Nat.add_0_r; reflexivity|].
      rewrite Hnot by exact Hle. destruct (IH (Datatypes.S nf) (skipf nf sp st r) ltac:(lia)) as (d & E).
      exists (Datatypes.S d). rewrite E. cbn [iter_skip]. f_equal. f_equal. lia.
  Qed.
End OrdPast.

Lemma iter_skip_data sp r : forall d nf st,
  iter_skip data_skip sp r nf d st =
  if ((nf <=? 1) && (1 <? nf + d))%bool then mkDst (ds_val st) (mkDctx (dx_cov (ds_ctx st)) sp) true else st.
Proof.
  induction d as [|d IH]; intros nf st.
  - cbn [iter_skip]. replace ((nf <=? 1) && (1 <? nf + 0))%bool with false; [reflexivity|].
    destruct (nf <=? 1) eqn:E1; [|reflexivity]. cbn [andb]. symmetry. apply Nat.ltb_ge. apply Nat.leb_le in E1. lia.
  - cbn [iter_skip]. rewrite IH. unfold data_skip.
    destruct nf as [|[|nf]].
    + cbn [Nat.eqb]. replace (1 + d) with (0 + Datatypes.S d) by lia. reflexivity.
    + cbn [Nat.eqb]. change (2 <=? 1) with false. cbn [andb]. change (1 <=? 1) with true.
      replace (1 <? 1 + Datatypes.S d) with true by (symmetry; apply Nat.ltb_lt; lia). reflexivity.
    + cbn [Nat.eqb]. change (Datatypes.S (Datatypes.S (Datatypes.S nf)) <=? 1) with false.
      change (Datatypes.S (Datatypes.S nf) <=? 1) with false. reflexivity.
Qed.

(* ---------------------------------------------------------------- Part A: the Data parser's invariant *)
Section DataInv.
Variable all : bytes.
Variable base : nat.

Definition known (t : N) : bool := ((t =? 7) || (t =? 20) || (t =? 21) || (t =? 22) || (t =? 23))%N%bool.

(* about the first header of the stream, when its type octet is x <= 252 *)
Definition first_ok (x : N) (st : dstate) (nf : nat) : Prop :=
  (x = 7%N /\ dx_start (ds_ctx st) = base /\ 2 <= nf) \/
  (known x = true /\ x <> 7%N /\ d_name (ds_val st) = None /\ 3 <= nf) \/
  (known x = false /\ is_critical x = false).

(* a TLV header (type, length) decoded from the bytes at sp, ending at p2 *)
Definition hdr_at (sp : nat) (typ l : N) (p2 : nat) : Prop :=
  exists k1 k2, 1 <= k1 /\ 1 <= k2 /\ p2 = sp + k1 + k2 /\ p2 <= length all /\
    tl_dec (skipn sp all) = Some (typ, skipn (sp + k1) all) /\ tl_dec (skipn (sp + k1) all) = Some (l, skipn p2 all).

Definition sv_ok (st : dstate) : Prop := forall w, d_sv (ds_val st) = Some w ->
  exists b l c, dx_start (ds_ctx st) <= b /\ hdr_at b 23 l c /\ (0 <= to_int l)%Z /\ c + Z.to_nat (to_int l) <= length all /\
    concat w = firstn (Z.to_nat (to_int l)) (skipn c all) /\
    concat (dx_cov (ds_ctx st)) = firstn (b - dx_start (ds_ctx st)) (skipn (dx_start (ds_ctx st)) all).

Definition dinv (st : dstate) (nf p : nat) : Prop :=
  (nf <= 1 -> ds_hstart st = false /\ d_name (ds_val st) = None) /\
  (2 <= nf -> ds_hstart st = true /\ base <= dx_start (ds_ctx st) <= p) /\
  (d_name (ds_val st) <> None -> 3 <= nf) /\
  (d_sv (ds_val st) <> None -> 7 <= nf) /\
  (d_sv (ds_val st) = None -> dx_cov (ds_ctx st) = []) /\
  sv_ok st /\
  ((p = base /\ nf = 0) \/ (forall x t, skipn base all = x :: t -> (x <= 252)%N -> first_ok x st nf)).

Lemma first_ok_step x st nf st' nf' : first_ok x st nf -> nf <= nf' ->
  (2 <= nf -> dx_start (ds_ctx st') = dx_start (ds_ctx st)) ->
  (3 <= nf -> d_name (ds_val st) = None -> d_name (ds_val st') = None) -> first_ok x st' nf'.
Proof.
  intros [(Hx & Hs & Hn)|[(Hk & Hx & Hnm & Hn)|H3]] Hle Hst Hname.
  - left. rewrite Hst by exact Hn. repeat split; auto; lia.
  - right; left. repeat split; auto; try lia.
  - right; right. exact H3.
Qed.

Lemma dinv_mono st nf p nf' p' : dinv st nf p -> nf <= nf' -> p <= p' -> 2 <= nf -> dinv st nf' p'.
Proof.
  intros (H1 & H2 & H3 & H4 & H5 & H6 & H7) Hn Hp H2n. unfold dinv.
  split; [intros; lia|]. split; [intros _; destruct (H2 H2n) as [? ?]; split; [assumption|lia]|].
  split; [intros Hx; specialize (H3 Hx); lia|]. split; [intros Hx; specialize (H4 Hx); lia|].
  split; [exact H5|]. split; [exact H6|].
  right. destruct H7 as [[_ ?]|H7]; [lia|]. intros x t Hs Hx. eapply first_ok_step; [exact (H7 x t Hs Hx)|lia|reflexivity|auto].
Qed.

(* the state after the marker fields below a handler's index have been passed *)
Definition pre_skip (nf sp : nat) (st : dstate) : dstate :=
  if nf <=? 1 then mkDst (ds_val st) (mkDctx (dx_cov (ds_ctx st)) sp) true else st.

Lemma inner_known typ l sp r2 k (X : dstate -> res (dstate * reader)) :
  (forall i st, i <> k -> data_handle typ l i sp st r2 = HNot) -> (forall st, data_handle typ l k sp st r2 = HDone (X st)) ->
  2 <= k <= 6 ->
  forall nf st st' r3 nf', ord_inner 7 data_handle data_skip 9 nf typ l sp st r2 = Ok (st', r3, nf') ->
    (nf <= k /\ X (pre_skip nf sp st) = Ok (st', r3) /\ nf' = Datatypes.S k) \/ (k < nf /\ st' = st /\ r3 = r2 /\ nf <= nf').
Proof.
  intros Hnot Hdone Hk nf st st' r3 nf' E.
  destruct (le_lt_dec nf k) as [Hle|Hgt].
  - left. split; [exact Hle|].
    rewrite (ord_inner_known 7 data_handle data_skip typ l sp k X r2 Hnot Hdone (k - nf) nf st 9) in E by lia.
    rewrite iter_skip_data in E.
    replace ((nf <=? 1) && (1 <? nf + (k - nf)))%bool with (nf <=? 1) in E.
    2:{ replace (nf + (k - nf)) with k by lia. replace (1 <? k) with true by (symmetry; apply Nat.ltb_lt; lia). rewrite Bool.andb_true_r. reflexivity. }
    fold (pre_skip nf sp st) in E.
    destruct (X (pre_skip nf sp st)) as [[s1 r1]| |]; cbn [bind] in E; try discriminate. inversion E; subst. auto.
  - right. split; [exact Hgt|].
    destruct (ord_inner_allnot 7 data_handle data_skip typ l sp r2 (Datatypes.S k)) with (fuel := 9) (nf := nf) (st := st) as (d & Ed);
      [intros i s Hi; apply Hnot; lia|lia|].
    rewrite Ed in E. rewrite iter_skip_data in E. replace (nf <=? 1) with false in E by (symmetry; apply Nat.leb_gt; lia).
    cbn [andb] in E. inversion E; subst. repeat split; auto; lia.
Qed.

Lemma hdr_first sp typ l p2 x t : hdr_at sp typ l p2 -> sp = base -> skipn base all = x :: t -> (x <= 252)%N -> typ = x.
Proof.
  intros (k1 & k2 & _ & _ & _ & _ & H1 & _) -> Hs Hx. rewrite Hs in H1. cbn [tl_dec] in H1.
  replace (x <=? 252)%N with true in H1 by lia. inversion H1. reflexivity.
Qed.

Ltac dcbn := cbn [ds_val ds_ctx ds_hstart d_name d_meta d_content d_si d_sv dx_cov dx_start set_d pre_skip] in *.

(* facts about the state with the markers passed *)
Lemma pre_skip_facts nf sp st : dinv st nf sp -> base <= sp ->
  ds_val (pre_skip nf sp st) = ds_val st /\ dx_cov (ds_ctx (pre_skip nf sp st)) = dx_cov (ds_ctx st) /\
  ds_hstart (pre_skip nf sp st) = true /\ base <= dx_start (ds_ctx (pre_skip nf sp st)) <= sp /\
  (nf <= 1 -> dx_start (ds_ctx (pre_skip nf sp st)) = sp) /\ (2 <= nf -> dx_start (ds_ctx (pre_skip nf sp st)) = dx_start (ds_ctx st)).
Proof.
  intros (H1 & H2 & _) Hb. unfold pre_skip. destruct (nf <=? 1) eqn:E.
  - apply Nat.leb_le in E. cbn. repeat split; auto; lia.
  - apply Nat.leb_gt in E. destruct (H2 ltac:(lia)) as [? ?]. repeat split; auto; lia.
Qed.

(* a handler that stores one field other than the signature: the common part of the argument *)
Lemma dinv_store k nf sp st d' p3 typ l p2 :
  dinv st nf sp -> base <= sp -> nf <= k -> 2 <= k <= 5 -> sp <= p3 -> hdr_at sp typ l p2 ->
  known typ = true -> (typ = 7%N <-> k = 2) ->
  d_sv d' = d_sv (ds_val st) -> (k <> 2 -> d_name d' = d_name (ds_val st)) ->
  dinv (set_d (pre_skip nf sp st) d') (Datatypes.S k) p3.
Proof.
  intros Hinv Hb Hle Hk Hp Hh Hkn H7 Hsv Hname.
  destruct (pre_skip_facts nf sp st Hinv Hb) as (Pv & Pc & Ph & Ps & Ps1 & Ps2).
  destruct Hinv as (H1 & H2 & H3 & H4 & H5 & H6 & H7').
  assert (Hnosv : d_sv (ds_val st) = None).
  { destruct (d_sv (ds_val st)) eqn:E; [|reflexivity]. assert (7 <= nf) by (apply H4; discriminate). lia. }
  unfold dinv. unfold set_d. cbn [ds_val ds_ctx ds_hstart].
  split; [intros; lia|]. split; [intros _; split; [exact Ph|lia]|].
  split; [intros _; lia|]. split; [rewrite Hsv, Hnosv; intros Hx; congruence|].
  split; [intros _; rewrite Pc; apply H5; exact Hnosv|].
  split; [intros w Hw; cbn [ds_val] in Hw; rewrite Hsv, Hnosv in Hw; discriminate|].
  right. intros x t Hs Hx. destruct H7' as [[Hp0 Hn0]|H7'].
  - subst nf. assert (typ = x) by (eapply hdr_first; eauto). subst x. unfold first_ok. cbn [ds_val ds_ctx].
    destruct (N.eq_dec typ 7) as [E7|N7].
    + left. split; [exact E7|]. split; [rewrite Ps1 by lia; exact Hp0|lia].
    + right; left. split; [exact Hkn|]. split; [exact N7|]. split; [|lia].
      rewrite Hname by (intros Ek; apply N7; apply H7; exact Ek). apply H1. lia.
  - eapply first_ok_step; [exact (H7' x t Hs Hx)|lia| |].
    + intros H2n. cbn [ds_ctx]. exact (Ps2 H2n).
    + intros H3n Hnone. cbn [ds_val]. rewrite Hname by lia. exact Hnone.
Qed.

Lemma data_inner nf typ l sp st r2 p2 st' r3 nf' :
  base <= sp -> View r2 all p2 -> hdr_at sp typ l p2 -> dinv st nf sp ->
  ord_inner 7 data_handle data_skip 9 nf typ l sp st r2 = Ok (st', r3, nf') ->
  exists p3, p2 <= p3 /\ View r3 all p3 /\ dinv st' nf' p3.
Proof.
  intros Hb V2 Hh Hinv E.
  assert (Hsp : sp < p2) by (destruct Hh as (k1 & k2 & ? & ? & -> & _); lia).
  assert (Hpast : forall k, 2 <= k -> k < nf /\ st' = st /\ r3 = r2 /\ nf <= nf' -> exists p3, p2 <= p3 /\ View r3 all p3 /\ dinv st' nf' p3).
  { intros k Hk (Hgt & -> & -> & Hle). exists p2. split; [lia|]. split; [exact V2|]. eapply dinv_mono; eauto; lia. }
  destruct (typ =? 7)%N eqn:T7; [apply N.eqb_eq in T7; subst typ|].
  { (* Name *)
    destruct (inner_known 7 l sp r2 2 (fun s => do (n, r') <- parse_name l r2;
                Ok (set_d s (mkData (Some n) (d_meta (ds_val s)) (d_content (ds_val s)) (d_si (ds_val s)) (d_sv (ds_val s))), r')))
      with (nf := nf) (st := st) (st' := st') (r3 := r3) (nf' := nf') as [(Hle & EX & ->)|Hp]; try exact E; try lia.
    - intros i s Hi. unfold data_handle. cbn. destruct i as [|[|[|i]]]; try reflexivity. lia.
    - intros s. reflexivity.
    - destruct (parse_name l r2) as [[n r']| |] eqn:En; cbn [bind] in EX; try discriminate. inversion EX; subst st' r3.
      destruct (parse_name_view _ _ _ _ _ _ V2 En) as (p3 & Hp3 & V3). exists p3. split; [exact Hp3|]. split; [exact V3|].
      destruct (pre_skip_facts nf sp st Hinv Hb) as (Pv & _). rewrite Pv.
      eapply dinv_store with (k := 2); eauto; try lia; try reflexivity.
    - eapply (Hpast 2); eauto. }
  destruct (typ =? 20)%N eqn:T20; [apply N.eqb_eq in T20; subst typ|].
  { destruct (inner_known 20 l sp r2 3 (fun s => do (sub, r') <- delegate r2 (to_int l); do m <- parse_meta sub;
                Ok (set_d s (mkData (d_name (ds_val s)) (Some m) (d_content (ds_val s)) (d_si (ds_val s)) (d_sv (ds_val s))), r')))
      with (nf := nf) (st := st) (st' := st') (r3 := r3) (nf' := nf') as [(Hle & EX & ->)|Hp]; try exact E; try lia.
    - intros i s Hi. unfold data_handle. cbn. destruct i as [|[|[|[|i]]]]; try reflexivity. lia.
    - intros s. reflexivity.
    - destruct (delegate r2 (to_int l)) as [[sub r']| |] eqn:Ed; cbn [bind] in EX; try discriminate.
      destruct (parse_meta sub) as [m| |]; cbn [bind] in EX; try discriminate. inversion EX; subst st' r3.
      destruct (delegate_view _ _ _ _ _ _ V2 Ed) as (p3 & Hp3 & V3). exists p3. split; [exact Hp3|]. split; [exact V3|].
      destruct (pre_skip_facts nf sp st Hinv Hb) as (Pv & _). rewrite Pv.
      eapply dinv_store with (k := 3); eauto; try lia; try reflexivity; try solve [split; [discriminate|lia]].
    - eapply (Hpast 3); eauto. }
  destruct (typ =? 21)%N eqn:T21; [apply N.eqb_eq in T21; subst typ|].
  { destruct (inner_known 21 l sp r2 4 (fun s => do (w, r') <- read_wire r2 (to_int l);
                Ok (set_d s (mkData (d_name (ds_val s)) (d_meta (ds_val s)) (Some w) (d_si (ds_val s)) (d_sv (ds_val s))), r')))
      with (nf := nf) (st := st) (st' := st') (r3 := r3) (nf' := nf') as [(Hle & EX & ->)|Hp]; try exact E; try lia.
    - intros i s Hi. unfold data_handle. cbn. destruct i as [|[|[|[|[|i]]]]]; try reflexivity. lia.
    - intros s. reflexivity.
    - destruct (read_wire r2 (to_int l)) as [[w r']| |] eqn:Ed; cbn [bind] in EX; try discriminate. inversion EX; subst st' r3.
      destruct (read_wire_inv _ _ _ _ _ _ V2 Ed) as (_ & _ & _ & V3). eexists. split; [|split; [exact V3|]]; [lia|].
      destruct (pre_skip_facts nf sp st Hinv Hb) as (Pv & _). rewrite Pv.
      eapply dinv_store with (k := 4); eauto; try lia; try reflexivity; try solve [split; [discriminate|lia]].
    - eapply (Hpast 4); eauto. }
  destruct (typ =? 22)%N eqn:T22; [apply N.eqb_eq in T22; subst typ|].
  { destruct (inner_known 22 l sp r2 5 (fun s => do (sub, r') <- delegate r2 (to_int l); do si <- parse_si sub;
                Ok (set_d s (mkData (d_name (ds_val s)) (d_meta (ds_val s)) (d_content (ds_val s)) (Some si) (d_sv (ds_val s))), r')))
      with (nf := nf) (st := st) (st' := st') (r3 := r3) (nf' := nf') as [(Hle & EX & ->)|Hp]; try exact E; try lia.
    - intros i s Hi. unfold data_handle. cbn. destruct i as [|[|[|[|[|[|i]]]]]]; try reflexivity. lia.
    - intros s. reflexivity.
    - destruct (delegate r2 (to_int l)) as [[sub r']| |] eqn:Ed; cbn [bind] in EX; try discriminate.
      destruct (parse_si sub) as [si| |]; cbn [bind] in EX; try discriminate. inversion EX; subst st' r3.
      destruct (delegate_view _ _ _ _ _ _ V2 Ed) as (p3 & Hp3 & V3). exists p3. split; [exact Hp3|]. split; [exact V3|].
      destruct (pre_skip_facts nf sp st Hinv Hb) as (Pv & _). rewrite Pv.
      eapply dinv_store with (k := 5); eauto; try lia; try reflexivity; try solve [split; [discriminate|lia]].
    - eapply (Hpast 5); eauto. }
  destruct (typ =? 23)%N eqn:T23; [apply N.eqb_eq in T23; subst typ|].
  { (* SignatureValue *)
    destruct (inner_known 23 l sp r2 6 (fun s => do (w, r') <- read_wire r2 (to_int l);
                let cov := range_or_nil r' (Z.of_nat (dx_start (ds_ctx s))) (Z.of_nat sp) in
                Ok (mkDst (mkData (d_name (ds_val s)) (d_meta (ds_val s)) (d_content (ds_val s)) (d_si (ds_val s)) (Some w))
                          (mkDctx (dx_cov (ds_ctx s) ++ cov) (dx_start (ds_ctx s))) (ds_hstart s), r')))
      with (nf := nf) (st := st) (st' := st') (r3 := r3) (nf' := nf') as [(Hle & EX & ->)|Hp]; try exact E; try lia.
    - intros i s Hi. unfold data_handle. cbn. destruct i as [|[|[|[|[|[|[|i]]]]]]]; try reflexivity. lia.
    - intros s. reflexivity.
    - destruct (read_wire r2 (to_int l)) as [[w r']| |] eqn:Ed; cbn [bind] in EX; try discriminate. cbv zeta in EX. inversion EX; subst st' r3.
      destruct (read_wire_inv _ _ _ _ _ _ V2 Ed) as (Hl0 & Hlr & Hw & V3). eexists. split; [|split; [exact V3|]]; [lia|].
      destruct (pre_skip_facts nf sp st Hinv Hb) as (Pv & Pc & Ph & Ps & Ps1 & Ps2).
      destruct Hinv as (H1 & H2 & H3 & H4 & H5 & H6 & H7).
      assert (Hnosv : d_sv (ds_val st) = None).
      { destruct (d_sv (ds_val st)) eqn:Esv; [|reflexivity]. assert (7 <= nf) by (apply H4; discriminate). lia. }
      set (a := dx_start (ds_ctx (pre_skip nf sp st))) in *.
      assert (Hsple : sp <= length all) by (destruct Hh as (k1 & k2 & ? & ? & ? & ? & _); lia).
      destruct (range_ok _ _ _ a sp V3 ltac:(lia) Hsple) as (ws & Er & Hc).
      unfold range_or_nil. rewrite Er. rewrite Pv, Pc, (H5 Hnosv). cbn [app].
      unfold dinv. cbn [ds_val ds_ctx ds_hstart d_name d_sv dx_cov dx_start].
      split; [intros; lia|]. split; [intros _; split; [exact Ph|lia]|].
      split; [intros _; lia|]. split; [intros _; lia|]. split; [discriminate|].
      split.
      { intros w0 Hw0. inversion Hw0; subst w0. exists sp, l, p2. cbn [ds_val ds_ctx dx_start dx_cov]. split; [unfold a; lia|]. split; [exact Hh|]. split; [exact Hl0|].
        split; [exact Hlr|]. split; [exact Hw|exact Hc]. }
      right. intros x t Hs Hx. unfold first_ok. cbn [ds_val ds_ctx dx_start d_name]. destruct H7 as [[Hp0 Hn0]|H7].
      + subst nf. assert (23%N = x) by (eapply hdr_first; eauto). subst x.
        right; left. split; [reflexivity|]. split; [discriminate|]. split; [apply H1; lia|lia].
      + specialize (H7 x t Hs Hx). destruct H7 as [(Hx7 & Hst & Hn2)|[(Hk & Hx7 & Hnm & Hn3)|H3']].
        * left. split; [exact Hx7|]. split; [rewrite Ps2 by exact Hn2; exact Hst|lia].
        * right; left. repeat split; auto.
        * right; right. exact H3'.
    - eapply (Hpast 6); eauto. }
  (* unrecognised type *)
  assert (Hkn : known typ = false) by (unfold known; rewrite T7, T20, T21, T22, T23; reflexivity).
  assert (Hh' : forall i s, data_handle typ l i sp s r2 = HUnk (default_field typ l s r2)).
  { intros i s. unfold data_handle. rewrite T7, T20, T21, T22, T23. reflexivity. }
  change 9 with (Datatypes.S 8) in E. cbn [ord_inner] in E.
  destruct (7 <? nf) eqn:Enf.
  { inversion E; subst. apply Nat.ltb_lt in Enf. exists p2. split; [lia|]. split; [exact V2|]. eapply dinv_mono; eauto; lia. }
  rewrite Hh' in E. unfold default_field in E. destruct (is_critical typ) eqn:Ecr; [discriminate|].
  destruct (rd_skip r2 (to_int l)) as [r'| |] eqn:Es; cbn [bind] in E; try discriminate. inversion E; subst st' r3 nf'.
  destruct (skip_inv _ _ _ _ _ V2 Es) as (_ & _ & V3). eexists. split; [|split; [exact V3|]]; [lia|].
  destruct Hinv as (H1 & H2 & H3 & H4 & H5 & H6 & H7). unfold dinv.
  split; [exact H1|]. split; [intros Hn; destruct (H2 Hn) as [? ?]; split; [assumption|lia]|].
  split; [exact H3|]. split; [exact H4|]. split; [exact H5|]. split; [exact H6|].
  right. intros x t Hs Hx. destruct H7 as [[Hp0 Hn0]|H7]; [|exact (H7 x t Hs Hx)].
  assert (typ = x) by (eapply hdr_first; eauto). subst x. right; right. split; assumption.
Qed.

Lemma data_loop_inv fuel : forall nf st r p st' r' nf', View r all p -> base <= p -> dinv st nf p ->
  ord_loop 7 data_handle data_skip fuel nf st r = Ok (st', r', nf') -> exists p', dinv st' nf' p'.
Proof.
  induction fuel as [|f IH]; intros nf st r p st' r' nf' V Hb Hinv E; [discriminate|].
  cbn [ord_loop] in E. destruct (rd_len r <=? rd_pos r); [inversion E; subst; eauto|].
  destruct (read_tlnum r) as [[typ r1]| |] eqn:E1; cbn [bind] in E; try discriminate.
  destruct (read_tlnum r1) as [[l r2]| |] eqn:E2; cbn [bind] in E; try discriminate.
  change (7 + 2) with 9 in E.
  destruct (ord_inner 7 data_handle data_skip 9 nf typ l (rd_pos r) st r2) as [[[st1 r3] nf1]| |] eqn:E3; cbn [bind] in E; try discriminate.
  pose proof V as (_ & _ & Hp). rewrite Hp in E3.
  destruct (read_tlnum_inv _ _ _ _ _ V E1) as (k1 & Hk1 & Hl1 & Hd1 & V1).
  destruct (read_tlnum_inv _ _ _ _ _ V1 E2) as (k2 & Hk2 & Hl2 & Hd2 & V2).
  assert (Hh : hdr_at p typ l (p + k1 + k2)) by (exists k1, k2; repeat split; auto).
  destruct (data_inner _ _ _ _ _ _ _ _ _ _ Hb V2 Hh Hinv E3) as (p3 & Hp3 & V3 & Hinv3).
  eapply IH; [exact V3|lia|exact Hinv3|exact E].
Qed.

(* What a successful parse of a Data value guarantees, on any bytes. *)
Theorem parse_data_inv sub d cx : View sub all base -> parse_data (mkDctx [] 0) sub = Ok (d, cx) -> d_name d <> None ->
  forall w, d_sv d = Some w ->
  exists a b l c, base <= a <= b /\ hdr_at b 23 l c /\ (0 <= to_int l)%Z /\ c + Z.to_nat (to_int l) <= length all /\
    concat w = firstn (Z.to_nat (to_int l)) (skipn c all) /\
    concat (dx_cov cx) = firstn (b - a) (skipn a all) /\
    (forall x t, skipn base all = x :: t -> (x <= 252)%N -> (x = 7%N /\ a = base) \/ (known x = false /\ is_critical x = false)).
Proof.
  intros V E Hname w Hw. unfold parse_data, ord_parse in E.
  destruct (ord_loop 7 data_handle data_skip _ 0 _ sub) as [[[st r'] nf]| |] eqn:El; cbn [bind] in E; try discriminate.
  inversion E; subst d cx. clear E.
  assert (Hinit : dinv (mkDst (mkData None None None None None) (mkDctx [] 0) false) 0 base).
  { unfold dinv, sv_ok. cbn [ds_val ds_ctx ds_hstart d_name d_sv dx_cov dx_start].
    split; [auto|]. split; [intros; lia|]. split; [intros H; congruence|]. split; [intros H; congruence|]. split; [auto|].
    split; [intros w0 H; discriminate|]. left. auto. }
  destruct (data_loop_inv _ _ _ _ _ _ _ _ V (le_n _) Hinit El) as (p' & (H1 & H2 & H3 & H4 & H5 & H6 & H7)).
  specialize (H3 Hname). destruct (H2 ltac:(lia)) as [Hhs [Hba Hap]]. rewrite Hhs.
  destruct (H6 w Hw) as (b & l & c & Hab & Hh & Hl0 & Hlr & Hwc & Hcov).
  exists (dx_start (ds_ctx st)), b, l, c. split; [lia|]. split; [exact Hh|]. split; [exact Hl0|]. split; [exact Hlr|].
  split; [exact Hwc|]. split; [exact Hcov|].
  intros x t Hs Hx. destruct H7 as [[_ ?]|H7]; [lia|].
  destruct (H7 x t Hs Hx) as [(? & ? & _)|[(_ & _ & Hnone & _)|?]]; [left; auto|congruence|right; assumption].
Qed.
End DataInv.

(* ---------------------------------------------------------------- Part B: one flipped bit *)
Definition one_bit (x x' : N) : Prop := exists k, (k < 8)%N /\ x' = N.lxor x (2 ^ k).

Lemma one_bit_neq x x' : one_bit x x' -> x' <> x.
Proof.
  intros (k & Hk & ->) H.
  assert (H0 : (2 ^ k = 0)%N).
  { assert (E : N.lxor x (N.lxor x (2 ^ k)) = N.lxor x x) by (rewrite H; reflexivity).
    rewrite <- N.lxor_assoc, N.lxor_nilpotent, N.lxor_0_l in E. exact E. }
  pose proof (N.pow_nonzero 2 k ltac:(lia)). contradiction.
Qed.

Ltac bits8 k Hk := (* enumerate k < 8 *)
  destruct k as [|k]; [|destruct k as [k|k|]; [destruct k as [k|k|]; [destruct k as [k|k|]|destruct k as [k|k|]|]|destruct k as [k|k|]; [destruct k as [k|k|]|destruct k as [k|k|]|]|]];
  try (exfalso; lia).

Lemma flips_of_7 x' : one_bit 7 x' -> (x' <= 252)%N /\ x' <> 7%N /\ (known x' = true \/ is_critical x' = true).
Proof.
  intros (k & Hk & ->). bits8 k Hk; cbn; repeat split; try lia; try discriminate; auto.
Qed.

Lemma flips_of_23 x' : one_bit 23 x' -> (x' <= 252)%N /\ x' <> 23%N.
Proof. intros (k & Hk & ->). bits8 k Hk; cbn; split; try lia; discriminate. Qed.

Lemma flips_of_253 x' : one_bit 253 x' -> (x' <= 252)%N \/ x' = 255%N.
Proof. intros (k & Hk & ->). bits8 k Hk; cbn; lia. Qed.
Lemma flips_of_254 x' : one_bit 254 x' -> (x' <= 252)%N \/ x' = 255%N.
Proof. intros (k & Hk & ->). bits8 k Hk; cbn; lia. Qed.
Lemma flips_of_255 x' : one_bit 255 x' -> (x' <= 252)%N \/ x' = 253%N \/ x' = 254%N.
Proof. intros (k & Hk & ->). bits8 k Hk; cbn; lia. Qed.

Lemma be_val_acc_shift l : forall acc, be_val_acc acc l = (acc * 256 ^ N.of_nat (length l) + be_val l)%N.
Proof.
  unfold be_val. induction l as [|b l IH]; intros acc.
  - simpl. lia.
  - cbn [be_val_acc length]. rewrite IH. rewrite (IH (0 * 256 + b)%N). rewrite Nat2N.inj_succ, N.pow_succ_r'. lia.
Qed.

Lemma be_val_mid pre x x' post : be_val (pre ++ x :: post) = be_val (pre ++ x' :: post) -> x = x'.
Proof.
  unfold be_val. rewrite !be_val_acc_app. cbn [be_val_acc]. rewrite !(be_val_acc_shift post).
  pose proof (N.pow_nonzero 256 (N.of_nat (length post)) ltac:(lia)). nia.
Qed.

Lemma tl_dec_cases l v rest : tl_dec l = Some (v, rest) -> exists x t, l = x :: t /\
  (((x <= 252)%N /\ v = x /\ rest = t) \/
   ((252 < x)%N /\ let kk := if (x =? 253)%N then 2 else if (x =? 254)%N then 4 else 8 in
      kk <= length t /\ v = be_val (firstn kk t) /\ rest = skipn kk t)).
Proof.
  destruct l as [|x t]; [discriminate|]. intros H. exists x, t. split; [reflexivity|]. cbn [tl_dec] in H.
  destruct (x <=? 252)%N eqn:E; [left; inversion H; subst; repeat split; lia|].
  right. split; [lia|]. cbv zeta.
  assert (G : forall kk, take_be kk t = Some (v, rest) -> kk <= length t /\ v = be_val (firstn kk t) /\ rest = skipn kk t).
  { intros kk Ht. unfold take_be in Ht. destruct (kk <=? length t) eqn:Ek; [|discriminate]. apply Nat.leb_le in Ek. inversion Ht; subst. auto. }
  destruct (x =? 253)%N; [apply G; exact H|]. destruct (x =? 254)%N; apply G; exact H.
Qed.

(* the length octets of an element, one of them changed in one bit: the element no longer ends where it did *)
Lemma len_tamper n pre2 x x' post2 (sv : bytes) k2 :
  (n < two64)%N -> tl_enc n = pre2 ++ x :: post2 -> one_bit x x' ->
  tl_dec ((pre2 ++ x' :: post2) ++ sv) = Some (n, skipn k2 ((pre2 ++ x' :: post2) ++ sv)) ->
  k2 <= length (tl_enc n) -> False.
Proof.
  intros Hn Henc Hbit Hdec Hk2. pose proof (one_bit_neq _ _ Hbit) as Hne.
  destruct (tl_dec_cases _ _ _ Hdec) as (x0 & t & Hl & Hcase).
  assert (Hlen : length ((pre2 ++ x' :: post2) ++ sv) = length (tl_enc n) + length sv).
  { rewrite Henc, !app_length. simpl. lia. }
  (* consumption: the rest returned by tl_dec determines k2 *)
  assert (Hcons : forall kk, kk <= length t -> skipn k2 ((pre2 ++ x' :: post2) ++ sv) = skipn kk t -> k2 = Datatypes.S kk).
  { intros kk Hkk Hsk. assert (E : length (skipn k2 ((pre2 ++ x' :: post2) ++ sv)) = length (skipn kk t)) by (rewrite Hsk; reflexivity).
    rewrite !skipn_length in E. rewrite Hl in E. cbn [length] in E. rewrite Hl in Hlen. cbn [length] in Hlen. lia. }
  destruct pre2 as [|o pre3].
  - (* the first length octet *)
    cbn [app] in Hl, Henc. inversion Hl; subst x0 t. clear Hl.
    unfold tl_enc in Henc, Hk2. unfold two64 in Hn.
    pose proof (be_length 2 n) as L2. pose proof (be_length 4 n) as L4. pose proof (be_length 8 n) as L8.
    pose proof (be_ok 8 n) as Hok8.
    remember (be 2 n) as B2 eqn:HB2. remember (be 4 n) as B4 eqn:HB4. remember (be 8 n) as B8 eqn:HB8. clear HB2 HB4 HB8.
    destruct (n <=? 252)%N eqn:E1.
    { inversion Henc; subst x post2. cbn [length] in Hk2. destruct Hcase as [(Hx & Hv & _)|(Hx & Hkk & _ & Hr)]; [congruence|].
      cbv zeta in Hkk, Hr. apply Hcons in Hr; [|exact Hkk]. destruct (x' =? 253)%N; [lia|]. destruct (x' =? 254)%N; lia. }
    destruct (n <=? 65535)%N eqn:E2.
    { inversion Henc; subst x post2. cbn [length] in Hk2. rewrite L2 in Hk2.
      destruct Hcase as [(Hx & Hv & _)|(Hx & Hkk & _ & Hr)]; [lia|].
      destruct (flips_of_253 _ Hbit) as [?| ->]; [lia|]. cbv zeta in Hkk, Hr. cbn [N.eqb Pos.eqb] in Hkk, Hr. apply Hcons in Hr; [lia|exact Hkk]. }
    destruct (n <=? 4294967295)%N eqn:E3.
    { inversion Henc; subst x post2. cbn [length] in Hk2. rewrite L4 in Hk2.
      destruct Hcase as [(Hx & Hv & _)|(Hx & Hkk & _ & Hr)]; [lia|].
      destruct (flips_of_254 _ Hbit) as [?| ->]; [lia|]. cbv zeta in Hkk, Hr. cbn [N.eqb Pos.eqb] in Hkk, Hr. apply Hcons in Hr; [lia|exact Hkk]. }
    inversion Henc; subst x post2. cbn [length] in Hk2. rewrite L8 in Hk2.
    destruct Hcase as [(Hx & Hv & _)|(Hx & Hkk & Hv & Hr)]; [lia|].
    assert (Hsmall : forall j, j <= 8 -> (be_val (firstn j (B8 ++ sv)) < 256 ^ N.of_nat j)%N).
    { intros j Hj. rewrite firstn_app_le by lia.
      assert (Hokj : bytes_ok (firstn j B8)).
      { rewrite <- (firstn_skipn j B8) in Hok8. apply bytes_ok_app in Hok8. apply Hok8. }
      pose proof (be_val_bound _ Hokj) as Hb. rewrite firstn_length, L8 in Hb. replace (Nat.min j 8) with j in Hb by lia. exact Hb. }
    destruct (flips_of_255 _ Hbit) as [?|[-> | ->]]; [lia| |]; cbv zeta in Hkk, Hv, Hr; cbn [N.eqb Pos.eqb] in Hkk, Hv, Hr.
    + pose proof (Hsmall 2 ltac:(lia)) as Hb. rewrite <- Hv in Hb. cbn in Hb. lia.
    + pose proof (Hsmall 4 ltac:(lia)) as Hb. rewrite <- Hv in Hb. cbn in Hb. lia.
  - (* an octet of the big-endian number *)
    cbn [app] in Hl, Henc. inversion Hl; subst x0 t. clear Hl.
    unfold tl_enc in Henc. unfold two64 in Hn.
    assert (Gen : forall kk, (n < 256 ^ N.of_nat kk)%N -> be kk n = pre3 ++ x :: post2 ->
              (kk <= length ((pre3 ++ x' :: post2) ++ sv) /\ n = be_val (firstn kk ((pre3 ++ x' :: post2) ++ sv))) -> False).
    { intros kk Hnk Hbe (_ & Hv). assert (Hlk : length (pre3 ++ x' :: post2) = kk) by (rewrite <- (be_length kk n), Hbe, !app_length; reflexivity).
      rewrite firstn_app_le in Hv by lia. rewrite <- Hlk in Hv at 1. rewrite firstn_all in Hv.
      rewrite <- (be_val_be kk n Hnk) in Hv at 1. rewrite Hbe in Hv. apply be_val_mid in Hv. congruence. }
    destruct (n <=? 252)%N eqn:E1; [inversion Henc as [[H1 H2]]; destruct pre3; discriminate|].
    destruct (n <=? 65535)%N eqn:E2.
    { inversion Henc as [[Ho Hbe]]. subst o. destruct Hcase as [(Hx & _)|(_ & Hkk & Hv & _)]; [lia|]. cbv zeta in Hkk, Hv. cbn [N.eqb Pos.eqb] in Hkk, Hv.
      apply (Gen 2); [cbn; lia|exact Hbe|split; assumption]. }
    destruct (n <=? 4294967295)%N eqn:E3.
    { inversion Henc as [[Ho Hbe]]. subst o. destruct Hcase as [(Hx & _)|(_ & Hkk & Hv & _)]; [lia|]. cbv zeta in Hkk, Hv. cbn [N.eqb Pos.eqb] in Hkk, Hv.
      apply (Gen 4); [cbn; lia|exact Hbe|split; assumption]. }
    inversion Henc as [[Ho Hbe]]. subst o. destruct Hcase as [(Hx & _)|(_ & Hkk & Hv & _)]; [lia|]. cbv zeta in Hkk, Hv. cbn [N.eqb Pos.eqb] in Hkk, Hv.
    apply (Gen 8); [cbn; lia|exact Hbe|split; assumption].
Qed.

(* PacketParsingContext.Parse over ONE top-level element of type 6 with an arbitrary value *)
Lemma parse_packet_data_any r (V0 : bytes) :
  View r (enc_elem (6%N, V0)) 0 -> (N.of_nat (length (enc_elem (6%N, V0))) < big)%N ->
  exists sub hid, View sub (hid ++ V0) (length hid) /\
    parse_packet r = match parse_data (mkDctx [] 0) sub with
                     | Ok (d, cx) => Ok (mkPst None (Some d) false (mkIctx [] [] 0 0 0) cx)
                     | Err => Err | Panic => Panic end.
Proof.
  intros V Hb. unfold parse_packet, unord_parse.
  set (all := enc_elem (6%N, V0)) in *.
  assert (He : elem_wf (6%N, V0)).
  { split; [cbn; unfold two64; lia|]. cbn [snd]. unfold all in Hb. rewrite enc_elem_length in Hb. cbn [snd] in Hb. lia. }
  assert (Hs : skipn 0 all = enc_elem (6%N, V0) ++ []) by (rewrite app_nil_r; reflexivity).
  destruct (read_header _ _ _ _ _ V Hs He) as (r2 & Eh & V2 & H2 & Hlt). cbn [fst snd] in *.
  rewrite (view_remaining _ _ _ V). rewrite Nat.sub_0_r.
  destruct (length all) as [|k] eqn:El; [lia|]. cbn [unord_loop].
  rewrite (view_len _ _ _ V), El. pose proof V as (_ & _ & Hp). rewrite Hp. cbn [Nat.leb].
  destruct (read_tlnum r) as [[typ r1]| |] eqn:E1; cbn in Eh; try discriminate. cbn [bind].
  destruct (read_tlnum r1) as [[l r2']| |] eqn:E2; cbn in Eh; try discriminate.
  inversion Eh; subst typ l r2'. cbn [bind]. unfold pkt_handle at 1.
  change (6 =? 5)%N with false. change (6 =? 6)%N with true. cbv iota.
  assert (Hl : (N.of_nat (length V0) < big)%N) by (destruct He as [_ He]; exact He).
  rewrite to_int_len by exact Hl.
  assert (Hball : (N.of_nat (length all) < big)%N) by (rewrite El; exact Hb).
  destruct (delegate_sub _ _ _ _ _ V2 H2 Hball) as (sub & r3 & hid & E & Vs & Hbs & V3). rewrite E. cbn [bind].
  exists sub, hid. split; [exact Vs|]. cbn [ps_dctx].
  destruct (parse_data (mkDctx [] 0) sub) as [[d cx]| |]; cbn [bind]; try reflexivity.
  cbn [ps_int ps_lp ps_ictx].
  assert (Hend : 0 + tl_len 6 + tl_len (N.of_nat (length V0)) + length V0 = length all).
  { unfold all. rewrite enc_elem_length. cbn [fst snd]. lia. }
  rewrite Hend in V3.
  destruct k as [|k'].
  { exfalso. pose proof (tl_len_pos 6%N). pose proof (tl_len_pos (N.of_nat (length V0))). lia. }
  cbn [unord_loop]. rewrite (view_len _ _ _ V3). destruct V3 as (Hw3 & Ha3 & Hp3). rewrite Hp3, El, Nat.leb_refl. reflexivity.
Qed.

Lemma app_split_mid {A} (a b pre post : list A) x : a ++ b = pre ++ x :: post ->
  (exists post1, a = pre ++ x :: post1 /\ post = post1 ++ b) \/ (exists pre2, b = pre2 ++ x :: post /\ pre = a ++ pre2).
Proof.
  revert pre. induction a as [|y a IH]; intros pre H.
  - right. exists pre. auto.
  - destruct pre as [|z pre]; cbn [app] in H.
    + inversion H; subst. left. exists a. auto.
    + inversion H; subst. destruct (IH pre H2) as [(p1 & -> & ->)|(p2 & -> & ->)]; [left; exists p1; auto|right; exists p2; auto].
Qed.

Lemma firstn_mid_eq {A} (pre post1 rest : list A) x x' :
  firstn (length (pre ++ x :: post1)) (pre ++ x' :: post1 ++ rest) = pre ++ x' :: post1.
Proof.
  induction pre as [|y pre IH]; cbn [app length firstn].
  - f_equal. rewrite firstn_app_le by lia. apply firstn_all.
  - f_equal. exact IH.
Qed.

Lemma skipn_hid {A} (hid X : list A) j : skipn (length hid + j) (hid ++ X) = skipn j X.
Proof. rewrite skipn_app_ge by lia. f_equal. lia. Qed.

(* The core: the Data value P ++ [23] ++ L ++ sv (P the signed portion, beginning with the Name's type octet 7), one bit
   flipped somewhere; a parse of the result that reports the original signed portion and signature is impossible. *)
Lemma tamper_core (P0 sv hid pre post : bytes) x x' sub d cx w :
  let P := 7%N :: P0 in let n := N.of_nat (length sv) in
  (n < 9223372036854775808)%N ->
  P ++ 23%N :: tl_enc n ++ sv = pre ++ x :: post -> one_bit x x' ->
  View sub (hid ++ pre ++ x' :: post) (length hid) -> parse_data (mkDctx [] 0) sub = Ok (d, cx) ->
  d_name d <> None -> d_sv d = Some w -> concat (dx_cov cx) = P -> concat w = sv -> False.
Proof.
  intros P n Hn HV Hbit Vs Ep Hname Hsv Hcov Hw.
  pose proof (one_bit_neq _ _ Hbit) as Hne.
  set (V' := pre ++ x' :: post) in *. set (all := hid ++ V') in *. set (B := length hid) in *.
  destruct (parse_data_inv all B sub d cx Vs Ep Hname w Hsv) as (a & b & l & c & Hab & Hh & Hl0 & Hlr & Hwc & Hcc & Hfirst).
  destruct Hh as (k1 & k2 & Hk1 & Hk2 & Hc & Hcl & Hd1 & Hd2).
  assert (HlenV : length V' = length P + 1 + length (tl_enc n) + length sv).
  { unfold V'. transitivity (length (pre ++ x :: post)); [rewrite !app_length; reflexivity|]. rewrite <- HV. rewrite !app_length. cbn [length]. rewrite app_length. nlia. }
  assert (Hall : length all = B + length V') by (unfold all, B; apply app_length).
  (* lengths *)
  assert (HL : Z.to_nat (to_int l) = length sv).
  { rewrite <- Hw, Hwc. rewrite firstn_length, skipn_length. nlia. }
  assert (HPl : b - a = length P).
  { rewrite <- Hcov, Hcc. rewrite firstn_length, skipn_length. nlia. }
  assert (Hln : l = n).
  { unfold n. unfold to_int in *. destruct (l <? 9223372036854775808)%N eqn:El; [nlia|]. exfalso.
    pose proof (N.mod_lt l two64 ltac:(unfold two64; nlia)). unfold two64z, two64 in *. nlia. }
  subst l.
  (* the first octet of the value *)
  assert (Hsk0 : skipn B all = V') by (unfold all, B; rewrite <- (Nat.add_0_r (length hid)), skipn_hid; reflexivity).
  destruct (app_split_mid P (23%N :: tl_enc n ++ sv) pre post x HV) as [(post1 & HP & Hpost)|(pre2 & HS & Hpre)].
  - (* the flip is inside the signed portion *)
    destruct pre as [|y pre'].
    + (* its very first octet: the Name's type *)
      cbn [app] in HP. inversion HP; subst x. destruct (flips_of_7 _ Hbit) as (Hx & Hx7 & Hbad).
      destruct (Hfirst x' post) as [(? & _)|(Hk & Hc')]; [unfold V' in Hsk0; exact Hsk0|exact Hx|contradiction|].
      destruct Hbad; congruence.
    + cbn [app] in HP. unfold P in HP. inversion HP as [[Hy HP0]]. subst y.
      destruct (Hfirst 7%N (pre' ++ x' :: post)) as [(_ & Ha)|(Hk & _)]; [exact Hsk0|nlia| |discriminate].
      subst a. rewrite Hsk0 in Hcc. rewrite HPl in Hcc.
      unfold V' in Hcc. rewrite Hpost in Hcc. rewrite Hcov in Hcc.
      assert (HPe : P = (7%N :: pre') ++ x :: post1) by (unfold P; rewrite HP0; reflexivity).
      rewrite HPe in Hcc.
      pose proof (firstn_mid_eq (7%N :: pre') post1 (23%N :: tl_enc n ++ sv) x x') as Hm.
      unfold bytes, byte in *. rewrite Hm in Hcc.
      apply app_inv_head in Hcc. inversion Hcc. congruence.
  - (* the flip is in the SignatureValue element; the signed portion is intact *)
    assert (HV' : V' = P ++ pre2 ++ x' :: post) by (unfold V'; rewrite Hpre, <- app_assoc; reflexivity).
    destruct (Hfirst 7%N (P0 ++ pre2 ++ x' :: post)) as [(_ & Ha)|(Hk & _)]; [rewrite Hsk0, HV'; reflexivity|nlia| |discriminate].
    subst a. assert (Hb : b = B + length P) by nlia.
    assert (Hskb : skipn b all = pre2 ++ x' :: post).
    { rewrite Hb. unfold all, B. rewrite skipn_hid, HV'. rewrite skipn_app_ge by nlia. rewrite Nat.sub_diag. reflexivity. }
    assert (Hlen2 : length (pre2 ++ x' :: post) = 1 + length (tl_enc n) + length sv).
    { transitivity (length (pre2 ++ x :: post)); [rewrite !app_length; reflexivity|]. unfold bytes, byte in *. rewrite <- HS. cbn [length]. rewrite app_length. nlia. }
    assert (Hkk : k1 + k2 <= 1 + length (tl_enc n)) by nlia.
    destruct pre2 as [|y pre3].
    + (* the type octet 23 *)
      cbn [app] in HS. inversion HS; subst x. destruct (flips_of_23 _ Hbit) as (Hx & Hx23).
      rewrite Hskb in Hd1. cbn [app tl_dec] in Hd1. replace (x' <=? 252)%N with true in Hd1 by nlia. inversion Hd1. congruence.
    + cbn [app] in HS. inversion HS as [[Hy HT]]. subst y.
      rewrite Hskb in Hd1. cbn [app tl_dec] in Hd1. change (23 <=? 252)%N with true in Hd1. cbv iota in Hd1.
      assert (Hk1' : k1 = 1).
      { inversion Hd1 as [Hr]. assert (E : length (pre3 ++ x' :: post) = length (skipn (b + k1) all)) by (rewrite <- Hr; reflexivity).
        rewrite skipn_length in E. cbn [app length] in Hlen2. nlia. }
      subst k1.
      assert (HskT : skipn (b + 1) all = pre3 ++ x' :: post).
      { replace (b + 1) with (1 + b) by nlia. rewrite <- skipn_skipn, Hskb. reflexivity. }
      rewrite HskT in Hd2.
      assert (Hsk2 : skipn c all = skipn k2 (pre3 ++ x' :: post)).
      { rewrite Hc. replace (b + 1 + k2) with (k2 + (b + 1)) by nlia. rewrite <- skipn_skipn, HskT. reflexivity. }
      rewrite Hsk2 in Hd2, Hwc.
      destruct (app_split_mid (tl_enc n) sv pre3 post x HT) as [(post2 & HL' & Hpost2)|(pre4 & Hsv' & Hpre4)].
      * (* a length octet *)
        apply (len_tamper n pre3 x x' post2 sv k2); [unfold two64; nlia|exact HL'|exact Hbit| |nlia].
        rewrite Hpost2 in Hd2. replace (pre3 ++ x' :: post2 ++ sv) with ((pre3 ++ x' :: post2) ++ sv) in Hd2 by (rewrite <- app_assoc; reflexivity).
        exact Hd2.
      * (* an octet of the signature value *)
        rewrite Hpre4 in Hd2, Hwc. rewrite <- app_assoc in Hd2, Hwc.
        rewrite tl_dec_enc in Hd2 by (unfold two64; nlia). inversion Hd2 as [Hr].
        rewrite <- Hr in Hwc. rewrite HL in Hwc.
        assert (Hlen3 : length (pre4 ++ x' :: post) = length sv) by (rewrite Hsv', !app_length; reflexivity).
        rewrite <- Hlen3 in Hwc. rewrite firstn_all in Hwc. rewrite Hw, Hsv' in Hwc.
        apply app_inv_head in Hwc. inversion Hwc. congruence.
Qed.

(* ---------------------------------------------------------------- the statement on packets built by MakeData *)
Lemma data_pre_head n m c si : exists P0, enc_elems (data_pre n m c si) = 7%N :: P0.
Proof. unfold data_pre. cbn [app]. rewrite enc_elems_cons. unfold enc_elem at 1. cbn [fst]. change (tl_enc 7) with [7%N]. cbn [app]. eauto. Qed.

Section TamperData.
Variable sign : list bytes -> option bytes.

Theorem tamper_any_bit_data_thm nm cfg content sg si est e sv :
  data_siginfo sg = Ok (si, est) -> name_ok nm -> meta_wf (meta_of cfg) -> signer_ok sg -> data_fits nm cfg content si est ->
  (0 < est)%N -> make_data sign nm cfg content sg = Ok e -> sign (e_cov e) = Some sv ->
  forall i, value_offset (concat (e_wire e)) <= i / 8 < length (concat (e_wire e)) ->
  forall r, View r (flip_bit (concat (e_wire e)) i) 0 ->
  forall s d, parse_packet r = Ok s -> ps_data s = Some d -> d_name d <> None ->
    ~ (concat (dx_cov (ps_dctx s)) = concat (e_cov e) /\ option_map (@concat N) (d_sv d) = Some sv).
Proof.
  intros Hsi Hn Hm Hsg Hfit Hest Hmk Hsign i Hi r V s d Ep Hd Hname [Hcov Hsv].
  pose proof (data_siginfo_wf _ _ _ Hsi Hsg) as Hsiwf.
  destruct (data_roundtrip_thm sign nm cfg content sg si est e Hsi Hn Hm Hsg Hfit Hmk) as (svo & _ & Hs1 & HW & Hr).
  destruct (Hs1 Hest) as (Hsg' & s0 & Hs0 & Hle). rewrite Hsign in Hsg'. subst svo. inversion Hs0; subst s0. clear Hs0.
  unfold data_fits in Hfit.
  set (m := meta_of cfg) in *. set (c := option_map (@concat N) content) in *.
  set (W := concat (e_wire e)) in *.
  assert (Hb : (N.of_nat (length W) < big)%N).
  { rewrite HW. apply packet_size. unfold data_fits in Hfit. pose proof (V_len_le nm m content si est sv Hest Hle). nlia. }
  (* the covered bytes are the encoded fields before SignatureValue *)
  assert (HcovE : concat (e_cov e) = enc_elems (data_pre nm m c si)).
  { assert (V0 : View (BR W 0) W 0) by (apply view_br; nlia).
    destruct (Hr _ V0) as (d1 & c1 & E1 & _ & C1).
    assert (V1 : View (BR W 0) (enc_elem (6%N, enc_elems (data_elems nm m c si (Some sv)))) 0) by (unfold V_of in HW; fold c in HW; rewrite <- HW; exact V0).
    destruct (read_data_ok (BR W 0) nm m c si (Some sv) V1 Hn Hm Hsiwf) as (d2 & c2 & E2 & _ & C2); [unfold V_of in HW; fold c in HW; rewrite <- HW; exact Hb|].
    rewrite E1 in E2. inversion E2; subst. rewrite <- C1. exact C2. }
  destruct (data_pre_head nm m c si) as (P0 & HP).
  set (n := N.of_nat (length sv)).
  assert (HV : V_of nm m content si (Some sv) = (7%N :: P0) ++ 23%N :: tl_enc n ++ sv).
  { unfold V_of. fold c. rewrite data_elems_pre, enc_elems_app, HP. cbn [oel]. rewrite enc_elems_one'. unfold enc_elem. cbn [fst snd].
    change (tl_enc 23) with [23%N]. reflexivity. }
  set (Vv := V_of nm m content si (Some sv)) in *.
  assert (HWe : W = 6%N :: tl_enc (N.of_nat (length Vv)) ++ Vv) by (rewrite HW; unfold enc_elem; cbn [fst snd]; reflexivity).
  assert (HVb : (N.of_nat (length Vv) < two64)%N).
  { rewrite HWe in Hb. cbn [length] in Hb. rewrite app_length in Hb. unfold two64. nlia. }
  assert (Hoff : value_offset W = 1 + tl_len (N.of_nat (length Vv))).
  { unfold value_offset. rewrite HWe. cbn [tl_dec]. change (6 <=? 252)%N with true. cbv iota. rewrite tl_dec_enc by exact HVb.
    cbn [length]. rewrite app_length, tl_enc_length. nlia. }
  rewrite Hoff in Hi.
  set (h0 := 1 + tl_len (N.of_nat (length Vv))) in *.
  (* split the wire at the flipped octet *)
  unfold flip_bit in V. fold W in V.
  destruct (skipn_cons_ex W (i / 8) ltac:(nlia)) as (x & t & Hsk). rewrite Hsk in V.
  set (x' := N.lxor x (2 ^ N.of_nat (i mod 8))) in *.
  assert (Hbit : one_bit x x').
  { exists (N.of_nat (i mod 8)). split; [|reflexivity]. pose proof (Nat.mod_upper_bound i 8 ltac:(nlia)). nlia. }
  assert (HWs : W = firstn (i / 8) W ++ x :: t) by (rewrite <- Hsk; symmetry; apply firstn_skipn).
  set (hd := 6%N :: tl_enc (N.of_nat (length Vv))) in *.
  assert (Hhd : length hd = h0) by (unfold hd, h0; cbn [length]; rewrite tl_enc_length; reflexivity).
  assert (HWh : W = hd ++ Vv) by (rewrite HWe; reflexivity).
  assert (Hfst : firstn (i / 8) W = hd ++ firstn (i / 8 - h0) Vv).
  { rewrite HWh. rewrite firstn_app_ge by nlia. unfold bytes, byte in *. rewrite Hhd. reflexivity. }
  assert (HVs : Vv = firstn (i / 8 - h0) Vv ++ x :: t).
  { rewrite HWh in Hsk. rewrite skipn_app_ge in Hsk by nlia. unfold bytes, byte in *. rewrite Hhd in Hsk. rewrite <- Hsk. symmetry. apply firstn_skipn. }
  set (pre := firstn (i / 8 - h0) Vv) in *.
  set (V' := pre ++ x' :: t).
  assert (HlenV' : length V' = length Vv).
  { unfold V'. rewrite HVs at 1. rewrite !app_length. reflexivity. }
  assert (HW' : firstn (i / 8) W ++ x' :: t = enc_elem (6%N, V')).
  { rewrite Hfst. unfold enc_elem. cbn [fst snd]. rewrite HlenV'. unfold hd, V'. rewrite <- app_assoc. reflexivity. }
  rewrite HW' in V.
  assert (Hb' : (N.of_nat (length (enc_elem (6%N, V'))) < big)%N).
  { rewrite <- HW'. replace (length (firstn (i / 8) W ++ x' :: t)) with (length W); [exact Hb|]. rewrite HWs at 1. rewrite !app_length. reflexivity. }
  destruct (parse_packet_data_any r V' V Hb') as (sub & hid & Vs & Epp). rewrite Ep in Epp.
  destruct (parse_data (mkDctx [] 0) sub) as [[d0 cx]| |] eqn:Epd; try discriminate.
  inversion Epp; subst s. cbn [ps_data ps_dctx] in *. inversion Hd; subst d0.
  destruct (d_sv d) as [w|] eqn:Ew; [|discriminate]. cbn [option_map] in Hsv. inversion Hsv as [Hw].
  rewrite HcovE, HP in Hcov.
  eapply (tamper_core P0 sv hid pre t x x' sub d cx w); eauto.
  - assert (H1 : length sv <= length Vv).
    { rewrite HV. rewrite app_length. cbn [length]. rewrite !app_length. nlia. }
    assert (H2 : length W = length hd + length Vv) by (rewrite HWh at 1; apply app_length).
    clear - H1 H2 Hb. nlia.
  - fold n. rewrite <- HV. exact HVs.
Qed.

(* the same through ReadData *)
Corollary tamper_any_bit_read_data_thm nm cfg content sg si est e sv :
  data_siginfo sg = Ok (si, est) -> name_ok nm -> meta_wf (meta_of cfg) -> signer_ok sg -> data_fits nm cfg content si est ->
  (0 < est)%N -> make_data sign nm cfg content sg = Ok e -> sign (e_cov e) = Some sv ->
  forall i, value_offset (concat (e_wire e)) <= i / 8 < length (concat (e_wire e)) ->
  forall r, View r (flip_bit (concat (e_wire e)) i) 0 ->
  forall d' cov', read_data r = ROk d' cov' ->
    ~ (concat cov' = concat (e_cov e) /\ do_sv (obs_data d') = Some sv).
Proof.
  intros Hsi Hn Hm Hsg Hfit Hest Hmk Hsign i Hi r V d' cov' Er.
  unfold read_data in Er. destruct (parse_packet r) as [s| |] eqn:Ep; try discriminate.
  destruct (ps_lp s); [discriminate|]. destruct (ps_data s) as [d|] eqn:Ed; [|discriminate].
  destruct (si_unm (d_si d)); [discriminate|]. destruct (d_name d) as [n0|] eqn:En; [|discriminate].
  inversion Er; subst d' cov'. cbn [obs_data do_sv].
  apply (tamper_any_bit_data_thm nm cfg content sg si est e sv Hsi Hn Hm Hsg Hfit Hest Hmk Hsign i Hi r V s d Ep Ed).
  rewrite En. discriminate.
Qed.
End TamperData.
