(* Packet/EncData.v — what MakeData builds: its wire, joined, is one well-formed Data element whose value is the sequence
   of the field elements, every length field exact; the covered ranges handed to the signer are the elements before
   SignatureValue.  No panic (plan = bytes written), no error for admissible inputs. *)
From Packet Require Import Model Spec ReadersProofs EncProofs DecGeneric DecProofs DecData.
From Coq Require Import ZifyBool ZifyN ZifyNat.
Open Scope N_scope.

(* ---------------------------------------------------------------- ParseTLNum / ShrinkLength on a header we wrote *)
Lemma parse_tlnum_enc n r : n < two64 -> parse_tlnum (tl_enc n ++ r) = Some (n, tl_len n).
Proof.
  intros H. unfold tl_enc, tl_len, two64 in *.
  destruct (n <=? 252) eqn:E1; [simpl; rewrite E1; reflexivity|].
  assert (Hgen : forall (x : N) (k : nat), 252 < x -> n < 256 ^ N.of_nat k ->
             (if x =? 253 then 2%nat else if x =? 254 then 4%nat else 8%nat) = k ->
             parse_tlnum ((x :: be k n) ++ r) = Some (n, S k)).
  { intros x k Hx Hb Hk. cbn [parse_tlnum app]. replace (x <=? 252) with false by lia. rewrite Hk.
    rewrite app_length, be_length. match goal with |- context[(?a <=? ?b)%nat] => replace (a <=? b)%nat with true by (symmetry; apply Nat.leb_le; lia) end.
    rewrite firstn_app_le by (rewrite be_length; lia). rewrite firstn_all2 by (rewrite be_length; lia).
    rewrite be_val_be by exact Hb. reflexivity. }
  destruct (n <=? 65535) eqn:E2; [apply (Hgen 253 2%nat); [lia|change (256 ^ N.of_nat 2) with 65536; lia|reflexivity]|].
  destruct (n <=? 4294967295) eqn:E3; [apply (Hgen 254 4%nat); [lia|change (256 ^ N.of_nat 4) with 4294967296; lia|reflexivity]|].
  apply (Hgen 255 8%nat); [lia|change (256 ^ N.of_nat 8) with 18446744073709551616; lia|reflexivity].
Qed.

Lemma tl_len_mono a b : a <= b -> (tl_len a <= tl_len b)%nat.
Proof. intros H. unfold tl_len. repeat match goal with |- context[if ?c then _ else _] => destruct c eqn:? end; lia. Qed.

Lemma shrink_length_hdr t l sh r : t <= 252 -> l < two64 -> sh <= l ->
  shrink_length (tl_enc t ++ tl_enc l ++ r) sh = Ok (tl_enc t ++ tl_enc (l - sh) ++ r).
Proof.
  intros Ht Hl Hs. unfold shrink_length.
  rewrite parse_tlnum_enc by (unfold two64; lia).
  assert (Et : tl_enc t = [t]) by (apply tl_enc_small; exact Ht).
  assert (Elt : tl_len t = 1%nat) by (unfold tl_len; replace (t <=? 252) with true by lia; reflexivity).
  rewrite Elt, Et. cbn [app skipn]. rewrite parse_tlnum_enc by exact Hl.
  assert (Hnew : (l + two64 - sh mod two64) mod two64 = l - sh).
  { unfold two64 in *. rewrite (N.mod_small sh) by lia.
    replace (l + 18446744073709551616 - sh) with ((l - sh) + 1 * 18446744073709551616) by lia.
    rewrite N.mod_add by lia. apply N.mod_small. lia. }
  rewrite Hnew. pose proof (tl_len_mono (l - sh) l ltac:(lia)) as Hm.
  assert (Hsk : skipn (1 + tl_len l) (t :: tl_enc l ++ r) = r).
  { cbn [Nat.add skipn]. rewrite skipn_app_ge by (rewrite tl_enc_length; lia). rewrite tl_enc_length, Nat.sub_diag. reflexivity. }
  unfold bytes, byte in *.
  destruct (tl_len (l - sh) =? tl_len l)%nat eqn:E.
  - rewrite Hsk. reflexivity.
  - replace (tl_len l <? tl_len (l - sh))%nat with false by (symmetry; apply Nat.ltb_ge; lia).
    rewrite Hsk. reflexivity.
Qed.

(* ---------------------------------------------------------------- plans and buffers *)
Lemma fold_pcut0 {A} (c : list A) : forall p, p_l p = 0 -> fold_left (fun p _ => p_cut p) c p = mkPlan (p_done p ++ repeat 0 (length c)) 0.
Proof.
  induction c as [|x c IH]; intros p H; simpl.
  - rewrite app_nil_r. destruct p; simpl in *; subst; reflexivity.
  - rewrite IH by reflexivity. unfold p_cut. simpl. rewrite H, <- app_assoc. reflexivity.
Qed.
Lemma fold_ext0 (c : list bytes) : forall w, w_cur w = [] -> fold_left (fun w b => w_ext b w) c w = mkW (w_done w ++ map (pair false) c) [].
Proof.
  induction c as [|x c IH]; intros w H; simpl.
  - rewrite app_nil_r. destruct w; simpl in *; subst; reflexivity.
  - rewrite IH by reflexivity. unfold w_ext. simpl. rewrite <- app_assoc. reflexivity.
Qed.

Lemma packet_plan_shape ilen p0 rest : 0 < ilen -> packet_plan ilen (p0 :: rest) = Ok ((1 + tlsz ilen + p0) :: rest).
Proof.
  intros H. unfold packet_plan. replace (0 <? ilen) with true by lia.
  assert (Hf : forall rest a done, fold_left (fun p x => mkPlan (p_done p ++ [p_l p]) x) rest (mkPlan done a)
                = mkPlan (done ++ removelast (a :: rest)) (last (a :: rest) 0)).
  { clear. induction rest as [|x rest IH]; intros a done; [simpl; rewrite app_nil_r; reflexivity|].
    cbn [fold_left p_done p_l]. rewrite IH. f_equal.
    rewrite <- app_assoc. reflexivity. }
  rewrite Hf. cbn [app p_l p_done]. set (a := 1 + tlsz ilen + p0).
  assert (Hal : removelast (a :: rest) ++ [last (a :: rest) 0] = a :: rest) by (symmetry; apply app_removelast_last; discriminate).
  destruct (last (a :: rest) 0 =? 0) eqn:E.
  - unfold p_cut, p_fin. cbn [p_done p_l]. change (0 <? 0) with false. cbv iota. rewrite Hal. reflexivity.
  - apply N.eqb_neq in E. unfold p_fin. cbn [p_done p_l]. replace (0 <? last (a :: rest) 0) with true by lia. rewrite Hal. reflexivity.
Qed.

Lemma concat_set_nth {A} (l : list (list A)) : forall i x l', set_nth l i x = Some l' ->
  concat l' = concat (firstn i l) ++ x ++ concat (skipn (S i) l) /\ length l' = length l.
Proof.
  induction l as [|y l IH]; intros [|i] x l' H; simpl in H; try discriminate.
  - inversion H; subst. simpl. auto.
  - destruct (set_nth l i x) eqn:E; [|discriminate]. inversion H; subst. destruct (IH _ _ _ E) as [H1 H2].
    simpl. rewrite H1, <- app_assoc. auto.
Qed.
Lemma set_nth_ok {A} (l : list A) : forall i x, (i < length l)%nat -> exists l', set_nth l i x = Some l' /\ l' = firstn i l ++ x :: skipn (S i) l.
Proof.
  induction l as [|y l IH]; intros [|i] x H; simpl in H; try lia.
  - eexists. split; reflexivity.
  - destruct (IH i x) as (l' & E & El); [lia|]. simpl. rewrite E. eexists. split; [reflexivity|]. rewrite El. reflexivity.
Qed.

(* ---------------------------------------------------------------- MakeData *)
Definition meta_of (cfg : dconfig) : metainfo := mkMeta (dc_ctype cfg) (dc_fresh cfg) (option_map comp_enc (dc_fbid cfg)).
Definition MT (m : metainfo) : bytes := tlv 20 (meta_len m) (meta_enc m).
Definition ST (si : option siginfo) : bytes := oenc (fun s => tlv 22 (si_len s) (si_enc s)) si.
Definition CH (content : option (list bytes)) : bytes := match content with Some w => tl_enc 21 ++ tl_enc (wire_len w) | None => [] end.
Definition CB (content : option (list bytes)) : bytes := match content with Some w => concat w | None => [] end.
Definition V_of nm m (content : option (list bytes)) si (sv : option bytes) : bytes :=
  enc_elems (data_elems nm m (option_map (@concat N) content) si sv).

Lemma MT_elem m : MT m = enc_elem (20, meta_enc m).
Proof. unfold MT. rewrite meta_len_ok. reflexivity. Qed.
Lemma ST_elem si : ST si = enc_elems (oel 22 (option_map si_enc si)).
Proof. unfold ST. apply (oenc_oel (fun s => tlv 22 (si_len s) (si_enc s)) si_enc). intros; rewrite si_len_ok; reflexivity. Qed.
Lemma CT_elem w : tl_enc 21 ++ tl_enc (wire_len w) ++ concat w = enc_elem (21, concat w).
Proof. rewrite wire_len_ok. reflexivity. Qed.
Lemma NT_cons nm : exists t, name_tlv nm = 7 :: t.
Proof. unfold name_tlv, tlv. rewrite (tl_enc_small 7) by lia. eexists. reflexivity. Qed.
Lemma len_MT m : tlv_len 20 (meta_len m) = blen (MT m).
Proof. unfold MT. rewrite meta_len_ok. apply tlv_len_ok. Qed.
Lemma len_ST si : osz (fun s => tlv_len 22 (si_len s)) si = blen (ST si).
Proof. unfold ST. apply osz_oenc. intros; rewrite si_len_ok; apply tlv_len_ok. Qed.
Lemma len_CH content : osz (fun c => tlv_len 21 (wire_len c)) content = blen (CH content) + blen (CB content).
Proof. destruct content as [w|]; cbn [osz CH CB]; [|reflexivity]. unfold tlv_len. rewrite blen_app, <- !tlsz_enc, <- wire_len_ok. lia. Qed.

Lemma content_elems content : CH content ++ CB content = enc_elems (oel 21 (option_map (@concat N) content)).
Proof. destruct content as [w|]; cbn [CH CB option_map oel]; [rewrite enc_elems_one, <- CT_elem, <- app_assoc|]; reflexivity. Qed.

Lemma V_unfold nm m content si sv :
  V_of nm m content si sv = name_tlv nm ++ MT m ++ CH content ++ CB content ++ ST si ++ enc_elems (oel 23 sv).
Proof.
  unfold V_of, data_elems. rewrite !enc_elems_app. rewrite <- content_elems, ST_elem.
  unfold enc_elems at 1. cbn [map concat]. rewrite <- name_tlv_elem, <- MT_elem. rewrite app_nil_r, <- !app_assoc. reflexivity.
Qed.
Lemma pre_unfold nm m content si :
  enc_elems (data_pre nm m (option_map (@concat N) content) si) = name_tlv nm ++ MT m ++ CH content ++ CB content ++ ST si.
Proof.
  unfold data_pre. rewrite !enc_elems_app. rewrite <- content_elems, ST_elem.
  unfold enc_elems at 1. cbn [map concat]. rewrite <- name_tlv_elem, <- MT_elem. rewrite app_nil_r, <- !app_assoc. reflexivity.
Qed.

Lemma plan_ok_intro pl bufs : pl = map (fun x : bool * bytes => if fst x then blen (snd x) else 0) bufs -> plan_ok pl bufs = true.
Proof. intros ->. unfold plan_ok. apply list_eqb_spec; [intros; apply N.eqb_eq|reflexivity]. Qed.
Lemma blen_pos_cons (b : bytes) x t : b = x :: t -> 0 < blen b.
Proof. intros ->. unfold blen. simpl. lia. Qed.
Lemma map_ext_len (w : list bytes) : map (fun x : bool * bytes => if fst x then blen (snd x) else 0) (map (pair false) w) = repeat 0 (length w).
Proof. induction w; simpl; congruence. Qed.
Lemma bufs_of_ext (w : list bytes) : bufs_of (map (pair false) w) = w.
Proof. unfold bufs_of. rewrite map_map. simpl. apply map_id. Qed.
Lemma blen_nil : blen [] = 0. Proof. reflexivity. Qed.

(* Init's total for the Data value equals the size of the bytes *)
Lemma data_len_ok nm m content si est :
  data_len (mkData (Some nm) (Some m) content si None) est =
  blen (name_tlv nm) + blen (MT m) + blen (CH content) + blen (CB content) + blen (ST si) + (if 0 <? est then tlv_len 23 est else 0).
Proof.
  unfold data_len. cbn [d_name d_meta d_content d_si osz]. rewrite name_tlv_len_ok, len_MT, len_ST, len_CH. lia.
Qed.

Ltac data_setup nm m content si est :=
  unfold data_plan, data_bufs; cbn [d_name d_meta d_content d_si osz oenc];
  fold (MT m); fold (ST si);
  unfold p_add, w_put; cbn [p_done p_l w_done w_cur]; rewrite ?app_nil_l, ?N.add_0_l.

Theorem make_data_unsigned sign nm cfg content sg si :
  data_siginfo sg = Ok (si, 0) ->
  let m := meta_of cfg in
  data_len (mkData (Some nm) (Some m) content si None) 0 < two64 ->
  exists W, make_data sign nm cfg content sg = Ok (mkEnc W [] nm) /\ concat W = enc_elem (6, V_of nm m content si None).
Proof.
  intros Hsi m Hb. unfold make_data. rewrite Hsi. cbn [bind]. fold (meta_of cfg). fold m.
  pose proof (data_len_ok nm m content si 0) as Hdl. change (0 <? 0) with false in Hdl. cbv iota in Hdl. rewrite N.add_0_r in Hdl.
  set (dl := data_len (mkData (Some nm) (Some m) content si None) 0) in *.
  destruct (NT_cons nm) as [nt Hnt].
  assert (Hdl0 : 0 < dl) by (rewrite Hdl; pose proof (blen_pos_cons _ 7 nt Hnt); lia).
  assert (HV : V_of nm m content si None = name_tlv nm ++ MT m ++ CH content ++ CB content ++ ST si).
  { rewrite V_unfold. cbn [oel]. replace (enc_elems []) with (@nil N) by reflexivity. rewrite app_nil_r. reflexivity. }
  assert (HdlV : dl = blen (V_of nm m content si None)) by (rewrite HV, Hdl, !blen_app; lia).
  clearbody dl. data_setup nm m content si 0. change (0 <? 0) with false. cbv iota.
  destruct content as [w|].
  - (* content present *)
    rewrite fold_pcut0 by reflexivity. rewrite fold_ext0 by reflexivity.
    unfold p_cut, w_cut. cbn [p_done p_l w_done w_cur app].
    rewrite ?N.add_0_l, ?app_nil_l.
    set (h := name_tlv_len nm + tlv_len 20 (meta_len m) + (1 + tlsz (wire_len w))).
    set (B0 := (name_tlv nm ++ MT m) ++ tl_enc 21 ++ tl_enc (wire_len w)).
    assert (Hh : h = blen B0).
    { unfold h, B0. rewrite !blen_app, name_tlv_len_ok, len_MT, <- !tlsz_enc. change (tlsz 21) with 1. lia. }
    unfold p_fin, w_fin. cbn [p_done p_l w_done w_cur]. rewrite len_ST.
    destruct (ST si) as [|s0 st0] eqn:Est.
    + change (0 <? blen []) with false. cbv iota. rewrite packet_plan_shape by exact Hdl0. cbn [bind packet_bufs].
      rewrite plan_ok_intro.
      2:{ cbn [map fst snd]. rewrite map_ext_len. f_equal. rewrite !blen_app, <- !tlsz_enc, Hh. change (tlsz 6) with 1. lia. }
      cbn [negb]. eexists. split; [reflexivity|].
      unfold bufs_of. cbn [map snd concat]. fold (bufs_of (map (pair false) w)). rewrite bufs_of_ext.
      rewrite HdlV. unfold enc_elem. cbn [fst snd]. rewrite HV. cbn [CH CB]. rewrite app_nil_r.
      unfold B0. rewrite <- !app_assoc. reflexivity.
    + replace (0 <? blen (s0 :: st0)) with true by (unfold blen; simpl; lia). cbv iota. cbn [app].
      rewrite packet_plan_shape by exact Hdl0. cbn [bind packet_bufs app].
      rewrite plan_ok_intro.
      2:{ cbn [map fst snd]. rewrite map_app, map_ext_len. cbn [map fst snd]. f_equal.
          rewrite !blen_app, <- !tlsz_enc, Hh. change (tlsz 6) with 1. lia. }
      cbn [negb]. eexists. split; [reflexivity|].
      unfold bufs_of. cbn [map snd]. rewrite map_app. cbn [map snd concat]. rewrite concat_app. cbn [concat].
      fold (bufs_of (map (pair false) w)). rewrite bufs_of_ext.
      rewrite HdlV. unfold enc_elem. cbn [fst snd]. rewrite HV. cbn [CH CB]. rewrite app_nil_r.
      unfold B0. rewrite <- !app_assoc. reflexivity.
  - (* no content *)
    unfold p_fin, w_fin. cbn [p_done p_l w_done w_cur].
    rewrite name_tlv_len_ok, len_MT, len_ST.
    replace (0 <? blen (name_tlv nm) + blen (MT m) + blen (ST si)) with true by (pose proof (blen_pos_cons _ 7 nt Hnt); lia).
    cbv iota.
    assert (Hlen : blen (name_tlv nm) + blen (MT m) + blen (ST si) = blen ((name_tlv nm ++ MT m) ++ ST si)) by (rewrite !blen_app; lia).
    rewrite Hlen.
    destruct ((name_tlv nm ++ MT m) ++ ST si) as [|b l] eqn:Ex; [rewrite Hnt in Ex; discriminate|].
    cbn [app]. rewrite packet_plan_shape by exact Hdl0. cbn [bind packet_bufs].
    rewrite plan_ok_intro.
    2:{ cbn [map fst snd]. f_equal. rewrite !blen_app, <- !tlsz_enc. change (tlsz 6) with 1. lia. }
    cbn [negb]. eexists. split; [reflexivity|].
    unfold bufs_of. cbn [map snd concat]. rewrite app_nil_r. rewrite <- Ex.
    rewrite HdlV. unfold enc_elem. cbn [fst snd]. rewrite HV. cbn [CH CB]. rewrite <- !app_assoc. reflexivity.
Qed.

(* ---------------------------------------------------------------- the signature slot *)
Lemma set_nth_app {A} (P : list A) x Q y : set_nth (P ++ x :: Q) (length P) y = Some (P ++ y :: Q).
Proof. induction P as [|p P IH]; simpl; [reflexivity|]. rewrite IH. reflexivity. Qed.
Lemma nth_error_app_len {A} (P : list A) x Q : nth_error (P ++ x :: Q) (length P) = Some x.
Proof. induction P; simpl; auto. Qed.

Lemma patch_shape (P : list bytes) (X sv : bytes) est :
  patch_sig_data (P ++ [X ++ tl_enc 23 ++ tl_enc est; []]) (S (length P)) sv est =
  Ok (P ++ [X ++ tl_enc 23 ++ tl_enc (blen sv); sv]).
Proof.
  unfold patch_sig_data.
  replace (P ++ [X ++ tl_enc 23 ++ tl_enc est; []]) with ((P ++ [X ++ tl_enc 23 ++ tl_enc est]) ++ [[]]) by (rewrite <- app_assoc; reflexivity).
  replace (S (length P)) with (length (P ++ [X ++ tl_enc 23 ++ tl_enc est])) by (rewrite app_length; simpl; lia).
  rewrite set_nth_app.
  rewrite <- app_assoc. cbn [app]. rewrite nth_error_app_len.
  replace (length (X ++ tl_enc 23 ++ tl_enc est) <? tl_len est)%nat with false
    by (symmetry; apply Nat.ltb_ge; rewrite !app_length, !tl_enc_length; lia).
  assert (Hf : firstn (length (X ++ tl_enc 23 ++ tl_enc est) - tl_len est) (X ++ tl_enc 23 ++ tl_enc est) = X ++ tl_enc 23).
  { rewrite app_assoc. rewrite app_length, tl_enc_length. replace (length (X ++ tl_enc 23) + tl_len est - tl_len est)%nat with (length (X ++ tl_enc 23)) by lia.
    rewrite firstn_app_le by lia. apply firstn_all. }
  rewrite Hf. rewrite set_nth_app. rewrite <- app_assoc. reflexivity.
Qed.

Lemma tlsz_mono a b : a <= b -> tlsz a <= tlsz b.
Proof. intros H. unfold tlsz. pose proof (tl_len_mono a b H). lia. Qed.

Theorem make_data_signed sign nm cfg content sg si est :
  data_siginfo sg = Ok (si, est) -> 0 < est ->
  let m := meta_of cfg in
  data_len (mkData (Some nm) (Some m) content si None) est < two64 ->
  exists COV, concat COV = enc_elems (data_pre nm m (option_map (@concat N) content) si) /\
    (sign COV = None -> make_data sign nm cfg content sg = Err) /\
    (forall sv, sign COV = Some sv -> est < blen sv -> make_data sign nm cfg content sg = Err) /\
    (forall sv, sign COV = Some sv -> blen sv <= est ->
       exists W, make_data sign nm cfg content sg = Ok (mkEnc W COV nm) /\ concat W = enc_elem (6, V_of nm m content si (Some sv))).
Proof.
  intros Hsi Hest m Hb. unfold make_data. rewrite Hsi. cbn [bind]. fold (meta_of cfg). fold m.
  pose proof (data_len_ok nm m content si est) as Hdl. replace (0 <? est) with true in Hdl by lia.
  set (dl := data_len (mkData (Some nm) (Some m) content si None) est) in *.
  destruct (NT_cons nm) as [nt Hnt].
  assert (Hdl0 : 0 < dl) by (rewrite Hdl; pose proof (blen_pos_cons _ 7 nt Hnt); lia).
  assert (Htl23 : tlv_len 23 est = 1 + tlsz est + est) by reflexivity.
  clearbody dl. data_setup nm m content si est. replace (0 <? est) with true by lia. cbv iota.
  set (SH := tl_enc 23 ++ tl_enc est).
  assert (HSH : blen SH = 1 + tlsz est) by (unfold SH; rewrite blen_app, <- !tlsz_enc; reflexivity).
  (* final accounting, shared by both shapes *)
  assert (Hfinal : forall sv, blen sv <= est ->
            let amt := est - blen sv + (N.of_nat (tl_len est) - N.of_nat (tl_len (blen sv))) in
            amt <= dl /\ dl - amt = blen (V_of nm m content si (Some sv))).
  { intros sv Hsv amt. pose proof (tlsz_mono _ _ Hsv) as Hm. unfold tlsz in Hm.
    rewrite V_unfold. cbn [oel]. rewrite enc_elems_one. unfold enc_elem. cbn [fst snd].
    rewrite !blen_app, <- !tlsz_enc. change (tlsz 23) with 1. fold (blen sv). unfold amt, tlsz in *. lia. }
  destruct content as [w|].
  - (* content present *)
    rewrite fold_pcut0 by reflexivity. rewrite fold_ext0 by reflexivity.
    unfold p_cut, w_cut, p_fin, w_fin. cbn [p_done p_l w_done w_cur app].
    rewrite ?N.add_0_l, ?app_nil_l. change (0 <? 0) with false. cbv iota.
    set (h := name_tlv_len nm + tlv_len 20 (meta_len m) + (1 + tlsz (wire_len w))).
    set (B0 := (name_tlv nm ++ MT m) ++ tl_enc 21 ++ tl_enc (wire_len w)).
    assert (Hh : h = blen B0).
    { unfold h, B0. rewrite !blen_app, name_tlv_len_ok, len_MT, <- !tlsz_enc. change (tlsz 21) with 1. lia. }
    rewrite len_ST. rewrite <- !app_assoc. cbn [app].
    rewrite packet_plan_shape by exact Hdl0. cbn [bind packet_bufs app].
    rewrite plan_ok_intro.
    2:{ cbn [map fst snd]. rewrite map_app, map_ext_len. cbn [map fst snd]. f_equal.
        - rewrite !blen_app, <- !tlsz_enc, Hh. change (tlsz 6) with 1. lia.
        - f_equal. rewrite blen_app, HSH. reflexivity. }
    cbn [negb].
    (* covered ranges *)
    unfold cover. cbn [w_done w_cur bufs_of map snd length]. fold (bufs_of (map (pair false) w)). rewrite bufs_of_ext.
    cbn [Nat.eqb nth skipn].
    rewrite firstn_app_le by lia. rewrite firstn_all.
    match goal with |- context[sign ?cv] => exists cv end. split.
    { rewrite !concat_app. cbn [concat]. rewrite !app_nil_r. rewrite pre_unfold. cbn [CH CB].
      unfold B0. rewrite <- !app_assoc. reflexivity. }
    split; [intros Hs; rewrite Hs; reflexivity|].
    split; [intros sv Hs Hlt; rewrite Hs; replace (est <? blen sv) with true by lia; reflexivity|].
    intros sv Hs Hsv. rewrite Hs. replace (est <? blen sv) with false by lia.
    unfold bufs_of. cbn [map snd]. rewrite map_app. cbn [map snd]. fold (bufs_of (map (pair false) w)). rewrite bufs_of_ext.
    set (P := ((tl_enc 6 ++ tl_enc dl) ++ B0) :: w).
    match goal with |- context[patch_sig_data ?wr ?ix sv est] =>
      replace ix with (S (length P)) by (rewrite app_length, repeat_length; unfold P; cbn [length]; unfold bytes, byte in *; lia);
      change wr with (P ++ [ST si ++ tl_enc 23 ++ tl_enc est; []]) end.
    rewrite patch_shape. unfold P. cbn [bind app].
    destruct (Hfinal sv Hsv) as [Hamt Hnew].
    rewrite <- !app_assoc. rewrite shrink_length_hdr by (try lia; unfold two64 in *; lia). cbn [bind].
    eexists. split; [reflexivity|].
    cbn [concat]. rewrite concat_app. cbn [concat]. rewrite app_nil_r.
    rewrite Hnew. unfold enc_elem. cbn [fst snd]. rewrite V_unfold. cbn [oel CH CB]. rewrite enc_elems_one. unfold enc_elem. cbn [fst snd].
    unfold B0. rewrite <- !app_assoc. reflexivity.
  - (* no content *)
    unfold p_cut, w_cut, p_fin, w_fin. cbn [p_done p_l w_done w_cur app].
    change (0 <? 0) with false. cbv iota.
    rewrite name_tlv_len_ok, len_MT, len_ST.
    rewrite packet_plan_shape by exact Hdl0. cbn [bind packet_bufs app].
    rewrite plan_ok_intro.
    2:{ cbn [map fst snd]. f_equal. rewrite !blen_app, HSH, <- !tlsz_enc. change (tlsz 6) with 1. lia. }
    cbn [negb].
    unfold cover. cbn [w_done w_cur bufs_of map snd length Nat.eqb skipn]. rewrite Nat.sub_0_r.
    rewrite firstn_app_le by lia. rewrite firstn_all.
    match goal with |- context[sign ?cv] => exists cv end. split.
    { cbn [concat]. rewrite app_nil_r, pre_unfold. cbn [CH CB]. rewrite <- !app_assoc. reflexivity. }
    split; [intros Hs; rewrite Hs; reflexivity|].
    split; [intros sv Hs Hlt; rewrite Hs; replace (est <? blen sv) with true by lia; reflexivity|].
    intros sv Hs Hsv. rewrite Hs. replace (est <? blen sv) with false by lia.
    unfold bufs_of. cbn [map snd length].
    match goal with |- context[patch_sig_data ?wr ?ix sv est] =>
      change ix with (S (@length (list N) []));
      replace wr with ([] ++ [(tl_enc 6 ++ tl_enc dl ++ (name_tlv nm ++ MT m) ++ ST si) ++ tl_enc 23 ++ tl_enc est; []])
        by (unfold SH; cbn [app]; rewrite <- !app_assoc; reflexivity) end.
    rewrite patch_shape. cbn [bind app].
    destruct (Hfinal sv Hsv) as [Hamt Hnew].
    rewrite <- !app_assoc. rewrite shrink_length_hdr by (try lia; unfold two64 in *; lia). cbn [bind].
    eexists. split; [reflexivity|].
    cbn [concat]. rewrite app_nil_r.
    rewrite Hnew. unfold enc_elem. cbn [fst snd]. rewrite V_unfold. cbn [oel CH CB]. rewrite enc_elems_one. unfold enc_elem. cbn [fst snd].
    rewrite <- !app_assoc. reflexivity.
Qed.
