(* Packet/Readers.v — executable model of std/encoding/readers.go (BufferReader, WireReader) and of the
   primitives built on them (ReadTLNum, io.ReadFull / io.CopyN through Read).  No proofs here.

   Conventions
   * a reader is a value; every operation returns the new reader (Go mutates the receiver);
   * `res` has three outcomes: Ok, Err (any Go error: io.EOF, io.ErrUnexpectedEOF, ErrFailToParse... — callers in
     spec_2022 never distinguish them) and Panic (a Go run-time panic: index/slice out of range);
   * lengths handed to the readers are Go `int`s: modelled in Z, obtained from a TLNum (uint64) by `to_int`
     (two's complement, so a length >= 2^63 is negative exactly as in Go);
   * positions are `nat` (they are bounded by the amount of data actually held).
   The model follows the code after the fix commits d0b51ff (nextSeg loops), e5bf9a7 (ReadBuf at the end), c461d73 (Range),
   ec647a9 / 7161179 (BufferReader lengths, Skip) and 0b7ba2c (WireReader rejects l < 0 and l > Length()-Pos() up front). *)
From Base Require Export VarNum.
From Coq Require Import ZifyBool ZifyN ZifyNat.
Open Scope N_scope.

Inductive res (A : Type) := Ok (a : A) | Err | Panic.
Arguments Ok {A}. Arguments Err {A}. Arguments Panic {A}.

Definition bind {A B} (x : res A) (f : A -> res B) : res B :=
  match x with Ok a => f a | Err => Err | Panic => Panic end.
Notation "'do' p <- x ; f" := (bind x (fun p => f)) (at level 200, p pattern, x at level 100, f at level 200).

Definition two63z : Z := 9223372036854775808%Z.
Definition two64z : Z := 18446744073709551616%Z.
(* int(l) for l : TLNum *)
Definition to_int (l : N) : Z :=
  if l <? 9223372036854775808 then Z.of_N l else (Z.of_N (l mod two64) - two64z)%Z.
(* Go int arithmetic wraps *)
Definition wrap_int (z : Z) : Z := (((z + two63z) mod two64z) - two63z)%Z.

Inductive reader :=
| BR (buf : bytes) (pos : nat)
| WR (wire : list bytes) (seg pos : nat).

(* accSz[i] : total length of the first i segments *)
Fixpoint acc_sz (wire : list bytes) (i : nat) : nat :=
  match i, wire with
  | S i', s :: tl => (length s + acc_sz tl i')%nat
  | _, _ => 0%nat
  end.

Definition new_wire_reader (w : list bytes) : reader := WR w 0 0.

Definition rd_pos (r : reader) : nat :=
  match r with BR _ p => p | WR w s p => (p + acc_sz w s)%nat end.
Definition rd_len (r : reader) : nat :=
  match r with BR b _ => length b | WR w _ _ => acc_sz w (length w) end.

(* nextSeg: for r.seg < len(r.wire) && r.pos >= len(r.wire[r.seg]) { r.seg++; r.pos = 0 } *)
Fixpoint next_seg_aux (segs : list bytes) (seg pos : nat) : nat * nat :=
  match segs with
  | [] => (seg, pos)
  | s :: tl => if (length s <=? pos)%nat then next_seg_aux tl (S seg) 0 else (seg, pos)
  end.
Definition next_seg (w : list bytes) (seg pos : nat) : nat * nat := next_seg_aux (skipn seg w) seg pos.

(* ReadByte *)
Definition read_byte (r : reader) : res (N * reader) :=
  match r with
  | BR b p => match nth_error b p with Some x => Ok (x, BR b (S p)) | None => Err end
  | WR w s p =>
      let '(s1, p1) := next_seg w s p in
      match nth_error w s1 with
      | None => Err
      | Some sg => match nth_error sg p1 with Some x => Ok (x, WR w s1 (S p1)) | None => Panic end
      end
  end.

(* ReadTLNum *)
Fixpoint read_be (k : nat) (acc : N) (r : reader) : res (N * reader) :=
  match k with
  | O => Ok (acc, r)
  | S k' => do (x, r') <- read_byte r; read_be k' (acc * 256 + x) r'
  end.
Definition read_tlnum (r : reader) : res (N * reader) :=
  do (x, r1) <- read_byte r;
  if x <=? 252 then Ok (x, r1)
  else read_be (if x =? 253 then 2 else if x =? 254 then 4 else 8) 0 r1.

(* n successive ReadByte calls (the loops generated for natural / fixedUint / time fields) *)
Fixpoint read_bytes_n (n : nat) (r : reader) : res (bytes * reader) :=
  match n with
  | O => Ok ([], r)
  | S n' => do (x, r1) <- read_byte r; do (l, r2) <- read_bytes_n n' r1; Ok (x :: l, r2)
  end.

(* the slicing loop shared by WireReader.ReadWire and the copying path of WireReader.ReadBuf:
     for l > 0 { if seg >= len -> ErrUnexpectedEOF
                 if pos+l > len(wire[seg]) { take wire[seg][pos:]; l -= len-pos; seg++; pos = 0 }
                 else { take wire[seg][pos:pos+l]; pos += l; l = 0 } }                                     *)
Fixpoint rw_loop (segs : list bytes) (seg pos : nat) (l : Z) (acc : list bytes) : res (list bytes * nat * nat) :=
  match segs with
  | [] => if (l <=? 0)%Z then Ok (rev acc, seg, pos) else Err
  | sg :: tl =>
      if (l <=? 0)%Z then Ok (rev acc, seg, pos)
      else if (length sg <? pos)%nat then Panic
      else if (Z.of_nat (length sg) <? Z.of_nat pos + l)%Z
           then rw_loop tl (S seg) 0 (l - (Z.of_nat (length sg) - Z.of_nat pos))%Z (skipn pos sg :: acc)
           else Ok (rev (firstn (Z.to_nat l) (skipn pos sg) :: acc), seg, (pos + Z.to_nat l)%nat)
  end.

(* ReadWire *)
Definition read_wire (r : reader) (l : Z) : res (list bytes * reader) :=
  match r with
  | BR b p =>
      if ((length b <=? p)%nat && (0 <? l)%Z)%bool then Err
      else if ((l <? 0)%Z || (Z.of_nat (length b - p) <? l)%Z)%bool then Err
      else Ok ([firstn (Z.to_nat l) (skipn p b)], BR b (p + Z.to_nat l))
  | WR w s p =>
      let '(s1, p1) := next_seg w s p in
      if ((length w <=? s1)%nat && (0 <? l)%Z)%bool then Err
      else if ((l <? 0)%Z || (Z.of_nat (acc_sz w (length w)) - Z.of_nat (p1 + acc_sz w s1) <? l)%Z)%bool then Err
      else do (ws, s2, p2) <- rw_loop (skipn s1 w) s1 p1 l []; Ok (ws, WR w s2 p2)
  end.

(* ReadBuf *)
Definition read_buf (r : reader) (l : Z) : res (bytes * reader) :=
  match r with
  | BR b p =>
      if ((l <? 0)%Z || (Z.of_nat (length b - p) <? l)%Z)%bool then Err
      else Ok (firstn (Z.to_nat l) (skipn p b), BR b (p + Z.to_nat l))
  | WR w s p =>
      if ((l <? 0)%Z || (Z.of_nat (acc_sz w (length w)) - Z.of_nat (p + acc_sz w s) <? l)%Z)%bool then Err else
      let '(s1, p1) := next_seg w s p in
      match nth_error w s1 with
      | None => if (l =? 0)%Z then Ok ([], WR w s1 p1) else Err
      | Some sg =>
          if (Z.of_nat p1 + l <=? Z.of_nat (length sg))%Z then
            if (length sg <? p1)%nat then Panic
            else Ok (firstn (Z.to_nat l) (skipn p1 sg), WR w s1 (p1 + Z.to_nat l))
          else do (ws, s2, p2) <- rw_loop (skipn s1 w) s1 p1 l []; Ok (concat ws, WR w s2 p2)
      end
  end.

(* Skip.  WireReader, after the up-front checks:  r.pos += n; for r.seg < len(r.wire) && r.pos > len(r.wire[r.seg]) { r.pos -= len; r.seg++ } *)
Fixpoint skip_loop (segs : list bytes) (seg : nat) (pos : Z) : nat * Z :=
  match segs with
  | [] => (seg, pos)
  | sg :: tl => if (Z.of_nat (length sg) <? pos)%Z then skip_loop tl (S seg) (pos - Z.of_nat (length sg))%Z else (seg, pos)
  end.
Definition rd_skip (r : reader) (n : Z) : res reader :=
  match r with
  | BR b p =>
      if (n <? 0)%Z then Err else if (Z.of_nat (length b - p) <? n)%Z then Err else Ok (BR b (p + Z.to_nat n))
  | WR w s p =>
      if (n <? 0)%Z then Err
      else if (Z.of_nat (acc_sz w (length w)) - Z.of_nat (p + acc_sz w s) <? n)%Z then Err
      else let '(s1, p1) := skip_loop (skipn s w) s (Z.of_nat p + n)%Z in Ok (WR w s1 (Z.to_nat p1))
  end.

(* Range(start, end): None is Go's nil Wire *)
Fixpoint find_start (segs : list bytes) (i acc start : nat) : option (nat * nat) :=
  match segs with
  | [] => None
  | sg :: tl => if ((acc <=? start) && (start <? acc + length sg))%nat%bool then Some (i, (start - acc)%nat)
                else find_start tl (S i) (acc + length sg)%nat start
  end.
Fixpoint find_end (segs : list bytes) (i acc e : nat) : option (nat * nat) :=
  match segs with
  | [] => None
  | sg :: tl => if ((acc <? e) && (e <=? acc + length sg))%nat%bool then Some (i, (e - acc)%nat)
                else find_end tl (S i) (acc + length sg)%nat e
  end.
Definition rd_range (r : reader) (a b : Z) : option (list bytes) :=
  match r with
  | BR buf _ =>
      if ((a <? 0)%Z || (Z.of_nat (length buf) <? b)%Z || (b <? a)%Z)%bool then None
      else Some [firstn (Z.to_nat b - Z.to_nat a) (skipn (Z.to_nat a) buf)]
  | WR w _ _ =>
      if ((a <? 0)%Z || (Z.of_nat (acc_sz w (length w)) <? b)%Z || (b <? a)%Z)%bool then None
      else if (a =? b)%Z then Some [[]]
      else
        let '(ss, sp) := match find_start w 0 0 (Z.to_nat a) with Some x => x | None => (0%nat, 0%nat) end in
        let '(es, ep) := match find_end w 0 0 (Z.to_nat b) with Some x => x | None => (0%nat, 0%nat) end in
        if (ss =? es)%nat then Some [firstn (ep - sp) (skipn sp (nth ss w []))]
        else Some ([skipn sp (nth ss w [])] ++ firstn (es - ss - 1) (skipn (S ss) w) ++ [firstn ep (nth es w [])])
  end.

(* Delegate(l): returns (sub-reader, receiver afterwards) *)
Definition delegate (r : reader) (l : Z) : res (reader * reader) :=
  match r with
  | BR b p =>
      if ((l <? 0)%Z || (Z.of_nat (length b - p) <? l)%Z)%bool then Ok (BR [] 0, r)
      else Ok (BR (firstn (Z.to_nat l) (skipn p b)) 0, BR b (p + Z.to_nat l))
  | WR w s p =>
      match nth_error w s with
      | None => Ok (BR [] 0, r)
      | Some sg =>
          if ((l <? 0)%Z || (Z.of_nat (acc_sz w (length w)) - Z.of_nat (p + acc_sz w s) <? l)%Z)%bool then Ok (BR [] 0, r)
          else if (Z.of_nat p + l <=? Z.of_nat (length sg))%Z then
            if (length sg <? p)%nat then Panic
            else Ok (BR (firstn (Z.to_nat l) (skipn p sg)) 0, WR w s (p + Z.to_nat l))
          else
            (* for r.pos > len(r.wire[r.seg]) { r.pos -= len; r.seg++; if r.seg >= len(r.wire) { return empty } } *)
            let '(s1, p1z) := skip_loop (skipn s w) s (Z.of_nat p + l)%Z in
            let p1 := Z.to_nat p1z in
            match nth_error w s1 with
            | None => Ok (BR [] 0, WR w s1 p1)
            | Some sg1 =>
                if (p1 =? length sg1)%nat then Ok (WR (firstn (S s1) w) s p, WR w s1 p1)
                else
                  let nw := firstn (S s1 - s) (skipn s w) in
                  let nw1 := match nw with [] => [] | x :: tl => skipn p x :: tl end in
                  let nw2 := match rev nw1 with [] => [] | y :: pre => rev (firstn p1 y :: pre) end in
                  Ok (new_wire_reader nw2, WR w s1 p1)
            end
      end
  end.

(* io.ReadFull(reader, make([]byte, l)) and io.CopyN(&builder, reader, int64(l)): both drain exactly l bytes through
   Read, or fail.  (The allocation make([]byte, l) itself is not modelled: property C04.) *)
Definition rd_remaining (r : reader) : nat := (rd_len r - rd_pos r)%nat.
Definition read_full (r : reader) (l : N) : res (bytes * reader) :=
  if N.of_nat (rd_remaining r) <? l then Err else read_bytes_n (N.to_nat l) r.
Definition copy_n (r : reader) (l : N) : res (bytes * reader) :=
  if (to_int l <? 0)%Z then Ok ([], r) else read_full r l.

(* the loops `for i := 0; i < int(l); i++ { x, err = reader.ReadByte() ... v = v<<8 | x }` of natural, time and fixedUint fields;
   `modulus` is 2^64 (uint64) or 2^32 (uint32) *)
Definition fold_uint (modulus : N) (l : bytes) : N := fold_left (fun v x => (v * 256 + x) mod modulus) l 0.
Definition read_uint (modulus : N) (r : reader) (l : N) : res (N * reader) :=
  let li := to_int l in
  if (li <=? 0)%Z then Ok (0, r)
  else if (Z.of_nat (rd_remaining r) <? li)%Z then Err
  else do (bs, r') <- read_bytes_n (Z.to_nat li) r; Ok (fold_uint modulus bs, r').
