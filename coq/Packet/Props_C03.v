(* Property C03 — Interest and Data packets survive encode->decode unchanged for all field values.
   Only theorem statements closed by `exact`, each followed by Print Assumptions. *)
From Packet Require Import Model Spec EncProofs.
From Names Require Import Order.
Open Scope N_scope.

(* The standalone name encoder (Name.Bytes) produces the bytes the packet encoder writes for the same name, and decoding
   them (NameFromBytes) returns the name it was given. *)
Theorem name_bytes_agree : forall n, name_tlv n = name_bytes n /\ (name_wf n -> name_from_bytes (name_tlv n) = Some n).
Proof. exact (fun n => conj (name_tlv_bytes n) (fun H => eq_ind_r (fun b => name_from_bytes b = Some n) (name_from_bytes_enc n H) (name_tlv_bytes n))). Qed.
Print Assumptions name_bytes_agree.

Example c03_example :
  name_wf [mkc 8 (repeat 65 253)] /\ length (name_tlv [mkc 8 (repeat 65 253)]) = 261%nat.
Proof. split; [split; [repeat constructor; vm_compute; reflexivity|vm_compute; reflexivity]|vm_compute; reflexivity]. Qed.
