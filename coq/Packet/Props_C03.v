(* Property C03 — Interest and Data packets survive encode->decode unchanged for all field values.
   Only theorem statements closed by `exact`, each followed by Print Assumptions. *)
From Packet Require Import Model Spec ReadersProofs EncProofs DecGeneric DecProofs DecData DecInterest EncData EncInterest Roundtrip Walker.
From Names Require Import Order.
Open Scope N_scope.
Arguments ROk {A}.

(* Data.  For every name, every subset of MetaInfo fields, content supplied as any list of buffers and every signer
   (abstract: `sign` is an arbitrary function; data_siginfo is the SignatureInfo the API derives from the signer's
   configuration, est its EstimateSize): if MakeData returns a wire, then through ANY reader that ranges over the joined
   bytes — a BufferReader, or a WireReader over any segmentation — ReadData returns exactly the name, MetaInfo, content,
   SignatureInfo and signature value that went in, and the covered bytes it reports are those handed to the signer.
   Hypotheses: component/key-name sizes below 2^63 and types below 2^64 (name_ok, signer_ok), ContentType < 2^64 and
   FreshnessPeriod a whole number of milliseconds (meta_wf), total size within a Go int (data_fits). *)
Theorem data_roundtrip : forall sign nm cfg content sg si est e,
  data_siginfo sg = Ok (si, est) -> name_ok nm -> meta_wf (meta_of cfg) -> signer_ok sg -> data_fits nm cfg content si est ->
  make_data sign nm cfg content sg = Ok e ->
  exists sv, (est = 0 -> sv = None) /\ (0 < est -> sign (e_cov e) = sv /\ exists s, sv = Some s /\ blen s <= est) /\
    concat (e_wire e) = enc_elem (6, V_of nm (meta_of cfg) content si sv) /\
    forall r, View r (concat (e_wire e)) 0 ->
      exists d cov, read_data r = ROk d cov /\ obs_data d = expected_data nm cfg content sg sv /\ concat cov = concat (e_cov e).
Proof. exact data_roundtrip_thm. Qed.
Print Assumptions data_roundtrip.

(* Decoding a WireReader over any split of the bytes = decoding a BufferReader over their concatenation (Data). *)
Theorem segmentation_irrelevant_data : forall sign nm cfg content sg si est e,
  data_siginfo sg = Ok (si, est) -> name_ok nm -> meta_wf (meta_of cfg) -> signer_ok sg -> data_fits nm cfg content si est ->
  make_data sign nm cfg content sg = Ok e ->
  exists sv, forall segs, concat segs = concat (e_wire e) ->
    exists d1 c1 d2 c2,
      read_data (BR (concat segs) 0) = ROk d1 c1 /\ read_data (new_wire_reader segs) = ROk d2 c2 /\
      obs_data d1 = expected_data nm cfg content sg sv /\ obs_data d2 = expected_data nm cfg content sg sv /\
      concat c1 = concat (e_cov e) /\ concat c2 = concat (e_cov e).
Proof. exact data_any_reader. Qed.
Print Assumptions segmentation_irrelevant_data.

(* Interest.  For every name (a trailing ParametersSha256Digest component is managed by the API: `strip_digest`), every
   subset of CanBePrefix/MustBeFresh/ForwardingHint/Nonce/Lifetime/HopLimit, parameters as any list of buffers (or none),
   every signer admitted by MakeInterest (estimate < 253): if MakeInterest returns a wire then, through any reader over the
   joined bytes, ReadInterest returns exactly the final name, fields, parameters, SignatureInfo and signature value; with
   parameters the final name ends in the SHA-256 of the parameters element and everything after it (sha256 is an arbitrary
   32-byte-valued function); for a signed Interest the covered bytes reported by the parser are those handed to the signer.
   Additional hypotheses: forwarding-hint names well formed (always true of Go values), lifetime and signature time a whole
   number of milliseconds within int64 nanoseconds.  (That a name without parameters carries no ParametersSha256Digest
   component is no longer a hypothesis: MakeInterest refuses such a name, commit 4e73136.) *)
Theorem interest_roundtrip : forall (sha256 : bytes -> bytes), (forall x, length (sha256 x) = 32%nat) ->
  forall sign nm cfg app sg si est e,
  let need := match app with Some _ => true | None => false end in
  let pre := strip_digest nm in
  let nm1 := if need then pre ++ [mkc 2 zeros32] else pre in
  int_siginfo sg need = Ok (si, est) -> name_ok pre ->
  iconfig_ok cfg -> signer_ok sg -> signer_int_ok sg -> int_fits nm1 cfg app si est ->
  make_interest sha256 sign nm cfg app sg = Ok e ->
  exists svo, (est = 0 -> svo = None) /\ (0 < est -> sign (e_cov e) = svo /\ exists s, svo = Some s /\ blen s <= est) /\
    e_final e = (if need then pre ++ [mkc 2 (sha256 (enc_elems (int_tail_elems (option_map (@concat N) app) si svo)))] else pre) /\
    concat (e_wire e) = enc_elem (5, IV (e_final e) cfg app si svo) /\
    forall r, View r (concat (e_wire e)) 0 ->
      exists i cov, read_interest sha256 r = ROk i cov /\ obs_int i = expected_int (e_final e) cfg app sg svo /\
                    (0 < est -> concat cov = concat (e_cov e)).
Proof. exact interest_roundtrip_thm. Qed.
Print Assumptions interest_roundtrip.

(* Domain of FreshnessPeriod / InterestLifetime / SignatureTime in the two theorems above: every whole number of
   milliseconds of either sign within int64 nanoseconds (0, 4000, 2^32, 9223372036854 ms, negative ones).  Nonce and
   HopLimit carry no hypothesis (the observation is the value mod 2^32 / mod 256). *)
Theorem durations_whole_ms_in_domain : forall ms : Z, (-9223372036854 <= ms <= 9223372036854)%Z -> dur_wf (ms * 1000000).
Proof. exact dur_wf_whole_ms. Qed.
Print Assumptions durations_whole_ms_in_domain.

(* Every packet built through the API is a well-formed NDN TLV whose every length field is exact: the independent
   structural walker (Model.walk_packet: uses tl_dec only, recurses into Name, MetaInfo, FinalBlockId, SignatureInfo,
   KeyLocator, ValidityPeriod, ForwardingHint) accepts the joined wire, which is a single top-level element. *)
Theorem packet_tlv_exact_data : forall sign nm cfg content sg si est e,
  data_siginfo sg = Ok (si, est) -> name_ok nm -> meta_wf (meta_of cfg) -> fbid_ok cfg -> signer_ok sg -> data_fits nm cfg content si est ->
  make_data sign nm cfg content sg = Ok e -> walk_packet (concat (e_wire e)) = true.
Proof. exact packet_tlv_exact_data_thm. Qed.
Print Assumptions packet_tlv_exact_data.

Theorem packet_tlv_exact_interest : forall (sha256 : bytes -> bytes), (forall x, length (sha256 x) = 32%nat) ->
  forall sign nm cfg app sg si est e,
  let need := match app with Some _ => true | None => false end in
  let pre := strip_digest nm in
  let nm1 := if need then pre ++ [mkc 2 zeros32] else pre in
  int_siginfo sg need = Ok (si, est) -> name_ok pre ->
  iconfig_ok cfg -> signer_ok sg -> signer_int_ok sg -> int_fits nm1 cfg app si est ->
  make_interest sha256 sign nm cfg app sg = Ok e -> walk_packet (concat (e_wire e)) = true.
Proof. exact packet_tlv_exact_interest_thm. Qed.
Print Assumptions packet_tlv_exact_interest.

Theorem segmentation_irrelevant_interest : forall (sha256 : bytes -> bytes), (forall x, length (sha256 x) = 32%nat) ->
  forall sign nm cfg app sg si est e,
  let need := match app with Some _ => true | None => false end in
  let pre := strip_digest nm in
  let nm1 := if need then pre ++ [mkc 2 zeros32] else pre in
  int_siginfo sg need = Ok (si, est) -> name_ok pre ->
  iconfig_ok cfg -> signer_ok sg -> signer_int_ok sg -> int_fits nm1 cfg app si est ->
  make_interest sha256 sign nm cfg app sg = Ok e ->
  exists svo, forall segs, concat segs = concat (e_wire e) ->
    exists i1 c1 i2 c2,
      read_interest sha256 (BR (concat segs) 0) = ROk i1 c1 /\ read_interest sha256 (new_wire_reader segs) = ROk i2 c2 /\
      obs_int i1 = expected_int (e_final e) cfg app sg svo /\ obs_int i2 = expected_int (e_final e) cfg app sg svo /\
      (0 < est -> concat c1 = concat (e_cov e) /\ concat c2 = concat (e_cov e)).
Proof. exact interest_any_reader. Qed.
Print Assumptions segmentation_irrelevant_interest.

(* The reader refinement itself: every view of a reader kind is a view (used above for both). *)
Theorem readers_view : forall (b : bytes) (segs : list bytes),
  View (BR b 0) b 0 /\ View (new_wire_reader segs) (concat segs) 0.
Proof. exact (fun b segs => conj (view_br b 0 (Nat.le_0_l _)) (view_wr_start segs)). Qed.
Print Assumptions readers_view.

(* The standalone name encoder (Name.Bytes) produces the bytes the packet encoder writes for the same name, and decoding
   them (NameFromBytes) returns the name it was given. *)
Theorem name_bytes_agree : forall n, name_tlv n = name_bytes n /\ (name_wf n -> name_from_bytes (name_tlv n) = Some n).
Proof. exact (fun n => conj (name_tlv_bytes n) (fun H => eq_ind_r (fun b => name_from_bytes b = Some n) (name_from_bytes_enc n H) (name_tlv_bytes n))). Qed.
Print Assumptions name_bytes_agree.

(* ... and the standalone component encoder: ComponentFromBytes (Component.Bytes c) = c *)
Theorem comp_bytes_roundtrip : forall c, comp_wf c -> comp_from_bytes (comp_enc c) = Some c.
Proof. exact comp_from_bytes_enc. Qed.
Print Assumptions comp_bytes_roundtrip.

(* non-vacuity: a signed Data with a 253-byte component, content in two buffers (one empty), decoded from a 4-way split
   whose first segment holds only the outer T and L *)
Example c03_example :
  let nm := [mkc 8 (repeat 65 253)] in
  let sg := Some (mkSigner 0 None None None None None None 32) in
  match make_data (fun _ => Some (repeat 7 32)) nm (mkDC (Some 0) (Some 4000000000%Z) None) (Some [[1;2]; []]) sg with
  | Ok e => match read_data (new_wire_reader [firstn 4 (concat (e_wire e)); firstn 100 (skipn 4 (concat (e_wire e))); [];
                                              skipn 104 (concat (e_wire e))]) with
            | ROk d cov => (do_content (obs_data d) = Some [1;2]) /\ do_sv (obs_data d) = Some (repeat 7 32) /\ concat cov = concat (e_cov e)
            | _ => False end
  | _ => False end.
Proof. vm_compute. repeat split; reflexivity. Qed.
