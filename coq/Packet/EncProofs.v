(* Packet/EncProofs.v — the sizes computed by Init equal the sizes of the bytes written by EncodeInto. *)
From Packet Require Import Model Spec.
From Coq Require Import ZifyBool ZifyN ZifyNat.
Open Scope N_scope.

Lemma tlsz_enc n : tlsz n = blen (tl_enc n).
Proof. unfold tlsz, blen. rewrite tl_enc_length. reflexivity. Qed.

Lemma blen_app a b : blen (a ++ b) = blen a + blen b.
Proof. unfold blen. rewrite app_length. lia. Qed.

Lemma comp_len_enc c : comp_len c = blen (comp_enc c).
Proof. unfold comp_len, comp_enc. rewrite !blen_app, !tlsz_enc. unfold blen. lia. Qed.

Lemma name_len_inner n : name_len n = blen (name_inner n).
Proof.
  induction n as [|c n IH]; [reflexivity|].
  unfold name_inner in *. cbn [name_len map concat]. rewrite blen_app, IH, comp_len_enc. reflexivity.
Qed.

From Names Require Import Order.
Lemma comp_from_bytes_enc c : comp_wf c -> comp_from_bytes (comp_enc c) = Some c.
Proof. intros H. unfold comp_from_bytes. rewrite <- (app_nil_r (comp_enc c)). rewrite read_comp_enc by exact H. reflexivity. Qed.

(* the packet encoder writes a name exactly as Name.Bytes() does *)
Lemma name_tlv_bytes n : name_tlv n = name_bytes n.
Proof. unfold name_tlv, tlv, name_bytes. rewrite name_len_inner. reflexivity. Qed.

(* ---------------------------------------------------------------- every Init size equals the size of the bytes EncodeInto writes *)
Lemma nat_enc_len x : blen (nat_enc x) = N.of_nat (nat_len x).
Proof. unfold blen. rewrite nat_enc_length. reflexivity. Qed.
Lemma nat_len_small x : (N.of_nat (nat_len x) <= 8)%N.
Proof. unfold nat_len. repeat match goal with |- context[if ?c then _ else _] => destruct c end; simpl; lia. Qed.
Lemma tl_enc_small n : (n <= 252)%N -> tl_enc n = [n].
Proof. intros H. unfold tl_enc. replace (n <=? 252)%N with true by lia. reflexivity. Qed.

Lemma tlv_len_ok t v : tlv_len t (blen v) = blen (tlv t (blen v) v).
Proof. unfold tlv_len, tlv. rewrite !blen_app, !tlsz_enc. lia. Qed.
Lemma bin_tlv_len_ok t b : bin_tlv_len t b = blen (bin_tlv t b).
Proof. apply tlv_len_ok. Qed.
Lemma nat_tlv_len_ok t x : nat_tlv_len t x = blen (nat_tlv t x).
Proof. unfold nat_tlv_len, nat_tlv, natsz. rewrite !blen_app, tlsz_enc, nat_enc_len. unfold blen. simpl. lia. Qed.
Lemma name_tlv_len_ok n : name_tlv_len n = blen (name_tlv n).
Proof. unfold name_tlv_len, name_tlv. rewrite name_len_inner. apply tlv_len_ok. Qed.

Lemma osz_oenc {A} (fl : A -> N) (fe : A -> bytes) o : (forall a, fl a = blen (fe a)) -> osz fl o = blen (oenc fe o).
Proof. intros H. destruct o; simpl; [apply H|reflexivity]. Qed.

Lemma kl_len_ok k : kl_len k = blen (kl_enc k).
Proof. unfold kl_len, kl_enc. rewrite blen_app. f_equal; apply osz_oenc; intros; [apply name_tlv_len_ok|apply bin_tlv_len_ok]. Qed.
Lemma vp_len_ok v : vp_len v = blen (vp_enc v).
Proof. unfold vp_len, vp_enc. rewrite blen_app, !bin_tlv_len_ok. reflexivity. Qed.
Lemma si_len_ok s : si_len s = blen (si_enc s).
Proof.
  unfold si_len, si_enc. rewrite !blen_app, nat_tlv_len_ok.
  rewrite (osz_oenc _ (fun k => tlv 28 (kl_len k) (kl_enc k))) by (intros; rewrite kl_len_ok; apply tlv_len_ok).
  rewrite (osz_oenc _ (bin_tlv 38)) by (intros; apply bin_tlv_len_ok).
  rewrite (osz_oenc _ (fun t => nat_tlv 40 (ms_of t))) by (intros; apply nat_tlv_len_ok).
  rewrite (osz_oenc _ (nat_tlv 42)) by (intros; apply nat_tlv_len_ok).
  rewrite (osz_oenc _ (fun v => tlv 253 (vp_len v) (vp_enc v))) by (intros; rewrite vp_len_ok; apply tlv_len_ok).
  lia.
Qed.
Lemma meta_len_ok m : meta_len m = blen (meta_enc m).
Proof.
  unfold meta_len, meta_enc. rewrite !blen_app.
  rewrite (osz_oenc _ (nat_tlv 24)) by (intros; apply nat_tlv_len_ok).
  rewrite (osz_oenc _ (fun t => nat_tlv 25 (ms_of t))) by (intros; apply nat_tlv_len_ok).
  rewrite (osz_oenc _ (bin_tlv 26)) by (intros; apply bin_tlv_len_ok).
  lia.
Qed.
Lemma links_len_ok ns : links_len ns = blen (links_enc ns).
Proof.
  induction ns as [|n ns IH]; [reflexivity|]. unfold links_enc in *. cbn [links_len map concat].
  rewrite blen_app, IH, name_tlv_len_ok. reflexivity.
Qed.
Lemma wire_len_ok w : wire_len w = blen (concat w).
Proof. induction w as [|b w IH]; [reflexivity|]. cbn [wire_len fold_right concat]. rewrite blen_app. unfold wire_len in IH. rewrite IH. reflexivity. Qed.
