(* Packet/EncProofs.v — the sizes computed by Init equal the sizes of the bytes written by EncodeInto. *)
From Packet Require Import Model Spec.
From Coq Require Import ZifyBool ZifyN ZifyNat.
Open Scope N_scope.

Lemma tlsz_enc n : tlsz n = blen (tl_enc n).
Proof. unfold tlsz, blen. rewrite tl_enc_length. reflexivity. Qed.

Lemma blen_app a b : blen (a ++ b) = blen a + blen b.
Proof. unfold blen. rewrite app_length. lia. Qed.

Lemma comp_len_enc c : comp_len c = blen (comp_enc c).
Proof. unfold comp_len, comp_enc. rewrite !blen_app, !tlsz_enc. unfold blen. lia. Qed.

Lemma name_len_inner n : name_len n = blen (name_inner n).
Proof.
  induction n as [|c n IH]; [reflexivity|].
  unfold name_inner in *. cbn [name_len map concat]. rewrite blen_app, IH, comp_len_enc. reflexivity.
Qed.

(* the packet encoder writes a name exactly as Name.Bytes() does *)
Lemma name_tlv_bytes n : name_tlv n = name_bytes n.
Proof. unfold name_tlv, tlv, name_bytes. rewrite name_len_inner. reflexivity. Qed.
