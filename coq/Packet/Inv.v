(* Packet/Inv.v — the readers on ARBITRARY input.
   ReadersProofs.v says what an operation returns when the bytes that are really there are known.  Here the converse:
   whenever an operation succeeds — on any byte string, well formed or not — it stayed inside the stream, returned what
   the flat bytes dictate and left a reader over the same bytes at an advanced position.  (Proof pattern: a success
   implies the request was in range; inside the range the forward lemma applies and the operation is a function.)
   Used by Tamper.v, where the parsers run on a packet with a flipped bit. *)
From Packet Require Import Readers ReadersProofs.
From Coq Require Import ZifyBool ZifyN ZifyNat.
Open Scope nat_scope.

Lemma skipn_cons_ex {A} (l : list A) p : p < length l -> exists b t, skipn p l = b :: t.
Proof.
  intros H. destruct (skipn p l) as [|b t] eqn:E; [|eauto].
  assert (E0 : length (skipn p l) = 0) by (rewrite E; reflexivity). rewrite skipn_length in E0. lia.
Qed.

Lemma take_split (all : bytes) p n : p + n <= length all ->
  exists x t, skipn p all = x ++ t /\ length x = n /\ x = firstn n (skipn p all).
Proof.
  intros H. exists (firstn n (skipn p all)), (skipn n (skipn p all)). split; [symmetry; apply firstn_skipn|].
  split; [|reflexivity]. rewrite firstn_length, skipn_length. lia.
Qed.

(* ---------------------------------------------------------------- ReadByte *)
Lemma read_byte_end r all : View r all (length all) -> forall x r', read_byte r <> Ok (x, r').
Proof.
  intros (Hwf & Ha & Hp) x r'. destruct r as [buf q|w s q].
  - simpl in *. subst. assert (Hn : nth_error all (length all) = None) by (apply nth_error_None; lia). rewrite Hn. discriminate.
  - unfold read_byte. destruct (next_seg w s q) as [s1 p1] eqn:En.
    destruct (wr_next _ _ _ _ _ Hwf En) as (Hs1 & Hok1 & Ho & Hlt).
    pose proof (wr_total w s1 p1 Hs1 Hok1) as Ht.
    rewrite nth_error_skipn_hd. destruct (skipn s1 w) as [|cur rest] eqn:Ec; [discriminate|].
    exfalso. rewrite wr_pos_off in Hp. cbn [all_bytes] in Ha. subst all.
    cbn [concat] in Ht. rewrite skipn_length, app_length in Ht. lia.
Qed.

Lemma read_byte_inv r all p x r' : View r all p -> read_byte r = Ok (x, r') ->
  exists t, skipn p all = x :: t /\ View r' all (S p).
Proof.
  intros V E. pose proof (view_le _ _ _ V) as Hle.
  destruct (Nat.eq_dec p (length all)) as [->|Hne].
  - exfalso. exact (read_byte_end _ _ V _ _ E).
  - destruct (skipn_cons_ex all p ltac:(lia)) as (b & t & Hs).
    destruct (read_byte_ok _ _ _ _ _ V Hs) as (r1 & E1 & V1). rewrite E in E1. inversion E1; subst. eauto.
Qed.

Lemma read_be_inv k : forall acc r all p v r', View r all p -> read_be k acc r = Ok (v, r') ->
  exists bs t, length bs = k /\ skipn p all = bs ++ t /\ v = be_val_acc acc bs /\ View r' all (p + k).
Proof.
  induction k as [|k IH]; intros acc r all p v r' V E.
  - simpl in E. inversion E; subst. exists [], (skipn p all). rewrite Nat.add_0_r. auto.
  - cbn [read_be] in E. destruct (read_byte r) as [[x r1]| |] eqn:E1; cbn in E; try discriminate.
    destruct (read_byte_inv _ _ _ _ _ V E1) as (t & Hs & V1).
    destruct (IH _ _ _ _ _ _ V1 E) as (bs & t' & Hl & Hs' & Hv & V2).
    exists (x :: bs), t'. split; [simpl; lia|].
    split. { rewrite Hs. simpl. f_equal. rewrite <- Hs'. symmetry. eapply skipn_S_cons; eauto. }
    split; [exact Hv|]. replace (p + S k) with (S p + k) by lia. exact V2.
Qed.

(* ReadTLNum: the pure decoder of Base/VarNum.v on the bytes at the reader's position *)
Lemma read_tlnum_inv r all p t r' : View r all p -> read_tlnum r = Ok (t, r') ->
  exists k, 1 <= k /\ p + k <= length all /\ tl_dec (skipn p all) = Some (t, skipn (p + k) all) /\ View r' all (p + k).
Proof.
  intros V E. unfold read_tlnum in E.
  destruct (read_byte r) as [[x r1]| |] eqn:E1; cbn in E; try discriminate.
  destruct (read_byte_inv _ _ _ _ _ V E1) as (t0 & Hs & V1).
  pose proof (skipn_S_cons _ _ _ _ Hs) as Hs1.
  destruct (x <=? 252)%N eqn:Ex.
  - inversion E; subst t r'. exists 1. pose proof (view_le _ _ _ V1). split; [lia|]. split; [lia|].
    rewrite Hs. cbn [tl_dec]. rewrite Ex. replace (p + 1) with (S p) by lia. rewrite Hs1. split; [reflexivity|exact V1].
  - set (kk := if (x =? 253)%N then 2 else if (x =? 254)%N then 4 else 8) in *.
    destruct (read_be_inv _ _ _ _ _ _ _ V1 E) as (bs & t' & Hl & Hs' & Hv & V2).
    exists (S kk). pose proof (view_le _ _ _ V2). split; [lia|]. split; [lia|].
    replace (p + S kk) with (S p + kk) by lia. split; [|exact V2].
    rewrite Hs. cbn [tl_dec]. rewrite Ex.
    assert (Ht : take_be kk t0 = Some (t, skipn (S p + kk) all)).
    { unfold take_be. rewrite <- Hs1, Hs'. rewrite app_length, Hl. replace (kk <=? kk + length t') with true by (symmetry; apply Nat.leb_le; lia).
      rewrite firstn_app_le by lia. rewrite <- Hl at 1. rewrite firstn_all.
      rewrite skipn_app_ge by lia. rewrite Hl, Nat.sub_diag. cbn [skipn].
      rewrite <- Hl. rewrite (skipn_skipn_eq _ _ _ _ Hs'). rewrite Hv. reflexivity. }
    unfold kk in *. destruct (x =? 253)%N; [exact Ht|]. destruct (x =? 254)%N; exact Ht.
Qed.

(* ---------------------------------------------------------------- ReadWire / ReadBuf / Skip / Delegate *)
Lemma rd_pos_wr w s q : rd_pos (WR w s q) = q + acc_sz w s.
Proof. reflexivity. Qed.

Lemma read_wire_inv r all p l ws r' : View r all p -> read_wire r l = Ok (ws, r') ->
  (0 <= l)%Z /\ p + Z.to_nat l <= length all /\ concat ws = firstn (Z.to_nat l) (skipn p all) /\ View r' all (p + Z.to_nat l).
Proof.
  intros V E. pose proof (view_le _ _ _ V) as Hle.
  assert (Hin : (0 <= l)%Z /\ p + Z.to_nat l <= length all).
  { destruct V as (Hwf & Ha & Hp). destruct r as [buf q|w s q].
    - simpl in *. subst.
      destruct ((length all <=? p) && (0 <? l)%Z)%bool; [discriminate|].
      destruct ((l <? 0)%Z || (Z.of_nat (length all - p) <? l)%Z)%bool eqn:Ec; [discriminate|]. lia.
    - unfold read_wire in E. destruct (next_seg w s q) as [s1 p1] eqn:En.
      destruct (wr_next _ _ _ _ _ Hwf En) as (Hs1 & Hok1 & Ho & Hlt).
      destruct ((length w <=? s1) && (0 <? l)%Z)%bool; [discriminate|].
      destruct ((l <? 0)%Z || (Z.of_nat (acc_sz w (length w)) - Z.of_nat (p1 + acc_sz w s1) <? l)%Z)%bool eqn:Ec; [discriminate|].
      rewrite wr_pos_off in Hp. cbn [all_bytes] in Ha. subst all. rewrite acc_sz_all in Ec.
      unfold off in Ho, Hp. rewrite acc_sz_concat in Ec. lia. }
  destruct Hin as [H0 Hr]. split; [exact H0|]. split; [exact Hr|].
  destruct (take_split all p (Z.to_nat l) Hr) as (x & t & Hs & Hl & Hx).
  destruct (read_wire_ok _ _ _ _ _ V Hs) as (ws0 & r0 & E0 & Hc & V0).
  rewrite Hl, Z2Nat.id in E0 by lia. rewrite E in E0. inversion E0; subst ws0 r0.
  rewrite Hc, Hx. rewrite Hl in V0. split; [reflexivity|exact V0].
Qed.

Lemma read_buf_inv r all p l x r' : View r all p -> read_buf r l = Ok (x, r') ->
  (0 <= l)%Z /\ p + Z.to_nat l <= length all /\ x = firstn (Z.to_nat l) (skipn p all) /\ View r' all (p + Z.to_nat l).
Proof.
  intros V E. pose proof (view_le _ _ _ V) as Hle.
  assert (Hin : (0 <= l)%Z /\ p + Z.to_nat l <= length all).
  { destruct V as (Hwf & Ha & Hp). destruct r as [buf q|w s q].
    - simpl in *. subst.
      destruct ((l <? 0)%Z || (Z.of_nat (length all - p) <? l)%Z)%bool eqn:Ec; [discriminate|]. lia.
    - unfold read_buf in E.
      destruct ((l <? 0)%Z || (Z.of_nat (acc_sz w (length w)) - Z.of_nat (q + acc_sz w s) <? l)%Z)%bool eqn:Ec; [discriminate|].
      rewrite rd_pos_wr in Hp. cbn [all_bytes] in Ha. subst all. rewrite acc_sz_all in Ec. lia. }
  destruct Hin as [H0 Hr]. split; [exact H0|]. split; [exact Hr|].
  destruct (take_split all p (Z.to_nat l) Hr) as (y & t & Hs & Hl & Hy).
  destruct (read_buf_ok _ _ _ _ _ V Hs) as (r0 & E0 & V0).
  rewrite Hl, Z2Nat.id in E0 by lia. rewrite E in E0. inversion E0; subst.
  rewrite Hl in V0. split; [reflexivity|exact V0].
Qed.

Lemma skip_inv r all p n r' : View r all p -> rd_skip r n = Ok r' ->
  (0 <= n)%Z /\ p + Z.to_nat n <= length all /\ View r' all (p + Z.to_nat n).
Proof.
  intros V E. pose proof (view_le _ _ _ V) as Hle.
  assert (Hin : (0 <= n)%Z /\ p + Z.to_nat n <= length all).
  { destruct V as (Hwf & Ha & Hp). destruct r as [buf q|w s q].
    - simpl in *. subst. destruct (n <? 0)%Z eqn:E1; [discriminate|].
      destruct (Z.of_nat (length all - p) <? n)%Z eqn:E2; [discriminate|]. lia.
    - unfold rd_skip in E. destruct (n <? 0)%Z eqn:E1; [discriminate|].
      destruct (Z.of_nat (acc_sz w (length w)) - Z.of_nat (q + acc_sz w s) <? n)%Z eqn:E2; [discriminate|].
      rewrite rd_pos_wr in Hp. cbn [all_bytes] in Ha. subst all. rewrite acc_sz_all in E2. lia. }
  destruct Hin as [H0 Hr]. split; [exact H0|]. split; [exact Hr|].
  destruct (skip_ok _ _ _ (Z.to_nat n) V ltac:(lia)) as (r0 & E0 & V0).
  rewrite Z2Nat.id in E0 by lia. rewrite E in E0. inversion E0; subst. exact V0.
Qed.

(* Delegate never fails; the receiver afterwards is either untouched (request out of range) or advanced by l *)
Lemma delegate_view r all p l sub r' : View r all p -> delegate r l = Ok (sub, r') ->
  exists p', p <= p' /\ View r' all p'.
Proof.
  intros V E. pose proof (view_le _ _ _ V) as Hle.
  destruct (Z_lt_le_dec l 0) as [Hneg|H0].
  { exists p. split; [lia|]. destruct r as [buf q|w s q].
    - simpl in E. replace (l <? 0)%Z with true in E by lia. cbn [orb] in E. inversion E; subst. exact V.
    - unfold delegate in E. destruct (nth_error w s); [|inversion E; subst; exact V].
      replace (l <? 0)%Z with true in E by lia. cbn [orb] in E. inversion E; subst. exact V. }
  destruct (le_lt_dec (p + Z.to_nat l) (length all)) as [Hr|Hout].
  - destruct (take_split all p (Z.to_nat l) Hr) as (x & t & Hs & Hl & Hx).
    destruct (delegate_ok _ _ _ _ _ V Hs) as (sub0 & r0 & hid & E0 & _ & _ & V0).
    rewrite Hl, Z2Nat.id in E0 by lia. rewrite E in E0. inversion E0; subst. exists (p + Z.to_nat l). split; [lia|]. rewrite <- Hl. exact V0.
  - exists p. split; [lia|]. pose proof V as (Hwf & Ha & Hp). destruct r as [buf q|w s q].
    + simpl in Ha, Hp, E. subst buf q. replace ((l <? 0)%Z || (Z.of_nat (length all - p) <? l)%Z)%bool with true in E by lia.
      inversion E; subst. exact V.
    + unfold delegate in E. destruct (nth_error w s); [|inversion E; subst; exact V].
      rewrite rd_pos_wr in Hp. cbn [all_bytes] in Ha.
      replace ((l <? 0)%Z || (Z.of_nat (acc_sz w (length w)) - Z.of_nat (q + acc_sz w s) <? l)%Z)%bool with true in E
        by (rewrite acc_sz_all, Ha; lia).
      inversion E; subst. exact V.
Qed.
