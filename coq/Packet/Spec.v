(* Packet/Spec.v — reference semantics for C03/C12: what a decoder must return for a packet built from given inputs,
   and which bytes of an Interest its parameters digest covers.  Short enough to read in a minute; no proofs here. *)
From Packet Require Export Model.
Open Scope N_scope.

(* SignatureInfo announced for a signer: only a re-packaging of the signer's configuration *)
Definition data_si_of (sg : option signer) : option siginfo :=
  match data_siginfo sg with Ok (si, _) => si | _ => None end.
Definition int_si_of (sg : option signer) : option siginfo :=
  match int_siginfo sg true with Ok (si, _) => si | _ => None end.

(* decoding the Data built from (name, config, content, signer) must show exactly these values; sv is the signature value
   the signer produced (None when nothing is signed) *)
Definition expected_data (nm : name) (cfg : dconfig) (content : option (list bytes)) (sg : option signer) (sv : option bytes) : data_obs :=
  mkDobs nm (Some (mkMeta (dc_ctype cfg) (dc_fresh cfg) (option_map comp_enc (dc_fbid cfg))))
         (option_map (@concat N) content) (data_si_of sg) sv.

(* decoding the Interest built from (name, config, parameters, signer): `final` is the name with the parameters digest *)
Definition expected_int (final : name) (cfg : iconfig) (app : option (list bytes)) (sg : option signer) (sv : option bytes) : int_obs :=
  mkIobs final (ic_cbp cfg) (ic_mbf cfg) (ic_fh cfg) (option_map (fun x => x mod 4294967296) (ic_nonce cfg)) (ic_life cfg)
         (option_map (fun x => x mod 256) (ic_hop cfg)) (option_map (@concat N) app) (int_si_of sg) sv.

(* NDN packet format 0.3: the ParametersSha256DigestComponent is the SHA-256 of the ApplicationParameters element and
   everything after it, up to the end of the Interest.  Located on the raw bytes with tl_dec only. *)
Fixpoint find_params (fuel : nat) (b : bytes) : option bytes :=
  match fuel with
  | O => None
  | S f =>
      match tl_dec b with
      | None => None
      | Some (t, r1) =>
          if t =? 36 then Some b
          else match tl_dec r1 with
               | None => None
               | Some (l, r2) => if N.of_nat (length r2) <? l then None else find_params f (skipn (N.to_nat l) r2)
               end
      end
  end.
Definition params_digest_region (pkt : bytes) : option bytes :=
  match tl_dec pkt with
  | Some (t, r1) =>
      if t =? 5 then
        match tl_dec r1 with
        | Some (l, r2) => if N.of_nat (length r2) =? l then find_params (S (length r2)) r2 else None
        | None => None
        end
      else None
  | None => None
  end.

(* well-formedness of inputs: the domain the wire format can carry *)
(* a duration the wire format carries: whole milliseconds, any sign (negative values wrap through uint64 and back) *)
Definition dur_wf (d : Z) : Prop := (d mod 1000000 = 0)%Z /\ (- two63z <= d < two63z)%Z.

(* C12, tampering: bit i of a byte string (octet i / 8, bit i mod 8) inverted *)
Definition flip_bit (b : bytes) (i : nat) : bytes :=
  match skipn (i / 8) b with
  | x :: t => firstn (i / 8) b ++ N.lxor x (2 ^ N.of_nat (i mod 8)) :: t
  | [] => b
  end.
(* where the value of the outermost TLV begins (for a Data: the first octet of the signed portion) *)
Definition value_offset (pkt : bytes) : nat :=
  match tl_dec pkt with
  | Some (_, r1) => match tl_dec r1 with Some (_, r2) => (length pkt - length r2)%nat | None => 0%nat end
  | None => 0%nat
  end.
