(* Packet/SigProofs.v — lemmas for C12 (signature coverage, parameters digest, validators). *)
From Packet Require Import Model Spec.
From Coq Require Import ZifyBool ZifyN ZifyNat.
Open Scope N_scope.

Lemma check_interest_bad_digest (sha256 : bytes -> bytes) i cx nm c a :
  i_name i = Some (nm ++ [c]) -> i_app i = Some a ->
  cval c <> sha256 (concat (ix_dcov cx)) -> check_interest sha256 i cx = false.
Proof.
  intros Hn Ha Hd. unfold check_interest. rewrite Hn, Ha. rewrite rev_app_distr. cbn [rev app].
  destruct (i_sv i); (apply andb_false_iff; right; apply not_true_is_false; intros H; apply bytes_eqb_spec in H; congruence).
Qed.
